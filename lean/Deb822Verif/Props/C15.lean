import Deb822Verif.Model.Typed
import Deb822Verif.Props.C04
import Deb822Verif.Props.C18
import Deb822Verif.Lemmas.Text
import Deb822Verif.Lemmas.SplitOn
import Deb822Verif.Lemmas.EnvMap
/-!
# C15 — typed accessors: what a setter writes, its getter reads; nothing else moves

Layer 1 (generic, every prior paragraph): `Paragraph::{get,set,insert,remove}` as list operations on
`pitems` (from the C04 refinement theorems): `C15_set_get`, `C15_set_frame`, `C15_set_single`,
`C15_set_children`, `C15_clear`, `C15_insert_duplicates`.
Layer 2 (codecs): `decode g (encode s v) = v` per compatible shape pair on its canonical values.
Layer 3 (the generated table `Gen/Accessors.lean`, by `decide`): every literal is the documented
Debian field name (`C15_table_names`), every getter/setter pair uses the same literal, compatible
codecs, `set` (not `insert`) and `remove` for clearing (`C15_table_pairs`), and `C15_pair_sound` lifts
a table pair to the set-then-get statement.  Rows of the real code that do not satisfy the table
conditions are listed in `knownBad`, each with a witness theorem.
-/
namespace Deb822Verif.Props.C15
open Deb822Verif Deb Node Text Typed
open Deb822Verif.Props.C04

/-! ## Layer 1 — list level -/

abbrev Items := List (Str × Str)

/-- `get`: value of the first field of that name -/
def lget (l : Items) (k : Str) : Option Str := (l.find? fun f => f.1 == k).map (·.2)
/-- number of fields of that name -/
def count (l : Items) (k : Str) : Nat := (l.filter fun f => f.1 == k).length
/-- the fields of all other names, in order -/
def others (l : Items) (k : Str) : Items := l.filter fun f => f.1 != k

theorem find_entries (es : List DNode) (k : Str) :
    (es.find? (fun e => entryKey e == some k)).map entryValue
      = lget (es.filterMap fun e => (entryKey e).map fun k' => (k', entryValue e)) k := by
  induction es with
  | nil => rfl
  | cons e es ih =>
    cases h : entryKey e with
    | none =>
      simp only [List.find?_cons, List.filterMap_cons, h, Option.map_none]
      have : ((none : Option Str) == some k) = false := by simp
      simp only [this]
      exact ih
    | some k' =>
      by_cases hk : k' = k
      · subst hk
        simp [h, lget]
      · have h1 : (some k' == some k) = false := by simp [hk]
        have h2 : (k' == k) = false := by simp [hk]
        simp only [List.find?_cons, List.filterMap_cons, h, Option.map_some, h1, lget, h2]
        exact ih

/-- `Paragraph::get` is the list lookup on `items` -/
theorem C15_refine_get (cs : List DNode) (k : Str) : pget cs k = lget (pitems cs) k := by
  unfold pget Deb.get pitems items
  exact find_entries _ k

theorem lget_cons (f : Str × Str) (fs : Items) (k : Str) :
    lget (f :: fs) k = if f.1 = k then some f.2 else lget fs k := by
  by_cases h : f.1 = k <;> simp [lget, h]

theorem count_cons (f : Str × Str) (fs : Items) (k : Str) :
    count (f :: fs) k = (if f.1 = k then 1 else 0) + count fs k := by
  by_cases h : f.1 = k <;> simp [count, h] <;> omega

theorem others_cons (f : Str × Str) (fs : Items) (k : Str) :
    others (f :: fs) k = if f.1 = k then others fs k else f :: others fs k := by
  by_cases h : f.1 = k <;> simp [others, h]

theorem lget_set_same (l : Items) (k v : Str) : lget (ListSpec.set l k v) k = some v := by
  induction l with
  | nil => simp [ListSpec.set, lget_cons]
  | cons f fs ih =>
    simp only [ListSpec.set]
    split
    · simp [lget_cons]
    · rename_i h; simp [lget_cons, h, ih]

theorem lget_set_other (l : Items) (k v k' : Str) (h : k' ≠ k) :
    lget (ListSpec.set l k v) k' = lget l k' := by
  induction l with
  | nil => simp [ListSpec.set, h.symm, lget]
  | cons f fs ih =>
    simp only [ListSpec.set]
    split
    · rename_i hf
      have : f.1 ≠ k' := by rw [hf]; exact h.symm
      simp [lget_cons, h.symm, this]
    · simp [lget_cons, ih]

theorem others_set (l : Items) (k v : Str) : others (ListSpec.set l k v) k = others l k := by
  induction l with
  | nil => simp [ListSpec.set, others]
  | cons f fs ih =>
    simp only [ListSpec.set]
    split
    · rename_i hf; simp [others_cons, hf]
    · rename_i hf; simp [others_cons, hf, ih]

theorem count_set (l : Items) (k v : Str) :
    count (ListSpec.set l k v) k = if count l k = 0 then 1 else count l k := by
  induction l with
  | nil => simp [ListSpec.set, count]
  | cons f fs ih =>
    simp only [ListSpec.set]
    split
    · rename_i hf
      simp only [count_cons, hf, ↓reduceIte]
      split <;> omega
    · rename_i hf
      simp only [count_cons, hf, ↓reduceIte, ih, Nat.zero_add]

theorem count_zero_iff (l : Items) (k : Str) : count l k = 0 ↔ lget l k = none := by
  induction l with
  | nil => simp [count, lget]
  | cons f fs ih =>
    rw [count_cons, lget_cons]
    split
    · simp
    · simpa using ih

/-- with the name present `set` keeps the sequence of names; absent, it appends -/
theorem names_set (l : Items) (k v : Str) :
    (ListSpec.set l k v).map (·.1) =
      if lget l k = none then l.map (·.1) ++ [k] else l.map (·.1) := by
  induction l with
  | nil => simp [ListSpec.set, lget]
  | cons f fs ih =>
    simp only [ListSpec.set, lget_cons]
    split
    · rename_i hf; simp [hf]
    · rename_i hf
      simp only [List.map_cons, ih]
      split <;> simp

theorem remove_eq_others (l : Items) (k : Str) : ListSpec.remove l k = others l k := by
  unfold ListSpec.remove others
  congr 1
  funext f
  by_cases h : f.1 = k <;> simp [h]

theorem lget_others_same (l : Items) (k : Str) : lget (others l k) k = none := by
  induction l with
  | nil => simp [others, lget]
  | cons f fs ih =>
    rw [others_cons]
    split
    · exact ih
    · rename_i hf; simp [lget_cons, hf, ih]

theorem lget_others_other (l : Items) (k k' : Str) (h : k' ≠ k) :
    lget (others l k) k' = lget l k' := by
  induction l with
  | nil => simp [others]
  | cons f fs ih =>
    rw [others_cons]
    split
    · rename_i hf
      have : f.1 ≠ k' := by rw [hf]; exact h.symm
      simp [lget_cons, this, ih]
    · simp [lget_cons, ih]

theorem lget_remove_same (l : Items) (k : Str) : lget (ListSpec.remove l k) k = none := by
  rw [remove_eq_others, lget_others_same]

theorem lget_remove_other (l : Items) (k k' : Str) (h : k' ≠ k) :
    lget (ListSpec.remove l k) k' = lget l k' := by
  rw [remove_eq_others, lget_others_other _ _ _ h]

theorem count_others (l : Items) (k : Str) : count (others l k) k = 0 := by
  induction l with
  | nil => simp [others, count]
  | cons f fs ih =>
    rw [others_cons]
    split
    · exact ih
    · rename_i hf; simp [count_cons, hf, ih]

theorem others_others (l : Items) (k : Str) : others (others l k) k = others l k := by
  simp [others]

theorem lget_append (a b : Items) (k : Str) :
    lget (a ++ b) k = match lget a k with
      | some v => some v
      | none => lget b k := by
  induction a with
  | nil => simp [lget]
  | cons f fs ih =>
    simp only [List.cons_append, lget_cons]
    split
    · rfl
    · exact ih

theorem count_append (a b : Items) (k : Str) : count (a ++ b) k = count a k + count b k := by
  simp [count, List.filter_append]

/-! ## Layer 1 — on the paragraph tree (every prior paragraph `cs`) -/

/-- after `set(k, v)`, `get(k)` is `v` — whether or not the field existed, whatever else is there -/
theorem C15_set_get (cs : List DNode) (k v : Str) : pget (paraSet cs k v) k = some v := by
  rw [C15_refine_get, C04_refine_set, lget_set_same]

/-- `set(k, v)` changes no other name: every other `get` is unchanged, and the fields of other
    names are the same list in the same order -/
theorem C15_set_frame (cs : List DNode) (k v : Str) :
    (∀ k', k' ≠ k → pget (paraSet cs k v) k' = pget cs k')
    ∧ others (pitems (paraSet cs k v)) k = others (pitems cs) k := by
  refine ⟨fun k' h => ?_, ?_⟩
  · rw [C15_refine_get, C15_refine_get, C04_refine_set, lget_set_other _ _ _ _ h]
  · rw [C04_refine_set, others_set]

/-- a name that occurred at most once before occurs exactly once after `set` -/
theorem C15_set_single (cs : List DNode) (k v : Str) (h : count (pitems cs) k ≤ 1) :
    count (pitems (paraSet cs k v)) k = 1 := by
  rw [C04_refine_set, count_set]
  split <;> omega

/-- an existing field keeps its place among the fields; a new one is appended -/
theorem C15_set_position (cs : List DNode) (k v : Str) :
    (pitems (paraSet cs k v)).map (·.1) =
      if pget cs k = none then (pitems cs).map (·.1) ++ [k] else (pitems cs).map (·.1) := by
  rw [C04_refine_set, names_set, C15_refine_get]

/-- tree level: when the field exists, `set` swaps exactly that one ENTRY node; every other child of
    the paragraph (comments, other fields, white space) is the same node at the same place -/
theorem C15_set_children (cs : List DNode) (k v : Str) (h : ∃ c ∈ cs, isEntryWithKey k c = true) :
    ∃ pre e post, cs = pre ++ e :: post ∧ isEntryWithKey k e = true
      ∧ (∀ c ∈ pre, isEntryWithKey k c = false)
      ∧ paraSet cs k v = pre ++ entryNew k v :: post := by
  have key : ∀ cs : List DNode, (∃ c ∈ cs, isEntryWithKey k c = true) →
      ∃ pre e post, cs = pre ++ e :: post ∧ isEntryWithKey k e = true
        ∧ (∀ c ∈ pre, isEntryWithKey k c = false)
        ∧ replaceFirst (isEntryWithKey k) (fun _ => entryNew k v) cs = some (pre ++ entryNew k v :: post) := by
    intro cs
    induction cs with
    | nil => intro ⟨c, hc, _⟩; simp at hc
    | cons c cs ih =>
      intro hex
      by_cases hc : isEntryWithKey k c = true
      · exact ⟨[], c, cs, rfl, hc, by simp, by simp [replaceFirst, hc]⟩
      · have hc' : isEntryWithKey k c = false := by simpa using hc
        have : ∃ c ∈ cs, isEntryWithKey k c = true := by
          obtain ⟨x, hx, hxk⟩ := hex
          simp only [List.mem_cons] at hx
          rcases hx with rfl | hx
          · rw [hc'] at hxk; cases hxk
          · exact ⟨x, hx, hxk⟩
        obtain ⟨pre, e, post, h1, h2, h3, h4⟩ := ih this
        refine ⟨c :: pre, e, post, by simp [h1], h2, ?_, ?_⟩
        · intro x hx
          simp only [List.mem_cons] at hx
          rcases hx with rfl | hx
          · exact hc'
          · exact h3 x hx
        · simp [replaceFirst, hc', h4]
  obtain ⟨pre, e, post, h1, h2, h3, h4⟩ := key cs h
  exact ⟨pre, e, post, h1, h2, h3, by simp [paraSet, h4]⟩

/-- clearing: after `remove(k)` the field is gone (every copy of it) and nothing else changed -/
theorem C15_clear (cs : List DNode) (k : Str) :
    pget (paraRemove cs k) k = none
    ∧ count (pitems (paraRemove cs k)) k = 0
    ∧ (∀ k', k' ≠ k → pget (paraRemove cs k) k' = pget cs k')
    ∧ others (pitems (paraRemove cs k)) k = others (pitems cs) k := by
  refine ⟨?_, ?_, fun k' h => ?_, ?_⟩
  · rw [C15_refine_get, C04_refine_remove, lget_remove_same]
  · rw [C04_refine_remove, remove_eq_others, count_others]
  · rw [C15_refine_get, C15_refine_get, C04_refine_remove, lget_remove_other _ _ _ h]
  · rw [C04_refine_remove, remove_eq_others, others_others]

/-- why a setter written with `insert` violates the property: on an existing field it adds a second
    one and `get` keeps returning the OLD value -/
theorem C15_insert_duplicates (cs : List DNode) (k v old : Str) (h : pget cs k = some old) :
    pget (paraInsert cs k v) k = some old
    ∧ count (pitems (paraInsert cs k v)) k = count (pitems cs) k + 1 := by
  rw [C15_refine_get] at h
  refine ⟨?_, ?_⟩
  · rw [C15_refine_get, C04_refine_insert, ListSpec.insert, lget_append, h]
  · rw [C04_refine_insert, ListSpec.insert, count_append]
    simp [count]

/-- … and why it goes unnoticed on the first call: on an absent field `insert` acts like `set` -/
theorem C15_insert_absent (cs : List DNode) (k v : Str) (h : pget cs k = none) :
    pget (paraInsert cs k v) k = some v ∧ pitems (paraInsert cs k v) = pitems (paraSet cs k v) := by
  rw [C15_refine_get] at h
  refine ⟨?_, ?_⟩
  · rw [C15_refine_get, C04_refine_insert, ListSpec.insert, lget_append, h]
    simp [lget]
  · rw [C04_refine_insert, C04_refine_set, ListSpec.insert]
    have : ∀ f ∈ pitems cs, f.1 ≠ k := by
      have hc := (count_zero_iff (pitems cs) k).2 h
      intro f hf e
      have : f ∈ (pitems cs).filter fun f => f.1 == k := by simp [hf, e]
      simp only [count, List.length_eq_zero_iff] at hc
      rw [hc] at this
      simp at this
    have := set_skip (pitems cs) [] k v this
    simpa [ListSpec.set] using this.symm

/-! ### accessors over several names (Author / From, Description / Subject)

The getter reads `firstOf names` (`get(A).or_else(|| get(B))`), the setter writes `target`: the first
of the names that is present, else its default name. -/

theorem target_mem (cs : List DNode) (names : List Str) (dflt : Str) (hd : dflt ∈ names) :
    target cs names dflt ∈ names := by
  unfold target
  cases h : names.find? fun n => (pget cs n).isSome with
  | some n => exact List.mem_of_find?_eq_some h
  | none => exact hd

theorem firstOf_none_iff (cs : List DNode) (names : List Str) :
    firstOf cs names = none ↔ ∀ n ∈ names, pget cs n = none := by
  induction names with
  | nil => simp [firstOf]
  | cons n ns ih =>
    simp only [firstOf]
    cases h : pget cs n with
    | some v => simp [h]
    | none => simp [h, ih]

theorem firstOf_set_present (cs : List DNode) (names : List Str) (k v : Str)
    (h : (names.find? fun n => (pget cs n).isSome) = some k) :
    firstOf (paraSet cs k v) names = some v := by
  induction names with
  | nil => simp at h
  | cons n ns ih =>
    simp only [List.find?_cons] at h
    cases hp : (pget cs n).isSome with
    | true =>
      rw [hp] at h
      simp only [Option.some.injEq] at h
      subst h
      simp [firstOf, C15_set_get]
    | false =>
      rw [hp] at h
      have hk : (pget cs k).isSome = true := by simpa using List.find?_some h
      have hne : n ≠ k := by
        intro e; subst e; rw [hp] at hk; cases hk
      have hn : pget (paraSet cs k v) n = none := by
        rw [(C15_set_frame cs k v).1 n hne]
        simpa using hp
      simp only [firstOf, hn]
      exact ih h

theorem firstOf_set_absent (cs : List DNode) (names : List Str) (k v : Str)
    (h : ∀ n ∈ names, pget cs n = none) (hk : k ∈ names) :
    firstOf (paraSet cs k v) names = some v := by
  induction names with
  | nil => simp at hk
  | cons n ns ih =>
    by_cases e : n = k
    · subst e; simp [firstOf, C15_set_get]
    · have hn : pget (paraSet cs k v) n = none := by
        rw [(C15_set_frame cs k v).1 n e]; exact h n (by simp)
      simp only [firstOf, hn]
      have : k ∈ ns := by
        simp only [List.mem_cons] at hk
        rcases hk with hk | hk
        · exact absurd hk.symm e
        · exact hk
      exact ih (fun m hm => h m (by simp [hm])) this

/-- whatever the prior paragraph: after writing `v` to the target field, the getter's
    `get(A).or_else(|| get(B))` chain reads `v` -/
theorem C15_target_get (cs : List DNode) (names : List Str) (dflt v : Str) (hd : dflt ∈ names) :
    firstOf (paraSet cs (target cs names dflt) v) names = some v := by
  unfold target
  cases h : names.find? fun n => (pget cs n).isSome with
  | some k => exact firstOf_set_present cs names k v h
  | none =>
    apply firstOf_set_absent cs names dflt v _ hd
    intro n hn
    have := List.find?_eq_none.1 h n hn
    simpa using this

/-- the text the setter sees as "old" is the text of the field it is about to write -/
theorem C15_target_old (cs : List DNode) (names : List Str) (dflt : Str) :
    firstOf cs names = none ∨ firstOf cs names = pget cs (target cs names dflt) := by
  unfold target
  induction names with
  | nil => left; rfl
  | cons n ns ih =>
    simp only [firstOf, List.find?_cons]
    cases hp : pget cs n with
    | some v => right; simp [hp]
    | none =>
      simp only [Option.isSome_none]
      exact ih

/-! ### sequences of setters on one paragraph -/

/-- a history of `set` calls -/
def applySets (cs : List DNode) : List (Str × Str) → List DNode
  | [] => cs
  | kv :: rest => applySets (paraSet cs kv.1 kv.2) rest

/-- the last value a history sets for `k` -/
def lastSet (k : Str) : List (Str × Str) → Option Str
  | [] => none
  | kv :: rest =>
    match lastSet k rest with
    | some v => some v
    | none => if kv.1 = k then some kv.2 else none

/-- after any sequence of setters every field reads the LAST value set for it, and a field no
    setter touched reads what it read before -/
theorem C15_seq_sets (cs : List DNode) (steps : List (Str × Str)) (k : Str) :
    pget (applySets cs steps) k = match lastSet k steps with
      | some v => some v
      | none => pget cs k := by
  induction steps generalizing cs with
  | nil => rfl
  | cons kv rest ih =>
    simp only [applySets, lastSet]
    rw [ih]
    cases lastSet k rest with
    | some v => rfl
    | none =>
      by_cases h : kv.1 = k
      · subst h; simp [C15_set_get]
      · simp only [h, ↓reduceIte]
        exact (C15_set_frame cs kv.1 kv.2).1 k (fun e => h e.symm)

/-- the fields whose name is not in `S`, in order -/
def keep (S : List Str) (l : Items) : Items := l.filter fun f => !S.contains f.1

theorem keep_bool (k : Str) (S : List Str) (x : Str) :
    (!(k :: S).contains x) = ((x != k) && !S.contains x) := by
  by_cases e : x = k <;> cases h : S.contains x <;> simp_all

theorem keep_cons (k : Str) (S : List Str) (l : Items) : keep (k :: S) l = keep S (others l k) := by
  simp only [keep, others, List.filter_filter]
  congr 1
  funext f
  rw [keep_bool, Bool.and_comm]

theorem keep_others (k : Str) (S : List Str) (l : Items) : keep S (others l k) = others (keep S l) k := by
  simp only [keep, others, List.filter_filter]
  congr 1
  funext f
  exact Bool.and_comm _ _

/-- … and the fields no setter of the sequence names are the same list in the same order -/
theorem C15_seq_frame (cs : List DNode) (steps : List (Str × Str)) :
    keep (steps.map (·.1)) (pitems (applySets cs steps)) = keep (steps.map (·.1)) (pitems cs) := by
  induction steps generalizing cs with
  | nil => rfl
  | cons kv rest ih =>
    simp only [applySets, List.map_cons]
    rw [keep_cons, keep_others, ih (paraSet cs kv.1 kv.2), ← keep_others, (C15_set_frame cs kv.1 kv.2).2,
      ← keep_cons]

example : ∃ cs k old, pget cs k = some old :=
  ⟨[entryNew "A".toList "b".toList], "A".toList, "b".toList, by decide +kernel⟩

/-! ## Layer 2 — codecs: the getter's reading of the text its setter writes

`RoundTrip g s v`: a setter of shape `s` given `v` writes a text that a getter of shape `g` reads as
`v` (whatever the getter's strictness).  One theorem per compatible shape pair, with the exact
canonicity condition on `v`. -/

def RoundTrip (g s : Shape) (v : Val) : Prop :=
  ∀ strict assume, (encode s v).map (decode g strict assume) = some v

theorem C15_codec_str (x : Str) : RoundTrip .str .str (.text x) := fun _ _ => rfl

/-- typed values of the modelled types: the printed text parses back to the same printed text -/
theorem C15_codec_typed (ty x : Str) (h : tyParse ty x = .ok x) :
    RoundTrip (.typed ty) (.typed ty) (.text x) := by
  intro st a
  simp [encode, decode, tyVal, h]

/-- keyword enumerations used by accessors: every printed keyword is canonical (generated tables) -/
theorem C15_codec_enum :
    ∀ p ∈ [("Priority".toList, Gen.Enums.priority), ("MultiArch".toList, Gen.Enums.multiArch),
           ("Urgency".toList, Gen.Enums.urgency)],
      ∀ kw ∈ Enum.printed p.2, tyParse p.1 kw = .ok kw := by decide

theorem C15_codec_usize (n : Nat) (h : n < Codec.usizeBound) :
    tyParse "usize".toList (Codec.decDigits n) = .ok (Codec.decDigits n) := by
  have e1 : ("usize".toList = "Priority".toList) = False := by decide
  have e2 : ("usize".toList = "MultiArch".toList) = False := by decide
  have e3 : ("usize".toList = "Urgency".toList) = False := by decide
  simp only [tyParse, e1, e2, e3, ↓reduceIte, C18.parseUsize_decDigits n h]

theorem C15_codec_checksum (c : Codec.Checksum) (h : C18.CanonChecksum c) :
    ∀ ty ∈ checksumTypes, tyParse ty c.print = .ok c.print := by
  intro ty hty
  have hc : checksumTypes.contains ty = true := by simpa using hty
  have : ∀ ty ∈ checksumTypes, ty ≠ "Priority".toList ∧ ty ≠ "MultiArch".toList
      ∧ ty ≠ "Urgency".toList ∧ ty ≠ "usize".toList := by decide
  obtain ⟨n1, n2, n3, n4⟩ := this ty hty
  simp only [tyParse, n1, n2, n3, n4, ↓reduceIte, hc, C18.C18_checksum_roundtrip c h]

theorem map_id_on {α : Type} (f : α → α) (l : List α) (h : ∀ x ∈ l, f x = x) : l.map f = l := by
  induction l with
  | nil => rfl
  | cons x xs ih => simp [h x (by simp), ih (fun z hz => h z (by simp [hz]))]

theorem listVal_texts (l : List Str) : listVal (l.map Val.text) = .list l := by
  induction l with
  | nil => rfl
  | cons x xs ih => simp [listVal, ih]

theorem splitOn_join (sep : Char) (l : List Str) (hne : l ≠ []) (h : ∀ x ∈ l, sep ∉ x) :
    splitOn sep (join [sep] l) = l := by
  induction l with
  | nil => exact absurd rfl hne
  | cons x xs ih =>
    cases xs with
    | nil => simp [join, Text.splitOn_none sep x (h x (by simp))]
    | cons y ys =>
      have hx := h x (by simp)
      have e : join [sep] (x :: y :: ys) = x ++ sep :: join [sep] (y :: ys) := by simp [join]
      rw [e, Text.splitOn_cons sep x _ hx, ih (by simp) (fun z hz => h z (by simp [hz]))]

/-- newline-separated string lists (`Files-Excluded`, `Copyright`) -/
theorem C15_codec_list_nl (l : List Str) (tr : Bool) (hne : l ≠ []) (h : ∀ x ∈ l, '\n' ∉ x) :
    RoundTrip (.list .nl false .str) (.list .nl tr .str) (.list l) := by
  intro st a
  have : sepText .nl = ['\n'] := by decide
  simp [encode, decode, splitBy, this, splitOn_join '\n' l hne h]

/-- space-separated string lists read with `split(' ')` -/
theorem C15_codec_list_space (l : List Str) (tr : Bool) (hne : l ≠ []) (h : ∀ x ∈ l, ' ' ∉ x) :
    RoundTrip (.list .space false .str) (.list .space tr .str) (.list l) := by
  intro st a
  have : sepText .space = [' '] := by decide
  simp [encode, decode, splitBy, this, splitOn_join ' ' l hne h]

/-- … and with `split(' ')` followed by `trim()` -/
theorem C15_codec_list_space_trim (l : List Str) (tr : Bool) (hne : l ≠ []) (h : ∀ x ∈ l, ' ' ∉ x)
    (ht : ∀ x ∈ l, trim x = x) :
    RoundTrip (.list .space true .str) (.list .space tr .str) (.list l) := by
  intro st a
  have : sepText .space = [' '] := by decide
  simp only [encode, decode, splitBy, this, splitOn_join ' ' l hne h, Option.map_some, ↓reduceIte]
  congr 2
  exact map_id_on _ l ht

theorem splitWs_join (l : List Str) (h : ∀ x ∈ l, C18.Tok x) : splitWhitespace (join [' '] l) = l := by
  induction l with
  | nil => rfl
  | cons x xs ih =>
    cases xs with
    | nil => simp [join, C18.sw_single x (h x (by simp))]
    | cons y ys =>
      have e : join [' '] (x :: y :: ys) = x ++ ' ' :: join [' '] (y :: ys) := by simp [join]
      rw [e, C18.sw_cons x _ (h x (by simp)), ih (fun z hz => h z (by simp [hz]))]

/-- space-separated lists read with `split_whitespace()` (`Architectures`, `Components`): any list
    of tokens, the empty list included -/
theorem C15_codec_list_ws (l : List Str) (tr : Bool) (h : ∀ x ∈ l, C18.Tok x) :
    RoundTrip (.list .ws false .str) (.list .space tr .str) (.list l) := by
  intro st a
  have : sepText .space = [' '] := by decide
  simp [encode, decode, splitBy, this, splitWs_join l h]

theorem trim_cons_space (y : Str) : trim (' ' :: y) = trim y := by
  have : isWhitespace ' ' = true := by decide
  simp [trim, trimStart, this]

theorem splitOn_comma_join (p x : Str) (xs : List Str) (hp : ',' ∉ p) (h : ∀ z ∈ x :: xs, ',' ∉ z) :
    splitOn ',' (p ++ join ", ".toList (x :: xs)) = (p ++ x) :: xs.map (' ' :: ·) := by
  induction xs generalizing p x with
  | nil =>
    have : ',' ∉ p ++ x := by
      have := h x (by simp)
      simp [hp, this]
    simp [join, Text.splitOn_none ',' _ this]
  | cons y ys ih =>
    have hx : ',' ∉ p ++ x := by
      have := h x (by simp)
      simp [hp, this]
    have e : p ++ join ", ".toList (x :: y :: ys) = (p ++ x) ++ ',' :: ([' '] ++ join ", ".toList (y :: ys)) := by
      simp [join]
    have hz' : ∀ z ∈ y :: ys, ',' ∉ z := fun z hz => h z (List.mem_cons_of_mem _ hz)
    rw [e, Text.splitOn_cons ',' _ _ hx, ih [' '] y (by decide) hz']
    simp

/-- comma lists (`Uploaders`, `Changelogs`): written `a, b`, read by `split(',')` + `trim()` -/
theorem C15_codec_list_comma (l : List Str) (tr : Bool) (hne : l ≠ []) (h : ∀ x ∈ l, ',' ∉ x)
    (ht : ∀ x ∈ l, trim x = x) :
    RoundTrip (.list .comma true .str) (.list .comma tr .str) (.list l) := by
  intro st a
  cases l with
  | nil => exact absurd rfl hne
  | cons x xs =>
    have e := splitOn_comma_join [] x xs (by simp) h
    simp only [List.nil_append] at e
    have : sepText .comma = ", ".toList := rfl
    simp only [encode, decode, splitBy, this, e, Option.map_some, ↓reduceIte, List.map_cons, List.map_map]
    congr 2
    rw [ht x (by simp)]
    congr 1
    have : ∀ z ∈ xs, (trim ∘ fun t => ' ' :: t) z = z := by
      intro z hz
      simp [trim_cons_space, ht z (by simp [hz])]
    exact map_id_on _ xs this

theorem rawLines_single (x : Str) (hne : x ≠ []) (h : '\n' ∉ x) : rawLines x = [(x, false)] := by
  induction x with
  | nil => exact absurd rfl hne
  | cons c cs ih =>
    have hc : c ≠ '\n' := by intro e; apply h; simp [e]
    have hcs : '\n' ∉ cs := by intro e; apply h; simp [e]
    cases cs with
    | nil => simp [rawLines, hc]
    | cons d ds =>
      have := ih (by simp) hcs
      rw [rawLines]
      simp only [hc, ↓reduceIte, this]

theorem lines_join (l : List Str) (h : ∀ x ∈ l, LineOK x ∧ x ≠ []) : lines (join ['\n'] l) = l := by
  induction l with
  | nil => rfl
  | cons x xs ih =>
    cases xs with
    | nil =>
      have := h x (by simp)
      simp [join, lines, rawLines_single x this.2 this.1.1]
    | cons y ys =>
      have e : join ['\n'] (x :: y :: ys) = x ++ '\n' :: join ['\n'] (y :: ys) := by simp [join]
      rw [e, lines_line_cons x _ (h x (by simp)).1, ih (fun z hz => h z (by simp [hz]))]

/-- line lists of typed records (`Files`, `Checksums-*`): written one `to_string()` per line, read by
    `lines()` + `parse().unwrap()`; the empty list included -/
theorem C15_codec_list_lines (ty : Str) (l : List Str) (tr : Bool)
    (h : ∀ x ∈ l, LineOK x ∧ x ≠ []) (hp : ∀ x ∈ l, tyParse ty x = .ok x) :
    RoundTrip (.list .lines false (.typed ty)) (.list .nl tr (.typed ty)) (.list l) := by
  intro st a
  have e1 : sepText .nl = ['\n'] := by decide
  have e2 : l.map (tyVal ty true a) = l.map Val.text := by
    apply List.map_congr_left
    intro x hx
    simp [tyVal, hp x hx]
  simp [encode, decode, splitBy, e1, lines_join l h, e2, listVal_texts]

/-- yes/no flags -/
theorem C15_codec_flags (b : Bool) :
    RoundTrip .flagYes .flagYesNo (.flag b) ∧ RoundTrip .flagYesNo .flagYesNo (.flag b)
    ∧ RoundTrip .flagYes .flagYesOrRemove (.flag true) := by
  refine ⟨?_, ?_, ?_⟩ <;> intro st a <;> cases b <;> cases st <;> cases a <;> decide

theorem C15_codec_license (l : Codec.License) (h : C18.CanonLicense l) :
    RoundTrip .license .license (.license l) := by
  intro st a
  simp [encode, decode, C18.C18_license_roundtrip l h]

/-- the actual `FilesParagraph::set_license` writes `License::Text(t)` without the empty first line:
    its text reads back as a licence NAME (or name + text) -/
theorem C15_codec_license_bare_text_wrong :
    (encode .licenseBareText (.license (.text "some text".toList))).map (decode .license false false)
      = some (.license (.name "some text".toList)) := by decide

theorem C15_codec_origin (cat : Option Str) (o : Codec.Origin) (h : C18.CanonOriginField cat o) :
    RoundTrip .originField .originField (.origin cat o) := by
  intro st a
  simp [encode, decode, C18.C18_originfield_roundtrip cat o h]

example : C18.CanonOriginField (some "Upstream".toList) (.commit "abc".toList) :=
  ⟨trivial, by decide⟩
example : ∀ x ∈ ["a".toList, "b c".toList], ',' ∉ x := by decide

/-! ### DEP-3 synopsis and long description: two readings of one field -/

theorem splitOnFirst_nl_spec (o : Str) :
    (∀ r, Codec.splitOnFirst ['\n'] o = some r → '\n' ∉ r.1 ∧ o = r.1 ++ '\n' :: r.2)
    ∧ (Codec.splitOnFirst ['\n'] o = none → '\n' ∉ o) := by
  induction o with
  | nil => simp [Codec.splitOnFirst]
  | cons c cs ih =>
    by_cases hc : c = '\n'
    · subst hc
      refine ⟨fun r h => ?_, fun h => ?_⟩
      · simp [Codec.splitOnFirst] at h
        subst h
        simp
      · simp [Codec.splitOnFirst] at h
    · have hp : (['\n'] : Str).isPrefixOf (c :: cs) = false := by
        simp [List.isPrefixOf, hc, Ne.symm hc]
      refine ⟨fun r h => ?_, fun h => ?_⟩
      · simp only [Codec.splitOnFirst, hp, Bool.false_eq_true, ↓reduceIte] at h
        cases hs : Codec.splitOnFirst ['\n'] cs with
        | none => rw [hs] at h; cases h
        | some r' =>
          rw [hs] at h
          simp only [Option.some.injEq] at h
          subst h
          obtain ⟨h1, h2⟩ := ih.1 r' hs
          refine ⟨?_, ?_⟩
          · simp [hc, Ne.symm hc, h1]
          · simp [← h2]
      · simp only [Codec.splitOnFirst, hp, Bool.false_eq_true, ↓reduceIte] at h
        cases hs : Codec.splitOnFirst ['\n'] cs with
        | none => simp [hc, Ne.symm hc, ih.2 hs]
        | some r' => rw [hs] at h; cases h

theorem firstLineOf_no_nl (o : Str) : '\n' ∉ firstLineOf o := by
  unfold firstLineOf
  cases h : Codec.splitOnFirst ['\n'] o with
  | some r => exact ((splitOnFirst_nl_spec o).1 r h).1
  | none => exact (splitOnFirst_nl_spec o).2 h

theorem decode_firstLine_cons (s rest : Str) (h : '\n' ∉ s) (st a : Bool) :
    decode .firstLine st a (s ++ '\n' :: rest) = .text s := by
  simp [decode, Text.splitOn_cons '\n' s rest h]

theorem decode_firstLine_single (s : Str) (h : '\n' ∉ s) (st a : Bool) :
    decode .firstLine st a s = .text s := by
  simp [decode, Text.splitOn_none '\n' s h]

theorem decode_restLines_cons (s rest : Str) (h : '\n' ∉ s) (st a : Bool) :
    decode .restLines st a (s ++ '\n' :: rest) = .text rest := by
  have := C18.splitOnFirst_found '\n' [] s rest h
  simp only [List.append_assoc, List.cons_append, List.nil_append] at this
  simp [decode, this]

theorem decode_restLines_single (s : Str) (h : '\n' ∉ s) (st a : Bool) :
    decode .restLines st a s = .text [] := by
  simp [decode, C18.splitOnFirst_none '\n' [] s h]

/-- `set_description(v)` then `description()`: `v`, for a one-line `v`, whatever the field held
    before (absent, one line, several lines) -/
theorem C15_codec_first_line (old : Option Str) (v : Str) (h : '\n' ∉ v) (st a : Bool) :
    (writeText .firstLine old (.text v)).map (decode .firstLine st a) = some (.text v) := by
  cases old with
  | none =>
    simp only [writeText, Option.map_some, Option.some.injEq]
    exact decode_firstLine_single v h st a
  | some o =>
    simp only [writeText, Option.map_some, Option.some.injEq]
    cases hs : Codec.splitOnFirst ['\n'] o with
    | some r => exact decode_firstLine_cons v r.2 h st a
    | none => exact decode_firstLine_single v h st a

/-- `set_long_description(v)` then `long_description()`: `v`, when the field exists -/
theorem C15_codec_rest_lines (o v : Str) (st a : Bool) :
    (writeText .restLines (some o) (.text v)).map (decode .restLines st a) = some (.text v) := by
  simp only [writeText, Option.map_some, Option.some.injEq]
  split
  · rename_i hv; subst hv
    exact decode_restLines_single _ (firstLineOf_no_nl o) st a
  · exact decode_restLines_cons _ v (firstLineOf_no_nl o) st a

/-- open finding F-C15-8: on an ABSENT field `set_long_description(v)` stores `v` as the whole
    field, so its first line becomes the synopsis and `long_description()` does not return `v` -/
theorem C15_codec_rest_lines_absent_wrong :
    (writeText .restLines none (.text "fix a bug".toList)).map (decode .restLines false false)
      = some (.text []) ∧
    (writeText .restLines none (.text "fix a bug".toList)).map (decode .firstLine false false)
      = some (.text "fix a bug".toList) := by decide +kernel

/-- the two setters do not disturb each other's reading: `set_description` keeps the long
    description, `set_long_description` keeps the synopsis -/
theorem C15_synopsis_long_independent (o v : Str) (st a : Bool) :
    ('\n' ∉ v → (writeText .firstLine (some o) (.text v)).map (decode .restLines st a)
        = some (decode .restLines st a o))
    ∧ (writeText .restLines (some o) (.text v)).map (decode .firstLine st a)
        = some (decode .firstLine st a o) := by
  refine ⟨fun hv => ?_, ?_⟩
  · simp only [writeText, Option.map_some, Option.some.injEq]
    cases hs : Codec.splitOnFirst ['\n'] o with
    | some r =>
      obtain ⟨h1, h2⟩ := (splitOnFirst_nl_spec o).1 r hs
      rw [decode_restLines_cons v r.2 hv]
      conv => rhs; rw [h2]
      rw [decode_restLines_cons r.1 r.2 h1]
    | none =>
      have := (splitOnFirst_nl_spec o).2 hs
      rw [decode_restLines_single v hv, decode_restLines_single o this]
  · simp only [writeText, Option.map_some, Option.some.injEq]
    have hf := firstLineOf_no_nl o
    have hold : decode .firstLine st a o = .text (firstLineOf o) := by
      unfold firstLineOf
      cases hs : Codec.splitOnFirst ['\n'] o with
      | some r =>
        obtain ⟨h1, h2⟩ := (splitOnFirst_nl_spec o).1 r hs
        conv => lhs; rw [h2]
        exact decode_firstLine_cons r.1 r.2 h1 st a
      | none => exact decode_firstLine_single o ((splitOnFirst_nl_spec o).2 hs) st a
    rw [hold]
    split
    · exact decode_firstLine_single _ hf st a
    · exact decode_firstLine_cons _ v hf st a

/-! ### environment maps (`Buildinfo::set_environment` / `environment`) -/

open Deb822Verif.EnvMap in
theorem insertSorted_perm (x : Str) (l : List Str) : List.Perm (insertSorted x l) (x :: l) := by
  induction l with
  | nil => exact List.Perm.refl _
  | cons y ys ih =>
    simp only [insertSorted]
    split
    · exact (List.Perm.cons y ih).trans (List.Perm.swap _ _ _)
    · exact List.Perm.refl _

theorem sortStrs_perm (l : List Str) : List.Perm (sortStrs l) l := by
  induction l with
  | nil => exact List.Perm.refl _
  | cons x xs ih => exact (insertSorted_perm x (sortStrs xs)).trans (List.Perm.cons x ih)

theorem split_envPiece (p : Str × Str) (h : '=' ∉ p.1) :
    Codec.splitOnFirst ['='] (envPiece p) = some p := by
  have := C18.splitOnFirst_found '=' [] p.1 p.2 h
  simpa [envPiece] using this

theorem envLines_pieces (ps acc : List (Str × Str)) (h : ∀ p ∈ ps, '=' ∉ p.1) :
    envLines (ps.map envPiece) acc = some (EnvMap.insAll acc ps) := by
  induction ps generalizing acc with
  | nil => rfl
  | cons p r ih =>
    simp only [List.map_cons, envLines, split_envPiece p (h p (by simp))]
    exact ih _ (fun q hq => h q (by simp [hq]))

/-- the exact domain of the environment codec: the map in canonical form (keys strictly increasing,
    i.e. a `HashMap` by its key-sorted entries), no key contains `=` or a newline, no value
    contains a newline, and no `KEY=value` line ends in a carriage return (`lines()` strips it) -/
structure CanonEnv (m : List (Str × Str)) : Prop where
  sorted : EnvMap.KeySorted m
  entries : ∀ p ∈ m, '=' ∉ p.1 ∧ '\n' ∉ p.1 ∧ '\n' ∉ p.2 ∧ (envPiece p).getLast? ≠ some '\r'

/-- `set_environment(m)` then `environment()` returns `m`: the `KEY=value` lines are written
    sorted and joined by `\n`, read back by `lines()` + `split_once('=')` into a map — for ANY
    number of variables in the domain `CanonEnv` -/
theorem C15_codec_env (m : List (Str × Str)) (h : CanonEnv m) :
    RoundTrip .envMap .envMap (.map m) := by
  intro st a
  obtain ⟨hsorted, hm⟩ := h
  have hperm : List.Perm (sortStrs (m.map envPiece)) (m.map envPiece) := sortStrs_perm _
  -- the sorted lines are the lines of a permutation `ps` of `m`
  let unpiece : Str → Str × Str := fun l => (Codec.splitOnFirst ['='] l).getD ([], [])
  let ps := (sortStrs (m.map envPiece)).map unpiece
  have hinv : ∀ p ∈ m, unpiece (envPiece p) = p := by
    intro p hp; simp [unpiece, split_envPiece p (hm p hp).1]
  have hps : List.Perm ps m := by
    have h1 : List.Perm ps ((m.map envPiece).map unpiece) := hperm.map unpiece
    have h2 : (m.map envPiece).map unpiece = m := by
      rw [List.map_map]
      exact map_id_on _ m (fun p hp => hinv p hp)
    rwa [h2] at h1
  have hlines : ps.map envPiece = sortStrs (m.map envPiece) := by
    simp only [ps, List.map_map]
    apply map_id_on
    intro l hl
    have : l ∈ m.map envPiece := hperm.subset hl
    simp only [List.mem_map] at this
    obtain ⟨p, hp, rfl⟩ := this
    simp [hinv p hp]
  have hpm : ∀ p ∈ ps, p ∈ m := fun p hp => hps.subset hp
  have hl : lines (join ['\n'] (sortStrs (m.map envPiece))) = sortStrs (m.map envPiece) := by
    apply lines_join
    intro w hw
    have : w ∈ m.map envPiece := hperm.subset hw
    simp only [List.mem_map] at this
    obtain ⟨p, hp, rfl⟩ := this
    obtain ⟨_, h2, h3, h4⟩ := hm p hp
    refine ⟨⟨?_, h4⟩, by simp [envPiece]⟩
    intro hmem
    simp only [envPiece, List.mem_append, List.mem_cons] at hmem
    rcases hmem with hmem | hmem | hmem
    · exact h2 hmem
    · exact absurd hmem (by decide)
    · exact h3 hmem
  simp only [encode, decode, decodeEnv, Option.map_some, hl]
  rw [← hlines, envLines_pieces ps [] (fun p hp => (hm p (hpm p hp)).1),
    EnvMap.insAll_perm_eq m ps hsorted hps]

example : CanonEnv [("A".toList, "1".toList), ("A-B".toList, "x=y".toList), ("LANG".toList, "C.UTF-8".toList)] :=
  ⟨by simp [EnvMap.KeySorted]; decide, by decide⟩

/-- the side conditions cannot be dropped: a key containing `=` comes back split at its first `=`
    (`{"B=x": "y"}` reads as `{"B": "x=y"}`) … -/
theorem C15_codec_env_needs_key_no_eq :
    (encode .envMap (.map [("B=x".toList, "y".toList)])).map (decode .envMap true false)
      = some (.map [("B".toList, "x=y".toList)]) := by decide +kernel

/-- … a value with a newline becomes a line of its own (here: a line without `=`, the getter panics) … -/
theorem C15_codec_env_needs_value_one_line :
    (encode .envMap (.map [("A".toList, "1\n2".toList)])).map (decode .envMap true false) = some .panic := by
  decide +kernel

/-- … and a value ending in a carriage return loses it when another line follows (`lines()` strips
    `\r` before `\n`; on the last line it is kept, the only slack in `CanonEnv`) -/
theorem C15_codec_env_needs_no_trailing_cr :
    (encode .envMap (.map [("A".toList, "1\r".toList), ("B".toList, "2".toList)])).map (decode .envMap true false)
      = some (.map [("A".toList, "1".toList), ("B".toList, "2".toList)]) := by decide +kernel

/-! ## Layer 3 — the generated table -/

/-- rows of the real code that do not satisfy the table conditions (one witness theorem each below,
    one open entry each in known_findings.json) -/
def knownBad : List (Str × Str) := [
  ("dep3.PatchHeader".toList, "set_upstream_bug".toList),
  ("dep3.PatchHeader".toList, "set_vendor_bug".toList),
  ("copyright.FilesParagraph".toList, "set_license".toList)
]

def isBad (r : Row) : Bool := knownBad.contains (r.view, r.method)

/-- getters that panic on some field text (`unwrap()` on a parse result or on an absent field) -/
def knownPanic : List (Str × Str) := [
  ("control.Source".toList, "build_depends".toList),
  ("control.Source".toList, "build_depends_indep".toList),
  ("control.Source".toList, "build_depends_arch".toList),
  ("control.Source".toList, "build_conflicts".toList),
  ("control.Source".toList, "build_conflicts_indep".toList),
  ("control.Source".toList, "build_conflicts_arch".toList),
  ("control.Source".toList, "rules_requires_root".toList),
  ("control.Binary".toList, "depends".toList),
  ("control.Binary".toList, "recommends".toList),
  ("control.Binary".toList, "suggests".toList),
  ("control.Binary".toList, "enhances".toList),
  ("control.Binary".toList, "pre_depends".toList),
  ("control.Binary".toList, "breaks".toList),
  ("control.Binary".toList, "conflicts".toList),
  ("control.Binary".toList, "replaces".toList),
  ("control.Binary".toList, "provides".toList),
  ("control.Binary".toList, "built_using".toList),
  ("control.Binary".toList, "multi_arch".toList),
  ("apt.Source".toList, "version".toList),
  ("apt.Source".toList, "build_depends".toList),
  ("apt.Source".toList, "build_depends_indep".toList),
  ("apt.Source".toList, "build_depends_arch".toList),
  ("apt.Source".toList, "build_conflicts".toList),
  ("apt.Source".toList, "build_conflicts_indep".toList),
  ("apt.Source".toList, "build_conflicts_arch".toList),
  ("apt.Source".toList, "binary".toList),
  ("apt.Source".toList, "files".toList),
  ("apt.Source".toList, "checksums_sha1".toList),
  ("apt.Source".toList, "checksums_sha256".toList),
  ("apt.Source".toList, "checksums_sha512".toList),
  ("apt.Package".toList, "version".toList),
  ("apt.Package".toList, "installed_size".toList),
  ("apt.Package".toList, "depends".toList),
  ("apt.Package".toList, "recommends".toList),
  ("apt.Package".toList, "suggests".toList),
  ("apt.Package".toList, "enhances".toList),
  ("apt.Package".toList, "pre_depends".toList),
  ("apt.Package".toList, "breaks".toList),
  ("apt.Package".toList, "conflicts".toList),
  ("apt.Package".toList, "replaces".toList),
  ("apt.Package".toList, "provides".toList),
  ("apt.Package".toList, "homepage".toList),
  ("apt.Package".toList, "size".toList),
  ("apt.Package".toList, "multi_arch".toList),
  ("apt.Release".toList, "date".toList),
  ("apt.Release".toList, "valid_until".toList),
  ("apt.Release".toList, "checksums_md5".toList),
  ("apt.Release".toList, "checksums_sha1".toList),
  ("apt.Release".toList, "checksums_sha256".toList),
  ("apt.Release".toList, "checksums_sha512".toList),
  ("changes.Changes".toList, "version".toList),
  ("changes.Changes".toList, "urgency".toList),
  ("changes.Changes".toList, "checksums_sha1".toList),
  ("changes.Changes".toList, "checksums_sha256".toList),
  ("changes.Changes".toList, "files".toList),
  ("buildinfo.Buildinfo".toList, "version".toList),
  ("buildinfo.Buildinfo".toList, "checksums_sha256".toList),
  ("buildinfo.Buildinfo".toList, "checksums_sha1".toList),
  ("buildinfo.Buildinfo".toList, "checksums_md5".toList),
  ("buildinfo.Buildinfo".toList, "environment".toList),
  ("buildinfo.Buildinfo".toList, "installed_build_depends".toList),
  ("copyright.FilesParagraph".toList, "files".toList)
]

/-- types whose `from_str` has no error path (the `unwrap()` cannot fire) -/
def totalTypes : List Str := ["Forwarded".toList, "AppliedUpstream".toList]

def canPanic (r : Row) : Bool :=
  (r.strict && !(match r.shape with
    | .typed ty => totalTypes.contains ty
    | _ => false))
  || r.absent == .panic

/-- the literals a row touches are exactly the documented names of its accessor -/
def namesOk (r : Row) : Bool :=
  let d := docNames r.view r.method
  r.names.all d.contains && d.all r.names.contains

/-- every non-opaque row reads / writes the Debian field name(s) the accessor is documented for -/
theorem C15_table_names : ∀ r ∈ Gen.Accessors.rows, r.isOpaque = false → namesOk r = true := by decide +kernel

def sepCompat (gs : Sep) (trim : Bool) (ss : Sep) : Bool :=
  match gs, ss with
  | .comma, .comma => trim
  | .space, .space => true
  | .ws, .space => true
  | .ws, .nl => true
  | .nl, .nl => true
  | .lines, .nl => true
  | _, _ => false

/-- getter shape `g` reads what setter shape `s` writes -/
def compat (g s : Shape) : Bool :=
  match g, s with
  | .str, .str => true
  | .typed a, .typed b => a == b
  | .list gs gt ge, .list ss _ se => ge == se && sepCompat gs gt ss
  | .flagYes, .flagYesNo => true
  | .flagYes, .flagYesOrRemove => true
  | .flagYesNo, .flagYesNo => true
  | .license, .license => true
  | .originField, .originField => true
  | .rfc2822, .rfc2822 => true
  | .dateYmd, .dateYmd => true
  | .firstLine, .firstLine => true
  | .restLines, .restLines => true
  | .envMap, .envMap => true
  | _, _ => false

/-- the clearing branch: present exactly for `Option` arguments / yes-or-remove flags, it is `remove`,
    and such a setter has one name -/
def clearOk (s : Row) : Bool :=
  if s.optional || s.shape == .flagYesOrRemove then s.clearOp == .remove && s.names.length == 1
  else s.clearOp == .none

/-- the pair conditions: getter and setter of one view look for the SAME names in the SAME order
    (one name for almost all; Author/From, Description/Subject), the setter's default name is one
    of them, compatible codec shapes, the setter writes with `set` and clears with `remove` -/
def pairOk (g s : Row) : Bool :=
  g.kind == .get && s.kind == .set && g.view == s.view && s.method == setPrefix ++ g.method
  && g.op == .get && s.op == .set
  && g.names == s.names && !s.names.isEmpty && s.names.contains s.dflt
  && compat g.shape s.shape && clearOk s

/-- rows the pair conditions are not stated for: not classifiable (`opaque`), or only the operations
    and names are extracted (`composite`; no setter is at present) -/
def unmodelledShape (r : Row) : Bool := r.shape == .opaque || r.shape == .composite

def tablePairsCheck : Bool :=
  Gen.Accessors.rows.all fun g =>
    g.kind != .get || g.isOpaque ||
      match setterOf g with
      | none => true
      | some s => isBad s || unmodelledShape s || pairOk g s

/-- every getter/setter pair (`f` / `set_f` of one view) outside `knownBad`: same literals in the same
    order, compatible codec shapes, the setter uses `set` — not `insert` — and clears with `remove` -/
theorem C15_table_pairs : tablePairsCheck = true := by decide +kernel

theorem C15_table_pairs' (g : Row) (hg : g ∈ Gen.Accessors.rows) (hk : g.kind = .get) (ho : g.isOpaque = false)
    (s : Row) (hs : setterOf g = some s) (hb : isBad s = false) (hu : unmodelledShape s = false) :
    pairOk g s = true := by
  have := C15_table_pairs
  simp only [tablePairsCheck, List.all_eq_true] at this
  have := this g hg
  simp only [hk, ho, hs, hb, hu, Bool.or_false, Bool.false_or] at this
  simpa using this

/-- no setter is left unmodelled -/
theorem C15_table_no_composite_setter :
    ∀ s ∈ Gen.Accessors.rows, s.kind = .set → s.shape ≠ .composite := by decide +kernel

/-- no row of the table is opaque or composite: every public method touching the paragraph is
    classified into a modelled shape (the table theorems have no row outside their range) -/
theorem C15_table_no_opaque :
    ∀ r ∈ Gen.Accessors.rows, r.isOpaque = false ∧ r.shape ≠ .composite := by decide +kernel

/-- every setter outside `knownBad` (paired with a getter or not) writes with `set` and clears with
    `remove` -/
theorem C15_table_setters :
    ∀ s ∈ Gen.Accessors.rows, s.kind = .set → s.isOpaque = false → isBad s = false → s.shape ≠ .addPara →
      s.op = .set ∧ clearOk s = true := by decide +kernel

/-- every getter outside `knownPanic` is total: no `unwrap()` on a parse result or an absent field -/
theorem C15_table_total :
    ∀ r ∈ Gen.Accessors.rows, r.kind = .get → r.isOpaque = false → knownPanic.contains (r.view, r.method) = false →
      canPanic r = false := by decide +kernel

/-- … and every entry of `knownPanic` is a row that can panic (the list has no stale entries) -/
theorem C15_known_panic_rows :
    ∀ p ∈ knownPanic, ((findRow p.1 p.2).map canPanic) = some true := by decide +kernel

/-- two setters that are the two readings of one field (DEP-3 synopsis / long description) -/
def subFieldPair (a b : Row) : Bool :=
  (a.shape == .firstLine && b.shape == .restLines) || (a.shape == .restLines && b.shape == .firstLine)

def distinctCheck : Bool :=
  let setters := Gen.Accessors.rows.filter fun r =>
    r.kind == .set && !r.isOpaque && r.shape != .addPara && !isBad r
  setters.all fun a => setters.all fun b =>
    !(a.view == b.view && a.method != b.method) || subFieldPair a b || a.names.all fun n => !b.names.contains n

/-- within one view two different setters (outside `knownBad`) never write the same field name, so
    by `C15_seq_sets` a sequence of setters leaves each getter at the last value set through its
    own setter; the one exception is the synopsis / long-description pair, which shares a field and
    is covered by `C15_synopsis_long_independent` -/
theorem C15_table_distinct : distinctCheck = true := by decide +kernel

/-! ### witnesses: which table condition each `knownBad` row fails -/

def rowOp (view method : String) : Option POp := (findRow view.toList method.toList).map (·.op)

theorem C15_bad_dep3_set_upstream_bug : rowOp "dep3.PatchHeader" "set_upstream_bug" = some .insert := by decide +kernel
theorem C15_bad_dep3_set_vendor_bug : rowOp "dep3.PatchHeader" "set_vendor_bug" = some .insert := by decide +kernel

/-- `FilesParagraph::set_license` writes `License::Text` without the empty first line: its codec
    shape is not the one `license()` reads -/
theorem C15_bad_copyright_set_license :
    ((findRow "copyright.FilesParagraph".toList "license".toList).bind fun g =>
      (findRow "copyright.FilesParagraph".toList "set_license".toList).map fun s =>
        (g.shape, s.shape, compat g.shape s.shape))
      = some (.license, .licenseBareText, false) := by decide +kernel

/-- `knownBad` has no stale entries: each one fails `C15_table_setters` or `C15_table_pairs` -/
theorem C15_known_bad_rows :
    ∀ p ∈ knownBad, ∃ s, findRow p.1 p.2 = some s ∧
      (s.op ≠ .set ∨ ∃ g, findRow p.1 (baseName p.2) = some g ∧ pairOk g s = false) := by
  decide +kernel

/-- the repaired accessors are ordinary table pairs now: DEP-3 origin, forwarded, author (two
    names), last_update, applied_upstream, description and long_description (two names, one
    field), buildinfo environment -/
theorem C15_repaired_pairs :
    ∀ p ∈ [("dep3.PatchHeader", "origin"), ("dep3.PatchHeader", "forwarded"), ("dep3.PatchHeader", "author"),
           ("dep3.PatchHeader", "last_update"), ("dep3.PatchHeader", "applied_upstream"),
           ("dep3.PatchHeader", "description"), ("dep3.PatchHeader", "long_description"),
           ("buildinfo.Buildinfo", "environment"), ("buildinfo.Buildinfo", "binaries"),
           ("buildinfo.Buildinfo", "build_tainted_by")],
      ((findRow p.1.toList p.2.toList).bind fun g => (setterOf g).map fun s => pairOk g s && !isBad s)
        = some true := by decide +kernel

/-! ### lifting a table pair to the set-then-get statement -/

theorem firstOf_single (cs : List DNode) (k : Str) : firstOf cs [k] = pget cs k := by
  simp only [firstOf]
  cases pget cs k <;> rfl

theorem target_single (cs : List DNode) (k d : Str) (h : d ∈ [k]) : target cs [k] d = k := by
  have := target_mem cs [k] d h
  simpa using this

/-- for any two rows satisfying the pair conditions, any prior paragraph and any value:
    a non-clearing call stores the written text in ONE field `k` — one of the names, the first one
    present — by `Paragraph::set`, and the getter then reads exactly `decode` of that text,
    independent of the rest of the prior paragraph; a clearing call removes the field and the
    getter reports absence -/
theorem C15_pair_sound (g s : Row) (h : pairOk g s = true) (cs : List DNode) (v : Val) (a : Bool) :
    ∃ k, k = target cs s.names s.dflt ∧ k ∈ s.names ∧ g.names = s.names
      ∧ (∀ t, clears s v = false → writeText s.shape (firstOf cs s.names) v = some t →
          setSem s v cs = some (paraSet cs k t)
          ∧ pget (paraSet cs k t) k = some t
          ∧ getSem g a (paraSet cs k t) = decode g.shape g.strict a t)
      ∧ (clears s v = true →
          s.names = [k]
          ∧ setSem s v cs = some (paraRemove cs k)
          ∧ pget (paraRemove cs k) k = none
          ∧ getSem g a (paraRemove cs k) = absentVal g) := by
  simp only [pairOk, Bool.and_eq_true, beq_iff_eq, Bool.not_eq_true', List.contains_eq_mem,
    decide_eq_true_eq] at h
  obtain ⟨⟨⟨⟨⟨⟨⟨⟨⟨⟨_, _⟩, _⟩, _⟩, hgop⟩, hsop⟩, hnames⟩, hne⟩, hd⟩, _⟩, hclear⟩ := h
  have hmem := target_mem cs s.names s.dflt hd
  have hne' : s.names.isEmpty = false := hne
  refine ⟨_, rfl, hmem, hnames, ?_, ?_⟩
  · intro t hc he
    refine ⟨?_, C15_set_get cs _ t, ?_⟩
    · simp [setSem, hne', hc, he, applyOp, hsop]
    · simp [getSem, hgop, hnames, C15_target_get cs s.names s.dflt t hd]
  · intro hc
    have hopt : (s.optional || s.shape == .flagYesOrRemove) = true := by
      unfold clears at hc
      split at hc
      · simp [hc]
      · simp [hc]
      · cases hc
    simp only [clearOk, hopt, ↓reduceIte, Bool.and_eq_true, beq_iff_eq] at hclear
    obtain ⟨hrem, hlen⟩ := hclear
    obtain ⟨k, hk⟩ : ∃ k, s.names = [k] := by
      cases hn : s.names with
      | nil => rw [hn] at hlen; cases hlen
      | cons k ks =>
        cases ks with
        | nil => exact ⟨k, rfl⟩
        | cons _ _ => rw [hn] at hlen; simp at hlen
    have htk : target cs s.names s.dflt = k := by
      rw [hk] at hd ⊢
      exact target_single cs k s.dflt hd
    rw [htk]
    refine ⟨hk, ?_, (C15_clear cs k).1, ?_⟩
    · simp [setSem, hne', hc, applyClear, hrem, htk]
    · simp [getSem, hgop, hnames, hk, firstOf_single, (C15_clear cs k).1]

/-- set-then-get: with the codec round trip of the two shapes, the getter returns the value set —
    for every prior paragraph -/
theorem C15_set_then_get (g s : Row) (h : pairOk g s = true) (cs : List DNode) (v : Val) (a : Bool)
    (hc : clears s v = false)
    (hrt : (writeText s.shape (firstOf cs s.names) v).map (decode g.shape g.strict a) = some v) :
    ∃ cs', setSem s v cs = some cs' ∧ getSem g a cs' = v := by
  obtain ⟨k, _, _, _, h1, _⟩ := C15_pair_sound g s h cs v a
  cases he : writeText s.shape (firstOf cs s.names) v with
  | none => rw [he] at hrt; cases hrt
  | some t =>
    rw [he] at hrt
    obtain ⟨e1, _, e3⟩ := h1 t hc he
    refine ⟨_, e1, ?_⟩
    rw [e3]
    simpa using hrt

/-- only the synopsis / long-description setters look at the old text -/
theorem writeText_eq_encode (sh : Shape) (old : Option Str) (v : Val)
    (h1 : sh ≠ .firstLine) (h2 : sh ≠ .restLines) : writeText sh old v = encode sh v := by
  unfold writeText
  split
  · exact absurd rfl h1
  · exact absurd rfl h2
  · rfl

/-- … instantiated on the generated table: every `f` / `set_f` pair of every view outside `knownBad` -/
theorem C15_table_set_then_get (g : Row) (hg : g ∈ Gen.Accessors.rows) (hk : g.kind = .get) (ho : g.isOpaque = false)
    (s : Row) (hs : setterOf g = some s) (hb : isBad s = false) (hu : unmodelledShape s = false)
    (cs : List DNode) (v : Val) (a : Bool) (hc : clears s v = false)
    (h1 : s.shape ≠ .firstLine) (h2 : s.shape ≠ .restLines)
    (hrt : RoundTrip g.shape s.shape v) :
    ∃ cs', setSem s v cs = some cs' ∧ getSem g a cs' = v := by
  apply C15_set_then_get g s (C15_table_pairs' g hg hk ho s hs hb hu) cs v a hc
  rw [writeText_eq_encode _ _ _ h1 h2]
  exact hrt g.strict a

/-- DEP-3 `set_description(v)` then `description()` is `v` (one line), on every prior paragraph —
    field absent, under Description or under Subject, with or without a long text -/
theorem C15_description_set_then_get (g s : Row) (h : pairOk g s = true)
    (hg : g.shape = .firstLine) (hs : s.shape = .firstLine)
    (cs : List DNode) (v : Str) (hv : '\n' ∉ v) (a : Bool) :
    ∃ cs', setSem s (.text v) cs = some cs' ∧ getSem g a cs' = .text v := by
  apply C15_set_then_get g s h cs (.text v) a (by simp [clears])
  rw [hs, hg]
  exact C15_codec_first_line _ v hv _ _

/-- DEP-3 `set_long_description(v)` then `long_description()` is `v` whenever a Description or
    Subject field exists (the absent-field case is the open finding F-C15-8) -/
theorem C15_long_description_set_then_get (g s : Row) (h : pairOk g s = true)
    (hg : g.shape = .restLines) (hs : s.shape = .restLines)
    (cs : List DNode) (v : Str) (a : Bool) (hp : firstOf cs s.names ≠ none) :
    ∃ cs', setSem s (.text v) cs = some cs' ∧ getSem g a cs' = .text v := by
  apply C15_set_then_get g s h cs (.text v) a (by simp [clears])
  rw [hs, hg]
  cases ho : firstOf cs s.names with
  | none => exact absurd ho hp
  | some o => exact C15_codec_rest_lines o v _ _

/-- clearing on the generated table: `set_f(None)` (or `set_f(false)` for a yes-or-remove flag)
    removes the field; the getter then reports its absent value -/
theorem C15_table_clear (g : Row) (hg : g ∈ Gen.Accessors.rows) (hk : g.kind = .get) (ho : g.isOpaque = false)
    (s : Row) (hs : setterOf g = some s) (hb : isBad s = false) (hu : unmodelledShape s = false)
    (cs : List DNode) (v : Val) (a : Bool) (hc : clears s v = true) :
    ∃ cs', setSem s v cs = some cs' ∧ getSem g a cs' = absentVal g := by
  obtain ⟨k, _, _, _, _, h2⟩ := C15_pair_sound g s (C15_table_pairs' g hg hk ho s hs hb hu) cs v a
  exact ⟨_, (h2 hc).2.1, (h2 hc).2.2.2⟩

/-! ### methods with a field-name parameter (`Package::tags(tag)`, `set_tags(tag, …)`, `set_vendor_bug(vendor, …)`)

Their rows carry a name template; `Row.inst r arg` is the row for one argument, and every theorem
about rows applies to it. -/

theorem pairOk_inst (g s : Row) (arg : Str) (h : pairOk g s = true) :
    pairOk (g.inst arg) (s.inst arg) = true := by
  simp only [pairOk, Bool.and_eq_true, beq_iff_eq, Bool.not_eq_true', List.contains_eq_mem,
    decide_eq_true_eq, clearOk, Row.inst] at h ⊢
  obtain ⟨⟨⟨⟨⟨⟨⟨⟨⟨⟨h1, h2⟩, h3⟩, h4⟩, h5⟩, h6⟩, h7⟩, h8⟩, h9⟩, h10⟩, h11⟩ := h
  refine ⟨⟨⟨⟨⟨⟨⟨⟨⟨⟨h1, h2⟩, h3⟩, h4⟩, h5⟩, h6⟩, by rw [h7]⟩, ?_⟩, ?_⟩, h10⟩, ?_⟩
  · cases hn : s.names <;> simp_all
  · exact List.mem_map_of_mem h9
  · simpa using h11

theorem substName_tag (arg : Str) : substName arg "{tag}".toList = arg := by
  have h1 : Codec.splitOnFirst ['{'] "{tag}".toList = some ([], "tag}".toList) := by decide
  have h2 : Codec.splitOnFirst ['}'] "tag}".toList = some ("tag".toList, []) := by decide
  unfold substName
  rw [h1]
  dsimp only
  rw [h2]
  simp

theorem substName_vendor (arg : Str) : substName arg "Bug-{vendor}".toList = "Bug-".toList ++ arg := by
  have h1 : Codec.splitOnFirst ['{'] "Bug-{vendor}".toList = some ("Bug-".toList, "vendor}".toList) := by decide
  have h2 : Codec.splitOnFirst ['}'] "vendor}".toList = some ("vendor".toList, []) := by decide
  unfold substName
  rw [h1]
  dsimp only
  rw [h2]
  simp

/-- the table row of a method (a dummy opaque row if there is none) -/
def rowOf (view method : String) : Row :=
  (findRow view.toList method.toList).getD ⟨[], [], .other, .none, .none, [], .opaque, false, .none, false, []⟩

/-- `Package::set_tags(tag, v)` then `tags(tag)`: for EVERY field name `tag`, the pair conditions
    hold for the instantiated rows, whose one name is `tag` itself — so `C15_pair_sound`,
    `C15_set_then_get` (with `C15_codec_list_comma`) and the sequence theorems apply -/
theorem C15_tags_pair (tag : Str) :
    findRow "apt.Package".toList "tags".toList = some (rowOf "apt.Package" "tags")
      ∧ findRow "apt.Package".toList "set_tags".toList = some (rowOf "apt.Package" "set_tags")
      ∧ pairOk ((rowOf "apt.Package" "tags").inst tag) ((rowOf "apt.Package" "set_tags").inst tag) = true
      ∧ ((rowOf "apt.Package" "tags").inst tag).names = [tag]
      ∧ ((rowOf "apt.Package" "set_tags").inst tag).names = [tag]
      ∧ ((rowOf "apt.Package" "set_tags").inst tag).dflt = tag := by
  have e1 : (rowOf "apt.Package" "tags").names = ["{tag}".toList] := by decide +kernel
  have e2 : (rowOf "apt.Package" "set_tags").names = ["{tag}".toList] := by decide +kernel
  have e3 : (rowOf "apt.Package" "set_tags").dflt = "{tag}".toList := by decide +kernel
  refine ⟨by decide +kernel, by decide +kernel, pairOk_inst _ _ tag (by decide +kernel), ?_, ?_, ?_⟩
  · simp only [Row.inst, e1, List.map_cons, List.map_nil, substName_tag]
  · simp only [Row.inst, e2, List.map_cons, List.map_nil, substName_tag]
  · simp only [Row.inst, e3, substName_tag]

/-- `set_vendor_bug(vendor, url)` writes the one name `Bug-<vendor>` — with `insert` (knownBad,
    F-C15-14), so `C15_insert_duplicates` applies to it -/
theorem C15_vendor_bug_row (vendor : Str) :
    findRow "dep3.PatchHeader".toList "set_vendor_bug".toList = some (rowOf "dep3.PatchHeader" "set_vendor_bug")
      ∧ ((rowOf "dep3.PatchHeader" "set_vendor_bug").inst vendor).names = ["Bug-".toList ++ vendor]
      ∧ (rowOf "dep3.PatchHeader" "set_vendor_bug").op = .insert
      ∧ (rowOf "dep3.PatchHeader" "set_vendor_bug").shape = .str := by
  have e1 : (rowOf "dep3.PatchHeader" "set_vendor_bug").names = ["Bug-{vendor}".toList] := by decide +kernel
  refine ⟨by decide +kernel, ?_, by decide +kernel, by decide +kernel⟩
  simp only [Row.inst, e1, List.map_cons, List.map_nil, substName_vendor]

/-! ### iterator-valued getters and paragraph lookups -/

/-- DEP-3 `bugs()` is a function of the items alone; `vendor_bugs(v)` (the `Bug-<v>` entries of
    it) is `get_all("Bug-" ++ v)` -/
theorem C15_vendor_bugs (l : Items) (vendor : Str) :
    (l.filterMap fun f => if f.1 = bugPrefix ++ vendor then some f.2 else none)
      = (l.filter fun f => f.1 == bugPrefix ++ vendor).map (·.2) := by
  induction l with
  | nil => rfl
  | cons f fs ih => by_cases h : f.1 = bugPrefix ++ vendor <;> simp [List.filterMap_cons, List.filter_cons, h, ih]

/-- the upstream bugs of `bugs()` are the `Bug` fields, the vendor bugs the `Bug-<vendor>` fields,
    in paragraph order, and nothing else is listed -/
theorem C15_bugs_scan (l : Items) (e : Str) :
    e ∈ bugsScan l ↔ ∃ f ∈ l, (f.1 = bugKey ∧ e = '=' :: f.2)
      ∨ (∃ vendor, f.1 = bugPrefix ++ vendor ∧ e = vendor ++ '=' :: f.2) := by
  simp only [bugsScan, List.mem_filterMap]
  constructor
  · rintro ⟨f, hf, he⟩
    refine ⟨f, hf, ?_⟩
    cases hp : stripPrefix bugPrefix f.1 with
    | some vendor =>
      rw [hp] at he
      simp only [Option.some.injEq] at he
      right
      refine ⟨vendor, ?_, he.symm⟩
      simp only [stripPrefix] at hp
      split at hp
      · rename_i hpre
        simp only [Option.some.injEq] at hp
        have := List.prefix_iff_eq_append.1 (List.isPrefixOf_iff_prefix.1 hpre)
        rw [← this, hp]
      · cases hp
    | none =>
      rw [hp] at he
      dsimp only at he
      by_cases hk : f.1 = bugKey
      · rw [if_pos hk] at he
        simp only [Option.some.injEq] at he
        exact Or.inl ⟨hk, he.symm⟩
      · rw [if_neg hk] at he
        cases he
  · rintro ⟨f, hf, h⟩
    refine ⟨f, hf, ?_⟩
    rcases h with ⟨hk, he⟩ | ⟨vendor, hk, he⟩
    · have h0 : stripPrefix bugPrefix bugKey = none := by decide
      rw [hk, h0]
      simp [he]
    · have : stripPrefix bugPrefix f.1 = some vendor := by
        rw [hk]; simp [stripPrefix]
      simp [this, he]

/-- `Control::source()` (and every `findPara` row): the FIRST paragraph having the field -/
theorem C15_find_para (root : DNode) (k : Str) (p : DNode) (h : findPara root k = some p) :
    hasField k p = true ∧ ∃ pre post, paragraphs root = pre ++ p :: post ∧ ∀ q ∈ pre, hasField k q = false := by
  unfold findPara at h
  obtain ⟨hp, pre, post, he, hpre⟩ := List.find?_eq_some_iff_append.1 h
  exact ⟨hp, pre, post, he, fun q hq => by simpa using hpre q hq⟩

/-- `Control::binaries()`, `Copyright::iter_files()`: exactly the paragraphs having the field, in
    document order; `Copyright::iter_licenses()`: those with `License` and without `Files`;
    `Copyright::header()`: the first paragraph -/
theorem C15_filter_para (root : DNode) (k excl : Str) (p : DNode) :
    (p ∈ filterPara root k ↔ p ∈ paragraphs root ∧ hasField k p = true)
    ∧ (p ∈ filterParaWithout root k excl ↔ p ∈ paragraphs root ∧ hasField excl p = false ∧ hasField k p = true)
    ∧ List.Sublist (filterPara root k) (paragraphs root)
    ∧ List.Sublist (filterParaWithout root k excl) (paragraphs root)
    ∧ firstPara root = (paragraphs root).head? := by
  refine ⟨by simp [filterPara], by simp [filterParaWithout], List.filter_sublist, List.filter_sublist, rfl⟩

/-- `Copyright::iter_files()` / `iter_licenses()` (since the repair of F-C17-3): the same filters over
    the paragraphs AFTER the first one — the header paragraph `Copyright::header()` returns is never
    a Files or licence paragraph, whatever fields it carries -/
theorem C15_filter_para_tail (root : DNode) (k excl : Str) (p : DNode) :
    (p ∈ filterParaTail root k ↔ p ∈ (paragraphs root).drop 1 ∧ hasField k p = true)
    ∧ (p ∈ filterParaWithoutTail root k excl ↔
        p ∈ (paragraphs root).drop 1 ∧ hasField excl p = false ∧ hasField k p = true)
    ∧ List.Sublist (filterParaTail root k) (paragraphs root)
    ∧ List.Sublist (filterParaWithoutTail root k excl) (paragraphs root)
    ∧ (firstPara root).toList ++ (paragraphs root).drop 1 = paragraphs root := by
  refine ⟨by simp [filterParaTail], by simp [filterParaWithoutTail],
    List.filter_sublist.trans (List.drop_sublist _ _), List.filter_sublist.trans (List.drop_sublist _ _), ?_⟩
  unfold firstPara
  cases paragraphs root <;> simp

/-- every document-level getter row of the table is one of these lookups -/
theorem C15_table_para_rows :
    ∀ r ∈ Gen.Accessors.rows, r.op = .paragraphs → (paraSem r (.node .ROOT [])).isSome = true := by
  decide +kernel

/-! ### `Control::add_source` / `add_binary` -/

theorem addParagraph_handles (d : Doc) : (addParagraph d).handles.length = d.handles.length + 1 := by
  simp [addParagraph, insertEmptyParagraph, shiftIns]

theorem addPara_run (d : Doc) (k v : Str) :
    addPara d k v = Spec.run d [.addp, .set d.handles.length k v] := by
  simp [addPara, Spec.run, Spec.step, addParagraph_handles]

/-- `Control::add_source(name)` / `add_binary(name)`: on any parsed document (any child list made of
    nodes) the paragraphs afterwards are the paragraphs before — each reading the same fields —
    followed by ONE new paragraph reading exactly `[(Source|Package, name)]` (from the history
    refinement of Props/C04: `add_paragraph` then `set` through the new handle) -/
theorem C15_add_para (kids : List DNode) (hn : AllNodes kids) (k v : Str) :
    docItems (addPara (startOf kids) k v).root = docItems (.node .ROOT kids) ++ [[(k, v)]] := by
  rw [addPara_run]
  have H := (C04_history_oracle kids hn [.addp, .set (startOf kids).handles.length k v]).2.1
  rw [H]
  have hlen : (startOf kids).handles.length = (kids.filter isParaNode).length := by
    simp [startOf, paraPositions_slots, slots_length]
  rw [hlen]
  have hdoc : docItems (.node .ROOT kids) = (kids.filter isParaNode).map items := by
    simp only [docItems, paragraphs, Node.children]
    rfl
  rw [hdoc]
  simp only [mrun, List.foldl_cons, List.foldl_nil, mstep, LModel.init, LModel.addp, LModel.edit]
  generalize kids.filter isParaNode = P
  have h1 : (P.map (fun n => some (items n)) ++ [some []])[P.length]? = some (some ([] : Items)) := by
    rw [List.getElem?_append_right (by simp)]
    simp
  simp only [h1, List.length_map, ListSpec.set, List.map_append, List.map_cons, List.map_nil]
  congr 1
  · apply List.ext_getElem
    · simp
    · intro i hi1 hi2
      have hi : i < P.length := by simpa using hi1
      have hne : P.length ≠ i := by omega
      simp [List.getElem?_append_left, hi]
  · simp

/-! ### copyright `Header::fix` -/

/-- without a `Format-Specification` field `fix` is ONE `Paragraph::set` of the `Format` field to
    its normal form (so `C15_set_get`, `C15_set_frame`, `C15_set_children` apply: every other
    field, every comment stays), and does nothing when there is no `Format` either -/
theorem C15_fix_plain (cs : List DNode) (h : pget cs fFormatSpec = none) :
    fixSem cs = match pget cs fFormat with
      | some f => paraSet cs fFormat (normFormat f)
      | none => cs := by
  unfold fixSem
  simp only [h, Option.isSome_none, Bool.false_eq_true, ↓reduceIte]
  cases pget cs fFormat <;> rfl

/-- with a `Format-Specification` field: the first one is renamed to `Format` in place (value
    kept, `C04_refine_rename`), then `Format` is normalised; every field of another name stays -/
theorem C15_fix_frame (cs : List DNode) :
    others (others (pitems (fixSem cs)) fFormat) fFormatSpec
      = others (others (pitems cs) fFormat) fFormatSpec := by
  have hne : fFormatSpec ≠ fFormat := by decide
  have hren : ∀ l : Items, others (others (ListSpec.rename l fFormatSpec fFormat) fFormat) fFormatSpec
      = others (others l fFormat) fFormatSpec := by
    intro l
    induction l with
    | nil => rfl
    | cons f fs ih =>
      simp only [ListSpec.rename]
      split
      · rename_i hf
        have hff : f.1 ≠ fFormat := by rw [hf]; exact hne
        rw [others_cons, others_cons]
        simp only [↓reduceIte, hff]
        rw [others_cons]
        simp only [hf, ↓reduceIte]
      · rename_i hf
        rw [others_cons, others_cons]
        split
        · exact ih
        · rw [others_cons, others_cons]
          simp only [hf, ↓reduceIte, ih]
  have key : ∀ cs1 : List DNode,
      others (others (pitems cs1) fFormat) fFormatSpec = others (others (pitems cs) fFormat) fFormatSpec →
      others (others (pitems (match pget cs1 fFormat with
        | some f => paraSet cs1 fFormat (normFormat f)
        | none => cs1)) fFormat) fFormatSpec = others (others (pitems cs) fFormat) fFormatSpec := by
    intro cs1 h1
    cases pget cs1 fFormat with
    | none => exact h1
    | some f =>
      show others (others (pitems (paraSet cs1 fFormat (normFormat f))) fFormat) fFormatSpec = _
      rw [(C15_set_frame cs1 fFormat (normFormat f)).2, h1]
  unfold fixSem
  apply key
  split
  · rw [(C04_refine_rename cs fFormatSpec fFormat).1, hren]
  · rfl

/-- the normal form: ends in `/`, `http:` became `https:`; known formats become the current one -/
theorem C15_fix_norm_examples :
    normFormat "http://www.debian.org/doc/packaging-manuals/copyright-format/1.0".toList
      = Gen.Accessors.copyrightCurrentFormat
    ∧ normFormat "http://example.com/other".toList = "https://example.com/other/".toList
    ∧ normFormat Gen.Accessors.copyrightCurrentFormat = Gen.Accessors.copyrightCurrentFormat := by
  decide +kernel

/-! ### sequences of several setters on one paragraph (rows, values) -/

/-- the setter half of the pair conditions -/
def setterWf (s : Row) : Bool :=
  s.op == .set && clearOk s && !s.names.isEmpty && s.names.contains s.dflt

def disjointNames (a b : List Str) : Bool := a.all fun n => !b.contains n

/-- a history of setter calls on one paragraph; `none` when a call is not modelled -/
def runCalls (cs : List DNode) : List (Row × Val) → Option (List DNode)
  | [] => some cs
  | c :: rest => (setSem c.1 c.2 cs).bind fun cs' => runCalls cs' rest

/-- what one call does to the tree: `Paragraph::set` or `Paragraph::remove` on ONE of its names -/
def StepOn (cs cs' : List DNode) (k : Str) : Prop := (∃ t, cs' = paraSet cs k t) ∨ cs' = paraRemove cs k

theorem setSem_step (s : Row) (v : Val) (cs cs' : List DNode) (hw : setterWf s = true)
    (h : setSem s v cs = some cs') : ∃ k ∈ s.names, StepOn cs cs' k := by
  simp only [setterWf, Bool.and_eq_true, beq_iff_eq, Bool.not_eq_true', List.contains_eq_mem,
    decide_eq_true_eq] at hw
  obtain ⟨⟨⟨hop, hclear⟩, hne⟩, hd⟩ := hw
  refine ⟨target cs s.names s.dflt, target_mem cs s.names s.dflt hd, ?_⟩
  simp only [setSem, hne, Bool.false_eq_true, ↓reduceIte] at h
  by_cases hc : clears s v = true
  · have hopt : (s.optional || s.shape == .flagYesOrRemove) = true := by
      unfold clears at hc
      split at hc
      · simp [hc]
      · simp [hc]
      · cases hc
    simp only [clearOk, hopt, ↓reduceIte, Bool.and_eq_true, beq_iff_eq] at hclear
    simp only [hc, ↓reduceIte, applyClear, hclear.1, Option.some.injEq] at h
    exact Or.inr h.symm
  · simp only [hc, Bool.false_eq_true, ↓reduceIte] at h
    cases ht : writeText s.shape (firstOf cs s.names) v with
    | none => rw [ht] at h; cases h
    | some t =>
      rw [ht] at h
      simp only [applyOp, hop, Option.some.injEq] at h
      exact Or.inl ⟨t, h.symm⟩

theorem pget_step (cs cs' : List DNode) (k k' : Str) (hk : k' ≠ k) (h : StepOn cs cs' k) :
    pget cs' k' = pget cs k' := by
  rcases h with ⟨t, rfl⟩ | rfl
  · exact (C15_set_frame cs k t).1 k' hk
  · exact (C15_clear cs k).2.2.1 k' hk

theorem others_step (cs cs' : List DNode) (k : Str) (h : StepOn cs cs' k) :
    others (pitems cs') k = others (pitems cs) k := by
  rcases h with ⟨t, rfl⟩ | rfl
  · exact (C15_set_frame cs k t).2
  · exact (C15_clear cs k).2.2.2

theorem firstOf_congr (cs cs' : List DNode) (names : List Str)
    (h : ∀ n ∈ names, pget cs' n = pget cs n) : firstOf cs' names = firstOf cs names := by
  induction names with
  | nil => rfl
  | cons n ns ih =>
    simp only [firstOf, h n (by simp)]
    rw [ih (fun m hm => h m (by simp [hm]))]

theorem pgetAll_eq (cs : List DNode) (k : Str) :
    pgetAll cs k = (pitems cs).filterMap fun kv => if kv.1 == k then some kv.2 else none := rfl

theorem filterMap_others (l : Items) (k k' : Str) (hk : k' ≠ k) :
    (others l k).filterMap (fun kv => if kv.1 == k' then some kv.2 else none)
      = l.filterMap (fun kv => if kv.1 == k' then some kv.2 else none) := by
  induction l with
  | nil => rfl
  | cons f fs ih =>
    rw [others_cons]
    split
    · rename_i hf
      have hne : (f.1 == k') = false := by rw [hf]; exact beq_false_of_ne (Ne.symm hk)
      rw [List.filterMap_cons]
      simp only [hne, Bool.false_eq_true, ↓reduceIte]
      exact ih
    · rw [List.filterMap_cons, List.filterMap_cons, ih]

/-- **one call, another accessor's fields**: a setter whose names are all different from the
    getter's names leaves the getter's result unchanged (getters reading by `get` or `get_all`) -/
theorem C15_call_frame (g s : Row) (v : Val) (cs cs' : List DNode) (a : Bool)
    (hg : g.op = .get ∨ g.op = .getAll) (hw : setterWf s = true)
    (hd : disjointNames s.names g.names = true) (h : setSem s v cs = some cs') :
    getSem g a cs' = getSem g a cs := by
  obtain ⟨k, hk, hstep⟩ := setSem_step s v cs cs' hw h
  have hne : ∀ n ∈ g.names, n ≠ k := by
    intro n hn e
    subst e
    simp only [disjointNames, List.all_eq_true, Bool.not_eq_true', List.contains_eq_mem,
      decide_eq_false_iff_not] at hd
    exact hd n hk hn
  rcases hg with hg | hg
  · have := firstOf_congr cs cs' g.names (fun n hn => pget_step cs cs' k n (hne n hn) hstep)
    simp only [getSem, hg, this]
  · simp only [getSem, hg]
    cases hn : g.names with
    | nil => rfl
    | cons n ns =>
      cases ns with
      | cons _ _ => rfl
      | nil =>
        have hnk : n ≠ k := hne n (by simp [hn])
        simp only [pgetAll_eq]
        rw [← filterMap_others (pitems cs') k n hnk, others_step cs cs' k hstep,
          filterMap_others (pitems cs) k n hnk]

theorem runCalls_append (cs : List DNode) (a b : List (Row × Val)) :
    runCalls cs (a ++ b) = (runCalls cs a).bind fun mid => runCalls mid b := by
  induction a generalizing cs with
  | nil => rfl
  | cons c r ih =>
    simp only [List.cons_append, runCalls]
    cases setSem c.1 c.2 cs with
    | none => rfl
    | some cs' => simpa using ih cs'

/-- a getter none of whose names is written by any call of the sequence reads what it read on the
    original paragraph -/
theorem C15_calls_untouched (g : Row) (a : Bool) (hg : g.op = .get ∨ g.op = .getAll)
    (calls : List (Row × Val)) (cs cs' : List DNode)
    (hw : ∀ c ∈ calls, setterWf c.1 = true ∧ disjointNames c.1.names g.names = true)
    (h : runCalls cs calls = some cs') : getSem g a cs' = getSem g a cs := by
  induction calls generalizing cs with
  | nil => simp only [runCalls, Option.some.injEq] at h; rw [h]
  | cons c rest ih =>
    simp only [runCalls] at h
    cases hs : setSem c.1 c.2 cs with
    | none => rw [hs] at h; cases h
    | some mid =>
      rw [hs] at h
      simp only [Option.bind_some] at h
      rw [ih mid (fun d hd => hw d (by simp [hd])) h]
      exact C15_call_frame g c.1 c.2 cs mid a hg (hw c (by simp)).1 (hw c (by simp)).2 hs

/-- **sequences**: after any list of setter calls, a getter reads what it read right after the LAST
    call that wrote (one of) its names — every later call, writing other fields, is invisible to it -/
theorem C15_calls_last (g : Row) (a : Bool) (hg : g.op = .get ∨ g.op = .getAll)
    (pre : List (Row × Val)) (c : Row × Val) (post : List (Row × Val)) (cs mid cs' : List DNode)
    (hpost : ∀ d ∈ post, setterWf d.1 = true ∧ disjointNames d.1.names g.names = true)
    (hmid : runCalls cs (pre ++ [c]) = some mid)
    (h : runCalls cs (pre ++ [c] ++ post) = some cs') : getSem g a cs' = getSem g a mid := by
  rw [runCalls_append, hmid] at h
  exact C15_calls_untouched g a hg post mid cs' hpost h

/-- … so with the pair conditions for that last call: the getter returns `decode` of the text the
    last call wrote (the value itself under the codec round trip), or its absent value when the
    last call cleared the field — whatever was called before and after -/
theorem C15_calls_last_value (g s : Row) (v : Val) (a : Bool) (hp : pairOk g s = true)
    (pre post : List (Row × Val)) (cs before cs' : List DNode)
    (hpost : ∀ d ∈ post, setterWf d.1 = true ∧ disjointNames d.1.names g.names = true)
    (hbefore : runCalls cs pre = some before)
    (h : runCalls cs (pre ++ [(s, v)] ++ post) = some cs') :
    (clears s v = true → getSem g a cs' = absentVal g)
    ∧ (clears s v = false → ∀ t, writeText s.shape (firstOf before s.names) v = some t →
        getSem g a cs' = decode g.shape g.strict a t) := by
  have hgop : g.op = .get := by
    simp only [pairOk, Bool.and_eq_true, beq_iff_eq] at hp
    exact hp.1.1.1.1.1.1.2
  obtain ⟨k, _, _, _, h1, h2⟩ := C15_pair_sound g s hp before v a
  have hsplit : runCalls cs (pre ++ [(s, v)]) = (setSem s v before) := by
    rw [runCalls_append, hbefore]
    simp only [Option.bind_some, runCalls]
    cases setSem s v before <;> rfl
  refine ⟨fun hc => ?_, fun hc t ht => ?_⟩
  · obtain ⟨_, e2, _, e4⟩ := h2 hc
    rw [C15_calls_last g a (Or.inl hgop) pre (s, v) post cs _ cs' hpost (hsplit.trans e2) h, e4]
  · obtain ⟨e1, _, e3⟩ := h1 t hc ht
    rw [C15_calls_last g a (Or.inl hgop) pre (s, v) post cs _ cs' hpost (hsplit.trans e1) h, e3]

/-- the fields whose names no call of the sequence names are the same list in the same order
    (with `C15_set_children`: comments and white space of the paragraph stay as well) -/
theorem keep_of_mem (S : List Str) (k : Str) (hk : k ∈ S) (l : Items) : keep S l = keep S (others l k) := by
  simp only [keep, others, List.filter_filter]
  congr 1
  funext f
  by_cases e : f.1 = k
  · subst e; simp [hk]
  · simp [e]

theorem C15_calls_frame (calls : List (Row × Val)) (cs cs' : List DNode)
    (hw : ∀ c ∈ calls, setterWf c.1 = true) (h : runCalls cs calls = some cs') :
    keep (calls.flatMap fun c => c.1.names) (pitems cs')
      = keep (calls.flatMap fun c => c.1.names) (pitems cs) := by
  have gen : ∀ (S : List Str) (calls : List (Row × Val)) (cs : List DNode),
      (∀ c ∈ calls, setterWf c.1 = true ∧ ∀ n ∈ c.1.names, n ∈ S) → runCalls cs calls = some cs' →
      keep S (pitems cs') = keep S (pitems cs) := by
    intro S calls
    induction calls with
    | nil => intro cs _ h; simp only [runCalls, Option.some.injEq] at h; rw [h]
    | cons c rest ih =>
      intro cs hc h
      simp only [runCalls] at h
      cases hs : setSem c.1 c.2 cs with
      | none => rw [hs] at h; cases h
      | some mid =>
        rw [hs] at h
        simp only [Option.bind_some] at h
        rw [ih mid (fun d hd => hc d (by simp [hd])) h]
        obtain ⟨k, hk, hstep⟩ := setSem_step c.1 c.2 cs mid (hc c (by simp)).1 hs
        have hkS := (hc c (by simp)).2 k hk
        rw [keep_of_mem S k hkS (pitems mid), keep_of_mem S k hkS (pitems cs), others_step cs mid k hstep]
  apply gen _ calls cs _ h
  intro c hc
  refine ⟨hw c hc, fun n hn => ?_⟩
  simp only [List.mem_flatMap]
  exact ⟨c, hc, hn⟩

def seqNamesCheck : Bool :=
  let good := Gen.Accessors.rows.filter fun r =>
    r.kind == .set && !r.isOpaque && r.shape != .addPara && !isBad r
  good.all setterWf &&
  Gen.Accessors.rows.all fun g =>
    !(g.kind == .get && (g.op == .get || g.op == .getAll) && !g.isOpaque) ||
      good.all fun s => !(s.view == g.view) || s.names == g.names || disjointNames s.names g.names

/-- on the generated table the hypotheses of the sequence theorems hold for every view: every
    setter outside `knownBad` is well-formed, and for every getter a setter of the same view either
    looks for exactly the getter's names or for none of them -/
theorem C15_table_seq_names : seqNamesCheck = true := by decide +kernel

/-- the hypotheses are satisfiable: `control.Source.maintainer` / `set_maintainer` -/
example : ∃ g s, g ∈ Gen.Accessors.rows ∧ g.kind = .get ∧ g.isOpaque = false ∧ setterOf g = some s ∧ isBad s = false
    ∧ unmodelledShape s = false ∧ pairOk g s = true := by
  refine ⟨(findRow "control.Source".toList "maintainer".toList).get (by decide +kernel),
    (findRow "control.Source".toList "set_maintainer".toList).get (by decide +kernel), ?_⟩
  decide +kernel

/-- … and for the two-name pairs: `dep3.PatchHeader.description` / `set_description` -/
example : ∃ g s, pairOk g s = true ∧ g.shape = .firstLine ∧ s.shape = .firstLine ∧ s.names.length = 2 := by
  refine ⟨(findRow "dep3.PatchHeader".toList "description".toList).get (by decide +kernel),
    (findRow "dep3.PatchHeader".toList "set_description".toList).get (by decide +kernel), ?_⟩
  decide +kernel

end Deb822Verif.Props.C15
