import Deb822Verif.Model.DebAccess
import Deb822Verif.Spec.DocGrammar
import Deb822Verif.Lemmas.DebLexLines
import Deb822Verif.Lemmas.DebParseDoc
import Deb822Verif.Lemmas.DebContentDoc
import Deb822Verif.Spec.DocSDec
import Deb822Verif.Lemmas.DebReject
/-!
# C03 — well-formed deb822 documents are accepted and read back exactly as written
-/
namespace Deb822Verif.Props.C03
open Deb822Verif Deb Node Spec

/-! ### lookups, relative to the (name, value) list `items` — for every tree -/

/-- `keys()` are the field names in file order (duplicates included) -/
theorem C03_keys_items (p : DNode) : keys p = (items p).map (·.1) := by
  unfold keys items
  induction entries p with
  | nil => simp
  | cons e es ih =>
    simp only [List.filterMap_cons]
    cases entryKey e <;> simp [ih]

/-- the all-values lookup returns every value of that name, in order -/
theorem C03_getAll_items (p : DNode) (k : Str) :
    getAll p k = ((items p).filter (·.1 == k)).map (·.2) := by
  unfold getAll
  induction items p with
  | nil => simp
  | cons kv kvs ih =>
    simp only [List.filterMap_cons, List.filter_cons]
    split <;> simp_all

/-- name lookup returns the first field of that name -/
theorem C03_get_first (p : DNode) (k : Str) :
    Deb.get p k = ((items p).find? (·.1 == k)).map (·.2) := by
  unfold Deb.get items
  induction entries p with
  | nil => simp
  | cons e es ih =>
    simp only [List.find?_cons, List.filterMap_cons]
    cases h : entryKey e with
    | none => simpa using ih
    | some k' =>
      by_cases hk : k' = k
      · subst hk; simp
      · have h1 : (some k' == some k) = false := by simp [hk]
        have h2 : (k' == k) = false := by simp [hk]
        simp only [Option.map_some, Option.some.injEq, List.find?_cons] at ih ⊢
        simp [h1, h2, ih]

theorem C03_contains (p : DNode) (k : Str) : containsKey p k = (Deb.get p k).isSome := rfl

/-! ### acceptance: every well-formed document (Spec/DocS.lean: `DocS.WF`) -/

/-- T-INV: lexing and parsing the text of a well-formed document yields exactly its tree, no error -/
theorem C03_parse_inverts (d : DocS) (h : d.WF) : parse d.str = ⟨d.tree, []⟩ := by
  unfold parse; rw [lex_doc d h, parse_doc d h]

/-- the strict reader accepts every well-formed document and exposes exactly the paragraphs, the
    field names in file order (duplicates included) and each value as its (non-empty) lines joined
    by newlines, indentation and whitespace after the colon removed -/
theorem C03_accept (d : DocS) (h : d.WF) :
    readStrict d.str = .ok d.tree ∧ docItems d.tree = d.content := by
  refine ⟨?_, docItems_tree d⟩
  simp [readStrict, C03_parse_inverts d h]

/-- the tolerant reader reports no error on it -/
theorem C03_accept_relaxed (d : DocS) (h : d.WF) : readRelaxed d.str = (d.tree, []) := by
  simp [readRelaxed, C03_parse_inverts d h]

/-- lookups on the i-th paragraph of an accepted document, in terms of the document's content -/
theorem C03_lookup (d : DocS) (i : Nat) (hi : i < d.paras.length) (k : Str) :
    let p := (paragraphs d.tree)[i]'(by simpa [paragraphs_tree] using hi)
    let c := d.content[i]'(by simpa [DocS.content] using hi)
    keys p = c.map (·.1)
    ∧ Deb.get p k = (c.find? (·.1 == k)).map (·.2)
    ∧ getAll p k = (c.filter (·.1 == k)).map (·.2)
    ∧ containsKey p k = (c.find? (·.1 == k)).isSome := by
  intro p c
  have hp : items p = c := by
    simp only [p, c, paragraphs_tree, DocS.content, List.getElem_map]
    exact items_para _
  refine ⟨?_, ?_, ?_, ?_⟩
  · rw [C03_keys_items, hp]
  · rw [C03_get_first, hp]
  · rw [C03_getAll_items, hp]
  · rw [C03_contains, C03_get_first, hp]; simp

/-- `Paragraph::from_str` returns the first paragraph -/
theorem C03_paragraph_from_str (d : DocS) (h : d.WF) :
    paragraphFromStr d.str =
      match d.paras with
      | [] => .error ["no paragraphs"]
      | pg :: _ => .ok pg.1.node := by
  simp only [paragraphFromStr, (C03_accept d h).1, paragraphs_tree]
  cases d.paras <;> simp

/-- the tree of a well-formed document prints as the document (sanity of the specification) -/
theorem C03_tree_text (d : DocS) (h : d.WF) : d.tree.text = d.str := by
  have := Deb822Verif.Props.C03.C03_parse_inverts d h
  have h2 : (parse d.str).tree.leaves = lex d.str := by
    unfold parse parseTokens
    have hl := rootLoop_leaves (lex d.str)
    rw [rootLoop_rest] at hl
    simpa using hl
  rw [this] at h2
  have h3 := tokText_leaves d.tree
  rw [h2] at h3
  have : tokText (lex d.str) = d.str := by
    unfold lex
    have : ∀ st input, tokText (lexAux st input) = input := by
      intro st input
      fun_induction lexAux st input with
      | case1 => simp
      | case2 st c rest r ih =>
        have hs : (lexStep st c rest).1.2 ++ (lexStep st c rest).2.2 = c :: rest := by
          unfold lexStep; (repeat' split) <;> simp [List.takeWhile_append_dropWhile]
        simp only [tokText_cons, ih]; exact hs
    exact this _ _
  rw [← h3, this]

/-! ### rejection -/

/-- **rejection clause**: take any well-formed document all of whose lines are LF-terminated, append
    a line that is neither field, continuation, comment nor blank (`BadLine`: it starts with ':' ,
    or with a character that cannot start a field name, or it is a name — optionally followed by
    whitespace — not followed by ':'), and then anything at all after that line's end: the
    tolerant reader reports an error and the strict reader fails. -/
theorem C03_reject (d : DocS) (h : d.WF) (ha : DocTermAll d) (l tail : Str) (hb : BadLine l)
    (he : LineEnd tail) :
    (readRelaxed (d.str ++ (l ++ tail))).2 ≠ [] ∧ ∀ t, readStrict (d.str ++ (l ++ tail)) ≠ .ok t := by
  have := parse_bad_line d h ha l tail hb he
  refine ⟨this, ?_⟩
  intro t ht
  unfold readStrict at ht
  split at ht
  · rename_i he'
    exact this (by simpa [List.isEmpty_iff] using he')
  · simp at ht

instance parasTermRDec : (ps : List (ParaS × List Gap)) → Decidable (parasTermR ps)
  | [] => isTrue trivial
  | [(p, g)] => by simp only [parasTermR]; exact inferInstance
  | (p, g) :: q :: ps =>
    have := parasTermRDec (q :: ps)
    by simp only [parasTermR]; exact inferInstance

theorem docTermAll_iff (d : DocS) : DocTermAll d ↔ (gapsTerm d.lead true ∧ parasTermR d.paras) :=
  ⟨fun h => ⟨h.lead, h.paras⟩, fun h => ⟨h.1, h.2⟩⟩
instance (d : DocS) : Decidable (DocTermAll d) := decidable_of_iff _ (docTermAll_iff d).symm

/-! ### non-vacuity: a concrete document with comments, duplicate names, continuation lines, a
    continuation starting with ':', no final newline — it satisfies `WF` -/

def exDoc : DocS :=
  { lead := [.comment " lead".toList true, .blank],
    paras := [
      ({ first := { key := "Source".toList, ws := [' '], v := "foo".toList, nl := true,
                    conts := [{ indent := [' '], text := ":x é".toList, nl := true }] },
         rest := [.comment " c".toList true,
                  .entry { key := "A".toList, ws := [], v := [], nl := true, conts := [] },
                  .entry { key := "A".toList, ws := ['\t'], v := "b: #c".toList, nl := true, conts := [] },
                  .comment " trailing".toList true] },
       [.blank, .comment " between".toList true]),
      ({ first := { key := "Package".toList, ws := [' '], v := "bar".toList, nl := false, conts := [] },
         rest := [] }, [])] }

example : exDoc.str = "# lead\n\nSource: foo\n :x é\n# c\nA:\nA:\tb: #c\n# trailing\n\n# between\nPackage: bar".toList := by
  decide

example : exDoc.WF := by decide

/-- the rejection theorem fires: a fully terminated prefix of the example followed by the bad line
    `Maintainer  Jane` (a name, whitespace, then no colon) and more text -/
def exPrefix : DocS :=
  { lead := [.comment " lead".toList true, .blank],
    paras := [
      ({ first := { key := "Source".toList, ws := [' '], v := "foo".toList, nl := true,
                    conts := [{ indent := [' '], text := ":x é".toList, nl := true }] },
         rest := [.comment " c".toList true,
                  .entry { key := "A".toList, ws := [], v := [], nl := true, conts := [] }] },
       [.blank, .comment " between".toList true])] }

example : exPrefix.WF ∧ DocTermAll exPrefix := by constructor <;> decide

example : BadLine "Maintainer  Jane".toList :=
  ⟨by decide, Or.inr (Or.inr ⟨"Maintainer".toList, "  ".toList, "Jane".toList, rfl, by decide, by decide,
    by intro x hx; simp at hx; subst hx; decide,
    by intro x hx; simp at hx; subst hx; decide,
    by intro c hc; simp at hc; subst hc; decide⟩)⟩

example : BadLine "-x: y".toList :=
  ⟨by decide, Or.inr (Or.inl ⟨'-', "x: y".toList, rfl, by decide, by decide, by decide, by decide⟩)⟩

example : exDoc.content =
    [[("Source".toList, "foo\n:x é".toList), ("A".toList, []), ("A".toList, "b: #c".toList)],
     [("Package".toList, "bar".toList)]] := by decide

end Deb822Verif.Props.C03
