import Deb822Verif.Model.DebAccess
import Deb822Verif.Spec.DocGrammar
/-!
# C03 — well-formed deb822 documents are accepted and read back exactly as written
-/
namespace Deb822Verif.Props.C03
open Deb822Verif Deb Node Spec

/-! ### lookups, relative to the (name, value) list `items` — for every tree -/

/-- `keys()` are the field names in file order (duplicates included) -/
theorem C03_keys_items (p : DNode) : keys p = (items p).map (·.1) := by
  unfold keys items
  induction entries p with
  | nil => simp
  | cons e es ih =>
    simp only [List.filterMap_cons]
    cases entryKey e <;> simp [ih]

/-- the all-values lookup returns every value of that name, in order -/
theorem C03_getAll_items (p : DNode) (k : Str) :
    getAll p k = ((items p).filter (·.1 == k)).map (·.2) := by
  unfold getAll
  induction items p with
  | nil => simp
  | cons kv kvs ih =>
    simp only [List.filterMap_cons, List.filter_cons]
    split <;> simp_all

/-- name lookup returns the first field of that name -/
theorem C03_get_first (p : DNode) (k : Str) :
    Deb.get p k = ((items p).find? (·.1 == k)).map (·.2) := by
  unfold Deb.get items
  induction entries p with
  | nil => simp
  | cons e es ih =>
    simp only [List.find?_cons, List.filterMap_cons]
    cases h : entryKey e with
    | none => simpa using ih
    | some k' =>
      by_cases hk : k' = k
      · subst hk; simp
      · have h1 : (some k' == some k) = false := by simp [hk]
        have h2 : (k' == k) = false := by simp [hk]
        simp only [Option.map_some, Option.some.injEq, List.find?_cons] at ih ⊢
        simp [h1, h2, ih]

theorem C03_contains (p : DNode) (k : Str) : containsKey p k = (Deb.get p k).isSome := rfl

end Deb822Verif.Props.C03
