import Deb822Verif.Props.C14
import Deb822Verif.Props.C09Frame
import Deb822Verif.Props.C12
import Deb822Verif.Lemmas.RelEditBuilt
/-!
# C14, second part — the parser in the statement, exact conversion on all values, empty entries

Strengthens `Props/C14.lean` (whose statements are unchanged).

## Clause table (property text against the theorems of C14.lean + this file)

| clause of the property                                   | status      | theorems |
|----------------------------------------------------------|-------------|----------|
| domain "assembled from valid components"                 | FULL (wider) | `ValidR`: identifier characters for name / qualifier / architectures (`[!]name`) / profile names, version = the parse of its own text. Wider than the text: an EMPTY architecture list `Some(vec![])` and an EMPTY profile group `<>` are accepted (the quantifier says "0..n architectures", "groups of 1..n terms"). |
| "prints to a string the lossy reader turns back into an equal value" — `Relation` | FULL | `C14_roundtrip_rel` (all `ValidR`, `Some([])` included) |
| … — `Relations`                                          | RESTRICTED → EXACT here | `C14_roundtrip` needs every entry non-empty; `C14_roundtrip_exact`: for ALL values with valid relations the reader returns the value without its empty entries; `C14_roundtrip_iff`: equal iff no entry is empty |
| "equal value": Rust `==`                                 | FULL (stronger) + witness | the Lean equality is structural, Rust `==` compares versions with `Version::cmp` (`1.0 == 1.00`); structural equality gives `==` when `cmp` does not panic: `C14_version_eq_refl`; the re-read version prints the same text: `C14_roundtrip_version_text`; `r == r` itself panics for a component above `i32::MAX`: `C14_version_eq_panic_witness` (F-C12-1, third party) |
| "the lossless reader reads \[it\] as the same structure" — `Relations` | FULL / EXACT | `C14_lossless_reads_same`; with empty entries `C14_lossless_reads_exact` |
| … — single `Relation` (`lossless::Relation::from_str`)   | MISSING → FULL here | `C14_lossless_reads_same_rel` |
| "converting lossy → lossless → lossy returns the original" | RESTRICTED (false on `Some([])`) → EXACT here | `C14_convert_back` on `ValidRS`; `C14_convert_exact`: on ALL `ValidR` the result is `normArchs r`; `C14_convert_back_iff`: the original iff `architectures ≠ Some([])`; `C14_emptyarchs_is_reader_output`: `Some([])` is what both readers return for `a []` — an in-domain failure of the clause (candidate defect F-C14-3) |
| "the lossless form prints the same text"                 | RESTRICTED → EXACT here | `C14_convert_text` on `ValidRS`; `C14_convert_exact`, `C14_convert_text_iff` |
| (comment of `C14_convert_tree`: "the tree the parser produces") | MISSING → FULL here | `C14_parse_is_built`: `lossless::Relation::from_str(r.to_string()) = Ok(Relation::from(r))`, tree for tree; `C14_parse_printed` (all `ValidR`), `C14_parse_is_built_norm`; entries: `C14_entry_parse_is_built` (needs: no non-last alternative is a bare `name:qualifier`, `C14_entry_parse_differs_qualifier`); fields: `C14_field_parse_tree`, `C14_field_parse_is_built` |
| entries `Entry::from(Vec<lossy::Relation>)` and back     | RESTRICTED → EXACT here | `C14_entry_convert` on `ValidRS`; `C14_entry_convert_exact` on all `ValidR` |
| `Relations::from(Vec<Entry>)` of the converted entries prints the lossy text | MISSING → FULL here | `C14_relations_convert_text` |

## Finding (candidate genuine defect, F-C14-3)

`"a []".parse::<lossy::Relation>()` is `Ok(Relation { architectures: Some([]), .. })` (lossy/relations.rs:364-383:
`]` right after `[` breaks the loop with an empty `Vec`), and so is `lossy::Relation::from("a []".parse::<lossless::Relation>())`.
For that value `lossless::Relation::from(l).to_string()` is `"a"`, not `"a []"`, and converting back gives
`architectures: None` (`set_architectures` returns early on an empty list, lossless/relations.rs:1581-1594; confirmed on
the real code). The value is not hand-made: the conversion clause of the property fails on a value the crate's own
readers produce. `C14_emptyarchs_is_reader_output`, exact behaviour: `C14_convert_exact`.

## Correspondence

`harness/src/relc14.rs` evaluates the exact forms on every generated value of `ValidR` (before: only on `ValidRS`
with non-empty entries): text round trip with empty entries dropped, single-relation lossless reader, conversion
= `norm_archs`, and the tree dumps of `Relation/Entry/Relations::from_str` of the printed text against the dumps of the
constructors (`C14_parse_is_built*`, under `no_inner_qual_bare` for entries and fields).
-/
set_option linter.unusedSimpArgs false
set_option linter.unusedVariables false
namespace Deb822Verif.Props.C14More
open Deb822Verif Rel Node RelSpec Lossy Build
open Deb822Verif.Props.C10 Deb822Verif.Props.C14

/-! ## B. the exact conversion on all valid values -/

/-- what the lossless form remembers of the architecture list: an empty list is "no list"
    (`set_architectures` returns early on an empty iterator, relations.rs:1581-1594) -/
def normArchs (r : Lossy.Relation) : Lossy.Relation :=
  { r with architectures := match r.architectures with
      | some [] => none
      | a => a }

theorem C14_normArchs_eq_iff (r : Lossy.Relation) : normArchs r = r ↔ r.architectures ≠ some [] := by
  cases r with
  | mk name aq archs ver profs =>
    cases archs with
    | none => simp [normArchs]
    | some as => cases as <;> simp [normArchs]

theorem normArchs_idem (r : Lossy.Relation) : normArchs (normArchs r) = normArchs r := by
  cases r with
  | mk name aq archs ver profs =>
    cases archs with
    | none => rfl
    | some as => cases as <;> rfl

theorem validRS_normArchs (r : Lossy.Relation) (h : validR r = true) : validRS (normArchs r) = true := by
  cases r with
  | mk name aq archs ver profs =>
    cases archs with
    | none => simpa [validRS, normArchs] using h
    | some as =>
      cases as with
      | nil => simpa [validRS, validR, normArchs] using h
      | cons a rest => simpa [validRS, normArchs] using h

theorem validRS_iff_normArchs (r : Lossy.Relation) :
    validRS r = true ↔ validR r = true ∧ normArchs r = r := by
  rw [C14_normArchs_eq_iff]
  cases r with
  | mk name aq archs ver profs =>
    cases archs with
    | none => simp [validRS]
    | some as => cases as <;> simp [validRS]

/-- the builder does not see the difference between `Some([])` and `None` -/
theorem toLossless_normArchs (r : Lossy.Relation) : toLossless (normArchs r) = toLossless r := by
  rw [toLossless_eq, toLossless_eq]
  cases r with
  | mk name aq archs ver profs =>
    cases archs with
    | none => rfl
    | some as => cases as <;> rfl

/-- **The conversion clauses, exactly, on every valid value** (`Some([])` included): the lossless
    form is the tree of — prints as — converts back to — the value with an empty architecture list
    replaced by none. -/
theorem C14_convert_exact (r : Lossy.Relation) (h : ValidR r) :
    toLossless r = (canonRel (normArchs r)).node []
      ∧ (toLossless r).text = Lossy.showRelation (normArchs r)
      ∧ toLossy (toLossless r) = .ok (normArchs r) := by
  have hs := validRS_normArchs r h
  refine ⟨?_, ?_, ?_⟩
  · rw [← toLossless_normArchs]; exact toLossless_canon _ hs
  · rw [← toLossless_normArchs]; exact toLossless_text _ hs
  · rw [← toLossless_normArchs]; exact toLossless_back _ hs

example : ValidR ⟨"a".toList, some "any".toList, some [], some (.GreaterThanEqual, ⟨some 1, "2".toList, none⟩),
    [[.Disabled ['x']]]⟩ := by decide +kernel

/-- converting back gives the ORIGINAL value exactly when the architecture list is not `Some([])` -/
theorem C14_convert_back_iff (r : Lossy.Relation) (h : ValidR r) :
    toLossy (toLossless r) = .ok r ↔ r.architectures ≠ some [] := by
  rw [(C14_convert_exact r h).2.2, ← C14_normArchs_eq_iff]
  constructor
  · intro e; injection e
  · intro e; rw [e]

theorem showRelation_length (r : Lossy.Relation) :
    (Lossy.showRelation r).length
      = r.name.length
        + (match r.archqual with | some a => a.length + 1 | none => 0)
        + (match r.version with | some (c, v) => c.display.length + v.display.length + 4 | none => 0)
        + (match r.architectures with | some as => (Text.join [' '] as).length + 3 | none => 0)
        + (r.profiles.map fun g => [' ', '<'] ++ Text.join [' '] (g.map showProfile) ++ ['>']).flatten.length := by
  cases r with
  | mk name aq archs ver profs =>
    rcases ver with _ | ⟨c, v⟩ <;> cases aq <;> cases archs <;>
      simp [Lossy.showRelation] <;> omega

/-- the lossless form prints the lossy text exactly when the architecture list is not `Some([])`
    (otherwise the lossy text has ` []` that the lossless form has not) -/
theorem C14_convert_text_iff (r : Lossy.Relation) (h : ValidR r) :
    (toLossless r).text = Lossy.showRelation r ↔ r.architectures ≠ some [] := by
  rw [(C14_convert_exact r h).2.1]
  constructor
  · intro e ha
    have hl := congrArg List.length e
    rw [showRelation_length, showRelation_length] at hl
    cases r with
    | mk name aq archs ver profs =>
      simp only at ha
      subst ha
      simp [normArchs, Text.join] at hl
  · intro hne; rw [(C14_normArchs_eq_iff r).2 hne]

/-- `a []` -/
def exEmptyArchs : Lossy.Relation := ⟨['a'], none, some [], none, []⟩

/-- **`Some(vec![])` is not a hand-made value: it is what both readers return for `a []`.**
    `"a []".parse::<lossy::Relation>()` is `Ok` with `architectures: Some([])`; so is the lossless reader's
    relation converted to lossy. That value is valid (`ValidR`), prints `a []`, but its lossless form
    (through `RelationBuilder`) prints `a` and converts back to `architectures: None`: the conversion
    clause of the property fails on a value the crate's own parser produces (candidate defect F-C14-3). -/
theorem C14_emptyarchs_is_reader_output :
    Lossy.readRelation "a []".toList = .ok exEmptyArchs
      ∧ (match Rel.readRelation "a []".toList with
          | .ok t => decide (toLossy t = .ok exEmptyArchs) && t.text == "a []".toList
          | .error _ => false) = true
      ∧ ValidR exEmptyArchs
      ∧ Lossy.showRelation exEmptyArchs = "a []".toList
      ∧ (toLossless exEmptyArchs).text = "a".toList
      ∧ toLossy (toLossless exEmptyArchs) = .ok ⟨['a'], none, none, none, []⟩
      ∧ toLossy (toLossless exEmptyArchs) ≠ .ok exEmptyArchs := by decide +kernel

/-! ### entries -/

theorem entryFromLossy_normArchs (e : List Lossy.Relation) :
    entryFromLossy (e.map normArchs) = entryFromLossy e := by
  simp [entryFromLossy, List.map_map, Function.comp_def, toLossless_normArchs]

/-- `Entry::from(Vec<lossy::Relation>)` and back, on every list of valid relations -/
theorem C14_entry_convert_exact (e : List Lossy.Relation) (hv : ∀ r ∈ e, ValidR r) :
    (entryFromLossy e).text = Text.join [' ', '|', ' '] (e.map fun r => Lossy.showRelation (normArchs r))
      ∧ entryToLossy (entryFromLossy e) = .ok (e.map normArchs) := by
  have hs : ∀ r ∈ e.map normArchs, validRS r = true := by
    intro r hr
    simp only [List.mem_map] at hr
    obtain ⟨x, hx, rfl⟩ := hr
    exact validRS_normArchs x (hv x hx)
  rw [← entryFromLossy_normArchs]
  refine ⟨?_, entry_back _ hs⟩
  rw [entry_text _ hs, List.map_map]; rfl

example : ∀ r ∈ [exEmptyArchs, exNoArchs, exTwoGroups], ValidR r := by decide +kernel

/-! ## D. empty entries: the exact text round trip on all values -/

/-- `canon_wf` does not need the entries to be non-empty -/
theorem canon_wf_all (rs : List (List Lossy.Relation)) (h : ∀ e ∈ rs, ∀ r ∈ e, validR r = true) :
    (canon rs).WF := by
  have hent : ∀ e : List Lossy.Relation, (∀ r ∈ e, validR r = true) → (canonEntry e).ok = true := by
    intro e hall
    cases e with
    | nil => rfl
    | cons r rs =>
      simp only [canonEntry, EntryA.ok, Bool.and_eq_true, List.all_eq_true, List.mem_map]
      refine ⟨canonRel_ok r (hall r (by simp)), ?_⟩
      rintro a ⟨x, hx, rfl⟩
      simp [AltA.ok, sp_ok, canonRel_ok x (hall x (by simp [hx]))]
  have hseg : ∀ (g : Gap) (e : List Lossy.Relation), gapOk g = true → (∀ r ∈ e, validR r = true) →
      Seg.ok ⟨g, canonEntry e, []⟩ = true := by
    intro g e hg hall
    simp [Seg.ok, hg, gapOk, hent e hall]
  simp only [FieldA.WF, FieldA.ok, canon, List.all_eq_true]
  intro s hs
  cases rs with
  | nil => simp [canonSegs] at hs
  | cons e es =>
    simp only [canonSegs, List.mem_cons, List.mem_map] at hs
    rcases hs with rfl | ⟨x, hx, rfl⟩
    · exact hseg [] e rfl (h e (by simp))
    · exact hseg sp x sp_ok (h x (by simp [hx]))

/-- the entries that survive printing: those with at least one alternative -/
def dropEmpty (rs : List (List Lossy.Relation)) : List (List Lossy.Relation) := rs.filter fun e => !e.isEmpty

theorem canonEntry_view (e : List Lossy.Relation) (hall : ∀ r ∈ e, validR r = true) :
    (canonEntry e).view = if e.isEmpty then none else some e := by
  cases e with
  | nil => rfl
  | cons r rs =>
    simp only [canonEntry, EntryA.view, List.map_map, List.isEmpty_cons, Bool.false_eq_true, if_false,
      Option.some.injEq, List.cons.injEq]
    refine ⟨canonRel_view r (hall r (by simp)), ?_⟩
    have : ∀ x ∈ rs, ((fun a : AltA => a.rel.view) ∘ fun x => (⟨sp, sp, canonRel x⟩ : AltA)) x = x :=
      fun x hx => canonRel_view x (hall x (by simp [hx]))
    simpa using List.map_congr_left this

theorem canon_view_all (rs : List (List Lossy.Relation)) (h : ∀ e ∈ rs, ∀ r ∈ e, validR r = true) :
    (canon rs).view = dropEmpty rs := by
  have key : ∀ (g : Gap) (es : List (List Lossy.Relation)), (∀ e ∈ es, ∀ r ∈ e, validR r = true) →
      (es.map fun x => (⟨g, canonEntry x, []⟩ : Seg)).filterMap (fun s => s.entry.view) = dropEmpty es := by
    intro g es hes
    induction es with
    | nil => rfl
    | cons e es ih =>
      simp only [List.map_cons, List.filterMap_cons, canonEntry_view e (hes e (by simp)), dropEmpty,
        List.filter_cons]
      have := ih (fun x hx => hes x (by simp [hx]))
      simp only [dropEmpty] at this
      cases e <;> simp [this]
  cases rs with
  | nil => rfl
  | cons e es =>
    have h2 := key sp es (fun x hx => h x (by simp [hx]))
    simp only [canon, FieldA.view, canonSegs, List.filterMap_cons, canonEntry_view e (h e (by simp)), h2,
      dropEmpty, List.filter_cons]
    cases e <;> simp [dropEmpty]

/-- **`lossy::Relations::from_str(&rs.to_string())` on every value whose relations are valid**: the
    value without its empty entries (an entry without alternatives prints as nothing between two
    commas, which the reader skips) -/
theorem C14_roundtrip_exact (rs : List (List Lossy.Relation)) (h : ∀ e ∈ rs, ∀ r ∈ e, ValidR r) :
    Lossy.readRelations (Lossy.showRelations rs) = .ok (dropEmpty rs) := by
  rw [← canon_str, C10_lossy (canon rs) (canon_wf_all rs h) (canon_noSubstvar rs), canon_view_all rs h]

theorem dropEmpty_eq_iff (rs : List (List Lossy.Relation)) : dropEmpty rs = rs ↔ ∀ e ∈ rs, e ≠ [] := by
  simp [dropEmpty, List.filter_eq_self]

/-- … so the value itself comes back exactly when no entry is empty -/
theorem C14_roundtrip_iff (rs : List (List Lossy.Relation)) (h : ∀ e ∈ rs, ∀ r ∈ e, ValidR r) :
    Lossy.readRelations (Lossy.showRelations rs) = .ok rs ↔ ∀ e ∈ rs, e ≠ [] := by
  rw [C14_roundtrip_exact rs h, ← dropEmpty_eq_iff]
  constructor
  · intro e; injection e
  · intro e; rw [e]

/-- the lossless reader on the same texts: no error (strict reader included) and the accessors give
    the value without its empty entries -/
theorem C14_lossless_reads_exact (rs : List (List Lossy.Relation)) (h : ∀ e ∈ rs, ∀ r ∈ e, ValidR r)
    (allow : Bool) :
    readRelaxed (Lossy.showRelations rs) allow = ((canon rs).tree, [])
      ∧ accEntries (readRelaxed (Lossy.showRelations rs) allow).1 = some (dropEmpty rs)
      ∧ readStrict (Lossy.showRelations rs) = .ok (canon rs).tree := by
  have hwf := canon_wf_all rs h
  have hns := canon_noSubstvar rs
  obtain ⟨e, hv, _⟩ := C10_lossless (canon rs) hwf allow (Or.inr hns)
  rw [canon_str] at e hv
  refine ⟨e, by rw [hv, canon_view_all rs h], ?_⟩
  rw [← canon_str]; exact C10_strict (canon rs) hwf hns

/-- `, a, , b:any (= 1) [] <>` — empty entries at the front and in the middle, an empty architecture
    list, an empty profile group -/
def exSparse : List (List Lossy.Relation) :=
  [[], [exNoArchs], [], [⟨['b'], some "any".toList, some [], some (.Equal, ⟨none, ['1'], none⟩), [[]]⟩]]

example : (∀ e ∈ exSparse, ∀ r ∈ e, ValidR r) ∧ ¬ ValidRs exSparse
    ∧ Lossy.showRelations exSparse = ", a, , b:any (= 1) [] <>".toList
    ∧ (dropEmpty exSparse).length = 2 := by decide +kernel

/-! ## C. what "an equal value" means for versions

The theorems of C14 state STRUCTURAL equality of the model's records: same epoch option, same upstream
text, same revision option. Rust's `==` on `lossy::Relation` is the derived `PartialEq`, which compares
the `debversion::Version`s with `Version::eq` = `self.cmp(other) == Equal` (debversion-0.4.4
lib.rs:179-183): it identifies `1.0` and `1.00`, `0:1` and `1`, and it can panic (`parse::<i32>().unwrap()`
on a digit run above `i32::MAX`, F-C12-1). Structural equality is the stronger statement wherever `==`
returns at all: the round trip gives back the same printed version text, not merely an equivalent
version. -/

/-- `<debversion::Version as PartialEq>::eq` as it runs: `cmp(..) == Equal`, panics included -/
def versionEqO (v w : Version) : Outcome Bool := (DebVersion.compareO v w).map (· == .eq)

/-- the derived `PartialEq for lossy::Relation` as it runs (fields in declaration order: name,
    archqual, architectures, version, profiles; `&&` short-circuits; the tuple `(constraint, version)`
    compares the constraint first) -/
def relEqO (r s : Lossy.Relation) : Outcome Bool :=
  if r.name = s.name ∧ r.archqual = s.archqual ∧ r.architectures = s.architectures then
    match r.version, s.version with
    | some (c, v), some (d, w) =>
      if c = d then (versionEqO v w).map (· && decide (r.profiles = s.profiles)) else .ok false
    | none, none => .ok (decide (r.profiles = s.profiles))
    | _, _ => .ok false
  else .ok false

/-- a version is `==` to itself when its numeric components fit an `i32` -/
theorem C14_version_eq_refl (v : Version) (h : DebVersion.small v = true) : versionEqO v v = .ok true := by
  simp [versionEqO, Deb822Verif.Props.C12.C12_compareO_small v v h h,
    Deb822Verif.Props.C12.C12_order_refl, Outcome.map]

/-- the version of a relation, when it has one, has numeric components that fit an `i32` -/
def smallVersion (r : Lossy.Relation) : Bool :=
  match r.version with
  | some (_, v) => DebVersion.small v
  | none => true

/-- structural equality gives Rust `==` (without panic) when the version's numbers fit an `i32` -/
theorem relEqO_refl (r : Lossy.Relation) (h : smallVersion r = true) : relEqO r r = .ok true := by
  cases r with
  | mk name aq archs ver profs =>
    rcases ver with _ | ⟨c, v⟩
    · simp [relEqO]
    · simp only [smallVersion] at h
      simp [relEqO, C14_version_eq_refl v h, Outcome.map]

/-- **the text round trip with Rust's `==`**: `lossy::Relation::from_str(&r.to_string())` is `Ok(r')`
    with `r' == r` evaluating to `true` without panic; moreover `r'` has the SAME printed version
    (`Version::to_string`), operator included — not merely a version that compares equal -/
theorem C14_roundtrip_version_text (r : Lossy.Relation) (h : ValidR r) :
    ∃ r', Lossy.readRelation (Lossy.showRelation r) = .ok r'
      ∧ r'.version.map (fun p => (p.1, p.2.display)) = r.version.map (fun p => (p.1, p.2.display))
      ∧ (smallVersion r = true → relEqO r' r = .ok true) :=
  ⟨r, C14_roundtrip_rel r h, rfl, relEqO_refl r⟩

example : ValidR ⟨['a'], none, none, some (.LessThan, ⟨some 0, "1.00~rc1".toList, some "2".toList⟩), []⟩
    ∧ smallVersion ⟨['a'], none, none, some (.LessThan, ⟨some 0, "1.00~rc1".toList, some "2".toList⟩), []⟩ = true := by
  decide +kernel

/-- Rust `==` is weaker than structural equality where it returns (`1.0 == 1.00`, `0:1 == 1`), and
    it does not always return: a VALID value with the version `2147483648` is not `==` to itself — the
    comparison panics (third-party defect F-C12-1), so the Rust-level check `from_str(to_string(r)) == Ok(r)`
    cannot be evaluated for it, while the structural statement `C14_roundtrip_rel` holds -/
theorem C14_version_eq_panic_witness :
    versionEqO ⟨none, "1.0".toList, none⟩ ⟨none, "1.00".toList, none⟩ = .ok true
      ∧ (⟨none, "1.0".toList, none⟩ : Version) ≠ ⟨none, "1.00".toList, none⟩
      ∧ versionEqO ⟨some 0, ['1'], none⟩ ⟨none, ['1'], none⟩ = .ok true
      ∧ ValidR ⟨['a'], none, none, some (.Equal, ⟨none, "2147483648".toList, none⟩), []⟩
      ∧ (relEqO ⟨['a'], none, none, some (.Equal, ⟨none, "2147483648".toList, none⟩), []⟩
            ⟨['a'], none, none, some (.Equal, ⟨none, "2147483648".toList, none⟩), []⟩).isOk = false
      ∧ Lossy.readRelation (Lossy.showRelation ⟨['a'], none, none, some (.Equal, ⟨none, "2147483648".toList, none⟩), []⟩)
          = .ok ⟨['a'], none, none, some (.Equal, ⟨none, "2147483648".toList, none⟩), []⟩ := by
  decide +kernel

/-! ## A. the parser in the statement: the builder's tree IS the parser's tree of the printed text -/

/-- the tree of a field with one entry of one relation and no layout around it -/
theorem single_tree (r : RelA) :
    (⟨[⟨[], .alts r [], []⟩]⟩ : FieldA).tree = .node .ROOT [.node .ENTRY [r.node []]] := by
  simp only [FieldA.tree, segsNodes, Seg.nodes, altsNodes, gapToks, List.map_nil, tks_nil,
    List.nil_append]
  (repeat' split) <;> rfl

theorem showRelations_single (r : Lossy.Relation) : Lossy.showRelations [[r]] = Lossy.showRelation r := by
  simp [Lossy.showRelations, Text.join]

/-- **`lossless::Relation::from_str(&r.to_string())`** (the single-relation reader: strict field
    parse, exactly one ENTRY, exactly one RELATION) on the text of every valid value: `Ok`, and the
    node is the canonical-layout tree of the value -/
theorem C14_parse_printed (r : Lossy.Relation) (h : ValidR r) :
    Rel.readRelation (Lossy.showRelation r) = .ok ((canonRel r).node []) := by
  have hv : validRs [[r]] = true := by
    have h' : validR r = true := h
    simp [validRs, h']
  have hst := C10_strict (canon [[r]]) (canon_wf [[r]] hv) (canon_noSubstvar [[r]])
  rw [canon_str, showRelations_single] at hst
  have ht : (canon [[r]]).tree = .node .ROOT [.node .ENTRY [(canonRel r).node []]] := single_tree (canonRel r)
  rw [ht] at hst
  exact (Deb822Verif.Props.C09.C09_relation_ok_iff _ _).2 ⟨_, _, hst, rfl, rfl⟩

/-- **the parser produces the builder's tree**: for every value of the conversion domain,
    `lossless::Relation::from_str(&r.to_string())` is `Ok` and returns exactly the green tree that
    `lossless::Relation::from(r)` builds through `RelationBuilder` — node for node, token for token -/
theorem C14_parse_is_built (r : Lossy.Relation) (h : ValidRS r) :
    Rel.readRelation (Lossy.showRelation r) = .ok (toLossless r) := by
  rw [C14_parse_printed r (validR_of_validRS h), toLossless_canon r h]

example : Rel.readRelation "a [b] <x> <y>".toList = .ok (toLossless exTwoGroups) := by
  have h := C14_parse_is_built exTwoGroups (by decide +kernel)
  rwa [show Lossy.showRelation exTwoGroups = "a [b] <x> <y>".toList by decide +kernel] at h

/-- … and on every valid value (`Some([])` included) the built tree is what the parser returns for
    the text of the value with `Some([])` replaced by `None` -/
theorem C14_parse_is_built_norm (r : Lossy.Relation) (h : ValidR r) :
    Rel.readRelation (Lossy.showRelation (normArchs r)) = .ok (toLossless r) := by
  rw [← toLossless_normArchs]
  exact C14_parse_is_built _ (validRS_normArchs r h)

/-- for `Some([])` the parser's tree of the printed text `a []` (which has an ARCHITECTURES node) is not
    the built tree (which has none) -/
theorem C14_parse_is_built_needs_nonempty_archs :
    Rel.readRelation (Lossy.showRelation exEmptyArchs) = .ok ((canonRel exEmptyArchs).node [])
      ∧ Rel.readRelation (Lossy.showRelation exEmptyArchs) ≠ .ok (toLossless exEmptyArchs) := by
  have h1 := C14_parse_printed exEmptyArchs (by decide +kernel)
  refine ⟨h1, ?_⟩
  rw [h1]
  intro e
  have := congrArg Node.text (Except.ok.inj e)
  revert this
  decide +kernel

/-- **the lossless single-relation reader reads the same structure**: on the text of every valid
    value `lossless::Relation::from_str` is `Ok`, the relation prints the text it was read from and
    its accessors (`From<lossless::Relation> for lossy::Relation`) give back the value -/
theorem C14_lossless_reads_same_rel (r : Lossy.Relation) (h : ValidR r) :
    ∃ t, Rel.readRelation (Lossy.showRelation r) = .ok t ∧ t.text = Lossy.showRelation r
      ∧ toLossy t = .ok r := by
  refine ⟨_, C14_parse_printed r h, ?_, ?_⟩
  · rw [RelA.node_text _ (canonRel_ok r h), canonRel_str]
  · simp [toLossy, accRelation_rel (canonRel r) [] (canonRel_ok r h), canonRel_view r h]

/-! ### entries and fields -/

/-- a bare `name:qualifier` (no version, architectures, profiles): `parse_relation` consumes the
    whitespace after it INSIDE the RELATION node (relations.rs:190 `skip_ws()`), the builders put it
    outside -/
def qualBare (r : Lossy.Relation) : Bool :=
  (r.version.isNone && r.architectures.isNone && r.profiles.isEmpty) && r.archqual.isSome

/-- no alternative but the last is a bare `name:qualifier` -/
def noInnerQualBare : List Lossy.Relation → Bool
  | [] => true
  | [_] => true
  | r :: s :: rest => !qualBare r && noInnerQualBare (s :: rest)

theorem tailInside_canon (r : Lossy.Relation) : (canonRel r).tailInside .pipe = qualBare r := by
  cases r with
  | mk name aq archs ver profs =>
    have : (Follow.pipe == Follow.eof) = false := by decide
    simp [RelA.tailInside, RelA.bare, canonRel, qualBare, this]

/-- children of the ENTRY node in the constructors' layout, over the canonical relation trees -/
def entryKids (e : List Lossy.Relation) : List RNode :=
  sepBy Edit.sepR (e.map fun x => [(canonRel x).node []])

def entryNode (e : List Lossy.Relation) : RNode := .node .ENTRY (entryKids e)

theorem altsNodes_canon (fl : Follow) (rest : List Lossy.Relation) :
    ∀ r : Lossy.Relation, noInnerQualBare (r :: rest) = true →
      altsNodes (canonRel r) (rest.map fun x => (⟨sp, sp, canonRel x⟩ : AltA)) [] fl
        = (entryKids (r :: rest), []) := by
  induction rest with
  | nil =>
    intro r _
    simp only [List.map_nil, altsNodes, gapToks, tks_nil]
    (repeat' split) <;> rfl
  | cons s rest ih =>
    intro r hq
    simp only [noInnerQualBare, Bool.and_eq_true, Bool.not_eq_true'] at hq
    have hti : (canonRel r).tailInside .pipe = false := by rw [tailInside_canon]; exact hq.1
    simp only [List.map_cons, altsNodes, hti, Bool.false_eq_true, if_false, ih s hq.2]
    simp [entryKids, sepBy, Edit.sepR, gapToks, sp, GapPiece.tok, tks, tk, T]

theorem seg_nodes_canon (g : Gap) (e : List Lossy.Relation) (hne : e ≠ []) (hq : noInnerQualBare e = true)
    (fl : Follow) : Seg.nodes ⟨g, canonEntry e, []⟩ fl = tks (gapToks g) ++ [entryNode e] := by
  cases e with
  | nil => exact absurd rfl hne
  | cons r rest =>
    simp only [Seg.nodes, canonEntry, altsNodes_canon fl rest r hq, tks_nil, entryNode]

theorem segsNodes_canon (es : List (List Lossy.Relation)) :
    ∀ (g : Gap) (e : List Lossy.Relation), (∀ x ∈ e :: es, x ≠ [] ∧ noInnerQualBare x = true) →
      segsNodes (⟨g, canonEntry e, []⟩ :: es.map fun x => (⟨sp, canonEntry x, []⟩ : Seg))
        = tks (gapToks g) ++ sepBy Edit.sepE ((e :: es).map fun x => [entryNode x]) := by
  induction es with
  | nil =>
    intro g e h
    simp only [List.map_nil, segsNodes, seg_nodes_canon g e (h e (by simp)).1 (h e (by simp)).2]
    rfl
  | cons e2 es ih =>
    intro g e h
    simp only [List.map_cons, segsNodes, seg_nodes_canon g e (h e (by simp)).1 (h e (by simp)).2,
      ih sp e2 (fun x hx => h x (by simp [hx]))]
    simp [sepBy, Edit.sepE, gapToks, sp, GapPiece.tok, tks, tk, T, commaTok]

theorem canon_tree_kids (rs : List (List Lossy.Relation))
    (h : ∀ x ∈ rs, x ≠ [] ∧ noInnerQualBare x = true) :
    (canon rs).tree = .node .ROOT (sepBy Edit.sepE (rs.map fun x => [entryNode x])) := by
  cases rs with
  | nil => rfl
  | cons e es =>
    simp only [FieldA.tree, canon, canonSegs, segsNodes_canon es [] e h]
    rfl

theorem entryFromLossy_entryNode (e : List Lossy.Relation) (hv : ∀ r ∈ e, validRS r = true) :
    entryFromLossy e = entryNode e := by
  rw [Edit.entryFromLossy_eq, entryNode, entryKids, List.map_map]
  congr 2
  apply List.map_congr_left
  intro r hr
  simp [Function.comp, toLossless_canon r (hv r hr)]

/-- the strict lossless reader on the text of every value with valid relations: `Ok`, with the tree of
    the canonical-layout field (no hypothesis on empty entries or qualifiers) -/
theorem C14_field_parse_tree (rs : List (List Lossy.Relation)) (h : ∀ e ∈ rs, ∀ r ∈ e, ValidR r) :
    readStrict (Lossy.showRelations rs) = .ok (canon rs).tree :=
  (C14_lossless_reads_exact rs h false).2.2

/-- **the parser produces the constructors' tree, field level**: for a value of the conversion domain
    in which no alternative but the last of an entry is a bare `name:qualifier`,
    `lossless::Relations::from_str(&rs.to_string())` is `Ok` and returns exactly the tree that
    `Relations::from(Vec<Entry>)` of `Entry::from(Vec<lossy::Relation>)` builds -/
theorem C14_field_parse_is_built (rs : List (List Lossy.Relation)) (h : ValidRSs rs)
    (hq : ∀ e ∈ rs, noInnerQualBare e = true) :
    readStrict (Lossy.showRelations rs) = .ok (relationsFromEntries (rs.map entryFromLossy)) := by
  have h' : validRSs rs = true := h
  simp only [validRSs, List.all_eq_true, Bool.and_eq_true, Bool.not_eq_true', List.isEmpty_eq_false_iff] at h'
  have hall : ∀ e ∈ rs, ∀ r ∈ e, ValidR r := fun e he r hr => validR_of_validRS ((h' e he).2 r hr)
  rw [C14_field_parse_tree rs hall, canon_tree_kids rs (fun x hx => ⟨(h' x hx).1, hq x hx⟩)]
  have hb := Edit.built_children rs
  have : (rs.map entryFromLossy) = rs.map entryNode :=
    List.map_congr_left fun e he => entryFromLossy_entryNode e (h' e he).2
  rw [this, List.map_map] at hb
  show _ = Except.ok (Node.node .ROOT (Edit.built rs).children)
  rw [hb]; rfl

/-- **entry level**: `lossless::Entry::from_str` on the alternatives printed with ` | ` returns exactly the
    tree `Entry::from(Vec<lossy::Relation>)` builds -/
theorem C14_entry_parse_is_built (e : List Lossy.Relation) (hne : e ≠ []) (hv : ∀ r ∈ e, ValidRS r)
    (hq : noInnerQualBare e = true) :
    Rel.readEntry (Text.join [' ', '|', ' '] (e.map Lossy.showRelation)) = .ok (entryFromLossy e) := by
  have hrs : ValidRSs [e] := by
    have : ∀ r ∈ e, validRS r = true := hv
    simp only [ValidRSs, validRSs, List.all_cons, List.all_nil, Bool.and_true, Bool.and_eq_true,
      Bool.not_eq_true', List.isEmpty_eq_false_iff, List.all_eq_true]
    exact ⟨hne, this⟩
  have hf := C14_field_parse_is_built [e] hrs (by simpa using hq)
  have hs : Lossy.showRelations [e] = Text.join [' ', '|', ' '] (e.map Lossy.showRelation) := by
    simp [Lossy.showRelations, Text.join]
  rw [hs] at hf
  refine (Deb822Verif.Props.C09.C09_entry_ok_iff _ _).2 ⟨_, hf, ?_⟩
  have hk : Edit.isNodeOf .ENTRY (entryFromLossy e) = true := Edit.isEntry_built e
  simp [relationsFromEntries, sepBy, inject, childNodes, Node.children]
  simpa [Edit.isNodeOf] using hk

/-- `a:any | b:any (>= 1) | c:any, d` — a qualifier on the last alternative or with more after it is fine -/
def exQual : List (List Lossy.Relation) :=
  [[⟨['b'], some "any".toList, none, some (.GreaterThanEqual, ⟨none, ['1'], none⟩), []⟩,
    ⟨['c'], some "any".toList, none, none, []⟩], [⟨['d'], none, none, none, []⟩]]

example : ValidRSs exQual ∧ (∀ e ∈ exQual, noInnerQualBare e = true)
    ∧ Lossy.showRelations exQual = "b:any (>= 1) | c:any, d".toList := by decide +kernel
example : ValidRSs C14.exRs ∧ (∀ e ∈ C14.exRs, noInnerQualBare e = true) := by decide +kernel

/-- `a:any | b` -/
def exQualInner : List Lossy.Relation := [⟨['a'], some "any".toList, none, none, []⟩, ⟨['b'], none, none, none, []⟩]

/-- the condition on qualifiers is needed: for `a:any | b` the parser puts the space after `a:any` inside
    the first RELATION node (ENTRY has 4 children), `Entry::from` puts it between the nodes (5 children).
    Same text, same structure through the accessors, different trees. -/
theorem C14_entry_parse_differs_qualifier :
    (∀ r ∈ exQualInner, ValidRS r) ∧ noInnerQualBare exQualInner = false
      ∧ (match Rel.readEntry (Text.join [' ', '|', ' '] (exQualInner.map Lossy.showRelation)) with
          | .ok t => t.children.length == 4 && t.text == (entryFromLossy exQualInner).text
              && decide (entryToLossy t = .ok exQualInner)
          | .error _ => false) = true
      ∧ (entryFromLossy exQualInner).children.length = 5
      ∧ Rel.readEntry (Text.join [' ', '|', ' '] (exQualInner.map Lossy.showRelation))
          ≠ .ok (entryFromLossy exQualInner) := by
  have h4 : (match Rel.readEntry (Text.join [' ', '|', ' '] (exQualInner.map Lossy.showRelation)) with
          | .ok t => t.children.length == 4 && t.text == (entryFromLossy exQualInner).text
              && decide (entryToLossy t = .ok exQualInner)
          | .error _ => false) = true := by decide +kernel
  refine ⟨by decide +kernel, by decide +kernel, h4, by decide +kernel, ?_⟩
  intro e
  rw [e] at h4
  revert h4
  decide +kernel

/-- `Relations::from(Vec<Entry>)` of the converted entries prints what the lossy value prints -/
theorem C14_relations_convert_text (rs : List (List Lossy.Relation)) (h : ValidRSs rs) :
    (relationsFromEntries (rs.map entryFromLossy)).text = Lossy.showRelations rs :=
  Edit.built_text rs h

end Deb822Verif.Props.C14More
