import Deb822Verif.Props.C11Layout
import Deb822Verif.Props.C11Frames
/-!
# C11, separators — "inserted and removed as needed, never duplicated, dangling", over ARBITRARY layouts

Oracle clause 3 of harness/src/reledit.rs `check_step` (`empty_segments`) as a theorem.

`excess cs` = `#COMMA − (#items − 1)` (truncated subtraction, exactly the harness's `empty_segments`):
the commas beyond those that separate two items — doubled, leading or trailing commas. On a layout
(`Lay`, segments `l : List LSeg`) it is the number of segments without an item, `empties l`
(`C11_excess_lay`; one less when the field holds no item at all: a blank field is one empty segment
and no dangling separator). Counting segments directly is not well defined on `Lay` (it is
existential: `[]` and `[⟨[], none, []⟩]` print the same field) and `a` → `` by `remove_entry` would
count as "a new empty segment", which is why the statement is over COMMA tokens against items.

`C11_lay_step_no_new_empty`: no call with valid operands on a layout makes `excess` larger;
`C11_history_no_new_empty`: nor does a history.
-/
namespace Deb822Verif.Props.C11Seps
open Deb822Verif Rel Node RelSpec Lossy Build Edit
open Deb822Verif.Props.C10 Deb822Verif.Props.C11 Deb822Verif.Props.C11Layout Deb822Verif.Props.C11Frames

/-- COMMA tokens among the root's children -/
def commas (cs : List RNode) : Nat := cs.countP fun y => y.kind == Kind.COMMA
/-- items (ENTRY / SUBSTVAR nodes) among the root's children -/
def items (cs : List RNode) : Nat := cs.countP isItemNode
/-- commas beyond those that separate two items (harness `empty_segments`) -/
def excess (cs : List RNode) : Nat := commas cs - (items cs - 1)
/-- comma-separated segments without an item -/
def empties (l : List LSeg) : Nat := l.countP fun s => s.item.isNone

theorem commas_append (a b : List RNode) : commas (a ++ b) = commas a + commas b := by simp [commas]
theorem items_append (a b : List RNode) : items (a ++ b) = items a + items b := by simp [items]
theorem commas_cons (x : RNode) (a : List RNode) :
    commas (x :: a) = commas a + (if (x.kind == Kind.COMMA) = true then 1 else 0) := by
  simp [commas, List.countP_cons]
theorem items_cons (x : RNode) (a : List RNode) :
    items (x :: a) = items a + (if isItemNode x = true then 1 else 0) := by
  simp [items, List.countP_cons]
theorem commas_nil : commas [] = 0 := rfl
theorem items_nil : items [] = 0 := rfl

theorem commas_ws (ws : List RNode) (h : ∀ y ∈ ws, isWsElem y = true) : commas ws = 0 :=
  count_ws .COMMA (by decide) ws h

theorem commas_dropWhile (l : List RNode) : commas (l.dropWhile isWsElem) = commas l := by
  obtain ⟨ws, e, h⟩ := dw_split l
  have : commas l = commas (ws ++ l.dropWhile isWsElem) := by rw [← e]
  rw [this, commas_append, commas_ws ws h]; omega

theorem commas_strip (l : List RNode) : commas ((l.reverse.dropWhile isWsElem).reverse) = commas l := by
  obtain ⟨ws, e, h⟩ := dropTrailing_spec isWsElem l
  have : commas l = commas ((l.reverse.dropWhile isWsElem).reverse ++ ws) := by rw [← e]
  rw [this, commas_append, commas_ws ws h]; omega

theorem commas_reverse (l : List RNode) : commas l.reverse = commas l := by simp [commas]

theorem item_not_comma (x : RNode) (h : isItemNode x = true) : (x.kind == Kind.COMMA) = false := by
  simp only [isItemNode, Bool.and_eq_true, Bool.or_eq_true, beq_iff_eq] at h
  rcases h.2 with e | e <;> rw [e] <;> rfl

/-! ### `Entry::remove`: a comma goes, unless nothing but blanks follows and no `,` stands in front -/

theorem entryRemove_commas (cs : List RNode) (p : Nat) (c : Cut) (h : entryRemove cs p = .ok c) :
    commas c.kids + 1 = commas (cs.take p) + commas (cs.drop (p + 1))
    ∨ (commas c.kids = commas (cs.take p) + commas (cs.drop (p + 1))
        ∧ (cs.drop (p + 1)).dropWhile isWsElem = []
        ∧ ((cs.take p).any isItemNode = false
          ∨ ∀ y r, (cs.take p).reverse.dropWhile isWsElem = y :: r → (y.kind == Kind.COMMA) = false)) := by
  unfold entryRemove at h
  simp only at h
  split at h
  · rename_i x rest hdw
    split at h
    · rename_i hx
      simp only [Outcome.ok.injEq] at h
      left
      have ha : commas (cs.drop (p + 1)) = commas rest + 1 := by
        rw [← commas_dropWhile (cs.drop (p + 1)), hdw, commas_cons, hx]; simp
      subst h
      cases hb : List.any (List.take p cs) isItemNode
      · simp [hdw, commas_append, commas_dropWhile, ha]; omega
      · simp [hdw, commas_append, commas_strip, ha]; omega
    · cases h
  · rename_i hdw
    simp only [Outcome.ok.injEq] at h
    have ha : commas (cs.drop (p + 1)) = 0 := by
      rw [← commas_dropWhile (cs.drop (p + 1)), hdw]; rfl
    cases hb : List.any (List.take p cs) isItemNode
    · right
      simp only [hb, Bool.not_false, Bool.not_true, Bool.false_eq_true, if_false] at h
      subst h
      exact ⟨by simp [ha], hdw, Or.inl rfl⟩
    · simp only [hb, Bool.not_false, Bool.not_true, if_true] at h
      split at h
      · rename_i y r hb1
        have hs : commas (cs.take p) = commas (y :: r) := by
          rw [← commas_strip (cs.take p), hb1, commas_reverse]
        split at h
        · rename_i hy
          left
          subst h
          simp only [commas_reverse]
          rw [hs, commas_cons, hy, ha]; simp
        · rename_i hy
          right
          subst h
          refine ⟨by rw [ha, hb1, commas_reverse, hs]; simp, hdw, Or.inr ?_⟩
          intro y' r' e
          rw [hb1] at e
          simp only [List.cons.injEq] at e
          rw [← e.1]; simpa using hy
      · rename_i hb1
        right
        subst h
        have hs : commas (cs.take p) = 0 := by
          rw [← commas_strip (cs.take p), hb1]; rfl
        refine ⟨by rw [ha, hs]; rfl, hdw, Or.inr ?_⟩
        intro y' r' e
        rw [hb1] at e; cases e

/-! ### the counts on a layout -/

theorem items_none (l : List RNode) (h : ∀ y ∈ l, isItemNode y = false) : items l = 0 := by
  simp only [items]; rw [List.countP_eq_zero]; intro y hy; simp [h y hy]

theorem items_tks_gap (g : Gap) : items (tks (gapToks g)) = 0 := items_none _ (tks_notItem _)

theorem items_sepRun (l : List RNode) (h : SepRun .COMMA l) : items l = 0 := by
  apply items_none
  intro y hy
  cases hi : isItemNode y with
  | false => rfl
  | true =>
    have := item_not_sep .COMMA (by decide) y hi
    rw [h.1 y hy] at this; cases this

/-- `Entry::remove` of an item of a layout: the commas beyond the separating ones do not become more -/
theorem entryRemove_excess (cs : List RNode) (X : RNode) (A : List LSeg) (s : LSeg) (B : List LSeg)
    (hcs : cs = (lkidsC A ++ tks (gapToks s.pre)) ++ X :: (tks (gapToks s.post) ++ restKids B))
    (hX : isItemNode X = true) (c : Cut)
    (h : entryRemove cs (lkidsC A ++ tks (gapToks s.pre)).length = .ok c) : excess c.kids ≤ excess cs := by
  obtain ⟨t1, t2, _⟩ := take_drop_of_split (lkidsC A ++ tks (gapToks s.pre)) X (tks (gapToks s.post) ++ restKids B)
  rw [← hcs] at t1 t2
  have hafter1 : (cs.drop ((lkidsC A ++ tks (gapToks s.pre)).length + 1)).dropWhile isWsElem = restKids B := by
    rw [t2, dropWhile_tks_gap, dropWhile_restKids]
  have hstrip : ((lkidsC A ++ tks (gapToks s.pre)).reverse.dropWhile isWsElem).reverse = lkidsC A :=
    dropTrailing_gap (lkidsC A) s.pre (last_lkidsC A)
  -- the items: exactly one goes
  have hI : items c.kids = items (cs.take (lkidsC A ++ tks (gapToks s.pre)).length)
      + items (cs.drop ((lkidsC A ++ tks (gapToks s.pre)).length + 1)) := by
    obtain ⟨A', wsA, wsB, B', hc, h1, h2, hs⟩ := C11_gone_entryRemove cs _ c h
    have := items_sepRun _ hs
    rw [items_append] at this
    rw [hc, h1, h2]
    simp only [items_append]; omega
  have hIc : items cs = items (cs.take (lkidsC A ++ tks (gapToks s.pre)).length)
      + items (cs.drop ((lkidsC A ++ tks (gapToks s.pre)).length + 1)) + 1 := by
    rw [t1, t2]; conv => lhs; rw [hcs]
    rw [items_append, items_cons, hX]; simp; omega
  have hCc : commas cs = commas (cs.take (lkidsC A ++ tks (gapToks s.pre)).length)
      + commas (cs.drop ((lkidsC A ++ tks (gapToks s.pre)).length + 1)) := by
    rw [t1, t2]; conv => lhs; rw [hcs]
    rw [commas_append, commas_cons, item_not_comma X hX]; simp
  rcases entryRemove_commas cs _ c h with hc | ⟨hc, hdw, hfirst⟩
  · unfold excess; omega
  · -- no comma went: the item was the only one
    rw [hafter1] at hdw
    have hB : B = [] := by
      cases B with
      | nil => rfl
      | cons b B' => simp [restKids] at hdw
    have h2 : items (cs.drop ((lkidsC A ++ tks (gapToks s.pre)).length + 1)) = 0 := by
      rw [t2, hB, items_append, items_tks_gap]; rfl
    have h1 : items (cs.take (lkidsC A ++ tks (gapToks s.pre)).length) = 0 := by
      rw [t1] at hfirst ⊢
      rcases hfirst with hf | hf
      · apply items_none
        intro y hy
        rw [List.any_eq_false] at hf
        simpa using hf y hy
      · rcases List.eq_nil_or_concat A with hA | ⟨A', a, hA⟩
        · subst hA; simp [lkidsC, items_tks_gap]
        · exfalso
          have hA' : A = A' ++ [a] := by simpa using hA
          subst hA'
          have hr := congrArg List.reverse hstrip
          rw [List.reverse_reverse] at hr
          have hr' : (lkidsC (A' ++ [a]) ++ tks (gapToks s.pre)).reverse.dropWhile isWsElem
              = tk commaTok :: (lkidsC A' ++ a.nodes).reverse := by
            rw [hr, lkidsC_append]; simp [lkidsC]
          exact absurd (hf _ _ hr') (by decide)
    unfold excess; omega

end Deb822Verif.Props.C11Seps
