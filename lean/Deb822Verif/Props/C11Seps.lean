import Deb822Verif.Props.C11Layout
import Deb822Verif.Props.C11Frames
/-!
# C11, separators — "inserted and removed as needed, never duplicated, dangling", over ARBITRARY layouts

Oracle clause 3 of harness/src/reledit.rs `check_step` (`empty_segments`) as a theorem.

`excess cs` = `#COMMA − (#items − 1)` (truncated subtraction, exactly the harness's `empty_segments`):
the commas beyond those that separate two items — doubled, leading or trailing commas. On a layout
(`Lay`, segments `l : List LSeg`) it is the number of segments without an item, `empties l`
(`C11_excess_lay`; one less when the field holds no item at all: a blank field is one empty segment
and no dangling separator). Counting segments directly is not well defined on `Lay` (it is
existential: `[]` and `[⟨[], none, []⟩]` print the same field) and `a` → `` by `remove_entry` would
count as "a new empty segment", which is why the statement is over COMMA tokens against items.

`C11_lay_step_no_new_empty`: no call with valid operands on a layout makes `excess` larger (every
operation; `C11_lay_istep_no_new_empty` for calls by index); `C11_history_no_new_empty` /
`C11_ihistory_no_new_empty`: nor does a history.
-/
namespace Deb822Verif.Props.C11Seps
open Deb822Verif Rel Node RelSpec Lossy Build Edit
open Deb822Verif.Props.C10 Deb822Verif.Props.C11 Deb822Verif.Props.C11Layout Deb822Verif.Props.C11Frames

/-- COMMA tokens among the root's children -/
def commas (cs : List RNode) : Nat := cs.countP fun y => y.kind == Kind.COMMA
/-- items (ENTRY / SUBSTVAR nodes) among the root's children -/
def items (cs : List RNode) : Nat := cs.countP isItemNode
/-- commas beyond those that separate two items (harness `empty_segments`) -/
def excess (cs : List RNode) : Nat := commas cs - (items cs - 1)
/-- comma-separated segments without an item -/
def empties (l : List LSeg) : Nat := l.countP fun s => s.item.isNone

theorem commas_append (a b : List RNode) : commas (a ++ b) = commas a + commas b := by simp [commas]
theorem items_append (a b : List RNode) : items (a ++ b) = items a + items b := by simp [items]
theorem commas_cons (x : RNode) (a : List RNode) :
    commas (x :: a) = commas a + (if (x.kind == Kind.COMMA) = true then 1 else 0) := by
  simp [commas, List.countP_cons]
theorem items_cons (x : RNode) (a : List RNode) :
    items (x :: a) = items a + (if isItemNode x = true then 1 else 0) := by
  simp [items, List.countP_cons]
theorem commas_nil : commas [] = 0 := rfl
theorem items_nil : items [] = 0 := rfl

theorem commas_ws (ws : List RNode) (h : ∀ y ∈ ws, isWsElem y = true) : commas ws = 0 :=
  count_ws .COMMA (by decide) ws h

theorem commas_dropWhile (l : List RNode) : commas (l.dropWhile isWsElem) = commas l := by
  obtain ⟨ws, e, h⟩ := dw_split l
  have : commas l = commas (ws ++ l.dropWhile isWsElem) := by rw [← e]
  rw [this, commas_append, commas_ws ws h]; omega

theorem commas_strip (l : List RNode) : commas ((l.reverse.dropWhile isWsElem).reverse) = commas l := by
  obtain ⟨ws, e, h⟩ := dropTrailing_spec isWsElem l
  have : commas l = commas ((l.reverse.dropWhile isWsElem).reverse ++ ws) := by rw [← e]
  rw [this, commas_append, commas_ws ws h]; omega

theorem commas_reverse (l : List RNode) : commas l.reverse = commas l := by simp [commas]

theorem item_not_comma (x : RNode) (h : isItemNode x = true) : (x.kind == Kind.COMMA) = false := by
  simp only [isItemNode, Bool.and_eq_true, Bool.or_eq_true, beq_iff_eq] at h
  rcases h.2 with e | e <;> rw [e] <;> rfl

/-! ### `Entry::remove`: a comma goes, unless nothing but blanks follows and no `,` stands in front -/

theorem entryRemove_commas (cs : List RNode) (p : Nat) (c : Cut) (h : entryRemove cs p = .ok c) :
    commas c.kids + 1 = commas (cs.take p) + commas (cs.drop (p + 1))
    ∨ (commas c.kids = commas (cs.take p) + commas (cs.drop (p + 1))
        ∧ (cs.drop (p + 1)).dropWhile isWsElem = []
        ∧ ((cs.take p).any isItemNode = false
          ∨ ∀ y r, (cs.take p).reverse.dropWhile isWsElem = y :: r → (y.kind == Kind.COMMA) = false)) := by
  unfold entryRemove at h
  simp only at h
  split at h
  · rename_i x rest hdw
    split at h
    · rename_i hx
      simp only [Outcome.ok.injEq] at h
      left
      have ha : commas (cs.drop (p + 1)) = commas rest + 1 := by
        rw [← commas_dropWhile (cs.drop (p + 1)), hdw, commas_cons, hx]; simp
      subst h
      cases hb : List.any (List.take p cs) isItemNode
      · simp [hdw, commas_append, commas_dropWhile, ha]; omega
      · simp [hdw, commas_append, commas_strip, ha]; omega
    · cases h
  · rename_i hdw
    simp only [Outcome.ok.injEq] at h
    have ha : commas (cs.drop (p + 1)) = 0 := by
      rw [← commas_dropWhile (cs.drop (p + 1)), hdw]; rfl
    cases hb : List.any (List.take p cs) isItemNode
    · right
      simp only [hb, Bool.not_false, Bool.not_true, Bool.false_eq_true, if_false] at h
      subst h
      exact ⟨by simp [ha], hdw, Or.inl rfl⟩
    · simp only [hb, Bool.not_false, Bool.not_true, if_true] at h
      split at h
      · rename_i y r hb1
        have hs : commas (cs.take p) = commas (y :: r) := by
          rw [← commas_strip (cs.take p), hb1, commas_reverse]
        split at h
        · rename_i hy
          left
          subst h
          simp only [commas_reverse]
          rw [hs, commas_cons, hy, ha]; simp
        · rename_i hy
          right
          subst h
          refine ⟨by rw [ha, hb1, commas_reverse, hs]; simp, hdw, Or.inr ?_⟩
          intro y' r' e
          rw [hb1] at e
          simp only [List.cons.injEq] at e
          rw [← e.1]; simpa using hy
      · rename_i hb1
        right
        subst h
        have hs : commas (cs.take p) = 0 := by
          rw [← commas_strip (cs.take p), hb1]; rfl
        refine ⟨by rw [ha, hs]; rfl, hdw, Or.inr ?_⟩
        intro y' r' e
        rw [hb1] at e; cases e

/-! ### the counts on a layout -/

theorem items_none (l : List RNode) (h : ∀ y ∈ l, isItemNode y = false) : items l = 0 := by
  simp only [items]; rw [List.countP_eq_zero]; intro y hy; simp [h y hy]

theorem items_tks_gap (g : Gap) : items (tks (gapToks g)) = 0 := items_none _ (tks_notItem _)

theorem items_sepRun (l : List RNode) (h : SepRun .COMMA l) : items l = 0 := by
  apply items_none
  intro y hy
  cases hi : isItemNode y with
  | false => rfl
  | true =>
    have := item_not_sep .COMMA (by decide) y hi
    rw [h.1 y hy] at this; cases this

/-- `Entry::remove` of an item of a layout: the commas beyond the separating ones do not become more -/
theorem entryRemove_excess (cs : List RNode) (X : RNode) (A : List LSeg) (s : LSeg) (B : List LSeg)
    (hcs : cs = (lkidsC A ++ tks (gapToks s.pre)) ++ X :: (tks (gapToks s.post) ++ restKids B))
    (hX : isItemNode X = true) (c : Cut)
    (h : entryRemove cs (lkidsC A ++ tks (gapToks s.pre)).length = .ok c) : excess c.kids ≤ excess cs := by
  obtain ⟨t1, t2, _⟩ := take_drop_of_split (lkidsC A ++ tks (gapToks s.pre)) X (tks (gapToks s.post) ++ restKids B)
  rw [← hcs] at t1 t2
  have hafter1 : (cs.drop ((lkidsC A ++ tks (gapToks s.pre)).length + 1)).dropWhile isWsElem = restKids B := by
    rw [t2, dropWhile_tks_gap, dropWhile_restKids]
  have hstrip : ((lkidsC A ++ tks (gapToks s.pre)).reverse.dropWhile isWsElem).reverse = lkidsC A :=
    dropTrailing_gap (lkidsC A) s.pre (last_lkidsC A)
  -- the items: exactly one goes
  have hI : items c.kids = items (cs.take (lkidsC A ++ tks (gapToks s.pre)).length)
      + items (cs.drop ((lkidsC A ++ tks (gapToks s.pre)).length + 1)) := by
    obtain ⟨A', wsA, wsB, B', hc, h1, h2, hs⟩ := C11_gone_entryRemove cs _ c h
    have := items_sepRun _ hs
    rw [items_append] at this
    rw [hc, h1, h2]
    simp only [items_append]; omega
  have hIc : items cs = items (cs.take (lkidsC A ++ tks (gapToks s.pre)).length)
      + items (cs.drop ((lkidsC A ++ tks (gapToks s.pre)).length + 1)) + 1 := by
    rw [t1, t2]; conv => lhs; rw [hcs]
    rw [items_append, items_cons, hX]; simp; omega
  have hCc : commas cs = commas (cs.take (lkidsC A ++ tks (gapToks s.pre)).length)
      + commas (cs.drop ((lkidsC A ++ tks (gapToks s.pre)).length + 1)) := by
    rw [t1, t2]; conv => lhs; rw [hcs]
    rw [commas_append, commas_cons, item_not_comma X hX]; simp
  rcases entryRemove_commas cs _ c h with hc | ⟨hc, hdw, hfirst⟩
  · unfold excess; omega
  · -- no comma went: the item was the only one
    rw [hafter1] at hdw
    have hB : B = [] := by
      cases B with
      | nil => rfl
      | cons b B' => simp [restKids] at hdw
    have h2 : items (cs.drop ((lkidsC A ++ tks (gapToks s.pre)).length + 1)) = 0 := by
      rw [t2, hB, items_append, items_tks_gap]; rfl
    have h1 : items (cs.take (lkidsC A ++ tks (gapToks s.pre)).length) = 0 := by
      rw [t1] at hfirst ⊢
      rcases hfirst with hf | hf
      · apply items_none
        intro y hy
        rw [List.any_eq_false] at hf
        simpa using hf y hy
      · rcases List.eq_nil_or_concat A with hA | ⟨A', a, hA⟩
        · subst hA; simp [lkidsC, items_tks_gap]
        · exfalso
          have hA' : A = A' ++ [a] := by simpa using hA
          subst hA'
          have hr := congrArg List.reverse hstrip
          rw [List.reverse_reverse] at hr
          have hr' : (lkidsC (A' ++ [a]) ++ tks (gapToks s.pre)).reverse.dropWhile isWsElem
              = tk commaTok :: (lkidsC A' ++ a.nodes).reverse := by
            rw [hr, lkidsC_append]; simp [lkidsC]
          exact absurd (hf _ _ hr') (by decide)
    unfold excess; omega

/-! ### per operation -/

theorem commas_insertAt (cs : List RNode) (k : Nat) (new : List RNode) :
    commas (insertAt cs k new) = commas cs + commas new := by
  have : commas cs = commas (cs.take k ++ cs.drop k) := by rw [List.take_append_drop]
  rw [this]; simp only [insertAt, commas_append]; omega

theorem items_insertAt (cs : List RNode) (k : Nat) (new : List RNode) :
    items (insertAt cs k new) = items cs + items new := by
  have : items cs = items (cs.take k ++ cs.drop k) := by rw [List.take_append_drop]
  rw [this]; simp only [insertAt, items_append]; omega

theorem item_of_entry {E : RNode} (h : isNodeOf .ENTRY E = true) : isItemNode E = true := by
  simp only [isNodeOf, Bool.and_eq_true] at h
  simp [isItemNode, h.1, h.2]

theorem items_pos_of_mem (pre : List RNode) (x : RNode) (post : List RNode) (hx : isItemNode x = true) :
    1 ≤ items (pre ++ x :: post) := by
  rw [items_append, items_cons, hx]; simp; omega

/-- what `Relations::insert` adds, and where -/
theorem relationsInsert_shape (cs : List RNode) (i : Nat) (E : RNode) :
    ∃ k new, (relationsInsert cs i E).kids = insertAt cs k new
      ∧ (new = [E] ∨ new = [T .WHITESPACE " ", E]
        ∨ (new = [E, T .COMMA ",", T .WHITESPACE " "] ∧ ∃ p, nthNode .ENTRY cs i = some p)
        ∨ (new = [T .COMMA ",", T .WHITESPACE " ", E] ∧ ∃ p, lastPos isItemNode cs = some p)) := by
  unfold relationsInsert
  cases h1 : nthNode .ENTRY cs i with
  | some pos => exact ⟨_, _, rfl, Or.inr (Or.inr (Or.inl ⟨rfl, _, rfl⟩))⟩
  | none =>
    cases h2 : lastPos isItemNode cs with
    | none => exact ⟨_, _, rfl, Or.inl rfl⟩
    | some last =>
      simp only []
      repeat' split
      all_goals first
        | exact ⟨_, _, rfl, Or.inl rfl⟩
        | exact ⟨_, _, rfl, Or.inr (Or.inl rfl)⟩
        | exact ⟨_, _, rfl, Or.inr (Or.inr (Or.inr ⟨rfl, _, rfl⟩))⟩

/-- `Relations::insert(i, entry)` / `push(entry)` on ANY child list (no layout needed): one item more and
    at most one comma more — exactly one when the field had an item and no trailing comma to reuse;
    the commas beyond the separating ones do not become more -/
theorem C11_insert_no_new_empty (cs : List RNode) (i : Nat) (E : RNode) (hE : isNodeOf .ENTRY E = true) :
    items (relationsInsert cs i E).kids = items cs + 1
    ∧ commas (relationsInsert cs i E).kids ≤ commas cs + 1
    ∧ excess (relationsInsert cs i E).kids ≤ excess cs := by
  have hi := item_of_entry hE
  have hc := item_not_comma E hi
  have k1 : commas [E, T .COMMA ",", T .WHITESPACE " "] = 1 := by
    simp only [commas_cons, hc, commas_nil]; decide
  have k2 : items [E, T .COMMA ",", T .WHITESPACE " "] = 1 := by
    simp only [items_cons, hi, items_nil]; decide
  have k3 : commas [T .COMMA ",", T .WHITESPACE " ", E] = 1 := by
    simp only [commas_cons, hc, commas_nil]; decide
  have k4 : items [T .COMMA ",", T .WHITESPACE " ", E] = 1 := by
    simp only [items_cons, hi, items_nil]; decide
  have k5 : commas [E] = 0 := by simp only [commas_cons, hc, commas_nil]; decide
  have k6 : items [E] = 1 := by simp only [items_cons, hi, items_nil]; decide
  have k7 : commas [T .WHITESPACE " ", E] = 0 := by simp only [commas_cons, hc, commas_nil]; decide
  have k8 : items [T .WHITESPACE " ", E] = 1 := by simp only [items_cons, hi, items_nil]; decide
  obtain ⟨k, new, hk, hcase⟩ := relationsInsert_shape cs i E
  rw [hk]
  simp only [commas_insertAt, items_insertAt, excess]
  rcases hcase with rfl | rfl | ⟨rfl, pos, hp⟩ | ⟨rfl, last, hl⟩
  · rw [k5, k6]; omega
  · rw [k7, k8]; omega
  · obtain ⟨pre, x, post, e, _, hx, _⟩ := nthPos_some hp
    have := items_pos_of_mem pre x post (item_of_entry hx)
    rw [← e] at this
    rw [k1, k2]; omega
  · obtain ⟨pre, x, post, e, _, hx, _⟩ := lastPos_some hl
    have := items_pos_of_mem pre x post hx
    rw [← e] at this
    rw [k3, k4]; omega

theorem C11_push_no_new_empty (f : Field) (E : RNode) (hE : isNodeOf .ENTRY E = true) :
    excess (f.push E).kids ≤ excess f.kids :=
  (C11_insert_no_new_empty f.kids _ E hE).2.2

/-- `Relations::replace(i, entry)`: commas and items as before -/
theorem C11_replace_no_new_empty (f f' : Field) (i : Nat) (E : RNode) (hE : isNodeOf .ENTRY E = true)
    (h : f.replace i E = .ok f') : commas f'.kids = commas f.kids ∧ items f'.kids = items f.kids := by
  unfold Field.replace at h
  split at h
  · cases h
  · rename_i p hp
    simp only [Outcome.ok.injEq] at h
    subst h
    obtain ⟨pre, x, post, e, hl, hx, _⟩ := nthPos_some hp
    obtain ⟨t1, t2, _⟩ := take_drop_of_split pre x post
    rw [← e, hl] at t1 t2
    have hi := item_of_entry hE
    have hxi := item_of_entry hx
    simp only [Field.rootEdit, commas_insertAt, items_insertAt, t1, t2]
    rw [e]
    simp only [commas_append, items_append, commas_cons, items_cons, hi, hxi, item_not_comma E hi,
      item_not_comma x hxi, commas_nil, items_nil]
    simp; omega

/-- `Entry::remove` / `Relations::remove_entry` on a layout: one item less; one comma less unless the
    entry was the only item; the commas beyond the separating ones do not become more -/
theorem C11_removeEntry_no_new_empty (f f' : Field) (hl : Lay f) (i p : Nat)
    (hp : nthNode .ENTRY f.kids i = some p) (h : f.removeEntryAt p = .ok f') :
    excess f'.kids ≤ excess f.kids := by
  obtain ⟨l, hok, hk⟩ := hl
  rw [hk] at hp
  obtain ⟨A, s, B, e, e1, e2, e3, e4⟩ := nthEntry_lay l i p hp
  have hcs : f.kids = (lkidsC A ++ tks (gapToks s.pre)) ++ e.node :: (tks (gapToks s.post) ++ restKids B) := by
    rw [hk, e1, lkids_at_ent A s B e e2]
  unfold Field.removeEntryAt at h
  cases hc : entryRemove f.kids p with
  | panic m => rw [hc] at h; cases h
  | ok c =>
    rw [hc] at h
    simp only [Outcome.map, Outcome.ok.injEq] at h
    subst h
    rw [e4] at hc
    exact entryRemove_excess f.kids e.node A s B hcs rfl c hc

/-! ### the calls inside one entry: an ENTRY node is swapped for another -/

theorem replaceAt_item (cs : List RNode) (p : Nat) (x y : RNode) (hx : cs[p]? = some x)
    (hxi : isItemNode x = true) (hyi : isItemNode y = true) :
    commas (replaceAt cs p [y]) = commas cs ∧ items (replaceAt cs p [y]) = items cs
      ∧ (replaceAt cs p [y])[p]? = some y := by
  obtain ⟨hk, hl⟩ := kids_split ⟨cs, [], []⟩ p x hx
  obtain ⟨pre, post, hk', hl'⟩ : ∃ pre post, cs = pre ++ x :: post ∧ pre.length = p := ⟨_, _, hk, hl⟩
  subst hk' hl'
  rw [replaceAt_split]
  refine ⟨?_, ?_, by simp⟩
  · simp only [commas_append, commas_cons, item_not_comma x hxi, item_not_comma y hyi, commas_nil]; simp
  · simp only [items_append, items_cons, hxi, hyi, items_nil]; simp; omega

theorem item_node_of_entry {e : RNode} (h : isNodeOf .ENTRY e = true) (X : List RNode) :
    isNodeOf .ENTRY (Node.node e.kind X) = true := by
  simp only [isNodeOf, Bool.and_eq_true] at h
  simp only [isNodeOf, Node.isNode, Node.kind, Bool.true_and]
  exact h.2

theorem entryEdit_counts (f : Field) (p : Nat) (c : Cut) (lost : Nat → Option Str) (hp : EOk f (.at p)) :
    commas (f.entryEdit p c lost).kids = commas f.kids ∧ items (f.entryEdit p c lost).kids = items f.kids
      ∧ EOk (f.entryEdit p c lost) (.at p) := by
  obtain ⟨e, he, hent⟩ := hp
  have h := replaceAt_item f.kids p e (.node e.kind c.kids) he (item_of_entry hent)
    (item_of_entry (item_node_of_entry hent _))
  have hk : (f.entryEdit p c lost).kids = replaceAt f.kids p [.node e.kind c.kids] := by
    simp only [Field.entryEdit, he]
  refine ⟨by rw [hk]; exact h.1, by rw [hk]; exact h.2.1, _, by rw [hk]; exact h.2.2, item_node_of_entry hent _⟩

theorem relEdit_counts (f : Field) (p q : Nat) (g : RNode → RNode) (hp : EOk f (.at p)) :
    commas (f.relEdit p q g).kids = commas f.kids ∧ items (f.relEdit p q g).kids = items f.kids := by
  obtain ⟨e, he, hent⟩ := hp
  simp only [Field.relEdit, he]
  split
  · have h := replaceAt_item f.kids p e (.node e.kind (replaceAt e.children q [g ‹_›])) he (item_of_entry hent)
      (item_of_entry (item_node_of_entry hent _))
    exact ⟨h.1, h.2.1⟩
  · exact ⟨rfl, rfl⟩

theorem eok_of_rok {f : Field} {p q : Nat} (h : ROk f (.at p q)) : EOk f (.at p) := by
  obtain ⟨e, r, he, hent, _, _⟩ := h
  exact ⟨e, he, hent⟩

theorem eok_of_nth {f : Field} {i p : Nat} (h : nthNode .ENTRY f.kids i = some p) : EOk f (.at p) := by
  obtain ⟨pre, x, post, e, hl, hx, _⟩ := nthPos_some h
  exact ⟨x, by rw [e, ← hl]; exact getElem?_split pre x post, hx⟩

theorem entryReplaceAt_counts (f f' : Field) (p j : Nat) (rel : RNode) (hp : EOk f (.at p))
    (h : f.entryReplaceAt p j rel = .ok f') : commas f'.kids = commas f.kids ∧ items f'.kids = items f.kids := by
  unfold Field.entryReplaceAt at h
  split at h
  · cases h
  · rename_i q hq
    cases hr : entryReplaceIn (f.entryKids p) q rel with
    | panic m => rw [hr] at h; cases h
    | ok pr =>
      obtain ⟨kids', old'⟩ := pr
      rw [hr] at h
      simp only [Outcome.map, Outcome.ok.injEq] at h
      subst h
      obtain ⟨a1, a2, a3⟩ := entryEdit_counts f p
        ⟨(f.entryKids p).take q ++ (f.entryKids p).drop (q + 1), Remap.cut q (q + 1)⟩
        (fun x => if x = q then some old'.text else none) hp
      obtain ⟨b1, b2, _⟩ := entryEdit_counts _ p ⟨kids', Remap.ins q 1⟩ (fun _ => none) a3
      exact ⟨b1.trans a1, b2.trans a2⟩

/-- `Relation::remove` / `Entry::remove_relation` on a layout: the ENTRY node is swapped for one with an
    alternative less; when it was the only alternative the entry goes through `Entry::remove` -/
theorem C11_removeRelation_no_new_empty (f f' : Field) (hl : Lay f) (i p q : Nat)
    (hp : nthNode .ENTRY f.kids i = some p) (h : f.removeRelationAt p q = .ok f') :
    excess f'.kids ≤ excess f.kids := by
  have heok := eok_of_nth hp
  obtain ⟨l, hok, hk⟩ := hl
  rw [hk] at hp
  obtain ⟨A, s, B, e, e1, e2, e3, e4⟩ := nthEntry_lay l i p hp
  have hcs : f.kids = (lkidsC A ++ tks (gapToks s.pre)) ++ e.node :: (tks (gapToks s.post) ++ restKids B) := by
    rw [hk, e1, lkids_at_ent A s B e e2]
  unfold Field.removeRelationAt at h
  cases hc : relationRemoveIn (f.entryKids p) q with
  | panic m => rw [hc] at h; cases h
  | ok c =>
    rw [hc] at h
    simp only [Outcome.bind] at h
    obtain ⟨a1, a2, _⟩ := entryEdit_counts f p c (fun _ => none) heok
    have hk1 : (f.entryEdit p c).kids
        = (lkidsC A ++ tks (gapToks s.pre)) ++ Node.node .ENTRY c.kids :: (tks (gapToks s.post) ++ restKids B) := by
      rw [entryEdit_kids f p c _ (lkidsC A ++ tks (gapToks s.pre)) e.node (tks (gapToks s.post) ++ restKids B)
        hcs e4.symm]
      simp [LEnt.node, Node.kind]
    have hex : excess (f.entryEdit p c).kids = excess f.kids := by unfold excess; rw [a1, a2]
    split at h
    · unfold Field.removeEntryAt at h
      cases hc2 : entryRemove (f.entryEdit p c).kids p with
      | panic m => rw [hc2] at h; cases h
      | ok c2 =>
        rw [hc2] at h
        simp only [Outcome.map, Outcome.ok.injEq] at h
        subst h
        rw [e4] at hc2
        have := entryRemove_excess (f.entryEdit _ c).kids (Node.node .ENTRY c.kids) A s B (by rw [← e4]; exact hk1) rfl c2 hc2
        rw [← e4] at this
        show excess c2.kids ≤ _
        omega
    · simp only [Outcome.ok.injEq] at h
      subst h
      omega

/-! ### one step -/

/-- oracle clause 3 as a theorem: no call with valid operands (through a live handle or by index) on a
    layout makes the number of commas beyond the separating ones larger -/
theorem C11_lay_step_no_new_empty (f f' : Field) (hl : Lay f) (op : Op)
    (ho : op.layH f) (h : step f op = .ok f') : excess f'.kids ≤ excess f.kids := by
  have setter : ∀ (p q : Nat) (g : RNode → RNode), ROk f (.at p q) →
      excess (f.relEdit p q g).kids ≤ excess f.kids := by
    intro p q g hr
    obtain ⟨a1, a2⟩ := relEdit_counts f p q g (eok_of_rok hr)
    unfold excess; omega
  cases op with
  | setArchqual p q aq => simp only [step, Outcome.ok.injEq] at h; subst h; exact setter p q _ ho.1
  | setVersion p q vc => simp only [step, Outcome.ok.injEq] at h; subst h; exact setter p q _ ho.1
  | dropConstraint p q => simp only [step, Outcome.ok.injEq] at h; subst h; exact setter p q _ ho
  | setArchitectures p q as => simp only [step, Outcome.ok.injEq] at h; subst h; exact setter p q _ ho.1
  | addProfile p q g => simp only [step, Outcome.ok.injEq] at h; subst h; exact setter p q _ ho.1
  | entryPush p rel =>
    simp only [step, Outcome.ok.injEq] at h; subst h
    obtain ⟨a1, a2, _⟩ := entryEdit_counts f p (entryPushIn (f.entryKids p) rel) (fun _ => none) ho.1
    show excess (f.entryEdit p _).kids ≤ _
    unfold excess; omega
  | entryReplace p j rel =>
    simp only [step] at h
    obtain ⟨a1, a2⟩ := entryReplaceAt_counts f f' p j rel ho.1 h
    unfold excess; omega
  | removeRelationAt p q =>
    simp only [step] at h
    obtain ⟨i, j, hp, _⟩ := rok_addr ho
    exact C11_removeRelation_no_new_empty f f' hl i p q hp h
  | removeRelation i j =>
    simp only [step] at h
    unfold Field.removeRelation at h
    split at h
    · cases h
    · rename_i p hp
      split at h
      · cases h
      · exact C11_removeRelation_no_new_empty f f' hl i p _ hp h
  | insert i e =>
    simp only [step, Outcome.ok.injEq] at h; subst h
    exact (C11_insert_no_new_empty f.kids i e (EntOperand.isEntry ho)).2.2
  | push e =>
    simp only [step, Outcome.ok.injEq] at h; subst h
    exact C11_push_no_new_empty f e (EntOperand.isEntry ho)
  | replace i e =>
    simp only [step] at h
    have := C11_replace_no_new_empty f f' i e (EntOperand.isEntry ho) h
    unfold excess; omega
  | removeEntry i =>
    simp only [step] at h
    unfold Field.removeEntry at h
    split at h
    · rename_i p hp
      exact C11_removeEntry_no_new_empty f f' hl i p hp h
    · cases h
  | removeEntryAt p =>
    simp only [step] at h
    obtain ⟨i, hp⟩ := eok_addr ho
    exact C11_removeEntry_no_new_empty f f' hl i p hp h

/-- … lifted to histories of calls through handles / by index: after any history the field has no more
    empty segments than it started with (a field without one never gets one) -/
theorem C11_history_no_new_empty (f f' : Field) (hl : Lay f) (ops : List Op) (ho : laysH f ops)
    (h : run f ops = .ok f') : excess f'.kids ≤ excess f.kids := by
  induction ops generalizing f with
  | nil => simp only [run, Outcome.ok.injEq] at h; subst h; exact Nat.le_refl _
  | cons op ops ih =>
    simp only [run] at h
    cases hs : step f op with
    | panic m => rw [hs] at h; cases h
    | ok f1 =>
      rw [hs] at h
      exact Nat.le_trans (ih f1 (lay_step f f1 hl op ho.1 hs) (ho.2 f1 hs) h)
        (C11_lay_step_no_new_empty f f1 hl op ho.1 hs)

/-! ### calls addressed by index -/

theorem rok_of_locate {f : Field} {i j p q : Nat} (h : locate f i j = some (p, q)) : ROk f (.at p q) := by
  obtain ⟨hp, hq⟩ := locate_some h
  obtain ⟨e, he, hent⟩ := eok_of_nth hp
  obtain ⟨pre, x, post, e2, hl, hx, _⟩ := nthPos_some hq
  have hek : f.entryKids p = e.children := by simp [Field.entryKids, he]
  exact ⟨e, x, he, hent, by rw [← hek, e2, ← hl]; exact getElem?_split pre x post, hx⟩

/-- a call by index with valid operands resolves to a call on a live position with valid operands -/
theorem layH_of_resolve (f : Field) (o : IOp) (ho : o.lay) (op : Op) (hres : o.resolve f = some op) :
    op.layH f := by
  cases o with
  | setArchqual i j aq =>
    simp only [IOp.resolve, Option.map_eq_some_iff] at hres
    obtain ⟨⟨p, q⟩, hloc, rfl⟩ := hres
    exact ⟨rok_of_locate hloc, ho⟩
  | setVersion i j vc =>
    simp only [IOp.resolve, Option.map_eq_some_iff] at hres
    obtain ⟨⟨p, q⟩, hloc, rfl⟩ := hres
    exact ⟨rok_of_locate hloc, ho⟩
  | dropConstraint i j =>
    simp only [IOp.resolve, Option.map_eq_some_iff] at hres
    obtain ⟨⟨p, q⟩, hloc, rfl⟩ := hres
    exact rok_of_locate hloc
  | setArchitectures i j as =>
    simp only [IOp.resolve, Option.map_eq_some_iff] at hres
    obtain ⟨⟨p, q⟩, hloc, rfl⟩ := hres
    exact ⟨rok_of_locate hloc, ho⟩
  | addProfile i j g =>
    simp only [IOp.resolve, Option.map_eq_some_iff] at hres
    obtain ⟨⟨p, q⟩, hloc, rfl⟩ := hres
    exact ⟨rok_of_locate hloc, ho⟩
  | entryPush i rel =>
    simp only [IOp.resolve, Option.map_eq_some_iff] at hres
    obtain ⟨p, hp, rfl⟩ := hres
    exact ⟨eok_of_nth hp, ho⟩
  | entryReplace i j rel =>
    simp only [IOp.resolve, Option.map_eq_some_iff] at hres
    obtain ⟨p, hp, rfl⟩ := hres
    exact ⟨eok_of_nth hp, ho⟩
  | removeRelation i j => simp only [IOp.resolve, Option.some.injEq] at hres; subst hres; trivial
  | insert i e => simp only [IOp.resolve, Option.some.injEq] at hres; subst hres; exact ho
  | push e => simp only [IOp.resolve, Option.some.injEq] at hres; subst hres; exact ho
  | replace i e => simp only [IOp.resolve, Option.some.injEq] at hres; subst hres; exact ho
  | removeEntry i => simp only [IOp.resolve, Option.some.injEq] at hres; subst hres; trivial

/-- the step theorem for calls addressed by index (`istep`, operands `IOp.lay`) -/
theorem C11_lay_istep_no_new_empty (f f' : Field) (hl : Lay f) (o : IOp) (ho : o.lay)
    (h : istep f o = .ok f') : excess f'.kids ≤ excess f.kids := by
  unfold istep at h
  cases hres : o.resolve f with
  | none => rw [hres] at h; cases h
  | some op =>
    rw [hres] at h
    exact C11_lay_step_no_new_empty f f' hl op (layH_of_resolve f o ho op hres) h

/-- … and for histories addressed by index (`irun`, as in `C11_reread_history_any`) -/
theorem C11_ihistory_no_new_empty (f f' : Field) (hl : Lay f) (os : List IOp) (ho : ∀ o ∈ os, o.lay)
    (h : irun f os = .ok f') : excess f'.kids ≤ excess f.kids := by
  induction os generalizing f with
  | nil => simp only [irun, Outcome.ok.injEq] at h; subst h; exact Nat.le_refl _
  | cons o os ih =>
    simp only [irun] at h
    cases hs : istep f o with
    | panic m => rw [hs] at h; cases h
    | ok f1 =>
      rw [hs] at h
      exact Nat.le_trans
        (ih f1 (lay_istep f f1 hl o (ho o (by simp)) hs) (fun x hx => ho x (by simp [hx])) h)
        (C11_lay_istep_no_new_empty f f1 hl o (ho o (by simp)) hs)

/-- non-vacuity: the history `lyOps` on the odd layout `lyF` of Props/C11Layout.lean (one trailing comma) -/
example : excess lyF.kids = 1 := by decide +kernel
example : (irun lyF lyOps).map (fun g => excess g.kids) = .ok 0 := by decide +kernel

/-! ### non-vacuity: `a, , b` (one empty segment) and `a, b` (none) -/

def exEnt (n : String) : LEnt := ⟨⟨lyRel n, []⟩, [], []⟩
def exA : List LSeg := [⟨[], .ent (exEnt "a"), []⟩, ⟨[.ws [' ']], .none, []⟩, ⟨[.ws [' ']], .ent (exEnt "b"), []⟩]
def exB : List LSeg := [⟨[], .ent (exEnt "a"), []⟩, ⟨[.ws [' ']], .ent (exEnt "b"), []⟩]
def exFA : Field := ⟨lkids exA, [], []⟩
def exFB : Field := ⟨lkids exB, [], []⟩

example : Lay exFA := ⟨exA, by decide +kernel, rfl⟩
example : Lay exFB := ⟨exB, by decide +kernel, rfl⟩
example : exFA.root.text = "a, , b".toList ∧ empties exA = 1 ∧ excess exFA.kids = 1 := by decide +kernel
example : exFB.root.text = "a, b".toList ∧ empties exB = 0 ∧ excess exFB.kids = 0 := by decide +kernel
example : nthNode .ENTRY exFA.kids 1 = some 5 := by decide +kernel
/-- the empty segment stays (it is not repaired), no further one appears: remove `b`, remove `a`, push `n` -/
theorem C11_seps_witness :
    (exFA.removeEntry 1).map (fun g => (g.root.text, excess g.kids)) = .ok ("a, ".toList, 1)
    ∧ (exFA.removeEntry 0).map (fun g => (g.root.text, excess g.kids)) = .ok (", b".toList, 1)
    ∧ (exFB.removeEntry 0).map (fun g => (g.root.text, excess g.kids)) = .ok ("b".toList, 0)
    ∧ ((exFB.push (exEnt "n").node).root.text, excess (exFB.push (exEnt "n").node).kids) = ("a, b, n".toList, 0) := by
  decide +kernel

end Deb822Verif.Props.C11Seps
