import Deb822Verif.Lemmas.RelEditTree
import Deb822Verif.Lemmas.RelEditFrame
import Deb822Verif.Lemmas.RelEditBuilt
import Deb822Verif.Lemmas.RelEditHist
import Deb822Verif.Lemmas.RelEditHandles
import Deb822Verif.Lemmas.RelEditOracle
import Deb822Verif.Lemmas.RelEditSpecs
import Deb822Verif.Lemmas.RelEditInj
import Deb822Verif.Lemmas.RelEditStruct
import Deb822Verif.Props.C10
/-!
# C11 — editing relationship fields keeps them well-formed and matches a list model

Model: Model/RelEdit.lean (every mutator of `lossless::{Relations, Entry, Relation}` as a pure
function on the field's tree, handles as paths) with the node functions of Model/RelBuild.lean.
Specification: Spec/RelList.lean — a field is a list of items (`FieldS`), an item is an entry (the
list of its alternatives, each the record `RelRec` of what the five read accessors return) or a
substitution variable; the operations are the list operations `S.*`. Abstraction: `abs`, built from
the accessors of Model/RelAccess.lean (`entries`, `relations`, `name`, `archqual`, `version`,
`architectures`, `profiles`, `substvars`), keeping the order of entries and substitution variables.

Addressing: the API addresses the `i`-th ENTRY (`get_entry(i)`, substitution variables are not
counted) and its `j`-th RELATION (`get_relation(j)`); in the model that is `nthNode`, and a live
handle is the position it returns. The refinement theorems take the positions `p`, `q` with the
hypothesis that they are the positions of entry `i` / alternative `j` (`Addr`).

The refinement theorems hold on EVERY tree (not only on trees of well-formed fields), so they apply
after any history of operations. Three of them need that the relation has at most one VERSION /
ARCHITECTURES node (`Shaped`), which every tree of the grammar has (`C11_shaped_tree`).

Finding F-C11-8 (fixed in bfca743): `Entry::replace(j, rel)` with an operand whose RELATION node
starts or ends with whitespace (as `"n ".parse::<Relation>()` produces) deleted the operand's name or
qualifier. `C11_refine_entryReplace` is now the full statement; `C11_fixed_entryReplace` is the
regression instance.
-/
namespace Deb822Verif.Props.C11
open Deb822Verif Rel Node RelSpec Lossy Build Edit
open Deb822Verif.Props.C10

/-- `p` is the position of the `i`-th entry of the field, `q` that of its `j`-th alternative -/
def Addr (f : Field) (i j p q : Nat) : Prop :=
  nthNode .ENTRY f.kids i = some p ∧ nthNode .RELATION (f.entryKids p) j = some q

/-! ### the abstraction -/

/-- on the tree of a well-formed field the abstraction is the list of the items as written: every
    entry with the `view` (C10) of its alternatives, every substitution variable with its text -/
theorem C11_abs_tree (a : FieldA) (h : a.WF) : abs a.tree = itemsA a := abs_tree a h

/-- every tree of the grammar has at most one VERSION and one ARCHITECTURES node per relation -/
theorem C11_shaped_tree (a : FieldA) : Shaped a.tree.children := tree_shaped a

/-- `get_entry(i)` finds the `i`-th entry of the list model, and `None` exactly when there is none -/
theorem C11_getEntry (f : Field) (i : Nat) :
    (∀ p, nthNode .ENTRY f.kids i = some p →
        ∃ e, f.kids[p]? = some e ∧ S.entry? (abs f.root) i = some (relsOf e))
    ∧ (nthNode .ENTRY f.kids i = none → S.nEntries (abs f.root) ≤ i) := by
  constructor
  · intro p hp
    obtain ⟨pre, e, post, hk, hl, he, hcnt, hne, habs⟩ := abs_split hp
    subst hl
    refine ⟨e, by rw [hk]; simp, ?_⟩
    show S.entry? (absKids f.kids) i = _
    rw [habs, ← hne, S.entry?_at]
  · intro hn
    show S.nEntries (absKids f.kids) ≤ i
    rw [nEntries_abs]; exact nthPos_none hn

/-! ### the relation setters: only the addressed relation record changes -/

theorem isNodeOf_onChildren {k : Kind} {r : RNode} (h : isNodeOf k r = true) (g : List RNode → List RNode) :
    isNodeOf k (onChildren r g) = true := by
  simp only [isNodeOf, Bool.and_eq_true] at h
  simp [isNodeOf, onChildren, h.2]

/-- `Relation::set_archqual(aq)` -/
theorem C11_refine_setArchqual (f : Field) (i j p q : Nat) (h : Addr f i j p q) (aq : Str) :
    abs (f.relEdit p q (setArchqual · aq)).root
      = S.modRel (abs f.root) i j (fun r => { r with archqual := some aq }) := by
  apply abs_relEdit f i j p q _ _ h.1 h.2
  intro r _ hr
  refine ⟨?_, recOf_setArchqual r aq⟩
  unfold setArchqual; split <;> exact isNodeOf_onChildren hr _

/-- `Relation::set_version(Some((c, v)))`, for a version that is the parse of its own text -/
theorem C11_refine_setVersion (f : Field) (i j p q : Nat) (h : Addr f i j p q) (c : VC) (v : Version)
    (hv : validVersion v = true) :
    abs (f.relEdit p q (setVersion · (some (c, v)))).root
      = S.modRel (abs f.root) i j (fun r => { r with version := .ok (some (c, v)) }) := by
  apply abs_relEdit f i j p q _ _ h.1 h.2
  intro r _ hr
  refine ⟨?_, recOf_setVersion_some r c v (validVersion_parse v hv) (validVersion_display_ne v hv)⟩
  simp only [setVersion]; split <;> exact isNodeOf_onChildren hr _

/-- `Relation::set_version(None)` -/
theorem C11_refine_setVersion_none (f : Field) (hs : Shaped f.kids) (i j p q : Nat) (h : Addr f i j p q) :
    abs (f.relEdit p q (setVersion · none)).root
      = S.modRel (abs f.root) i j (fun r => { r with version := .ok none }) := by
  apply abs_relEdit f i j p q _ _ h.1 h.2
  intro r hat hr
  refine ⟨?_, recOf_setVersion_none r (shaped_at hs hat hr).1⟩
  simp only [setVersion]; split
  · exact isNodeOf_onChildren hr _
  · exact hr

/-- `Relation::drop_constraint()` -/
theorem C11_refine_dropConstraint (f : Field) (hs : Shaped f.kids) (i j p q : Nat) (h : Addr f i j p q) :
    abs (f.relEdit p q (fun r => (dropConstraint r).1)).root
      = S.modRel (abs f.root) i j (fun r => { r with version := .ok none }) := by
  apply abs_relEdit f i j p q _ _ h.1 h.2
  intro r hat hr
  refine ⟨?_, recOf_dropConstraint r (shaped_at hs hat hr).1⟩
  simp only [dropConstraint]; split
  · exact isNodeOf_onChildren hr (fun cs => removeWithWsBefore cs _)
  · exact hr

/-- `Relation::set_architectures(as)` with a non-empty list (`!name` entries included) -/
theorem C11_refine_setArchitectures (f : Field) (i j p q : Nat) (h : Addr f i j p q) (as : List Str)
    (hne : as ≠ []) :
    abs (f.relEdit p q (setArchitectures · as)).root
      = S.modRel (abs f.root) i j (fun r => { r with architectures := some as }) := by
  apply abs_relEdit f i j p q _ _ h.1 h.2
  intro r _ hr
  refine ⟨?_, recOf_setArchitectures r as hne⟩
  have hemp : as.isEmpty = false := by cases as <;> simp at hne ⊢
  simp only [setArchitectures, hemp, Bool.false_eq_true, ↓reduceIte]
  split
  · exact isNodeOf_onChildren hr _
  · split <;> exact isNodeOf_onChildren hr _

/-- `Relation::set_architectures([])`: the list is removed -/
theorem C11_refine_setArchitectures_nil (f : Field) (hs : Shaped f.kids) (i j p q : Nat) (h : Addr f i j p q) :
    abs (f.relEdit p q (setArchitectures · [])).root
      = S.modRel (abs f.root) i j (fun r => { r with architectures := none }) := by
  apply abs_relEdit f i j p q _ _ h.1 h.2
  intro r hat hr
  refine ⟨?_, recOf_setArchitectures_nil r (shaped_at hs hat hr).2⟩
  simp only [setArchitectures, List.isEmpty_nil, ↓reduceIte]; split
  · exact isNodeOf_onChildren hr _
  · exact hr

/-- `Relation::add_profile(g)`: one more restriction list, after the existing ones -/
theorem C11_refine_addProfile (f : Field) (i j p q : Nat) (h : Addr f i j p q) (g : List BuildProfile)
    (hg : ∀ x ∈ g, isIdent (profName x) = true) :
    abs (f.relEdit p q (addProfile · g)).root
      = S.modRel (abs f.root) i j (fun r => { r with profiles := r.profiles ++ [g] }) := by
  apply abs_relEdit f i j p q _ _ h.1 h.2
  intro r _ hr
  refine ⟨?_, recOf_addProfile r g hg⟩
  simp only [addProfile]
  exact isNodeOf_onChildren hr (fun cs => insertAt cs _ _)

/-! ### entries and alternatives: push, insert, replace, remove -/

/-- `Entry::push(rel)` on the `i`-th entry -/
theorem C11_refine_entryPush (f : Field) (i p : Nat) (hp : nthNode .ENTRY f.kids i = some p) (rel : RNode)
    (hr : isNodeOf .RELATION rel = true) :
    abs (f.entryPushAt p rel).root = S.entryPush (abs f.root) i (recOf rel) :=
  abs_entryPushAt f i p rel hp hr

/-- `Relations::push(entry)` -/
theorem C11_refine_push (f : Field) (entry : RNode) (he : isNodeOf .ENTRY entry = true) :
    abs (f.push entry).root = S.push (abs f.root) (relsOf entry) := abs_push f entry he

/-- `Relations::insert(i, entry)`: before the `i`-th entry, or at the end -/
theorem C11_refine_insert (f : Field) (i : Nat) (entry : RNode) (he : isNodeOf .ENTRY entry = true) :
    abs (f.insert i entry).root = S.insert (abs f.root) i (relsOf entry) := abs_insert f i entry he

/-- `Relations::replace(i, entry)`; out of range it panics (`unwrap`) -/
theorem C11_refine_replace (f : Field) (i : Nat) (entry : RNode) (he : isNodeOf .ENTRY entry = true) :
    (∀ f', f.replace i entry = .ok f' → abs f'.root = S.replace (abs f.root) i (relsOf entry))
    ∧ (S.nEntries (abs f.root) ≤ i → f.replace i entry = .panic "Relations::replace: unwrap")
    ∧ (i < S.nEntries (abs f.root) → (f.replace i entry).isOk = true) := by
  refine ⟨fun f' h => abs_replace f f' i entry he h, ?_, ?_⟩
  · intro h
    exact replace_panics f i entry (by rw [← nEntries_abs]; exact h)
  · intro h
    unfold Field.replace
    cases hn : nthNode .ENTRY f.kids i with
    | some p => rfl
    | none =>
      have := nthPos_none hn
      rw [← nEntries_abs] at this
      exact absurd h (Nat.not_lt.2 this)

/-- `Entry::remove()` / `Relations::remove_entry(i)`: the entry leaves the list, the others stay
    (whenever the call returns) -/
theorem C11_refine_removeEntry (f f' : Field) (i : Nat) (h : f.removeEntry i = .ok f') :
    abs f'.root = S.removeEntry (abs f.root) i := abs_removeEntry f f' i h

/-- `Relation::remove()` / `Entry::remove_relation(j)`: the alternative leaves its entry; an entry
    left without alternative leaves the field -/
theorem C11_refine_removeRelation (f f' : Field) (i j : Nat) (h : f.removeRelation i j = .ok f') :
    abs f'.root = S.removeRel (abs f.root) i j := abs_removeRelation f f' i j h

/-- the same through live handles (positions) -/
theorem C11_refine_removeRelationAt (f f' : Field) (i j p q : Nat) (ha : Addr f i j p q)
    (h : f.removeRelationAt p q = .ok f') :
    abs f'.root = S.removeRel (abs f.root) i j := abs_removeRelationAt f f' i j p q ha.1 ha.2 h

/-- `Entry::replace(j, rel)` on the `i`-th entry: that alternative becomes `rel` (whatever
    whitespace `rel` carries at its edges is dropped, the old relation's is kept) -/
theorem C11_refine_entryReplace (f f' : Field) (i j p : Nat)
    (hp : nthNode .ENTRY f.kids i = some p) (rel : RNode) (hr : isNodeOf .RELATION rel = true)
    (h : f.entryReplaceAt p j rel = .ok f') :
    abs f'.root = S.entryReplace (abs f.root) i j (recOf rel) :=
  abs_entryReplaceAt f f' i j p rel hp hr h

/-! ### frame: what an operation leaves byte for byte as it was -/

/-- a relation setter changes the text of that relation only -/
theorem C11_frame_relEdit (f : Field) (p q : Nat) (g : RNode → RNode) (e r : RNode)
    (he : f.kids[p]? = some e) (hr : e.children[q]? = some r) :
    ∃ A B, f.root.text = A ++ r.text ++ B ∧ (f.relEdit p q g).root.text = A ++ (g r).text ++ B :=
  frame_relEdit f p q g e r he hr

/-- `Entry::push` inserts the relation, after ` | ` unless the entry has none yet, and nothing else
    changes -/
theorem C11_frame_entryPush (f : Field) (p : Nat) (rel : RNode) (e : RNode) (he : f.kids[p]? = some e)
    (hn : e.isNode = true) :
    ∃ A B sep, f.root.text = A ++ B ∧ (f.entryPushAt p rel).root.text = A ++ sep ++ rel.text ++ B
      ∧ (sep = [] ∨ sep = " | ".toList ∨ sep = "| ".toList) := by
  have hek : f.entryKids p = e.children := by simp [Field.entryKids, he]
  obtain ⟨A, B, s, hsplit, hk, hs⟩ := frame_entryPushIn e.children rel
  refine ⟨textList (f.kids.take p) ++ textList A, textList B ++ textList (f.kids.drop (p + 1)), textList s, ?_, ?_, hs⟩
  · rw [root_text]
    conv => lhs; rw [textList_split f.kids p e he]
    have : e.text = textList e.children := by
      cases e with
      | tok k t => cases hn
      | node k cs => simp [Node.children]
    rw [Node.textList_append, Node.textList_cons, this, hsplit]; simp
  · unfold Field.entryPushAt
    rw [frame_entryEdit f p _ _ e he, hek, hk]; simp

/-- `Relations::insert` / `push` insert the entry with one separator and nothing else changes -/
theorem C11_frame_insert (f : Field) (i : Nat) (entry : RNode) :
    ∃ A B s1 s2, f.root.text = A ++ B ∧ (f.insert i entry).root.text = A ++ s1 ++ entry.text ++ s2 ++ B
      ∧ ((s1 = [] ∧ s2 = ", ".toList) ∨ (s1 = ", ".toList ∧ s2 = []) ∨ (s1 = " ".toList ∧ s2 = [])
        ∨ (s1 = [] ∧ s2 = [])) := by
  obtain ⟨A, B, s1, s2, hsplit, hk, hs⟩ := frame_relationsInsert f.kids i entry
  refine ⟨textList A, textList B, textList s1, textList s2, by rw [root_text, hsplit]; simp, ?_, hs⟩
  rw [root_text]
  show textList (relationsInsert f.kids i entry).kids = _
  rw [hk]; simp

theorem C11_frame_push (f : Field) (entry : RNode) :
    ∃ A B s1 s2, f.root.text = A ++ B ∧ (f.push entry).root.text = A ++ s1 ++ entry.text ++ s2 ++ B
      ∧ ((s1 = [] ∧ s2 = ", ".toList) ∨ (s1 = ", ".toList ∧ s2 = []) ∨ (s1 = " ".toList ∧ s2 = [])
        ∨ (s1 = [] ∧ s2 = [])) :=
  C11_frame_insert f _ entry

/-- `Relations::replace` swaps the text of the entry and nothing else -/
theorem C11_frame_replace (f f' : Field) (i : Nat) (entry : RNode) (h : f.replace i entry = .ok f') :
    ∃ A old B, f.root.text = A ++ old ++ B ∧ f'.root.text = A ++ entry.text ++ B := by
  obtain ⟨A, old, B, hk, hk', _⟩ := frame_replace f f' i entry h
  exact ⟨textList A, old.text, textList B, by rw [root_text, hk]; simp, by rw [root_text, hk']; simp⟩

/-- `Entry::remove`: the children left are a prefix of those before the entry and a suffix of those
    after it (only separators go with the entry) -/
theorem C11_frame_removeEntry (f f' : Field) (p : Nat) (h : f.removeEntryAt p = .ok f') :
    ∃ A B, f'.kids = A ++ B ∧ A <+: f.kids.take p ∧ B <:+ f.kids.drop (p + 1) := by
  unfold Field.removeEntryAt at h
  cases hc : entryRemove f.kids p with
  | panic s => rw [hc] at h; simp [Outcome.map] at h
  | ok c =>
    rw [hc] at h
    simp only [Outcome.map, Outcome.ok.injEq] at h
    rw [← h]
    exact frame_entryRemove f.kids p c hc

/-! ### reading the printed field again -/

/-- when the edited tree prints the text of a well-formed field with the same items, reading that
    text again reports no error and gives the same list model -/
theorem C11_reread (a : FieldA) (h : a.WF) (allow : Bool) (ha : allow = true ∨ a.hasSubstvar = false)
    (root : RNode) (ht : root.text = a.str) (habs : abs root = itemsA a) :
    (readRelaxed root.text allow).2 = [] ∧ abs (readRelaxed root.text allow).1 = abs root := by
  obtain ⟨e, _, _⟩ := C10_lossless a h allow ha
  rw [ht, e, habs]
  exact ⟨rfl, abs_tree a h⟩


/-! ### the layout of the constructors is kept by every operation

`built rs` is the field `Relations::from(Vec<Entry>)` / `Entry::from(Vec<Relation>)` /
`Relation::from(lossy)` produce for the lossy value `rs` (`, ` and ` | ` as separators, every
relation in the canonical layout `name[:q][ (op v)][ [a b]][ <p q>]…`). Every operation with operands
in that layout maps `built rs` to `built rs'` for the changed value `rs'` — so the field keeps
printing the canonical text and (`C11_reread_built`) reads back, without error, to that value. -/

/-- a built field of a valid value prints the canonical text, and reading that text again gives no
    error, the same list model and exactly the value -/
theorem C11_reread_built (rs : List (List Lossy.Relation)) (hs : ValidRSs rs) (allow : Bool) :
    (built rs).text = Lossy.showRelations rs
    ∧ (readRelaxed (built rs).text allow).2 = []
    ∧ abs (readRelaxed (built rs).text allow).1 = abs (built rs)
    ∧ accEntries (readRelaxed (built rs).text allow).1 = some rs := by
  have h : ValidRs rs := validRs_of_validRSs hs
  have ht := built_text rs hs
  obtain ⟨e, hv, _⟩ := C10_lossless (canon rs) (canon_wf rs h) allow (Or.inr (canon_noSubstvar rs))
  rw [canon_str] at e hv
  rw [ht, e]
  refine ⟨rfl, rfl, ?_, ?_⟩
  · show abs (canon rs).tree = _
    rw [abs_tree _ (canon_wf rs h), itemsA_canon rs h, abs_built rs hs]
  · rw [e] at hv; rw [hv, canon_view rs h]

/-- the relation setters on the `j`-th alternative of the `i`-th entry of a built field -/
theorem C11_built_setters (RA RB : List (List Lossy.Relation)) (EA EB : List Lossy.Relation) (r0 : Lossy.Relation)
    (f : Field) (hf : f.kids = (built (RA ++ (EA ++ r0 :: EB) :: RB)).children) :
    ∃ p q, Addr f RA.length EA.length p q ∧
      (∀ aq, (f.relEdit p q (setArchqual · aq)).root
        = built (RA ++ (EA ++ { r0 with archqual := some aq } :: EB) :: RB))
      ∧ (∀ c v, (f.relEdit p q (setVersion · (some (c, v)))).root
        = built (RA ++ (EA ++ { r0 with version := some (c, v) } :: EB) :: RB))
      ∧ (f.relEdit p q (setVersion · none)).root = built (RA ++ (EA ++ { r0 with version := none } :: EB) :: RB)
      ∧ (f.relEdit p q (fun r => (dropConstraint r).1)).root
        = built (RA ++ (EA ++ { r0 with version := none } :: EB) :: RB)
      ∧ (∀ a as, (f.relEdit p q (setArchitectures · (a :: as))).root
        = built (RA ++ (EA ++ { r0 with architectures := some (a :: as) } :: EB) :: RB))
      ∧ (f.relEdit p q (setArchitectures · [])).root
        = built (RA ++ (EA ++ { r0 with architectures := none } :: EB) :: RB)
      ∧ (∀ g, (f.relEdit p q (addProfile · g)).root
        = built (RA ++ (EA ++ { r0 with profiles := r0.profiles ++ [g] } :: EB) :: RB)) := by
  -- the positions do not depend on the setter
  obtain ⟨p, q, hp, hq, _⟩ := built_relEdit RA RB EA EB r0 r0 id rfl f hf
  have key : ∀ (g : RNode → RNode) (r' : Lossy.Relation), g (toLossless r0) = toLossless r' →
      (f.relEdit p q g).root = built (RA ++ (EA ++ r' :: EB) :: RB) := by
    intro g r' hg
    obtain ⟨p', q', hp', hq', hr⟩ := built_relEdit RA RB EA EB r0 r' g hg f hf
    have e1 : p' = p := Option.some.inj (hp'.symm.trans hp)
    subst e1
    have e2 : q' = q := Option.some.inj (hq'.symm.trans hq)
    subst e2
    exact hr
  exact ⟨p, q, ⟨hp, hq⟩, fun aq => key _ _ (setArchqual_canon r0 aq), fun c v => key _ _ (setVersion_canon r0 c v),
    key _ _ (setVersion_none_canon r0), key _ _ (dropConstraint_canon r0),
    fun a as => key _ _ (setArchitectures_canon r0 a as), key _ _ (setArchitectures_nil_canon r0),
    fun g => key _ _ (addProfile_canon r0 g)⟩

/-- `Relations::push / insert / replace / remove_entry` on a built field -/
theorem C11_built_entries (RA RB : List (List Lossy.Relation)) (E e : List Lossy.Relation)
    (f : Field) (hf : f.kids = (built (RA ++ E :: RB)).children) :
    (f.push (entryFromLossy e)).root = built (RA ++ E :: RB ++ [e])
    ∧ (f.insert RA.length (entryFromLossy e)).root = built (RA ++ e :: E :: RB)
    ∧ (∀ i, (RA ++ E :: RB).length ≤ i → (f.insert i (entryFromLossy e)).root = built (RA ++ E :: RB ++ [e]))
    ∧ (∃ f', f.replace RA.length (entryFromLossy e) = .ok f' ∧ f'.root = built (RA ++ e :: RB))
    ∧ (∃ f', f.removeEntry RA.length = .ok f' ∧ f'.root = built (RA ++ RB)) := by
  refine ⟨?_, built_insert RA RB E e f hf, ?_, built_replace RA RB E e f hf, built_removeEntry RA RB E f hf⟩
  · have := built_push (RA ++ E :: RB) e f hf
    simpa using this
  · intro i hi
    have := built_insert_end (RA ++ E :: RB) e i hi f hf
    simpa using this

/-- pushing onto the empty field -/
theorem C11_built_push_empty (e : List Lossy.Relation) (f : Field) (hf : f.kids = []) :
    (f.push (entryFromLossy e)).root = built [e] := built_push [] e f hf

/-- `Entry::push / replace / remove_relation` on the `i`-th entry of a built field -/
theorem C11_built_alternatives (RA RB : List (List Lossy.Relation)) (EA EB : List Lossy.Relation)
    (r0 r : Lossy.Relation) (f : Field) (hf : f.kids = (built (RA ++ (EA ++ r0 :: EB) :: RB)).children) :
    (∃ p, nthNode .ENTRY f.kids RA.length = some p
      ∧ (f.entryPushAt p (toLossless r)).root = built (RA ++ (EA ++ r0 :: EB ++ [r]) :: RB))
    ∧ (∃ p f', nthNode .ENTRY f.kids RA.length = some p
      ∧ f.entryReplaceAt p EA.length (toLossless r) = .ok f' ∧ f'.root = built (RA ++ (EA ++ r :: EB) :: RB))
    ∧ (∃ f', f.removeRelation RA.length EA.length = .ok f'
      ∧ f'.root = built (if (EA ++ EB).isEmpty then RA ++ RB else RA ++ (EA ++ EB) :: RB)) := by
  refine ⟨?_, built_entryReplace RA RB EA EB r0 r f hf, built_removeRelation RA RB EA EB r0 f hf⟩
  have := built_entryPush RA RB (EA ++ r0 :: EB) r f hf
  simpa using this

/-! ### histories

`Op` / `run` (Spec/RelHist.lean): the operations as one type, applied one after the other, addressed
by handle position or by index. `LOp` / `runL` / `runI` (Lemmas/RelEditHist.lean): histories addressed
by index with operands given as lossy values, on the value (`runL`) and on the tree (`runI`). -/

/-- `Shaped` is an invariant: from a parsed field (any field of the grammar) or a built one, after any
    history of operations whose operands are shaped (parsed or built operands are), every relation has
    at most one VERSION and one ARCHITECTURES node — so `C11_refine_setVersion_none`,
    `C11_refine_dropConstraint` and `C11_refine_setArchitectures_nil` apply at every step -/
theorem C11_shaped_history (f f' : Field) (ops : List Op)
    (h0 : (∃ a : FieldA, f.kids = a.tree.children) ∨ (∃ rs, f.kids = (built rs).children))
    (ho : ∀ op ∈ ops, op.shaped) (h : run f ops = .ok f') : Shaped f'.kids := by
  apply shaped_run f f' ops _ ho h
  rcases h0 with ⟨a, ha⟩ | ⟨rs, hrs⟩
  · rw [ha]; exact tree_shaped a
  · rw [hrs]; exact built_shaped rs

/-- operands that are parsed or built are shaped -/
theorem C11_operands_shaped :
    (∀ (r : RelA) (tail : List Tok), relShape (r.node tail))
    ∧ (∀ r : Lossy.Relation, relShape (toLossless r))
    ∧ (∀ E : List Lossy.Relation, entryShaped (entryFromLossy E))
    ∧ (∀ (s : Seg) (fl : Follow), ∀ e ∈ s.nodes fl, entryShaped e) :=
  ⟨RelA.node_shape, relShape_built, entryShaped_built, fun s fl => seg_shaped s fl⟩

/-- the tree the parser builds for the canonical text is the constructors' tree, unless a bare
    qualified name (`a:any`) stands before ` | ` (there the parser puts the blank inside the node) -/
theorem C11_parsed_is_built (rs : List (List Lossy.Relation)) (hv : ValidRSs rs) (hn : noInnerTail rs = true) :
    (readRelaxed (Lossy.showRelations rs) true).1 = built rs := by
  have h : ValidRs rs := validRs_of_validRSs hv
  obtain ⟨e, _, _⟩ := C10_lossless (canon rs) (canon_wf rs h) true (Or.inl rfl)
  rw [canon_str] at e
  rw [e]
  exact canon_tree_eq_built rs hv hn

/-- re-reading after a whole history: start from the field the constructors build for a valid value
    (or the parse of its canonical text, `C11_parsed_is_built`), apply any history of calls addressed by
    index with valid operands. If the history runs on the list model (`runL`, no index out of range),
    it runs on the tree without panic, the tree is the constructors' tree of the resulting value, it
    prints that value's canonical text, and that text parses strictly, with no error, to the same
    list model and exactly that value. -/
theorem C11_reread_history (rs rs' : List (List Lossy.Relation)) (os : List LOp) (hv : ValidRSs rs)
    (ho : ∀ o ∈ os, o.valid) (h : runL rs os = some rs') (f : Field) (hf : f.kids = (built rs).children) :
    ∃ f', runI f os = .ok f' ∧ f'.root = built rs' ∧ ValidRSs rs'
      ∧ f'.root.text = Lossy.showRelations rs'
      ∧ (∃ t, readStrict f'.root.text = .ok t ∧ abs t = abs f'.root ∧ accEntries t = some rs') := by
  obtain ⟨f', hr, hk⟩ := built_runI rs rs' os h f hf
  have hv' : ValidRSs rs' := valid_runL rs rs' os hv ho h
  have hroot : f'.root = built rs' := by
    show Node.node .ROOT f'.kids = _
    rw [hk]; rfl
  obtain ⟨ht, _, habs, hacc⟩ := C11_reread_built rs' hv' false
  refine ⟨f', hr, hroot, hv', by rw [hroot]; exact ht, ?_⟩
  rw [hroot]
  have hs : readStrict (built rs').text = .ok (readRelaxed (built rs').text false).1 := by
    have h2 : ValidRs rs' := validRs_of_validRSs hv'
    obtain ⟨e, _, _⟩ := C10_lossless (canon rs') (canon_wf rs' h2) false (Or.inr (canon_noSubstvar rs'))
    rw [ht, ← canon_str, e]
    exact C10_strict (canon rs') (canon_wf rs' h2) (canon_noSubstvar rs')
  exact ⟨_, hs, habs, hacc⟩

/-- the converse of `C11_reread_history`, one call: when the call is undefined on the value (an entry
    or alternative index out of range), the API call panics on the tree (an `unwrap` of `get_entry` /
    `get_relation`); `insert` and `push` are never undefined -/
theorem C11_undefined_panics (rs : List (List Lossy.Relation)) (o : LOp) (h : o.apply rs = none) (f : Field)
    (hf : f.kids = (built rs).children) : (stepI f o).isOk = false := stepI_panics rs o h f hf

/-! ### relation nodes with the following blank inside

For `a:any | b` the parser puts the blank after `a:any` INSIDE the RELATION node (relations.rs:190
`skip_ws` after the qualifier; `C11_parsed_is_built` excludes exactly this). On such a node
(`flagN r`: the canonical children of `r` followed by one WHITESPACE token) every setter gives the
canonical node of the changed value again, with two exceptions that append AFTER the inner blank:
`set_architectures(non-empty)` when the relation has neither an architecture list nor a restriction
list, and `add_profile` when it has no restriction list — the result prints two blanks before the new
bracket and none before the following `|` (`a:any  <x>| b`). That text is inside the grammar of C10
(gaps are arbitrary), reads back to the expected value (`C11_inner_tail_witness`), but is not the
canonical layout. -/

/-- the setters on a relation node that carries the following blank -/
theorem C11_inner_tail_setters (r : Lossy.Relation) :
    (ValidRS r → (canonRel r).node (gapToks sp) = flagN r)
    ∧ (∀ q, setArchqual (flagN r) q = flagN { r with archqual := some q })
    ∧ (∀ c v, setVersion (flagN r) (some (c, v)) = flagN { r with version := some (c, v) })
    ∧ setVersion (flagN r) none = flagN { r with version := none }
    ∧ setArchitectures (flagN r) [] = flagN { r with architectures := none }
    ∧ (∀ a as, setArchitectures (flagN r) (a :: as)
        = if (match r.architectures with | some (_ :: _) => true | _ => false) || !r.profiles.isEmpty then
            flagN { r with architectures := some (a :: as) }
          else .node .RELATION (builtChildren r ++ [T .WHITESPACE " ", T .WHITESPACE " ", architecturesNode (a :: as)]))
    ∧ (∀ g, addProfile (flagN r) g
        = if !r.profiles.isEmpty then flagN { r with profiles := r.profiles ++ [g] }
          else .node .RELATION (builtChildren r ++ [T .WHITESPACE " ", T .WHITESPACE " ", profilesNode g])) :=
  ⟨flagN_canon r, flag_setArchqual r, flag_setVersion r, flag_setVersion_none r, flag_setArchitectures_nil r,
    flag_setArchitectures r, flag_addProfile r⟩

/-- the field `a:any | b, c` as parsed -/
def tF : Field := ⟨(readRelaxed "a:any | b, c".toList true).1.children, [], []⟩

/-- strict re-read of a text through the accessors -/
def rereadL (t : Str) : Option (List (List Lossy.Relation)) :=
  match readStrict t with
  | .ok tr => accEntries tr
  | .error _ => none

/-- the operations that leave the canonical layout on the parse of `a:any | b, c`, what they print and
    what a strict re-read of that text gives: the expected value each time -/
theorem C11_inner_tail_witness :
    -- add_profile on `a:any`
    (tF.relEdit 0 0 (addProfile · [.Enabled "x".toList])).root.text = "a:any  <x>| b, c".toList
    ∧ rereadL "a:any  <x>| b, c".toList = some [[⟨"a".toList, some "any".toList, none, none, [[.Enabled "x".toList]]⟩,
        ⟨"b".toList, none, none, none, []⟩], [⟨"c".toList, none, none, none, []⟩]]
    -- set_architectures on `a:any`
    ∧ (tF.relEdit 0 0 (setArchitectures · ["i386".toList])).root.text = "a:any  [i386]| b, c".toList
    ∧ rereadL "a:any  [i386]| b, c".toList = some [[⟨"a".toList, some "any".toList, some ["i386".toList], none, []⟩,
        ⟨"b".toList, none, none, none, []⟩], [⟨"c".toList, none, none, none, []⟩]]
    -- remove_relation of `b`
    ∧ (tF.removeRelation 0 1).map (·.root.text) = .ok "a:any , c".toList
    ∧ rereadL "a:any , c".toList = some [[⟨"a".toList, some "any".toList, none, none, []⟩],
        [⟨"c".toList, none, none, none, []⟩]]
    -- … and a push onto that entry afterwards
    ∧ ((tF.removeRelation 0 1).map fun f => (f.entryPushAt 0 (toLossless ⟨"n".toList, none, none, none, []⟩)).root.text)
        = .ok "a:any  | n, c".toList
    ∧ rereadL "a:any  | n, c".toList = some [[⟨"a".toList, some "any".toList, none, none, []⟩,
        ⟨"n".toList, none, none, none, []⟩], [⟨"c".toList, none, none, none, []⟩]]
    -- the setters that stay canonical
    ∧ (tF.relEdit 0 0 (setVersion · (some (.GreaterThanEqual, ⟨none, "1".toList, none⟩)))).root.text
        = "a:any (>= 1) | b, c".toList := by
  decide +kernel

/-! ### the handles

A handle is the position of its node (`ERef.at p`, `RRef.at p q`) or dead with the text its node had
(`.gone t`). Every edit of a child list carries a position map (`Cut.remap`). -/

/-- the position map of every list edit of the model is faithful: an element that survives is the
    same node at its new position -/
theorem C11_remap_faithful :
    (∀ cs i entry, (relationsInsert cs i entry).Faithful cs)
    ∧ (∀ cs entry, (relationsPush cs entry).Faithful cs)
    ∧ (∀ cs p c, entryRemove cs p = .ok c → c.Faithful cs)
    ∧ (∀ es rel, (entryPushIn es rel).Faithful es)
    ∧ (∀ es q c, relationRemoveIn es q = .ok c → c.Faithful es) :=
  ⟨faithful_relationsInsert, fun cs entry => faithful_relationsInsert cs _ entry, faithful_entryRemove,
    faithful_entryPushIn, faithful_relationRemoveIn⟩

/-- an edit of the root's children (insert / push / replace / remove_entry) with a faithful map: a
    live entry handle reads the same node at its new position, or died with the text of its node; a
    live relation handle keeps its entry and position inside it, or died with its text; a dead handle
    stays dead -/
theorem C11_handles_root (f : Field) (c : Cut) (hc : c.Faithful f.kids) :
    (∀ r, EOk f r → EOk (f.rootEdit c) (eAfterRoot f c r) ∧ ETrack f (f.rootEdit c) r (eAfterRoot f c r))
    ∧ (∀ r, ROk f r → ROk (f.rootEdit c) (rAfterRoot f c r) ∧ RTrackRoot f (f.rootEdit c) r (rAfterRoot f c r))
    ∧ (f.rootEdit c).ehs = f.ehs.map (fun h => (h.1, eAfterRoot f c h.2))
    ∧ (f.rootEdit c).rhs = f.rhs.map (fun h => (h.1, rAfterRoot f c h.2)) :=
  ⟨root_entry_handle f c hc, root_rel_handle f c hc, rootEdit_ehs f c, rootEdit_rhs f c⟩

/-- an edit of the children of the entry at `p` (Entry::push / replace, Relation::remove) with a
    faithful map: every entry handle keeps its position (the one at `p` reads the edited entry); a
    relation handle of another entry reads the same node; one of this entry reads the same node at its
    new position, or died with its text -/
theorem C11_handles_entry (f : Field) (p : Nat) (c : Cut) (lost : Nat → Option Str) (e : RNode)
    (he : f.kids[p]? = some e) (hent : isNodeOf .ENTRY e = true) (hc : c.Faithful e.children) :
    (∀ r, EOk f r → EOk (f.entryEdit p c lost) r)
    ∧ (∀ r, ROk f r → ROk (f.entryEdit p c lost) (rAfterEntry f p c lost r)
        ∧ RTrackEntry f (f.entryEdit p c lost) p lost r (rAfterEntry f p c lost r))
    ∧ (f.entryEdit p c lost).ehs = f.ehs
    ∧ (f.entryEdit p c lost).rhs = f.rhs.map (fun h => (h.1, rAfterEntry f p c lost h.2)) :=
  ⟨(entry_handles f p c lost e he hent hc).1, (entry_handles f p c lost e he hent hc).2, rfl,
    entryEdit_rhs f p c lost⟩

/-- a setter moves no handle -/
theorem C11_handles_setter (f : Field) (p q : Nat) (g : RNode → RNode) :
    (f.relEdit p q g).ehs = f.ehs ∧ (f.relEdit p q g).rhs = f.rhs := by
  unfold Field.relEdit
  split
  · split <;> exact ⟨rfl, rfl⟩
  · exact ⟨rfl, rfl⟩

/-- whole histories: when every live handle points at a node of its kind (an ENTRY child of the root,
    a RELATION child of such an entry) before, it does after any history of operations -/
theorem C11_handles_history (f f' : Field) (ops : List Op) (h : HOk f) (hr : run f ops = .ok f') : HOk f' :=
  hok_run f f' ops h hr

/-- what a live handle reads: the entry handle at `p` is `get_entry(i)` for `i` = the number of entries
    before `p`, and reads entry `i` of the list model; the relation handle at `(p, q)` is
    `get_relation(j)` of that entry for `j` = the number of relations before `q`, and reads
    alternative `j` -/
theorem C11_handle_reads (f : Field) :
    (∀ p, EOk f (.at p) → ∃ e, f.kids[p]? = some e
      ∧ nthNode .ENTRY f.kids ((f.kids.take p).countP (isNodeOf .ENTRY)) = some p
      ∧ S.entry? (abs f.root) ((f.kids.take p).countP (isNodeOf .ENTRY)) = some (relsOf e))
    ∧ (∀ p q, ROk f (.at p q) → ∃ e r, f.kids[p]? = some e ∧ e.children[q]? = some r
      ∧ nthNode .RELATION (f.entryKids p) ((e.children.take q).countP (isNodeOf .RELATION)) = some q
      ∧ (relsOf e)[(e.children.take q).countP (isNodeOf .RELATION)]? = some (recOf r)) :=
  ⟨fun p h => entry_handle_reads f p h, fun p q h => rel_handle_reads f p q h⟩

/-! ### the whole history against the labelled list model (the `rel.hist` oracle)

`LModel` (Lemmas/RelEditOracle.lean) is the reference model of harness/src/reledit.rs: the items of
the field (`items : FieldS`, every alternative as its record) and, aligned with them, which handle id
sits on which entry and alternative (`tags : Shape`; handles are taken before the history, so elements
created by an operation carry no id). `mstep` applies a call to it: the list operation on the items;
on the ids: setters move none, `insert` / `push` / `replace` / `Entry::push` / `Entry::replace` bring
unlabelled elements (a replaced element's id is gone), the removals drop the ids with the elements.
`irun` runs the calls on the tree, addressed by index as the API does. -/

/-- the oracle's theorem. Start from any field with handles that point at entries / relations
    (`HOk`), `Shaped` (every parsed or built field is), and the model read off it. After any history of
    calls with well-formed operands that does not panic:
    * the items of the tree, in order, are the model's items (refinement of the whole history);
    * the handle ids sit where the model says (`shapeOf f' = M'.tags`), hence
    * the model element carrying entry id `id` is read by the handle with that id: it is live,
      `get_entry(i)` finds its node and the node reads the model's entry `i`; likewise every model
      alternative carrying a relation id;
    * every live handle still points at a node of its kind, and the tree is still `Shaped`;
    * dead handles stay dead, with the text they died with. -/
theorem C11_history_refines (f f' : Field) (os : List IOp) (hs : Shaped f.kids) (hk : HOk f)
    (ho : ∀ o ∈ os, o.ok) (h : irun f os = .ok f') :
    let M' := mrun ⟨abs f.root, shapeOf f⟩ os
    abs f'.root = M'.items
    ∧ shapeOf f' = M'.tags
    ∧ (∀ i id rs, Sh.entry? M'.tags i = some (some id, rs) →
        ∃ p e, (id, ERef.at p) ∈ f'.ehs ∧ nthNode .ENTRY f'.kids i = some p ∧ f'.kids[p]? = some e
          ∧ S.entry? M'.items i = some (relsOf e))
    ∧ (∀ i j rid t rs, Sh.entry? M'.tags i = some (t, rs) → rs[j]? = some (some rid) →
        ∃ p q e r, (rid, RRef.at p q) ∈ f'.rhs ∧ nthNode .ENTRY f'.kids i = some p
          ∧ nthNode .RELATION (f'.entryKids p) j = some q ∧ f'.kids[p]? = some e ∧ e.children[q]? = some r
          ∧ (relsOf e)[j]? = some (recOf r))
    ∧ HOk f' ∧ Shaped f'.kids
    ∧ (∀ id t, (id, ERef.gone t) ∈ f.ehs → (id, ERef.gone t) ∈ f'.ehs)
    ∧ (∀ id t, (id, RRef.gone t) ∈ f.rhs → (id, RRef.gone t) ∈ f'.rhs) := by
  have H0 : HRel f ⟨abs f.root, shapeOf f⟩ := ⟨rfl, rfl, hs, hk⟩
  have H := hrel_run f f' _ os H0 ho h
  have hd := dead_irun f f' os h
  exact ⟨H.items, H.tags, fun i id rs => H.entry_reads i id rs, fun i j rid t rs => H.rel_reads i j rid t rs,
    H.hok, H.shaped, hd.1, hd.2⟩

/-- with distinct live handles on distinct nodes (`HInj`, true of handles taken one per node, kept by
    every operation) the oracle theorem speaks about EVERY live handle: after the history the handles
    are still apart, and for every live entry handle `(id, at p)` the model carries `id` on the entry
    `get_entry(i)` finds at `p`, whose node reads the model's entry `i`; for every live relation handle
    `(rid, at p q)` the model carries `rid` on alternative `j` of that entry -/
theorem C11_history_live_handles (f f' : Field) (os : List IOp) (hs : Shaped f.kids) (hk : HOk f) (hi : HInj f)
    (ho : ∀ o ∈ os, o.ok) (h : irun f os = .ok f') :
    let M' := mrun ⟨abs f.root, shapeOf f⟩ os
    HInj f'
    ∧ (∀ id p, (id, ERef.at p) ∈ f'.ehs →
        ∃ i rs e, nthNode .ENTRY f'.kids i = some p ∧ Sh.entry? M'.tags i = some (some id, rs)
          ∧ f'.kids[p]? = some e ∧ S.entry? M'.items i = some (relsOf e))
    ∧ (∀ rid p q, (rid, RRef.at p q) ∈ f'.rhs →
        ∃ i j t rs, nthNode .ENTRY f'.kids i = some p ∧ nthNode .RELATION (f'.entryKids p) j = some q
          ∧ Sh.entry? M'.tags i = some (t, rs) ∧ rs[j]? = some (some rid)) := by
  have H0 : HRel f ⟨abs f.root, shapeOf f⟩ := ⟨rfl, rfl, hs, hk⟩
  have H := hrel_run f f' _ os H0 ho h
  have hi' := hinj_irun f f' os hi h
  exact ⟨hi', fun id p hm => H.live_entry hi' id p hm, fun rid p q hm => H.live_rel hi' rid p q hm⟩

/-- one call: the step relation of the oracle (`HRel` is kept by every call that returns) -/
theorem C11_history_step (f f' : Field) (M : LModel) (o : IOp) (H : HRel f M) (ho : o.ok)
    (h : istep f o = .ok f') : HRel f' (mstep M o) := hrel_step f f' M o H ho h

/-! ### re-reading after a setter on ANY well-formed field

`relAtSegs a.segs i j` (Lemmas/RelEditZip.lean) is the `j`-th alternative of the `i`-th entry of the
field `a` of the grammar, with the gap that follows it and what follows that gap. The tree `a.tree`
splits around the RELATION node of that alternative (`segs_zip`), whatever the layout — folded lines,
odd spacing, the following whitespace inside the node or outside. Every setter maps that node to the
node of a well-formed relation (`NodeSpec`, Lemmas/RelEditSpecs.lean): the same gaps where a part is
replaced or removed, ` ` before a new part; when a list is appended to a node that ends in the
following whitespace (`a:any  <x>| b`), that whitespace becomes the gap before the new list and the gap
after the relation becomes empty. So the edited tree prints a well-formed field, and by C10 that text
parses without error to the list-model result. -/

/-- the edited field re-reads: no error, the list model of the result is the setter's list operation
    on the list model before, and the printed text is a well-formed field -/
def Rereads (a : FieldA) (allow : Bool) (f : Field) (i j p q : Nat) (g : RNode → RNode) (G : RelRec → RelRec) : Prop :=
  (readRelaxed (f.relEdit p q g).root.text allow).2 = []
  ∧ abs (readRelaxed (f.relEdit p q g).root.text allow).1 = S.modRel (abs f.root) i j G
  ∧ ∃ a' : FieldA, a'.WF ∧ a'.hasSubstvar = a.hasSubstvar ∧ (f.relEdit p q g).root.text = a'.str

theorem rereads_of_spec (a : FieldA) (hwf : a.WF) (allow : Bool) (ha : allow = true ∨ a.hasSubstvar = false)
    (i j : Nat) (rj : RelA) (gj : Gap) (flj : Follow) (h : relAtSegs a.segs i j = some (rj, gj, flj))
    (f : Field) (hf : f.kids = a.tree.children) (p q : Nat) (hA : Addr f i j p q)
    (g : RNode → RNode) (G : RelRec → RelRec) (hs : ∃ r' g', NodeSpec g G rj gj flj r' g') :
    Rereads a allow f i j p q g G := by
  obtain ⟨r', g', hspec⟩ := hs
  obtain ⟨p', q', hp', hq', hwf', htext, herr, habs⟩ := reread_setter a hwf allow ha i j rj gj flj h g G r' g' hspec f hf
  have e1 : p' = p := Option.some.inj (hp'.symm.trans hA.1)
  subst e1
  have e2 : q' = q := Option.some.inj (hq'.symm.trans hA.2)
  subst e2
  exact ⟨herr, habs, _, hwf', setSegs_substvar a.segs i j r' g', htext⟩

/-- the alternative found in the grammar is the one `get_entry(i)` / `get_relation(j)` find in the tree -/
theorem C11_relAt_addr (a : FieldA) (i j : Nat) (rj : RelA) (gj : Gap) (flj : Follow)
    (h : relAtSegs a.segs i j = some (rj, gj, flj)) (f : Field) (hf : f.kids = a.tree.children) :
    ∃ p q e, Addr f i j p q ∧ f.kids[p]? = some e ∧ e.children[q]? = some (rj.node (tailOf rj gj flj)) := by
  obtain ⟨pre, pre', post', post, L, R, hk, hc, hc', _, _⟩ := segs_zip a.segs i j rj gj flj h
  have hkids : f.kids = pre ++ Node.node .ENTRY (pre' ++ rj.node (tailOf rj gj flj) :: post') :: post := by
    rw [hf]; exact hk
  have hek := entryKids_split f pre _ post hkids
  refine ⟨pre.length, pre'.length, Node.node .ENTRY (pre' ++ rj.node (tailOf rj gj flj) :: post'), ⟨?_, ?_⟩, ?_, ?_⟩
  · rw [hkids, ← hc]; exact nthPos_split pre _ post rfl
  · rw [hek, ← hc']; exact nthPos_split pre' _ post' rfl
  · rw [hkids]; simp
  · show (pre' ++ rj.node (tailOf rj gj flj) :: post')[pre'.length]? = _
    simp

/-- the converse of `C11_relAt_addr`: what `get_entry(i)` / `get_relation(j)` find in the tree of a
    well-formed field is an alternative of the grammar -/
theorem C11_addr_relAt (a : FieldA) (hwf : a.WF) (f : Field) (hf : f.kids = a.tree.children) (i j p q : Nat)
    (hA : Addr f i j p q) : ∃ rj gj flj, relAtSegs a.segs i j = some (rj, gj, flj) :=
  relAt_of_addr a hwf f hf i j p q hA.1 hA.2

/-- `C11_reread` without its condition, for the relation setters on ANY well-formed field: the edited
    tree prints a well-formed field and re-reads, without error, to the list-model result -/
theorem C11_reread_setters_wf (a : FieldA) (hwf : a.WF) (allow : Bool) (ha : allow = true ∨ a.hasSubstvar = false)
    (i j : Nat) (rj : RelA) (gj : Gap) (flj : Follow) (h : relAtSegs a.segs i j = some (rj, gj, flj))
    (f : Field) (hf : f.kids = a.tree.children) (p q : Nat) (hA : Addr f i j p q) :
    (∀ aq, isIdent aq = true →
      Rereads a allow f i j p q (setArchqual · aq) (fun x => { x with archqual := some aq }))
    ∧ (∀ c v, validVersion v = true →
      Rereads a allow f i j p q (setVersion · (some (c, v))) (fun x => { x with version := .ok (some (c, v)) }))
    ∧ Rereads a allow f i j p q (setVersion · none) (fun x => { x with version := .ok none })
    ∧ Rereads a allow f i j p q (fun x => (dropConstraint x).1) (fun x => { x with version := .ok none })
    ∧ Rereads a allow f i j p q (setArchitectures · []) (fun x => { x with architectures := none })
    ∧ (∀ x xs, (∀ y ∈ x :: xs, validArch y = true) →
      Rereads a allow f i j p q (setArchitectures · (x :: xs)) (fun r => { r with architectures := some (x :: xs) }))
    ∧ (∀ g, (∀ y ∈ g, isIdent (profName y) = true) →
      Rereads a allow f i j p q (addProfile · g) (fun r => { r with profiles := r.profiles ++ [g] })) := by
  have hok : ∀ s ∈ a.segs, s.ok = true := by simpa [FieldA.WF, FieldA.ok, List.all_eq_true] using hwf
  obtain ⟨hr, hg⟩ := relAt_ok a.segs i j rj gj flj h hok
  have key := rereads_of_spec a hwf allow ha i j rj gj flj h f hf p q hA
  refine ⟨fun aq haq => key _ _ ⟨_, _, spec_setArchqual rj gj flj aq hr hg haq⟩,
    fun c v hv => ?_, key _ _ ⟨_, _, spec_setVersion_none rj gj flj hr hg⟩,
    key _ _ ⟨_, _, spec_dropConstraint rj gj flj hr hg⟩, key _ _ ⟨_, _, spec_setArchs_nil rj gj flj hr hg⟩,
    fun x xs hv => key _ _ (spec_setArchs_cons rj gj flj x xs hr hg hv),
    fun g hv => key _ _ (spec_addProfile rj gj flj g hr hg hv)⟩
  obtain ⟨r', hs⟩ := spec_setVersion_some rj gj flj c v hr hg hv
  exact key _ _ ⟨r', gj, hs⟩

/-- `C11_reread_setters_wf` with the hypothesis on the tree side: any address `get_entry(i)` /
    `get_relation(j)` resolves to -/
theorem C11_reread_setters_addr (a : FieldA) (hwf : a.WF) (allow : Bool) (ha : allow = true ∨ a.hasSubstvar = false)
    (f : Field) (hf : f.kids = a.tree.children) (i j p q : Nat) (hA : Addr f i j p q) :
    (∀ aq, isIdent aq = true →
      Rereads a allow f i j p q (setArchqual · aq) (fun x => { x with archqual := some aq }))
    ∧ (∀ c v, validVersion v = true →
      Rereads a allow f i j p q (setVersion · (some (c, v))) (fun x => { x with version := .ok (some (c, v)) }))
    ∧ Rereads a allow f i j p q (setVersion · none) (fun x => { x with version := .ok none })
    ∧ Rereads a allow f i j p q (fun x => (dropConstraint x).1) (fun x => { x with version := .ok none })
    ∧ Rereads a allow f i j p q (setArchitectures · []) (fun x => { x with architectures := none })
    ∧ (∀ x xs, (∀ y ∈ x :: xs, validArch y = true) →
      Rereads a allow f i j p q (setArchitectures · (x :: xs)) (fun r => { r with architectures := some (x :: xs) }))
    ∧ (∀ g, (∀ y ∈ g, isIdent (profName y) = true) →
      Rereads a allow f i j p q (addProfile · g) (fun r => { r with profiles := r.profiles ++ [g] })) := by
  obtain ⟨rj, gj, flj, h⟩ := C11_addr_relAt a hwf f hf i j p q hA
  exact C11_reread_setters_wf a hwf allow ha i j rj gj flj h f hf p q hA

/-! ### re-reading after the structural operations at the root, on ANY well-formed field

Operand entries: an ENTRY node that prints a well-formed entry and reads as its alternatives
(`EntryOperand`; built entries are, `C11_operand_built`; so are parsed ones). -/

theorem C11_operand_built (r : Lossy.Relation) (rest : List Lossy.Relation) (h : ∀ x ∈ r :: rest, ValidRS x) :
    EntryOperand (entryFromLossy (r :: rest)) (canonRel r) (rest.map fun x => ⟨sp, sp, canonRel x⟩) :=
  operand_built r rest h

/-- `Relations::insert(i, entry)` before an existing entry: the new entry takes the whitespace in front
    of that entry, `, ` follows; the text is a well-formed field and re-reads to `S.insert` -/
theorem C11_reread_insert_wf (a : FieldA) (hwf : a.WF) (allow : Bool) (ha : allow = true ∨ a.hasSubstvar = false)
    (i : Nat) (hi : i < cntAlts a.segs) (E : RNode) (r0 : RelA) (rest0 : List AltA) (hE : EntryOperand E r0 rest0)
    (f : Field) (hf : f.kids = a.tree.children) :
    (∃ a' : FieldA, a'.WF ∧ (f.insert i E).root.text = a'.str)
    ∧ (readRelaxed (f.insert i E).root.text allow).2 = []
    ∧ abs (readRelaxed (f.insert i E).root.text allow).1 = S.insert (abs f.root) i (relsOf E) :=
  reread_insert_before a hwf allow ha i hi E r0 rest0 hE f hf

/-- `Relations::replace(i, entry)`: the call returns, the text is a well-formed field (the part of the
    old entry's trailing whitespace that was outside its node stays) and re-reads to `S.replace` -/
theorem C11_reread_replace_wf (a : FieldA) (hwf : a.WF) (allow : Bool) (ha : allow = true ∨ a.hasSubstvar = false)
    (i : Nat) (hi : i < cntAlts a.segs) (E : RNode) (r0 : RelA) (rest0 : List AltA) (hE : EntryOperand E r0 rest0)
    (f : Field) (hf : f.kids = a.tree.children) :
    ∃ f', f.replace i E = .ok f'
      ∧ (∃ a' : FieldA, a'.WF ∧ f'.root.text = a'.str)
      ∧ (readRelaxed f'.root.text allow).2 = []
      ∧ abs (readRelaxed f'.root.text allow).1 = S.replace (abs f.root) i (relsOf E) :=
  reread_replace a hwf allow ha i hi E r0 rest0 hE f hf

/-- `Relations::push(entry)` on a well-formed field whose last segment holds an entry or a substitution
    variable (no trailing comma): `, entry` goes right behind that item — in front of the trailing
    whitespace when the item is a substitution variable; the text re-reads to `S.push` -/
theorem C11_reread_push_wf (A : List Seg) (s : Seg) (hne : s.entry.isEmpty = false) (hwf : (FieldA.mk (A ++ [s])).WF)
    (allow : Bool) (ha : allow = true ∨ (FieldA.mk (A ++ [s])).hasSubstvar = false)
    (E : RNode) (r0 : RelA) (rest0 : List AltA) (hE : EntryOperand E r0 rest0)
    (f : Field) (hf : f.kids = (FieldA.mk (A ++ [s])).tree.children) :
    (∃ a' : FieldA, a'.WF ∧ (f.push E).root.text = a'.str)
    ∧ (readRelaxed (f.push E).root.text allow).2 = []
    ∧ abs (readRelaxed (f.push E).root.text allow).1 = S.push (abs f.root) (relsOf E) :=
  reread_push A s hne hwf allow ha E r0 rest0 hE f hf

/-- the layouts the structural operations produce that the theorems above do not cover yet (push after a
    trailing comma, removal of entries, `Entry::push` / `remove_relation`): printed text and strict
    re-read on examples with folded lines, odd spacing, trailing commas and substitution variables -/
def wfld (t : String) : Field := ⟨(readRelaxed t.toList true).1.children, [], []⟩
def wN : RNode := entryFromLossy [⟨"n".toList, none, none, none, []⟩]

theorem C11_structural_witness :
    -- push behind a trailing comma, with and without whitespace after it
    ((wfld "a,").push wN).root.text = "a, n".toList
    ∧ ((wfld "a ,\n ").push wN).root.text = "a ,\n n".toList
    ∧ rereadL "a ,\n n".toList = some [[⟨"a".toList, none, none, none, []⟩], [⟨"n".toList, none, none, none, []⟩]]
    -- push behind a substitution variable followed by whitespace
    ∧ ((wfld "a, ${x} ").push wN).root.text = "a, ${x}, n ".toList
    -- removal of the first, a middle and the last entry of a folded field
    ∧ ((wfld "a ,\n b\t, c").removeEntry 0).map (·.root.text) = .ok "b\t, c".toList
    ∧ ((wfld "a ,\n b\t, c").removeEntry 1).map (·.root.text) = .ok "a , c".toList
    ∧ ((wfld "a ,\n b\t, c").removeEntry 2).map (·.root.text) = .ok "a ,\n b\t".toList
    ∧ rereadL "a ,\n b\t".toList = some [[⟨"a".toList, none, none, none, []⟩], [⟨"b".toList, none, none, none, []⟩]]
    -- `Entry::push` / `remove_relation` inside a folded entry
    ∧ ((wfld "a\n | b , c").entryPushAt 0 (toLossless ⟨"n".toList, none, none, none, []⟩)).root.text = "a\n | b | n , c".toList
    ∧ ((wfld "a\n | b , c").removeRelation 0 0).map (·.root.text) = .ok "b , c".toList := by
  decide +kernel

/-! ### F-C11-8 (fixed): `Entry::replace` with an operand that carries whitespace -/

/-- `"n ".parse::<Relation>()`: the RELATION node is `IDENT "n", WHITESPACE " "` -/
def wRel : RNode := match Rel.readRelation "n ".toList with | Except.ok r => r | Except.error _ => .node .ERROR []
/-- `"n:any ".parse::<Relation>()` -/
def wRelAq : RNode := match Rel.readRelation "n:any ".toList with | Except.ok r => r | Except.error _ => .node .ERROR []
/-- the field `a | b` -/
def wF : Field := ⟨(readRelaxed "a | b".toList true).1.children, [], []⟩

/-- regression: `a | b` with the first alternative replaced by the parsed `"n "` prints `n | b` (it
    printed `  | b`), with `"n:any "` it prints `n:any | b` (it printed `n  | b`), and the list model
    is the expected one -/
theorem C11_fixed_entryReplace :
    isNodeOf .RELATION wRel = true ∧ nthNode .ENTRY wF.kids 0 = some 0
    ∧ (wF.entryReplaceAt 0 0 wRel).map (fun f' =>
        (f'.root.text, decide (abs f'.root = S.entryReplace (abs wF.root) 0 0 (recOf wRel))))
      = .ok ("n | b".toList, true)
    ∧ (wF.entryReplaceAt 0 0 wRelAq).map (fun f' =>
        (f'.root.text, decide (abs f'.root = S.entryReplace (abs wF.root) 0 0 (recOf wRelAq))))
      = .ok ("n:any | b".toList, true) := by
  decide +kernel

/-! ### the hypotheses can be met -/

/-- `a (>= 1) [x] | b, ${v}, c` -/
def exF : Field := ⟨(readRelaxed "a (>= 1) [x] | b, ${v}, c".toList true).1.children, [], []⟩
def exRel : RNode := toLossless ⟨"n".toList, none, none, none, []⟩
def exEntry : RNode := entryFromLossy [⟨"n".toList, none, none, none, []⟩]

example : Addr exF 0 1 0 4 := by unfold Addr; decide +kernel
example : Addr exF 1 0 6 0 := by unfold Addr; decide +kernel
def exA : FieldA := ⟨[⟨[], .alts ⟨"a".toList, none, some ⟨sp, [], .GreaterThanEqual, sp, ⟨none, "1".toList⟩, []⟩,
    some ⟨sp, [⟨[], false, "x".toList⟩], []⟩, []⟩ [⟨sp, sp, ⟨"b".toList, none, none, none, []⟩⟩], []⟩,
  ⟨sp, .substvar "v".toList [], []⟩, ⟨sp, .alts ⟨"c".toList, none, none, none, []⟩ [], []⟩]⟩
example : Shaped exF.kids := by
  have hs : "a (>= 1) [x] | b, ${v}, c".toList = exA.str := by decide +kernel
  have h : exF.kids = exA.tree.children := by
    simp only [exF, readRelaxed, hs, C10_parse_inverts exA (by decide +kernel) true (Or.inl rfl)]
  rw [h]; exact tree_shaped _
example : exA.WF := by decide +kernel
example : abs exF.root = [.alts [⟨some "a".toList, none, .ok (some (.GreaterThanEqual, ⟨none, "1".toList, none⟩)),
      some ["x".toList], []⟩, ⟨some "b".toList, none, .ok none, none, []⟩],
    .subst "${v}".toList, .alts [⟨some "c".toList, none, .ok none, none, []⟩]] := by decide +kernel
example : validVersion ⟨some 1, "2.0".toList, some "3".toList⟩ = true := by decide +kernel
example : ∀ x ∈ [BuildProfile.Enabled "nocheck".toList, .Disabled "cross".toList], isIdent (profName x) = true := by
  decide +kernel
example : isNodeOf .RELATION exRel = true ∧ trimmed exRel := by
  refine ⟨by decide +kernel, ?_, ?_⟩ <;> decide +kernel
example : isNodeOf .ENTRY exEntry = true := by decide +kernel
example : (exF.replace 1 exEntry).isOk = true ∧ (exF.removeEntry 0).isOk = true
    ∧ (exF.removeRelation 0 0).isOk = true ∧ (exF.removeRelationAt 0 4).isOk = true
    ∧ (exF.entryReplaceAt 0 1 exRel).isOk = true ∧ (exF.removeEntryAt 0).isOk = true := by decide +kernel
example : exF.kids[0]?.map Node.isNode = some true := by decide +kernel
/-- the operations on the example, printed -/
example : (exF.relEdit 0 4 (setVersion · (some (.LessThan, ⟨none, "2".toList, none⟩)))).root.text
      = "a (>= 1) [x] | b (<< 2), ${v}, c".toList
    ∧ (exF.push exEntry).root.text = "a (>= 1) [x] | b, ${v}, c, n".toList
    ∧ (exF.insert 1 exEntry).root.text = "a (>= 1) [x] | b, ${v}, n, c".toList
    ∧ (exF.entryPushAt 6 exRel).root.text = "a (>= 1) [x] | b, ${v}, c | n".toList
    ∧ (exF.removeRelationAt 6 0).map (·.root.text) = .ok "a (>= 1) [x] | b, ${v}".toList := by decide +kernel
/-- `C11_reread` applies, e.g. to the canonical layout -/
example : ∃ a : FieldA, a.WF ∧ a.hasSubstvar = false ∧ a.tree.text = a.str ∧ abs a.tree = itemsA a :=
  ⟨canon [[⟨"a".toList, none, none, none, []⟩]], by decide +kernel, by decide +kernel, by decide +kernel,
    abs_tree _ (by decide +kernel)⟩


/-- the built-layout theorems apply, e.g. to `a (>= 1) | b:any, c` -/
def exRs : List (List Lossy.Relation) :=
  [[⟨"a".toList, none, none, some (.GreaterThanEqual, ⟨none, "1".toList, none⟩), []⟩,
    ⟨"b".toList, some "any".toList, none, none, []⟩], [⟨"c".toList, none, none, none, []⟩]]
example : ValidRSs exRs := by decide +kernel
example : ∃ f : Field, f.kids = (built exRs).children := ⟨⟨_, [], []⟩, rfl⟩
example : (built exRs).text = "a (>= 1) | b:any, c".toList := by decide +kernel


/-- `C11_history_refines` applies: the built field `a | b, c` with the handles the oracle takes (entry
    1 with alternatives 2, 3; entry 4 with alternative 5), and a history -/
def hF : Field :=
  ⟨(built [[⟨"a".toList, none, none, none, []⟩, ⟨"b".toList, none, none, none, []⟩],
      [⟨"c".toList, none, none, none, []⟩]]).children,
    [(1, .at 0), (4, .at 3)], [(2, .at 0 0), (3, .at 0 4), (5, .at 3 0)]⟩

def hOps : List IOp :=
  [.setArchqual 0 1 "any".toList, .insert 0 exEntry, .removeRelation 1 0, .entryPush 2 exRel, .removeEntry 1]

example : HOk hF := by
  constructor
  · intro h hh
    simp only [hF, List.mem_cons, List.not_mem_nil, or_false] at hh
    rcases hh with rfl | rfl
    · exact ⟨_, rfl, rfl⟩
    · exact ⟨_, rfl, rfl⟩
  · intro h hh
    simp only [hF, List.mem_cons, List.not_mem_nil, or_false] at hh
    rcases hh with rfl | rfl | rfl
    · exact ⟨_, _, rfl, rfl, rfl, rfl⟩
    · exact ⟨_, _, rfl, rfl, rfl, rfl⟩
    · exact ⟨_, _, rfl, rfl, rfl, rfl⟩
example : Shaped hF.kids := built_shaped _
example : ∀ o ∈ hOps, o.ok := by
  intro o ho
  simp only [hOps, List.mem_cons, List.not_mem_nil, or_false] at ho
  rcases ho with rfl | rfl | rfl | rfl | rfl
  · trivial
  · exact ⟨by decide +kernel, entryShaped_built _⟩
  · trivial
  · exact ⟨by decide +kernel, relShape_built _⟩
  · trivial
/-- the history runs, and this is where the ids are afterwards: the inserted entry `n` carries none;
    entry 1 (`a | b:any` → `b:any` after the removal of `a`) is removed at the end; entry 4 keeps its
    id and its alternative 5, the pushed `n` carries none -/
example : (irun hF hOps).map (·.root.text) = .ok "n, c | n".toList
    ∧ (mrun ⟨abs hF.root, shapeOf hF⟩ hOps).tags = [some (none, [none]), some (some 4, [some 5, none])] := by
  decide +kernel


/-- `C11_reread_setters_wf` applies: the alternatives of `a (>= 1) [x] | b, ${v}, c` (`exA`) -/
example : relAtSegs exA.segs 0 1 = some (⟨"b".toList, none, none, none, []⟩, [], .comma)
    ∧ relAtSegs exA.segs 1 0 = some (⟨"c".toList, none, none, none, []⟩, [], .eof)
    ∧ relAtSegs exA.segs 2 0 = none := by decide +kernel
example : ∃ p q, Addr exF 1 0 p q := ⟨6, 0, by unfold Addr; decide +kernel⟩
example : (LOp.setArchqual 5 0 "any".toList).apply exRs = none := by decide +kernel


/-- the example field's handles sit on distinct nodes -/
example : HInj hF := by
  constructor <;> simp [hF, ESep, RSep]

end Deb822Verif.Props.C11
