import Deb822Verif.Lemmas.RelEditTree
import Deb822Verif.Lemmas.RelEditFrame
import Deb822Verif.Lemmas.RelEditBuilt
import Deb822Verif.Props.C10
/-!
# C11 — editing relationship fields keeps them well-formed and matches a list model

Model: Model/RelEdit.lean (every mutator of `lossless::{Relations, Entry, Relation}` as a pure
function on the field's tree, handles as paths) with the node functions of Model/RelBuild.lean.
Specification: Spec/RelList.lean — a field is a list of items (`FieldS`), an item is an entry (the
list of its alternatives, each the record `RelRec` of what the five read accessors return) or a
substitution variable; the operations are the list operations `S.*`. Abstraction: `abs`, built from
the accessors of Model/RelAccess.lean (`entries`, `relations`, `name`, `archqual`, `version`,
`architectures`, `profiles`, `substvars`), keeping the order of entries and substitution variables.

Addressing: the API addresses the `i`-th ENTRY (`get_entry(i)`, substitution variables are not
counted) and its `j`-th RELATION (`get_relation(j)`); in the model that is `nthNode`, and a live
handle is the position it returns. The refinement theorems take the positions `p`, `q` with the
hypothesis that they are the positions of entry `i` / alternative `j` (`Addr`).

The refinement theorems hold on EVERY tree (not only on trees of well-formed fields), so they apply
after any history of operations. Three of them need that the relation has at most one VERSION /
ARCHITECTURES node (`Shaped`), which every tree of the grammar has (`C11_shaped_tree`).

Finding F-C11-8 (fixed in bfca743): `Entry::replace(j, rel)` with an operand whose RELATION node
starts or ends with whitespace (as `"n ".parse::<Relation>()` produces) deleted the operand's name or
qualifier. `C11_refine_entryReplace` is now the full statement; `C11_fixed_entryReplace` is the
regression instance.
-/
namespace Deb822Verif.Props.C11
open Deb822Verif Rel Node RelSpec Lossy Build Edit
open Deb822Verif.Props.C10

/-- `p` is the position of the `i`-th entry of the field, `q` that of its `j`-th alternative -/
def Addr (f : Field) (i j p q : Nat) : Prop :=
  nthNode .ENTRY f.kids i = some p ∧ nthNode .RELATION (f.entryKids p) j = some q

/-! ### the abstraction -/

/-- on the tree of a well-formed field the abstraction is the list of the items as written: every
    entry with the `view` (C10) of its alternatives, every substitution variable with its text -/
theorem C11_abs_tree (a : FieldA) (h : a.WF) : abs a.tree = itemsA a := abs_tree a h

/-- every tree of the grammar has at most one VERSION and one ARCHITECTURES node per relation -/
theorem C11_shaped_tree (a : FieldA) : Shaped a.tree.children := tree_shaped a

/-- `get_entry(i)` finds the `i`-th entry of the list model, and `None` exactly when there is none -/
theorem C11_getEntry (f : Field) (i : Nat) :
    (∀ p, nthNode .ENTRY f.kids i = some p →
        ∃ e, f.kids[p]? = some e ∧ S.entry? (abs f.root) i = some (relsOf e))
    ∧ (nthNode .ENTRY f.kids i = none → S.nEntries (abs f.root) ≤ i) := by
  constructor
  · intro p hp
    obtain ⟨pre, e, post, hk, hl, he, hcnt, hne, habs⟩ := abs_split hp
    subst hl
    refine ⟨e, by rw [hk]; simp, ?_⟩
    show S.entry? (absKids f.kids) i = _
    rw [habs, ← hne, S.entry?_at]
  · intro hn
    show S.nEntries (absKids f.kids) ≤ i
    rw [nEntries_abs]; exact nthPos_none hn

/-! ### the relation setters: only the addressed relation record changes -/

theorem isNodeOf_onChildren {k : Kind} {r : RNode} (h : isNodeOf k r = true) (g : List RNode → List RNode) :
    isNodeOf k (onChildren r g) = true := by
  simp only [isNodeOf, Bool.and_eq_true] at h
  simp [isNodeOf, onChildren, h.2]

/-- `Relation::set_archqual(aq)` -/
theorem C11_refine_setArchqual (f : Field) (i j p q : Nat) (h : Addr f i j p q) (aq : Str) :
    abs (f.relEdit p q (setArchqual · aq)).root
      = S.modRel (abs f.root) i j (fun r => { r with archqual := some aq }) := by
  apply abs_relEdit f i j p q _ _ h.1 h.2
  intro r _ hr
  refine ⟨?_, recOf_setArchqual r aq⟩
  unfold setArchqual; split <;> exact isNodeOf_onChildren hr _

/-- `Relation::set_version(Some((c, v)))`, for a version that is the parse of its own text -/
theorem C11_refine_setVersion (f : Field) (i j p q : Nat) (h : Addr f i j p q) (c : VC) (v : Version)
    (hv : validVersion v = true) :
    abs (f.relEdit p q (setVersion · (some (c, v)))).root
      = S.modRel (abs f.root) i j (fun r => { r with version := .ok (some (c, v)) }) := by
  apply abs_relEdit f i j p q _ _ h.1 h.2
  intro r _ hr
  refine ⟨?_, recOf_setVersion_some r c v (validVersion_parse v hv) (validVersion_display_ne v hv)⟩
  simp only [setVersion]; split <;> exact isNodeOf_onChildren hr _

/-- `Relation::set_version(None)` -/
theorem C11_refine_setVersion_none (f : Field) (hs : Shaped f.kids) (i j p q : Nat) (h : Addr f i j p q) :
    abs (f.relEdit p q (setVersion · none)).root
      = S.modRel (abs f.root) i j (fun r => { r with version := .ok none }) := by
  apply abs_relEdit f i j p q _ _ h.1 h.2
  intro r hat hr
  refine ⟨?_, recOf_setVersion_none r (shaped_at hs hat hr).1⟩
  simp only [setVersion]; split
  · exact isNodeOf_onChildren hr _
  · exact hr

/-- `Relation::drop_constraint()` -/
theorem C11_refine_dropConstraint (f : Field) (hs : Shaped f.kids) (i j p q : Nat) (h : Addr f i j p q) :
    abs (f.relEdit p q (fun r => (dropConstraint r).1)).root
      = S.modRel (abs f.root) i j (fun r => { r with version := .ok none }) := by
  apply abs_relEdit f i j p q _ _ h.1 h.2
  intro r hat hr
  refine ⟨?_, recOf_dropConstraint r (shaped_at hs hat hr).1⟩
  simp only [dropConstraint]; split
  · exact isNodeOf_onChildren hr (fun cs => removeWithWsBefore cs _)
  · exact hr

/-- `Relation::set_architectures(as)` with a non-empty list (`!name` entries included) -/
theorem C11_refine_setArchitectures (f : Field) (i j p q : Nat) (h : Addr f i j p q) (as : List Str)
    (hne : as ≠ []) :
    abs (f.relEdit p q (setArchitectures · as)).root
      = S.modRel (abs f.root) i j (fun r => { r with architectures := some as }) := by
  apply abs_relEdit f i j p q _ _ h.1 h.2
  intro r _ hr
  refine ⟨?_, recOf_setArchitectures r as hne⟩
  have hemp : as.isEmpty = false := by cases as <;> simp at hne ⊢
  simp only [setArchitectures, hemp, Bool.false_eq_true, ↓reduceIte]
  split
  · exact isNodeOf_onChildren hr _
  · split <;> exact isNodeOf_onChildren hr _

/-- `Relation::set_architectures([])`: the list is removed -/
theorem C11_refine_setArchitectures_nil (f : Field) (hs : Shaped f.kids) (i j p q : Nat) (h : Addr f i j p q) :
    abs (f.relEdit p q (setArchitectures · [])).root
      = S.modRel (abs f.root) i j (fun r => { r with architectures := none }) := by
  apply abs_relEdit f i j p q _ _ h.1 h.2
  intro r hat hr
  refine ⟨?_, recOf_setArchitectures_nil r (shaped_at hs hat hr).2⟩
  simp only [setArchitectures, List.isEmpty_nil, ↓reduceIte]; split
  · exact isNodeOf_onChildren hr _
  · exact hr

/-- `Relation::add_profile(g)`: one more restriction list, after the existing ones -/
theorem C11_refine_addProfile (f : Field) (i j p q : Nat) (h : Addr f i j p q) (g : List BuildProfile)
    (hg : ∀ x ∈ g, isIdent (profName x) = true) :
    abs (f.relEdit p q (addProfile · g)).root
      = S.modRel (abs f.root) i j (fun r => { r with profiles := r.profiles ++ [g] }) := by
  apply abs_relEdit f i j p q _ _ h.1 h.2
  intro r _ hr
  refine ⟨?_, recOf_addProfile r g hg⟩
  simp only [addProfile]
  exact isNodeOf_onChildren hr (fun cs => insertAt cs _ _)

/-! ### entries and alternatives: push, insert, replace, remove -/

/-- `Entry::push(rel)` on the `i`-th entry -/
theorem C11_refine_entryPush (f : Field) (i p : Nat) (hp : nthNode .ENTRY f.kids i = some p) (rel : RNode)
    (hr : isNodeOf .RELATION rel = true) :
    abs (f.entryPushAt p rel).root = S.entryPush (abs f.root) i (recOf rel) :=
  abs_entryPushAt f i p rel hp hr

/-- `Relations::push(entry)` -/
theorem C11_refine_push (f : Field) (entry : RNode) (he : isNodeOf .ENTRY entry = true) :
    abs (f.push entry).root = S.push (abs f.root) (relsOf entry) := abs_push f entry he

/-- `Relations::insert(i, entry)`: before the `i`-th entry, or at the end -/
theorem C11_refine_insert (f : Field) (i : Nat) (entry : RNode) (he : isNodeOf .ENTRY entry = true) :
    abs (f.insert i entry).root = S.insert (abs f.root) i (relsOf entry) := abs_insert f i entry he

/-- `Relations::replace(i, entry)`; out of range it panics (`unwrap`) -/
theorem C11_refine_replace (f : Field) (i : Nat) (entry : RNode) (he : isNodeOf .ENTRY entry = true) :
    (∀ f', f.replace i entry = .ok f' → abs f'.root = S.replace (abs f.root) i (relsOf entry))
    ∧ (S.nEntries (abs f.root) ≤ i → f.replace i entry = .panic "Relations::replace: unwrap")
    ∧ (i < S.nEntries (abs f.root) → (f.replace i entry).isOk = true) := by
  refine ⟨fun f' h => abs_replace f f' i entry he h, ?_, ?_⟩
  · intro h
    exact replace_panics f i entry (by rw [← nEntries_abs]; exact h)
  · intro h
    unfold Field.replace
    cases hn : nthNode .ENTRY f.kids i with
    | some p => rfl
    | none =>
      have := nthPos_none hn
      rw [← nEntries_abs] at this
      exact absurd h (Nat.not_lt.2 this)

/-- `Entry::remove()` / `Relations::remove_entry(i)`: the entry leaves the list, the others stay
    (whenever the call returns) -/
theorem C11_refine_removeEntry (f f' : Field) (i : Nat) (h : f.removeEntry i = .ok f') :
    abs f'.root = S.removeEntry (abs f.root) i := abs_removeEntry f f' i h

/-- `Relation::remove()` / `Entry::remove_relation(j)`: the alternative leaves its entry; an entry
    left without alternative leaves the field -/
theorem C11_refine_removeRelation (f f' : Field) (i j : Nat) (h : f.removeRelation i j = .ok f') :
    abs f'.root = S.removeRel (abs f.root) i j := abs_removeRelation f f' i j h

/-- the same through live handles (positions) -/
theorem C11_refine_removeRelationAt (f f' : Field) (i j p q : Nat) (ha : Addr f i j p q)
    (h : f.removeRelationAt p q = .ok f') :
    abs f'.root = S.removeRel (abs f.root) i j := abs_removeRelationAt f f' i j p q ha.1 ha.2 h

/-- `Entry::replace(j, rel)` on the `i`-th entry: that alternative becomes `rel` (whatever
    whitespace `rel` carries at its edges is dropped, the old relation's is kept) -/
theorem C11_refine_entryReplace (f f' : Field) (i j p : Nat)
    (hp : nthNode .ENTRY f.kids i = some p) (rel : RNode) (hr : isNodeOf .RELATION rel = true)
    (h : f.entryReplaceAt p j rel = .ok f') :
    abs f'.root = S.entryReplace (abs f.root) i j (recOf rel) :=
  abs_entryReplaceAt f f' i j p rel hp hr h

/-! ### frame: what an operation leaves byte for byte as it was -/

/-- a relation setter changes the text of that relation only -/
theorem C11_frame_relEdit (f : Field) (p q : Nat) (g : RNode → RNode) (e r : RNode)
    (he : f.kids[p]? = some e) (hr : e.children[q]? = some r) :
    ∃ A B, f.root.text = A ++ r.text ++ B ∧ (f.relEdit p q g).root.text = A ++ (g r).text ++ B :=
  frame_relEdit f p q g e r he hr

/-- `Entry::push` inserts the relation, after ` | ` unless the entry has none yet, and nothing else
    changes -/
theorem C11_frame_entryPush (f : Field) (p : Nat) (rel : RNode) (e : RNode) (he : f.kids[p]? = some e)
    (hn : e.isNode = true) :
    ∃ A B sep, f.root.text = A ++ B ∧ (f.entryPushAt p rel).root.text = A ++ sep ++ rel.text ++ B
      ∧ (sep = [] ∨ sep = " | ".toList ∨ sep = "| ".toList) := by
  have hek : f.entryKids p = e.children := by simp [Field.entryKids, he]
  obtain ⟨A, B, s, hsplit, hk, hs⟩ := frame_entryPushIn e.children rel
  refine ⟨textList (f.kids.take p) ++ textList A, textList B ++ textList (f.kids.drop (p + 1)), textList s, ?_, ?_, hs⟩
  · rw [root_text]
    conv => lhs; rw [textList_split f.kids p e he]
    have : e.text = textList e.children := by
      cases e with
      | tok k t => cases hn
      | node k cs => simp [Node.children]
    rw [Node.textList_append, Node.textList_cons, this, hsplit]; simp
  · unfold Field.entryPushAt
    rw [frame_entryEdit f p _ _ e he, hek, hk]; simp

/-- `Relations::insert` / `push` insert the entry with one separator and nothing else changes -/
theorem C11_frame_insert (f : Field) (i : Nat) (entry : RNode) :
    ∃ A B s1 s2, f.root.text = A ++ B ∧ (f.insert i entry).root.text = A ++ s1 ++ entry.text ++ s2 ++ B
      ∧ ((s1 = [] ∧ s2 = ", ".toList) ∨ (s1 = ", ".toList ∧ s2 = []) ∨ (s1 = " ".toList ∧ s2 = [])
        ∨ (s1 = [] ∧ s2 = [])) := by
  obtain ⟨A, B, s1, s2, hsplit, hk, hs⟩ := frame_relationsInsert f.kids i entry
  refine ⟨textList A, textList B, textList s1, textList s2, by rw [root_text, hsplit]; simp, ?_, hs⟩
  rw [root_text]
  show textList (relationsInsert f.kids i entry).kids = _
  rw [hk]; simp

theorem C11_frame_push (f : Field) (entry : RNode) :
    ∃ A B s1 s2, f.root.text = A ++ B ∧ (f.push entry).root.text = A ++ s1 ++ entry.text ++ s2 ++ B
      ∧ ((s1 = [] ∧ s2 = ", ".toList) ∨ (s1 = ", ".toList ∧ s2 = []) ∨ (s1 = " ".toList ∧ s2 = [])
        ∨ (s1 = [] ∧ s2 = [])) :=
  C11_frame_insert f _ entry

/-- `Relations::replace` swaps the text of the entry and nothing else -/
theorem C11_frame_replace (f f' : Field) (i : Nat) (entry : RNode) (h : f.replace i entry = .ok f') :
    ∃ A old B, f.root.text = A ++ old ++ B ∧ f'.root.text = A ++ entry.text ++ B := by
  obtain ⟨A, old, B, hk, hk', _⟩ := frame_replace f f' i entry h
  exact ⟨textList A, old.text, textList B, by rw [root_text, hk]; simp, by rw [root_text, hk']; simp⟩

/-- `Entry::remove`: the children left are a prefix of those before the entry and a suffix of those
    after it (only separators go with the entry) -/
theorem C11_frame_removeEntry (f f' : Field) (p : Nat) (h : f.removeEntryAt p = .ok f') :
    ∃ A B, f'.kids = A ++ B ∧ A <+: f.kids.take p ∧ B <:+ f.kids.drop (p + 1) := by
  unfold Field.removeEntryAt at h
  cases hc : entryRemove f.kids p with
  | panic s => rw [hc] at h; simp [Outcome.map] at h
  | ok c =>
    rw [hc] at h
    simp only [Outcome.map, Outcome.ok.injEq] at h
    rw [← h]
    exact frame_entryRemove f.kids p c hc

/-! ### reading the printed field again -/

/-- when the edited tree prints the text of a well-formed field with the same items, reading that
    text again reports no error and gives the same list model -/
theorem C11_reread (a : FieldA) (h : a.WF) (allow : Bool) (ha : allow = true ∨ a.hasSubstvar = false)
    (root : RNode) (ht : root.text = a.str) (habs : abs root = itemsA a) :
    (readRelaxed root.text allow).2 = [] ∧ abs (readRelaxed root.text allow).1 = abs root := by
  obtain ⟨e, _, _⟩ := C10_lossless a h allow ha
  rw [ht, e, habs]
  exact ⟨rfl, abs_tree a h⟩


/-! ### the layout of the constructors is kept by every operation

`built rs` is the field `Relations::from(Vec<Entry>)` / `Entry::from(Vec<Relation>)` /
`Relation::from(lossy)` produce for the lossy value `rs` (`, ` and ` | ` as separators, every
relation in the canonical layout `name[:q][ (op v)][ [a b]][ <p q>]…`). Every operation with operands
in that layout maps `built rs` to `built rs'` for the changed value `rs'` — so the field keeps
printing the canonical text and (`C11_reread_built`) reads back, without error, to that value. -/

/-- a built field of a valid value prints the canonical text, and reading that text again gives no
    error, the same list model and exactly the value -/
theorem C11_reread_built (rs : List (List Lossy.Relation)) (hs : ValidRSs rs) (allow : Bool) :
    (built rs).text = Lossy.showRelations rs
    ∧ (readRelaxed (built rs).text allow).2 = []
    ∧ abs (readRelaxed (built rs).text allow).1 = abs (built rs)
    ∧ accEntries (readRelaxed (built rs).text allow).1 = some rs := by
  have h : ValidRs rs := validRs_of_validRSs hs
  have ht := built_text rs hs
  obtain ⟨e, hv, _⟩ := C10_lossless (canon rs) (canon_wf rs h) allow (Or.inr (canon_noSubstvar rs))
  rw [canon_str] at e hv
  rw [ht, e]
  refine ⟨rfl, rfl, ?_, ?_⟩
  · show abs (canon rs).tree = _
    rw [abs_tree _ (canon_wf rs h), itemsA_canon rs h, abs_built rs hs]
  · rw [e] at hv; rw [hv, canon_view rs h]

/-- the relation setters on the `j`-th alternative of the `i`-th entry of a built field -/
theorem C11_built_setters (RA RB : List (List Lossy.Relation)) (EA EB : List Lossy.Relation) (r0 : Lossy.Relation)
    (f : Field) (hf : f.kids = (built (RA ++ (EA ++ r0 :: EB) :: RB)).children) :
    ∃ p q, Addr f RA.length EA.length p q ∧
      (∀ aq, (f.relEdit p q (setArchqual · aq)).root
        = built (RA ++ (EA ++ { r0 with archqual := some aq } :: EB) :: RB))
      ∧ (∀ c v, (f.relEdit p q (setVersion · (some (c, v)))).root
        = built (RA ++ (EA ++ { r0 with version := some (c, v) } :: EB) :: RB))
      ∧ (f.relEdit p q (setVersion · none)).root = built (RA ++ (EA ++ { r0 with version := none } :: EB) :: RB)
      ∧ (f.relEdit p q (fun r => (dropConstraint r).1)).root
        = built (RA ++ (EA ++ { r0 with version := none } :: EB) :: RB)
      ∧ (∀ a as, (f.relEdit p q (setArchitectures · (a :: as))).root
        = built (RA ++ (EA ++ { r0 with architectures := some (a :: as) } :: EB) :: RB))
      ∧ (f.relEdit p q (setArchitectures · [])).root
        = built (RA ++ (EA ++ { r0 with architectures := none } :: EB) :: RB)
      ∧ (∀ g, (f.relEdit p q (addProfile · g)).root
        = built (RA ++ (EA ++ { r0 with profiles := r0.profiles ++ [g] } :: EB) :: RB)) := by
  -- the positions do not depend on the setter
  obtain ⟨p, q, hp, hq, _⟩ := built_relEdit RA RB EA EB r0 r0 id rfl f hf
  have key : ∀ (g : RNode → RNode) (r' : Lossy.Relation), g (toLossless r0) = toLossless r' →
      (f.relEdit p q g).root = built (RA ++ (EA ++ r' :: EB) :: RB) := by
    intro g r' hg
    obtain ⟨p', q', hp', hq', hr⟩ := built_relEdit RA RB EA EB r0 r' g hg f hf
    have e1 : p' = p := Option.some.inj (hp'.symm.trans hp)
    subst e1
    have e2 : q' = q := Option.some.inj (hq'.symm.trans hq)
    subst e2
    exact hr
  exact ⟨p, q, ⟨hp, hq⟩, fun aq => key _ _ (setArchqual_canon r0 aq), fun c v => key _ _ (setVersion_canon r0 c v),
    key _ _ (setVersion_none_canon r0), key _ _ (dropConstraint_canon r0),
    fun a as => key _ _ (setArchitectures_canon r0 a as), key _ _ (setArchitectures_nil_canon r0),
    fun g => key _ _ (addProfile_canon r0 g)⟩

/-- `Relations::push / insert / replace / remove_entry` on a built field -/
theorem C11_built_entries (RA RB : List (List Lossy.Relation)) (E e : List Lossy.Relation)
    (f : Field) (hf : f.kids = (built (RA ++ E :: RB)).children) :
    (f.push (entryFromLossy e)).root = built (RA ++ E :: RB ++ [e])
    ∧ (f.insert RA.length (entryFromLossy e)).root = built (RA ++ e :: E :: RB)
    ∧ (∀ i, (RA ++ E :: RB).length ≤ i → (f.insert i (entryFromLossy e)).root = built (RA ++ E :: RB ++ [e]))
    ∧ (∃ f', f.replace RA.length (entryFromLossy e) = .ok f' ∧ f'.root = built (RA ++ e :: RB))
    ∧ (∃ f', f.removeEntry RA.length = .ok f' ∧ f'.root = built (RA ++ RB)) := by
  refine ⟨?_, built_insert RA RB E e f hf, ?_, built_replace RA RB E e f hf, built_removeEntry RA RB E f hf⟩
  · have := built_push (RA ++ E :: RB) e f hf
    simpa using this
  · intro i hi
    have := built_insert_end (RA ++ E :: RB) e i hi f hf
    simpa using this

/-- pushing onto the empty field -/
theorem C11_built_push_empty (e : List Lossy.Relation) (f : Field) (hf : f.kids = []) :
    (f.push (entryFromLossy e)).root = built [e] := built_push [] e f hf

/-- `Entry::push / replace / remove_relation` on the `i`-th entry of a built field -/
theorem C11_built_alternatives (RA RB : List (List Lossy.Relation)) (EA EB : List Lossy.Relation)
    (r0 r : Lossy.Relation) (f : Field) (hf : f.kids = (built (RA ++ (EA ++ r0 :: EB) :: RB)).children) :
    (∃ p, nthNode .ENTRY f.kids RA.length = some p
      ∧ (f.entryPushAt p (toLossless r)).root = built (RA ++ (EA ++ r0 :: EB ++ [r]) :: RB))
    ∧ (∃ p f', nthNode .ENTRY f.kids RA.length = some p
      ∧ f.entryReplaceAt p EA.length (toLossless r) = .ok f' ∧ f'.root = built (RA ++ (EA ++ r :: EB) :: RB))
    ∧ (∃ f', f.removeRelation RA.length EA.length = .ok f'
      ∧ f'.root = built (if (EA ++ EB).isEmpty then RA ++ RB else RA ++ (EA ++ EB) :: RB)) := by
  refine ⟨?_, built_entryReplace RA RB EA EB r0 r f hf, built_removeRelation RA RB EA EB r0 f hf⟩
  have := built_entryPush RA RB (EA ++ r0 :: EB) r f hf
  simpa using this

/-! ### F-C11-8 (fixed): `Entry::replace` with an operand that carries whitespace -/

/-- `"n ".parse::<Relation>()`: the RELATION node is `IDENT "n", WHITESPACE " "` -/
def wRel : RNode := match Rel.readRelation "n ".toList with | Except.ok r => r | Except.error _ => .node .ERROR []
/-- `"n:any ".parse::<Relation>()` -/
def wRelAq : RNode := match Rel.readRelation "n:any ".toList with | Except.ok r => r | Except.error _ => .node .ERROR []
/-- the field `a | b` -/
def wF : Field := ⟨(readRelaxed "a | b".toList true).1.children, [], []⟩

/-- regression: `a | b` with the first alternative replaced by the parsed `"n "` prints `n | b` (it
    printed `  | b`), with `"n:any "` it prints `n:any | b` (it printed `n  | b`), and the list model
    is the expected one -/
theorem C11_fixed_entryReplace :
    isNodeOf .RELATION wRel = true ∧ nthNode .ENTRY wF.kids 0 = some 0
    ∧ (wF.entryReplaceAt 0 0 wRel).map (fun f' =>
        (f'.root.text, decide (abs f'.root = S.entryReplace (abs wF.root) 0 0 (recOf wRel))))
      = .ok ("n | b".toList, true)
    ∧ (wF.entryReplaceAt 0 0 wRelAq).map (fun f' =>
        (f'.root.text, decide (abs f'.root = S.entryReplace (abs wF.root) 0 0 (recOf wRelAq))))
      = .ok ("n:any | b".toList, true) := by
  decide +kernel

/-! ### the hypotheses can be met -/

/-- `a (>= 1) [x] | b, ${v}, c` -/
def exF : Field := ⟨(readRelaxed "a (>= 1) [x] | b, ${v}, c".toList true).1.children, [], []⟩
def exRel : RNode := toLossless ⟨"n".toList, none, none, none, []⟩
def exEntry : RNode := entryFromLossy [⟨"n".toList, none, none, none, []⟩]

example : Addr exF 0 1 0 4 := by unfold Addr; decide +kernel
example : Addr exF 1 0 6 0 := by unfold Addr; decide +kernel
def exA : FieldA := ⟨[⟨[], .alts ⟨"a".toList, none, some ⟨sp, [], .GreaterThanEqual, sp, ⟨none, "1".toList⟩, []⟩,
    some ⟨sp, [⟨[], false, "x".toList⟩], []⟩, []⟩ [⟨sp, sp, ⟨"b".toList, none, none, none, []⟩⟩], []⟩,
  ⟨sp, .substvar "v".toList [], []⟩, ⟨sp, .alts ⟨"c".toList, none, none, none, []⟩ [], []⟩]⟩
example : Shaped exF.kids := by
  have hs : "a (>= 1) [x] | b, ${v}, c".toList = exA.str := by decide +kernel
  have h : exF.kids = exA.tree.children := by
    simp only [exF, readRelaxed, hs, C10_parse_inverts exA (by decide +kernel) true (Or.inl rfl)]
  rw [h]; exact tree_shaped _
example : exA.WF := by decide +kernel
example : abs exF.root = [.alts [⟨some "a".toList, none, .ok (some (.GreaterThanEqual, ⟨none, "1".toList, none⟩)),
      some ["x".toList], []⟩, ⟨some "b".toList, none, .ok none, none, []⟩],
    .subst "${v}".toList, .alts [⟨some "c".toList, none, .ok none, none, []⟩]] := by decide +kernel
example : validVersion ⟨some 1, "2.0".toList, some "3".toList⟩ = true := by decide +kernel
example : ∀ x ∈ [BuildProfile.Enabled "nocheck".toList, .Disabled "cross".toList], isIdent (profName x) = true := by
  decide +kernel
example : isNodeOf .RELATION exRel = true ∧ trimmed exRel := by
  refine ⟨by decide +kernel, ?_, ?_⟩ <;> decide +kernel
example : isNodeOf .ENTRY exEntry = true := by decide +kernel
example : (exF.replace 1 exEntry).isOk = true ∧ (exF.removeEntry 0).isOk = true
    ∧ (exF.removeRelation 0 0).isOk = true ∧ (exF.removeRelationAt 0 4).isOk = true
    ∧ (exF.entryReplaceAt 0 1 exRel).isOk = true ∧ (exF.removeEntryAt 0).isOk = true := by decide +kernel
example : exF.kids[0]?.map Node.isNode = some true := by decide +kernel
/-- the operations on the example, printed -/
example : (exF.relEdit 0 4 (setVersion · (some (.LessThan, ⟨none, "2".toList, none⟩)))).root.text
      = "a (>= 1) [x] | b (<< 2), ${v}, c".toList
    ∧ (exF.push exEntry).root.text = "a (>= 1) [x] | b, ${v}, c, n".toList
    ∧ (exF.insert 1 exEntry).root.text = "a (>= 1) [x] | b, ${v}, n, c".toList
    ∧ (exF.entryPushAt 6 exRel).root.text = "a (>= 1) [x] | b, ${v}, c | n".toList
    ∧ (exF.removeRelationAt 6 0).map (·.root.text) = .ok "a (>= 1) [x] | b, ${v}".toList := by decide +kernel
/-- `C11_reread` applies, e.g. to the canonical layout -/
example : ∃ a : FieldA, a.WF ∧ a.hasSubstvar = false ∧ a.tree.text = a.str ∧ abs a.tree = itemsA a :=
  ⟨canon [[⟨"a".toList, none, none, none, []⟩]], by decide +kernel, by decide +kernel, by decide +kernel,
    abs_tree _ (by decide +kernel)⟩


/-- the built-layout theorems apply, e.g. to `a (>= 1) | b:any, c` -/
def exRs : List (List Lossy.Relation) :=
  [[⟨"a".toList, none, none, some (.GreaterThanEqual, ⟨none, "1".toList, none⟩), []⟩,
    ⟨"b".toList, some "any".toList, none, none, []⟩], [⟨"c".toList, none, none, none, []⟩]]
example : ValidRSs exRs := by decide +kernel
example : ∃ f : Field, f.kids = (built exRs).children := ⟨⟨_, [], []⟩, rfl⟩
example : (built exRs).text = "a (>= 1) | b:any, c".toList := by decide +kernel

end Deb822Verif.Props.C11
