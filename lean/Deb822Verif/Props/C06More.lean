import Deb822Verif.Props.C06
import Deb822Verif.Lemmas.DebTokAgreeMoreConv
import Deb822Verif.Lemmas.DebTokAgreeMoreNorm
/-!
# C06, continued — acceptance containment, normal form of the values, paragraph readers

`Props/C06.lean` proves `C06_agree`: on every text the lossy reader accepts AND the lossless reader
parses without error, the two contents agree up to blank value lines. Here:

1. **Acceptance.** The lossy reader accepts strictly less: `C06_lossy_imp_strict` (whatever
   `lossy::Deb822::from_str` accepts, `lossless::Deb822::from_str` accepts), so the second hypothesis
   of `C06_agree` is redundant (`C06_agree_lossy_only`); and the exact difference
   (`C06_accept_iff`, `C06_accept_iff_colon`): the lossy reader accepts a text iff the lossless
   reader does and no WHITESPACE token directly follows a KEY token — equivalently
   (`C06_blank_forms`) no WHITESPACE token stands between a KEY and its COLON (`Name : value`;
   `skip_ws` after the key exists only in the lossless parser). Empty documents, blank lines / comments before, between and after
   the paragraphs, a missing final newline make no difference.
2. **Normal form.** `C06_normal`: the lossless value of every field is exactly the lossy value
   with its empty lines removed; `C06_same_iff`: the two contents are EQUAL iff no lossy value has
   an empty line.
3. **Paragraph readers.** `C06_para`, and the exact behaviour of the two `Paragraph::from_str`
   (`C06_para_none`, `C06_para_first`, `C06_para_reject`): the lossy one demands exactly one
   paragraph, the lossless one returns the first of any number.

Proofs: `Lemmas/DebTokAgreeMore{Lex,Acc,Conv,Norm}.lean` (two more lexer invariants for arbitrary
texts; lock-step simulations of the two loops in both directions).
-/
namespace Deb822Verif.Props.C06
open Deb822Verif Deb

/-! ### 1. acceptance -/

/-- **containment**: every text the lossy reader accepts the lossless reader parses without error -/
theorem C06_lossy_imp_strict (s : Str) (d : Lossy.Doc) (h : Lossy.read s = .ok d) :
    (parse s).errors = [] :=
  acc_tok (lex s) d (lex_lx s) (lex_lx2 s) h

/-- the same with `Deb822::from_str` -/
theorem C06_lossy_imp_readStrict (s : Str) (d : Lossy.Doc) (h : Lossy.read s = .ok d) :
    readStrict s = .ok (parse s).tree := by
  simp [readStrict, C06_lossy_imp_strict s d h]

/-- `C06_agree` without its second hypothesis -/
theorem C06_agree_lossy_only (s : Str) (d : Lossy.Doc) (hL : Lossy.read s = .ok d) :
    contentRel d (docItems (parse s).tree) :=
  C06_agree s d hL (C06_lossy_imp_strict s d hL)

/-- the token-level condition: a WHITESPACE token directly after a KEY token, i.e. blanks between
    a field name and its colon (when the lossless parser reports no error, the token after these
    blanks is the field's COLON: `parse_entry` skips blanks after the KEY and then demands COLON) -/
def blankAfterKey (s : Str) : Bool := keyWs (lex s)

/-- **the exact relation between the two acceptance sets**: the lossy reader accepts a text iff
    the lossless reader parses it without error and no field name is followed by a blank -/
theorem C06_accept_iff (s : Str) :
    (∃ d, Lossy.read s = .ok d) ↔ ((parse s).errors = [] ∧ blankAfterKey s = false) := by
  constructor
  · rintro ⟨d, h⟩
    exact ⟨C06_lossy_imp_strict s d h, noKeyWs_tok (lex s) d (lex_lx2 s) h⟩
  · rintro ⟨h1, h2⟩
    exact conv_tok (lex s) (lex_lx s) (lex_ls s) h2 h1

/-- the condition in the form "a WHITESPACE token directly between a KEY and its COLON" -/
def blankBeforeColon (s : Str) : Bool := keyWsColon (lex s)

/-- the same characterisation with `KEY WHITESPACE COLON` triples instead of `KEY WHITESPACE` pairs -/
theorem C06_accept_iff_colon (s : Str) :
    (∃ d, Lossy.read s = .ok d) ↔ ((parse s).errors = [] ∧ blankBeforeColon s = false) := by
  constructor
  · intro h
    obtain ⟨h1, h2⟩ := (C06_accept_iff s).1 h
    refine ⟨h1, ?_⟩
    cases hb : blankBeforeColon s with
    | false => rfl
    | true =>
      have := keyWs_of_keyWsColon (lex s) hb
      simp only [blankAfterKey] at h2
      rw [h2] at this; cases this
  · rintro ⟨h1, h2⟩
    exact conv_tok_colon (lex s) (lex_lx s) (lex_ls s) (lex_lx2 s) h2 h1

/-- when the lossless reader reports no error the two forms of the condition coincide: the token
    after the blanks that follow a field name is the colon -/
theorem C06_blank_forms (s : Str) (h : (parse s).errors = []) : blankAfterKey s = blankBeforeColon s := by
  cases ha : blankAfterKey s with
  | false =>
    exact (((C06_accept_iff_colon s).1 ((C06_accept_iff s).2 ⟨h, ha⟩)).2).symm
  | true =>
    cases hb : blankBeforeColon s with
    | true => rfl
    | false =>
      have := ((C06_accept_iff s).1 ((C06_accept_iff_colon s).2 ⟨h, hb⟩)).2
      rw [this] at ha; cases ha

/-- the texts only the lossless reader accepts -/
theorem C06_strict_only_iff (s : Str) :
    ((parse s).errors = [] ∧ ∃ e, Lossy.read s = .error e) ↔
      ((parse s).errors = [] ∧ blankAfterKey s = true) := by
  constructor
  · rintro ⟨h1, e, he⟩
    refine ⟨h1, ?_⟩
    cases hb : blankAfterKey s with
    | true => rfl
    | false =>
      obtain ⟨d, hd⟩ := (C06_accept_iff s).2 ⟨h1, hb⟩
      rw [hd] at he; cases he
  · rintro ⟨h1, h2⟩
    refine ⟨h1, ?_⟩
    cases hr : Lossy.read s with
    | error e => exact ⟨e, rfl⟩
    | ok d =>
      have := ((C06_accept_iff s).1 ⟨d, hr⟩).2
      rw [this] at h2; cases h2

/-- the containment is strict: `A : b` is accepted by the lossless reader only -/
theorem C06_strict_accepts_more :
    (parse "A : b\n".toList).errors = [] ∧ blankAfterKey "A : b\n".toList = true ∧
      blankBeforeColon "A : b\n".toList = true ∧
      Lossy.read "A : b\n".toList = .error .UnexpectedToken := by
  decide +kernel

/-! non-vacuity: `exOdd` (Props/C06.lean; CR line ends, comments, blank-only continuation lines, no
    final newline) and the grammar document of Props/C03 are accepted by the lossy reader; both
    sides of `C06_accept_iff` hold on `exOdd`; the empty text and a comment-only text are accepted
    by both readers (with no paragraph) -/
example : ∃ d, Lossy.read exOdd = .ok d :=
  ⟨[[("A".toList, "b\n\n\nd ".toList), ("B".toList, "\n".toList)], [("C".toList, "e:f\ng".toList)]],
    by decide +kernel⟩
example : (parse exOdd).errors = [] ∧ blankAfterKey exOdd = false ∧ blankBeforeColon exOdd = false := by
  decide +kernel
/-- without `(parse s).errors = []` the two forms differ: a blank after the name, no colon -/
example : blankAfterKey "A b\n".toList = true ∧ blankBeforeColon "A b\n".toList = false ∧
    (parse "A b\n".toList).errors ≠ [] := by decide +kernel
example : ∃ d, Lossy.read Props.C03.exDoc.str = .ok d := ⟨_, (C06_joint_accept _ (by decide)).1⟩
example : Lossy.read [] = .ok [] ∧ (parse []).errors = [] ∧ blankAfterKey [] = false := by
  decide +kernel
example : Lossy.read "# c\n\n".toList = .ok [] ∧ (parse "# c\n\n".toList).errors = [] := by
  decide +kernel
/-- both sides of `C06_accept_iff` fail together: an indented first line, a field without colon -/
example : (∃ e, Lossy.read " A:b\n".toList = .error e) ∧ (parse " A:b\n".toList).errors ≠ [] := by
  refine ⟨⟨.UnexpectedToken, by decide +kernel⟩, by decide +kernel⟩
example : (∃ e, Lossy.read "A\n".toList = .error e) ∧ (parse "A\n".toList).errors ≠ [] := by
  refine ⟨⟨.UnexpectedToken, by decide +kernel⟩, by decide +kernel⟩
example : (∃ e, Lossy.read "A".toList = .error e) ∧ (parse "A".toList).errors ≠ [] := by
  refine ⟨⟨.UnexpectedEof, by decide +kernel⟩, by decide +kernel⟩

/-! ### 2. normal form -/

/-- a field with the empty lines of its value removed -/
def dropBlank (f : Str × Str) : Str × Str := (f.1, Text.join ['\n'] (nb f.2))

theorem dropBlank_eq_normField : dropBlank = normField := rfl

/-- **normal form**: the lossless content is exactly the lossy content with the empty lines of
    every value removed (the lossless `value()` joins the VALUE tokens of the entry, which are
    non-empty, with "\n"; the lossy reader also keeps the line structure of token-less lines) -/
theorem C06_normal_lossy_only (s : Str) (d : Lossy.Doc) (hL : Lossy.read s = .ok d) :
    docItems (parse s).tree = d.map (·.map dropBlank) := by
  have hrel := C06_agree_lossy_only s d hL
  have hfix := docItems_fix (lex s) (fun x hx => lex_value_tok s x hx)
  exact normal_of_rel d _ hrel hfix

/-- the statement with both readers' results -/
theorem C06_normal (s : Str) (d : Lossy.Doc) (t : DNode) (hL : Lossy.read s = .ok d)
    (hS : readStrict s = .ok t) :
    docItems t = d.map (·.map fun f => (f.1, Text.join ['\n'] (nb f.2))) := by
  rw [C06_lossy_imp_readStrict s d hL] at hS
  simp at hS
  subst hS
  exact C06_normal_lossy_only s d hL

/-- no empty line in a value (the empty value counts as having none) -/
def NoBlankLine (v : Str) : Prop := v = [] ∨ [] ∉ Text.splitOn '\n' v

instance (v : Str) : Decidable (NoBlankLine v) := by unfold NoBlankLine; exact inferInstance

theorem dropBlank_id (f : Str × Str) (h : NoBlankLine f.2) : dropBlank f = f := by
  have := join_nbLines_noBlank f.2 h
  simp only [dropBlank]
  change (f.1, Text.join ['\n'] (nbLines f.2)) = f
  rw [this]

/-- corollary: when no lossy value has an empty line, the two contents are equal -/
theorem C06_normal_noBlank (s : Str) (d : Lossy.Doc) (t : DNode) (hL : Lossy.read s = .ok d)
    (hS : readStrict s = .ok t) (h : ∀ p ∈ d, ∀ f ∈ p, NoBlankLine f.2) : docItems t = d := by
  rw [C06_normal s d t hL hS]
  conv => rhs; rw [← List.map_id d]
  apply List.map_congr_left
  intro p hp
  conv => rhs; rw [id, ← List.map_id p]
  apply List.map_congr_left
  intro f hf
  exact dropBlank_id f (h p hp f hf)

/-- … and only then -/
theorem C06_same_iff (s : Str) (d : Lossy.Doc) (t : DNode) (hL : Lossy.read s = .ok d)
    (hS : readStrict s = .ok t) : docItems t = d ↔ ∀ p ∈ d, ∀ f ∈ p, NoBlankLine f.2 := by
  constructor
  · intro he p hp f hf
    have ht : t = (parse s).tree := by
      rw [C06_lossy_imp_readStrict s d hL] at hS
      simp at hS
      exact hS.symm
    have hg := docItems_values_good (parse s).tree (by
      intro x hx
      have : (parse s).tree.leaves = lex s := parseTokens_leaves (lex s)
      rw [this] at hx
      exact lex_value_tok s x hx)
    rw [← ht, he] at hg
    obtain ⟨ls, hgood, hfl⟩ := hg p hp f hf
    cases ls with
    | nil => left; rw [hfl]; rfl
    | cons a ls =>
      right
      rw [hfl, splitOn_join _ (by simp) (fun l hl => (hgood l hl).2)]
      intro hm
      exact (hgood [] hm).1 rfl
  · exact C06_normal_noBlank s d t hL hS

/-! non-vacuity: on `exOdd` the normal form changes `"b\n\n\nd "` to `"b\nd "` and `"\n"` to `""`;
    on `"A: b\n c\nB:\n"` nothing changes -/
example : docItems (parse exOdd).tree =
    ([[("A".toList, "b\n\n\nd ".toList), ("B".toList, "\n".toList)], [("C".toList, "e:f\ng".toList)]] :
      Lossy.Doc).map (·.map dropBlank) :=
  C06_normal_lossy_only exOdd _ (by decide +kernel)
example : ([[("A".toList, "b\n\n\nd ".toList), ("B".toList, "\n".toList)],
    [("C".toList, "e:f\ng".toList)]] : Lossy.Doc).map (·.map dropBlank)
    = [[("A".toList, "b\nd ".toList), ("B".toList, [])], [("C".toList, "e:f\ng".toList)]] := by
  decide +kernel
example : Lossy.read "A: b\n c\nB:\n".toList = .ok [[("A".toList, "b\nc".toList), ("B".toList, [])]] ∧
    readStrict "A: b\n c\nB:\n".toList = .ok (parse "A: b\n c\nB:\n".toList).tree ∧
    ∀ p ∈ ([[("A".toList, "b\nc".toList), ("B".toList, [])]] : Lossy.Doc), ∀ f ∈ p, NoBlankLine f.2 := by
  have h : Lossy.read "A: b\n c\nB:\n".toList = .ok [[("A".toList, "b\nc".toList), ("B".toList, [])]] := by
    decide +kernel
  exact ⟨h, C06_lossy_imp_readStrict _ _ h, by decide +kernel⟩

/-! ### 3. the paragraph readers -/

theorem readPara_ok_iff (s : Str) (p : Lossy.Para) : Lossy.readPara s = .ok p ↔ Lossy.read s = .ok [p] := by
  unfold Lossy.readPara
  constructor
  · intro h
    split at h
    · simp at h
    · simp at h
    · rename_i q hq; simp at h; rw [hq, h]
    · simp at h
  · intro h
    rw [h]

theorem paragraphFromStr_ok_iff (s : Str) (q : DNode) :
    paragraphFromStr s = .ok q ↔ ∃ t r, readStrict s = .ok t ∧ paragraphs t = q :: r := by
  unfold paragraphFromStr
  constructor
  · intro h
    split at h
    · simp at h
    · rename_i t ht
      split at h
      · simp at h
      · rename_i q' r hq
        simp at h
        subst h
        exact ⟨t, r, ht, hq⟩
  · rintro ⟨t, r, ht, hq⟩
    rw [ht]
    simp only [hq]

/-- **paragraph readers**: when both `Paragraph::from_str` accept a text, they report the same
    field names in the same order and the same non-blank value lines -/
theorem C06_para (s : Str) (p : Lossy.Para) (q : DNode) (hL : Lossy.readPara s = .ok p)
    (hS : paragraphFromStr s = .ok q) : p.map nbField = (items q).map nbField := by
  rw [readPara_ok_iff] at hL
  obtain ⟨t, r, ht, hq⟩ := (paragraphFromStr_ok_iff s q).1 hS
  have h := C06_agree_strict s [p] t hL ht
  simp only [contentRel, docItems, hq, List.map_cons, List.map_nil, List.cons.injEq] at h
  exact h.1

/-- the same as a normal form -/
theorem C06_para_normal (s : Str) (p : Lossy.Para) (q : DNode) (hL : Lossy.readPara s = .ok p)
    (hS : paragraphFromStr s = .ok q) : items q = p.map dropBlank := by
  rw [readPara_ok_iff] at hL
  obtain ⟨t, r, ht, hq⟩ := (paragraphFromStr_ok_iff s q).1 hS
  have h := C06_normal s [p] t hL ht
  simp only [docItems, hq, List.map_cons, List.map_nil, List.cons.injEq] at h
  exact h.1

/-- exact behaviour, no paragraph (empty text, only blank lines and comments): both paragraph
    readers reject -/
theorem C06_para_none (s : Str) (h : Lossy.read s = .ok []) :
    Lossy.readPara s = .error .UnexpectedEof ∧ paragraphFromStr s = .error ["no paragraphs"] := by
  constructor
  · simp [Lossy.readPara, h]
  · have h1 := C06_lossy_imp_readStrict s [] h
    have h2 := C06_normal_lossy_only s [] h
    simp only [docItems, List.map_nil, List.map_eq_nil_iff] at h2
    simp [paragraphFromStr, h1, h2]

/-- exact behaviour, at least one paragraph: the lossless reader returns the FIRST paragraph (its
    content is the first lossy paragraph in normal form); the lossy reader returns it only when it
    is the only one and rejects the text otherwise -/
theorem C06_para_first (s : Str) (p : Lossy.Para) (rest : Lossy.Doc) (h : Lossy.read s = .ok (p :: rest)) :
    (∃ q, paragraphFromStr s = .ok q ∧ items q = p.map dropBlank) ∧
    (rest = [] → Lossy.readPara s = .ok p) ∧
    (rest ≠ [] → Lossy.readPara s = .error .ExpectedEof) := by
  refine ⟨?_, ?_, ?_⟩
  · have h1 := C06_lossy_imp_readStrict s _ h
    have h2 := C06_normal_lossy_only s _ h
    simp only [docItems, List.map_cons] at h2
    cases hp : paragraphs (parse s).tree with
    | nil => rw [hp] at h2; simp at h2
    | cons q r =>
      rw [hp] at h2
      simp only [List.map_cons, List.cons.injEq] at h2
      exact ⟨q, (paragraphFromStr_ok_iff s q).2 ⟨_, r, h1, hp⟩, h2.1⟩
  · rintro rfl; exact (readPara_ok_iff s p).2 h
  · intro hne
    cases rest with
    | nil => exact absurd rfl hne
    | cons p2 r => simp [Lossy.readPara, h]

/-- exact behaviour, text rejected by the lossy document reader: the lossy paragraph reader reports
    `ExpectedEof` whatever the error was (the lossless one may still accept: `C06_para_asym_blank`) -/
theorem C06_para_reject (s : Str) (e : Lossy.Err) (h : Lossy.read s = .error e) :
    Lossy.readPara s = .error .ExpectedEof := by
  simp [Lossy.readPara, h]

/-- whatever the lossy paragraph reader accepts the lossless paragraph reader accepts -/
theorem C06_para_lossy_imp_strict (s : Str) (p : Lossy.Para) (hL : Lossy.readPara s = .ok p) :
    ∃ q, paragraphFromStr s = .ok q ∧ items q = p.map dropBlank :=
  (C06_para_first s p [] ((readPara_ok_iff s p).1 hL)).1

/-- the asymmetry, two paragraphs: the lossy reader rejects, the lossless reader returns the first -/
theorem C06_para_asym_two :
    Lossy.readPara "A:b\n\nC:d\n".toList = .error .ExpectedEof ∧
    ∃ q, paragraphFromStr "A:b\n\nC:d\n".toList = .ok q ∧ items q = [("A".toList, "b".toList)] := by
  have h : Lossy.read "A:b\n\nC:d\n".toList
      = .ok [[("A".toList, "b".toList)], [("C".toList, "d".toList)]] := by decide +kernel
  obtain ⟨⟨q, hq, hi⟩, _, h3⟩ := C06_para_first _ _ _ h
  refine ⟨h3 (by simp), q, hq, ?_⟩
  rw [hi]; decide +kernel

/-- the asymmetry, a blank after the field name: only the lossless paragraph reader accepts -/
theorem C06_para_asym_blank :
    Lossy.readPara "A : b\n".toList = .error .ExpectedEof ∧
    ∃ q, paragraphFromStr "A : b\n".toList = .ok q ∧ items q = [("A".toList, "b".toList)] := by
  refine ⟨by decide +kernel, ?_⟩
  cases h : paragraphFromStr "A : b\n".toList with
  | error e =>
    have : (paragraphFromStr "A : b\n".toList).toBool = true := by decide +kernel
    rw [h] at this; cases this
  | ok q =>
    refine ⟨q, rfl, ?_⟩
    have : (match paragraphFromStr "A : b\n".toList with
      | .ok q => items q == [("A".toList, "b".toList)] | .error _ => false) = true := by decide +kernel
    rw [h] at this
    simpa using this

/-- non-vacuity of `C06_para` / `C06_para_normal`: the first paragraph of `exOdd` (CR line ends,
    comment and blank-only continuation lines) is accepted by both paragraph readers -/
def exOddPara : Str := "#lead\r\nA:b\r #c\n \n\td \n#x\nB:\n  # only comment\n".toList

example : Lossy.readPara exOddPara = .ok [("A".toList, "b\n\n\nd ".toList), ("B".toList, "\n".toList)] := by
  decide +kernel
example : ∃ q, paragraphFromStr exOddPara = .ok q ∧
    items q = [("A".toList, "b\nd ".toList), ("B".toList, [])] := by
  obtain ⟨q, hq, hi⟩ := C06_para_lossy_imp_strict exOddPara _
    (by decide +kernel : Lossy.readPara exOddPara
      = .ok [("A".toList, "b\n\n\nd ".toList), ("B".toList, "\n".toList)])
  exact ⟨q, hq, by rw [hi]; decide +kernel⟩
/-- `C06_para_none` / `C06_para_first` / `C06_para_reject`: the hypotheses are met -/
example : Lossy.read "# c\n\n".toList = .ok [] := by decide +kernel
example : ∃ p rest, Lossy.read exOdd = .ok (p :: rest) ∧ rest ≠ [] :=
  ⟨[("A".toList, "b\n\n\nd ".toList), ("B".toList, "\n".toList)], [[("C".toList, "e:f\ng".toList)]],
    by decide +kernel, by simp⟩
example : Lossy.read "A : b\n".toList = .error .UnexpectedToken := by decide +kernel

end Deb822Verif.Props.C06
