import Deb822Verif.Props.C15
import Deb822Verif.Props.C04Tokens
/-!
# C15 (tokens) — `Control::add_source` / `add_binary` on ANY document

  `C15_add_para` (Props/C15.lean) carries the hypothesis `AllNodes kids`; with the repaired
  `insert_empty_paragraph` (F-C05-3) and `C04_history_oracle_any` it is not needed: the statement
  holds for every root child list, bare tokens included (e.g. the live result of `wrap_and_sort`).
-/
namespace Deb822Verif.Props.C15Tokens
open Deb822Verif Deb Node Text Typed
open Deb822Verif.Props.C04 Deb822Verif.Props.C15 Deb822Verif.Props.C04Tokens

/-- `Control::add_source(name)` / `add_binary(name)` on ANY document: the paragraphs afterwards are
    the paragraphs before — each reading the same fields — followed by ONE new paragraph reading
    exactly `[(Source|Package, name)]` -/
theorem C15_add_para_any (kids : List DNode) (k v : Str) :
    docItems (addPara (startOf kids) k v).root = docItems (.node .ROOT kids) ++ [[(k, v)]] := by
  rw [addPara_run]
  have H := (C04_history_oracle_any kids [.addp, .set (startOf kids).handles.length k v]).2.1
  rw [H]
  have hlen : (startOf kids).handles.length = (kids.filter isParaNode).length := by
    simp [startOf, paraPositions_slots, slots_length]
  rw [hlen]
  have hdoc : docItems (.node .ROOT kids) = (kids.filter isParaNode).map items := by
    simp only [docItems, paragraphs, Node.children]
    rfl
  rw [hdoc]
  simp only [mrun, List.foldl_cons, List.foldl_nil, mstep, LModel.init, LModel.addp, LModel.edit]
  generalize kids.filter isParaNode = P
  have h1 : (P.map (fun n => some (items n)) ++ [some []])[P.length]? = some (some ([] : Deb.Items)) := by
    rw [List.getElem?_append_right (by simp)]
    simp
  simp only [h1, List.length_map, ListSpec.set, List.map_append, List.map_cons, List.map_nil]
  congr 1
  · apply List.ext_getElem
    · simp
    · intro i hi1 hi2
      have hi : i < P.length := by simpa using hi1
      have hne : P.length ≠ i := by omega
      simp [List.getElem?_append_left, hi]
  · simp

/-- the node-only statement is the special case -/
theorem C15_add_para_of_any (kids : List DNode) (_hn : AllNodes kids) (k v : Str) :
    docItems (addPara (startOf kids) k v).root = docItems (.node .ROOT kids) ++ [[(k, v)]] :=
  C15_add_para_any kids k v

end Deb822Verif.Props.C15Tokens
