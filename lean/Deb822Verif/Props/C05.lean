import Deb822Verif.Model.DebEdit
import Deb822Verif.Props.C04
/-!
# C05 — adding, inserting and removing paragraphs behaves like list operations
-/
namespace Deb822Verif.Props.C05
open Deb822Verif Deb Node Props.C04

/-- the document as a list of paragraphs, each a list of (name, value) -/
def ditems (kids : List DNode) : List (List (Str × Str)) := docItems (.node .ROOT kids)

theorem ditems_eq (kids : List DNode) : ditems kids = (kids.filter isParaNode).map items := rfl

theorem filter_append_para (a b : List DNode) :
    (a ++ b).filter isParaNode = a.filter isParaNode ++ b.filter isParaNode := List.filter_append ..

theorem emptyLine_not_para : isParaNode emptyLine = false := by
  simp [isParaNode, emptyLine, Node.isNode, Node.kind]

theorem newPara_is_para : isParaNode (.node .PARAGRAPH []) = true := by
  simp [isParaNode, Node.isNode, Node.kind]

theorem items_newPara : items (.node .PARAGRAPH []) = [] := by
  simp [items, entries, Node.children]

/-! ### `convert_index` finds the child slot of the i-th paragraph -/

theorem convertIndexAux_some (kids : List DNode) : ∀ (i off p : Nat),
    convertIndexAux kids i off = some p →
    ∃ q, p = off + q ∧ q < kids.length ∧ ((kids.take q).filter isParaNode).length = i
      ∧ ∃ c, kids[q]? = some c ∧ isParaNode c = true := by
  induction kids with
  | nil => intro i off p h; simp [convertIndexAux] at h
  | cons c cs ih =>
    intro i off p h
    simp only [convertIndexAux] at h
    split at h
    · rename_i hc
      split at h
      · rename_i hi
        simp at h; subst hi
        exact ⟨0, by omega, by simp, by simp, c, by simp, hc⟩
      · rename_i hi
        obtain ⟨q, hp, hq, hl, c', hc1, hc2⟩ := ih (i - 1) (off + 1) p h
        refine ⟨q + 1, by omega, by simp; omega, ?_, c', by simpa using hc1, hc2⟩
        simp only [List.take_succ_cons, List.filter_cons, hc, ↓reduceIte, List.length_cons, hl]
        omega
    · rename_i hc
      obtain ⟨q, hp, hq, hl, c', hc1, hc2⟩ := ih i (off + 1) p h
      refine ⟨q + 1, by omega, by simp; omega, ?_, c', by simpa using hc1, hc2⟩
      have : isParaNode c = false := by simpa using hc
      simp [List.filter_cons, this, hl]

theorem convertIndexAux_none (kids : List DNode) : ∀ (i off : Nat),
    convertIndexAux kids i off = none → (kids.filter isParaNode).length ≤ i := by
  induction kids with
  | nil => intro i off _; simp
  | cons c cs ih =>
    intro i off h
    simp only [convertIndexAux] at h
    split at h
    · rename_i hc
      split at h
      · simp at h
      · rename_i hi
        have := ih (i - 1) (off + 1) h
        simp only [List.filter_cons, hc, ↓reduceIte, List.length_cons]; omega
    · rename_i hc
      have : isParaNode c = false := by simpa using hc
      simpa [List.filter_cons, this] using ih i (off + 1) h

theorem take_drop_at (l : List DNode) (q : Nat) (c : DNode) (h : l[q]? = some c) :
    l = l.take q ++ c :: l.drop (q + 1) := by
  induction l generalizing q with
  | nil => simp at h
  | cons x xs ih =>
    cases q with
    | zero => simp at h; simp [h]
    | succ q => simp at h; simp; exact ih q h

theorem insertIdx_at_length_append {α} (a b : List α) (x : α) :
    (a ++ b).insertIdx a.length x = a ++ x :: b := by
  induction a with
  | nil => simp [List.insertIdx]
  | cons y ys ih => simp [List.insertIdx_succ_cons, ih]

/-! ### refinement -/

/-- removing paragraph `i` erases the i-th element of the paragraph list (removal beyond the end
    does nothing); every other paragraph keeps its content -/
theorem C05_refine_remove (d : Doc) (i : Nat) :
    ditems (removeParagraph d i).kids = (ditems d.kids).eraseIdx i := by
  unfold removeParagraph convertIndex
  cases h : convertIndexAux d.kids i 0 with
  | none =>
    have := convertIndexAux_none _ _ _ h
    simp only [ditems_eq]
    rw [List.eraseIdx_of_length_le (by simpa using this)]
  | some p =>
    obtain ⟨q, hp, hq, hl, c, hc1, hc2⟩ := convertIndexAux_some _ _ _ _ h
    simp only [Nat.zero_add] at hp; subst p
    have hsplit := take_drop_at d.kids q c hc1
    have herase : d.kids.eraseIdx q = d.kids.take q ++ d.kids.drop (q + 1) := by
      rw [List.eraseIdx_eq_take_drop_succ]
    have hmain : ditems (d.kids.eraseIdx q) = (ditems d.kids).eraseIdx i := by
      simp only [ditems_eq]
      rw [herase]
      conv => rhs; rw [hsplit]
      simp only [List.filter_append, List.filter_cons, hc2, ↓reduceIte, List.map_append, List.map_cons]
      have hlen : (List.map items (List.filter isParaNode (List.take q d.kids))).length = i := by
        simp [hl]
      rw [List.eraseIdx_append_of_length_le (by omega)]
      simp [hlen]
    -- the optional removal of one following EMPTY_LINE does not touch the paragraphs
    simp only
    split
    · rename_i n hn
      split
      · rename_i hk
        have hnp : isParaNode n = false := by
          simp only [Bool.and_eq_true, beq_iff_eq] at hk
          simp [isParaNode, hk.1, hk.2]
        have h2 := take_drop_at _ q n hn
        have : ditems ((d.kids.eraseIdx q).eraseIdx q) = ditems (d.kids.eraseIdx q) := by
          simp only [ditems_eq]
          conv => rhs; rw [h2]
          rw [List.eraseIdx_eq_take_drop_succ]
          simp [List.filter_append, List.filter_cons, hnp]
        simp only [this, hmain]
      · exact hmain
    · exact hmain

/-- inserting at position `i` inserts an empty paragraph at `min i length` (insertion beyond the
    end appends) — here for positions that exist -/
theorem C05_refine_insert_at (d : Doc) (i p : Nat) (h : convertIndex d.kids i = some p) :
    ditems (insertParagraph d i).kids = (ditems d.kids).insertIdx i [] := by
  unfold insertParagraph insertEmptyParagraph
  simp only [h]
  unfold convertIndex at h
  obtain ⟨q, hp, hq, hl, c, hc1, hc2⟩ := convertIndexAux_some _ _ _ _ h
  simp only [Nat.zero_add] at hp; subst hp
  simp only [ditems_eq, insertAt]
  have hsep : ∀ sep : List DNode, (sep = [emptyLine] ∨ sep = []) → sep.filter isParaNode = [] := by
    intro sep hs; rcases hs with rfl | rfl <;> simp [emptyLine_not_para]
  have hs := hsep (if (d.kids.filter Node.isNode).length > 0 then [emptyLine] else [])
    (by split <;> simp)
  simp only [List.filter_append, List.filter_cons, newPara_is_para, ↓reduceIte, hs, List.map_append,
    List.map_cons, items_newPara, List.append_nil, List.nil_append]
  have hk : d.kids = d.kids.take p ++ d.kids.drop p := (List.take_append_drop p d.kids).symm
  conv => rhs; rw [hk]
  simp only [List.filter_append, List.map_append]
  have hlen : (List.map items (List.filter isParaNode (List.take p d.kids))).length = i := by simp [hl]
  rw [← hlen, insertIdx_at_length_append]
  simp

/-! terminating the last line of the document does not change any paragraph's content -/

theorem ditems_terminatedLast (c : DNode) :
    ((terminatedLast c).filter isParaNode).map items = ([c].filter isParaNode).map items := by
  cases c with
  | tok k t => simp [terminatedLast, isParaNode, Node.isNode]
  | node k cs =>
    simp only [terminatedLast, List.filter_cons, isParaNode, Node.isNode, Node.kind, Bool.true_and,
      List.filter_nil]
    split
    · simp only [List.map_cons, List.map_nil, List.cons.injEq, and_true]
      have : ∀ X, items (Node.node k X) = pitems X := by
        intro X; simp [pitems, items, entries, Node.children]
      rw [this, this]
      split
      · exact pitems_terminateLast cs
      · simp [pitems_eq, childItem, Node.isNode]
    · rfl

theorem ditems_terminateLast (kids : List DNode) : ditems (terminateLast kids) = ditems kids := by
  rcases getLast_snoc_cases kids with rfl | ⟨init, last, rfl⟩
  · simp [terminateLast]
  · rw [terminateLast_snoc]
    simp only [ditems_eq, List.filter_append, List.map_append, ditems_terminatedLast]

theorem ditems_terminateLastLine (kids : List DNode) : ditems (terminateLastLine kids) = ditems kids := by
  unfold terminateLastLine
  repeat' split
  all_goals first
    | rfl
    | exact ditems_terminateLast kids
    | simp [ditems_eq, List.filter_append, isParaNode, Node.isNode]

theorem filter_isNode_all (kids : List DNode) (h : ∀ c ∈ kids, c.isNode = true) :
    (kids.filter Node.isNode).length = kids.length := by
  rw [List.filter_eq_self.2 h]

theorem terminateLastLine_length_allNodes (kids : List DNode) (h : ∀ c ∈ kids, c.isNode = true) :
    (terminateLastLine kids).length = kids.length := by
  unfold terminateLastLine
  split
  · rfl
  · split
    · rfl
    · split
      · rename_i k t hl
        have := List.mem_of_getLast? hl
        have := h _ this
        simp [Node.isNode] at this
      · rcases getLast_snoc_cases kids with rfl | ⟨init, last, rfl⟩
        · simp [terminateLast]
        · rw [terminateLast_snoc]
          have hl := h last (by simp)
          cases last with
          | tok k t => simp [Node.isNode] at hl
          | node k cs => simp [terminatedLast]

/-- appending a paragraph (also: inserting beyond the end) pushes an empty paragraph; every other
    paragraph keeps its content. Hypothesis: the root's children are all nodes, which holds for
    every parsed or programmatically built document (the insertion slot is computed from
    `children().count()`). -/
theorem C05_refine_add (d : Doc) (h : ∀ c ∈ d.kids, c.isNode = true) :
    ditems (addParagraph d).kids = ditems d.kids ++ [[]] := by
  unfold addParagraph insertEmptyParagraph
  simp only [insertAt]
  have hpos : (d.kids.filter Node.isNode).length = (terminateLastLine d.kids).length := by
    rw [filter_isNode_all _ h, terminateLastLine_length_allNodes _ h]
  rw [hpos, List.take_length, List.drop_length]
  have hsep : (if (terminateLastLine d.kids).length > 0 then [emptyLine] else ([] : List DNode)).filter isParaNode = [] := by
    split <;> simp [emptyLine_not_para]
  have := ditems_terminateLastLine d.kids
  simp only [ditems_eq] at this ⊢
  simp only [List.append_nil, List.filter_append, List.map_append, hsep, this, List.filter_cons,
    newPara_is_para, ↓reduceIte, List.filter_nil, List.map_cons, List.map_nil, items_newPara,
    List.nil_append]

theorem C05_refine_insert_beyond (d : Doc) (i : Nat) (hn : convertIndex d.kids i = none)
    (h : ∀ c ∈ d.kids, c.isNode = true) :
    ditems (insertParagraph d i).kids = ditems d.kids ++ [[]] := by
  have := C05_refine_add d h
  unfold insertParagraph
  rw [hn]; exact this

/-- `insert(i)` on the list, in one statement -/
theorem C05_refine_insert (d : Doc) (i : Nat) (h : ∀ c ∈ d.kids, c.isNode = true) :
    ditems (insertParagraph d i).kids = (ditems d.kids).insertIdx (min i (ditems d.kids).length) [] := by
  cases hc : convertIndex d.kids i with
  | none =>
    have hle : (ditems d.kids).length ≤ i := by
      have := convertIndexAux_none _ _ _ hc
      simpa [ditems_eq] using this
    rw [C05_refine_insert_beyond d i hc h, Nat.min_eq_right hle, List.insertIdx_length_self]
  | some p =>
    have hlt : i < (ditems d.kids).length := by
      obtain ⟨q, _, hq, hl, c, hc1, hc2⟩ := convertIndexAux_some _ _ _ _ hc
      have hs := take_drop_at d.kids q c hc1
      simp only [ditems_eq, List.length_map]
      rw [hs]
      simp [List.filter_append, List.filter_cons, hc2, hl]
    rw [C05_refine_insert_at d i p hc, Nat.min_eq_left (by omega)]

/-! ## frame: the other children of the root keep their bytes (every document, every index) -/

theorem convertIndex_isNode (kids : List DNode) (i p : Nat) (h : convertIndex kids i = some p) :
    ∃ c, kids[p]? = some c ∧ isParaNode c = true ∧ p < kids.length
      ∧ (kids.filter Node.isNode).length > 0 := by
  obtain ⟨q, hp, hq, _, c, hc1, hc2⟩ := convertIndexAux_some _ _ _ _ h
  simp only [Nat.zero_add] at hp; subst hp
  refine ⟨c, hc1, hc2, hq, ?_⟩
  have hm : c ∈ kids.filter Node.isNode := by
    refine List.mem_filter.2 ⟨List.mem_of_getElem? hc1, ?_⟩
    simp only [isParaNode, Bool.and_eq_true] at hc2
    exact hc2.1
  exact List.length_pos_of_mem hm

/-- `insert_paragraph(i)` at an existing position: the new (empty) PARAGRAPH node and one blank
    line are spliced in front of the i-th paragraph; every old child is the same node, in order.
    The text gains exactly one `\n` at that place. -/
theorem C05_frame_insert_at (d : Doc) (i p : Nat) (h : convertIndex d.kids i = some p) :
    (insertParagraph d i).kids = d.kids.take p ++ [.node .PARAGRAPH [], emptyLine] ++ d.kids.drop p
    ∧ d.root.text = textList (d.kids.take p) ++ textList (d.kids.drop p)
    ∧ (insertParagraph d i).root.text =
        textList (d.kids.take p) ++ '\n' :: textList (d.kids.drop p) := by
  obtain ⟨c, _, _, _, hpos⟩ := convertIndex_isNode _ _ _ h
  have hk : (insertParagraph d i).kids =
      d.kids.take p ++ [.node .PARAGRAPH [], emptyLine] ++ d.kids.drop p := by
    simp [insertParagraph, insertEmptyParagraph, h, insertAt, hpos]
  refine ⟨hk, ?_, ?_⟩
  · simp only [Doc.root, text_node, ← textList_append, List.take_append_drop]
  · simp only [Doc.root, text_node, hk]
    simp [emptyLine]

/-- `add_paragraph` (root children all nodes — every parsed or built document): all children stay,
    the last one possibly with its line terminated; a blank line (unless the document has no
    children) and the new empty PARAGRAPH node are appended -/
theorem C05_frame_add (d : Doc) (h : ∀ c ∈ d.kids, c.isNode = true) :
    (addParagraph d).kids =
        terminateLastLine d.kids ++ (if d.kids.length > 0 then [emptyLine] else []) ++ [.node .PARAGRAPH []]
    ∧ (addParagraph d).root.text =
        d.root.text ++ (if needsNl d.kids then ['\n'] else []) ++ (if d.kids.length > 0 then ['\n'] else []) := by
  have hpos : (d.kids.filter Node.isNode).length = (terminateLastLine d.kids).length := by
    rw [filter_isNode_all _ h, terminateLastLine_length_allNodes _ h]
  have hlen : (d.kids.filter Node.isNode).length = d.kids.length := filter_isNode_all _ h
  have hk : (addParagraph d).kids =
      terminateLastLine d.kids ++ (if d.kids.length > 0 then [emptyLine] else []) ++ [.node .PARAGRAPH []] := by
    simp only [addParagraph, insertEmptyParagraph, insertAt]
    rw [hpos, List.take_length, List.drop_length, ← hpos, hlen]
    simp
  refine ⟨hk, ?_⟩
  simp only [Doc.root, text_node, hk, textList_append, textList_terminateLastLine]
  split <;> split <;> simp [emptyLine]

/-- `remove_paragraph(i)`: the i-th PARAGRAPH child goes, and with it the child right behind it if
    that is a blank/comment-line node; all other children are the same nodes, in order. Beyond the
    end nothing changes. -/
theorem C05_frame_remove (d : Doc) (i : Nat) :
    match convertIndex d.kids i with
    | none => (removeParagraph d i).kids = d.kids
    | some p =>
      (removeParagraph d i).kids =
        d.kids.take p ++ d.kids.drop (p + 1 +
          (match d.kids[p + 1]? with
           | some n => if n.isNode && n.kind == .EMPTY_LINE then 1 else 0
           | none => 0)) := by
  cases hc : convertIndex d.kids i with
  | none => simp [removeParagraph, hc]
  | some p =>
    obtain ⟨c, _, _, hlt, _⟩ := convertIndex_isNode _ _ _ hc
    simp only [removeParagraph, hc]
    have herase : d.kids.eraseIdx p = d.kids.take p ++ d.kids.drop (p + 1) :=
      List.eraseIdx_eq_take_drop_succ _ _
    have hlen : (d.kids.take p).length = p := by simp; omega
    have hget : (d.kids.eraseIdx p)[p]? = d.kids[p + 1]? := by
      rw [herase, List.getElem?_append_right (by omega), hlen]
      simp
    rw [hget]
    cases hn : d.kids[p + 1]? with
    | none => simp [herase]
    | some n =>
      simp only
      split
      · simp only [herase]
        rw [List.eraseIdx_append_of_length_le (by omega), hlen]
        simp [List.eraseIdx_eq_take_drop_succ]
      · simp [herase]

/-! ### what the old handles read afterwards -/

/-- `insert_paragraph(i)` at an existing position: every handle taken before reads the very same
    node; the returned handle (the next free number) reads the new empty paragraph -/
theorem C05_frame_handles_insert_at (d : Doc) (i p : Nat) (h : convertIndex d.kids i = some p) :
    (∀ j, j < d.handles.length → (insertParagraph d i).para j = d.para j)
    ∧ (insertParagraph d i).para d.handles.length = some (.node .PARAGRAPH []) := by
  obtain ⟨c, _, _, hlt, hpos⟩ := convertIndex_isNode _ _ _ h
  obtain ⟨hk, _, _⟩ := C05_frame_insert_at d i p h
  have hh : (insertParagraph d i).handles = shiftIns d.handles p 2 ++ [some p] := by
    simp [insertParagraph, insertEmptyParagraph, h, hpos]
  have hlen : (d.kids.take p).length = p := by simp; omega
  constructor
  · intro j hj
    unfold Doc.para
    rw [hh, hk, List.getElem?_append_left (by simpa [shiftIns] using hj)]
    simp only [shiftIns, List.getElem?_map]
    cases hjj : d.handles[j]? with
    | none => simp
    | some o =>
      cases o with
      | none => simp
      | some s =>
        simp only [Option.map_some]
        by_cases hs : s ≥ p
        · simp only [hs, ↓reduceIte, List.append_assoc]
          rw [List.getElem?_append_right (by omega), hlen,
            List.getElem?_append_right (by simp; omega)]
          simp only [List.length_cons, List.length_nil, List.getElem?_drop]
          congr 1; omega
        · simp only [hs, ↓reduceIte, List.append_assoc]
          rw [List.getElem?_append_left (by omega), List.getElem?_take_of_lt (by omega)]
  · unfold Doc.para
    rw [hh, hk, List.getElem?_append_right (by simp [shiftIns])]
    simp only [shiftIns, List.length_map, Nat.sub_self, List.getElem?_cons_zero, List.append_assoc]
    rw [List.getElem?_append_right (by omega), hlen]
    simp

theorem shiftDel_get (hs : List (Option Nat)) (p j s : Nat) (hj : hs[j]? = some (some s)) :
    (shiftDel hs p)[j]? = some (if s = p then none else if s > p then some (s - 1) else some s) := by
  simp [shiftDel, hj]

theorem shiftDel_get_ne (hs : List (Option Nat)) (p j s : Nat) (hj : hs[j]? = some (some s)) (hsp : s ≠ p) :
    (shiftDel hs p)[j]? = some (some (if s > p then s - 1 else s)) := by
  rw [shiftDel_get hs p j s hj]
  simp only [hsp, ↓reduceIte]
  split <;> rfl

theorem shiftDel_get_none (hs : List (Option Nat)) (p j : Nat) (hj : hs[j]? = some none) :
    (shiftDel hs p)[j]? = some none := by
  simp [shiftDel, hj]

theorem eraseIdx_get (kids : List DNode) (p s : Nat) (hsp : s ≠ p) :
    (kids.eraseIdx p)[if s > p then s - 1 else s]? = kids[s]? := by
  rw [List.getElem?_eraseIdx]
  by_cases hgt : s > p
  · have : ¬ (s - 1 < p) := by omega
    simp only [hgt, ↓reduceIte, this]
    congr 1; omega
  · have : s < p := by omega
    simp [hgt, this]

/-- `remove_paragraph(i)`: the handle of the removed paragraph is dead; every other handle on a
    paragraph reads the very same node -/
theorem C05_frame_handles_remove (d : Doc) (i p : Nat) (h : convertIndex d.kids i = some p)
    (j : Nat) (n : DNode) (hn : d.para j = some n) (hpn : isParaNode n = true) :
    (removeParagraph d i).para j = if d.handles[j]? = some (some p) then none else some n := by
  unfold Doc.para at hn
  cases hjj : d.handles[j]? with
  | none => rw [hjj] at hn; simp at hn
  | some o =>
    cases o with
    | none => rw [hjj] at hn; simp at hn
    | some s =>
      rw [hjj] at hn
      simp only at hn
      have hs1 := shiftDel_get d.handles p j s hjj
      simp only [removeParagraph, h]
      by_cases hsp : s = p
      · -- the removed paragraph's own handle
        subst hsp
        simp only [↓reduceIte] at hs1 ⊢
        have hs2 := shiftDel_get_none _ s j hs1
        cases (d.kids.eraseIdx s)[s]? with
        | none => simp [Doc.para, hs1]
        | some m =>
          simp only
          by_cases hm : (m.isNode && m.kind == .EMPTY_LINE) = true
          · simp [hm, Doc.para, hs2]
          · simp [hm, Doc.para, hs1]
      · have hne : ¬ (some (some s) = some (some p)) := by simp [hsp]
        simp only [hne, ↓reduceIte]
        replace hs1 := shiftDel_get_ne d.handles p j s hjj hsp
        have hk1 := eraseIdx_get d.kids p s hsp
        rw [hn] at hk1
        generalize hs' : (if s > p then s - 1 else s) = s' at hs1 hk1
        have hread1 : (Doc.para ⟨d.kids.eraseIdx p, shiftDel d.handles p⟩ j) = some n := by
          simp only [Doc.para]
          split
          · rename_i x hx; rw [hs1] at hx; simp at hx; subst hx; exact hk1
          · rename_i hx; exact absurd hs1 (by intro e; exact hx _ e)
        cases hnx : (d.kids.eraseIdx p)[p]? with
        | none => exact hread1
        | some m =>
          simp only
          by_cases hm : (m.isNode && m.kind == .EMPTY_LINE) = true
          · simp only [hm, ↓reduceIte]
            have hs'p : s' ≠ p := by
              intro e; subst e
              rw [hnx] at hk1; simp at hk1; subst hk1
              simp only [isParaNode, Bool.and_eq_true, beq_iff_eq] at hpn hm
              rw [hm.2] at hpn; simp at hpn
            have hs2 := shiftDel_get_ne (shiftDel d.handles p) p j s' hs1 hs'p
            have hk2 := eraseIdx_get (d.kids.eraseIdx p) p s' hs'p
            rw [hk1] at hk2
            simp only [Doc.para]
            split
            · rename_i x hx; rw [hs2] at hx; simp at hx; subst hx; exact hk2
            · rename_i hx; exact absurd hs2 (by intro e; exact hx _ e)
          · simp only [hm, Bool.false_eq_true, ↓reduceIte]
            exact hread1

/-! ## paragraphs stay separated: the printed document re-reads to the list-model paragraphs

  An EMPTY paragraph (just added, no field yet) prints as nothing, so a reader cannot see it:
  exactly as the oracle of `harness/src/edit.rs` (step (4): `want.filter(|p| !p.is_empty())`), the
  re-read content is the list-model content without the empty paragraphs. -/

open Spec

theorem kids_allNodes (d0 : DocS) : ∀ c ∈ d0.tree.children, c.isNode = true := by
  intro c hc
  rw [← unitsKids_unitsOf] at hc
  simp only [unitsKids, List.mem_map] at hc
  obtain ⟨u, _, rfl⟩ := hc
  exact unit_isNode u

theorem ditems_parsed (d0 : DocS) : ditems d0.tree.children = d0.content := by
  rw [← docItems_tree d0]; rfl

theorem content_nonEmpty (d0 : DocS) : d0.content.filter nonEmpty = d0.content := by
  apply List.filter_eq_self.2
  intro p hp
  simp only [DocS.content, List.mem_map] at hp
  obtain ⟨pg, _, rfl⟩ := hp
  simp [nonEmpty, ParaS.content]

theorem filter_insertIdx_false {α} (p : α → Bool) (x : α) (hx : p x = false) :
    ∀ (l : List α) (n : Nat), (l.insertIdx n x).filter p = l.filter p
  | l, 0 => by simp [hx]
  | [], n + 1 => by simp
  | a :: l, n + 1 => by
    simp [List.insertIdx_succ_cons, List.filter_cons, filter_insertIdx_false p x hx l n]

/-- `add_paragraph` on a parsed well-formed document: the printed document is accepted by the
    strict reader without error; the new paragraph is empty, so the reader sees the old paragraphs -/
theorem C05_reread_add (d0 : DocS) (hwf : d0.WF) (d : Doc) (hd : d.kids = d0.tree.children) :
    let d' := addParagraph d
    ditems d'.kids = d0.content ++ [[]]
    ∧ ∃ s : DocS, s.WF ∧ s.str = d'.root.text ∧ parse d'.root.text = ⟨s.tree, []⟩
      ∧ readStrict d'.root.text = .ok s.tree ∧ docItems s.tree = d0.content := by
  have hlive : ditems (addParagraph d).kids = d0.content ++ [[]] := by
    rw [C05_refine_add d (by rw [hd]; exact kids_allNodes d0), hd, ditems_parsed]
  refine ⟨hlive, ?_⟩
  obtain ⟨s, h1, h2, h3, h4, h5⟩ := C04_reread_history d0 hwf d hd [.addp] (by simp [EditOp.Valid])
  refine ⟨s, h1, h2, h3, h4, ?_⟩
  rw [h5]
  have : docItems (run d [.addp]).root = ditems (addParagraph d).kids := rfl
  rw [this, hlive, List.filter_append, content_nonEmpty]
  simp [nonEmpty]

/-- `insert_paragraph(i)`, any `i` (beyond the end it appends) -/
theorem C05_reread_insert (d0 : DocS) (hwf : d0.WF) (d : Doc) (hd : d.kids = d0.tree.children) (i : Nat) :
    let d' := insertParagraph d i
    ditems d'.kids = d0.content.insertIdx (min i d0.content.length) []
    ∧ ∃ s : DocS, s.WF ∧ s.str = d'.root.text ∧ parse d'.root.text = ⟨s.tree, []⟩
      ∧ readStrict d'.root.text = .ok s.tree ∧ docItems s.tree = d0.content := by
  have hlive : ditems (insertParagraph d i).kids = d0.content.insertIdx (min i d0.content.length) [] := by
    rw [C05_refine_insert d i (by rw [hd]; exact kids_allNodes d0), hd, ditems_parsed]
  refine ⟨hlive, ?_⟩
  obtain ⟨s, h1, h2, h3, h4, h5⟩ := C04_reread_history d0 hwf d hd [.insp i] (by simp [EditOp.Valid])
  refine ⟨s, h1, h2, h3, h4, ?_⟩
  rw [h5]
  have : docItems (run d [.insp i]).root = ditems (insertParagraph d i).kids := rfl
  rw [this, hlive]
  rw [filter_insertIdx_false nonEmpty [] rfl]
  exact content_nonEmpty d0

/-- `remove_paragraph(i)`: the remaining paragraphs are still separated — the printed document
    re-reads, without error, to the paragraph list with the i-th element erased -/
theorem C05_reread_remove (d0 : DocS) (hwf : d0.WF) (d : Doc) (hd : d.kids = d0.tree.children) (i : Nat) :
    let d' := removeParagraph d i
    ∃ s : DocS, s.WF ∧ s.str = d'.root.text ∧ parse d'.root.text = ⟨s.tree, []⟩
      ∧ readStrict d'.root.text = .ok s.tree ∧ docItems s.tree = d0.content.eraseIdx i := by
  obtain ⟨s, h1, h2, h3, h4, h5⟩ := C04_reread_history d0 hwf d hd [.rmp i] (by simp [EditOp.Valid])
  refine ⟨s, h1, h2, h3, h4, ?_⟩
  rw [h5]
  have : docItems (run d [.rmp i]).root = ditems (removeParagraph d i).kids := rfl
  rw [this, C05_refine_remove, hd, ditems_parsed]
  apply List.filter_eq_self.2
  intro p hp
  have := List.mem_of_mem_eraseIdx hp
  rw [← content_nonEmpty d0] at this
  exact (List.mem_filter.1 this).2

/-- **whole histories**, paragraph operations interleaved with field edits through any handles:
    paragraphs never fuse and nothing unreadable is produced — the printed document always re-reads,
    strictly and without error, to the live paragraphs that have at least one field (in order). -/
theorem C05_reread_history (d0 : DocS) (hwf : d0.WF) (d : Doc) (hd : d.kids = d0.tree.children)
    (ops : List EditOp) (hv : ∀ o ∈ ops, o.Valid) :
    let d' := run d ops
    ∃ s : DocS, s.WF ∧ s.str = d'.root.text ∧ parse d'.root.text = ⟨s.tree, []⟩
      ∧ readStrict d'.root.text = .ok s.tree
      ∧ docItems s.tree = (ditems d'.kids).filter nonEmpty :=
  C04_reread_history d0 hwf d hd ops hv

/-- **filling the new paragraph**: `add_paragraph`, then `set` through the handle it returned (the
    next free handle number): the document re-reads to the old paragraphs followed by the new
    one-field paragraph — separated by a blank line, the previous last line terminated -/
theorem C05_reread_add_fill (d0 : DocS) (hwf : d0.WF) (d : Doc) (hd : d.kids = d0.tree.children)
    (k v : Str) (hk : ValidKey k) (hv : ValidValue v) :
    let d' := (addParagraph d).onPara d.handles.length (fun cs => paraSet cs k v)
    ditems d'.kids = d0.content ++ [[(k, v)]]
    ∧ ∃ s : DocS, s.WF ∧ s.str = d'.root.text ∧ parse d'.root.text = ⟨s.tree, []⟩
      ∧ readStrict d'.root.text = .ok s.tree ∧ docItems s.tree = d0.content ++ [[(k, v)]] := by
  have hn := kids_allNodes d0
  rw [← hd] at hn
  obtain ⟨hk1, _⟩ := C05_frame_add d hn
  have hlenT : (terminateLastLine d.kids).length = d.kids.length := terminateLastLine_length_allNodes _ hn
  generalize hsep : (if d.kids.length > 0 then [emptyLine] else ([] : List DNode)) = sep at hk1
  have hsepP : sep.filter isParaNode = [] := by
    rw [← hsep]; split <;> simp [emptyLine_not_para]
  have hseplen : sep.length = (if (d.kids.filter Node.isNode).length > 0 then [emptyLine] else ([] : List DNode)).length := by
    rw [← hsep, filter_isNode_all _ hn]
  -- the new handle and the slot it points to
  have hh : (addParagraph d).handles[d.handles.length]? = some (some (d.kids.length + sep.length)) := by
    simp only [addParagraph, insertEmptyParagraph, shiftIns]
    rw [List.getElem?_append_right (by simp)]
    simp [filter_isNode_all _ hn, hseplen, hlenT]
  have hslot : (addParagraph d).kids[d.kids.length + sep.length]? = some (.node .PARAGRAPH []) := by
    rw [hk1, List.getElem?_append_right (by simp [hlenT])]
    simp [hlenT]
  have htake : (addParagraph d).kids.take (d.kids.length + sep.length) = terminateLastLine d.kids ++ sep := by
    rw [hk1, List.take_append_of_le_length (by simp [hlenT])]
    rw [List.take_of_length_le (by simp [hlenT])]
  have hdrop : (addParagraph d).kids.drop (d.kids.length + sep.length + 1) = [] := by
    rw [hk1]; apply List.drop_of_length_le; simp [hlenT]; omega
  have hlive : ditems ((addParagraph d).onPara d.handles.length (fun cs => paraSet cs k v)).kids =
      d0.content ++ [[(k, v)]] := by
    have := content_onPara (addParagraph d) _ _ [] (fun cs => paraSet cs k v) hh hslot
    rw [htake, hdrop, C04_refine_set] at this
    have h1 : docItems (.node .ROOT (terminateLastLine d.kids ++ sep)) = d0.content := by
      have : docItems (.node .ROOT (terminateLastLine d.kids ++ sep)) =
          ditems (terminateLastLine d.kids) ++ ditems sep := by
        simp [ditems_eq, docItems, paragraphs, Node.children, List.filter_append]; rfl
      rw [this, ditems_terminateLastLine, hd, ditems_parsed]
      simp [ditems_eq, hsepP]
    rw [h1] at this
    simpa [ditems, pitems_eq, ListSpec.set, docItems, paragraphs, Node.children] using this
  refine ⟨hlive, ?_⟩
  obtain ⟨s, h1, h2, h3, h4, h5⟩ := C04_reread_history d0 hwf d hd [.addp, .set d.handles.length k v]
    (by intro o ho; simp at ho; rcases ho with rfl | rfl <;> simp [EditOp.Valid, hk, hv])
  refine ⟨s, h1, h2, h3, h4, ?_⟩
  rw [h5]
  have : docItems (run d [.addp, .set d.handles.length k v]).root =
      ditems ((addParagraph d).onPara d.handles.length (fun cs => paraSet cs k v)).kids := rfl
  rw [this, hlive, List.filter_append, content_nonEmpty]
  simp [nonEmpty]

/-! ### non-vacuity -/

example : C03.exDoc.WF := by decide

/-- the start document of the examples: the C03 example, handles on its two paragraphs -/
def exStart : Doc := ⟨C03.exDoc.tree.children, [some 2, some 5]⟩

example : exStart.kids = C03.exDoc.tree.children := rfl
example : convertIndex exStart.kids 1 = some 5 := by decide
example : ∀ c ∈ exStart.kids, c.isNode = true := by decide
example : ∃ n, exStart.para 1 = some n ∧ isParaNode n = true := ⟨_, rfl, rfl⟩
example : ∀ o ∈ C04.exOps, o.Valid := by decide
example : ValidKey "New".toList ∧ ValidValue "v1\nv2".toList := by decide

/-- inserting in front of paragraph 1 and removing paragraph 0, computed (the frame theorems give
    the same): one `\n` more at the insertion point; the removed paragraph takes the blank line
    behind it along, the comment line written between the paragraphs stays -/
example : (insertParagraph exStart 1).root.text =
    "# lead\n\nSource: foo\n :x é\n# c\nA:\nA:\tb: #c\n# trailing\n\n# between\n\nPackage: bar".toList := by
  decide +kernel
example : (removeParagraph exStart 0).root.text = "# lead\n\n# between\nPackage: bar".toList := by
  decide +kernel

/-! ## whole histories against the oracle's list-of-lists model (oracle steps (1), (2), and (4))

  The machinery is `Props/C04.lean` (`C04_step_refines`, `C04_history_refines`) on top of
  `Lemmas/DebEditHandles.lean`; here the statements for the start states of the harness. -/

/-- **start = the parse of ANY text** (well-formed or not), ANY history of field edits and
    paragraph operations through any handle numbers — live, dead, never handed out, returned by
    `add_paragraph` / `insert_paragraph` — with any names, values and indices. With
    `M = mrun (LModel.init kids) ops` (the oracle's `ListModel` run alongside):
    (1) every handle number reads what the model says: unknown / dead on both sides / live on a
        PARAGRAPH node with exactly the model's fields;
    (2) the paragraphs of the document, in order, are `M.order` looked up in `M.paras`;
    and every handle in `M.order` is live. Every prefix of a history is a history, so this holds
    after every step. -/
theorem C05_history_refines (s : Str) (ops : List EditOp) :
    let kids := (parse s).tree.children
    let d' := run (startOf kids) ops
    let M := mrun (LModel.init kids) ops
    (∀ j : Nat, match M.paras[j]? with
      | none => d'.handles.length ≤ j ∧ d'.para j = none
      | some none => d'.handles[j]? = some none ∧ d'.para j = none
      | some (some m) => ∃ n, d'.para j = some n ∧ isParaNode n = true ∧ items n = m)
    ∧ ditems d'.kids = M.order.map (fun h => ((M.paras[h]?).join).getD [])
    ∧ ∀ h ∈ M.order, ∃ m, M.paras[h]? = some (some m) :=
  C04_history_oracle _ (parse_allNodes s) ops

/-- the same for a start document built with `FromIterator` from any paragraphs -/
theorem C05_history_refines_built (ps : List (List (Str × Str))) (ops : List EditOp) :
    let kids := docOfParas (ps.map paraOfPairs)
    let d' := run (startOf kids) ops
    let M := mrun (LModel.init kids) ops
    (∀ j : Nat, match M.paras[j]? with
      | none => d'.handles.length ≤ j ∧ d'.para j = none
      | some none => d'.handles[j]? = some none ∧ d'.para j = none
      | some (some m) => ∃ n, d'.para j = some n ∧ isParaNode n = true ∧ items n = m)
    ∧ ditems d'.kids = M.order.map (fun h => ((M.paras[h]?).join).getD [])
    ∧ ∀ h ∈ M.order, ∃ m, M.paras[h]? = some (some m) := by
  apply C04_history_oracle
  apply built_allNodes
  intro c hc
  simp only [List.mem_map] at hc
  obtain ⟨p, _, rfl⟩ := hc
  rfl

/-- **oracle step (4) in terms of the model**: on a parsed well-formed document and valid
    arguments, the printed document re-reads — strictly, without error — to exactly the model's
    paragraphs in the model's order, the empty ones left out -/
theorem C05_history_reread_model (d0 : DocS) (hwf : d0.WF) (ops : List EditOp) (hv : ∀ o ∈ ops, o.Valid) :
    let d' := run (startOf d0.tree.children) ops
    let M := mrun (LModel.init d0.tree.children) ops
    ∃ s : DocS, s.WF ∧ s.str = d'.root.text ∧ parse d'.root.text = ⟨s.tree, []⟩
      ∧ readStrict d'.root.text = .ok s.tree
      ∧ docItems s.tree = (M.order.map (fun h => ((M.paras[h]?).join).getD [])).filter nonEmpty := by
  obtain ⟨s, h1, h2, h3, h4, h5⟩ := C05_reread_history d0 hwf (startOf d0.tree.children) rfl ops hv
  refine ⟨s, h1, h2, h3, h4, ?_⟩
  rw [h5]
  have := (C04_history_oracle d0.tree.children (kids_allNodes d0) ops).2.1
  exact congrArg (List.filter nonEmpty) this

/-! examples -/

example : exStart = startOf C03.exDoc.tree.children := C04.exEditDoc_start
example : (parse C03.exDoc.str).tree.children = C03.exDoc.tree.children :=
  (C04_start_parsed C03.exDoc (by decide)).1

/-- paragraph operations only, through the model: insert in front, remove the old first paragraph
    (now index 1), add one, remove beyond the end (nothing happens) -/
example : mrun (LModel.init exStart.kids) [.insp 0, .rmp 1, .addp, .rmp 7] =
    ⟨[none, some [("Package".toList, "bar".toList)], some [], some []], [2, 1, 3]⟩ := by
  decide +kernel

example : ditems (run exStart [.insp 0, .rmp 1, .addp, .rmp 7]).kids =
    [[], [("Package".toList, "bar".toList)], []] := by
  have h : exStart = startOf C03.exDoc.tree.children := C04.exEditDoc_start
  rw [h]
  have := (C04_history_oracle C03.exDoc.tree.children (by decide) [.insp 0, .rmp 1, .addp, .rmp 7]).2.1
  rw [show ditems (run (startOf C03.exDoc.tree.children) [.insp 0, .rmp 1, .addp, .rmp 7]).kids =
    docItems (run (startOf C03.exDoc.tree.children) [.insp 0, .rmp 1, .addp, .rmp 7]).root from rfl, this]
  decide +kernel

end Deb822Verif.Props.C05
