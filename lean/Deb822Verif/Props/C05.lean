import Deb822Verif.Model.DebEdit
import Deb822Verif.Props.C04
/-!
# C05 — adding, inserting and removing paragraphs behaves like list operations
-/
namespace Deb822Verif.Props.C05
open Deb822Verif Deb Node Props.C04

/-- the document as a list of paragraphs, each a list of (name, value) -/
def ditems (kids : List DNode) : List (List (Str × Str)) := docItems (.node .ROOT kids)

theorem ditems_eq (kids : List DNode) : ditems kids = (kids.filter isParaNode).map items := rfl

theorem filter_append_para (a b : List DNode) :
    (a ++ b).filter isParaNode = a.filter isParaNode ++ b.filter isParaNode := List.filter_append ..

theorem emptyLine_not_para : isParaNode emptyLine = false := by
  simp [isParaNode, emptyLine, Node.isNode, Node.kind]

theorem newPara_is_para : isParaNode (.node .PARAGRAPH []) = true := by
  simp [isParaNode, Node.isNode, Node.kind]

theorem items_newPara : items (.node .PARAGRAPH []) = [] := by
  simp [items, entries, Node.children]

/-! ### `convert_index` finds the child slot of the i-th paragraph -/

theorem convertIndexAux_some (kids : List DNode) : ∀ (i off p : Nat),
    convertIndexAux kids i off = some p →
    ∃ q, p = off + q ∧ q < kids.length ∧ ((kids.take q).filter isParaNode).length = i
      ∧ ∃ c, kids[q]? = some c ∧ isParaNode c = true := by
  induction kids with
  | nil => intro i off p h; simp [convertIndexAux] at h
  | cons c cs ih =>
    intro i off p h
    simp only [convertIndexAux] at h
    split at h
    · rename_i hc
      split at h
      · rename_i hi
        simp at h; subst hi
        exact ⟨0, by omega, by simp, by simp, c, by simp, hc⟩
      · rename_i hi
        obtain ⟨q, hp, hq, hl, c', hc1, hc2⟩ := ih (i - 1) (off + 1) p h
        refine ⟨q + 1, by omega, by simp; omega, ?_, c', by simpa using hc1, hc2⟩
        simp only [List.take_succ_cons, List.filter_cons, hc, ↓reduceIte, List.length_cons, hl]
        omega
    · rename_i hc
      obtain ⟨q, hp, hq, hl, c', hc1, hc2⟩ := ih i (off + 1) p h
      refine ⟨q + 1, by omega, by simp; omega, ?_, c', by simpa using hc1, hc2⟩
      have : isParaNode c = false := by simpa using hc
      simp [List.filter_cons, this, hl]

theorem convertIndexAux_none (kids : List DNode) : ∀ (i off : Nat),
    convertIndexAux kids i off = none → (kids.filter isParaNode).length ≤ i := by
  induction kids with
  | nil => intro i off _; simp
  | cons c cs ih =>
    intro i off h
    simp only [convertIndexAux] at h
    split at h
    · rename_i hc
      split at h
      · simp at h
      · rename_i hi
        have := ih (i - 1) (off + 1) h
        simp only [List.filter_cons, hc, ↓reduceIte, List.length_cons]; omega
    · rename_i hc
      have : isParaNode c = false := by simpa using hc
      simpa [List.filter_cons, this] using ih i (off + 1) h

theorem take_drop_at (l : List DNode) (q : Nat) (c : DNode) (h : l[q]? = some c) :
    l = l.take q ++ c :: l.drop (q + 1) := by
  induction l generalizing q with
  | nil => simp at h
  | cons x xs ih =>
    cases q with
    | zero => simp at h; simp [h]
    | succ q => simp at h; simp; exact ih q h

theorem insertIdx_at_length_append {α} (a b : List α) (x : α) :
    (a ++ b).insertIdx a.length x = a ++ x :: b := by
  induction a with
  | nil => simp [List.insertIdx]
  | cons y ys ih => simp [List.insertIdx_succ_cons, ih]

/-! ### refinement -/

/-- removing paragraph `i` erases the i-th element of the paragraph list (removal beyond the end
    does nothing); every other paragraph keeps its content -/
theorem C05_refine_remove (d : Doc) (i : Nat) :
    ditems (removeParagraph d i).kids = (ditems d.kids).eraseIdx i := by
  unfold removeParagraph convertIndex
  cases h : convertIndexAux d.kids i 0 with
  | none =>
    have := convertIndexAux_none _ _ _ h
    simp only [ditems_eq]
    rw [List.eraseIdx_of_length_le (by simpa using this)]
  | some p =>
    obtain ⟨q, hp, hq, hl, c, hc1, hc2⟩ := convertIndexAux_some _ _ _ _ h
    simp only [Nat.zero_add] at hp; subst p
    have hsplit := take_drop_at d.kids q c hc1
    have herase : d.kids.eraseIdx q = d.kids.take q ++ d.kids.drop (q + 1) := by
      rw [List.eraseIdx_eq_take_drop_succ]
    have hmain : ditems (d.kids.eraseIdx q) = (ditems d.kids).eraseIdx i := by
      simp only [ditems_eq]
      rw [herase]
      conv => rhs; rw [hsplit]
      simp only [List.filter_append, List.filter_cons, hc2, ↓reduceIte, List.map_append, List.map_cons]
      have hlen : (List.map items (List.filter isParaNode (List.take q d.kids))).length = i := by
        simp [hl]
      rw [List.eraseIdx_append_of_length_le (by omega)]
      simp [hlen]
    -- the optional removal of one following EMPTY_LINE does not touch the paragraphs
    simp only
    split
    · rename_i n hn
      split
      · rename_i hk
        have hnp : isParaNode n = false := by
          simp only [Bool.and_eq_true, beq_iff_eq] at hk
          simp [isParaNode, hk.1, hk.2]
        have h2 := take_drop_at _ q n hn
        have : ditems ((d.kids.eraseIdx q).eraseIdx q) = ditems (d.kids.eraseIdx q) := by
          simp only [ditems_eq]
          conv => rhs; rw [h2]
          rw [List.eraseIdx_eq_take_drop_succ]
          simp [List.filter_append, List.filter_cons, hnp]
        simp only [this, hmain]
      · exact hmain
    · exact hmain

/-- inserting at position `i` inserts an empty paragraph at `min i length` (insertion beyond the
    end appends) — here for positions that exist -/
theorem C05_refine_insert_at (d : Doc) (i p : Nat) (h : convertIndex d.kids i = some p) :
    ditems (insertParagraph d i).kids = (ditems d.kids).insertIdx i [] := by
  unfold insertParagraph insertEmptyParagraph
  simp only [h]
  unfold convertIndex at h
  obtain ⟨q, hp, hq, hl, c, hc1, hc2⟩ := convertIndexAux_some _ _ _ _ h
  simp only [Nat.zero_add] at hp; subst hp
  simp only [ditems_eq, insertAt]
  have hsep : ∀ sep : List DNode, (sep = [emptyLine] ∨ sep = []) → sep.filter isParaNode = [] := by
    intro sep hs; rcases hs with rfl | rfl <;> simp [emptyLine_not_para]
  have hs := hsep (if (d.kids.filter Node.isNode).length > 0 then [emptyLine] else [])
    (by split <;> simp)
  simp only [List.filter_append, List.filter_cons, newPara_is_para, ↓reduceIte, hs, List.map_append,
    List.map_cons, items_newPara, List.append_nil, List.nil_append]
  have hk : d.kids = d.kids.take p ++ d.kids.drop p := (List.take_append_drop p d.kids).symm
  conv => rhs; rw [hk]
  simp only [List.filter_append, List.map_append]
  have hlen : (List.map items (List.filter isParaNode (List.take p d.kids))).length = i := by simp [hl]
  rw [← hlen, insertIdx_at_length_append]
  simp

/-! terminating the last line of the document does not change any paragraph's content -/

theorem ditems_terminatedLast (c : DNode) :
    ((terminatedLast c).filter isParaNode).map items = ([c].filter isParaNode).map items := by
  cases c with
  | tok k t => simp [terminatedLast, isParaNode, Node.isNode]
  | node k cs =>
    simp only [terminatedLast, List.filter_cons, isParaNode, Node.isNode, Node.kind, Bool.true_and,
      List.filter_nil]
    split
    · simp only [List.map_cons, List.map_nil, List.cons.injEq, and_true]
      have : ∀ X, items (Node.node k X) = pitems X := by
        intro X; simp [pitems, items, entries, Node.children]
      rw [this, this]
      split
      · exact pitems_terminateLast cs
      · simp [pitems_eq, childItem, Node.isNode]
    · rfl

theorem ditems_terminateLast (kids : List DNode) : ditems (terminateLast kids) = ditems kids := by
  rcases getLast_snoc_cases kids with rfl | ⟨init, last, rfl⟩
  · simp [terminateLast]
  · rw [terminateLast_snoc]
    simp only [ditems_eq, List.filter_append, List.map_append, ditems_terminatedLast]

theorem ditems_terminateLastLine (kids : List DNode) : ditems (terminateLastLine kids) = ditems kids := by
  unfold terminateLastLine
  repeat' split
  all_goals first
    | rfl
    | exact ditems_terminateLast kids
    | simp [ditems_eq, List.filter_append, isParaNode, Node.isNode]

theorem filter_isNode_all (kids : List DNode) (h : ∀ c ∈ kids, c.isNode = true) :
    (kids.filter Node.isNode).length = kids.length := by
  rw [List.filter_eq_self.2 h]

theorem terminateLastLine_length_allNodes (kids : List DNode) (h : ∀ c ∈ kids, c.isNode = true) :
    (terminateLastLine kids).length = kids.length := by
  unfold terminateLastLine
  split
  · rfl
  · split
    · rfl
    · split
      · rename_i k t hl
        have := List.mem_of_getLast? hl
        have := h _ this
        simp [Node.isNode] at this
      · rcases getLast_snoc_cases kids with rfl | ⟨init, last, rfl⟩
        · simp [terminateLast]
        · rw [terminateLast_snoc]
          have hl := h last (by simp)
          cases last with
          | tok k t => simp [Node.isNode] at hl
          | node k cs => simp [terminatedLast]

/-- appending a paragraph (also: inserting beyond the end) pushes an empty paragraph; every other
    paragraph keeps its content. Hypothesis: the root's children are all nodes, which holds for
    every parsed or programmatically built document (the insertion slot is computed from
    `children().count()`). -/
theorem C05_refine_add (d : Doc) (h : ∀ c ∈ d.kids, c.isNode = true) :
    ditems (addParagraph d).kids = ditems d.kids ++ [[]] := by
  unfold addParagraph insertEmptyParagraph
  simp only [insertAt]
  have hpos : (d.kids.filter Node.isNode).length = (terminateLastLine d.kids).length := by
    rw [filter_isNode_all _ h, terminateLastLine_length_allNodes _ h]
  rw [hpos, List.take_length, List.drop_length]
  have hsep : (if (terminateLastLine d.kids).length > 0 then [emptyLine] else ([] : List DNode)).filter isParaNode = [] := by
    split <;> simp [emptyLine_not_para]
  have := ditems_terminateLastLine d.kids
  simp only [ditems_eq] at this ⊢
  simp only [List.append_nil, List.filter_append, List.map_append, hsep, this, List.filter_cons,
    newPara_is_para, ↓reduceIte, List.filter_nil, List.map_cons, List.map_nil, items_newPara,
    List.nil_append]

theorem C05_refine_insert_beyond (d : Doc) (i : Nat) (hn : convertIndex d.kids i = none)
    (h : ∀ c ∈ d.kids, c.isNode = true) :
    ditems (insertParagraph d i).kids = ditems d.kids ++ [[]] := by
  have := C05_refine_add d h
  unfold insertParagraph
  rw [hn]; exact this

/-- `insert(i)` on the list, in one statement -/
theorem C05_refine_insert (d : Doc) (i : Nat) (h : ∀ c ∈ d.kids, c.isNode = true) :
    ditems (insertParagraph d i).kids = (ditems d.kids).insertIdx (min i (ditems d.kids).length) [] := by
  cases hc : convertIndex d.kids i with
  | none =>
    have hle : (ditems d.kids).length ≤ i := by
      have := convertIndexAux_none _ _ _ hc
      simpa [ditems_eq] using this
    rw [C05_refine_insert_beyond d i hc h, Nat.min_eq_right hle, List.insertIdx_length_self]
  | some p =>
    have hlt : i < (ditems d.kids).length := by
      obtain ⟨q, _, hq, hl, c, hc1, hc2⟩ := convertIndexAux_some _ _ _ _ hc
      have hs := take_drop_at d.kids q c hc1
      simp only [ditems_eq, List.length_map]
      rw [hs]
      simp [List.filter_append, List.filter_cons, hc2, hl]
    rw [C05_refine_insert_at d i p hc, Nat.min_eq_left (by omega)]

end Deb822Verif.Props.C05
