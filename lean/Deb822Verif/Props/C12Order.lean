import Deb822Verif.Props.C12Text
import Deb822Verif.Lemmas.VerDpkg
import Deb822Verif.Lemmas.VerRaw
/-!
# C12 — "under Debian version ordering", as a theorem

`Props/C12.lean` proves that `DebVersion.compare` (the model of `debversion::Version::cmp`) is a
total preorder and checks 16 sample facts. Nothing there says that it IS the Debian order. Here:

* **A.** `Spec/DpkgVersion.lean` defines dpkg's comparison (`order`, `verrevcmp`,
  `dpkg_version_compare` of `lib/dpkg/version.c`) from the C source, independently of the crate
  model. `C12_order_is_dpkg`: `DebVersion.compare v w = Dpkg.dpkgOrder v w` for ALL versions (all
  character lists — no hypothesis), hence in particular for every pair in the image of
  `Version::from_str`. The crate's algorithm (cut into non-digit / digit chunks, compare chunk
  lists padded with `("", "")`, digit runs as numbers, absent revision = "0") and dpkg's (character
  loop, zero skipping, longer digit run wins, absent revision = "") are different programs; the
  theorem says they compute the same order. The headline statements of C12 are restated with
  `Dpkg.dpkgOrder` (`C12_spec_dpkg`, `C12_spec_lossless_dpkg`, `C12_text_*_dpkg`).
* **B.** `C12_order_facts_strict`: the sample facts with "both texts parse" stated (the three `.eq`
  facts of `C12_order_facts` would also hold between two texts `Version::from_str` refuses).
* **C.** the domain of the "real comparison" theorems. `C12_compareO_small`, `C12_spec_real`,
  `C12_text_real_*` quantify over every `V` with an arbitrary `upstream : List Char`, but
  `compareO` models `Version::cmp` only on ASCII: `version_cmp_part` uses a `chars().position()`
  CHARACTER index as a BYTE offset and panics on a hand-built `Version { upstream_version: "é1" }`
  (the fields are `pub`). `DebVersion.compareB` (Model/DebVersionRaw.lean) is the byte-index twin
  (compared with the real code on literal values by the harness op `ver.cmpraw`);
  `C12_compareB_valid`: on version characters (`validV`, which holds of every value
  `Version::from_str` returns: `C12_parse_valid`) it is `compareO`; `C12_compareB_nonascii_witness`:
  outside, the real code panics where `compareO` answers. The `…_valid` theorems are the
  `…_real` theorems with the honest hypothesis and `compareB` as the comparison.
* **D.** lookup forms: `C12_lookup_pointwise` — the answer of every evaluator depends on a lookup only
  through `lookup_version(name)` on the names the field mentions; the harness op `lk.forms` compares
  exactly these point values of the three Rust `VersionLookup` impls with `Lookup.ofMap` / `ofFn` /
  `ofPair`.
-/
namespace Deb822Verif.Props.C12Order
open Deb822Verif Rel RelSat DebVersion RelSpec
open Deb822Verif.Props.C12

/-! ## A. `DebVersion.compare` is dpkg's order -/

/-- `version_cmp_part` (crate) = sign of `verrevcmp` (dpkg), all pairs of strings -/
theorem C12_cmpPart_is_verrevcmp (a b : Str) : cmpPart a b = Dpkg.sign (Dpkg.verrevcmp a b) :=
  cmpPart_eq_verrevcmp a b

theorem natCmp_sign (a b : Nat) :
    natCmp a b = if a > b then .gt else if a < b then .lt else .eq := by
  unfold natCmp; (repeat' split) <;> first | rfl | omega

/-- **"Debian version ordering"**: the model of `debversion::Version::cmp` is
    `dpkg_version_compare` — epoch numerically (absent = 0), then the upstream parts by
    `verrevcmp`, then the revisions by `verrevcmp` (absent = `""` for dpkg, `"0"` for the crate:
    the same, `cmpPart_zero_left`) — for all pairs of versions, no hypothesis. -/
theorem C12_order_is_dpkg (v w : V) : DebVersion.compare v w = Dpkg.dpkgOrder v w := by
  have he : epochOf v = Dpkg.epoch v := by unfold epochOf Dpkg.epoch; cases v.epoch <;> rfl
  have he' : epochOf w = Dpkg.epoch w := by unfold epochOf Dpkg.epoch; cases w.epoch <;> rfl
  have hr : cmpPart (revOf v) (revOf w) = Dpkg.sign (Dpkg.verrevcmp (Dpkg.revision v) (Dpkg.revision w)) := by
    rw [← cmpPart_eq_verrevcmp]
    unfold revOf Dpkg.revision
    cases v.revision <;> cases w.revision <;>
      simp [cmpPart_zero_left, cmpPart_zero_right]
  unfold DebVersion.compare Dpkg.dpkgOrder Dpkg.versionCompare
  rw [he, he', hr, cmpPart_eq_verrevcmp, natCmp_sign]
  by_cases h1 : Dpkg.epoch v > Dpkg.epoch w
  · simp only [h1, if_true]; rfl
  · by_cases h2 : Dpkg.epoch v < Dpkg.epoch w
    · simp only [h1, h2, if_true, if_false]; rfl
    · simp only [h1, h2, if_false]
      by_cases h3 : Dpkg.verrevcmp v.upstream w.upstream = 0
      · simp [h3, Dpkg.sign, Ordering.then]
      · have : Dpkg.sign (Dpkg.verrevcmp v.upstream w.upstream) ≠ .eq := fun h => h3 (sign_eq_iff.1 h)
        simp only [ne_eq, h3, not_false_eq_true, if_true, Ordering.then]

theorem C12_order_is_dpkg_fun : DebVersion.compare = Dpkg.dpkgOrder :=
  funext fun v => funext fun w => C12_order_is_dpkg v w

/-- so dpkg's order is a total preorder whose `==` is a congruence (transfer of `C12_order_*`) -/
theorem C12_dpkg_preorder : PreCmp Dpkg.dpkgOrder := C12_order_is_dpkg_fun ▸ compare_pre

/-- **C12, lossy evaluator, under dpkg's order** -/
theorem C12_spec_dpkg (lk : Lookup) (f : FieldY) :
    relationsSatY DebVersion.compare lk f = true ↔ Satisfied Dpkg.dpkgOrder lk f := by
  rw [← C12_order_is_dpkg_fun]; exact C12_spec _ lk f

/-- **C12, lossless evaluator, under dpkg's order** (tree whose accessors do not panic) -/
theorem C12_spec_lossless_dpkg (lk : Lookup) (root : RNode) (f : FieldY) (hview : viewL root = .ok f) :
    relationsSatL DebVersion.compare lk root = .ok true ↔ Satisfied Dpkg.dpkgOrder lk f := by
  rw [← C12_order_is_dpkg_fun]; exact C12_spec_lossless _ lk root f hview

/-- **C12 on the text, lossless evaluator, under dpkg's order** -/
theorem C12_text_lossless_dpkg (f : FieldA) (h : f.WF) (allow : Bool)
    (ha : allow = true ∨ f.hasSubstvar = false) (lk : Lookup) :
    (parse f.str allow).errors = [] ∧
    ∃ b, relationsSatL DebVersion.compare lk (parse f.str allow).tree = .ok b ∧
      (b = true ↔ FieldA.SatisfiedBy Dpkg.dpkgOrder lk f) := by
  obtain ⟨he, b, hb, hiff⟩ := C12_text_lossless f h allow ha DebVersion.compare lk
  refine ⟨he, b, hb, ?_⟩
  rw [← C12_order_is_dpkg_fun]
  exact hiff.trans (satisfied_view_iff _ lk f)

/-- **C12 on the text, lossy evaluator, under dpkg's order** -/
theorem C12_text_lossy_dpkg (f : FieldA) (h : f.WF) (hs : f.hasSubstvar = false) (lk : Lookup) :
    ∃ rs b, Lossy.readRelations f.str = .ok rs ∧
      relationsSatYO (total DebVersion.compare) lk (fieldY rs) = .ok b ∧
      (b = true ↔ FieldA.SatisfiedBy Dpkg.dpkgOrder lk f) := by
  obtain ⟨rs, b, h1, h2, hiff⟩ := C12_text_lossy f h hs DebVersion.compare lk
  refine ⟨rs, b, h1, h2, ?_⟩
  rw [← C12_order_is_dpkg_fun]
  exact hiff.trans (satisfied_view_iff _ lk f)

-- the characteristic clauses of dpkg's `order`, now consequences of the definition of `Dpkg.order`
example : Dpkg.order (some '~') < Dpkg.order none ∧ Dpkg.order none < Dpkg.order (some 'a') ∧
    Dpkg.order (some 'z') < Dpkg.order (some '+') ∧ Dpkg.order (some '5') = Dpkg.order none := by decide
-- the theorem fires on concrete versions (both directions)
example : Dpkg.dpkgOrder (ver "1.0~rc1") (ver "1.0") = .lt := by rw [← C12_order_is_dpkg]; decide +kernel
example : Dpkg.dpkgOrder (ver "1.0") (ver "1.0-0") = .eq := by rw [← C12_order_is_dpkg]; decide +kernel
example : Dpkg.verrevcmp "1.0a".toList "1.0+".toList < 0 := by decide +kernel
example : DebVersion.compare (ver "2:1.9-3") (ver "2:1.10-1~bpo1") = .lt := by
  rw [C12_order_is_dpkg]; decide +kernel

/-! ## B. the sample facts with "both texts parse" -/

/-- the record `Version::from_str` returns for `s` is `v` -/
abbrev parsesTo (s : String) (v : V) : Prop := Version.parse s.toList = some v

/-- every text used in `C12_order_facts` is accepted by `Version::from_str` … -/
theorem C12_order_facts_parse :
    (["1.0~rc1", "1.0", "1.0~~", "1.0~", "1.0~rc1-1", "1.0-1", "1:0", "9", "0:1.0", "1.0-1+b1", "1.0-0",
      "1.9", "1.10", "1.01", "1.1", "1.0a", "1.0+", "1.0.0", "1.0A", "1-2-3", "1-2-4", "1.0+b1"].all
        fun s => (Version.parse s.toList).isSome) = true := by decide +kernel

/-- … and the three equivalences hold between PARSED versions (not between two refused texts):
    absent epoch = 0, absent revision = 0, leading zeros -/
theorem C12_order_facts_strict :
    (∃ v w, parsesTo "0:1.0" v ∧ parsesTo "1.0" w ∧ DebVersion.compare v w = .eq ∧ Dpkg.dpkgOrder v w = .eq) ∧
    (∃ v w, parsesTo "1.0" v ∧ parsesTo "1.0-0" w ∧ DebVersion.compare v w = .eq ∧ Dpkg.dpkgOrder v w = .eq) ∧
    (∃ v w, parsesTo "1.01" v ∧ parsesTo "1.1" w ∧ DebVersion.compare v w = .eq ∧ Dpkg.dpkgOrder v w = .eq) ∧
    -- a refused text is not a version: `ver` maps it to junk, and junk = junk
    Version.parse "1_0".toList = none ∧ Version.parse "".toList = none ∧
    DebVersion.compare (ver "1_0") (ver "") = .eq := by
  refine ⟨⟨⟨some 0, "1.0".toList, none⟩, ⟨none, "1.0".toList, none⟩, by decide +kernel, by decide +kernel, ?_, ?_⟩,
    ⟨⟨none, "1.0".toList, none⟩, ⟨none, "1.0".toList, some "0".toList⟩, by decide +kernel, by decide +kernel, ?_, ?_⟩,
    ⟨⟨none, "1.01".toList, none⟩, ⟨none, "1.1".toList, none⟩, by decide +kernel, by decide +kernel, ?_, ?_⟩,
    by decide +kernel, by decide +kernel, by decide +kernel⟩
  all_goals first
    | (rw [← C12_order_is_dpkg]; decide +kernel)
    | decide +kernel

/-! ## C. the domain of the real comparison -/

/-- every value `Version::from_str` returns has version characters only -/
theorem C12_parse_valid (s : Str) (v : V) (h : Version.parse s = some v) : validV v = true := parse_valid h

/-- **on version characters the byte-index twin (= the real `Version::cmp`, `ver.cmpraw`) is
    `compareO`** — whatever the size of the numbers (panics of F-C12-1 included) -/
theorem C12_compareB_valid (v w : V) (hv : validV v = true) (hw : validV w = true) :
    compareB v w = compareO v w := compareB_valid v w hv hw

/-- **`C12_compareO_small` with its domain stated**: version characters only and every digit run
    within `i32`: the real comparison does not panic and is the Debian (dpkg) order -/
theorem C12_compareB_small_valid (v w : V) (hv : validV v = true) (hw : validV w = true)
    (sv : small v = true) (sw : small w = true) :
    compareB v w = .ok (Dpkg.dpkgOrder v w) := by
  rw [compareB_valid v w hv hw, C12_compareO_small v w sv sw, C12_order_is_dpkg]

/-- **outside `validV` the real code panics where `compareO` answers** (candidate defect D4 of the
    audit, third-party crate, outside "valid version texts"): `Version { upstream_version: "é1" }`
    compared with itself — `"é1".chars().position(is_digit) = 1`, `&"é1"[..1]` is inside `é`. Every
    digit run is small, so `small` does not exclude it; `validV` does. A non-ASCII character AFTER
    the digits (`1é`) or without digits (`é`) does not panic; two of them before the digit do. -/
theorem C12_compareB_nonascii_witness :
    validV ⟨none, "é1".toList, none⟩ = false ∧ small ⟨none, "é1".toList, none⟩ = true ∧
    (compareB ⟨none, "é1".toList, none⟩ ⟨none, "é1".toList, none⟩).isOk = false ∧
    compareO ⟨none, "é1".toList, none⟩ ⟨none, "é1".toList, none⟩ = .ok .eq ∧
    (compareB ⟨none, "éé1".toList, none⟩ ⟨none, "éé1".toList, none⟩).isOk = false ∧
    compareB ⟨none, "éé1".toList, none⟩ ⟨none, "1".toList, none⟩ = .ok .gt ∧   -- decided before the bad cut
    (compareB ⟨none, "1.0".toList, some "é1".toList⟩ ⟨none, "1.0".toList, none⟩).isOk = false ∧
    compareB ⟨none, "1é".toList, none⟩ ⟨none, "1é".toList, none⟩ = .ok .eq ∧
    compareB ⟨none, "é".toList, none⟩ ⟨none, "1".toList, none⟩ = .ok .gt ∧
    -- through the evaluator: `a (>= 1)` with a lookup closure that returns the hand-built value
    (relationsSatYO compareB (fun _ => some ⟨none, "é1".toList, none⟩)
      [[⟨"a".toList, some (.GreaterThanEqual, ver "1")⟩]]).isOk = false ∧
    relationsSatYO compareO (fun _ => some ⟨none, "é1".toList, none⟩)
      [[⟨"a".toList, some (.GreaterThanEqual, ver "1")⟩]] = .ok true := by
  decide +kernel

/-- "valid and small": the hypothesis on a version under which the real comparison is the Debian order -/
def okV (v : V) : Bool := validV v && small v

/-- **`C12_spec_real` with its domain stated.** If every version of the field and every installed
    version of a package the field mentions has version characters only and numeric components
    within `i32`, the lossy evaluator with the real `Version::cmp` (byte-index twin) does not panic
    and decides satisfaction under dpkg's order. -/
theorem C12_spec_real_valid (lk : Lookup) (f : FieldY)
    (hf : ∀ e ∈ f, ∀ r ∈ e, (r.version.all fun p => okV p.2) = true)
    (hl : ∀ e ∈ f, ∀ r ∈ e, ((lk r.name).all okV) = true) :
    ∃ b, relationsSatYO compareB lk f = .ok b ∧ (b = true ↔ Satisfied Dpkg.dpkgOrder lk f) := by
  have hf' : ∀ e ∈ f, ∀ r ∈ e, (r.version.all fun p => small p.2) = true := by
    intro e he r hr
    have := hf e he r hr
    cases hv : r.version with
    | none => rfl
    | some p => rw [hv] at this; simp only [Option.all_some, okV, Bool.and_eq_true] at this ⊢; exact this.2
  have hl' : ∀ e ∈ f, ∀ r ∈ e, ((lk r.name).all small) = true := by
    intro e he r hr
    have := hl e he r hr
    cases hv : lk r.name with
    | none => rfl
    | some p => rw [hv] at this; simp only [Option.all_some, okV, Bool.and_eq_true] at this ⊢; exact this.2
  obtain ⟨b, hb, hiff⟩ := C12_spec_real lk f hf' hl'
  refine ⟨b, ?_, by rw [← C12_order_is_dpkg_fun]; exact hiff⟩
  rw [← hb]
  unfold relationsSatYO
  apply allO_congr
  intro e he
  apply anyO_congr
  intro r hr
  unfold relSatYO
  cases hv : r.version with
  | none => rfl
  | some p =>
    obtain ⟨vc, w⟩ := p
    cases hk : lk r.name with
    | none => rfl
    | some v =>
      have h1 := hf e he r hr
      have h2 := hl e he r hr
      simp only [hv, hk, Option.all_some, okV, Bool.and_eq_true] at h1 h2
      simp only [compareB_valid v w h2.1 h1.1]

/-- a version written in a well-formed field has version characters only -/
theorem written_valid (v : VersionA) (hv : v.ok = true) : validV v.value = true :=
  parse_valid (Version.parse_written v hv)

/-- every relation written in a well-formed field is well-formed -/
theorem rels_ok (f : FieldA) (h : f.WF) : ∀ a ∈ f.rels, a.ok = true := by
  have hok : ∀ s ∈ f.segs, s.ok = true := by
    simpa [FieldA.WF, FieldA.ok, List.all_eq_true] using h
  intro a ha
  obtain ⟨s, hs, hr⟩ := List.mem_flatMap.1 ha
  have hso := ((Seg.ok_iff s).1 (hok s hs)).2.2.1
  cases he : s.entry with
  | empty => simp [he, EntryA.rels] at hr
  | substvar p ps => simp [he, EntryA.rels] at hr
  | alts r0 rest =>
    rw [he] at hso hr
    simp only [EntryA.ok, Bool.and_eq_true, List.all_eq_true] at hso
    simp only [EntryA.rels, List.mem_cons, List.mem_map] at hr
    rcases hr with rfl | ⟨b, hb, rfl⟩
    · exact hso.1
    · exact ((AltA.ok_iff b).1 (hso.2 b hb)).2.2

theorem rel_version_ok {f : FieldA} (h : f.WF) {a : RelA} (ha : a ∈ f.rels) {p : VerPart}
    (hp : a.version = some p) : p.ver.ok = true := by
  have hr : a.ok = true := rels_ok f h a ha
  unfold RelA.ok at hr
  simp only [Bool.and_eq_true] at hr
  have := hr.1.1.2
  rw [hp] at this
  simp only [VerPart.ok, Bool.and_eq_true] at this
  exact this.2

/-- the hypotheses of `C12_spec_real_valid` from hypotheses on the field as written: the written
    versions are valid by construction, so only their `small`-ness and the installed versions remain -/
theorem okV_view (f : FieldA) (h : f.WF) (lk : Lookup)
    (hf : ∀ a ∈ f.rels, ∀ p, a.version = some p → small p.ver.value = true)
    (hl : ∀ a ∈ f.rels, ((lk a.name).all okV) = true) :
    (∀ e ∈ fieldY f.view, ∀ r ∈ e, (r.version.all fun p => okV p.2) = true) ∧
    (∀ e ∈ fieldY f.view, ∀ r ∈ e, ((lk r.name).all okV) = true) := by
  constructor
  · intro e he r hr
    obtain ⟨a, ha, rfl⟩ := mem_fieldY_view f he hr
    cases hp : a.version with
    | none => simp [recY, RelA.view, hp]
    | some p =>
      have h1 := hf a ha p hp
      have h2 := written_valid p.ver (rel_version_ok h ha hp)
      simp [recY, RelA.view, hp, okV, h1, h2]
  · intro e he r hr
    obtain ⟨a, ha, rfl⟩ := mem_fieldY_view f he hr
    exact hl a ha

/-- **`C12_text_real_lossless` with its domain stated, under dpkg's order.** Well-formed field text;
    every written version has numeric components within `i32`; every installed version of a package
    the field names has version characters only (true of everything `Version::from_str` returns)
    and numeric components within `i32`. Then `Relations::satisfied_by` on the tree parsed from the
    text, with the real `Version::cmp`, does not panic and decides satisfaction under dpkg's order. -/
theorem C12_text_real_lossless_valid (f : FieldA) (h : f.WF) (allow : Bool)
    (ha : allow = true ∨ f.hasSubstvar = false) (lk : Lookup)
    (hf : ∀ a ∈ f.rels, ∀ p, a.version = some p → small p.ver.value = true)
    (hl : ∀ a ∈ f.rels, ((lk a.name).all okV) = true) :
    ∃ b, relationsSatLO compareB lk (parse f.str allow).tree = .ok b ∧
      (b = true ↔ FieldA.SatisfiedBy Dpkg.dpkgOrder lk f) := by
  obtain ⟨h1, h2⟩ := okV_view f h lk hf hl
  obtain ⟨b, hb, hiff⟩ := C12_spec_real_valid lk (fieldY f.view) h1 h2
  exact ⟨b, by rw [C12_losslessO_eq_lossyO compareB lk _ _ (viewL_text f h allow ha)]; exact hb,
    hiff.trans (satisfied_view_iff _ lk f)⟩

/-- **`C12_text_real_lossy` with its domain stated**: the lossy reader and evaluator, same Boolean as
    the lossless ones -/
theorem C12_text_real_lossy_valid (f : FieldA) (h : f.WF) (hs : f.hasSubstvar = false) (allow : Bool)
    (lk : Lookup)
    (hf : ∀ a ∈ f.rels, ∀ p, a.version = some p → small p.ver.value = true)
    (hl : ∀ a ∈ f.rels, ((lk a.name).all okV) = true) :
    ∃ rs b, Lossy.readRelations f.str = .ok rs ∧
      relationsSatYO compareB lk (fieldY rs) = .ok b ∧
      relationsSatLO compareB lk (parse f.str allow).tree = .ok b ∧
      (b = true ↔ FieldA.SatisfiedBy Dpkg.dpkgOrder lk f) := by
  obtain ⟨h1, h2⟩ := okV_view f h lk hf hl
  obtain ⟨b, hb, hiff⟩ := C12_spec_real_valid lk (fieldY f.view) h1 h2
  refine ⟨f.view, b, C10.C10_lossy f h hs, hb, ?_, hiff.trans (satisfied_view_iff _ lk f)⟩
  rw [C12_losslessO_eq_lossyO compareB lk _ _ (viewL_text f h allow (Or.inr hs))]; exact hb

/-- the i32 hypothesis still cannot be dropped (F-C12-1), also for the byte-index twin -/
theorem C12_text_real_valid_panic_witness :
    exBigField.WF ∧
    (relationsSatLO compareB (Lookup.ofMap [(['a'], ver "1")]) (parse exBigField.str false).tree).isOk = false := by
  decide +kernel

/-! ## D. lookup forms -/

/-- **The answer depends on the lookup only through its point values on the names the field
    mentions** — for all four evaluators at once (lossless tree / lossy records, with any comparison
    that may panic). `C12_lookup_forms` is about the three Lean one-liners `Lookup.ofMap / ofFn /
    ofPair`; what ties the three RUST impls of `VersionLookup` (`HashMap<String, Version>`,
    closures, `(String, Version)`; lib.rs:115-138) to them is the harness op `lk.forms`, which
    compares `lookup_version(name)` of each impl with these functions name by name. By this theorem
    point-wise agreement is all the evaluators can see. -/
theorem C12_lookup_pointwise (cmpO : V → V → Outcome Ordering) (lk lk' : Lookup) (root : RNode) (f : FieldY)
    (hview : viewL root = .ok f) (h : ∀ e ∈ f, ∀ r ∈ e, lk r.name = lk' r.name) :
    relationsSatLO cmpO lk root = relationsSatLO cmpO lk' root ∧
    relationsSatYO cmpO lk f = relationsSatYO cmpO lk' f := by
  have hy : relationsSatYO cmpO lk f = relationsSatYO cmpO lk' f := by
    unfold relationsSatYO
    apply allO_congr
    intro e he
    apply anyO_congr
    intro r hr
    unfold relSatYO
    rw [h e he r hr]
  exact ⟨by rw [C12_losslessO_eq_lossyO cmpO lk root f hview, C12_losslessO_eq_lossyO cmpO lk' root f hview, hy], hy⟩

/-! ## non-vacuity -/

-- C12_spec_dpkg / C12_spec_lossless_dpkg on the example of Props/C12.lean
example : Satisfied Dpkg.dpkgOrder (Lookup.ofMap exMap) exField :=
  (C12_spec_dpkg _ exField).1 (by decide +kernel)
example : Satisfied Dpkg.dpkgOrder (Lookup.ofMap exMap) exField :=
  (C12_spec_lossless_dpkg _ _ exField exView).1 (by decide +kernel)

-- C12_text_*_dpkg on the example field of Props/C12Text.lean
example : ∃ b, relationsSatL DebVersion.compare (Lookup.ofMap exTextMap) (parse exTextField.str false).tree = .ok b ∧
    (b = true ↔ FieldA.SatisfiedBy Dpkg.dpkgOrder (Lookup.ofMap exTextMap) exTextField) :=
  (C12_text_lossless_dpkg exTextField exTextField_wf false (Or.inr exTextField_nosub) _).2
example : ∃ rs b, Lossy.readRelations exTextField.str = .ok rs ∧
    relationsSatYO (total DebVersion.compare) (Lookup.ofMap exTextMap) (fieldY rs) = .ok b ∧
    (b = true ↔ FieldA.SatisfiedBy Dpkg.dpkgOrder (Lookup.ofMap exTextMap) exTextField) :=
  C12_text_lossy_dpkg exTextField exTextField_wf exTextField_nosub _

-- C12_compareB_valid / C12_compareB_small_valid / C12_parse_valid: a parsed pair
example : compareB (ver "1:2.0~rc1-1") (ver "2147483647") = .ok (Dpkg.dpkgOrder (ver "1:2.0~rc1-1") (ver "2147483647")) :=
  C12_compareB_small_valid _ _ (by decide +kernel) (by decide +kernel) (by decide +kernel) (by decide +kernel)
example : validV (ver "1:2.0~rc1-1") = true :=
  C12_parse_valid "1:2.0~rc1-1".toList _ (by decide +kernel)
-- … and a valid pair on which both panic alike (F-C12-1): validity does not need smallness
example : compareB (ver "2147483648") (ver "1") = compareO (ver "2147483648") (ver "1") :=
  C12_compareB_valid _ _ (by decide +kernel) (by decide +kernel)

-- C12_spec_real_valid, C12_text_real_*_valid: hypotheses hold for the examples
example : ∃ b, relationsSatYO compareB (Lookup.ofMap exMap) exField = .ok b ∧
    (b = true ↔ Satisfied Dpkg.dpkgOrder (Lookup.ofMap exMap) exField) :=
  C12_spec_real_valid _ exField (by decide +kernel) (by decide +kernel)

theorem exText_ok_lk : ∀ a ∈ exTextField.rels, (((Lookup.ofMap exTextMap) a.name).all okV) = true := by
  decide +kernel

example : ∃ b, relationsSatLO compareB (Lookup.ofMap exTextMap) (parse exTextField.str false).tree = .ok b ∧
    (b = true ↔ FieldA.SatisfiedBy Dpkg.dpkgOrder (Lookup.ofMap exTextMap) exTextField) :=
  C12_text_real_lossless_valid exTextField exTextField_wf false (Or.inr exTextField_nosub) _
    exText_small_f exText_ok_lk
example : ∃ rs b, Lossy.readRelations exTextField.str = .ok rs ∧
    relationsSatYO compareB (Lookup.ofMap exTextMap) (fieldY rs) = .ok b ∧
    relationsSatLO compareB (Lookup.ofMap exTextMap) (parse exTextField.str true).tree = .ok b ∧
    (b = true ↔ FieldA.SatisfiedBy Dpkg.dpkgOrder (Lookup.ofMap exTextMap) exTextField) :=
  C12_text_real_lossy_valid exTextField exTextField_wf exTextField_nosub true _ exText_small_f exText_ok_lk

-- C12_lookup_pointwise: a map and a closure that agree on `a`, `b`, `c` only
example : relationsSatLO compareO (Lookup.ofMap exMap) (field exText)
    = relationsSatLO compareO (Lookup.ofFn fun n => if n = "zzz".toList then some (ver "1") else exMap.lookup n) (field exText) :=
  (C12_lookup_pointwise compareO _ _ (field exText) exField exView (by decide +kernel)).1

end Deb822Verif.Props.C12Order
