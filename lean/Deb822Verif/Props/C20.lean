import Deb822Verif.Model.TypedDoc
import Deb822Verif.Props.C03
import Deb822Verif.Props.C08
import Deb822Verif.Props.C16
import Deb822Verif.Gen.Structs
import Deb822Verif.Lemmas.DebReaderCanon
/-!
# C20 — typed lossy documents are stable under print/reparse and match the lossless view
-/
namespace Deb822Verif.Props.C20
open Deb822Verif Deb Deb.Lossy Spec Derive TypedDoc

/-! ## Part A — what both readers make of a printed canonical document -/

theorem splitOn_ne_nil (sep : Char) (s : Str) : Text.splitOn sep s ≠ [] := by
  induction s with
  | nil => simp [Text.splitOn]
  | cons c cs ih =>
    simp only [Text.splitOn]
    split
    · simp
    · split <;> simp

theorem join_cons_head (c : Char) (l : Str) (ls : List Str) :
    Text.join ['\n'] ((c :: l) :: ls) = c :: Text.join ['\n'] (l :: ls) := by
  cases ls <;> simp [Text.join]

/-- a value is the `\n`-join of its lines -/
theorem join_splitOn (v : Str) : Text.join ['\n'] (Text.splitOn '\n' v) = v := by
  induction v with
  | nil => simp [Text.splitOn, Text.join]
  | cons c cs ih =>
    simp only [Text.splitOn]
    split
    · rename_i hc
      cases hs : Text.splitOn '\n' cs with
      | nil => exact absurd hs (splitOn_ne_nil _ _)
      | cons y r =>
        rw [hs] at ih
        simp [Text.join, ih, hc]
    · cases hs : Text.splitOn '\n' cs with
      | nil => exact absurd hs (splitOn_ne_nil _ _)
      | cons y r =>
        rw [hs] at ih
        simp only
        rw [join_cons_head, ih]

/-- the domain of the lossy round trip (C08), for a document given as field lists: every
    paragraph non-empty, names valid, values canonical when split at LF (`Spec.canonDocB`) -/
def CanonD (D : Doc) : Prop :=
  ∀ p ∈ D, p ≠ [] ∧ ∀ f ∈ p, ValidKey f.1 ∧ CanonLines (Text.splitOn '\n' f.2)

/-- no non-empty value starts with an empty line (the lossless reader does not show such a line) -/
def NoBlankFirst (D : Doc) : Prop := ∀ p ∈ D, ∀ f ∈ p, (Text.splitOn '\n' f.2).head? = some [] → f.2 = []

def fieldL (f : Field) : C08.FieldL := (f.1, Text.splitOn '\n' f.2)

def toDocL : Doc → C08.DocL
  | [] => []
  | [] :: ps => toDocL ps
  | (f :: fs) :: ps => (fieldL f, fs.map fieldL) :: toDocL ps

theorem fieldOf_fieldL (f : Field) : C08.fieldOf (fieldL f) = f := by
  simp [C08.fieldOf, fieldL, C08.valueOf, join_splitOn]

theorem lossyOfDocL_toDocL (D : Doc) (h : ∀ p ∈ D, p ≠ []) : C08.lossyOfDocL (toDocL D) = D := by
  induction D with
  | nil => rfl
  | cons p ps ih =>
    have ihh := ih (fun q hq => h q (by simp [hq]))
    cases p with
    | nil => exact absurd rfl (h [] (by simp))
    | cons f fs =>
      simp only [toDocL, C08.lossyOfDocL, List.map_cons, fieldOf_fieldL, List.map_map] at ihh ⊢
      rw [ihh]
      congr 2
      have : C08.fieldOf ∘ fieldL = id := by funext x; exact fieldOf_fieldL x
      simp [this]

theorem canonDoc_toDocL (D : Doc) (h : CanonD D) : C08.CanonDoc (toDocL D) := by
  induction D with
  | nil => intro p hp; simp [toDocL] at hp
  | cons p ps ih =>
    have ihh := ih (fun q hq => h q (by simp [hq]))
    obtain ⟨hne, hf⟩ := h p (by simp)
    cases p with
    | nil => exact absurd rfl hne
    | cons f fs =>
      intro q hq
      simp only [toDocL, List.mem_cons] at hq
      rcases hq with rfl | hq
      · refine ⟨hf f (by simp), ?_⟩
        intro g hg
        simp only [List.mem_map] at hg
        obtain ⟨g', hg', rfl⟩ := hg
        exact hf g' (by simp [hg'])
      · exact ihh q hq

/-- **lossy reader** on the printed text of a canonical document: the same document -/
theorem read_printDoc (D : Doc) (h : CanonD D) : Lossy.read (printDoc D) = .ok D := by
  have := (C08.C08_roundtrip (toDocL D) (canonDoc_toDocL D h)).1
  rwa [lossyOfDocL_toDocL D (fun p hp => (h p hp).1)] at this

theorem entryOf_content (k : Str) (ls : List Str) (h : ls.head? ≠ some [] ∨ ls = [[]]) (hne : ls ≠ []) :
    (C08.entryOf k ls).content = (k, C08.valueOf ls) := by
  rcases h with h | rfl
  · cases ls with
    | nil => exact absurd rfl hne
    | cons a r =>
      have ha : a ≠ [] := by intro e; apply h; simp [e]
      simp [EntryS.content, EntryS.valueLines, C08.entryOf, C08.valueOf, ha, List.map_map, Function.comp_def]
  · simp [EntryS.content, EntryS.valueLines, C08.entryOf, C08.valueOf, Text.join]

theorem paraOf_content (f : C08.FieldL) (fs : List C08.FieldL)
    (h : ∀ g ∈ f :: fs, (g.2.head? ≠ some [] ∨ g.2 = [[]]) ∧ g.2 ≠ []) :
    (C08.paraOf f fs).content = C08.fieldOf f :: fs.map C08.fieldOf := by
  have hf := h f (by simp)
  simp only [ParaS.content, C08.paraOf, entryOf_content _ _ hf.1 hf.2, C08.fieldOf, List.map_map]
  congr 1
  induction fs with
  | nil => rfl
  | cons g gs ih =>
    have hg := h g (by simp)
    have := ih (fun x hx => h x (by
      simp only [List.mem_cons] at hx ⊢
      rcases hx with rfl | hx
      · left; rfl
      · right; right; exact hx))
    simp only [List.map_cons, List.flatten_cons, Function.comp_apply, PItem.content,
      entryOf_content _ _ hg.1 hg.2, List.singleton_append, this, C08.fieldOf]

theorem docOf_content (d : C08.DocL)
    (h : ∀ p ∈ d, ∀ g ∈ p.1 :: p.2, (g.2.head? ≠ some [] ∨ g.2 = [[]]) ∧ g.2 ≠ []) :
    (⟨[], C08.docOf d⟩ : DocS).content = C08.lossyOfDocL d := by
  simp only [DocS.content, C08.lossyOfDocL]
  induction d with
  | nil => rfl
  | cons p d ih =>
    have hp := h p (by simp)
    have ihd := ih (fun q hq => h q (by simp [hq]))
    cases d with
    | nil => simp [C08.docOf, paraOf_content _ _ hp]
    | cons q d =>
      simp only [C08.docOf, List.map_cons] at ihd ⊢
      rw [paraOf_content _ _ hp, ihd]

theorem blank_cases (f : Field) (h : (Text.splitOn '\n' f.2).head? = some [] → f.2 = []) :
    (fieldL f).2.head? ≠ some [] ∨ (fieldL f).2 = [[]] := by
  by_cases hh : (Text.splitOn '\n' f.2).head? = some []
  · right; simp [fieldL, h hh, Text.splitOn]
  · left; exact hh

/-- **lossless reader** on the printed text of a canonical document whose values do not start with
    an empty line: it is accepted and shows exactly the same (name, value) lists -/
theorem readStrict_printDoc (D : Doc) (h : CanonD D) (hb : NoBlankFirst D) :
    ∃ t, readStrict (printDoc D) = .ok t ∧ docItems t = D := by
  have hc := canonDoc_toDocL D h
  have hwf := C08.docOf_wf (toDocL D) hc
  have hstr := C08.docOf_str (toDocL D) hc
  have hacc := C03.C03_accept _ hwf
  rw [lossyOfDocL_toDocL D (fun p hp => (h p hp).1)] at hstr
  refine ⟨_, by rw [hstr]; exact hacc.1, ?_⟩
  rw [hacc.2, docOf_content, lossyOfDocL_toDocL D (fun p hp => (h p hp).1)]
  -- the side condition of docOf_content, from NoBlankFirst / CanonD
  clear hwf hstr hacc hc
  induction D with
  | nil => intro p hp; simp [toDocL] at hp
  | cons p ps ih =>
    have hpn := (h p (by simp)).1
    cases p with
    | nil => exact absurd rfl hpn
    | cons f fs =>
      intro q hq
      simp only [toDocL, List.mem_cons] at hq
      rcases hq with rfl | hq
      · intro g hg
        simp only [List.mem_cons, List.mem_map] at hg
        rcases hg with rfl | ⟨g', hg', rfl⟩
        · exact ⟨blank_cases _ (hb (f :: fs) (by simp) f (by simp)), splitOn_ne_nil _ _⟩
        · exact ⟨blank_cases _ (hb (f :: fs) (by simp) g' (by simp [hg'])), splitOn_ne_nil _ _⟩
      · exact ih (fun q hq => h q (by simp [hq])) (fun q hq => hb q (by simp [hq])) q hq

/-! ## Part B — stability: `TypedDoc.parse (TypedDoc.print v) = ok v` (hence the second TypedDoc.print is identical) -/

/-- the struct-level hypotheses of C16 for one value -/
structure Good (spec : Spec) (v : SV) : Prop where
  nodup : (specKeys spec).Nodup
  wf : WellFormed spec v
  codecs : CodecsRoundTrip spec v

theorem from_toFields (spec : Spec) (v : SV) (h : Good spec v) :
    fromFields (lookupFirst (toFields spec v)) spec = .ok v :=
  C16.fromFields_of_reads _ spec v
    (C16.reads_toFields spec v h.nodup (C16.wellFormed_length spec v h.wf)) h.wf h.codecs

theorem from_paraOf (spec : Spec) (v : SV) (h : Good spec v) :
    fromFields (lookupFirst (paraOf spec v)) spec = .ok v := from_toFields spec v h

theorem get_eq_lookup (p : DNode) : Deb.get p = lookupFirst (items p) := by
  funext k; exact C03.C03_get_first p k

theorem pget_eq_lookup (p : Para) : Lossy.pget p = lookupFirst p := by
  funext k; rfl

theorem fromLL_of_items (spec : Spec) (p : DNode) (v : SV) (hi : items p = paraOf spec v) (h : Good spec v) :
    fromLL spec p = .ok v := by
  unfold fromLL
  rw [get_eq_lookup, hi, from_paraOf spec v h]; rfl

theorem get_of_items (spec : Spec) (p : DNode) (v : SV) (hi : items p = paraOf spec v) (k : Str) :
    Deb.get p k = lookupFirst (paraOf spec v) k := by
  rw [get_eq_lookup, hi]

/-- the lossless reader on a printed canonical document, as a list of paragraphs -/
theorem llParas_print (D : Doc) (h : CanonD D) (hb : NoBlankFirst D) :
    ∃ ps, llParas (printDoc D) = .ok ps ∧ ps.map items = D := by
  obtain ⟨t, ht, hd⟩ := readStrict_printDoc D h hb
  exact ⟨paragraphs t, by simp [llParas, ht], hd⟩

/-- the whole printed document is canonical (`Spec.canonDocB` decides `CanonD`) and no value
    starts with an empty line -/
structure PrintsCanon (k : DocKind) (v : TV) : Prop where
  canon : CanonD (docOf k v)
  noBlank : NoBlankFirst (docOf k v)

/-! ### one-paragraph documents -/

theorem C20_stable_lossyPara (spec : Spec) (v : SV) (hg : Good spec v)
    (hc : CanonD [paraOf spec v]) :
    TypedDoc.parse (.lossyPara spec) (TypedDoc.print (.lossyPara spec) (.single v)) = .ok (.single v) := by
  have hr := read_printDoc _ hc
  simp only [TypedDoc.parse, TypedDoc.print, docOf, parseLossyPara, lyPara, Lossy.readPara, hr, fromLY, pget_eq_lookup,
    from_paraOf spec v hg, liftMsg]

theorem C20_stable_losslessPara (spec : Spec) (v : SV) (hg : Good spec v)
    (hc : PrintsCanon (.losslessPara spec) (.single v)) :
    TypedDoc.parse (.losslessPara spec) (TypedDoc.print (.losslessPara spec) (.single v)) = .ok (.single v) := by
  obtain ⟨t, ht, hd⟩ := readStrict_printDoc _ hc.canon hc.noBlank
  simp only [docOf, docItems] at hd ht
  cases hp : paragraphs t with
  | nil => rw [hp] at hd; simp at hd
  | cons p ps =>
    rw [hp] at hd
    simp only [List.map_cons, List.cons.injEq, List.map_eq_nil_iff] at hd
    simp only [TypedDoc.parse, TypedDoc.print, docOf, parseLosslessPara, llPara, ht, hp, fromLL_of_items spec p v hd.1 hg]

theorem fallback_none (key : Str) (spec : Spec) (v : SV) : fallback key none spec v = v := by
  induction spec generalizing v with
  | nil => cases v <;> rfl
  | cons f fs ih =>
    cases v with
    | nil => rfl
    | cons x xs =>
      simp only [fallback]
      split
      · cases x <;> rfl
      · rw [ih]

theorem lookup_paraOf_none (spec : Spec) (v : SV) (k : Str) (hk : k ∉ specKeys spec) :
    lookupFirst (paraOf spec v) k = none :=
  C16.lookupFirst_none_of_not_key _ _ (fun hm => hk (C16.toFields_keys_subset spec v k hm))

/-- DEP-3 header: after one TypedDoc.print the `From`/`Subject` fall-backs have nothing left to do -/
theorem C20_stable_dep3 (spec : Spec) (v : SV) (hg : Good spec v)
    (hc : PrintsCanon (.dep3 spec) (.single v))
    (hFrom : kFrom ∉ specKeys spec) (hSubject : kSubject ∉ specKeys spec) :
    TypedDoc.parse (.dep3 spec) (TypedDoc.print (.dep3 spec) (.single v)) = .ok (.single v) := by
  obtain ⟨t, ht, hd⟩ := readStrict_printDoc _ hc.canon hc.noBlank
  simp only [docOf, docItems] at hd ht
  cases hp : paragraphs t with
  | nil => rw [hp] at hd; simp at hd
  | cons p ps =>
    rw [hp] at hd
    simp only [List.map_cons, List.cons.injEq, List.map_eq_nil_iff] at hd
    simp only [TypedDoc.parse, TypedDoc.print, docOf, parseDep3, llPara, ht, hp, fromLL_of_items spec p v hd.1 hg,
      get_of_items spec p v hd.1, lookup_paraOf_none spec v _ hFrom, lookup_paraOf_none spec v _ hSubject,
      fallback_none]

/-! ### APT sources list -/

theorem reposLoop_ok (R : Spec) (l : List SV) (ps : List DNode) (hps : ps.map items = l.map (paraOf R))
    (hg : ∀ r ∈ l, Good R r) : reposLoop R ps = .ok l := by
  induction l generalizing ps with
  | nil => simp at hps; subst hps; rfl
  | cons r rs ih =>
    cases ps with
    | nil => simp at hps
    | cons p ps' =>
      simp only [List.map_cons, List.cons.injEq] at hps
      simp only [reposLoop, fromLL_of_items R p r hps.1 (hg r (by simp)),
        ih ps' hps.2 (fun x hx => hg x (by simp [hx]))]

theorem C20_stable_repos (R : Spec) (l : List SV) (hg : ∀ r ∈ l, Good R r)
    (hc : PrintsCanon (.repos R) (.repos l)) :
    TypedDoc.parse (.repos R) (TypedDoc.print (.repos R) (.repos l)) = .ok (.repos l) := by
  obtain ⟨ps, hps, hd⟩ := llParas_print _ hc.canon hc.noBlank
  simp only [docOf] at hd hps
  simp only [TypedDoc.parse, TypedDoc.print, docOf, parseRepos, hps, reposLoop_ok R l ps hd hg]

/-! ### control file -/

theorem controlLoop_bins (S B : Spec) (bins : List SV) (ps : List DNode) (src : SV) (acc : List SV)
    (hps : ps.map items = bins.map (paraOf B)) (hg : ∀ b ∈ bins, Good B b)
    (hk : ∀ b ∈ bins, (lookupFirst (paraOf B b) kPackage).isSome = true) :
    controlLoop S B ps (some src) acc = .ok (.control src (acc ++ bins)) := by
  induction bins generalizing ps acc with
  | nil => simp at hps; subst hps; simp [controlLoop]
  | cons b bs ih =>
    cases ps with
    | nil => simp at hps
    | cons p ps' =>
      simp only [List.map_cons, List.cons.injEq] at hps
      have hp : (Deb.get p kPackage).isSome = true := by
        rw [get_of_items B p b hps.1]; exact hk b (by simp)
      simp only [controlLoop, hp, ↓reduceIte, fromLL_of_items B p b hps.1 (hg b (by simp))]
      rw [ih ps' (acc ++ [b]) hps.2 (fun x hx => hg x (by simp [hx])) (fun x hx => hk x (by simp [hx]))]
      simp

/-- control file: source paragraph first, binaries after it — the shape `Display` prints.
    `hNoPkg`: the source struct has no `Package` field; `hSrcKey` / `hBinKey`: the distinguishing
    fields are present in the printed paragraphs (they are mandatory fields of the shipped structs) -/
theorem C20_stable_control (S B : Spec) (src : SV) (bins : List SV)
    (hgs : Good S src) (hgb : ∀ b ∈ bins, Good B b)
    (hc : PrintsCanon (.control S B) (.control src bins))
    (hNoPkg : kPackage ∉ specKeys S)
    (hSrcKey : (lookupFirst (paraOf S src) kSource).isSome = true)
    (hBinKey : ∀ b ∈ bins, (lookupFirst (paraOf B b) kPackage).isSome = true) :
    TypedDoc.parse (.control S B) (TypedDoc.print (.control S B) (.control src bins)) = .ok (.control src bins) := by
  obtain ⟨ps, hps, hd⟩ := llParas_print _ hc.canon hc.noBlank
  simp only [docOf, docControl] at hd hps
  cases ps with
  | nil => simp at hd
  | cons p ps' =>
    simp only [List.map_cons, List.cons.injEq] at hd
    have h1 : (Deb.get p kPackage).isSome = false := by
      rw [get_of_items S p src hd.1, lookup_paraOf_none S src _ hNoPkg]; rfl
    have h2 : (Deb.get p kSource).isSome = true := by rw [get_of_items S p src hd.1]; exact hSrcKey
    simp only [TypedDoc.parse, TypedDoc.print, docOf, docControl, parseControl, hps, controlLoop, h1, h2,
      Bool.false_eq_true, ↓reduceIte, Option.isSome_none, fromLL_of_items S p src hd.1 hgs]
    rw [controlLoop_bins S B bins ps' src [] hd.2 hgb hBinKey]
    simp

/-! ### copyright file -/

theorem copyrightLoop_files (F L : Spec) (fs : List SV) (ps rest : List DNode) (acc ls : List SV)
    (hps : ps.map items = fs.map (paraOf F)) (hg : ∀ f ∈ fs, Good F f)
    (hk : ∀ f ∈ fs, (lookupFirst (paraOf F f) kFiles).isSome = true) :
    copyrightLoop F L (ps ++ rest) acc ls = copyrightLoop F L rest (acc ++ fs) ls := by
  induction fs generalizing ps acc with
  | nil => simp at hps; subst hps; simp
  | cons f fs' ih =>
    cases ps with
    | nil => simp at hps
    | cons p ps' =>
      simp only [List.map_cons, List.cons.injEq] at hps
      have hp : (Deb.get p kFiles).isSome = true := by
        rw [get_of_items F p f hps.1]; exact hk f (by simp)
      simp only [List.cons_append, copyrightLoop, hp, ↓reduceIte, fromLL_of_items F p f hps.1 (hg f (by simp))]
      rw [ih ps' (acc ++ [f]) hps.2 (fun x hx => hg x (by simp [hx])) (fun x hx => hk x (by simp [hx]))]
      simp

theorem copyrightLoop_lics (F L : Spec) (lics : List SV) (ps : List DNode) (fs acc : List SV)
    (hps : ps.map items = lics.map (paraOf L)) (hg : ∀ l ∈ lics, Good L l)
    (hnf : kFiles ∉ specKeys L)
    (hk : ∀ l ∈ lics, (lookupFirst (paraOf L l) kLicense).isSome = true) :
    copyrightLoop F L ps fs acc = .ok (fs, acc ++ lics) := by
  induction lics generalizing ps acc with
  | nil => simp at hps; subst hps; simp [copyrightLoop]
  | cons l ls ih =>
    cases ps with
    | nil => simp at hps
    | cons p ps' =>
      simp only [List.map_cons, List.cons.injEq] at hps
      have h1 : (Deb.get p kFiles).isSome = false := by
        rw [get_of_items L p l hps.1, lookup_paraOf_none L l _ hnf]; rfl
      have h2 : (Deb.get p kLicense).isSome = true := by
        rw [get_of_items L p l hps.1]; exact hk l (by simp)
      simp only [copyrightLoop, h1, h2, Bool.false_eq_true, ↓reduceIte,
        fromLL_of_items L p l hps.1 (hg l (by simp))]
      rw [ih ps' (acc ++ [l]) hps.2 (fun x hx => hg x (by simp [hx])) (fun x hx => hk x (by simp [hx]))]
      simp

theorem printField_prefix (k v : Str) : (k ++ [':']).isPrefixOf (printField (k, v)) = true := by
  unfold printField
  simp only
  rw [List.isPrefixOf_iff_prefix]
  exact ⟨(List.map (fun l => ' ' :: l ++ ['\n']) (Text.splitOn '\n' v)).flatten, by simp [List.append_assoc]⟩

/-- copyright file: header, Files paragraphs, licence paragraphs — the order `Display` prints.
    `hFormat`: the header prints `Format` first (the gate `starts_with("Format:")`) -/
theorem C20_stable_copyright (H F L : Spec) (h : SV) (fs ls : List SV)
    (hgh : Good H h) (hgf : ∀ f ∈ fs, Good F f) (hgl : ∀ l ∈ ls, Good L l)
    (hc : PrintsCanon (.copyright H F L) (.copyright h fs ls))
    (hFormat : ∃ v0 rest, paraOf H h = (c!"Format", v0) :: rest)
    (hFilesKey : ∀ f ∈ fs, (lookupFirst (paraOf F f) kFiles).isSome = true)
    (hNoFiles : kFiles ∉ specKeys L)
    (hLicKey : ∀ l ∈ ls, (lookupFirst (paraOf L l) kLicense).isSome = true) :
    TypedDoc.parse (.copyright H F L) (TypedDoc.print (.copyright H F L) (.copyright h fs ls)) = .ok (.copyright h fs ls) := by
  obtain ⟨ps, hps, hd⟩ := llParas_print _ hc.canon hc.noBlank
  simp only [docOf, docCopyright] at hd hps
  have hgate : formatGate.isPrefixOf (TypedDoc.print (.copyright H F L) (.copyright h fs ls)) = true := by
    obtain ⟨v0, rest, he⟩ := hFormat
    have hp := printField_prefix (c!"Format") v0
    simp only [TypedDoc.print, docOf, docCopyright, he]
    have : ∀ tail, formatGate.isPrefixOf (printPara ((c!"Format", v0) :: rest) ++ tail) = true := by
      intro tail
      simp only [printPara, List.map_cons, List.flatten_cons, List.append_assoc]
      rw [List.isPrefixOf_iff_prefix] at hp ⊢
      exact List.IsPrefix.trans hp (List.prefix_append _ _)
    cases hrest : (fs.map (paraOf F) ++ ls.map (paraOf L)) with
    | nil => simpa [printDoc] using this []
    | cons q qs => simpa [printDoc] using this _
  cases ps with
  | nil => simp at hd
  | cons p ps' =>
    simp only [List.map_cons, List.cons.injEq] at hd
    obtain ⟨hd1, hd2⟩ := hd
    -- split the remaining paragraphs into the Files part and the licence part
    have hsplit : ∃ pf pl, ps' = pf ++ pl ∧ pf.map items = fs.map (paraOf F) ∧ pl.map items = ls.map (paraOf L) := by
      refine ⟨ps'.take fs.length, ps'.drop fs.length, (List.take_append_drop _ _).symm, ?_, ?_⟩
      · rw [List.map_take, hd2]; simp
      · rw [List.map_drop, hd2]; simp
    obtain ⟨pf, pl, rfl, hpf, hpl⟩ := hsplit
    have hps' : llParas (TypedDoc.print (.copyright H F L) (.copyright h fs ls)) = .ok (p :: (pf ++ pl)) := by
      simpa [TypedDoc.print, docOf, docCopyright] using hps
    simp only [TypedDoc.parse, parseCopyright, hgate, Bool.true_eq_false, ↓reduceIte, hps',
      fromLL_of_items H p h hd1 hgh]
    rw [copyrightLoop_files F L fs pf pl [] [] hpf hgf hFilesKey]
    rw [copyrightLoop_lics F L ls pl ([] ++ fs) [] hpl hgl hNoFiles hLicKey]
    simp

/-- **stable** in the form of the property: printing, re-reading and printing again gives the same
    text (any kind), once `TypedDoc.parse (TypedDoc.print v) = ok v` -/
theorem C20_second_print (k : DocKind) (v : TV) (h : TypedDoc.parse k (TypedDoc.print k v) = .ok v) :
    (TypedDoc.parse k (TypedDoc.print k v)).map (TypedDoc.print k) = .ok (TypedDoc.print k v) := by
  rw [h]; rfl

/-! ## Part C — structural negatives are errors (with the texts the code fixes) -/

example : eNoSource = "no source paragraph".toList ∧ eManySource = "more than one source paragraph".toList
    ∧ eNeitherControl = "paragraph without Source or Package field".toList
    ∧ eNotMachine = "Not machine readable".toList ∧ eNoParagraphs = "No paragraphs".toList
    ∧ eNeitherCopyright = "Paragraph is neither License nor Files".toList
    ∧ eExpectedEof = "Expected end-of-file".toList ∧ eUnexpectedEof = "Unexpected end-of-file".toList := by decide

/-- control: a paragraph with neither `Package` nor `Source` -/
theorem C20_rejects_control_neither (S B : Spec) (p : DNode) (ps : List DNode) (src : Option SV) (bins : List SV)
    (h1 : Deb.get p kPackage = none) (h2 : Deb.get p kSource = none) :
    controlLoop S B (p :: ps) src bins = .error (.msg eNeitherControl) := by
  simp [controlLoop, h1, h2]

/-- control: a second source paragraph -/
theorem C20_rejects_control_second_source (S B : Spec) (p : DNode) (ps : List DNode) (s : SV) (bins : List SV)
    (h1 : Deb.get p kPackage = none) (h2 : (Deb.get p kSource).isSome = true) :
    controlLoop S B (p :: ps) (some s) bins = .error (.msg eManySource) := by
  simp [controlLoop, h1, h2]

/-- control: only binary paragraphs (or none at all) → `no source paragraph` -/
theorem C20_rejects_control_no_source (S B : Spec) (ps : List DNode) (bins : List SV)
    (h : ∀ p ∈ ps, (Deb.get p kPackage).isSome = true ∧ ∃ b, fromLL B p = .ok b) :
    controlLoop S B ps none bins = .error (.msg eNoSource) := by
  induction ps generalizing bins with
  | nil => rfl
  | cons p ps ih =>
    obtain ⟨hp, b, hb⟩ := h p (by simp)
    simp only [controlLoop, hp, ↓reduceIte, hb]
    exact ih _ (fun q hq => h q (by simp [hq]))

/-- any struct, either reader: the first field that cannot be read is an absent mandatory field →
    `missing field: <key>` -/
theorem C20_rejects_missing_field (g : Str → Option Str) (pre post : Spec) (f : FieldSpec Val) (xs : SV)
    (hpre : fromFields g pre = .ok xs) (hm : f.optional = false) (hg : g f.key = none) :
    liftMsg (fromFields g (pre ++ f :: post)) = .error (.msg (errMissing f.key)) := by
  rw [C16.fromFields_append_ok g pre (f :: post) xs hpre]
  simp [fromFields, readField, hg, hm, liftMsg]

/-- copyright: the `Format:` gate, an empty document, a paragraph of neither kind -/
theorem C20_rejects_copyright_gate (H F L : Spec) (s : Str) (h : formatGate.isPrefixOf s = false) :
    TypedDoc.parse (.copyright H F L) s = .error (.msg eNotMachine) := by
  simp [TypedDoc.parse, parseCopyright, h]

theorem C20_rejects_copyright_neither (F L : Spec) (p : DNode) (ps : List DNode) (fs ls : List SV)
    (h1 : Deb.get p kFiles = none) (h2 : Deb.get p kLicense = none) :
    copyrightLoop F L (p :: ps) fs ls = .error (.msg eNeitherCopyright) := by
  simp [copyrightLoop, h1, h2]

/-- apt stanzas (lossy paragraph reader): no paragraph / more than one paragraph -/
theorem C20_rejects_stanza_count (spec : Spec) (s : Str) :
    (Lossy.read s = .ok [] → TypedDoc.parse (.lossyPara spec) s = .error (.msg eUnexpectedEof))
    ∧ (∀ p q r, Lossy.read s = .ok (p :: q :: r) →
        TypedDoc.parse (.lossyPara spec) s = .error (.msg eExpectedEof)) := by
  constructor
  · intro h; simp [TypedDoc.parse, parseLossyPara, lyPara, Lossy.readPara, h]
  · intro p q r h; simp [TypedDoc.parse, parseLossyPara, lyPara, Lossy.readPara, h]

/-- removal / buildinfo / DEP-3 (lossless paragraph reader): a text without paragraphs -/
theorem C20_rejects_no_paragraph (spec : Spec) (s : Str) (t : DNode) (h : readStrict s = .ok t)
    (hp : paragraphs t = []) :
    TypedDoc.parse (.losslessPara spec) s = .error (.msg eNoParagraphsLL)
    ∧ TypedDoc.parse (.dep3 spec) s = .error (.msg eNoParagraphsLL) := by
  simp [TypedDoc.parse, parseLosslessPara, parseDep3, llPara, h, hp]

/-- whole-text witnesses through the readers, for a two-field toy control schema -/
def toyS : Spec := [⟨c!"Source", false, strCodec.ser, strCodec.de⟩, ⟨c!"Section", true, strCodec.ser, strCodec.de⟩]
def toyB : Spec := [⟨c!"Package", false, strCodec.ser, strCodec.de⟩, ⟨c!"Architecture", false, strCodec.ser, strCodec.de⟩]

theorem C20_rejects_witnesses :
    TypedDoc.parse (.control toyS toyB) "Package: p\nArchitecture: all\n".toList = .error (.msg eNoSource)
    ∧ TypedDoc.parse (.control toyS toyB) "Source: a\n\nSource: b\n".toList = .error (.msg eManySource)
    ∧ TypedDoc.parse (.control toyS toyB) "Source: a\n\nX: y\n".toList = .error (.msg eNeitherControl)
    ∧ TypedDoc.parse (.control toyS toyB) "Source: a\n\nPackage: p\n".toList
        = .error (.msg "missing field: Architecture".toList)
    ∧ TypedDoc.parse (.control toyS toyB) "Source: a\n\nPackage: p\nArchitecture: all\n".toList
        = .ok (.control [some (.str "a".toList), none] [[some (.str "p".toList), some (.str "all".toList)]]) := by
  decide +kernel

/-! ## Part D — the typed value and the lossless view -/

/-- field by field, whichever reader supplied the paragraph: each field of the value is the
    deserialised text the paragraph shows under the field's key (absent ⇒ absent optional) -/
theorem C20_fieldwise (g : Str → Option Str) (spec : Spec) (v : SV) (h : fromFields g spec = .ok v) :
    ∀ fx ∈ spec.zip v,
      match g fx.1.key with
      | none => fx.2 = none ∧ fx.1.optional = true
      | some t => ∃ y, fx.1.de t = .ok y ∧ fx.2 = some y := by
  induction spec generalizing v with
  | nil => intro fx hfx; simp at hfx
  | cons f fs ih =>
    simp only [fromFields] at h
    cases hr : readField g f with
    | error e => rw [hr] at h; simp at h
    | ok x =>
      rw [hr] at h
      simp only at h
      cases hf : fromFields g fs with
      | error e => rw [hf] at h; simp at h
      | ok xs =>
        rw [hf] at h
        simp only [Except.ok.injEq] at h
        subst h
        intro fx hfx
        simp only [List.zip_cons_cons, List.mem_cons] at hfx
        rcases hfx with rfl | hfx
        · simp only
          unfold readField at hr
          cases hg : g f.key with
          | none =>
            rw [hg] at hr
            simp only
            cases ho : f.optional with
            | true => simp [ho] at hr; exact ⟨hr.symm, rfl⟩
            | false => simp [ho] at hr
          | some t =>
            rw [hg] at hr
            simp only
            cases hd : f.de t with
            | ok y => simp [hd] at hr; exact ⟨y, rfl, hr.symm⟩
            | error e => simp [hd] at hr
        · exact ih xs hf fx hfx

/-- apt stanzas are read with the lossy reader; on a printed canonical stanza the lossless reader
    shows the same paragraph, so the typed value (or error) obtained through it is the same.
    (For arbitrary well-formed texts — comments, irregular white space, values with an empty first
    line — `C06_joint_accept` gives agreement of the two readers on the non-blank value lines only;
    the step from there to equal typed values is not proved.) -/
theorem C20_matches_lossless (spec : Spec) (para : Para) (hc : CanonD [para]) (hb : NoBlankFirst [para]) :
    lyPara (printDoc [para]) = .ok para
    ∧ ∃ p, llPara (printDoc [para]) = .ok p ∧ items p = para ∧ fromLL spec p = fromLY spec para := by
  have hr := read_printDoc _ hc
  obtain ⟨t, ht, hd⟩ := readStrict_printDoc _ hc hb
  simp only [docItems] at hd
  refine ⟨by simp [lyPara, Lossy.readPara, hr], ?_⟩
  cases hp : paragraphs t with
  | nil => rw [hp] at hd; simp at hd
  | cons p ps =>
    rw [hp] at hd
    simp only [List.map_cons, List.cons.injEq] at hd
    refine ⟨p, by simp [llPara, ht, hp], hd.1, ?_⟩
    unfold fromLL fromLY
    rw [get_eq_lookup, hd.1, pget_eq_lookup]

/-- the lossless-reader kinds read every paragraph with `Paragraph::get`, i.e. the value is built
    from exactly what the lossless view shows (instance of `C20_fieldwise`) -/
theorem C20_lossless_kinds_fieldwise (spec : Spec) (p : DNode) (v : SV) (h : fromLL spec p = .ok v) :
    ∀ fx ∈ spec.zip v,
      match Deb.get p fx.1.key with
      | none => fx.2 = none ∧ fx.1.optional = true
      | some t => ∃ y, fx.1.de t = .ok y ∧ fx.2 = some y := by
  apply C20_fieldwise
  unfold fromLL liftMsg at h
  cases hf : fromFields (Deb.get p) spec with
  | ok x => rw [hf] at h; simp at h; rw [h]
  | error e => rw [hf] at h; simp at h

/-! ## Part E — which serialised field values are canonical -/

theorem splitOn_no_nl (s : Str) (h : '\n' ∉ s) : Text.splitOn '\n' s = [s] := C06.splitOn_single s h

/-- a one-line, non-empty text that does not start with space/tab is a canonical value -/
theorem canon_single (s : Str) (hne : s ≠ []) (hnl : NoNl s)
    (hf : ∀ c, s.head? = some c → isIndent c = false) : CanonLines (Text.splitOn '\n' s) := by
  have h1 : '\n' ∉ s := by
    intro hm; have := hnl _ hm; simp [isNewline] at this
  rw [splitOn_no_nl s h1]
  refine ⟨by simp, ?_, ?_, by simp⟩
  · intro l hl; simp at hl; subst hl; exact hnl
  · intro c hc; simp at hc; exact hf c hc

/-- keyword values, booleans, yes/no: every printed form is canonical -/
theorem C20_canon_keywords :
    (∀ e ∈ Gen.Enums.all, ∀ kw ∈ Enum.printed e, CanonLines (Text.splitOn '\n' kw))
    ∧ (∀ b, CanonLines (Text.splitOn '\n' (boolText b)))
    ∧ (∀ b, CanonLines (Text.splitOn '\n' (yesnoText b))) := by
  refine ⟨by decide +kernel, ?_, ?_⟩ <;> intro b <;> cases b <;> decide +kernel

theorem ws_of_newline (c : Char) (h : isNewline c = true) : Text.isWhitespace c = true := by
  simp only [isNewline, Bool.or_eq_true, beq_iff_eq] at h
  rcases h with rfl | rfl <;> decide

theorem ws_of_indent (c : Char) (h : isIndent c = true) : Text.isWhitespace c = true := by
  simp only [isIndent, Bool.or_eq_true, beq_iff_eq] at h
  rcases h with rfl | rfl <;> decide

theorem not_newline_of_not_ws (c : Char) (h : Text.isWhitespace c = false) : isNewline c = false := by
  cases hn : isNewline c with
  | false => rfl
  | true => rw [ws_of_newline c hn] at h; simp at h

theorem not_indent_of_not_ws (c : Char) (h : Text.isWhitespace c = false) : isIndent c = false := by
  cases hn : isIndent c with
  | false => rfl
  | true => rw [ws_of_indent c hn] at h; simp at h

/-- unsigned integers print canonically -/
theorem C20_canon_nat (n : Nat) : CanonLines (Text.splitOn '\n' (Codec.decDigits n)) := by
  have hws : ∀ c ∈ Codec.decDigits n, Text.isWhitespace c = false := (C18.decDigits_tok n).2
  apply canon_single _ (C18.decDigits_ne_nil n)
  · intro c hc; exact not_newline_of_not_ws c (hws c hc)
  · intro c hc
    have hm : c ∈ Codec.decDigits n := by
      cases hdd : Codec.decDigits n with
      | nil => rw [hdd] at hc; simp at hc
      | cons a as => rw [hdd] at hc; simp at hc; rw [← hc]; simp
    exact not_indent_of_not_ws c (hws c hm)

/-- a non-empty list of words joined by single spaces (Components, Architectures, Suites, …) is canonical -/
theorem C20_canon_words (l : List Str) (hne : l ≠ []) (h : ∀ w ∈ l, C18.Tok w) :
    CanonLines (Text.splitOn '\n' (joinWith [' '] l)) := by
  have hmem : ∀ c ∈ joinWith [' '] l, c = ' ' ∨ ∃ w ∈ l, c ∈ w := by
    induction l with
    | nil => intro c hc; simp [joinWith, Text.join] at hc
    | cons x r ih =>
      cases r with
      | nil => intro c hc; simp [joinWith, Text.join] at hc; right; exact ⟨x, by simp, hc⟩
      | cons y r' =>
        intro c hc
        simp only [joinWith, Text.join, List.append_assoc, List.mem_append, List.mem_singleton] at hc
        rcases hc with hc | hc | hc
        · right; exact ⟨x, by simp, hc⟩
        · left; exact hc
        · rcases ih (by simp) (fun w hw => h w (by simp [hw])) c (by simpa [joinWith] using hc) with h1 | ⟨w, hw, hcw⟩
          · left; exact h1
          · right; exact ⟨w, by simp [hw], hcw⟩
  cases l with
  | nil => exact absurd rfl hne
  | cons x r =>
    have hx := h x (by simp)
    obtain ⟨a, as, hxa⟩ : ∃ a as, x = a :: as := by
      cases x with
      | nil => exact absurd rfl hx.1
      | cons a as => exact ⟨a, as, rfl⟩
    have hhead : (joinWith [' '] (x :: r)).head? = some a := by
      subst hxa
      cases r <;> simp [joinWith, Text.join]
    apply canon_single
    · intro e; rw [e] at hhead; simp at hhead
    · intro c hc
      rcases hmem c hc with rfl | ⟨w, hw, hcw⟩
      · decide
      · exact not_newline_of_not_ws c ((h w hw).2 c hcw)
    · intro c hc
      rw [hhead] at hc
      simp only [Option.some.injEq] at hc
      subst hc
      exact not_indent_of_not_ws _ (hx.2 _ (by rw [hxa]; simp))

/-! ### repository types and the buildinfo environment (sorted joins since e958a7d / fe15555) -/

theorem lookup_mem_values (k : Str) (t : List (Str × Str)) (v : Str) (h : Enum.lookup k t = some v) :
    v ∈ t.map (·.2) := by
  induction t with
  | nil => simp [Enum.lookup] at h
  | cons p r ih =>
    simp only [Enum.lookup] at h
    split at h
    · simp at h; simp [h]
    · simp [ih h]

def fourTypes : List (List Str) := [[], [c!"deb"], [c!"deb-src"], [c!"deb", c!"deb-src"]]

theorem typesDe_image (ws acc : List Str) (l : List Str) (hacc : acc ∈ fourTypes)
    (h : typesDe ws acc = .ok l) : l ∈ fourTypes := by
  induction ws generalizing acc with
  | nil => simp [typesDe] at h; rw [← h]; exact hacc
  | cons w ws ih =>
    simp only [typesDe] at h
    cases hp : Enum.parseOf Gen.Enums.repositoryType w with
    | none => rw [hp] at h; simp at h
    | some k =>
      rw [hp] at h
      simp only at h
      apply ih _ _ h
      have hk : k ∈ Gen.Enums.repositoryType.parseTab.map (·.2) := by
        unfold Enum.parseOf at hp
        cases hl : Enum.lookup (Enum.normalise Gen.Enums.repositoryType.norm w) Gen.Enums.repositoryType.parseTab with
        | none => rw [hl] at hp; have : Gen.Enums.repositoryType.catchAll = .reject := by decide
                  simp [this] at hp
        | some v => rw [hl] at hp; simp at hp; rw [← hp]; exact lookup_mem_values _ _ _ hl
      have step : ∀ k ∈ Gen.Enums.repositoryType.parseTab.map (·.2), ∀ a ∈ fourTypes,
          insertSorted ((Enum.printOf Gen.Enums.repositoryType k).getD []) a ∈ fourTypes := by decide +kernel
      exact step k hk acc hacc

/-- **Types**: whatever text was read, the value is one of the four sets, it survives
    `serialize_types` / `deserialize_types`, and its printed form is a canonical value (the empty
    set prints as the empty text) -/
theorem C20_types_stable (t : Str) (v : Val) (h : typesCodec.de t = .ok v) :
    typesCodec.canon v ∧ typesCodec.de (typesCodec.ser v) = .ok v
    ∧ (v ≠ .list [] → CanonLines (Text.splitOn '\n' (typesCodec.ser v))) := by
  have hcanon : typesCodec.canon v := by
    simp only [typesCodec] at h
    cases hd : typesDe (Text.splitWhitespace t) [] with
    | error e => rw [hd] at h; simp at h
    | ok l =>
      rw [hd] at h
      simp only [Except.ok.injEq] at h
      subst h
      have := typesDe_image _ [] l (by simp [fourTypes]) hd
      simp only [fourTypes, List.mem_cons, List.mem_nil_iff, or_false] at this
      rcases this with rfl | rfl | rfl | rfl
      · left; rfl
      · right; left; rfl
      · right; right; left; rfl
      · right; right; right; rfl
  refine ⟨hcanon, C16.types_ok v hcanon, ?_⟩
  intro hne
  rcases hcanon with rfl | rfl | rfl | rfl
  · exact absurd rfl hne
  · have : sortStrings [c!"deb"] = [c!"deb"] := C16.sortStrings_sorted _ (by simp)
    simp only [typesCodec, this]; decide +kernel
  · have : sortStrings [c!"deb-src"] = [c!"deb-src"] := C16.sortStrings_sorted _ (by simp)
    simp only [typesCodec, this]; decide +kernel
  · have : sortStrings [c!"deb", c!"deb-src"] = [c!"deb", c!"deb-src"] :=
      C16.sortStrings_sorted _ (by simp; decide)
    simp only [typesCodec, this]; decide +kernel

theorem rawLines_chars (t : Str) : ∀ lf ∈ Text.rawLines t, ∀ c ∈ lf.1, c ∈ t ∧ c ≠ '\n' := by
  induction t with
  | nil => intro lf h; simp [Text.rawLines] at h
  | cons x xs ih =>
    intro lf h c hc
    simp only [Text.rawLines] at h
    split at h
    · simp only [List.mem_cons] at h
      rcases h with rfl | h
      · simp at hc
      · have := ih lf h c hc; exact ⟨by simp [this.1], this.2⟩
    · rename_i hx
      cases hr : Text.rawLines xs with
      | nil =>
        rw [hr] at h; simp at h; subst h
        simp at hc; subst hc; exact ⟨by simp, hx⟩
      | cons q qs =>
        rw [hr] at h
        simp only [List.mem_cons] at h
        rcases h with rfl | h
        · simp only [List.mem_cons] at hc
          rcases hc with rfl | hc
          · exact ⟨by simp, hx⟩
          · have := ih q (by rw [hr]; simp) c hc; exact ⟨by simp [this.1], this.2⟩
        · have := ih lf (by rw [hr]; simp [h]) c hc; exact ⟨by simp [this.1], this.2⟩

theorem lines_chars (t : Str) : ∀ l ∈ Text.lines t, ∀ c ∈ l, c ∈ t ∧ c ≠ '\n' := by
  intro l hl c hc
  simp only [Text.lines, List.mem_map] at hl
  obtain ⟨lf, hlf, rfl⟩ := hl
  have hsub : c ∈ lf.1 := by
    split at hc
    · unfold Text.stripCR at hc
      split at hc
      · exact (List.dropLast_subset _) hc
      · exact hc
    · exact hc
  exact rawLines_chars t lf hlf c hsub

theorem splitOnFirst_eq (l k v : Str) (h : Codec.splitOnFirst ['='] l = some (k, v)) :
    '=' ∉ k ∧ l = k ++ '=' :: v := by
  induction l generalizing k with
  | nil => simp [Codec.splitOnFirst] at h
  | cons c cs ih =>
    simp only [Codec.splitOnFirst] at h
    split at h
    · rename_i hp
      simp at h
      have hc : c = '=' := by
        have : '=' = c := by simpa [List.isPrefixOf] using hp
        exact this.symm
      subst hc
      obtain ⟨rfl, rfl⟩ := h
      simp
    · rename_i hp
      have hc : c ≠ '=' := by
        intro e; apply hp; subst e; simp [List.isPrefixOf]
      cases hr : Codec.splitOnFirst ['='] cs with
      | none => rw [hr] at h; simp at h
      | some r =>
        rw [hr] at h
        simp only [Option.some.injEq, Prod.mk.injEq] at h
        obtain ⟨rfl, rfl⟩ := h
        obtain ⟨h1, h2⟩ := ih r.1 (by rw [hr])
        refine ⟨?_, by rw [h2]; simp⟩
        intro hm
        simp only [List.mem_cons] at hm
        rcases hm with hm | hm
        · exact hc hm.symm
        · exact h1 hm

theorem envDe_image (ls : List Str) (acc m : List (Str × Str)) (hs : MapSorted acc)
    (h : envDe ls acc = .ok m) :
    MapSorted m ∧ ∀ p ∈ m, p ∈ acc ∨ ∃ l ∈ ls, Codec.splitOnFirst ['='] l = some p := by
  induction ls generalizing acc with
  | nil => simp [envDe] at h; subst h; exact ⟨hs, fun p hp => Or.inl hp⟩
  | cons l ls ih =>
    simp only [envDe] at h
    cases hsp : Codec.splitOnFirst ['='] l with
    | none => rw [hsp] at h; simp at h
    | some kv =>
      rw [hsp] at h
      simp only at h
      obtain ⟨h1, h2⟩ := ih _ (C16.mapInsert_sorted kv.1 kv.2 acc hs) h
      refine ⟨h1, ?_⟩
      intro p hp
      rcases h2 p hp with hp' | ⟨l', hl', hs'⟩
      · rcases C16.mem_mapInsert _ _ _ p hp' with rfl | hp''
        · right; exact ⟨l, by simp, hsp⟩
        · left; exact hp''
      · right; exact ⟨l', by simp [hl'], hs'⟩

/-- **Environment**: every map read from a text without CR survives `serialize_env` /
    `deserialize_env`, for any number of variables -/
theorem C20_env_stable (t : Str) (m : List (Str × Str)) (hcr : '\r' ∉ t)
    (h : envCodec.de t = .ok (.map m)) :
    envCodec.canon (.map m) ∧ envCodec.de (envCodec.ser (.map m)) = .ok (.map m) := by
  have hcanon : envCodec.canon (.map m) := by
    simp only [envCodec] at h
    cases hd : envDe (Text.lines t) [] with
    | error e => rw [hd] at h; simp at h
    | ok m' =>
      rw [hd] at h
      simp only [Except.ok.injEq, Val.map.injEq] at h
      subst h
      obtain ⟨hs, hm⟩ := envDe_image _ [] m' (by simp [MapSorted]) hd
      refine ⟨m', rfl, hs, ?_⟩
      intro p hp
      rcases hm p hp with hp' | ⟨l, hl, hsp⟩
      · simp at hp'
      · obtain ⟨h1, h2⟩ := splitOnFirst_eq l p.1 p.2 hsp
        have hch := lines_chars t l hl
        have hin1 : ∀ c ∈ p.1, c ∈ l := fun c hc => by rw [h2]; simp [hc]
        have hin2 : ∀ c ∈ p.2, c ∈ l := fun c hc => by rw [h2]; simp [hc]
        refine ⟨h1, fun hm' => (hch _ (hin1 _ hm')).2 rfl, fun hm' => (hch _ (hin2 _ hm')).2 rfl, ?_⟩
        intro hlast
        have : '\r' ∈ envPiece p := List.mem_of_getLast? hlast
        have hl' : '\r' ∈ l := by rw [h2]; simpa [envPiece] using this
        exact hcr (hch _ hl').1
  exact ⟨hcanon, C16.env_ok _ hcanon⟩

/-- the printed environment is a canonical value when every `K=V` piece could stand on a
    continuation line (no line-break characters, not starting with space, tab or `#`) -/
theorem C20_env_canonical (m : List (Str × Str)) (hne : m ≠ [])
    (h : ∀ p ∈ m, ValidCont (envPiece p)) : CanonLines (Text.splitOn '\n' (envSer m)) := by
  have hperm : List.Perm (sortStrings (m.map envPiece)) (m.map envPiece) := List.mergeSort_perm _ _
  have hall : ∀ w ∈ sortStrings (m.map envPiece), ValidCont w := by
    intro w hw
    have := hperm.subset hw
    simp only [List.mem_map] at this
    obtain ⟨p, hp, rfl⟩ := this
    exact h p hp
  have hne' : sortStrings (m.map envPiece) ≠ [] := by
    intro e
    have := hperm.length_eq
    rw [e] at this
    cases m with
    | nil => exact hne rfl
    | cons a r => simp at this
  have hnl : ∀ w ∈ sortStrings (m.map envPiece), '\n' ∉ w := by
    intro w hw hm
    have := (hall w hw).1 _ hm
    simp [isNewline] at this
  simp only [envSer, joinWith]
  rw [C06.splitOn_join _ hne' hnl]
  refine ⟨hne', fun l hl => (hall l hl).1, ?_, fun l hl => hall l (List.mem_of_mem_tail hl)⟩
  intro c hc
  cases hs : sortStrings (m.map envPiece) with
  | nil => exact absurd hs hne'
  | cons w ws =>
    rw [hs] at hc
    simp only [List.head?_cons, Option.bind_some] at hc
    obtain ⟨_, c', cs, hw, hi, _⟩ := hall w (by rw [hs]; simp)
    rw [hw] at hc
    simp at hc
    rw [← hc]; exact hi

/-- **not canonical**: a `Files` list is read by white-space splitting and printed one pattern
    per line; a later pattern that starts with `#` becomes a comment line (finding F-C20-5) -/
theorem C20_filelist_not_canonical :
    fileListCodec.de "x #y".toList = .ok (.list ["x".toList, "#y".toList])
    ∧ ¬ CanonLines (Text.splitOn '\n' (fileListCodec.ser (.list ["x".toList, "#y".toList]))) := by
  constructor <;> decide +kernel

/-- over the generated table: the fields that use this codec pair -/
theorem C20_noncanonical_fields :
    (Gen.Structs.all.flatMap fun s => (s.fields.filter fun f =>
        f.de = c!"debiancopyright.deserialize_file_list").map
      fun f => (s.name, f.key))
    = [(c!"debiancopyright.Header", c!"Files-Excluded"),
       (c!"debiancopyright.FilesParagraph", c!"Files")] := by decide +kernel

/-! ## Part F — the shipped structs meet the structural hypotheses of Part B -/

/-- a mandatory field is in the printed paragraph of every well-formed value -/
theorem present_of_mandatory (spec : Spec) (v : SV) (hn : (specKeys spec).Nodup) (hw : WellFormed spec v)
    (f : FieldSpec Val) (hf : f ∈ spec) (hm : f.optional = false) :
    (lookupFirst (paraOf spec v) f.key).isSome = true := by
  have hr := C16.reads_toFields spec v hn (C16.wellFormed_length spec v hw)
  have hg := C16.reads_get _ spec v hr
  -- find the value paired with f
  have hex : ∃ x, (f, x) ∈ spec.zip v ∧ x.isSome = true := by
    clear hr hg hn
    induction spec generalizing v with
    | nil => simp at hf
    | cons g gs ih =>
      cases v with
      | nil => simp [WellFormed] at hw
      | cons x xs =>
        simp only [WellFormed] at hw
        simp only [List.mem_cons] at hf
        rcases hf with rfl | hf
        · exact ⟨x, by simp, hw.1 hm⟩
        · obtain ⟨y, hy, hys⟩ := ih xs hw.2 hf
          exact ⟨y, by simp [hy], hys⟩
  obtain ⟨x, hx, hxs⟩ := hex
  have := hg (f, x) hx
  simp only at this
  rw [paraOf, this]
  cases x with
  | none => simp at hxs
  | some y => rfl

def rowKeys (id : Str) : List Str :=
  match Gen.Structs.all.find? (·.name == id) with
  | some s => s.fields.map (·.key)
  | none => []

def rowMandatory (id : Str) : List Str :=
  match Gen.Structs.all.find? (·.name == id) with
  | some s => (s.fields.filter (fun f => !f.optional)).map (·.key)
  | none => []

/-- facts about the generated table used as hypotheses of `C20_stable_*`: the distinguishing
    fields are mandatory fields of their structs, a source paragraph cannot look like a binary one,
    a licence paragraph cannot look like a Files paragraph, the header prints `Format` first, the
    DEP-3 header owns neither `From` nor `Subject`, and every key is a valid field name -/
theorem C20_table_facts :
    kSource ∈ rowMandatory (c!"control.Source") ∧ kPackage ∉ rowKeys (c!"control.Source")
    ∧ kPackage ∈ rowMandatory (c!"control.Binary")
    ∧ (rowKeys (c!"debiancopyright.Header")).head? = some (c!"Format") ∧ (c!"Format") ∈ rowMandatory (c!"debiancopyright.Header")
    ∧ kFiles ∈ rowMandatory (c!"debiancopyright.FilesParagraph")
    ∧ kLicense ∈ rowMandatory (c!"debiancopyright.LicenseParagraph") ∧ kFiles ∉ rowKeys (c!"debiancopyright.LicenseParagraph")
    ∧ kFrom ∉ rowKeys (c!"dep3.PatchHeader") ∧ kSubject ∉ rowKeys (c!"dep3.PatchHeader")
    ∧ (∀ s ∈ Gen.Structs.all, ∀ f ∈ s.fields, ValidKey f.key) := by
  refine ⟨by decide +kernel, by decide +kernel, by decide +kernel, by decide +kernel, by decide +kernel,
    by decide +kernel, by decide +kernel, by decide +kernel, by decide +kernel, by decide +kernel, ?_⟩
  decide +kernel

/-! ## Part G — rejection of structurally invalid documents, at the level of `parse` -/

def hasKey (p : DNode) (k : Str) : Bool := (Deb.get p k).isSome

/-- a successful `from_paragraph` implies that every mandatory field was there -/
theorem fromFields_ok_mandatory (g : Str → Option Str) (spec : Spec) (v : SV)
    (h : fromFields g spec = .ok v) : ∀ f ∈ spec, f.optional = false → (g f.key).isSome = true := by
  intro f hf hm
  cases hg : g f.key with
  | some t => rfl
  | none =>
    obtain ⟨pre, post, rfl⟩ := List.append_of_mem hf
    -- either an earlier field fails or this one does
    cases hpre : fromFields g pre with
    | error e =>
      have : fromFields g (pre ++ f :: post) = .error e := by
        clear h hf
        induction pre with
        | nil => simp [fromFields] at hpre
        | cons a as ih =>
          simp only [List.cons_append, fromFields] at hpre ⊢
          cases hr : readField g a with
          | error e' => rw [hr] at hpre; simp at hpre; simp [hpre]
          | ok x =>
            rw [hr] at hpre
            simp only at hpre ⊢
            cases hf' : fromFields g as with
            | ok xs => rw [hf'] at hpre; simp at hpre
            | error e' =>
              rw [hf'] at hpre; simp at hpre; subst hpre
              rw [ih hf']
      rw [this] at h; simp at h
    | ok xs =>
      have := C16.fromFields_append_ok g pre (f :: post) xs hpre
      rw [this] at h
      simp [fromFields, readField, hg, hm] at h

theorem fromLL_ok_mandatory (spec : Spec) (p : DNode) (v : SV) (h : fromLL spec p = .ok v) :
    ∀ f ∈ spec, f.optional = false → hasKey p f.key = true := by
  unfold fromLL liftMsg at h
  cases hf : fromFields (Deb.get p) spec with
  | ok x => exact fromFields_ok_mandatory _ spec x hf
  | error e => rw [hf] at h; simp at h

/-- number of source-class paragraphs: no `Package`, but `Source` -/
def isSourcePara (p : DNode) : Bool := !hasKey p kPackage && hasKey p kSource
def isNeitherControl (p : DNode) : Bool := !hasKey p kPackage && !hasKey p kSource

theorem controlLoop_ok_inv (S B : Spec) (ps : List DNode) (src0 : Option SV) (bins0 : List SV) (v : TV)
    (h : controlLoop S B ps src0 bins0 = .ok v) :
    (∀ p ∈ ps, isNeitherControl p = false)
    ∧ ((ps.filter isSourcePara).length + (if src0.isSome then 1 else 0) = 1)
    ∧ (∀ p ∈ ps, hasKey p kPackage = true → ∃ b, fromLL B p = .ok b)
    ∧ (∀ p ∈ ps, isSourcePara p = true → ∃ s, fromLL S p = .ok s) := by
  induction ps generalizing src0 bins0 with
  | nil =>
    simp only [controlLoop] at h
    cases src0 with
    | none => simp at h
    | some s => simp
  | cons p ps ih =>
    simp only [controlLoop] at h
    by_cases hp : (Deb.get p kPackage).isSome = true
    · simp only [hp, ↓reduceIte] at h
      cases hb : fromLL B p with
      | error e => rw [hb] at h; simp at h
      | ok b =>
        rw [hb] at h
        obtain ⟨h1, h2, h3, h4⟩ := ih _ _ h
        have hk : hasKey p kPackage = true := hp
        refine ⟨?_, ?_, ?_, ?_⟩
        · intro q hq; simp only [List.mem_cons] at hq
          rcases hq with rfl | hq
          · simp [isNeitherControl, hk]
          · exact h1 q hq
        · simpa [List.filter_cons, isSourcePara, hk] using h2
        · intro q hq hqk; simp only [List.mem_cons] at hq
          rcases hq with rfl | hq
          · exact ⟨b, hb⟩
          · exact h3 q hq hqk
        · intro q hq hqs; simp only [List.mem_cons] at hq
          rcases hq with rfl | hq
          · simp [isSourcePara, hk] at hqs
          · exact h4 q hq hqs
    · have hk : hasKey p kPackage = false := by simpa [hasKey] using hp
      simp only [hp, Bool.false_eq_true, ↓reduceIte] at h
      by_cases hs : (Deb.get p kSource).isSome = true
      · simp only [hs, ↓reduceIte] at h
        cases src0 with
        | some s0 => simp at h
        | none =>
          simp only [Option.isSome_none, Bool.false_eq_true, ↓reduceIte] at h
          cases hsv : fromLL S p with
          | error e => rw [hsv] at h; simp at h
          | ok sv =>
            rw [hsv] at h
            obtain ⟨h1, h2, h3, h4⟩ := ih _ _ h
            have hks : hasKey p kSource = true := hs
            refine ⟨?_, ?_, ?_, ?_⟩
            · intro q hq; simp only [List.mem_cons] at hq
              rcases hq with rfl | hq
              · simp [isNeitherControl, hks]
              · exact h1 q hq
            · simp only [Option.isSome_some, ↓reduceIte] at h2
              have hsp : isSourcePara p = true := by simp [isSourcePara, hk, hks]
              simp only [List.filter_cons, hsp, ↓reduceIte, List.length_cons, Option.isSome_none,
                Bool.false_eq_true]
              omega
            · intro q hq hqk; simp only [List.mem_cons] at hq
              rcases hq with rfl | hq
              · rw [hk] at hqk; simp at hqk
              · exact h3 q hq hqk
            · intro q hq hqs; simp only [List.mem_cons] at hq
              rcases hq with rfl | hq
              · exact ⟨sv, hsv⟩
              · exact h4 q hq hqs
      · simp [hs] at h

/-- **control file rejected**: whenever the lossless reader accepts the text but (a) some paragraph
    has neither `Package` nor `Source`, or (b) the number of source paragraphs (no `Package`, has
    `Source`) is not exactly one, or (c) a paragraph lacks a mandatory field of the struct it is read
    as — `Control::from_str` returns an error -/
theorem C20_reject_control (S B : Spec) (s : Str) (ps : List DNode) (hps : llParas s = .ok ps)
    (hbad : (∃ p ∈ ps, isNeitherControl p = true)
      ∨ (ps.filter isSourcePara).length ≠ 1
      ∨ (∃ p ∈ ps, hasKey p kPackage = true ∧ ∃ f ∈ B, f.optional = false ∧ hasKey p f.key = false)
      ∨ (∃ p ∈ ps, isSourcePara p = true ∧ ∃ f ∈ S, f.optional = false ∧ hasKey p f.key = false)) :
    ∃ e, TypedDoc.parse (.control S B) s = .error e := by
  simp only [TypedDoc.parse, parseControl, hps]
  cases hr : controlLoop S B ps none [] with
  | error e => exact ⟨e, rfl⟩
  | ok v =>
    exfalso
    obtain ⟨h1, h2, h3, h4⟩ := controlLoop_ok_inv S B ps none [] v hr
    rcases hbad with ⟨p, hp, hn⟩ | hcnt | ⟨p, hp, hk, f, hf, hm, hmiss⟩ | ⟨p, hp, hk, f, hf, hm, hmiss⟩
    · rw [h1 p hp] at hn; simp at hn
    · simp at h2; exact hcnt h2
    · obtain ⟨b, hb⟩ := h3 p hp hk
      rw [fromLL_ok_mandatory B p b hb f hf hm] at hmiss; simp at hmiss
    · obtain ⟨sv, hsv⟩ := h4 p hp hk
      rw [fromLL_ok_mandatory S p sv hsv f hf hm] at hmiss; simp at hmiss

theorem copyrightLoop_ok_inv (F L : Spec) (ps : List DNode) (fs ls : List SV) (r : List SV × List SV)
    (h : copyrightLoop F L ps fs ls = .ok r) :
    (∀ p ∈ ps, hasKey p kFiles = true ∨ hasKey p kLicense = true)
    ∧ (∀ p ∈ ps, hasKey p kFiles = true → ∃ f, fromLL F p = .ok f)
    ∧ (∀ p ∈ ps, hasKey p kFiles = false → ∃ l, fromLL L p = .ok l) := by
  induction ps generalizing fs ls with
  | nil => simp
  | cons p ps ih =>
    simp only [copyrightLoop] at h
    by_cases hf : (Deb.get p kFiles).isSome = true
    · simp only [hf, ↓reduceIte] at h
      cases hv : fromLL F p with
      | error e => rw [hv] at h; simp at h
      | ok x =>
        rw [hv] at h
        obtain ⟨h1, h2, h3⟩ := ih _ _ h
        have hk : hasKey p kFiles = true := hf
        refine ⟨?_, ?_, ?_⟩
        · intro q hq; simp only [List.mem_cons] at hq
          rcases hq with rfl | hq
          · left; exact hk
          · exact h1 q hq
        · intro q hq hqk; simp only [List.mem_cons] at hq
          rcases hq with rfl | hq
          · exact ⟨x, hv⟩
          · exact h2 q hq hqk
        · intro q hq hqk; simp only [List.mem_cons] at hq
          rcases hq with rfl | hq
          · rw [hk] at hqk; simp at hqk
          · exact h3 q hq hqk
    · have hk : hasKey p kFiles = false := by simpa [hasKey] using hf
      simp only [hf, Bool.false_eq_true, ↓reduceIte] at h
      by_cases hl : (Deb.get p kLicense).isSome = true
      · simp only [hl, ↓reduceIte] at h
        cases hv : fromLL L p with
        | error e => rw [hv] at h; simp at h
        | ok x =>
          rw [hv] at h
          obtain ⟨h1, h2, h3⟩ := ih _ _ h
          refine ⟨?_, ?_, ?_⟩
          · intro q hq; simp only [List.mem_cons] at hq
            rcases hq with rfl | hq
            · right; exact hl
            · exact h1 q hq
          · intro q hq hqk; simp only [List.mem_cons] at hq
            rcases hq with rfl | hq
            · rw [hk] at hqk; simp at hqk
            · exact h2 q hq hqk
          · intro q hq hqk; simp only [List.mem_cons] at hq
            rcases hq with rfl | hq
            · exact ⟨x, hv⟩
            · exact h3 q hq hqk
      · simp [hl] at h

/-- **copyright file rejected**: the text does not start with `Format:`, or it has no paragraph,
    or a paragraph after the header has neither `Files` nor `License`, or a paragraph lacks a
    mandatory field of the struct it is read as (header / Files paragraph / licence paragraph) -/
theorem C20_reject_copyright (H F L : Spec) (s : Str)
    (hbad : formatGate.isPrefixOf s = false
      ∨ llParas s = .ok []
      ∨ ∃ p ps, llParas s = .ok (p :: ps) ∧
          ((∃ q ∈ ps, hasKey q kFiles = false ∧ hasKey q kLicense = false)
          ∨ (∃ f ∈ H, f.optional = false ∧ hasKey p f.key = false)
          ∨ (∃ q ∈ ps, hasKey q kFiles = true ∧ ∃ f ∈ F, f.optional = false ∧ hasKey q f.key = false)
          ∨ (∃ q ∈ ps, hasKey q kFiles = false ∧ ∃ f ∈ L, f.optional = false ∧ hasKey q f.key = false))) :
    ∃ e, TypedDoc.parse (.copyright H F L) s = .error e := by
  simp only [TypedDoc.parse, parseCopyright]
  by_cases hg : formatGate.isPrefixOf s = false
  · refine ⟨.msg eNotMachine, ?_⟩
    simp [hg]
  · simp only [hg, Bool.false_eq_true, ↓reduceIte]
    rcases hbad with h0 | h0 | ⟨p, ps, hps, hrest⟩
    · exact absurd h0 hg
    · refine ⟨.msg eNoParagraphs, ?_⟩
      simp [h0]
    · simp only [hps]
      cases hh : fromLL H p with
      | error e => exact ⟨e, rfl⟩
      | ok hv =>
        simp only
        cases hr : copyrightLoop F L ps [] [] with
        | error e => exact ⟨e, rfl⟩
        | ok r =>
          exfalso
          obtain ⟨h1, h2, h3⟩ := copyrightLoop_ok_inv F L ps [] [] r hr
          rcases hrest with ⟨q, hq, hf, hl⟩ | ⟨f, hf, hm, hmiss⟩ | ⟨q, hq, hk, f, hf, hm, hmiss⟩ | ⟨q, hq, hk, f, hf, hm, hmiss⟩
          · rcases h1 q hq with h | h
            · rw [hf] at h; simp at h
            · rw [hl] at h; simp at h
          · rw [fromLL_ok_mandatory H p hv hh f hf hm] at hmiss; simp at hmiss
          · obtain ⟨x, hx⟩ := h2 q hq hk
            rw [fromLL_ok_mandatory F q x hx f hf hm] at hmiss; simp at hmiss
          · obtain ⟨x, hx⟩ := h3 q hq hk
            rw [fromLL_ok_mandatory L q x hx f hf hm] at hmiss; simp at hmiss

/-- **removal record / buildinfo / DEP-3 header rejected**: no paragraph, or the first paragraph
    lacks a mandatory field -/
theorem C20_reject_losslessPara (spec : Spec) (s : Str)
    (hbad : (∃ t, readStrict s = .ok t ∧ paragraphs t = [])
      ∨ ∃ p, llPara s = .ok p ∧ ∃ f ∈ spec, f.optional = false ∧ hasKey p f.key = false) :
    (∃ e, TypedDoc.parse (.losslessPara spec) s = .error e) ∧ (∃ e, TypedDoc.parse (.dep3 spec) s = .error e) := by
  rcases hbad with ⟨t, ht, hp⟩ | ⟨p, hp, f, hf, hm, hmiss⟩
  · have := C20_rejects_no_paragraph spec s t ht hp
    exact ⟨⟨_, this.1⟩, ⟨_, this.2⟩⟩
  · simp only [TypedDoc.parse, parseLosslessPara, parseDep3, hp]
    cases hv : fromLL spec p with
    | error e => exact ⟨⟨e, rfl⟩, ⟨e, rfl⟩⟩
    | ok v =>
      exfalso
      rw [fromLL_ok_mandatory spec p v hv f hf hm] at hmiss; simp at hmiss

/-- **apt stanza rejected**: the lossy reader sees no paragraph or more than one, or the paragraph
    lacks a mandatory field -/
theorem C20_reject_stanza (spec : Spec) (s : Str)
    (hbad : Lossy.read s = .ok [] ∨ (∃ p q r, Lossy.read s = .ok (p :: q :: r))
      ∨ ∃ p, Lossy.read s = .ok [p] ∧ ∃ f ∈ spec, f.optional = false ∧ Lossy.pget p f.key = none) :
    ∃ e, TypedDoc.parse (.lossyPara spec) s = .error e := by
  rcases hbad with h | ⟨p, q, r, h⟩ | ⟨p, hp, f, hf, hm, hmiss⟩
  · exact ⟨_, (C20_rejects_stanza_count spec s).1 h⟩
  · exact ⟨_, (C20_rejects_stanza_count spec s).2 p q r h⟩
  · simp only [TypedDoc.parse, parseLossyPara, lyPara, Lossy.readPara, hp, fromLY, liftMsg]
    cases hv : fromFields (Lossy.pget p) spec with
    | error e => exact ⟨_, rfl⟩
    | ok v =>
      exfalso
      have := fromFields_ok_mandatory _ spec v hv f hf hm
      rw [hmiss] at this; simp at this

theorem reposLoop_ok_inv (R : Spec) (ps : List DNode) (l : List SV) (h : reposLoop R ps = .ok l) :
    ∀ p ∈ ps, ∃ r, fromLL R p = .ok r := by
  induction ps generalizing l with
  | nil => simp
  | cons p ps ih =>
    simp only [reposLoop] at h
    cases hv : fromLL R p with
    | error e => rw [hv] at h; simp at h
    | ok r =>
      rw [hv] at h
      simp only at h
      cases hr : reposLoop R ps with
      | error e => rw [hr] at h; simp at h
      | ok rs =>
        intro q hq
        simp only [List.mem_cons] at hq
        rcases hq with rfl | hq
        · exact ⟨r, hv⟩
        · exact ih rs hr q hq

/-- **APT sources list rejected**: some paragraph lacks a mandatory field of `Repository` -/
theorem C20_reject_repos (R : Spec) (s : Str) (ps : List DNode) (hps : llParas s = .ok ps)
    (hbad : ∃ p ∈ ps, ∃ f ∈ R, f.optional = false ∧ hasKey p f.key = false) :
    ∃ e, TypedDoc.parse (.repos R) s = .error e := by
  simp only [TypedDoc.parse, parseRepos, hps]
  cases hr : reposLoop R ps with
  | error e => exact ⟨e, rfl⟩
  | ok l =>
    exfalso
    obtain ⟨p, hp, f, hf, hm, hmiss⟩ := hbad
    obtain ⟨r, hv⟩ := reposLoop_ok_inv R ps l hr p hp
    rw [fromLL_ok_mandatory R p r hv f hf hm] at hmiss; simp at hmiss

/-- every kind: a text the deb822 reader itself rejects is rejected -/
theorem C20_reject_reader (s : Str) (h : ∀ t, readStrict s ≠ .ok t) (S B H F L spec R : Spec) :
    TypedDoc.parse (.control S B) s = .error .reader
    ∧ (formatGate.isPrefixOf s = true → TypedDoc.parse (.copyright H F L) s = .error .reader)
    ∧ TypedDoc.parse (.losslessPara spec) s = .error .reader
    ∧ TypedDoc.parse (.dep3 spec) s = .error .reader
    ∧ TypedDoc.parse (.repos R) s = .error .reader := by
  have hr : llParas s = .error .reader ∧ llPara s = .error .reader := by
    unfold llParas llPara
    cases hs : readStrict s with
    | ok t => exact absurd hs (h t)
    | error e => exact ⟨rfl, rfl⟩
  refine ⟨by simp [TypedDoc.parse, parseControl, hr.1], ?_, by simp [TypedDoc.parse, parseLosslessPara, hr.2],
    by simp [TypedDoc.parse, parseDep3, hr.2], by simp [TypedDoc.parse, parseRepos, hr.1]⟩
  intro hg
  simp [TypedDoc.parse, parseCopyright, hg, hr.1]

/-! ## Part H — the typed value and the lossless view, on arbitrary well-formed text -/

/-- exactly how the two readers' values of a well-formed field differ: the lossy reader keeps the
    empty first line of `Name:` + continuation lines as a leading `\n`; otherwise they are equal -/
theorem C20_lossless_view_values (e : EntryS) :
    (lossyEntry e).1 = e.content.1
    ∧ (lossyEntry e).2 = (if e.v = [] ∧ e.conts ≠ [] then '\n' :: e.content.2 else e.content.2) := by
  refine ⟨rfl, ?_⟩
  simp only [lossyEntry, lossyValue, EntryS.content, EntryS.valueLines]
  by_cases hv : e.v = []
  · cases hc : e.conts with
    | nil => simp [hv, Text.join]
    | cons c cs => simp [hv, Text.join]
  · simp [hv]

/-- no field of the document is `Name:` with an empty first line followed by continuation lines -/
def NoBlankFirstS (p : ParaS) : Prop :=
  (p.first.v = [] → p.first.conts = []) ∧ ∀ e ∈ itemEntries p.rest, e.v = [] → e.conts = []

theorem lossyEntry_eq_content (e : EntryS) (h : e.v = [] → e.conts = []) : lossyEntry e = e.content := by
  have := C20_lossless_view_values e
  apply Prod.ext this.1
  rw [this.2]
  by_cases hv : e.v = []
  · simp [hv, h hv]
  · simp [hv]

theorem lossyPara_eq_content (p : ParaS) (h : NoBlankFirstS p) : lossyPara p = p.content := by
  simp only [lossyPara, ParaS.content, lossyEntry_eq_content _ h.1]
  congr 1
  rw [← itemEntries_content]
  simp only [lossyItems]
  apply List.map_congr_left
  intro e he
  exact lossyEntry_eq_content e (h.2 e he)

/-- **apt stanzas match the lossless view on well-formed input**: for every well-formed one-paragraph
    text (any layout the grammar allows: comments, irregular white space, multi-line values) in which
    no field is `Name:` + empty first line + continuation lines, the lossy reader (used by the apt
    Release/Sources/Packages readers) and the lossless reader show the same paragraph, so the typed
    value — or the error — obtained from either is the same, field by field -/
theorem C20_lossless_view_stanza (spec : Spec) (lead : List Gap) (p : ParaS) (gaps : List Gap)
    (hwf : (⟨lead, [(p, gaps)]⟩ : DocS).WF) (hb : NoBlankFirstS p) :
    lyPara (⟨lead, [(p, gaps)]⟩ : DocS).str = .ok p.content
    ∧ (∃ q, llPara (⟨lead, [(p, gaps)]⟩ : DocS).str = .ok q ∧ items q = p.content
        ∧ fromLL spec q = fromLY spec p.content)
    ∧ TypedDoc.parse (.lossyPara spec) (⟨lead, [(p, gaps)]⟩ : DocS).str
        = TypedDoc.parse (.losslessPara spec) (⟨lead, [(p, gaps)]⟩ : DocS).str := by
  have hj := C06.C06_joint_accept _ hwf
  have hl : Lossy.read (⟨lead, [(p, gaps)]⟩ : DocS).str = .ok [p.content] := by
    rw [hj.1]; simp [lossyDoc, lossyPara_eq_content p hb]
  have hpar : paragraphs (⟨lead, [(p, gaps)]⟩ : DocS).tree = [p.node] := by
    simp [paragraphs_tree]
  have hly : lyPara (⟨lead, [(p, gaps)]⟩ : DocS).str = .ok p.content := by
    simp [lyPara, Lossy.readPara, hl]
  have hll : llPara (⟨lead, [(p, gaps)]⟩ : DocS).str = .ok p.node := by
    simp [llPara, hj.2.1, hpar]
  have hit : items p.node = p.content := items_para p
  have heq : fromLL spec p.node = fromLY spec p.content := by
    unfold fromLL fromLY
    rw [get_eq_lookup, hit, pget_eq_lookup]
  refine ⟨hly, ⟨p.node, hll, hit, heq⟩, ?_⟩
  simp only [TypedDoc.parse, parseLossyPara, parseLosslessPara, hly, hll, heq]

/-- the value of the field stored under `key` -/
def valueAt (key : Str) : Spec → SV → Option Val
  | f :: fs, v :: vs => if f.key = key then v else valueAt key fs vs
  | _, _ => none

theorem valueAt_fallback_same (key : Str) (alt : Option Str) (spec : Spec) (v : SV)
    (hk : key ∈ specKeys spec) (hl : v.length = spec.length) :
    valueAt key spec (fallback key alt spec v) = (valueAt key spec v).orElse (fun _ => alt.map Val.str) := by
  induction spec generalizing v with
  | nil => simp [specKeys] at hk
  | cons f fs ih =>
    cases v with
    | nil => simp at hl
    | cons x xs =>
      simp only [fallback, valueAt]
      by_cases hf : f.key = key
      · simp only [hf, ↓reduceIte, valueAt]
        cases x <;> simp
      · simp only [hf, ↓reduceIte, valueAt]
        apply ih xs
        · simp only [specKeys, List.map_cons, List.mem_cons] at hk
          rcases hk with hk | hk
          · exact absurd hk.symm hf
          · exact hk
        · simpa using hl

theorem valueAt_fallback_other (key key' : Str) (alt : Option Str) (spec : Spec) (v : SV) (hne : key' ≠ key) :
    valueAt key' spec (fallback key alt spec v) = valueAt key' spec v := by
  induction spec generalizing v with
  | nil => cases v <;> rfl
  | cons f fs ih =>
    cases v with
    | nil => rfl
    | cons x xs =>
      simp only [fallback]
      by_cases hf : f.key = key
      · have hkk : ¬ key = key' := fun e => hne e.symm
        simp [hf, valueAt, hkk]
      · simp only [hf, ↓reduceIte, valueAt]
        by_cases hf' : f.key = key'
        · simp [hf']
        · simp [hf', ih xs]

theorem fallback_length (key : Str) (alt : Option Str) (spec : Spec) (v : SV) :
    (fallback key alt spec v).length = v.length := by
  induction spec generalizing v with
  | nil => cases v <;> rfl
  | cons f fs ih =>
    cases v with
    | nil => rfl
    | cons x xs =>
      simp only [fallback]
      split
      · simp
      · simp [ih xs]

/-- a string-typed field of a value read by `from_paragraph` is the text under its key -/
theorem valueAt_fromFields_str (g : Str → Option Str) (spec : Spec) (v : SV) (key : Str)
    (h : fromFields g spec = .ok v)
    (hstr : ∀ f ∈ spec, f.key = key → ∀ t, f.de t = .ok (.str t))
    (hk : key ∈ specKeys spec) : valueAt key spec v = (g key).map Val.str := by
  induction spec generalizing v with
  | nil => simp [specKeys] at hk
  | cons f fs ih =>
    simp only [fromFields] at h
    cases hr : readField g f with
    | error e => rw [hr] at h; simp at h
    | ok x =>
      rw [hr] at h
      simp only at h
      cases hf : fromFields g fs with
      | error e => rw [hf] at h; simp at h
      | ok xs =>
        rw [hf] at h
        simp only [Except.ok.injEq] at h
        subst h
        simp only [valueAt]
        by_cases hkey : f.key = key
        · simp only [hkey, ↓reduceIte]
          unfold readField at hr
          rw [hkey] at hr
          cases hg : g key with
          | none =>
            rw [hg] at hr
            cases ho : f.optional with
            | true => simp [ho] at hr; simp [← hr]
            | false => simp [ho] at hr
          | some t =>
            rw [hg] at hr
            simp only [hstr f (by simp) hkey t] at hr
            simp at hr; simp [← hr]
        · simp only [hkey, ↓reduceIte]
          apply ih xs hf (fun f' hf' => hstr f' (by simp [hf']))
          simp only [specKeys, List.map_cons, List.mem_cons] at hk
          rcases hk with hk | hk
          · exact absurd hk.symm hkey
          · exact hk

theorem fromFields_length (g : Str → Option Str) (spec : Spec) (v : SV) (h : fromFields g spec = .ok v) :
    v.length = spec.length := by
  induction spec generalizing v with
  | nil => simp [fromFields] at h; simp [← h]
  | cons f fs ih =>
    simp only [fromFields] at h
    cases hr : readField g f with
    | error e => rw [hr] at h; simp at h
    | ok x =>
      rw [hr] at h
      simp only at h
      cases hf : fromFields g fs with
      | error e => rw [hf] at h; simp at h
      | ok xs => rw [hf] at h; simp at h; simp [← h, ih xs hf]

/-- **DEP-3 header matches the lossless view**: the typed author is `Author`, else `From`, and the
    typed description is `Description`, else `Subject`, of the paragraph the lossless reader shows —
    what `dep3::lossless::PatchHeader::author()` / `description_field()` return for the same text -/
theorem C20_lossless_view_dep3 (spec : Spec) (s : Str) (p : DNode) (v : SV)
    (hp : llPara s = .ok p) (h : TypedDoc.parse (.dep3 spec) s = .ok (.single v))
    (hA : kAuthor ∈ specKeys spec) (hD : kDescription ∈ specKeys spec)
    (hstr : ∀ f ∈ spec, (f.key = kAuthor ∨ f.key = kDescription) → ∀ t, f.de t = .ok (.str t)) :
    valueAt kAuthor spec v = ((Deb.get p kAuthor).orElse fun _ => Deb.get p kFrom).map Val.str
    ∧ valueAt kDescription spec v
        = ((Deb.get p kDescription).orElse fun _ => Deb.get p kSubject).map Val.str := by
  simp only [TypedDoc.parse, parseDep3, hp] at h
  cases hv : fromLL spec p with
  | error e => rw [hv] at h; simp at h
  | ok v0 =>
    rw [hv] at h
    simp only [Except.ok.injEq, TV.single.injEq] at h
    subst h
    have hff : fromFields (Deb.get p) spec = .ok v0 := by
      unfold fromLL liftMsg at hv
      cases hf : fromFields (Deb.get p) spec with
      | ok x => rw [hf] at hv; simp at hv; rw [hv]
      | error e => rw [hf] at hv; simp at hv
    have hlen := fromFields_length _ spec v0 hff
    have hAD : kDescription ≠ kAuthor := by decide
    have h1 := valueAt_fromFields_str _ spec v0 kAuthor hff (fun f hf hk => hstr f hf (Or.inl hk)) hA
    have h2 := valueAt_fromFields_str _ spec v0 kDescription hff (fun f hf hk => hstr f hf (Or.inr hk)) hD
    have hlen' : (fallback kAuthor (Deb.get p kFrom) spec v0).length = spec.length := by
      rw [fallback_length, hlen]
    constructor
    · rw [valueAt_fallback_other kDescription kAuthor _ spec _ (fun e => hAD e.symm),
        valueAt_fallback_same kAuthor _ spec v0 hA hlen, h1]
      cases Deb.get p kAuthor <;> cases Deb.get p kFrom <;> rfl
    · rw [valueAt_fallback_same kDescription _ spec _ hD hlen',
        valueAt_fallback_other kAuthor kDescription _ spec v0 hAD, h2]
      cases Deb.get p kDescription <;> cases Deb.get p kSubject <;> rfl

/-- the shipped DEP-3 struct has string-typed `Author` and `Description` fields -/
theorem C20_table_dep3_strings :
    ∀ s ∈ Gen.Structs.all, s.name = c!"dep3.PatchHeader" →
      (kAuthor ∈ s.fields.map (·.key) ∧ kDescription ∈ s.fields.map (·.key))
      ∧ ∀ f ∈ s.fields, (f.key = kAuthor ∨ f.key = kDescription) → f.ser = [] ∧ f.de = [] ∧ f.ty = c!"String" := by
  decide +kernel

/-! ## Part I — parse outputs print canonically: unconditional round trip for the lossless-reader kinds -/

/-- a value text that prints canonically and that the lossless reader shows unchanged -/
def GoodText (v : Str) : Prop :=
  CanonLines (Text.splitOn '\n' v) ∧ ((Text.splitOn '\n' v).head? = some [] → v = [])

theorem goodText_nil : GoodText [] := by
  refine ⟨?_, fun _ => rfl⟩
  have : Text.splitOn '\n' ([] : Str) = [[]] := by simp [Text.splitOn]
  rw [this]
  exact ⟨by simp, by intro l hl; simp at hl; subst hl; intro c hc; simp at hc,
    by intro c hc; simp at hc, by simp⟩

/-- what the lossless reader returns is good text (`readStrict_fields`) -/
theorem goodText_of_goodLines (L : List Str) (h : GoodLines L) : GoodText (Text.join ['\n'] L) := by
  cases L with
  | nil => simpa [Text.join] using goodText_nil
  | cons a r =>
    have hnl : ∀ l ∈ a :: r, '\n' ∉ l := by
      intro l hl hm
      have := (h.1 l hl).2.1 _ hm
      simp [isNewline] at this
    rw [GoodText, C06.splitOn_join _ (by simp) hnl]
    refine ⟨⟨by simp, fun l hl => (h.1 l hl).2.1, ?_, ?_⟩, ?_⟩
    · intro c hc
      simp only [List.head?_cons, Option.bind_some] at hc
      exact (h.1 a (by simp)).2.2 c hc
    · intro l hl
      simp only [List.tail_cons] at hl
      have hp := h.1 l (by simp [hl])
      obtain ⟨c, cs, hcs⟩ : ∃ c cs, l = c :: cs := by
        cases l with
        | nil => exact absurd rfl hp.1
        | cons c cs => exact ⟨c, cs, rfl⟩
      refine ⟨hp.2.1, c, cs, hcs, hp.2.2 c (by rw [hcs]; rfl), ?_⟩
      intro hc
      have := h.2 l (by simpa using hl)
      apply this; rw [hcs, hc]; rfl
    · intro hh
      simp only [List.head?_cons, Option.some.injEq] at hh
      exact absurd hh (h.1 a (by simp)).1

theorem goodText_of_goodField (f : Str × Str) (h : GoodField f) : ValidKey f.1 ∧ GoodText f.2 := by
  obtain ⟨hk, L, hv, hL⟩ := h
  exact ⟨hk, by rw [hv]; exact goodText_of_goodLines L hL⟩

/-- per field: the key is a valid name; for a value read from good text (what the lossless reader
    returns), re-reading its printed form gives that value, and its printed form is good text -/
structure FieldOK (f : FieldSpec Val) : Prop where
  validKey : ValidKey f.key
  stable : ∀ t y, GoodText t → f.de t = .ok y → f.de (f.ser y) = .ok y
  canon : ∀ t y, GoodText t → f.de t = .ok y → GoodText (f.ser y)

structure SpecOK (spec : Spec) : Prop where
  nodup : (specKeys spec).Nodup
  fields : ∀ f ∈ spec, FieldOK f

theorem fromFields_good (g : Str → Option Str) (spec : Spec) (v : SV)
    (hg : ∀ k t, g k = some t → GoodText t) (hs : ∀ f ∈ spec, FieldOK f)
    (h : fromFields g spec = .ok v) :
    WellFormed spec v ∧ CodecsRoundTrip spec v
    ∧ ∀ e ∈ toFields spec v, ValidKey e.1 ∧ GoodText e.2 := by
  induction spec generalizing v with
  | nil => simp [fromFields] at h; subst h; simp [WellFormed, CodecsRoundTrip, toFields]
  | cons f fs ih =>
    simp only [fromFields] at h
    cases hr : readField g f with
    | error e => rw [hr] at h; simp at h
    | ok x =>
      rw [hr] at h
      simp only at h
      cases hf : fromFields g fs with
      | error e => rw [hf] at h; simp at h
      | ok xs =>
        rw [hf] at h
        simp only [Except.ok.injEq] at h
        subst h
        obtain ⟨i1, i2, i3⟩ := ih xs (fun f' hf' => hs f' (by simp [hf'])) hf
        have hfo := hs f (by simp)
        unfold readField at hr
        cases hgk : g f.key with
        | none =>
          rw [hgk] at hr
          cases ho : f.optional with
          | false => simp [ho] at hr
          | true =>
            simp [ho] at hr; subst hr
            exact ⟨⟨by simp [ho], i1⟩, i2, i3⟩
        | some t =>
          rw [hgk] at hr
          cases hd : f.de t with
          | error e => simp [hd] at hr
          | ok y =>
            simp [hd] at hr; subst hr
            refine ⟨⟨by simp, i1⟩, ⟨hfo.stable t y (hg _ _ hgk) hd, i2⟩, ?_⟩
            intro e he
            simp only [toFields, List.mem_cons] at he
            rcases he with rfl | he
            · exact ⟨hfo.validKey, hfo.canon t y (hg _ _ hgk) hd⟩
            · exact i3 e he

/-- the texts a paragraph of an accepted document shows are good -/
theorem get_goodText (p : DNode) (hp : ∀ f ∈ items p, GoodField f) :
    ∀ k t, Deb.get p k = some t → GoodText t := by
  intro k t h
  rw [get_eq_lookup] at h
  simp only [lookupFirst, Option.map_eq_some_iff] at h
  obtain ⟨f, hf, rfl⟩ := h
  exact (goodText_of_goodField f (hp f (List.mem_of_find?_eq_some hf))).2

/-- one paragraph read by `from_paragraph`: the value is `Good` and its printed paragraph canonical -/
theorem fromLL_good (spec : Spec) (hs : SpecOK spec) (p : DNode) (hp : ∀ f ∈ items p, GoodField f)
    (v : SV) (h : fromLL spec p = .ok v) :
    Good spec v ∧ ∀ e ∈ paraOf spec v, ValidKey e.1 ∧ GoodText e.2 := by
  have hff : fromFields (Deb.get p) spec = .ok v := by
    unfold fromLL liftMsg at h
    cases hf : fromFields (Deb.get p) spec with
    | ok x => rw [hf] at h; simp at h; rw [h]
    | error e => rw [hf] at h; simp at h
  obtain ⟨h1, h2, h3⟩ := fromFields_good _ spec v (get_goodText p hp) hs.fields hff
  exact ⟨⟨hs.nodup, h1, h2⟩, h3⟩

/-- paragraphs of a list of read values form a canonical document, provided none prints empty -/
theorem printsCanon_of_paras (D : Doc) (h : ∀ p ∈ D, p ≠ [] ∧ ∀ e ∈ p, ValidKey e.1 ∧ GoodText e.2) :
    CanonD D ∧ NoBlankFirst D :=
  ⟨fun p hp => ⟨(h p hp).1, fun f hf => ⟨((h p hp).2 f hf).1, ((h p hp).2 f hf).2.1⟩⟩,
   fun p hp f hf => ((h p hp).2 f hf).2.2⟩

theorem llParas_good (s : Str) (ps : List DNode) (h : llParas s = .ok ps) :
    ∀ p ∈ ps, ∀ f ∈ items p, GoodField f := by
  unfold llParas at h
  cases hr : readStrict s with
  | error e => rw [hr] at h; simp at h
  | ok t =>
    rw [hr] at h
    simp only [Except.ok.injEq] at h
    subst h
    intro p hp f hf
    have := readStrict_fields s t hr (items p) (by simp only [docItems, List.mem_map]; exact ⟨p, hp, rfl⟩)
    exact this.2 f hf

theorem llPara_good (s : Str) (p : DNode) (h : llPara s = .ok p) : ∀ f ∈ items p, GoodField f := by
  unfold llPara at h
  cases hr : readStrict s with
  | error e => rw [hr] at h; simp at h
  | ok t =>
    rw [hr] at h
    simp only at h
    cases hp : paragraphs t with
    | nil => rw [hp] at h; simp at h
    | cons q qs =>
      rw [hp] at h
      simp only [Except.ok.injEq] at h
      subst h
      intro f hf
      have := readStrict_fields s t hr (items q) (by simp [docItems, hp])
      exact this.2 f hf

theorem paraOf_ne_nil (spec : Spec) (v : SV) (hg : Good spec v)
    (hm : ∃ f ∈ spec, f.optional = false) : paraOf spec v ≠ [] := by
  obtain ⟨f, hf, hfm⟩ := hm
  have := present_of_mandatory spec v hg.nodup hg.wf f hf hfm
  intro e; rw [e] at this; simp [lookupFirst] at this

/-! ### removal record / buildinfo -/

/-- **removal record, buildinfo**: whatever text parsed to `v`, printing `v` gives a text that parses
    to `v` again (and therefore prints identically again) -/
theorem C20_roundtrip_losslessPara (spec : Spec) (hs : SpecOK spec) (hm : ∃ f ∈ spec, f.optional = false)
    (s : Str) (v : SV) (h : TypedDoc.parse (.losslessPara spec) s = .ok (.single v)) :
    TypedDoc.parse (.losslessPara spec) (TypedDoc.print (.losslessPara spec) (.single v)) = .ok (.single v) := by
  simp only [TypedDoc.parse, parseLosslessPara] at h
  cases hp : llPara s with
  | error e => rw [hp] at h; simp at h
  | ok p =>
    rw [hp] at h
    simp only at h
    cases hv : fromLL spec p with
    | error e => rw [hv] at h; simp at h
    | ok v' =>
      rw [hv] at h
      simp only [Except.ok.injEq, TV.single.injEq] at h
      subst h
      obtain ⟨hg, hc⟩ := fromLL_good spec hs p (llPara_good s p hp) v' hv
      have hpc := printsCanon_of_paras [paraOf spec v'] (by
        intro q hq; simp at hq; subst hq; exact ⟨paraOf_ne_nil spec v' hg hm, hc⟩)
      exact C20_stable_losslessPara spec v' hg ⟨hpc.1, hpc.2⟩

/-! ### DEP-3 header -/

theorem fallback_good (key : Str) (alt : Option Str) (spec : Spec) (v : SV)
    (hk : ∀ f ∈ spec, f.key = key → (f.optional = true ∧ ∀ t, f.de t = .ok (.str t) ∧ f.ser (.str t) = t))
    (ha : ∀ t, alt = some t → GoodText t)
    (hw : WellFormed spec v) (hc : CodecsRoundTrip spec v)
    (hp : ∀ e ∈ toFields spec v, ValidKey e.1 ∧ GoodText e.2) (hvk : ∀ f ∈ spec, ValidKey f.key) :
    WellFormed spec (fallback key alt spec v) ∧ CodecsRoundTrip spec (fallback key alt spec v)
    ∧ ∀ e ∈ toFields spec (fallback key alt spec v), ValidKey e.1 ∧ GoodText e.2 := by
  induction spec generalizing v with
  | nil => cases v <;> exact ⟨hw, hc, hp⟩
  | cons f fs ih =>
    cases v with
    | nil => simp [WellFormed] at hw
    | cons x xs =>
      simp only [WellFormed] at hw
      simp only [fallback]
      by_cases hf : f.key = key
      · simp only [hf, ↓reduceIte]
        cases x with
        | some y => exact ⟨by simpa [WellFormed] using hw, hc, hp⟩
        | none =>
          simp only [CodecsRoundTrip, toFields] at hc hp
          cases alt with
          | none => exact ⟨hw, hc, hp⟩
          | some t =>
            obtain ⟨_, hstr⟩ := hk f (by simp) hf
            simp only [Option.map_some, WellFormed, CodecsRoundTrip, toFields, List.mem_cons]
            refine ⟨⟨by simp, hw.2⟩, ⟨by rw [(hstr t).2]; exact (hstr t).1, hc⟩, ?_⟩
            intro e he
            rcases he with rfl | he
            · exact ⟨hvk f (by simp), by rw [(hstr t).2]; exact ha t rfl⟩
            · exact hp e he
      · simp only [hf, ↓reduceIte]
        cases x with
        | none =>
          simp only [CodecsRoundTrip, toFields] at hc hp
          obtain ⟨i1, i2, i3⟩ := ih xs (fun f' hf' => hk f' (by simp [hf'])) hw.2 hc hp
            (fun f' hf' => hvk f' (by simp [hf']))
          exact ⟨⟨hw.1, i1⟩, by simpa [CodecsRoundTrip] using i2, by simpa [toFields] using i3⟩
        | some y =>
          simp only [CodecsRoundTrip, toFields, List.mem_cons] at hc hp
          obtain ⟨i1, i2, i3⟩ := ih xs (fun f' hf' => hk f' (by simp [hf'])) hw.2 hc.2
            (fun e he => hp e (Or.inr he)) (fun f' hf' => hvk f' (by simp [hf']))
          refine ⟨⟨hw.1, i1⟩, ⟨hc.1, i2⟩, ?_⟩
          intro e he
          simp only [toFields, List.mem_cons] at he
          rcases he with rfl | he
          · exact hp _ (Or.inl rfl)
          · exact i3 e he

/-- **DEP-3 header**: whatever text parsed to `v` — the `From`/`Subject` fall-backs included — printing
    `v` gives a text that parses to `v` again.  The only exception is finding F-C20-4 (a header
    without any known field prints as the empty text): `hne` mirrors its trigger. -/
theorem C20_roundtrip_dep3 (spec : Spec) (hs : SpecOK spec)
    (hFrom : kFrom ∉ specKeys spec) (hSubject : kSubject ∉ specKeys spec)
    (hstr : ∀ f ∈ spec, (f.key = kAuthor ∨ f.key = kDescription) →
      (f.optional = true ∧ ∀ t, f.de t = .ok (.str t) ∧ f.ser (.str t) = t))
    (s : Str) (v : SV) (h : TypedDoc.parse (.dep3 spec) s = .ok (.single v))
    (hne : paraOf spec v ≠ []) :
    TypedDoc.parse (.dep3 spec) (TypedDoc.print (.dep3 spec) (.single v)) = .ok (.single v) := by
  simp only [TypedDoc.parse, parseDep3] at h
  cases hp : llPara s with
  | error e => rw [hp] at h; simp at h
  | ok p =>
    rw [hp] at h
    simp only at h
    cases hv : fromLL spec p with
    | error e => rw [hv] at h; simp at h
    | ok v0 =>
      rw [hv] at h
      simp only [Except.ok.injEq, TV.single.injEq] at h
      have hgood := llPara_good s p hp
      obtain ⟨hg, hc⟩ := fromLL_good spec hs p hgood v0 hv
      have hvk : ∀ f ∈ spec, ValidKey f.key := fun f hf => (hs.fields f hf).validKey
      have hgt := get_goodText p hgood
      obtain ⟨a1, a2, a3⟩ := fallback_good kAuthor (Deb.get p kFrom) spec v0
        (fun f hf hk => hstr f hf (Or.inl hk)) (fun t ht => hgt _ t ht) hg.wf hg.codecs hc hvk
      obtain ⟨b1, b2, b3⟩ := fallback_good kDescription (Deb.get p kSubject) spec _
        (fun f hf hk => hstr f hf (Or.inr hk)) (fun t ht => hgt _ t ht) a1 a2 a3 hvk
      rw [h] at b1 b2 b3
      have hgv : Good spec v := ⟨hs.nodup, b1, b2⟩
      have hpc := printsCanon_of_paras [paraOf spec v] (by
        intro q hq; simp at hq; subst hq; exact ⟨hne, b3⟩)
      exact C20_stable_dep3 spec v hgv ⟨hpc.1, hpc.2⟩ hFrom hSubject

/-! ### APT sources list -/

theorem reposLoop_ok_all (R : Spec) (ps : List DNode) (l : List SV) (h : reposLoop R ps = .ok l) :
    ∀ r ∈ l, ∃ p ∈ ps, fromLL R p = .ok r := by
  induction ps generalizing l with
  | nil => simp [reposLoop] at h; subst h; simp
  | cons p ps ih =>
    simp only [reposLoop] at h
    cases hv : fromLL R p with
    | error e => rw [hv] at h; simp at h
    | ok r0 =>
      rw [hv] at h
      simp only at h
      cases hr : reposLoop R ps with
      | error e => rw [hr] at h; simp at h
      | ok rs =>
        rw [hr] at h
        simp only [Except.ok.injEq] at h
        subst h
        intro r hr'
        simp only [List.mem_cons] at hr'
        rcases hr' with rfl | hr'
        · exact ⟨p, by simp, hv⟩
        · obtain ⟨q, hq, hqv⟩ := ih rs hr r hr'
          exact ⟨q, by simp [hq], hqv⟩

/-- **APT sources list**: whatever text parsed to the list `l`, printing it gives a text that parses
    to `l` again -/
theorem C20_roundtrip_repos (R : Spec) (hs : SpecOK R) (hm : ∃ f ∈ R, f.optional = false)
    (s : Str) (l : List SV) (h : TypedDoc.parse (.repos R) s = .ok (.repos l)) :
    TypedDoc.parse (.repos R) (TypedDoc.print (.repos R) (.repos l)) = .ok (.repos l) := by
  simp only [TypedDoc.parse, parseRepos] at h
  cases hp : llParas s with
  | error e => rw [hp] at h; simp at h
  | ok ps =>
    rw [hp] at h
    simp only at h
    cases hr : reposLoop R ps with
    | error e => rw [hr] at h; simp at h
    | ok rs =>
      rw [hr] at h
      simp only [Except.ok.injEq, TV.repos.injEq] at h
      subst h
      have hall := reposLoop_ok_all R ps rs hr
      have hgood := llParas_good s ps hp
      have hvals : ∀ r ∈ rs, Good R r ∧ ∀ e ∈ paraOf R r, ValidKey e.1 ∧ GoodText e.2 := by
        intro r hr'
        obtain ⟨p, hpm, hv⟩ := hall r hr'
        exact fromLL_good R hs p (hgood p hpm) r hv
      have hpc := printsCanon_of_paras (rs.map (paraOf R)) (by
        intro q hq
        simp only [List.mem_map] at hq
        obtain ⟨r, hr', rfl⟩ := hq
        exact ⟨paraOf_ne_nil R r (hvals r hr').1 hm, (hvals r hr').2⟩)
      exact C20_stable_repos R rs (fun r hr' => (hvals r hr').1) ⟨hpc.1, hpc.2⟩

/-! ### control file -/

theorem controlLoop_ok_vals (S B : Spec) (ps : List DNode) (src0 : Option SV) (bins0 : List SV)
    (src : SV) (bins : List SV) (h : controlLoop S B ps src0 bins0 = .ok (.control src bins)) :
    (src0 = some src ∨ ∃ p ∈ ps, fromLL S p = .ok src)
    ∧ ∀ b ∈ bins, b ∈ bins0 ∨ ∃ p ∈ ps, fromLL B p = .ok b := by
  induction ps generalizing src0 bins0 with
  | nil =>
    simp only [controlLoop] at h
    cases src0 with
    | none => simp at h
    | some s0 =>
      simp only [Except.ok.injEq, TV.control.injEq] at h
      obtain ⟨rfl, rfl⟩ := h
      exact ⟨Or.inl rfl, fun b hb => Or.inl hb⟩
  | cons p ps ih =>
    simp only [controlLoop] at h
    by_cases hp : (Deb.get p kPackage).isSome = true
    · simp only [hp, ↓reduceIte] at h
      cases hb : fromLL B p with
      | error e => rw [hb] at h; simp at h
      | ok b0 =>
        rw [hb] at h
        obtain ⟨h1, h2⟩ := ih _ _ h
        refine ⟨?_, ?_⟩
        · rcases h1 with h1 | ⟨q, hq, hqv⟩
          · exact Or.inl h1
          · exact Or.inr ⟨q, by simp [hq], hqv⟩
        · intro b hbm
          rcases h2 b hbm with h2 | ⟨q, hq, hqv⟩
          · simp only [List.mem_append, List.mem_singleton] at h2
            rcases h2 with h2 | rfl
            · exact Or.inl h2
            · exact Or.inr ⟨p, by simp, hb⟩
          · exact Or.inr ⟨q, by simp [hq], hqv⟩
    · simp only [hp, Bool.false_eq_true, ↓reduceIte] at h
      by_cases hsrc : (Deb.get p kSource).isSome = true
      · simp only [hsrc, ↓reduceIte] at h
        cases src0 with
        | some s0 => simp at h
        | none =>
          simp only [Option.isSome_none, Bool.false_eq_true, ↓reduceIte] at h
          cases hsv : fromLL S p with
          | error e => rw [hsv] at h; simp at h
          | ok sv =>
            rw [hsv] at h
            obtain ⟨h1, h2⟩ := ih _ _ h
            refine ⟨?_, ?_⟩
            · rcases h1 with h1 | ⟨q, hq, hqv⟩
              · simp only [Option.some.injEq] at h1; subst h1
                exact Or.inr ⟨p, by simp, hsv⟩
              · exact Or.inr ⟨q, by simp [hq], hqv⟩
            · intro b hbm
              rcases h2 b hbm with h2 | ⟨q, hq, hqv⟩
              · exact Or.inl h2
              · exact Or.inr ⟨q, by simp [hq], hqv⟩
      · simp [hsrc] at h

/-- **control file**: whatever text parsed to (source, binaries) — paragraphs in any order, comments,
    any layout the lossless reader accepts — printing the value gives a text that parses to the same
    value.  `hS*`/`hB*` are facts about the two structs (see `C20_table_facts`). -/
theorem C20_roundtrip_control (S B : Spec) (hS : SpecOK S) (hB : SpecOK B)
    (hNoPkg : kPackage ∉ specKeys S)
    (hSrcF : ∃ f ∈ S, f.key = kSource ∧ f.optional = false)
    (hPkgF : ∃ f ∈ B, f.key = kPackage ∧ f.optional = false)
    (s : Str) (src : SV) (bins : List SV)
    (h : TypedDoc.parse (.control S B) s = .ok (.control src bins)) :
    TypedDoc.parse (.control S B) (TypedDoc.print (.control S B) (.control src bins)) = .ok (.control src bins) := by
  simp only [TypedDoc.parse, parseControl] at h
  cases hp : llParas s with
  | error e => rw [hp] at h; simp at h
  | ok ps =>
    rw [hp] at h
    simp only at h
    obtain ⟨h1, h2⟩ := controlLoop_ok_vals S B ps none [] src bins h
    have hgood := llParas_good s ps hp
    have hsrc : Good S src ∧ ∀ e ∈ paraOf S src, ValidKey e.1 ∧ GoodText e.2 := by
      rcases h1 with h1 | ⟨p, hpm, hv⟩
      · simp at h1
      · exact fromLL_good S hS p (hgood p hpm) src hv
    have hbin : ∀ b ∈ bins, Good B b ∧ ∀ e ∈ paraOf B b, ValidKey e.1 ∧ GoodText e.2 := by
      intro b hb
      rcases h2 b hb with h2 | ⟨p, hpm, hv⟩
      · simp at h2
      · exact fromLL_good B hB p (hgood p hpm) b hv
    obtain ⟨fs, hfs, hfk, hfm⟩ := hSrcF
    obtain ⟨fb, hfb, hbk, hbm⟩ := hPkgF
    have hpc := printsCanon_of_paras (docControl S B src bins) (by
      intro q hq
      simp only [docControl, List.mem_cons, List.mem_map] at hq
      rcases hq with rfl | ⟨b, hb, rfl⟩
      · exact ⟨paraOf_ne_nil S src hsrc.1 ⟨fs, hfs, hfm⟩, hsrc.2⟩
      · exact ⟨paraOf_ne_nil B b (hbin b hb).1 ⟨fb, hfb, hbm⟩, (hbin b hb).2⟩)
    refine C20_stable_control S B src bins hsrc.1 (fun b hb => (hbin b hb).1) ⟨hpc.1, hpc.2⟩ hNoPkg ?_ ?_
    · rw [← hfk]; exact present_of_mandatory S src hS.nodup hsrc.1.wf fs hfs hfm
    · intro b hb
      rw [← hbk]; exact present_of_mandatory B b hB.nodup (hbin b hb).1.wf fb hfb hbm

/-! ### copyright file (with the `Files` lists of finding F-C20-5 as the stated exception) -/

/-- `FieldOK` with the re-reading condition waived for the keys in `exS` and the canonicity of the
    printed form waived for the keys in `exC` (the waived facts are then required of the actual value) -/
structure FieldOKx (exS exC : Str → Prop) (f : FieldSpec Val) : Prop where
  validKey : ValidKey f.key
  stable : ¬ exS f.key → ∀ t y, GoodText t → f.de t = .ok y → f.de (f.ser y) = .ok y
  canon : ¬ exC f.key → ∀ t y, GoodText t → f.de t = .ok y → GoodText (f.ser y)

/-- what is required of the actual value for the waived keys -/
def ExHyp (exS exC : Str → Prop) (spec : Spec) (v : SV) : Prop :=
  (∀ fx ∈ spec.zip v, exS fx.1.key → ∀ y, fx.2 = some y → fx.1.de (fx.1.ser y) = .ok y)
  ∧ (∀ e ∈ paraOf spec v, exC e.1 → GoodText e.2)

theorem fieldOKx_of_fieldOK (exS exC : Str → Prop) (f : FieldSpec Val) (h : FieldOK f) : FieldOKx exS exC f :=
  ⟨h.validKey, fun _ => h.stable, fun _ => h.canon⟩

theorem fromFields_goodx (exS exC : Str → Prop) (g : Str → Option Str) (spec : Spec) (v : SV)
    (hg : ∀ k t, g k = some t → GoodText t) (hs : ∀ f ∈ spec, FieldOKx exS exC f)
    (h : fromFields g spec = .ok v)
    (hx : ∀ fx ∈ spec.zip v, exS fx.1.key → ∀ y, fx.2 = some y → fx.1.de (fx.1.ser y) = .ok y) :
    WellFormed spec v ∧ CodecsRoundTrip spec v
    ∧ ∀ e ∈ toFields spec v, ValidKey e.1 ∧ (¬ exC e.1 → GoodText e.2) := by
  induction spec generalizing v with
  | nil => simp [fromFields] at h; subst h; simp [WellFormed, CodecsRoundTrip, toFields]
  | cons f fs ih =>
    simp only [fromFields] at h
    cases hr : readField g f with
    | error e => rw [hr] at h; simp at h
    | ok x =>
      rw [hr] at h
      simp only at h
      cases hf : fromFields g fs with
      | error e => rw [hf] at h; simp at h
      | ok xs =>
        rw [hf] at h
        simp only [Except.ok.injEq] at h
        subst h
        obtain ⟨i1, i2, i3⟩ := ih xs (fun f' hf' => hs f' (by simp [hf'])) hf
          (fun fx hfx => hx fx (by simp [hfx]))
        have hfo := hs f (by simp)
        unfold readField at hr
        cases hgk : g f.key with
        | none =>
          rw [hgk] at hr
          cases ho : f.optional with
          | false => simp [ho] at hr
          | true =>
            simp [ho] at hr; subst hr
            exact ⟨⟨by simp [ho], i1⟩, i2, i3⟩
        | some t =>
          rw [hgk] at hr
          cases hd : f.de t with
          | error e => simp [hd] at hr
          | ok y =>
            simp [hd] at hr; subst hr
            have hst : f.de (f.ser y) = .ok y := by
              by_cases hex : exS f.key
              · exact hx (f, some y) (by simp) hex y rfl
              · exact hfo.stable hex t y (hg _ _ hgk) hd
            refine ⟨⟨by simp, i1⟩, ⟨hst, i2⟩, ?_⟩
            intro e he
            simp only [toFields, List.mem_cons] at he
            rcases he with rfl | he
            · exact ⟨hfo.validKey, fun hex => hfo.canon hex t y (hg _ _ hgk) hd⟩
            · exact i3 e he

/-- one paragraph read by `from_paragraph`, with waived keys: `Good` value, canonical printed paragraph -/
theorem fromLL_goodx (exS exC : Str → Prop) (spec : Spec) (hn : (specKeys spec).Nodup)
    (hs : ∀ f ∈ spec, FieldOKx exS exC f) (p : DNode) (hp : ∀ f ∈ items p, GoodField f)
    (v : SV) (h : fromLL spec p = .ok v) (hex : ExHyp exS exC spec v) :
    Good spec v ∧ ∀ e ∈ paraOf spec v, ValidKey e.1 ∧ GoodText e.2 := by
  have hff : fromFields (Deb.get p) spec = .ok v := by
    unfold fromLL liftMsg at h
    cases hf : fromFields (Deb.get p) spec with
    | ok x => rw [hf] at h; simp at h; rw [h]
    | error e => rw [hf] at h; simp at h
  obtain ⟨h1, h2, h3⟩ := fromFields_goodx exS exC _ spec v (get_goodText p hp) hs hff hex.1
  refine ⟨⟨hn, h1, h2⟩, ?_⟩
  intro e he
  refine ⟨(h3 e he).1, ?_⟩
  by_cases hc : exC e.1
  · exact hex.2 e he hc
  · exact (h3 e he).2 hc

theorem copyrightLoop_ok_vals (F L : Spec) (ps : List DNode) (fs0 ls0 : List SV) (r : List SV × List SV)
    (h : copyrightLoop F L ps fs0 ls0 = .ok r) :
    (∀ f ∈ r.1, f ∈ fs0 ∨ ∃ p ∈ ps, fromLL F p = .ok f) ∧ (∀ l ∈ r.2, l ∈ ls0 ∨ ∃ p ∈ ps, fromLL L p = .ok l) := by
  induction ps generalizing fs0 ls0 with
  | nil =>
    simp only [copyrightLoop, Except.ok.injEq] at h
    subst h
    exact ⟨fun f hf => Or.inl hf, fun l hl => Or.inl hl⟩
  | cons p ps ih =>
    simp only [copyrightLoop] at h
    by_cases hf : (Deb.get p kFiles).isSome = true
    · simp only [hf, ↓reduceIte] at h
      cases hv : fromLL F p with
      | error e => rw [hv] at h; simp at h
      | ok x =>
        rw [hv] at h
        obtain ⟨h1, h2⟩ := ih _ _ h
        refine ⟨?_, ?_⟩
        · intro f hfm
          rcases h1 f hfm with h1 | ⟨q, hq, hqv⟩
          · simp only [List.mem_append, List.mem_singleton] at h1
            rcases h1 with h1 | rfl
            · exact Or.inl h1
            · exact Or.inr ⟨p, by simp, hv⟩
          · exact Or.inr ⟨q, by simp [hq], hqv⟩
        · intro l hl
          rcases h2 l hl with h2 | ⟨q, hq, hqv⟩
          · exact Or.inl h2
          · exact Or.inr ⟨q, by simp [hq], hqv⟩
    · simp only [hf, Bool.false_eq_true, ↓reduceIte] at h
      by_cases hl : (Deb.get p kLicense).isSome = true
      · simp only [hl, ↓reduceIte] at h
        cases hv : fromLL L p with
        | error e => rw [hv] at h; simp at h
        | ok x =>
          rw [hv] at h
          obtain ⟨h1, h2⟩ := ih _ _ h
          refine ⟨?_, ?_⟩
          · intro f hfm
            rcases h1 f hfm with h1 | ⟨q, hq, hqv⟩
            · exact Or.inl h1
            · exact Or.inr ⟨q, by simp [hq], hqv⟩
          · intro l hlm
            rcases h2 l hlm with h2 | ⟨q, hq, hqv⟩
            · simp only [List.mem_append, List.mem_singleton] at h2
              rcases h2 with h2 | rfl
              · exact Or.inl h2
              · exact Or.inr ⟨p, by simp, hv⟩
            · exact Or.inr ⟨q, by simp [hq], hqv⟩
      · simp [hl] at h

/-- the keys whose printed list is the subject of finding F-C20-5 -/
def isFilesKey (k : Str) : Prop := k = c!"Files" ∨ k = c!"Files-Excluded"

/-- **copyright file**: whatever text parsed to (header, Files paragraphs, licence paragraphs) — in any
    order after the header — printing the value gives a text that parses to the same value.  The only
    exception is finding F-C20-5: `hFilesLists` requires the printed `Files` / `Files-Excluded` lists
    to be good text (false exactly when a later pattern starts with `#`, the finding's trigger). -/
theorem C20_roundtrip_copyright (H F L : Spec)
    (hnH : (specKeys H).Nodup) (hnF : (specKeys F).Nodup) (hnL : (specKeys L).Nodup)
    (hH : ∀ f ∈ H, FieldOKx (fun _ => False) isFilesKey f) (hF : ∀ f ∈ F, FieldOKx (fun _ => False) isFilesKey f)
    (hL : ∀ f ∈ L, FieldOKx (fun _ => False) isFilesKey f)
    (hFormatF : ∃ f fs, H = f :: fs ∧ f.key = c!"Format" ∧ f.optional = false)
    (hFilesF : ∃ f ∈ F, f.key = kFiles ∧ f.optional = false)
    (hLicF : ∃ f ∈ L, f.key = kLicense ∧ f.optional = false)
    (hNoFiles : kFiles ∉ specKeys L)
    (s : Str) (h : SV) (fs ls : List SV)
    (hparse : TypedDoc.parse (.copyright H F L) s = .ok (.copyright h fs ls))
    (hFilesLists : ∀ q ∈ docCopyright H F L h fs ls, ∀ e ∈ q, isFilesKey e.1 → GoodText e.2) :
    TypedDoc.parse (.copyright H F L) (TypedDoc.print (.copyright H F L) (.copyright h fs ls))
      = .ok (.copyright h fs ls) := by
  simp only [TypedDoc.parse, parseCopyright] at hparse
  split at hparse
  · simp at hparse
  · cases hp : llParas s with
    | error e => rw [hp] at hparse; simp at hparse
    | ok ps =>
      rw [hp] at hparse
      cases ps with
      | nil => simp at hparse
      | cons p ps' =>
        simp only at hparse
        cases hh : fromLL H p with
        | error e => rw [hh] at hparse; simp at hparse
        | ok hv =>
          rw [hh] at hparse
          simp only at hparse
          cases hr : copyrightLoop F L ps' [] [] with
          | error e => rw [hr] at hparse; simp at hparse
          | ok r =>
            rw [hr] at hparse
            simp only [Except.ok.injEq, TV.copyright.injEq] at hparse
            obtain ⟨rfl, rfl, rfl⟩ := hparse
            have hgood := llParas_good s (p :: ps') hp
            have hexH : ExHyp (fun _ => False) isFilesKey H hv :=
              ⟨fun _ _ hf => absurd hf id, fun e he hk => hFilesLists _ (by simp [docCopyright]) e he hk⟩
            obtain ⟨hgh, hch⟩ := fromLL_goodx _ _ H hnH hH p (hgood p (by simp)) hv hh hexH
            obtain ⟨v1, v2⟩ := copyrightLoop_ok_vals F L ps' [] [] r hr
            have hfv : ∀ f ∈ r.1, Good F f ∧ ∀ e ∈ paraOf F f, ValidKey e.1 ∧ GoodText e.2 := by
              intro f hf
              have hexF : ExHyp (fun _ => False) isFilesKey F f :=
                ⟨fun _ _ hf' => absurd hf' id,
                 fun e he hk => hFilesLists _ (by simp only [docCopyright, List.mem_cons, List.mem_append, List.mem_map]; exact Or.inr (Or.inl ⟨f, hf, rfl⟩)) e he hk⟩
              rcases v1 f hf with h1 | ⟨q, hq, hqv⟩
              · simp at h1
              · exact fromLL_goodx _ _ F hnF hF q (hgood q (by simp [hq])) f hqv hexF
            have hlv : ∀ l ∈ r.2, Good L l ∧ ∀ e ∈ paraOf L l, ValidKey e.1 ∧ GoodText e.2 := by
              intro l hl
              have hexL : ExHyp (fun _ => False) isFilesKey L l :=
                ⟨fun _ _ hf' => absurd hf' id,
                 fun e he hk => hFilesLists _ (by simp only [docCopyright, List.mem_cons, List.mem_append, List.mem_map]; exact Or.inr (Or.inr ⟨l, hl, rfl⟩)) e he hk⟩
              rcases v2 l hl with h1 | ⟨q, hq, hqv⟩
              · simp at h1
              · exact fromLL_goodx _ _ L hnL hL q (hgood q (by simp [hq])) l hqv hexL
            obtain ⟨f0, fs0, hH0, hk0, hm0⟩ := hFormatF
            obtain ⟨ff, hff, hfk, hfm⟩ := hFilesF
            obtain ⟨fl, hfl, hlk, hlm⟩ := hLicF
            have hpc := printsCanon_of_paras (docCopyright H F L hv r.1 r.2) (by
              intro q hq
              simp only [docCopyright, List.mem_cons, List.mem_append, List.mem_map] at hq
              rcases hq with rfl | ⟨f, hf, rfl⟩ | ⟨l, hl, rfl⟩
              · exact ⟨paraOf_ne_nil H hv hgh ⟨f0, by simp [hH0], hm0⟩, hch⟩
              · exact ⟨paraOf_ne_nil F f (hfv f hf).1 ⟨ff, hff, hfm⟩, (hfv f hf).2⟩
              · exact ⟨paraOf_ne_nil L l (hlv l hl).1 ⟨fl, hfl, hlm⟩, (hlv l hl).2⟩)
            have hFormat : ∃ v0 rest, paraOf H hv = (c!"Format", v0) :: rest := by
              subst hH0
              have hw := hgh.wf
              cases hv with
              | nil => simp [WellFormed] at hw
              | cons x xs =>
                simp only [WellFormed] at hw
                cases x with
                | none => have := hw.1 hm0; simp at this
                | some y => exact ⟨f0.ser y, toFields fs0 xs, by simp [paraOf, toFields, hk0]⟩
            refine C20_stable_copyright H F L hv r.1 r.2 hgh (fun f hf => (hfv f hf).1)
              (fun l hl => (hlv l hl).1) ⟨hpc.1, hpc.2⟩ hFormat ?_ hNoFiles ?_
            · intro f hf
              rw [← hfk]; exact present_of_mandatory F f hnF (hfv f hf).1.wf ff hff hfm
            · intro l hl
              rw [← hlk]; exact present_of_mandatory L l hnL (hlv l hl).1.wf fl hfl hlm

/-! ### the same for the one-struct kinds and the control file, with waived keys -/

theorem C20_roundtrip_losslessPara_x (exS exC : Str → Prop) (spec : Spec) (hn : (specKeys spec).Nodup)
    (hs : ∀ f ∈ spec, FieldOKx exS exC f) (hm : ∃ f ∈ spec, f.optional = false)
    (s : Str) (v : SV) (h : TypedDoc.parse (.losslessPara spec) s = .ok (.single v))
    (hex : ExHyp exS exC spec v) :
    TypedDoc.parse (.losslessPara spec) (TypedDoc.print (.losslessPara spec) (.single v)) = .ok (.single v) := by
  simp only [TypedDoc.parse, parseLosslessPara] at h
  cases hp : llPara s with
  | error e => rw [hp] at h; simp at h
  | ok p =>
    rw [hp] at h
    simp only at h
    cases hv : fromLL spec p with
    | error e => rw [hv] at h; simp at h
    | ok v' =>
      rw [hv] at h
      simp only [Except.ok.injEq, TV.single.injEq] at h
      subst h
      obtain ⟨hg, hc⟩ := fromLL_goodx exS exC spec hn hs p (llPara_good s p hp) v' hv hex
      have hpc := printsCanon_of_paras [paraOf spec v'] (by
        intro q hq; simp at hq; subst hq; exact ⟨paraOf_ne_nil spec v' hg hm, hc⟩)
      exact C20_stable_losslessPara spec v' hg ⟨hpc.1, hpc.2⟩

theorem C20_roundtrip_repos_x (exS exC : Str → Prop) (R : Spec) (hn : (specKeys R).Nodup)
    (hs : ∀ f ∈ R, FieldOKx exS exC f) (hm : ∃ f ∈ R, f.optional = false)
    (s : Str) (l : List SV) (h : TypedDoc.parse (.repos R) s = .ok (.repos l))
    (hex : ∀ r ∈ l, ExHyp exS exC R r) :
    TypedDoc.parse (.repos R) (TypedDoc.print (.repos R) (.repos l)) = .ok (.repos l) := by
  simp only [TypedDoc.parse, parseRepos] at h
  cases hp : llParas s with
  | error e => rw [hp] at h; simp at h
  | ok ps =>
    rw [hp] at h
    simp only at h
    cases hr : reposLoop R ps with
    | error e => rw [hr] at h; simp at h
    | ok rs =>
      rw [hr] at h
      simp only [Except.ok.injEq, TV.repos.injEq] at h
      subst h
      have hall := reposLoop_ok_all R ps rs hr
      have hgood := llParas_good s ps hp
      have hvals : ∀ r ∈ rs, Good R r ∧ ∀ e ∈ paraOf R r, ValidKey e.1 ∧ GoodText e.2 := by
        intro r hr'
        obtain ⟨p, hpm, hv⟩ := hall r hr'
        exact fromLL_goodx exS exC R hn hs p (hgood p hpm) r hv (hex r hr')
      have hpc := printsCanon_of_paras (rs.map (paraOf R)) (by
        intro q hq
        simp only [List.mem_map] at hq
        obtain ⟨r, hr', rfl⟩ := hq
        exact ⟨paraOf_ne_nil R r (hvals r hr').1 hm, (hvals r hr').2⟩)
      exact C20_stable_repos R rs (fun r hr' => (hvals r hr').1) ⟨hpc.1, hpc.2⟩

theorem C20_roundtrip_control_x (exS exC : Str → Prop) (S B : Spec)
    (hnS : (specKeys S).Nodup) (hnB : (specKeys B).Nodup)
    (hS : ∀ f ∈ S, FieldOKx exS exC f) (hB : ∀ f ∈ B, FieldOKx exS exC f)
    (hNoPkg : kPackage ∉ specKeys S)
    (hSrcF : ∃ f ∈ S, f.key = kSource ∧ f.optional = false)
    (hPkgF : ∃ f ∈ B, f.key = kPackage ∧ f.optional = false)
    (s : Str) (src : SV) (bins : List SV)
    (h : TypedDoc.parse (.control S B) s = .ok (.control src bins))
    (hexS : ExHyp exS exC S src) (hexB : ∀ b ∈ bins, ExHyp exS exC B b) :
    TypedDoc.parse (.control S B) (TypedDoc.print (.control S B) (.control src bins)) = .ok (.control src bins) := by
  simp only [TypedDoc.parse, parseControl] at h
  cases hp : llParas s with
  | error e => rw [hp] at h; simp at h
  | ok ps =>
    rw [hp] at h
    simp only at h
    obtain ⟨h1, h2⟩ := controlLoop_ok_vals S B ps none [] src bins h
    have hgood := llParas_good s ps hp
    have hsrc : Good S src ∧ ∀ e ∈ paraOf S src, ValidKey e.1 ∧ GoodText e.2 := by
      rcases h1 with h1 | ⟨p, hpm, hv⟩
      · simp at h1
      · exact fromLL_goodx exS exC S hnS hS p (hgood p hpm) src hv hexS
    have hbin : ∀ b ∈ bins, Good B b ∧ ∀ e ∈ paraOf B b, ValidKey e.1 ∧ GoodText e.2 := by
      intro b hb
      rcases h2 b hb with h2 | ⟨p, hpm, hv⟩
      · simp at h2
      · exact fromLL_goodx exS exC B hnB hB p (hgood p hpm) b hv (hexB b hb)
    obtain ⟨fs, hfs, hfk, hfm⟩ := hSrcF
    obtain ⟨fb, hfb, hbk, hbm⟩ := hPkgF
    have hpc := printsCanon_of_paras (docControl S B src bins) (by
      intro q hq
      simp only [docControl, List.mem_cons, List.mem_map] at hq
      rcases hq with rfl | ⟨b, hb, rfl⟩
      · exact ⟨paraOf_ne_nil S src hsrc.1 ⟨fs, hfs, hfm⟩, hsrc.2⟩
      · exact ⟨paraOf_ne_nil B b (hbin b hb).1 ⟨fb, hfb, hbm⟩, (hbin b hb).2⟩)
    refine C20_stable_control S B src bins hsrc.1 (fun b hb => (hbin b hb).1) ⟨hpc.1, hpc.2⟩ hNoPkg ?_ ?_
    · rw [← hfk]; exact present_of_mandatory S src hnS hsrc.1.wf fs hfs hfm
    · intro b hb
      rw [← hbk]; exact present_of_mandatory B b hnB (hbin b hb).1.wf fb hfb hbm

/-! ### the leaf codecs meet `FieldOK` -/

/-- the two codec-level conditions of `FieldOK` -/
def CodecOK (c : LeafCodec) : Prop :=
  (∀ t y, GoodText t → c.de t = .ok y → c.de (c.ser y) = .ok y)
  ∧ (∀ t y, GoodText t → c.de t = .ok y → GoodText (c.ser y))

theorem fieldOK_of_codec (key : Str) (opt : Bool) (c : LeafCodec) (hk : ValidKey key) (hc : CodecOK c) :
    FieldOK ⟨key, opt, c.ser, c.de⟩ := ⟨hk, hc.1, hc.2⟩

theorem goodText_of_line (v : Str) (hc : CanonLines (Text.splitOn '\n' v))
    (hne : (Text.splitOn '\n' v).head? ≠ some []) : GoodText v := ⟨hc, fun h => absurd h hne⟩

/-- codecs whose printed form of a read value is the text that was read -/
theorem codecOK_of_identity (c : LeafCodec) (h : ∀ t y, GoodText t → c.de t = .ok y → c.ser y = t) : CodecOK c :=
  ⟨fun t y hg hd => by rw [h t y hg hd]; exact hd, fun t y hg hd => by rw [h t y hg hd]; exact hg⟩

theorem str_codecOK : CodecOK strCodec := by
  apply codecOK_of_identity
  intro t y _ h
  have : y = .str t := by
    simp only [strCodec] at h
    exact (Except.ok.inj h).symm
  subst this; rfl

theorem splitLines_codecOK : CodecOK splitLinesCodec := by
  apply codecOK_of_identity
  intro t y _ h
  have hy : y = .list (if t = [] then [] else Text.splitOn '\n' t) := (Except.ok.inj h).symm
  subst hy
  show joinWith ['\n'] (if t = [] then [] else Text.splitOn '\n' t) = t
  split
  · rename_i ht; rw [ht]; rfl
  · exact join_splitOn t

theorem splitOnFirst_char_eq (ch : Char) (l k v : Str) (h : Codec.splitOnFirst [ch] l = some (k, v)) :
    l = k ++ ch :: v := by
  induction l generalizing k with
  | nil => simp [Codec.splitOnFirst] at h
  | cons c cs ih =>
    simp only [Codec.splitOnFirst] at h
    split at h
    · rename_i hp
      simp at h
      have hc : c = ch := by
        have : ch = c := by simpa [List.isPrefixOf] using hp
        exact this.symm
      subst hc
      obtain ⟨rfl, rfl⟩ := h
      simp
    · cases hr : Codec.splitOnFirst [ch] cs with
      | none => rw [hr] at h; simp at h
      | some r =>
        rw [hr] at h
        simp only [Option.some.injEq, Prod.mk.injEq] at h
        obtain ⟨rfl, rfl⟩ := h
        rw [ih r.1 (by rw [hr])]; simp

theorem license_codecOK : CodecOK licenseCodec := by
  apply codecOK_of_identity
  intro t y _ h
  have hy : y = .license (Codec.License.parse t) := (Except.ok.inj h).symm
  subst hy
  show (Codec.License.parse t).print = t
  simp only [Codec.License.parse]
  cases hs : Codec.splitOnFirst ['\n'] t with
  | none => rfl
  | some r =>
    have := splitOnFirst_char_eq '\n' t r.1 r.2 (by rw [hs])
    simp only
    split
    · rename_i he; rw [this, he]; rfl
    · rw [this]; rfl

theorem bool_codecOK : CodecOK boolCodec := by
  have himg : ∀ t y, boolCodec.de t = .ok y → ∃ b, y = .bool b := by
    intro t y h
    simp only [boolCodec] at h
    split at h
    · exact ⟨true, by simpa using h.symm⟩
    · split at h
      · exact ⟨false, by simpa using h.symm⟩
      · simp at h
  refine ⟨fun t y _ h => C16.bool_ok y (himg t y h), ?_⟩
  intro t y _ h
  obtain ⟨b, rfl⟩ := himg t y h
  have hc := C20_canon_keywords.2.1 b
  cases b <;> exact goodText_of_line _ hc (by decide +kernel)

theorem yesno_codecOK (err : Str → Str) : CodecOK (yesnoCodec err) := by
  have himg : ∀ t y, (yesnoCodec err).de t = .ok y → ∃ b, y = .bool b := by
    intro t y h
    simp only [yesnoCodec] at h
    split at h
    · exact ⟨true, by simpa using h.symm⟩
    · split at h
      · exact ⟨false, by simpa using h.symm⟩
      · simp at h
  refine ⟨fun t y _ h => C16.yesno_ok err y (himg t y h), ?_⟩
  intro t y _ h
  obtain ⟨b, rfl⟩ := himg t y h
  have hc := C20_canon_keywords.2.2 b
  have hne : ∀ b, (Text.splitOn '\n' (yesnoText b)).head? ≠ some [] := by decide +kernel
  exact goodText_of_line _ hc (hne b)

theorem parseOf_mem_variants : ∀ e ∈ Gen.Enums.all, ∀ kw ∈ Enum.accepted e,
    ∀ k, Enum.lookup kw e.parseTab = some k → k ∈ e.variants ∧ (Enum.printOf e k).getD [] ∈ Enum.printed e := by
  decide +kernel

theorem enum_codecOK (e : Enum.EnumSpec) (he : e ∈ Gen.Enums.all) (err : Str → Str)
    (hok : C16.KindOK (.modelled (enumCodec e err))) : CodecOK (enumCodec e err) := by
  have himg : ∀ t y, (enumCodec e err).de t = .ok y →
      ∃ k, y = .kw k ∧ k ∈ e.variants ∧ (Enum.printOf e k).getD [] ∈ Enum.printed e := by
    intro t y h
    simp only [enumCodec] at h
    cases hp : Enum.parseOf e t with
    | none => rw [hp] at h; simp at h
    | some k =>
      rw [hp] at h
      simp only [Except.ok.injEq] at h
      refine ⟨k, h.symm, ?_⟩
      have hrej := C18.C18_enum_no_default e he
      unfold Enum.parseOf at hp
      cases hl : Enum.lookup (Enum.normalise e.norm t) e.parseTab with
      | none => rw [hl, hrej] at hp; simp at hp
      | some k' =>
        rw [hl] at hp
        simp only [Option.some.injEq] at hp
        subst hp
        have hmem : Enum.normalise e.norm t ∈ Enum.accepted e := by
          apply Classical.byContradiction
          intro hn
          rw [C18.lookup_none_of_not_mem _ _ hn] at hl
          simp at hl
        exact parseOf_mem_variants e he _ hmem k' hl
  refine ⟨fun t y _ h => ?_, ?_⟩
  · obtain ⟨k, rfl, hk, _⟩ := himg t y h
    exact hok (.kw k) ⟨k, rfl, hk⟩
  · intro t y _ h
    obtain ⟨k, rfl, _, hp⟩ := himg t y h
    have hc := C20_canon_keywords.1 e he _ hp
    refine goodText_of_line _ hc ?_
    have : ∀ e ∈ Gen.Enums.all, ∀ kw ∈ Enum.printed e, (Text.splitOn '\n' kw).head? ≠ some [] := by decide +kernel
    exact this e he _ hp

theorem nat_codecOK (bound : Nat) : CodecOK (natCodec bound) := by
  have himg : ∀ t y, (natCodec bound).de t = .ok y → ∃ n, y = .nat n ∧ n < bound := by
    intro t y h
    simp only [natCodec] at h
    cases hp : parseUnsigned bound t with
    | error e => rw [hp] at h; simp at h
    | ok n =>
      rw [hp] at h
      simp only [Except.ok.injEq] at h
      refine ⟨n, h.symm, ?_⟩
      -- the digit loop only returns values below the bound (or the initial 0 of the empty loop)
      have hd : ∀ (acc : Nat) (l : Str) (r : Nat), l ≠ [] → unsignedDigits bound acc l = .ok r → r < bound := by
        intro acc l
        induction l generalizing acc with
        | nil => intro r hne; exact absurd rfl hne
        | cons c cs ih =>
          intro r _ hr
          simp only [unsignedDigits] at hr
          cases hdv : Codec.digitVal c with
          | none => rw [hdv] at hr; simp at hr
          | some d =>
            rw [hdv] at hr
            simp only at hr
            split at hr
            · rename_i hlt
              cases cs with
              | nil => simp [unsignedDigits] at hr; rw [← hr]; exact hlt
              | cons c2 cs2 => exact ih _ r (by simp) hr
            · simp at hr
      unfold parseUnsigned at hp
      split at hp
      · simp at hp
      · simp at hp
      · simp at hp
      · rename_i rest hrest1
        exact hd 0 rest n (fun e => hrest1 (by rw [e])) hp
      · rename_i hs1 hs2 hs3 hs4
        cases t with
        | nil => exact absurd rfl hs1
        | cons a as => exact hd 0 _ n (by simp) hp
  refine ⟨fun t y _ h => ?_, ?_⟩
  · obtain ⟨n, rfl, hn⟩ := himg t y h
    exact C16.nat_ok bound (.nat n) ⟨n, rfl, hn⟩
  · intro t y _ h
    obtain ⟨n, rfl, _⟩ := himg t y h
    refine goodText_of_line _ (C20_canon_nat n) ?_
    show (Text.splitOn '\n' (Codec.decDigits n)).head? ≠ some []
    have hnl : '\n' ∉ Codec.decDigits n := by
      intro hm
      have := (C18.decDigits_tok n).2 _ hm
      exact absurd this (by decide)
    rw [splitOn_no_nl _ hnl]
    simp [C18.decDigits_ne_nil n]

/-- the modelled codecs proved to meet the two conditions; the others are hypotheses of the
    `C20_roundtrip_*` theorems for the fields that use them (see the report) -/
theorem C20_codecs_ok :
    CodecOK strCodec ∧ CodecOK boolCodec ∧ (∀ err, CodecOK (yesnoCodec err)) ∧ (∀ b, CodecOK (natCodec b))
    ∧ CodecOK (enumCodec Gen.Enums.priority errPriority)
    ∧ CodecOK (enumCodec Gen.Enums.multiArch errMultiArch)
    ∧ CodecOK (enumCodec Gen.Enums.yesNoForce errRepoType)
    ∧ CodecOK splitLinesCodec ∧ CodecOK licenseCodec :=
  ⟨str_codecOK, bool_codecOK, yesno_codecOK, nat_codecOK,
   enum_codecOK _ (by simp [Gen.Enums.all]) _ C16.priority_ok,
   enum_codecOK _ (by simp [Gen.Enums.all]) _ C16.multiArch_ok,
   enum_codecOK _ (by simp [Gen.Enums.all]) _ C16.yesNoForce_ok, splitLines_codecOK, license_codecOK⟩

/-! ### the remaining modelled codecs -/

instance (v : Str) : Decidable (GoodText v) := by unfold GoodText; infer_instance

theorem goodText_no_cr (t : Str) (h : GoodText t) : '\r' ∉ t := by
  intro hm
  rw [← join_splitOn t] at hm
  have : ∀ (ls : List Str), '\r' ∈ Text.join ['\n'] ls → ∃ l ∈ ls, '\r' ∈ l := by
    intro ls
    induction ls with
    | nil => intro h'; simp [Text.join] at h'
    | cons a r ih =>
      cases r with
      | nil => intro h'; exact ⟨a, by simp, by simpa [Text.join] using h'⟩
      | cons b r' =>
        intro h'
        simp only [Text.join, List.append_assoc, List.mem_append, List.mem_singleton] at h'
        rcases h' with h' | h' | h'
        · exact ⟨a, by simp, h'⟩
        · exact absurd h' (by decide)
        · obtain ⟨l, hl, hc⟩ := ih h'
          exact ⟨l, by simp [hl], hc⟩
  obtain ⟨l, hl, hc⟩ := this _ hm
  have := h.1.noNl l hl _ hc
  simp [isNewline] at this

/-- the lines of a good text: none empty unless the text is empty, no line terminators -/
theorem goodText_lines (t : Str) (h : GoodText t) (hne : t ≠ []) :
    ∀ l ∈ Text.splitOn '\n' t, l ≠ [] ∧ '\n' ∉ l ∧ l.getLast? ≠ some '\r' := by
  intro l hl
  have hnl := h.1.noNl l hl
  refine ⟨?_, fun hm => by have := hnl _ hm; simp [isNewline] at this,
    fun hlast => by have := hnl _ (List.mem_of_getLast? hlast); simp [isNewline] at this⟩
  intro hle
  subst hle
  cases hs : Text.splitOn '\n' t with
  | nil => exact absurd hs (splitOn_ne_nil _ _)
  | cons a r =>
    rw [hs] at hl
    simp only [List.mem_cons] at hl
    rcases hl with rfl | hl
    · exact hne (h.2 (by rw [hs]; rfl))
    · have := h.1.tailOk [] (by rw [hs]; exact hl)
      obtain ⟨_, c, cs, hc, _⟩ := this
      simp at hc

/-- Forwarded, Origin / AppliedUpstream: the printed form of a read value is the text read -/
theorem fwd_codecOK : CodecOK fwdCodec := by
  apply codecOK_of_identity
  intro t y _ h
  have hy : y = .fwd (Codec.Forwarded.parse t) := (Except.ok.inj h).symm
  subst hy
  show (Codec.Forwarded.parse t).print = t
  simp only [Codec.Forwarded.parse]
  cases hl : Enum.lookup t Gen.Enums.forwarded.parseTab with
  | none => rfl
  | some v =>
    have hmem : t ∈ Enum.accepted Gen.Enums.forwarded := by
      apply Classical.byContradiction
      intro hn; rw [C18.lookup_none_of_not_mem _ _ hn] at hl; simp at hl
    have key : ∀ kw ∈ Enum.accepted Gen.Enums.forwarded, ∀ v,
        Enum.lookup kw Gen.Enums.forwarded.parseTab = some v →
        (Enum.printOf Gen.Enums.forwarded v).getD [] = kw := by decide +kernel
    exact key t hmem v hl

theorem origin_identity (t : Str) : (Codec.Origin.parse t).print = t := by
  simp only [Codec.Origin.parse, Text.stripPrefix]
  by_cases hp : Codec.commitPrefix.isPrefixOf t = true
  · simp only [hp, ↓reduceIte, Codec.Origin.print]
    obtain ⟨r, hr⟩ := List.isPrefixOf_iff_prefix.1 hp
    rw [← hr]; simp
  · simp only [hp, Bool.false_eq_true, ↓reduceIte, Codec.Origin.print]

theorem origin_codecOK : CodecOK originCodec := by
  apply codecOK_of_identity
  intro t y _ h
  have hy : y = .origin (Codec.Origin.parse t) := (Except.ok.inj h).symm
  subst hy
  exact origin_identity t

theorem splitOnFirst_eq_gen (pat l k v : Str) (h : Codec.splitOnFirst pat l = some (k, v)) :
    l = k ++ pat ++ v := by
  induction l generalizing k with
  | nil => simp [Codec.splitOnFirst] at h
  | cons c cs ih =>
    simp only [Codec.splitOnFirst] at h
    split at h
    · rename_i hp
      simp only [Option.some.injEq, Prod.mk.injEq] at h
      obtain ⟨rfl, rfl⟩ := h
      obtain ⟨r, hr⟩ := List.isPrefixOf_iff_prefix.1 hp
      rw [← hr]; simp
    · cases hr : Codec.splitOnFirst pat cs with
      | none => rw [hr] at h; simp at h
      | some r =>
        rw [hr] at h
        simp only [Option.some.injEq, Prod.mk.injEq] at h
        obtain ⟨rfl, rfl⟩ := h
        rw [ih r.1 (by rw [hr])]; simp

theorem originPrefix_facts : ∀ kw ∈ Gen.Enums.originPrefix.map (·.1), ∀ c,
    Enum.lookup kw Gen.Enums.originPrefix = some c →
    Codec.categoryText c = kw ∧ ',' ∉ kw ∧ GoodText (kw ++ Codec.originSep) := by decide +kernel

/-- the Origin field: the printed form is the text read, except that a bare category keyword gains
    its `, ` — which reads back as the same value -/
theorem originField_codecOK : CodecOK originFieldCodec := by
  have hser : ∀ t, originFieldCodec.ser (.originField (Codec.parseOrigin t).1 (Codec.parseOrigin t).2) = t
      ∨ (originFieldCodec.ser (.originField (Codec.parseOrigin t).1 (Codec.parseOrigin t).2) = t ++ Codec.originSep
          ∧ Codec.parseOrigin (t ++ Codec.originSep) = Codec.parseOrigin t ∧ GoodText (t ++ Codec.originSep)) := by
    intro t
    show Codec.formatOrigin (Codec.parseOrigin t).1 (Codec.parseOrigin t).2 = t ∨
      (Codec.formatOrigin (Codec.parseOrigin t).1 (Codec.parseOrigin t).2 = t ++ Codec.originSep ∧ _)
    cases hl : Enum.lookup (Codec.firstPiece t) Gen.Enums.originPrefix with
    | none =>
      left
      have hpo : Codec.parseOrigin t = (none, Codec.Origin.parse t) := by simp [Codec.parseOrigin, hl]
      rw [hpo]; simp [Codec.formatOrigin, origin_identity]
    | some c =>
      have hpo : Codec.parseOrigin t = (some c, Codec.Origin.parse (Codec.restPiece t)) := by
        simp [Codec.parseOrigin, hl]
      have hmem : Codec.firstPiece t ∈ Gen.Enums.originPrefix.map (·.1) := by
        apply Classical.byContradiction
        intro hn; rw [C18.lookup_none_of_not_mem _ _ hn] at hl; simp at hl
      obtain ⟨h1, h2, h3⟩ := originPrefix_facts _ hmem c hl
      have hfmt : Codec.formatOrigin (some c) (Codec.Origin.parse (Codec.restPiece t))
          = Codec.firstPiece t ++ Codec.originSep ++ Codec.restPiece t := by
        simp [Codec.formatOrigin, origin_identity, h1]
      rw [hpo]
      simp only [hfmt]
      cases hs : Codec.splitOnFirst Codec.originSep t with
      | some r =>
        left
        have := splitOnFirst_eq_gen _ t r.1 r.2 (by rw [hs])
        simp only [Codec.firstPiece, Codec.restPiece, hs]
        exact this.symm
      | none =>
        right
        have hf : Codec.firstPiece t = t := by simp [Codec.firstPiece, hs]
        have hr : Codec.restPiece t = [] := by simp [Codec.restPiece, hs]
        rw [hf] at h2 h3 hl
        refine ⟨by rw [hf, hr]; simp, ?_, h3⟩
        have hsp : Codec.splitOnFirst Codec.originSep (t ++ Codec.originSep) = some (t, []) := by
          have := C18.splitOnFirst_found ',' [' '] t [] h2
          simpa [Codec.originSep] using this
        have hf2 : Codec.firstPiece (t ++ Codec.originSep) = t := by simp [Codec.firstPiece, hsp]
        have hr2 : Codec.restPiece (t ++ Codec.originSep) = [] := by simp [Codec.restPiece, hsp]
        simp only [Codec.parseOrigin, hf2, hr2, hl, hr]
  constructor
  · intro t y _ h
    have hy : y = .originField (Codec.parseOrigin t).1 (Codec.parseOrigin t).2 := (Except.ok.inj h).symm
    subst hy
    rcases hser t with h1 | ⟨h1, h2, _⟩
    · rw [h1]; rfl
    · rw [h1]
      show Except.ok (Val.originField (Codec.parseOrigin (t ++ Codec.originSep)).1 (Codec.parseOrigin (t ++ Codec.originSep)).2) = _
      rw [h2]
  · intro t y hg h
    have hy : y = .originField (Codec.parseOrigin t).1 (Codec.parseOrigin t).2 := (Except.ok.inj h).symm
    subst hy
    rcases hser t with h1 | ⟨h1, _, h3⟩
    · rw [h1]; exact hg
    · rw [h1]; exact h3

/-- `split_whitespace` returns tokens -/
theorem sw_go_tokens (s cur : Str) (hc : ∀ c ∈ cur, Text.isWhitespace c = false) :
    ∀ w ∈ Text.splitWhitespace.go s cur, w ≠ [] ∧ ∀ c ∈ w, Text.isWhitespace c = false := by
  induction s generalizing cur with
  | nil =>
    intro w hw
    simp only [Text.splitWhitespace.go] at hw
    split at hw
    · simp at hw
    · rename_i hne
      simp at hw; subst hw
      exact ⟨by simpa using hne, fun c hc' => hc c (by simpa using hc')⟩
  | cons x xs ih =>
    intro w hw
    simp only [Text.splitWhitespace.go] at hw
    split at hw
    · split at hw
      · exact ih [] (by simp) w hw
      · rename_i hne
        simp only [List.mem_cons] at hw
        rcases hw with rfl | hw
        · exact ⟨by simpa using hne, fun c hc' => hc c (by simpa using hc')⟩
        · exact ih [] (by simp) w hw
    · rename_i hx
      exact ih (x :: cur) (by
        intro c hc'
        simp only [List.mem_cons] at hc'
        rcases hc' with rfl | hc'
        · simpa using hx
        · exact hc c hc') w hw

theorem sw_tokens (s : Str) : ∀ w ∈ Text.splitWhitespace s, C18.Tok w := by
  intro w hw
  exact sw_go_tokens s [] (by simp) w hw

theorem words_codecOK : CodecOK wordsCodec := by
  constructor
  · intro t y _ h
    have hy : y = .list (Text.splitWhitespace t) := (Except.ok.inj h).symm
    subst hy
    exact C16.words_ok _ ⟨_, rfl, fun w hw => sw_tokens t w hw⟩
  · intro t y _ h
    have hy : y = .list (Text.splitWhitespace t) := (Except.ok.inj h).symm
    subst hy
    show GoodText (joinWith [' '] (Text.splitWhitespace t))
    by_cases hne : Text.splitWhitespace t = []
    · rw [hne]; exact goodText_nil
    · have hc := C20_canon_words _ hne (sw_tokens t)
      refine goodText_of_line _ hc ?_
      intro hh
      have hsplit := hc
      cases hs : Text.splitWhitespace t with
      | nil => exact hne hs
      | cons a r =>
        have ha := sw_tokens t a (by rw [hs]; simp)
        -- the joined text is non-empty and has no newline, so its only line is itself
        have hnl : '\n' ∉ joinWith [' '] (Text.splitWhitespace t) := by
          intro hm
          have := hc.noNl
          rw [hs] at hm
          clear hh hsplit
          have : ∀ l : List Str, (∀ w ∈ l, C18.Tok w) → '\n' ∉ joinWith [' '] l := by
            intro l
            induction l with
            | nil => intro _ h'; simp [joinWith, Text.join] at h'
            | cons x xs ih =>
              intro hx
              cases xs with
              | nil =>
                intro h'; simp [joinWith, Text.join] at h'
                exact absurd ((hx x (by simp)).2 _ h') (by decide)
              | cons y ys =>
                intro h'
                simp only [joinWith, Text.join, List.append_assoc, List.mem_append, List.mem_singleton] at h'
                rcases h' with h' | h' | h'
                · exact absurd ((hx x (by simp)).2 _ h') (by decide)
                · exact absurd h' (by decide)
                · exact ih (fun w hw => hx w (by simp [hw])) (by simpa [joinWith] using h')
          exact this (a :: r) (by rw [← hs]; exact sw_tokens t) hm
        rw [splitOn_no_nl _ hnl] at hh
        simp only [List.head?_cons, Option.some.injEq] at hh
        rw [hs] at hh
        cases r with
        | nil => simp [joinWith, Text.join] at hh; exact ha.1 hh
        | cons b r' => simp [joinWith, Text.join] at hh

/-- the `Files` lists: re-reading is fine; the printed form is the subject of finding F-C20-5 -/
theorem fileList_stable : ∀ t y, GoodText t → fileListCodec.de t = .ok y → fileListCodec.de (fileListCodec.ser y) = .ok y := by
  intro t y _ h
  have hy : y = .list (Text.splitWhitespace t) := (Except.ok.inj h).symm
  subst hy
  exact C16.fileList_ok _ ⟨_, rfl, fun w hw => sw_tokens t w hw⟩

/-- Removal's `lines()` lists: on good text the printed form is the text read -/
theorem lines_codecOK : CodecOK linesCodec := by
  apply codecOK_of_identity
  intro t y hg h
  have hy : y = .list (Text.lines t) := (Except.ok.inj h).symm
  subst hy
  show joinWith ['\n'] (Text.lines t) = t
  by_cases hne : t = []
  · subst hne; rfl
  · have hl := C16.lines_join (Text.splitOn '\n' t) (goodText_lines t hg hne)
    rw [show joinWith ['\n'] (Text.splitOn '\n' t) = t from join_splitOn t] at hl
    rw [hl]; exact join_splitOn t

theorem types_codecOK : CodecOK typesCodec := by
  constructor
  · intro t y _ h; exact (C20_types_stable t y h).2.1
  · intro t y _ h
    obtain ⟨hc, _, h3⟩ := C20_types_stable t y h
    by_cases hy : y = .list []
    · subst hy
      have : sortStrings [] = [] := C16.sortStrings_sorted _ (by simp)
      show GoodText (joinWith ['\n'] (sortStrings []))
      rw [this]; exact goodText_nil
    · refine goodText_of_line _ (h3 hy) ?_
      rcases hc with rfl | rfl | rfl | rfl
      · exact absurd rfl hy
      · have : sortStrings [c!"deb"] = [c!"deb"] := C16.sortStrings_sorted _ (by simp)
        simp only [typesCodec, this]; decide +kernel
      · have : sortStrings [c!"deb-src"] = [c!"deb-src"] := C16.sortStrings_sorted _ (by simp)
        simp only [typesCodec, this]; decide +kernel
      · have : sortStrings [c!"deb", c!"deb-src"] = [c!"deb", c!"deb-src"] :=
          C16.sortStrings_sorted _ (by simp; decide)
        simp only [typesCodec, this]; decide +kernel

/-- the environment: re-reading is fine for any number of variables; the printed form is good text
    unless a `K=V` piece starts with `#` (sorting can move it to a continuation line) -/
theorem env_stable : ∀ t y, GoodText t → envCodec.de t = .ok y → envCodec.de (envCodec.ser y) = .ok y := by
  intro t y hg h
  have : ∃ m, y = .map m := by
    simp only [envCodec] at h
    cases hd : envDe (Text.lines t) [] with
    | error e => rw [hd] at h; simp at h
    | ok m => rw [hd] at h; exact ⟨m, (Except.ok.inj h).symm⟩
  obtain ⟨m, rfl⟩ := this
  exact (C20_env_stable t m (goodText_no_cr t hg) h).2

/-- Signed-By: re-reading the printed form gives the value back, for every text (after 5815b19) -/
theorem sig_stable : ∀ t y, GoodText t → sigCodec.de t = .ok y → sigCodec.de (sigCodec.ser y) = .ok y := by
  intro t y _ h
  have hy : y = .sig (Codec.Signature.parse t) := (Except.ok.inj h).symm
  subst hy
  refine C16.sig_ok _ ⟨_, rfl, C18.C18_signature_roundtrip _ ?_⟩
  simp only [Codec.Signature.parse]
  split
  · trivial
  · rename_i hc
    simp only [C18.CanonSignature]
    intro hm; apply hc; simpa using hm

theorem sig_parse_block (t : Str) (h : '\n' ∈ t) (hh : t.head? ≠ some '\n') :
    Codec.Signature.parse t = .keyBlock t := by
  cases t with
  | nil => simp at h
  | cons c cs =>
    have hc : c ≠ '\n' := by intro e; apply hh; simp [e]
    unfold Codec.Signature.parse
    have hcont : (c :: cs).contains '\n' = true := by simpa using h
    rw [if_pos hcont]
    split
    · rename_i heq; simp only [List.cons.injEq] at heq; exact absurd heq.1 hc
    · rfl

/-- a one-line Signed-By value (a key path) prints as itself; a key block prints with an empty first
    line, which the lossless reader does not show (it then reads the block without it: same value) -/
theorem sig_print (t : Str) :
    ('\n' ∉ t → sigCodec.ser (.sig (Codec.Signature.parse t)) = t)
    ∧ ('\n' ∈ t → t.head? ≠ some '\n' → sigCodec.ser (.sig (Codec.Signature.parse t)) = '\n' :: t) := by
  constructor
  · intro h; simp [sigCodec, Codec.Signature.parse, Codec.Signature.print, h]
  · intro h hh
    rw [sig_parse_block t h hh]; rfl

/-! ## Part K — the shipped structs meet `SpecOK` (external codecs as explicit assumptions) -/

theorem jaNee_codecOK : CodecOK jaNeeCodec := by
  have himg : ∀ t y, jaNeeCodec.de t = .ok y → ∃ b, y = .bool b := by
    intro t y h; exact ⟨_, (Except.ok.inj h).symm⟩
  refine ⟨fun t y _ h => C16.jaNee_ok y (himg t y h), ?_⟩
  intro t y _ h
  obtain ⟨b, rfl⟩ := himg t y h
  cases b <;> decide +kernel

def stableP (c : LeafCodec) : Prop := ∀ t y, GoodText t → c.de t = .ok y → c.de (c.ser y) = .ok y
def canonP (c : LeafCodec) : Prop := ∀ t y, GoodText t → c.de t = .ok y → GoodText (c.ser y)

def tyVcs : Str := c!"crate::vcs::ParsedVcs"
def tySig : Str := c!"Signature"
def deFileList : Str := c!"debiancopyright.deserialize_file_list"
def deEnv : Str := c!"buildinfo.deserialize_env"

/-- codec triples whose re-reading / canonicity is not unconditional -/
def waiveS (k : Str × Str × Str) : Prop := k.2.2 = tyVcs
def waiveC (k : Str × Str × Str) : Prop := k.2.2 = tyVcs ∨ k.2.1 = deFileList ∨ k.2.2 = tySig ∨ k.2.1 = deEnv

instance (k : Str × Str × Str) : Decidable (waiveS k) := by unfold waiveS; infer_instance
instance (k : Str × Str × Str) : Decidable (waiveC k) := by unfold waiveC; infer_instance

/-- the keys under which those codecs occur in the shipped structs -/
def exS (k : Str) : Prop := k = c!"Vcs-Git"
def exC (k : Str) : Prop := k = c!"Vcs-Git" ∨ isFilesKey k ∨ k = c!"Signed-By" ∨ k = c!"Environment"

instance (k : Str) : Decidable (isFilesKey k) := by unfold isFilesKey; infer_instance
instance (k : Str) : Decidable (exS k) := by unfold exS; infer_instance
instance (k : Str) : Decidable (exC k) := by unfold exC; infer_instance

def EntryOK (e : (Str × Str × Str) × Derive.Kind) : Prop :=
  match e.2 with
  | .modelled c => (waiveS e.1 ∨ stableP c) ∧ (waiveC e.1 ∨ canonP c)
  | _ => True

def AllEntriesOK : List ((Str × Str × Str) × Derive.Kind) → Prop
  | [] => True
  | e :: r => EntryOK e ∧ AllEntriesOK r

theorem allEntriesOK_mem (l : List ((Str × Str × Str) × Derive.Kind)) (h : AllEntriesOK l) : ∀ e ∈ l, EntryOK e := by
  induction l with
  | nil => intro e he; simp at he
  | cons a r ih =>
    intro e he
    simp only [List.mem_cons] at he
    rcases he with rfl | he
    · exact h.1
    · exact ih h.2 e he

theorem ok_of {k : Str × Str × Str} {c : LeafCodec} (h : CodecOK c) : EntryOK (k, .modelled c) :=
  ⟨Or.inr h.1, Or.inr h.2⟩

/-- every modelled codec of the registry: re-reading and canonicity hold, except where waived -/
theorem registry_entries_ok : ∀ e ∈ registry, EntryOK e := by
  apply allEntriesOK_mem
  unfold registry
  exact ⟨
    ok_of str_codecOK,
    ok_of bool_codecOK,
    ok_of (nat_codecOK _),
    ok_of (nat_codecOK _),
    trivial,
    ok_of (enum_codecOK _ (by simp [Gen.Enums.all]) _ C16.priority_ok),
    ok_of (enum_codecOK _ (by simp [Gen.Enums.all]) _ C16.priority_ok),
    ok_of (enum_codecOK _ (by simp [Gen.Enums.all]) _ C16.multiArch_ok),
    ok_of (enum_codecOK _ (by simp [Gen.Enums.all]) _ C16.multiArch_ok),
    ok_of (enum_codecOK _ (by simp [Gen.Enums.all]) _ C16.yesNoForce_ok),
    ⟨Or.inl rfl, Or.inl (Or.inl rfl)⟩,
    ok_of fwd_codecOK,
    ok_of origin_codecOK,
    ok_of license_codecOK,
    ⟨Or.inr sig_stable, Or.inl (Or.inr (Or.inr (Or.inl rfl)))⟩,
    trivial,
    trivial,
    trivial,
    trivial,
    trivial,
    trivial,
    ok_of (yesno_codecOK _),
    ok_of (yesno_codecOK _),
    ok_of (yesno_codecOK _),
    ok_of jaNee_codecOK,
    ok_of words_codecOK,
    ok_of words_codecOK,
    ok_of words_codecOK,
    ok_of words_codecOK,
    ok_of words_codecOK,
    ok_of splitLines_codecOK,
    ok_of splitLines_codecOK,
    ⟨Or.inr fileList_stable, Or.inl (Or.inr (Or.inl rfl))⟩,
    ok_of lines_codecOK,
    ok_of types_codecOK,
    ⟨Or.inr env_stable, Or.inl (Or.inr (Or.inr (Or.inr rfl)))⟩,
    ok_of str_codecOK,
    ok_of originField_codecOK,
    trivial⟩

/-- the external leaf codecs, as abstract codecs -/
structure ExtCodecs where
  relations : LeafCodec
  url : LeafCodec
  version : LeafCodec
  date : LeafCodec
  uris : LeafCodec

/-- the ASSUMPTION about the external codecs (lossy `Relations`, `url::Url`, `debversion::Version`,
    chrono dates, the URI list): for a value read from good text, its printed form re-reads to it and
    is good text.  Not proved; checked on the real code by the C20 worker on every run. -/
def ExtOK (E : ExtCodecs) : Prop :=
  CodecOK E.relations ∧ CodecOK E.url ∧ CodecOK E.version ∧ CodecOK E.date ∧ CodecOK E.uris

def extOf (E : ExtCodecs) (f : FieldRow) : Option LeafCodec :=
  if f.ty = c!"Relations" then some E.relations
  else if f.ty = c!"url::Url" then some E.url
  else if f.ty = c!"debversion::Version" then some E.version
  else if f.ty = c!"chrono::NaiveDate" then some E.date
  else if f.ty = c!"Vec<Url>" then some E.uris
  else none

theorem extOf_ok (E : ExtCodecs) (hE : ExtOK E) (f : FieldRow) (c : LeafCodec) (h : extOf E f = some c) : CodecOK c := by
  unfold extOf at h
  obtain ⟨h1, h2, h3, h4, h5⟩ := hE
  (repeat' split at h) <;> simp at h <;> subst h <;> assumption

/-- the field spec of a table row: modelled codecs from the registry, external ones from `E` -/
def fieldSpecE (E : ExtCodecs) (f : FieldRow) : Option (FieldSpec Val) :=
  match kindOf f with
  | some (.modelled c) => some ⟨f.key, f.optional, c.ser, c.de⟩
  | some (.external _) => (extOf E f).map fun c => ⟨f.key, f.optional, c.ser, c.de⟩
  | _ => none

def specOfRowE (E : ExtCodecs) (s : StructRow) : Option Spec := s.fields.mapM (fieldSpecE E)

theorem fieldSpecE_key (E : ExtCodecs) (f : FieldRow) (fs : FieldSpec Val) (h : fieldSpecE E f = some fs) :
    fs.key = f.key ∧ fs.optional = f.optional := by
  unfold fieldSpecE at h
  split at h
  · simp at h; subst h; exact ⟨rfl, rfl⟩
  · cases he : extOf E f with
    | none => rw [he] at h; simp at h
    | some c => rw [he] at h; simp at h; subst h; exact ⟨rfl, rfl⟩
  · simp at h

theorem fieldSpecE_ok (E : ExtCodecs) (hE : ExtOK E) (f : FieldRow) (fs : FieldSpec Val)
    (h : fieldSpecE E f = some fs) (hk : ValidKey f.key)
    (hwS : waiveS (f.ser, f.de, f.ty) → exS f.key) (hwC : waiveC (f.ser, f.de, f.ty) → exC f.key) :
    FieldOKx exS exC fs := by
  unfold fieldSpecE at h
  split at h
  · rename_i c hkind
    simp at h; subst h
    have hmem := C16.lookupKind_mem _ _ _ hkind
    have he := registry_entries_ok _ hmem
    simp only [EntryOK] at he
    refine ⟨hk, ?_, ?_⟩
    · intro hx
      rcases he.1 with hw | hs
      · exact absurd (hwS hw) hx
      · exact hs
    · intro hx
      rcases he.2 with hw | hc
      · exact absurd (hwC hw) hx
      · exact hc
  · cases he : extOf E f with
    | none => rw [he] at h; simp at h
    | some c =>
      rw [he] at h; simp at h; subst h
      have := extOf_ok E hE f c he
      exact ⟨hk, fun _ => this.1, fun _ => this.2⟩
  · simp at h

def fsig (f : FieldSpec Val) : Str × Bool := (f.key, f.optional)
def rsig (r : FieldRow) : Str × Bool := (r.key, r.optional)

theorem specOfRowE_spec (E : ExtCodecs) (fl : List FieldRow) (spec : Spec) (h : fl.mapM (fieldSpecE E) = some spec) :
    spec.map fsig = fl.map rsig
    ∧ (∀ fs ∈ spec, ∃ r ∈ fl, fieldSpecE E r = some fs) := by
  induction fl generalizing spec with
  | nil => simp at h; subst h; simp
  | cons r rs ih =>
    simp only [List.mapM_cons, Option.bind_eq_bind] at h
    cases hr : fieldSpecE E r with
    | none => simp [hr] at h
    | some fs0 =>
      simp only [hr, Option.bind_some] at h
      cases hrest : rs.mapM (fieldSpecE E) with
      | none => simp [hrest] at h
      | some rest =>
        simp only [hrest, Option.bind_some, Option.pure_def, Option.some.injEq] at h
        subst h
        obtain ⟨i1, i2⟩ := ih rest hrest
        have hkey := fieldSpecE_key E r fs0 hr
        refine ⟨by simp [fsig, rsig, hkey.1, hkey.2, ← i1], ?_⟩
        intro fs hfs
        simp only [List.mem_cons] at hfs
        rcases hfs with rfl | hfs
        · exact ⟨r, by simp, hr⟩
        · obtain ⟨r', hr', h'⟩ := i2 fs hfs
          exact ⟨r', by simp [hr'], h'⟩

theorem keys_of_sig (spec : Spec) : specKeys spec = (spec.map fsig).map (·.1) := by
  simp [specKeys, fsig]

/-- facts about every field of every struct of the generated table -/
theorem C20_table_field_facts : ∀ s ∈ Gen.Structs.all, ∀ f ∈ s.fields,
    ValidKey f.key ∧ (waiveS (f.ser, f.de, f.ty) → exS f.key) ∧ (waiveC (f.ser, f.de, f.ty) → exC f.key) := by
  decide +kernel

/-- **the shipped structs meet the per-field conditions**: under the assumption `ExtOK` about the
    external codecs, every struct of the generated table has pairwise distinct keys and every field
    is `FieldOKx` — `FieldOK` except for re-reading of `Vcs-Git` and canonicity of `Vcs-Git`, `Files`,
    `Files-Excluded`, `Signed-By`, `Environment` -/
theorem C20_table_specOK (E : ExtCodecs) (hE : ExtOK E) :
    ∀ s ∈ Gen.Structs.all, ∀ spec, specOfRowE E s = some spec →
      (specKeys spec).Nodup ∧ specKeys spec = s.fields.map (·.key) ∧ ∀ f ∈ spec, FieldOKx exS exC f := by
  intro s hs spec hspec
  obtain ⟨h1, h2⟩ := specOfRowE_spec E s.fields spec hspec
  have hk : specKeys spec = s.fields.map (·.key) := by
    rw [keys_of_sig, h1]; simp [rsig]
  refine ⟨by rw [hk]; exact C16.C16_structs_keys_nodup s hs, hk, ?_⟩
  intro fs hfs
  obtain ⟨r, hr, hrs⟩ := h2 fs hfs
  obtain ⟨f1, f2, f3⟩ := C20_table_field_facts s hs r hr
  exact fieldSpecE_ok E hE r fs hrs f1 f2 f3

/-- **Signature, exactly**: for a `Signed-By` value read from good text, the printed form is good
    text iff the value is a single line (a key file path).  A key block (several lines) prints with an
    empty first line — `Signed-By:` and the block on continuation lines — which the lossless reader
    does not show; this is the one shape outside `NoBlankFirst`. -/
theorem C20_signature_canon (t : Str) (hg : GoodText t) :
    GoodText (sigCodec.ser (.sig (Codec.Signature.parse t))) ↔ '\n' ∉ t := by
  constructor
  · intro h hn
    have hh : t.head? ≠ some '\n' := by
      intro e
      cases t with
      | nil => simp at e
      | cons c cs =>
        simp only [List.head?_cons, Option.some.injEq] at e
        subst e
        have := hg.2 (by simp [Text.splitOn])
        simp at this
    rw [(sig_print t).2 hn hh] at h
    have := h.2 (by simp [Text.splitOn])
    simp at this
  · intro hn
    rw [(sig_print t).1 hn]; exact hg

/-- the codec facts proved in this round: Forwarded, Origin/AppliedUpstream, the Origin field, word
    lists, Removal's lists, repository types meet both per-field conditions; the Files lists, Signature
    and the environment re-read (their canonicity is an exception of the kind theorems) -/
theorem C20_codecs_ok2 :
    CodecOK fwdCodec ∧ CodecOK originCodec ∧ CodecOK originFieldCodec ∧ CodecOK wordsCodec
    ∧ CodecOK linesCodec ∧ CodecOK typesCodec ∧ CodecOK jaNeeCodec
    ∧ stableP fileListCodec ∧ stableP sigCodec ∧ stableP envCodec :=
  ⟨fwd_codecOK, origin_codecOK, originField_codecOK, words_codecOK, lines_codecOK, types_codecOK, jaNee_codecOK,
   fileList_stable, sig_stable, env_stable⟩

/-- the registry as a whole: every modelled codec meets both conditions, except `ParsedVcs` (neither)
    and the canonicity of the Files lists, Signature and the environment -/
theorem C20_registry_ok : ∀ e ∈ registry, EntryOK e := registry_entries_ok

/-! ## Part L — the final per-kind corollaries for the shipped structs -/

def rowOf (id : Str) : Option StructRow := Gen.Structs.all.find? (·.name == id)

def rowFields (id : Str) : List FieldRow :=
  match rowOf id with
  | some r => r.fields
  | none => []

def rowSig (id : Str) : List (Str × Bool) := (rowFields id).map rsig

/-- `spec` is the spec of the shipped struct `id` (external codecs taken from `E`) -/
def Shipped (E : ExtCodecs) (id : Str) (spec : Spec) : Prop :=
  ∃ r, rowOf id = some r ∧ specOfRowE E r = some spec

theorem shipped_facts (E : ExtCodecs) (hE : ExtOK E) (id : Str) (spec : Spec) (h : Shipped E id spec) :
    (specKeys spec).Nodup ∧ (∀ f ∈ spec, FieldOKx exS exC f) ∧ spec.map fsig = rowSig id
    ∧ (∀ fs ∈ spec, ∃ fr ∈ rowFields id, fieldSpecE E fr = some fs) := by
  obtain ⟨r, hr, hs⟩ := h
  have hmem : r ∈ Gen.Structs.all := List.mem_of_find?_eq_some hr
  obtain ⟨a, _, c⟩ := C20_table_specOK E hE r hmem spec hs
  obtain ⟨h1, h2⟩ := specOfRowE_spec E r.fields spec hs
  refine ⟨a, c, ?_, ?_⟩
  · simp only [rowSig, rowFields, hr]; exact h1
  · simp only [rowFields, hr]; exact h2

theorem mem_sig (spec : Spec) (k : Str) (o : Bool) (h : (k, o) ∈ spec.map fsig) :
    ∃ f ∈ spec, f.key = k ∧ f.optional = o := by
  simp only [List.mem_map, fsig, Prod.mk.injEq] at h
  obtain ⟨f, hf, h1, h2⟩ := h
  exact ⟨f, hf, h1, h2⟩

theorem key_mem_sig (spec : Spec) (f : FieldSpec Val) (hf : f ∈ spec) : f.key ∈ (spec.map fsig).map (·.1) := by
  simp only [List.map_map, List.mem_map]
  exact ⟨f, hf, rfl⟩

theorem any_mand (spec : Spec) (h : (spec.map fsig).any (fun p => !p.2) = true) : ∃ f ∈ spec, f.optional = false := by
  simp only [List.any_map, List.any_eq_true] at h
  obtain ⟨f, hf, h⟩ := h
  exact ⟨f, hf, by simpa [fsig] using h⟩

theorem fieldOK_of_x (f : FieldSpec Val) (h : FieldOKx exS exC f) (h1 : ¬ exS f.key) (h2 : ¬ exC f.key) : FieldOK f :=
  ⟨h.validKey, h.stable h1, h.canon h2⟩

theorem fieldOKx_mono (a b a' b' : Str → Prop) (f : FieldSpec Val) (h : FieldOKx a b f)
    (h1 : a f.key → a' f.key) (h2 : b f.key → b' f.key) : FieldOKx a' b' f :=
  ⟨h.validKey, fun hn => h.stable (fun x => hn (h1 x)), fun hn => h.canon (fun x => hn (h2 x))⟩

theorem exHyp_of (spec : Spec) (v : SV) (P : Str → Prop)
    (hk : ∀ f ∈ spec, exC f.key → P f.key)
    (h1 : ∀ fx ∈ spec.zip v, exS fx.1.key → ∀ y, fx.2 = some y → fx.1.de (fx.1.ser y) = .ok y)
    (hP : ∀ e ∈ paraOf spec v, P e.1 → GoodText e.2) : ExHyp exS exC spec v := by
  refine ⟨h1, ?_⟩
  intro e he hx
  have hkm : e.1 ∈ specKeys spec := C16.toFields_keys_subset spec v e.1 (List.mem_map.2 ⟨e, he, rfl⟩)
  simp only [specKeys, List.mem_map] at hkm
  obtain ⟨f, hf, hfe⟩ := hkm
  exact hP e he (hfe ▸ hk f hf (hfe ▸ hx))

theorem noExS (spec : Spec) (v : SV) (hk : ∀ f ∈ spec, ¬ exS f.key) :
    ∀ fx ∈ spec.zip v, exS fx.1.key → ∀ y, fx.2 = some y → fx.1.de (fx.1.ser y) = .ok y :=
  fun fx hfx hx => absurd hx (hk _ (List.of_mem_zip (a := fx.1) (b := fx.2) hfx).1)

theorem fieldSpecE_str (E : ExtCodecs) (fr : FieldRow) (fs : FieldSpec Val) (h : fieldSpecE E fr = some fs)
    (ht : (fr.ser, fr.de, fr.ty) = (c!"", c!"", c!"String")) :
    ∀ t, fs.de t = .ok (.str t) ∧ fs.ser (.str t) = t := by
  have hk : kindOf fr = some (.modelled strCodec) := by
    unfold kindOf; rw [ht]; rfl
  unfold fieldSpecE at h
  rw [hk] at h
  simp only [Option.some.injEq] at h
  subst h
  intro t
  exact ⟨rfl, rfl⟩

/-! facts about the rows of the generated table used by the typed kinds -/

theorem tf_controlS :
    (kSource, false) ∈ rowSig (c!"control.Source") ∧ kPackage ∉ (rowSig (c!"control.Source")).map (·.1)
    ∧ ∀ k ∈ (rowSig (c!"control.Source")).map (·.1), exC k → k = c!"Vcs-Git" := by decide +kernel

theorem tf_controlB :
    (kPackage, false) ∈ rowSig (c!"control.Binary")
    ∧ ∀ k ∈ (rowSig (c!"control.Binary")).map (·.1), ¬ exS k ∧ ¬ exC k := by decide +kernel

theorem tf_header :
    (rowSig (c!"debiancopyright.Header")).head? = some (c!"Format", false)
    ∧ ∀ k ∈ (rowSig (c!"debiancopyright.Header")).map (·.1), ¬ exS k ∧ (exC k → isFilesKey k) := by decide +kernel

theorem tf_files :
    (kFiles, false) ∈ rowSig (c!"debiancopyright.FilesParagraph")
    ∧ ∀ k ∈ (rowSig (c!"debiancopyright.FilesParagraph")).map (·.1), ¬ exS k ∧ (exC k → isFilesKey k) := by decide +kernel

theorem tf_license :
    (kLicense, false) ∈ rowSig (c!"debiancopyright.LicenseParagraph")
    ∧ kFiles ∉ (rowSig (c!"debiancopyright.LicenseParagraph")).map (·.1)
    ∧ ∀ k ∈ (rowSig (c!"debiancopyright.LicenseParagraph")).map (·.1), ¬ exS k ∧ (exC k → isFilesKey k) := by decide +kernel

theorem tf_removal :
    (rowSig (c!"ftpmaster.Removal")).any (fun p => !p.2) = true
    ∧ ∀ k ∈ (rowSig (c!"ftpmaster.Removal")).map (·.1), ¬ exS k ∧ ¬ exC k := by decide +kernel

theorem tf_buildinfo :
    (rowSig (c!"buildinfo.Buildinfo")).any (fun p => !p.2) = true
    ∧ ∀ k ∈ (rowSig (c!"buildinfo.Buildinfo")).map (·.1), ¬ exS k ∧ (exC k → k = c!"Environment") := by decide +kernel

theorem tf_dep3 :
    kFrom ∉ (rowSig (c!"dep3.PatchHeader")).map (·.1) ∧ kSubject ∉ (rowSig (c!"dep3.PatchHeader")).map (·.1)
    ∧ (∀ k ∈ (rowSig (c!"dep3.PatchHeader")).map (·.1), ¬ exS k ∧ ¬ exC k)
    ∧ ∀ f ∈ rowFields (c!"dep3.PatchHeader"), (f.key = kAuthor ∨ f.key = kDescription) →
        f.optional = true ∧ (f.ser, f.de, f.ty) = (c!"", c!"", c!"String") := by decide +kernel

theorem tf_repos :
    (rowSig (c!"aptsources.Repository")).any (fun p => !p.2) = true
    ∧ ∀ k ∈ (rowSig (c!"aptsources.Repository")).map (·.1), ¬ exS k ∧ (exC k → k = c!"Signed-By") := by decide +kernel

/-- **debian/control, shipped structs.**  Hypotheses: `ExtOK` and the `Vcs-Git` exception
    (F-C20-7: the printed form of a `ParsedVcs` need not re-read to it). -/
theorem C20_roundtrip_control_shipped (E : ExtCodecs) (hE : ExtOK E) (S B : Spec)
    (hS : Shipped E (c!"control.Source") S) (hB : Shipped E (c!"control.Binary") B)
    (s : Str) (src : SV) (bins : List SV)
    (h : TypedDoc.parse (.control S B) s = .ok (.control src bins))
    (hVcsRead : ∀ fx ∈ S.zip src, fx.1.key = c!"Vcs-Git" → ∀ y, fx.2 = some y → fx.1.de (fx.1.ser y) = .ok y)
    (hVcsText : ∀ e ∈ paraOf S src, e.1 = c!"Vcs-Git" → GoodText e.2) :
    TypedDoc.parse (.control S B) (TypedDoc.print (.control S B) (.control src bins)) = .ok (.control src bins) := by
  obtain ⟨nS, fS, sigS, _⟩ := shipped_facts E hE _ S hS
  obtain ⟨nB, fB, sigB, _⟩ := shipped_facts E hE _ B hB
  obtain ⟨t1, t2, t3⟩ := tf_controlS
  obtain ⟨t4, t5⟩ := tf_controlB
  have keyS : ∀ f ∈ S, f.key ∈ (rowSig (c!"control.Source")).map (·.1) := fun f hf => by
    rw [← sigS]; exact key_mem_sig S f hf
  have keyB : ∀ f ∈ B, f.key ∈ (rowSig (c!"control.Binary")).map (·.1) := fun f hf => by
    rw [← sigB]; exact key_mem_sig B f hf
  refine C20_roundtrip_control_x exS exC S B nS nB fS fB ?_ ?_ ?_ s src bins h ?_ ?_
  · rw [keys_of_sig, sigS]; exact t2
  · obtain ⟨f, hf, h1, h2⟩ := mem_sig S kSource false (by rw [sigS]; exact t1)
    exact ⟨f, hf, h1, h2⟩
  · obtain ⟨f, hf, h1, h2⟩ := mem_sig B kPackage false (by rw [sigB]; exact t4)
    exact ⟨f, hf, h1, h2⟩
  · exact exHyp_of S src (· = c!"Vcs-Git") (fun f hf hx => t3 _ (keyS f hf) hx) hVcsRead hVcsText
  · intro b _
    exact exHyp_of B b (fun _ => False) (fun f hf hx => (t5 _ (keyB f hf)).2 hx)
      (noExS B b (fun f hf => (t5 _ (keyB f hf)).1)) (fun e _ hf => hf.elim)

/-- **debian/copyright, shipped structs.**  Hypotheses: `ExtOK` and the F-C20-5 exception (the
    printed `Files` / `Files-Excluded` lists are good text: no later pattern starts with `#`). -/
theorem C20_roundtrip_copyright_shipped (E : ExtCodecs) (hE : ExtOK E) (H F L : Spec)
    (hH : Shipped E (c!"debiancopyright.Header") H) (hF : Shipped E (c!"debiancopyright.FilesParagraph") F)
    (hL : Shipped E (c!"debiancopyright.LicenseParagraph") L)
    (s : Str) (h : SV) (fs ls : List SV)
    (hparse : TypedDoc.parse (.copyright H F L) s = .ok (.copyright h fs ls))
    (hFilesLists : ∀ q ∈ docCopyright H F L h fs ls, ∀ e ∈ q, isFilesKey e.1 → GoodText e.2) :
    TypedDoc.parse (.copyright H F L) (TypedDoc.print (.copyright H F L) (.copyright h fs ls))
      = .ok (.copyright h fs ls) := by
  obtain ⟨nH, fH, sigH, _⟩ := shipped_facts E hE _ H hH
  obtain ⟨nF, fF, sigF, _⟩ := shipped_facts E hE _ F hF
  obtain ⟨nL, fL, sigL, _⟩ := shipped_facts E hE _ L hL
  obtain ⟨t1, t2⟩ := tf_header
  obtain ⟨t3, t4⟩ := tf_files
  obtain ⟨t5, t6, t7⟩ := tf_license
  have keyH : ∀ f ∈ H, f.key ∈ (rowSig (c!"debiancopyright.Header")).map (·.1) := fun f hf => by
    rw [← sigH]; exact key_mem_sig H f hf
  have keyF : ∀ f ∈ F, f.key ∈ (rowSig (c!"debiancopyright.FilesParagraph")).map (·.1) := fun f hf => by
    rw [← sigF]; exact key_mem_sig F f hf
  have keyL : ∀ f ∈ L, f.key ∈ (rowSig (c!"debiancopyright.LicenseParagraph")).map (·.1) := fun f hf => by
    rw [← sigL]; exact key_mem_sig L f hf
  refine C20_roundtrip_copyright H F L nH nF nL ?_ ?_ ?_ ?_ ?_ ?_ ?_ s h fs ls hparse hFilesLists
  · intro f hf
    exact fieldOKx_mono _ _ _ _ f (fH f hf) (fun x => (t2 _ (keyH f hf)).1 x) (fun x => (t2 _ (keyH f hf)).2 x)
  · intro f hf
    exact fieldOKx_mono _ _ _ _ f (fF f hf) (fun x => (t4 _ (keyF f hf)).1 x) (fun x => (t4 _ (keyF f hf)).2 x)
  · intro f hf
    exact fieldOKx_mono _ _ _ _ f (fL f hf) (fun x => (t7 _ (keyL f hf)).1 x) (fun x => (t7 _ (keyL f hf)).2 x)
  · rw [← sigH] at t1
    cases H with
    | nil => simp at t1
    | cons f0 rest =>
      simp only [List.map_cons, List.head?_cons, Option.some.injEq, fsig, Prod.mk.injEq] at t1
      exact ⟨f0, rest, rfl, t1.1, t1.2⟩
  · obtain ⟨f, hf, h1, h2⟩ := mem_sig F kFiles false (by rw [sigF]; exact t3)
    exact ⟨f, hf, h1, h2⟩
  · obtain ⟨f, hf, h1, h2⟩ := mem_sig L kLicense false (by rw [sigL]; exact t5)
    exact ⟨f, hf, h1, h2⟩
  · rw [keys_of_sig, sigL]; exact t6

/-- **ftp-master removals, shipped struct.**  Hypothesis: `ExtOK` only. -/
theorem C20_roundtrip_removal_shipped (E : ExtCodecs) (hE : ExtOK E) (spec : Spec)
    (hS : Shipped E (c!"ftpmaster.Removal") spec) (s : Str) (v : SV)
    (h : TypedDoc.parse (.losslessPara spec) s = .ok (.single v)) :
    TypedDoc.parse (.losslessPara spec) (TypedDoc.print (.losslessPara spec) (.single v)) = .ok (.single v) := by
  obtain ⟨n, f, sig, _⟩ := shipped_facts E hE _ spec hS
  obtain ⟨t1, t2⟩ := tf_removal
  have key : ∀ f ∈ spec, f.key ∈ (rowSig (c!"ftpmaster.Removal")).map (·.1) := fun f hf => by
    rw [← sig]; exact key_mem_sig spec f hf
  exact C20_roundtrip_losslessPara_x exS exC spec n f (any_mand spec (by rw [sig]; exact t1)) s v h
    (exHyp_of spec v (fun _ => False) (fun f hf hx => (t2 _ (key f hf)).2 hx)
      (noExS spec v (fun f hf => (t2 _ (key f hf)).1)) (fun e _ hf => hf.elim))

/-- **.buildinfo, shipped struct.**  Hypotheses: `ExtOK` and the F-C20-8 exception: the printed
    `Environment` value is good text (no variable name that sorts after the first starts with `#`). -/
theorem C20_roundtrip_buildinfo_shipped (E : ExtCodecs) (hE : ExtOK E) (spec : Spec)
    (hS : Shipped E (c!"buildinfo.Buildinfo") spec) (s : Str) (v : SV)
    (h : TypedDoc.parse (.losslessPara spec) s = .ok (.single v))
    (hEnv : ∀ e ∈ paraOf spec v, e.1 = c!"Environment" → GoodText e.2) :
    TypedDoc.parse (.losslessPara spec) (TypedDoc.print (.losslessPara spec) (.single v)) = .ok (.single v) := by
  obtain ⟨n, f, sig, _⟩ := shipped_facts E hE _ spec hS
  obtain ⟨t1, t2⟩ := tf_buildinfo
  have key : ∀ f ∈ spec, f.key ∈ (rowSig (c!"buildinfo.Buildinfo")).map (·.1) := fun f hf => by
    rw [← sig]; exact key_mem_sig spec f hf
  exact C20_roundtrip_losslessPara_x exS exC spec n f (any_mand spec (by rw [sig]; exact t1)) s v h
    (exHyp_of spec v (· = c!"Environment") (fun f hf hx => (t2 _ (key f hf)).2 hx)
      (noExS spec v (fun f hf => (t2 _ (key f hf)).1)) hEnv)

/-- **DEP-3 patch header, shipped struct.**  Hypotheses: `ExtOK` and the F-C20-4 exception (the value
    prints at least one field). -/
theorem C20_roundtrip_dep3_shipped (E : ExtCodecs) (hE : ExtOK E) (spec : Spec)
    (hS : Shipped E (c!"dep3.PatchHeader") spec) (s : Str) (v : SV)
    (h : TypedDoc.parse (.dep3 spec) s = .ok (.single v)) (hne : paraOf spec v ≠ []) :
    TypedDoc.parse (.dep3 spec) (TypedDoc.print (.dep3 spec) (.single v)) = .ok (.single v) := by
  obtain ⟨n, f, sig, rows⟩ := shipped_facts E hE _ spec hS
  obtain ⟨t1, t2, t3, t4⟩ := tf_dep3
  have key : ∀ f ∈ spec, f.key ∈ (rowSig (c!"dep3.PatchHeader")).map (·.1) := fun f hf => by
    rw [← sig]; exact key_mem_sig spec f hf
  refine C20_roundtrip_dep3 spec ⟨n, fun g hg => fieldOK_of_x g (f g hg) (t3 _ (key g hg)).1 (t3 _ (key g hg)).2⟩
    (by rw [keys_of_sig, sig]; exact t1) (by rw [keys_of_sig, sig]; exact t2) ?_ s v h hne
  intro g hg hk
  obtain ⟨fr, hfr, hspec⟩ := rows g hg
  obtain ⟨k1, k2⟩ := fieldSpecE_key E fr g hspec
  obtain ⟨o, tr⟩ := t4 fr hfr (by rw [← k1]; exact hk)
  exact ⟨by rw [k2]; exact o, fieldSpecE_str E fr g hspec tr⟩

/-- **deb822 sources (`.sources`), shipped struct.**  Hypotheses: `ExtOK` and: the printed `Signed-By`
    values are good text (a key file path, or a key block whose first line is not empty). -/
theorem C20_roundtrip_repos_shipped (E : ExtCodecs) (hE : ExtOK E) (R : Spec)
    (hS : Shipped E (c!"aptsources.Repository") R) (s : Str) (l : List SV)
    (h : TypedDoc.parse (.repos R) s = .ok (.repos l))
    (hSigned : ∀ r ∈ l, ∀ e ∈ paraOf R r, e.1 = c!"Signed-By" → GoodText e.2) :
    TypedDoc.parse (.repos R) (TypedDoc.print (.repos R) (.repos l)) = .ok (.repos l) := by
  obtain ⟨n, f, sig, _⟩ := shipped_facts E hE _ R hS
  obtain ⟨t1, t2⟩ := tf_repos
  have key : ∀ f ∈ R, f.key ∈ (rowSig (c!"aptsources.Repository")).map (·.1) := fun f hf => by
    rw [← sig]; exact key_mem_sig R f hf
  exact C20_roundtrip_repos_x exS exC R n f (any_mand R (by rw [sig]; exact t1)) s l h
    (fun r hr => exHyp_of R r (· = c!"Signed-By") (fun f hf hx => (t2 _ (key f hf)).2 hx)
      (noExS R r (fun f hf => (t2 _ (key f hf)).1)) (hSigned r hr))

/-! ### the corollaries on concrete documents (external codecs instantiated by the identity codec) -/

theorem ext_codecOK : CodecOK extCodec :=
  codecOK_of_identity extCodec (by intro t y _ h; have := (Except.ok.inj h).symm; subst this; rfl)

def E0 : ExtCodecs := ⟨extCodec, extCodec, extCodec, extCodec, extCodec⟩
theorem E0_ok : ExtOK E0 := ⟨ext_codecOK, ext_codecOK, ext_codecOK, ext_codecOK, ext_codecOK⟩

def spec0 (id : Str) : Spec := ((rowOf id).bind (specOfRowE E0)).getD []

theorem shipped0 (id : Str) (h : ((rowOf id).bind (specOfRowE E0)).isSome = true) : Shipped E0 id (spec0 id) := by
  unfold spec0
  cases hr : rowOf id with
  | none => simp [hr] at h
  | some r =>
    simp only [hr, Option.bind_some] at h ⊢
    cases hs : specOfRowE E0 r with
    | none => simp [hs] at h
    | some sp => exact ⟨r, hr, by simp [hs]⟩

def removalDoc : Str :=
  c!"Date: Thu, 01 Jan 2015 00:00:00 +0000\nFtpmaster: A. Person\nSuite: unstable\nSources:\n foo_1.0-1\n bar_2.0\nReason: obsolete\n"

/-- the removal document is accepted, and its value is read back from its printed form -/
example : ∃ v, TypedDoc.parse (.losslessPara (spec0 (c!"ftpmaster.Removal"))) removalDoc = .ok (.single v)
    ∧ TypedDoc.parse (.losslessPara (spec0 (c!"ftpmaster.Removal")))
        (TypedDoc.print (.losslessPara (spec0 (c!"ftpmaster.Removal"))) (.single v)) = .ok (.single v) := by
  cases hp : TypedDoc.parse (.losslessPara (spec0 (c!"ftpmaster.Removal"))) removalDoc with
  | error e =>
    have : (TypedDoc.parse (.losslessPara (spec0 (c!"ftpmaster.Removal"))) removalDoc).toBool = true := by decide +kernel
    rw [hp] at this; simp [Except.toBool] at this
  | ok tv =>
    cases tv with
    | single v =>
      exact ⟨v, rfl, C20_roundtrip_removal_shipped E0 E0_ok _ (shipped0 _ (by decide +kernel)) removalDoc v hp⟩
    | _ => simp [TypedDoc.parse, parseLosslessPara] at hp <;> (split at hp <;> try split at hp) <;> simp at hp

end Deb822Verif.Props.C20
