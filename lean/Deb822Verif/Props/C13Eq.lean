import Deb822Verif.Model.RelEq
import Deb822Verif.Lemmas.RelWrapOrder
import Deb822Verif.Lemmas.SortUnique
/-!
# C13 — `==` against `cmp` on lossless relations (audit of C13, W3)

`PartialEq for Relation` collects the architectures into a `HashSet`, `Ord for Relation` sorts them
into a `Vec`: `a [x x] == a [x]` is true while `cmp` is not `Equal` — the contract of `Ord`
(`a == b ⇔ cmp = Equal`) is violated on well-formed input. Exactly that and nothing else:

* `C13_cmp_eq_implies_eq`   — `cmp = Equal` implies `==`;
* `C13_eq_implies_cmp_eq_or_dup_archs` — `==` implies `cmp = Equal` unless one side repeats an
  architecture;
* `C13_eq_cmp_incoherent_witness` — `a [x x]` / `a [x]`.

`Relations::wrap_and_sort` / `Entry::wrap_and_sort` call `sort_by(cmp …)` only; `==` is never
called by the sort (the models `relationsWrap` / `entryWrap` do not mention `relEq`), so the
incoherence cannot affect C13: observation (DESIGN 9.5), tied to the code by `rel.eqcmp`.
-/
namespace Deb822Verif.Props.C13Eq
open Deb822Verif Rel Node DebVersion Lossy Rel.Wrap Rel.Eq

/-- the profile terms are what `BuildProfile::from_str` returns (as every accessor output is): an
    enabled term does not start with `!` -/
def profNorm (r : RV) : Prop := ∀ g ∈ r.profiles, ∀ p ∈ g, BuildProfile.parse (showProfile p) = p

/-- some architecture occurs twice in the list -/
def dupArchs (r : RV) : Prop := ∃ l, r.architectures = some l ∧ ¬ l.Nodup

theorem then_eq {a b : Ordering} : a.then b = .eq ↔ a = .eq ∧ b = .eq := by
  cases a <;> simp [Ordering.then]

theorem lexCmp_eq {α} {cmp : α → α → Ordering} (h : ∀ a b, cmp a b = .eq → a = b) :
    ∀ l₁ l₂ : List α, lexCmp cmp l₁ l₂ = .eq → l₁ = l₂
  | [], [], _ => rfl
  | [], _ :: _, h' => by simp [lexCmp] at h'
  | _ :: _, [], h' => by simp [lexCmp] at h'
  | a :: as, b :: bs, h' => by
    simp only [lexCmp, then_eq] at h'
    rw [h a b h'.1, lexCmp_eq h as bs h'.2]

theorem optCmp_eq {α} {cmp : α → α → Ordering} (h : ∀ a b, cmp a b = .eq → a = b) :
    ∀ x y : Option α, optCmp cmp x y = .eq → x = y
  | none, none, _ => rfl
  | none, some _, h' => by simp [optCmp] at h'
  | some _, none, h' => by simp [optCmp] at h'
  | some a, some b, h' => by simp only [optCmp] at h'; rw [h a b h']

theorem vcRank_inj {a b : VC} (h : vcRank a = vcRank b) : a = b := by
  cases a <;> cases b <;> simp [vcRank] at h ⊢

theorem natCmp_eq {a b : Nat} (h : natCmp a b = .eq) : a = b := by
  unfold natCmp at h; (repeat' split at h) <;> simp_all

theorem versionEq_of_cmp : ∀ x y : Option (VC × Version), optCmp versionCmp x y = .eq → versionEq x y = true
  | none, none, _ => rfl
  | none, some _, h => by simp [optCmp] at h
  | some _, none, h => by simp [optCmp] at h
  | some a, some b, h => by
    simp only [optCmp, versionCmp, then_eq] at h
    simp [versionEq, vcRank_inj (natCmp_eq h.1), h.2]

theorem setEq_of_perm {a b : List Str} (h : a.Perm b) : setEq a b = true := by
  simp only [setEq, Bool.and_eq_true, List.all_eq_true, List.contains_iff_mem]
  exact ⟨fun x hx => h.subset hx, fun x hx => h.symm.subset hx⟩

theorem parse_inj_on {g₁ g₂ : List BuildProfile} (h1 : ∀ p ∈ g₁, BuildProfile.parse (showProfile p) = p)
    (h2 : ∀ p ∈ g₂, BuildProfile.parse (showProfile p) = p) (h : g₁.map showProfile = g₂.map showProfile) :
    g₁ = g₂ := by
  have := congrArg (List.map BuildProfile.parse) h
  simp only [List.map_map] at this
  have e1 : g₁.map (BuildProfile.parse ∘ showProfile) = g₁ := by
    conv => rhs; rw [← List.map_id g₁]
    exact List.map_congr_left (fun p hp => h1 p hp)
  have e2 : g₂.map (BuildProfile.parse ∘ showProfile) = g₂ := by
    conv => rhs; rw [← List.map_id g₂]
    exact List.map_congr_left (fun p hp => h2 p hp)
  rwa [e1, e2] at this

theorem groups_inj_on : ∀ (P Q : List (List BuildProfile)),
    (∀ g ∈ P, ∀ p ∈ g, BuildProfile.parse (showProfile p) = p) →
    (∀ g ∈ Q, ∀ p ∈ g, BuildProfile.parse (showProfile p) = p) →
    P.map (·.map showProfile) = Q.map (·.map showProfile) → P = Q
  | [], [], _, _, _ => rfl
  | [], _ :: _, _, _, h => by simp at h
  | _ :: _, [], _, _, h => by simp at h
  | g :: P, g' :: Q, h1, h2, h => by
    simp only [List.map_cons, List.cons.injEq] at h
    rw [parse_inj_on (h1 g (by simp)) (h2 g' (by simp)) h.1,
      groups_inj_on P Q (fun x hx => h1 x (by simp [hx])) (fun x hx => h2 x (by simp [hx])) h.2]

/-- **`cmp = Equal` implies `==`** (for relations as the accessors return them) -/
theorem C13_cmp_eq_implies_eq (a b : RV) (ha : profNorm a) (hb : profNorm b) (h : relCmp a b = .eq) :
    relEq a b = true := by
  simp only [relCmp, then_eq] at h
  obtain ⟨hn, hv, hq, har, hp⟩ := h
  have h1 : a.name = b.name := strCmp_eq hn
  have h2 := versionEq_of_cmp _ _ hv
  have h3 : a.archqual = b.archqual := optCmp_eq (fun _ _ => strCmp_eq) _ _ hq
  have h4 : optSetEq a.architectures b.architectures = true := by
    have := optCmp_eq (lexCmp_eq (fun _ _ => strCmp_eq)) _ _ har
    simp only [sortedArchs] at this
    cases hx : a.architectures <;> cases hy : b.architectures <;> simp [hx, hy] at this ⊢
    · rfl
    · rename_i x y
      simp only [optSetEq]
      have hp : (x.mergeSort (leOf strCmp)).Perm (y.mergeSort (leOf strCmp)) := by rw [this]
      exact setEq_of_perm (((List.mergeSort_perm x _).symm.trans hp).trans (List.mergeSort_perm y _))
  have h5 : a.profiles = b.profiles :=
    groups_inj_on _ _ ha hb (lexCmp_eq (lexCmp_eq (fun _ _ => strCmp_eq)) _ _ hp)
  simp [relEq, h1, h2, h3, h4, h5]

example : profNorm ⟨['a'], none, some [['x'], ['x']], none, [[.Disabled ['p'], .Enabled ['q']]]⟩ := by
  intro g hg p hp
  simp at hg; subst hg
  simp at hp; rcases hp with rfl | rfl <;> rfl

theorem versionCmp_of_eq : ∀ x y : Option (VC × Version), versionEq x y = true → optCmp versionCmp x y = .eq
  | none, none, _ => rfl
  | none, some _, h => by simp [versionEq] at h
  | some _, none, h => by simp [versionEq] at h
  | some a, some b, h => by
    simp only [versionEq, Bool.and_eq_true, decide_eq_true_eq, beq_iff_eq] at h
    simp [optCmp, versionCmp, h.1, h.2, natCmp, Ordering.then]

theorem perm_of_setEq {x y : List Str} (hx : x.Nodup) (hy : y.Nodup) (h : setEq x y = true) : x.Perm y := by
  simp only [setEq, Bool.and_eq_true, List.all_eq_true, List.contains_iff_mem] at h
  exact (List.perm_ext_iff_of_nodup hx hy).2 fun a => ⟨h.1 a, h.2 a⟩

/-- **`==` implies `cmp = Equal`, unless one of the two repeats an architecture** -/
theorem C13_eq_implies_cmp_eq_or_dup_archs (a b : RV) (h : relEq a b = true) :
    relCmp a b = .eq ∨ dupArchs a ∨ dupArchs b := by
  simp only [relEq, Bool.and_eq_true, decide_eq_true_eq] at h
  obtain ⟨hn, hv, hq, har, hp⟩ := h
  by_cases hda : dupArchs a
  · exact Or.inr (Or.inl hda)
  by_cases hdb : dupArchs b
  · exact Or.inr (Or.inr hdb)
  left
  have e1 : strCmp a.name b.name = .eq := by rw [hn]; exact strCmp_pre.refl _
  have e2 := versionCmp_of_eq _ _ hv
  have e3 : optCmp strCmp a.archqual b.archqual = .eq := by rw [hq]; exact (optCmp_pre strCmp_pre).refl _
  have e4 : optCmp (lexCmp strCmp) (sortedArchs a) (sortedArchs b) = .eq := by
    have : sortedArchs a = sortedArchs b := by
      simp only [sortedArchs]
      cases hx : a.architectures <;> cases hy : b.architectures <;> simp [hx, hy, optSetEq] at har ⊢
      rename_i x y
      have nx : x.Nodup := Classical.byContradiction fun c => hda ⟨x, hx, c⟩
      have ny : y.Nodup := Classical.byContradiction fun c => hdb ⟨y, hy, c⟩
      exact mergeSort_perm_eq strCmp_pre x y (fun a _ b _ hab => strCmp_eq hab) (perm_of_setEq nx ny har)
    rw [this]; exact (optCmp_pre (lexCmp_pre strCmp_pre)).refl _
  have e5 : lexCmp (lexCmp strCmp) (profStrs a) (profStrs b) = .eq := by
    simp only [profStrs, hp]; exact (lexCmp_pre (lexCmp_pre strCmp_pre)).refl _
  simp [relCmp, e1, e2, e3, e4, e5, Ordering.then]

/-- `a [x x]` and `a [x]`: `==` is true, `cmp` is not `Equal` (the sorted lists have different
    lengths) — an `Ord`-contract violation on well-formed input; also `a [x y x]` / `a [y x]` -/
theorem C13_eq_cmp_incoherent_witness :
    relEq ⟨['a'], none, some [['x'], ['x']], none, []⟩ ⟨['a'], none, some [['x']], none, []⟩ = true
      ∧ relCmp ⟨['a'], none, some [['x'], ['x']], none, []⟩ ⟨['a'], none, some [['x']], none, []⟩ ≠ .eq
      ∧ dupArchs ⟨['a'], none, some [['x'], ['x']], none, []⟩
      ∧ relEq ⟨['a'], none, some [['x'], ['y'], ['x']], none, []⟩ ⟨['a'], none, some [['y'], ['x']], none, []⟩ = true := by
  refine ⟨by decide, ?_, ⟨_, rfl, by decide⟩, by decide⟩
  intro h
  simp only [relCmp, then_eq] at h
  have := optCmp_eq (lexCmp_eq (fun _ _ => strCmp_eq)) _ _ h.2.2.2.1
  simp only [sortedArchs, Option.map_some, Option.some.injEq] at this
  have hl := congrArg List.length this
  simp [List.length_mergeSort] at hl

/-- the hypotheses of `C13_eq_implies_cmp_eq_or_dup_archs` with the first disjunct: `a [x y]` and
    `a [y x]` are `==` and neither repeats an architecture -/
example : relEq ⟨['a'], none, some [['x'], ['y']], none, []⟩ ⟨['a'], none, some [['y'], ['x']], none, []⟩ = true := by
  decide

/-- the node-level functions the driver runs (evaluation order, panics) are `relEq` / `relCmp` of the
    accessor values whenever the accessors of both nodes succeed -/
theorem C13_node_eq_cmp_acc {a b : RNode} {x y : RV} (hx : accRelation a = some x) (hy : accRelation b = some y) :
    relNodeEqO a b = some (relEq x y) ∧ relNodeCmpO a b = some (relCmp x y) := by
  unfold accRelation at hx hy
  split at hx
  · rename_i na va hna hva
    split at hy
    · rename_i nb vb hnb hvb
      simp only [Option.some.injEq] at hx hy
      subst hx; subst hy
      constructor
      · simp only [relNodeEqO, hna, hnb, hva, hvb, relEq]
        by_cases hn : na = nb <;> simp [hn]
      · simp only [relNodeCmpO, hna, hnb, hva, hvb, relCmp, sortedArchs, profStrs]
        by_cases hn : strCmp na nb = .eq <;> simp [hn, Ordering.then]
    · simp at hy
  · simp at hx

end Deb822Verif.Props.C13Eq
