import Deb822Verif.Props.C20Ext
/-!
# C20Blank — finding F-C20-9: the lossy-reader kinds keep the empty first line of `Name:` + continuation

apt Release / Sources / Packages stanzas are read with the LOSSY paragraph reader.  For a field written
`Name:` with an EMPTY first line followed by continuation lines (the standard layout of `Package-List`,
`Files`, `Checksums-*`, `Build-Depends` in a real Sources index; well-formed in the sense of C03) the lossy
reader returns the value with a leading LF (src/lossy.rs:301 pushes `'\n'` after the empty first line; C08
needs that for its own round trip), the lossless reader shows the value without it.  So the typed value does
NOT carry, field by field, what the lossless reader shows for the same text:

* `Package-List:\n hello deb devel optional arch=any` gives `["", "hello deb devel optional arch=any"]`,
* `Build-Depends:\n debhelper-compat (= 13)` gives `"\ndebhelper-compat (= 13)"`,
* `Version:\n 1.0` is REJECTED (the lossless view accepts it).

This file
* defines the trigger of the finding ONCE (`trigBlankFirst`, a decidable predicate on the request text; the
  driver `Driver/TypedDoc.lean` emits `!F-C20-9` with it for the kinds release / source / package),
* proves that on well-formed one-stanza text the trigger is exactly the negation of the hypothesis
  `NoBlankFirstS` of `C20.C20_lossless_view_stanza` (`C20_blank_trigger_iff`), and restates that theorem with
  the trigger (`C20_lossless_view_stanza_partial`),
* gives the closed witnesses (kernel-checked) with the shipped structs.
-/
set_option linter.unusedSimpArgs false
set_option linter.unusedVariables false
namespace Deb822Verif.Props.C20Blank
open Deb822Verif Deb Deb.Lossy Spec Derive TypedDoc
open Deb822Verif.Props.C20 Deb822Verif.Props.C20Ext

/-! ## the trigger -/

/-- the value as the lossy reader returns it starts with LF: the field's first value line is empty and
    at least one continuation line follows (`C20_blank_value_iff`) -/
def blankFirstValue (v : Str) : Bool := v.head? == some '\n'

/-- **trigger of F-C20-9**, on the request text: some field that the lossy deb822 reader finds in the
    text has an empty first value line and at least one continuation line -/
def trigBlankFirst (s : Str) : Bool :=
  match Lossy.read s with
  | .ok D => D.any fun p => p.any fun f => blankFirstValue f.2
  | .error _ => false

/-! ## the trigger of F-C20-10 (apt sources list), on one printed field

`Signed-By: #a` + ` b` is read as the key block `#a\nb`, which prints as `Signed-By:` + ` #a` + ` b`: the
line ` #a` is a comment for the reader.  The driver emits `!F-C20-10` when a printed repository has such a
field; `C20Apt.C20_roundtrip_repos_shipped_keyblock` has its negation as hypothesis. -/

def kSignedBy : Str := c!"Signed-By"
/-- start of a printed key block whose first line starts with `#` -/
def hashBlock : Str := c!"\n#"
def signedHashField (e : Str × Str) : Bool := e.1 == kSignedBy && hashBlock.isPrefixOf e.2

/-! ## the trigger of F-C20-9 on well-formed text -/

theorem join_head_of_ne (l : Str) (ls : List Str) (h : l ≠ []) :
    (Text.join ['\n'] (l :: ls)).head? = l.head? := by
  cases l with
  | nil => exact absurd rfl h
  | cons c cs => cases ls <;> simp [Text.join]

/-- what the lossless reader shows of a well-formed field never starts with LF -/
theorem content_head (e : EntryS) (h : e.WF) : e.content.2.head? ≠ some '\n' := by
  simp only [EntryS.content, EntryS.valueLines]
  by_cases hv : e.v = []
  · simp only [hv, ↓reduceIte, List.nil_append]
    cases hc : e.conts with
    | nil => simp [Text.join]
    | cons c cs =>
      have hw := (h.conts_ok c (by rw [hc]; simp)).text_ok
      obtain ⟨hnl, x, xs, hx, _, _⟩ := hw
      simp only [List.map_cons]
      rw [join_head_of_ne _ _ (by rw [hx]; simp), hx]
      simp only [List.head?_cons, ne_eq, Option.some.injEq]
      intro e'
      have := hnl x (by rw [hx]; simp)
      rw [e'] at this
      exact absurd this (by decide)
  · simp only [hv, ↓reduceIte, List.singleton_append]
    rw [join_head_of_ne _ _ hv]
    intro e'
    have hm : '\n' ∈ e.v := List.mem_of_mem_head? e'
    have := h.v_ok.1 _ hm
    exact absurd this (by decide)

/-- per field: the lossy value starts with LF exactly when the first line is empty and continuation
    lines follow -/
theorem C20_blank_value_iff (e : EntryS) (h : e.WF) :
    blankFirstValue (lossyEntry e).2 = true ↔ (e.v = [] ∧ e.conts ≠ []) := by
  rw [(C20_lossless_view_values e).2]
  unfold blankFirstValue
  by_cases hc : e.v = [] ∧ e.conts ≠ []
  · simp [hc]
  · simp only [hc, ↓reduceIte, iff_false]
    have := content_head e h
    simpa using this

theorem noBlankFirstS_iff (p : ParaS) (h : p.WF) :
    NoBlankFirstS p ↔ (lossyPara p).any (fun f => blankFirstValue f.2) = false := by
  have hent : ∀ e ∈ itemEntries p.rest, e.WF := by
    intro e he
    have : ∀ (is : List PItem), (∀ i ∈ is, i.WF) → ∀ e ∈ itemEntries is, e.WF := by
      intro is
      induction is with
      | nil => intro _ e he; simp [itemEntries] at he
      | cons i is ih =>
        intro hw e he
        cases i with
        | comment t nl => exact ih (fun j hj => hw j (by simp [hj])) e (by simpa [itemEntries] using he)
        | entry e0 =>
          simp only [itemEntries, List.mem_cons] at he
          rcases he with rfl | he
          · exact hw (.entry e) (by simp)
          · exact ih (fun j hj => hw j (by simp [hj])) e he
    exact this p.rest h.rest_ok e he
  have hiff : ∀ e : EntryS, e.WF → ((e.v = [] → e.conts = []) ↔ blankFirstValue (lossyEntry e).2 = false) := by
    intro e he
    have := C20_blank_value_iff e he
    constructor
    · intro hh
      cases hb : blankFirstValue (lossyEntry e).2 with
      | false => rfl
      | true => have := this.1 hb; exact absurd (hh this.1) this.2
    · intro hb hv
      apply Classical.byContradiction
      intro hc
      have := this.2 ⟨hv, hc⟩
      rw [hb] at this; cases this
  simp only [NoBlankFirstS, lossyPara, lossyItems, List.any_cons, Bool.or_eq_false_iff, List.any_eq_false,
    List.mem_map, forall_exists_index, and_imp, forall_apply_eq_imp_iff₂]
  constructor
  · rintro ⟨h1, h2⟩
    exact ⟨(hiff _ h.first_ok).1 h1, fun e he => by
      have := (hiff e (hent e he)).1 (h2 e he); simpa using this⟩
  · rintro ⟨h1, h2⟩
    exact ⟨(hiff _ h.first_ok).2 h1, fun e he => (hiff e (hent e he)).2 (by simpa using h2 e he)⟩

/-- **the trigger is exact on well-formed one-stanza text**: it is false exactly when no field is
    `Name:` + empty first line + continuation lines (`NoBlankFirstS`, the hypothesis of
    `C20_lossless_view_stanza`) -/
theorem C20_blank_trigger_iff (lead : List Gap) (p : ParaS) (gaps : List Gap)
    (hwf : (⟨lead, [(p, gaps)]⟩ : DocS).WF) :
    trigBlankFirst (⟨lead, [(p, gaps)]⟩ : DocS).str = false ↔ NoBlankFirstS p := by
  have hj := (C06.C06_joint_accept _ hwf).1
  have hp : p.WF := (hwf.paras_ok (p, gaps) (by simp)).1
  unfold trigBlankFirst
  rw [hj, noBlankFirstS_iff p hp]
  simp [lossyDoc]

/-- **apt stanzas match the lossless view on well-formed input, EXCEPT finding F-C20-9**: for every
    well-formed one-paragraph text on which the trigger of F-C20-9 is false, the typed value — or the
    error — obtained through the lossy reader (what apt Release / Sources / Packages use) and through the
    lossless reader is the same.  The hypothesis cannot be dropped: `C20_blank_first_differs`,
    `C20_blank_first_rejects`. -/
theorem C20_lossless_view_stanza_partial (spec : Spec) (lead : List Gap) (p : ParaS) (gaps : List Gap)
    (hwf : (⟨lead, [(p, gaps)]⟩ : DocS).WF)
    (hb : trigBlankFirst (⟨lead, [(p, gaps)]⟩ : DocS).str = false) :
    TypedDoc.parse (.lossyPara spec) (⟨lead, [(p, gaps)]⟩ : DocS).str
      = TypedDoc.parse (.losslessPara spec) (⟨lead, [(p, gaps)]⟩ : DocS).str :=
  (C20_lossless_view_stanza spec lead p gaps hwf ((C20_blank_trigger_iff lead p gaps hwf).1 hb)).2.2

/-! ## the witnesses: shipped structs (relations / versions by the modelled codecs) -/

abbrev srcSpec : Spec := spec1 (c!"apt.Source")
abbrev pkgSpec : Spec := spec1 (c!"apt.Package")

example : Shipped E1 (c!"apt.Source") srcSpec ∧ Shipped E1 (c!"apt.Package") pkgSpec :=
  ⟨shipped1 _ (by decide +kernel), shipped1 _ (by decide +kernel)⟩

/-- the layout of a real Debian Sources index -/
def sourcesText : Str :=
  c!"Package: hello\nBinary: hello\nVersion: 2.10-3\nDirectory: pool/main/h/hello\nBuild-Depends:\n debhelper-compat (= 13)\nPackage-List:\n hello deb devel optional arch=any\n"

def entryS (k v : Str) : EntryS := ⟨k, [' '], v, true, []⟩
def entryB (k l : Str) : EntryS := ⟨k, [], [], true, [⟨[' '], l, true⟩]⟩

/-- the same text as a document of the C03 grammar -/
def sourcesDoc : DocS :=
  ⟨[], [(⟨entryS (c!"Package") (c!"hello"),
          [.entry (entryS (c!"Binary") (c!"hello")), .entry (entryS (c!"Version") (c!"2.10-3")),
           .entry (entryS (c!"Directory") (c!"pool/main/h/hello")),
           .entry (entryB (c!"Build-Depends") (c!"debhelper-compat (= 13)")),
           .entry (entryB (c!"Package-List") (c!"hello deb devel optional arch=any"))]⟩, [])]⟩

/-- the witness text is well-formed in the sense of C03, and the trigger fires on it -/
theorem C20_blank_first_wellformed : sourcesDoc.WF ∧ sourcesDoc.str = sourcesText
    ∧ trigBlankFirst sourcesText = true := by
  refine ⟨by decide, by decide +kernel, by decide +kernel⟩

/-- the value of the field stored under `key` in a parse result -/
def fieldOf (spec : Spec) (key : Str) : Except PErr TV → Option Val
  | .ok (.single v) => valueAt key spec v
  | _ => none

/-- **witness 1 (typed value ≠ lossless view)**: the Sources stanza is accepted through both readers; the
    lossy reader (what `apt::Source::from_str` uses) gives `Package-List` a spurious empty first element
    and `Build-Depends` a leading LF, the lossless view of the same text does not -/
theorem C20_blank_first_differs :
    fieldOf srcSpec (c!"Package-List") (TypedDoc.parse (.lossyPara srcSpec) sourcesText)
      = some (.list [[], c!"hello deb devel optional arch=any"])
    ∧ fieldOf srcSpec (c!"Package-List") (TypedDoc.parse (.losslessPara srcSpec) sourcesText)
      = some (.list [c!"hello deb devel optional arch=any"])
    ∧ fieldOf srcSpec (c!"Build-Depends") (TypedDoc.parse (.lossyPara srcSpec) sourcesText)
      = some (.str (c!"\ndebhelper-compat (= 13)"))
    ∧ fieldOf srcSpec (c!"Build-Depends") (TypedDoc.parse (.losslessPara srcSpec) sourcesText)
      = some (.str (c!"debhelper-compat (= 13)"))
    ∧ TypedDoc.parse (.lossyPara srcSpec) sourcesText ≠ TypedDoc.parse (.losslessPara srcSpec) sourcesText := by
  decide +kernel

def packageText : Str := c!"Package: p\nVersion:\n 1.0\nArchitecture: all\n"

def packageDoc : DocS :=
  ⟨[], [(⟨entryS (c!"Package") (c!"p"),
          [.entry (entryB (c!"Version") (c!"1.0")), .entry (entryS (c!"Architecture") (c!"all"))]⟩, [])]⟩

/-- **witness 2 (lossy `Err`, lossless `Ok`)**: `Version:` + continuation line is rejected by the reader
    `apt::Package::from_str` uses (the version text it sees is `"\n1.0"`), and accepted through the
    lossless paragraph with version `1.0`; the text is well-formed and the trigger fires -/
theorem C20_blank_first_rejects :
    packageDoc.WF ∧ packageDoc.str = packageText ∧ trigBlankFirst packageText = true
    ∧ TypedDoc.parse (.lossyPara pkgSpec) packageText
        = .error (.msg (c!"parsing field Version: Invalid version string: \n1.0"))
    ∧ fieldOf pkgSpec (c!"Version") (TypedDoc.parse (.losslessPara pkgSpec) packageText) = some (.ext (c!"1.0"))
    ∧ fieldOf pkgSpec (c!"Package") (TypedDoc.parse (.losslessPara pkgSpec) packageText) = some (.str (c!"p")) := by
  refine ⟨by decide, by decide +kernel, by decide +kernel, by decide +kernel, by decide +kernel, by decide +kernel⟩

/-- `Installed-Size:` + continuation line: the same (`usize::from_str("\n5")` fails) -/
theorem C20_blank_first_rejects_usize :
    (TypedDoc.parse (.lossyPara pkgSpec) (c!"Package: p\nVersion: 1.0\nArchitecture: all\nInstalled-Size:\n 5\n")).toBool = false
    ∧ fieldOf pkgSpec (c!"Installed-Size")
        (TypedDoc.parse (.losslessPara pkgSpec) (c!"Package: p\nVersion: 1.0\nArchitecture: all\nInstalled-Size:\n 5\n"))
        = some (.nat 5) := by
  decide +kernel

/-- non-vacuity of `C20_lossless_view_stanza_partial`: the same stanza in the inline layout is well-formed,
    the trigger is false, and both readers give the same value -/
def inlineDoc : DocS :=
  ⟨[], [(⟨entryS (c!"Package") (c!"p"),
          [.entry (entryS (c!"Version") (c!"1.0")), .entry (entryS (c!"Architecture") (c!"all")),
           .entry ⟨c!"Description", [' '], c!"short", true, [⟨[' '], c!"long", true⟩]⟩]⟩, [])]⟩

example : inlineDoc.WF ∧ trigBlankFirst inlineDoc.str = false
    ∧ (TypedDoc.parse (.lossyPara pkgSpec) inlineDoc.str).toBool = true := by
  refine ⟨by decide, by decide +kernel, by decide +kernel⟩

end Deb822Verif.Props.C20Blank
