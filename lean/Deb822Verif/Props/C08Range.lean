import Deb822Verif.Lemmas.DebLossyRange
import Deb822Verif.Props.C08
/-!
# C08 — the round trip on the whole range of the lossy reader

`Props/C08.lean` states the print / re-read round trip on the domain the property names
(`CanonDoc`: valid names, value lines non-empty and without leading white space, an empty value or an
empty first line allowed). An audit observed that the real code round-trips MORE: every document the
lossy reader itself returns — values with empty lines anywhere (`"a\n"`, `"\n"`, `"a\n\nb"`, what a
whitespace-only continuation line or an indented comment line leaves behind) — prints to text that
reads back equal. The range lemmas were proved for C20 (`Lemmas/DebLossyRange`, proof agent P29);
here they are stated as C08 theorems:

* `C08_reader_range` — what the reader can return (`LossyD`): every paragraph has a field, every name
  is a valid key, every value line is free of line terminators, does not start with a blank, and does
  not start with `#` after the first line; lines MAY be empty;
* `C08_roundtrip_range` — every such document prints to text the lossy reader turns back into it;
* `C08_reader_image_closed` — print ∘ read is the identity on the reader's image, for EVERY accepted
  text.
-/
namespace Deb822Verif.Props.C08Range
open Deb822Verif Deb Lossy

/-- the range of the lossy reader -/
theorem C08_reader_range (s : Str) (D : Doc) (h : Lossy.read s = .ok D) : LossyD D :=
  read_range s D h

/-- the round trip on the whole range (strictly wider than the property's domain) -/
theorem C08_roundtrip_range (D : Doc) (h : LossyD D) : Lossy.read (printDoc D) = .ok D :=
  read_printDoc_lossy D h

/-- whenever a text parses to a value, printing that value gives text that parses to an equal value -/
theorem C08_reader_image_closed (s : Str) (D : Doc) (h : Lossy.read s = .ok D) :
    Lossy.read (printDoc D) = .ok D :=
  read_print_read s D h

/-- non-vacuity: a text with a whitespace-only continuation line, an indented comment line and an
    empty first line is accepted, and its value (with the empty lines) is in the range -/
theorem exAccepted : (Lossy.read "A:\n x\n \n # c\n y\nB: z\n".toList).toOption.isSome = true := by
  decide +kernel

example : ∃ D, Lossy.read "A:\n x\n \n # c\n y\nB: z\n".toList = .ok D ∧ LossyD D ∧
    Lossy.read (printDoc D) = .ok D := by
  cases h : Lossy.read "A:\n x\n \n # c\n y\nB: z\n".toList with
  | error e => have := exAccepted; rw [h] at this; simp [Except.toOption] at this
  | ok D => exact ⟨D, rfl, read_range _ D h, read_print_read _ D h⟩

end Deb822Verif.Props.C08Range
