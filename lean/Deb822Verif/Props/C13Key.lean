import Deb822Verif.Props.C13
import Deb822Verif.Props.C13Sort
/-!
# C13 — the sort key, stated without the code's comparators (audit of C13, W1)

`C13_sorted` says "pairwise in order for `entryCmp` / `relCmp`", and those two are transcriptions of
`PartialOrd for Entry` / `PartialOrd for Relation`: if the implementation sorted in another order
the model would be transcribed again and the theorem would still hold. The statements here fix a
key of their own — the one the worker's oracle (`run_wrap`, harness/src/reledit.rs) evaluates on the
real code:

* `cpLe` — code-point order of two strings (first difference decides, a proper prefix first);
* inside every entry the package names of the alternatives are pairwise ascending for `cpLe`;
* of two entries the earlier one is a proper prefix of the later, or at the FIRST ALTERNATIVE IN
  WHICH THEY DIFFER its name is `cpLe` the other's (`entryNamesLe`); in particular the names of the
  first alternatives are ascending.

The order of entries is NOT the lexicographic order of their name lists: two alternatives with the
same name are ordered by operator / version / qualifier / … first (`C13_key_not_name_lists`).

By-products of the code's secondary keys, as closed witnesses on texts (`wrapText`: read by the
lossy reader — which yields the accessor view on well-formed fields, `C10_lossy` — sorted, printed
canonically, i.e. the text `C13_canonical` gives): `>>` before `>=` (declaration order of
`VersionConstraint`), `B` before `a` (code points), architectures and profile terms are NOT sorted
inside their lists.
-/
namespace Deb822Verif.Props.C13Key
open Deb822Verif Rel Node RelSpec DebVersion Lossy Rel.Wrap Props.C13

/-- code-point order (= UTF-8 byte order) on strings, spec side: the first differing character
    decides, a proper prefix comes first -/
def cpLe : Str → Str → Bool
  | [], _ => true
  | _ :: _, [] => false
  | a :: as, b :: bs => decide (a.toNat < b.toNat) || (a.toNat == b.toNat && cpLe as bs)

/-- two entries (lists of alternatives): a proper prefix first; otherwise at the first alternative in
    which they differ (as values) the package names are in code-point order -/
def entryNamesLe : List RV → List RV → Bool
  | [], _ => true
  | _ :: _, [] => false
  | a :: as, b :: bs => if a = b then entryNamesLe as bs else cpLe a.name b.name

theorem cpLe_of_strCmp : ∀ (a b : Str), strCmp a b ≠ .gt → cpLe a b = true
  | [], _, _ => by simp [cpLe]
  | _ :: _, [], h => by simp [strCmp, lexCmp] at h
  | x :: xs, y :: ys, h => by
    have ih := cpLe_of_strCmp xs ys
    simp only [strCmp, lexCmp, natCmp] at h ih
    simp only [cpLe, Bool.or_eq_true, decide_eq_true_eq, Bool.and_eq_true, beq_iff_eq]
    by_cases h1 : x.toNat < y.toNat
    · exact Or.inl h1
    · by_cases h2 : x.toNat = y.toNat
      · right; refine ⟨h2, ih ?_⟩; simpa [h1, h2] using h
      · simp [h1, h2] at h

theorem then_ne_gt_left {a b : Ordering} (h : a.then b ≠ .gt) : a ≠ .gt := by
  cases a <;> simp_all [Ordering.then]

theorem name_le_of_relCmp {a b : RV} (h : relCmp a b ≠ .gt) : cpLe a.name b.name = true :=
  cpLe_of_strCmp _ _ (then_ne_gt_left (by simpa [relCmp] using h))

theorem entryNamesLe_of_entryCmp : ∀ (e₁ e₂ : List RV), entryCmp e₁ e₂ ≠ .gt → entryNamesLe e₁ e₂ = true
  | [], _, _ => by simp [entryNamesLe]
  | _ :: _, [], h => by simp [entryCmp, lexCmp] at h
  | a :: as, b :: bs, h => by
    have ih := entryNamesLe_of_entryCmp as bs
    simp only [entryCmp, lexCmp] at h ih
    simp only [entryNamesLe]
    split
    · rename_i hab
      subst hab
      rw [relCmp_pre.refl a] at h
      exact ih (by simpa [Ordering.then] using h)
    · exact name_le_of_relCmp (then_ne_gt_left h)

/-- **C13, sorted — by names.** In the normalised structure (1) the package names of the
    alternatives of every entry are pairwise ascending in code-point order; (2) the entries are
    pairwise ordered by `entryNamesLe`: a proper prefix first, otherwise the names at the first
    differing alternative ascend; (3) in particular the names of the first alternatives ascend.
    No comparator of the code occurs in the statement. -/
theorem C13_sorted_names (f : FieldA) :
    (∀ e ∈ outView f, (e.map (·.name)).Pairwise fun a b => cpLe a b = true)
      ∧ (outView f).Pairwise (fun a b => entryNamesLe a b = true)
      ∧ ((outView f).filterMap fun e => e.head?.map (·.name)).Pairwise (fun a b => cpLe a b = true) := by
  obtain ⟨h1, _, h3⟩ := C13_sorted f
  refine ⟨?_, h1.imp (fun h => entryNamesLe_of_entryCmp _ _ h), ?_⟩
  · intro e he
    exact List.Pairwise.map _ (fun a b h => name_le_of_relCmp h) (h3 e he).1
  · refine List.Pairwise.filterMap _ (fun a a' hR b hb b' hb' => ?_) h1
    cases a with
    | nil => simp at hb
    | cons x xs =>
      cases a' with
      | nil => simp at hb'
      | cons y ys =>
        simp only [List.head?_cons, Option.map_some, Option.some.injEq] at hb hb'
        subst hb; subst hb'
        simp only [entryCmp, lexCmp] at hR
        exact name_le_of_relCmp (then_ne_gt_left hR)

/-! ### witnesses on texts -/

/-- the text wrap-and-sort prints for a substvar-free field (`C13_canonical` with `C10_lossy`) -/
def wrapText (s : String) : Option Str :=
  match Lossy.readRelations s.toList with
  | .ok v => some (canonText (sortEntries v) [])
  | .error _ => none

/-- the same with insertion sort (`List.mergeSort` does not reduce in the kernel) -/
def wrapTextI (s : String) : Option Str :=
  match Lossy.readRelations s.toList with
  | .ok v => if validRs v then some (canonText (insertionSort entryKeyCmp (v.map (insertionSort relKeyCmp))) []) else none
  | .error _ => none

/-- on valid values every correct sort returns the value `sortEntries` returns (ties under the full
    key are identical values): the proof of `C13_sort_independent_view` for an arbitrary valid view -/
theorem sortEntries_eq_insertion (V : List (List RV)) (hval : ∀ e ∈ V, ValidEntry e) :
    insertionSort entryKeyCmp (V.map (insertionSort relKeyCmp)) = sortEntries V := by
  have hR : ∀ l, (insertionSort relKeyCmp l).Perm l ∧ (insertionSort relKeyCmp l).Pairwise (fun a b => leOf relKeyCmp a b = true) :=
    fun l => ⟨insertionSort_perm _ l, insertionSort_sorted _ l (PreCmpOn.of_pre relKeyCmp_pre _)⟩
  have hE : ∀ l, (insertionSort entryKeyCmp l).Perm l ∧ (insertionSort entryKeyCmp l).Pairwise (fun a b => leOf entryKeyCmp a b = true) :=
    fun l => ⟨insertionSort_perm _ l, insertionSort_sorted _ l (PreCmpOn.of_pre entryKeyCmp_pre _)⟩
  have hmap : V.map (insertionSort relKeyCmp) = V.map sortRels := by
    apply List.map_congr_left
    intro e he
    exact sorted_perm_eq relKeyCmp_pre _ _
      (fun a ha b hb => relKeyCmp_tie ((hval e he).2 a ((hR e).1.subset ha)) ((hval e he).2 b ((hR e).1.subset hb)))
      ((hR e).1.trans (List.mergeSort_perm _ _).symm) (hR e).2 (sortRels_sorted e)
  rw [hmap]
  have hve : ∀ a ∈ V.map sortRels, ValidEntry a := by
    intro a ha
    obtain ⟨a', ha', rfl⟩ := List.mem_map.1 ha
    exact validEntry_sortRels (hval a' ha')
  exact sorted_perm_eq entryKeyCmp_pre _ _
    (fun a ha b hb => entryKeyCmp_tie (hve a ((hE _).1.subset ha)) (hve b ((hE _).1.subset hb)))
    ((hE _).1.trans (List.mergeSort_perm _ _).symm) (hE _).2 (sortEntries_sorted V)

theorem wrapText_of_I {s : String} {t : Str} (h : wrapTextI s = some t) : wrapText s = some t := by
  unfold wrapTextI at h
  unfold wrapText
  split at h
  · rename_i v hv
    split at h
    · rename_i hval
      simp only [Option.some.injEq] at h
      simp only [Option.some.injEq]
      rw [← h, sortEntries_eq_insertion]
      intro e he
      simp only [validRs, List.all_eq_true, Bool.and_eq_true, Bool.not_eq_true', List.isEmpty_eq_false_iff] at hval
      exact ⟨(hval e he).1, (hval e he).2⟩
    · simp at h
  · simp at h

/-- non-vacuity of `C13_sorted_names`: a field whose entries and alternatives all move -/
theorem C13_sorted_names_witness :
    wrapText "z | b (>= 1) | b, a:any, B [y x], a" = some "B [y x], a, a:any, b | b (>= 1) | z".toList :=
  wrapText_of_I (by decide +kernel)

/-- the entry order is NOT the lexicographic order of the name lists: `a (>= 1) | z` stays before
    `a (>= 2) | b` (the first alternatives differ, their names are equal, the version decides) although
    `[a, b]` < `[a, z]` -/
theorem C13_key_not_name_lists :
    wrapText "a (>= 2) | b, a (>= 1) | z" = some "a (>= 1) | z, a (>= 2) | b".toList
      ∧ cpLe ['b'] ['z'] = true ∧ cpLe ['z'] ['b'] = false :=
  ⟨wrapText_of_I (by decide +kernel), by decide, by decide⟩

/-- BY-PRODUCT: operators sort in the declaration order of `VersionConstraint`
    (`<<`, `<=`, `=`, `>>`, `>=`), so `>>` comes BEFORE `>=`; "no version" first -/
theorem C13_key_operator_order :
    wrapText "a (>= 1), a (>> 1), a (= 1), a (<= 1), a (<< 1), a"
        = some "a, a (<< 1), a (<= 1), a (= 1), a (>> 1), a (>= 1)".toList
      ∧ wrapText "a (>= 1) | a (>> 1)" = some "a (>> 1) | a (>= 1)".toList :=
  ⟨wrapText_of_I (by decide +kernel), wrapText_of_I (by decide +kernel)⟩

/-- BY-PRODUCT: names sort by code point — `+ - .` and digits before upper case before lower case -/
theorem C13_key_code_points :
    wrapText "a, B, 1, -, +" = some "+, -, 1, B, a".toList
      ∧ wrapText "a | B" = some "B | a".toList :=
  ⟨wrapText_of_I (by decide +kernel), wrapText_of_I (by decide +kernel)⟩

/-- BY-PRODUCT: architectures and profile terms are NOT sorted inside their lists (they are printed
    as written; only the comparison of two relations uses the sorted architecture list) -/
theorem C13_key_lists_not_sorted :
    wrapText "a [y x]" = some "a [y x]".toList
      ∧ wrapText "a [!y !x]" = some "a [!y !x]".toList
      ∧ wrapText "a <z y> <!w v>" = some "a <z y> <!w v>".toList
      ∧ wrapText "a <z> <y>" = some "a <z> <y>".toList :=
  ⟨wrapText_of_I (by decide +kernel), wrapText_of_I (by decide +kernel),
    wrapText_of_I (by decide +kernel), wrapText_of_I (by decide +kernel)⟩

end Deb822Verif.Props.C13Key
