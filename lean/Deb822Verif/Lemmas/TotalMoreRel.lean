import Deb822Verif.Model.RelLossy
/-!
# Work count of the lossy relation reader (debian-control/src/lossy/relations.rs:292-448)

Panic inventory of the Rust code (`FromStr for Relation`, lines 292-421; `FromStr for Relations`,
lines 423-448): there is **no** `unwrap`, `expect`, index, slice, `unreachable!` or arithmetic in
either function.  Every `tokens.next()` / `tokens.peek()` is matched exhaustively with a `_ =>`
/ `None` arm that returns `Err(String)` or leaves the loop; `constraint.parse()?` and
`version_string.parse().map_err(..)?` propagate `Err`; `format!("…{:?}", tokens.next())` at line 354
only consumes one more token.  Accordingly the model's result type is `Except String` (`R`) with no
`Outcome`/panic constructor: there is no panic branch to prove dead.  (The two foreign `FromStr`
impls, `VersionConstraint` and `debversion::Version`, are modelled by the total `VC.parse` /
`Version.parse`.)

Twins: each returns the model's result and the number of loop rounds of the Rust loops it covers.

| twin               | Rust loop                                                                  |
|--------------------|----------------------------------------------------------------------------|
| `eatWsC`           | `while let Some((WHITESPACE \| NEWLINE, _)) = peek` (299-304)               |
| `constraintSpanC`  | `while let Some((kind, t)) = peek` (327-335), the `_ => break` round too    |
| `versionSpanC`     | `while let Some((kind, s)) = peek` (340-348), the `break` round too         |
| `archLoopC`        | `loop { match tokens.next() … }` (367-380)                                  |
| `profTermsC`       | `loop { match tokens.next() … }` (388-401)                                  |
| `profilesLoopC`    | `while let Some((L_ANGLE, _)) = peek` (385-404) + the two above             |

Invariant (`slack`): on success rounds + tokens left ≤ tokens; on failure rounds ≤ tokens + 1 (the
round that meets the end of the input).  The two non-consuming `break` rounds of the version clause
are paid for by `(` and `)`, which are consumed outside any loop; the name pays for the failing round.
-/
set_option linter.unusedVariables false
namespace Deb822Verif.Rel.Lossy
open Deb822Verif Rel

/-- tokens left + 1 after a successful sub-reader, 0 after a failed one -/
def slack {α} : R (α × List Tok) → Nat
  | .ok (_, r) => r.length + 1
  | .error _ => 0

@[simp] theorem slack_ok {α} (a : α) (r : List Tok) : slack (.ok (a, r) : R _) = r.length + 1 := rfl
@[simp] theorem slack_error {α} (e : String) : slack (.error e : R (α × List Tok)) = 0 := rfl

/-! ### `eat_whitespace` -/

def eatWsC : List Tok → List Tok × Nat
  | [] => ([], 0)
  | t :: ts =>
    if t.1 = .WHITESPACE ∨ t.1 = .NEWLINE then ((eatWsC ts).1, (eatWsC ts).2 + 1) else (t :: ts, 0)

theorem eatWsC_fst (ts) : (eatWsC ts).1 = eatWs ts := by
  induction ts with
  | nil => rfl
  | cons t ts ih => simp only [eatWsC, eatWs]; split <;> simp [ih]

/-- every round consumes one token -/
theorem eatWsC_cost (ts) : (eatWsC ts).2 + (eatWs ts).length = ts.length := by
  induction ts with
  | nil => rfl
  | cons t ts ih => simp only [eatWsC, eatWs]; split <;> simp <;> omega

/-! ### the version clause -/

def constraintSpanC : List Tok → (Str × List Tok) × Nat
  | [] => (([], []), 0)
  | t :: ts =>
    if t.1 = .EQUAL ∨ t.1 = .L_ANGLE ∨ t.1 = .R_ANGLE then
      ((t.2 ++ (constraintSpanC ts).1.1, (constraintSpanC ts).1.2), (constraintSpanC ts).2 + 1)
    else (([], t :: ts), 1)

theorem constraintSpanC_fst (ts) : (constraintSpanC ts).1 = constraintSpan ts := by
  induction ts with
  | nil => rfl
  | cons t ts ih => simp only [constraintSpanC, constraintSpan]; split <;> simp [ih]

/-- one round per operator token, plus at most the `break` round -/
theorem constraintSpanC_cost (ts) :
    (constraintSpanC ts).2 + (constraintSpan ts).2.length ≤ ts.length + 1 := by
  induction ts with
  | nil => simp [constraintSpanC, constraintSpan]
  | cons t ts ih => simp only [constraintSpanC, constraintSpan]; split <;> simp <;> omega

def versionSpanC : List Tok → R (Str × List Tok) × Nat
  | [] => (.ok ([], []), 0)
  | t :: ts =>
    if t.1 = .R_PARENS ∨ t.1 = .WHITESPACE ∨ t.1 = .NEWLINE then (.ok ([], t :: ts), 1)
    else if t.1 = .IDENT ∨ t.1 = .COLON then
      (match (versionSpanC ts).1 with
       | .ok (s, r) => .ok (t.2 ++ s, r)
       | .error e => .error e, (versionSpanC ts).2 + 1)
    else (.error s!"Unexpected token: {kindName t.1}", 1)

theorem versionSpanC_fst (ts) : (versionSpanC ts).1 = versionSpan ts := by
  induction ts with
  | nil => rfl
  | cons t ts ih =>
    simp only [versionSpanC, versionSpan]
    split
    · rfl
    · split
      · simp only [ih]; rcases versionSpan ts with e | ⟨s, r⟩ <;> rfl
      · rfl

/-- tokens left after a successful sub-reader, 0 after a failed one -/
def left0 {α} : R (α × List Tok) → Nat
  | .ok (_, r) => r.length
  | .error _ => 0

@[simp] theorem left0_ok {α} (a : α) (r : List Tok) : left0 (.ok (a, r) : R _) = r.length := rfl
@[simp] theorem left0_error {α} (e : String) : left0 (.error e : R (α × List Tok)) = 0 := rfl

/-- rounds + tokens left ≤ tokens + 1 (the `break` round consumes nothing) -/
theorem versionSpanC_cost (ts) : (versionSpanC ts).2 + left0 (versionSpan ts) ≤ ts.length + 1 := by
  induction ts with
  | nil => simp [versionSpanC, versionSpan]
  | cons t ts ih =>
    simp only [versionSpanC, versionSpan]
    split
    · simp; omega
    · split
      · rcases h : versionSpan ts with e | ⟨s, r⟩ <;> simp [h] at ih ⊢ <;> omega
      · simp

def readVersionC : List Tok → R (Option (VC × Version) × List Tok) × Nat
  | [] => (.ok (none, []), 0)
  | t :: ts =>
    if t.1 = .L_PARENS then
      match VC.parse (constraintSpanC (eatWsC ts).1).1.1 with
      | none =>
        (.error s!"Invalid version constraint: {String.ofList (constraintSpanC (eatWsC ts).1).1.1}",
         (eatWsC ts).2 + (constraintSpanC (eatWsC ts).1).2)
      | some vc =>
        match versionSpanC (eatWsC (constraintSpanC (eatWsC ts).1).1.2).1 with
        | (.error e, n) =>
          (.error e, (eatWsC ts).2 + (constraintSpanC (eatWsC ts).1).2
            + (eatWsC (constraintSpanC (eatWsC ts).1).1.2).2 + n)
        | (.ok (vs, r), n) =>
          match Version.parse vs with
          | none =>
            (.error s!"Invalid version string: {String.ofList vs}",
             (eatWsC ts).2 + (constraintSpanC (eatWsC ts).1).2
              + (eatWsC (constraintSpanC (eatWsC ts).1).1.2).2 + n)
          | some v =>
            match (eatWsC r).1 with
            | [] =>
              (.error "Expected ')', found None",
               (eatWsC ts).2 + (constraintSpanC (eatWsC ts).1).2
                + (eatWsC (constraintSpanC (eatWsC ts).1).1.2).2 + n + (eatWsC r).2)
            | c :: r2 =>
              (if c.1 = .R_PARENS then .ok (some (vc, v), r2) else .error "Expected ')'",
               (eatWsC ts).2 + (constraintSpanC (eatWsC ts).1).2
                + (eatWsC (constraintSpanC (eatWsC ts).1).1.2).2 + n + (eatWsC r).2)
    else (.ok (none, t :: ts), 0)

theorem readVersionC_fst (ts) : (readVersionC ts).1 = readVersion ts := by
  cases ts with
  | nil => rfl
  | cons t ts =>
    simp only [readVersionC, readVersion, eatWsC_fst, constraintSpanC_fst]
    by_cases h0 : t.1 = .L_PARENS
    · simp only [if_pos h0]
      cases h1 : VC.parse (constraintSpan (eatWs ts)).1 with
      | none => rfl
      | some vc =>
        simp only
        have a := versionSpanC_fst (eatWs (constraintSpan (eatWs ts)).2)
        rcases hv : versionSpanC (eatWs (constraintSpan (eatWs ts)).2) with ⟨res, n⟩
        rw [hv] at a; simp only at a; subst a
        rcases hv2 : versionSpan (eatWs (constraintSpan (eatWs ts)).2) with e | ⟨vs, r⟩
        · rfl
        · simp only
          cases h2 : Version.parse vs with
          | none => rfl
          | some v =>
            simp only
            rcases h3 : eatWs r with _ | ⟨c, r2⟩
            · rfl
            · rfl
    · simp only [if_neg h0]

/-- the whole version clause: on success rounds + tokens left ≤ tokens (`(` and `)` pay for the
    two `break` rounds), on failure rounds ≤ tokens + 1 -/
theorem readVersionC_cost (ts) : (readVersionC ts).2 + slack (readVersion ts) ≤ ts.length + 1 := by
  rw [← readVersionC_fst]
  cases ts with
  | nil => simp [readVersionC]
  | cons t ts =>
    have c1 := eatWsC_cost ts
    have c2 := constraintSpanC_cost (eatWs ts)
    have c3 := eatWsC_cost (constraintSpan (eatWs ts)).2
    have a := versionSpanC_fst (eatWs (constraintSpan (eatWs ts)).2)
    have c4 := versionSpanC_cost (eatWs (constraintSpan (eatWs ts)).2)
    simp only [readVersionC, eatWsC_fst, constraintSpanC_fst, List.length_cons]
    split
    · split
      · simp; omega
      · split
        · rename_i h; rw [h] at a c4; simp only at a c4; rw [← a] at c4
          simp at c4 ⊢; omega
        · rename_i vs r n h; rw [h] at a c4; simp only at a c4; rw [← a] at c4
          simp only [left0_ok] at c4 ⊢
          have c5 := eatWsC_cost r
          split
          · simp; omega
          · split
            · rename_i h5; rw [h5] at c5; simp at c5 ⊢; omega
            · rename_i c r2 h5; rw [h5] at c5
              simp only [List.length_cons] at c5
              split <;> simp <;> omega
    · simp

/-! ### the architecture list -/

def archLoopC : List Tok → R (List Str × List Tok) × Nat
  | [] => (.error "Expected architecture name", 1)
  | t :: ts =>
    if t.1 = .IDENT then
      (match (archLoopC ts).1 with
       | .ok (as, r) => .ok (t.2 :: as, r)
       | .error e => .error e, (archLoopC ts).2 + 1)
    else if t.1 = .NOT then
      match ts with
      | [] => (.error "Expected architecture name", 1)
      | n :: r =>
        if n.1 = .IDENT then
          (match (archLoopC r).1 with
           | .ok (as, r') => .ok (('!' :: n.2) :: as, r')
           | .error e => .error e, (archLoopC r).2 + 1)
        else (.error "Expected architecture name", 1)
    else if t.1 = .WHITESPACE ∨ t.1 = .NEWLINE then ((archLoopC ts).1, (archLoopC ts).2 + 1)
    else if t.1 = .R_BRACKET then (.ok ([], ts), 1)
    else (.error "Expected architecture name", 1)

theorem archLoopC_fst (ts) : (archLoopC ts).1 = archLoop ts := by
  fun_induction archLoopC ts
  all_goals (first | rw [archLoop_cons] | skip)
  all_goals (try simp only [*, if_true, if_false])
  all_goals rfl

/-- every round consumes a token, except the round that meets the end of the input (an error) -/
theorem archLoopC_cost (ts) : (archLoopC ts).2 + slack (archLoop ts) ≤ ts.length + 1 := by
  rw [← archLoopC_fst]
  fun_induction archLoopC ts
  all_goals (try simp only [archLoopC_fst] at *)
  all_goals (first | (simp; done) | skip)
  case case2 t ts h ih =>
    rcases h1 : archLoop ts with e | ⟨s, r⟩ <;> simp [h1] at ih ⊢ <;> omega
  case case4 t0 h1 h2 t ts h3 ih =>
    rcases h4 : archLoop ts with e | ⟨s, r'⟩ <;> simp [h4] at ih ⊢ <;> omega
  case case6 t ts h1 h2 h3 ih =>
    simp only [List.length_cons]; omega
  case case7 => simp; omega

def readArchsC : List Tok → R (Option (List Str) × List Tok) × Nat
  | [] => (.ok (none, []), 0)
  | t :: ts =>
    if t.1 = .L_BRACKET then
      (match (archLoopC ts).1 with
       | .ok (as, r) => .ok (some as, r)
       | .error e => .error e, (archLoopC ts).2)
    else (.ok (none, t :: ts), 0)

theorem readArchsC_fst (ts) : (readArchsC ts).1 = readArchs ts := by
  cases ts with
  | nil => rfl
  | cons t ts =>
    simp only [readArchsC, readArchs, archLoopC_fst]
    split
    · rcases archLoop ts with e | ⟨s, r⟩ <;> rfl
    · rfl

theorem readArchsC_cost (ts) : (readArchsC ts).2 + slack (readArchs ts) ≤ ts.length + 1 := by
  cases ts with
  | nil => simp [readArchsC, readArchs]
  | cons t ts =>
    have := archLoopC_cost ts
    simp only [readArchsC, readArchs]
    split
    · rcases h : archLoop ts with e | ⟨s, r⟩ <;> simp [h] at this ⊢ <;> omega
    · simp

/-! ### restriction lists -/

def profTermsC : List Tok → R (List BuildProfile × List Tok) × Nat
  | [] => (.error "Expected profile name", 1)
  | t :: ts =>
    if t.1 = .NOT then
      match ts with
      | [] => (.error "Expected profile name", 1)
      | n :: r =>
        if n.1 = .IDENT then
          (match (profTermsC r).1 with
           | .ok (ps, r') => .ok (.Disabled n.2 :: ps, r')
           | .error e => .error e, (profTermsC r).2 + 1)
        else (.error "Expected profile name", 1)
    else if t.1 = .IDENT then
      (match (profTermsC ts).1 with
       | .ok (ps, r) => .ok (.Enabled t.2 :: ps, r)
       | .error e => .error e, (profTermsC ts).2 + 1)
    else if t.1 = .WHITESPACE ∨ t.1 = .NEWLINE then ((profTermsC ts).1, (profTermsC ts).2 + 1)
    else if t.1 = .R_ANGLE then (.ok ([], ts), 1)
    else (.error "Expected profile name", 1)

theorem profTermsC_fst (ts) : (profTermsC ts).1 = profTerms ts := by
  fun_induction profTermsC ts
  all_goals (first | rw [profTerms_cons] | skip)
  all_goals (try simp only [*, if_true, if_false])
  all_goals rfl

theorem profTermsC_cost (ts) : (profTermsC ts).2 + slack (profTerms ts) ≤ ts.length + 1 := by
  rw [← profTermsC_fst]
  fun_induction profTermsC ts
  all_goals (try simp only [profTermsC_fst] at *)
  all_goals (first | (simp; done) | skip)
  case case3 t0 h1 t ts h2 ih =>
    rcases h4 : profTerms ts with e | ⟨s, r'⟩ <;> simp [h4] at ih ⊢ <;> omega
  case case5 t ts h1 h2 ih =>
    rcases h4 : profTerms ts with e | ⟨s, r'⟩ <;> simp [h4] at ih ⊢ <;> omega
  case case6 t ts h1 h2 h3 ih =>
    simp only [List.length_cons]; omega
  case case7 => simp; omega

def profilesLoopC (ts : List Tok) : R (List (List BuildProfile) × List Tok) × Nat :=
  match ts with
  | [] => (.ok ([], []), 0)
  | t :: r =>
    if t.1 = .L_ANGLE then
      match h : profTermsC r with
      | (.error e, n) => (.error e, n + 1)
      | (.ok (p, r2), n) =>
        (match (profilesLoopC (eatWsC r2).1).1 with
         | .ok (more, r3) => .ok (p :: more, r3)
         | .error e => .error e,
         (profilesLoopC (eatWsC r2).1).2 + (eatWsC r2).2 + n + 1)
    else (.ok ([], t :: r), 0)
termination_by ts.length
decreasing_by
  all_goals
    have h0 : profTerms r = .ok (p, r2) := by rw [← profTermsC_fst, h]
    have h1 := profTerms_len r h0
    have h2 := eatWs_len r2
    rw [eatWsC_fst]
    simp; omega

theorem profilesLoop_ok (t : Tok) (ts p r2) (h0 : t.1 = .L_ANGLE) (h1 : profTerms ts = .ok (p, r2)) :
    profilesLoop (t :: ts) =
      match profilesLoop (eatWs r2) with
      | .ok (more, r3) => .ok (p :: more, r3)
      | .error e => .error e := by
  rw [profilesLoop]; simp only [if_pos h0]
  split
  · rename_i h2; rw [h1] at h2; cases h2
  · rename_i h2; rw [h1] at h2; cases h2; rfl

theorem profilesLoopC_fst (ts) : (profilesLoopC ts).1 = profilesLoop ts := by
  fun_induction profilesLoopC ts
  case case1 => simp [profilesLoop]
  case case2 t ts h0 e n h =>
    have h1 : profTerms ts = .error e := by rw [← profTermsC_fst, h]
    rw [profilesLoop]; simp only [if_pos h0]
    split
    · rename_i h2; rw [h1] at h2; cases h2; rfl
    · rename_i h2; rw [h1] at h2; cases h2
  case case3 t ts h0 p r2 n h ih =>
    have h1 : profTerms ts = .ok (p, r2) := by rw [← profTermsC_fst, h]
    rw [profilesLoop_ok t ts p r2 h0 h1]
    simp only [eatWsC_fst] at ih ⊢
    rw [ih]
    all_goals (rcases profilesLoop (eatWs r2) with e | ⟨m, r3⟩ <;> rfl)
  case case4 t ts h0 => rw [profilesLoop]; simp [h0]

/-- the restriction lists: on success rounds + tokens left ≤ tokens, on failure rounds ≤ tokens + 1 -/
theorem profilesLoopC_cost (ts) : (profilesLoopC ts).2 + slack (profilesLoop ts) ≤ ts.length + 1 := by
  rw [← profilesLoopC_fst]
  fun_induction profilesLoopC ts
  case case1 => simp
  case case2 t ts h0 e n h =>
    have h1 : profTerms ts = .error e := by rw [← profTermsC_fst, h]
    have := profTermsC_cost ts
    rw [h, h1] at this; simp at this ⊢; omega
  case case3 t ts h0 p r2 n h ih =>
    have h1 : profTerms ts = .ok (p, r2) := by rw [← profTermsC_fst, h]
    have c1 := profTermsC_cost ts
    have c2 := eatWsC_cost r2
    rw [h, h1] at c1
    simp only [eatWsC_fst, slack_ok, List.length_cons] at ih c1 c2 ⊢
    rcases h4 : (profilesLoopC (eatWs r2)).1 with e | ⟨m, r3⟩ <;> simp [h4] at ih ⊢ <;> omega
  case case4 t ts h0 => simp

/-! ### one relation -/

/-- `<lossy::Relation as FromStr>::from_str` on the token list, with the rounds of all its loops -/
def readRelationToksC (ts : List Tok) : R Relation × Nat :=
  match readName ts with
  | .error e => (.error e, 0)
  | .ok (name, r1) =>
    match readArchqual (eatWsC r1).1 with
    | .error e => (.error e, (eatWsC r1).2)
    | .ok (aq, r2) =>
      match readVersionC (eatWsC r2).1 with
      | (.error e, n3) => (.error e, (eatWsC r1).2 + (eatWsC r2).2 + n3)
      | (.ok (ver, r3), n3) =>
        match readArchsC (eatWsC r3).1 with
        | (.error e, n4) => (.error e, (eatWsC r1).2 + (eatWsC r2).2 + n3 + (eatWsC r3).2 + n4)
        | (.ok (archs, r4), n4) =>
          match profilesLoopC (eatWsC r4).1 with
          | (.error e, n5) =>
            (.error e, (eatWsC r1).2 + (eatWsC r2).2 + n3 + (eatWsC r3).2 + n4 + (eatWsC r4).2 + n5)
          | (.ok (profs, r5), n5) =>
            (match (eatWsC r5).1 with
             | [] => .ok ⟨name, aq, archs, ver, profs⟩
             | t :: _ => .error s!"Unexpected token: {kindName t.1}",
             (eatWsC r1).2 + (eatWsC r2).2 + n3 + (eatWsC r3).2 + n4 + (eatWsC r4).2 + n5
               + (eatWsC r5).2)

theorem readRelationToksC_fst (ts) : (readRelationToksC ts).1 = readRelationToks ts := by
  simp only [readRelationToksC, readRelationToks, eatWsC_fst]
  rcases readName ts with e | ⟨name, r1⟩
  · rfl
  · simp only
    rcases readArchqual (eatWs r1) with e | ⟨aq, r2⟩
    · rfl
    · simp only
      have a := readVersionC_fst (eatWs r2)
      rcases hv : readVersionC (eatWs r2) with ⟨res, n3⟩
      rw [hv] at a; simp only at a; subst a
      rcases readVersion (eatWs r2) with e | ⟨ver, r3⟩
      · rfl
      · simp only
        have a := readArchsC_fst (eatWs r3)
        rcases hv : readArchsC (eatWs r3) with ⟨res, n4⟩
        rw [hv] at a; simp only at a; subst a
        rcases readArchs (eatWs r3) with e | ⟨archs, r4⟩
        · rfl
        · simp only
          have a := profilesLoopC_fst (eatWs r4)
          rcases hv : profilesLoopC (eatWs r4) with ⟨res, n5⟩
          rw [hv] at a; simp only at a; subst a
          rcases profilesLoop (eatWs r4) with e | ⟨profs, r5⟩
          · rfl
          · simp only
            rcases eatWs r5 with _ | ⟨t, _⟩ <;> rfl

theorem readName_len (ts name r1) (h : readName ts = .ok (name, r1)) : r1.length + 1 = ts.length := by
  cases ts with
  | nil => simp [readName] at h
  | cons t ts =>
    simp only [readName] at h
    split at h
    · simp at h; simp [h.2]
    · simp at h

theorem readArchqual_len (ts aq r2) (h : readArchqual ts = .ok (aq, r2)) : r2.length ≤ ts.length := by
  cases ts with
  | nil => simp [readArchqual] at h; simp [h.2]
  | cons t ts =>
    simp only [readArchqual] at h
    split at h
    · split at h
      · simp at h
      · split at h
        · simp at h; simp [← h.2]; omega
        · simp at h
    · simp at h; simp [← h.2]

/-- one relation: the rounds of all loops together ≤ tokens (the name, `(` and `)` are consumed
    outside the loops and pay for the three non-consuming rounds) -/
theorem readRelationToksC_cost (ts) : (readRelationToksC ts).2 ≤ ts.length := by
  simp only [readRelationToksC, eatWsC_fst]
  rcases h1 : readName ts with e | ⟨name, r1⟩
  · simp
  · simp only
    have l1 := readName_len _ _ _ h1
    have w1 := eatWsC_cost r1
    rcases h2 : readArchqual (eatWs r1) with e | ⟨aq, r2⟩
    · simp only; omega
    · simp only
      have l2 := readArchqual_len _ _ _ h2
      have w2 := eatWsC_cost r2
      have a := readVersionC_fst (eatWs r2)
      have c3 := readVersionC_cost (eatWs r2)
      rcases hv : readVersionC (eatWs r2) with ⟨res, n3⟩
      rw [hv] at a c3; simp only at a c3; subst a
      rcases h3 : readVersion (eatWs r2) with e | ⟨ver, r3⟩
      · rw [h3] at c3; simp at c3 ⊢; omega
      · rw [h3] at c3; simp only [slack_ok] at c3 ⊢
        have w3 := eatWsC_cost r3
        have a := readArchsC_fst (eatWs r3)
        have c4 := readArchsC_cost (eatWs r3)
        rcases hv : readArchsC (eatWs r3) with ⟨res, n4⟩
        rw [hv] at a c4; simp only at a c4; subst a
        rcases h4 : readArchs (eatWs r3) with e | ⟨archs, r4⟩
        · rw [h4] at c4; simp at c4 ⊢; omega
        · rw [h4] at c4; simp only [slack_ok] at c4 ⊢
          have w4 := eatWsC_cost r4
          have a := profilesLoopC_fst (eatWs r4)
          have c5 := profilesLoopC_cost (eatWs r4)
          rcases hv : profilesLoopC (eatWs r4) with ⟨res, n5⟩
          rw [hv] at a c5; simp only at a c5; subst a
          rcases h5 : profilesLoop (eatWs r4) with e | ⟨profs, r5⟩
          · rw [h5] at c5; simp at c5 ⊢; omega
          · rw [h5] at c5; simp only [slack_ok] at c5 ⊢
            have w5 := eatWsC_cost r5
            omega

/-- `<lossy::Relation as FromStr>::from_str` with its round count -/
def readRelationC (s : Str) : R Relation × Nat := readRelationToksC (lex s)

theorem readRelationC_fst (s) : (readRelationC s).1 = readRelation s := readRelationToksC_fst _

end Deb822Verif.Rel.Lossy
