import Deb822Verif.Spec.DpkgVersion
import Deb822Verif.Lemmas.VerChunks
import Deb822Verif.Lemmas.PreCmp
/-!
  `DebVersion.cmpPart` (model of `debversion`'s `version_cmp_part`) = sign of dpkg's `verrevcmp`
  (Spec/DpkgVersion.lean), for ALL pairs of character lists. Round by round:
  `nonDigitLoop_spec` (the first inner loop is `non_digit_cmp` of the two non-digit runs),
  `digitLoop_spec` (skip zeros, longer run wins, else first difference = comparison of the values
  of the digit runs), `round_spec`, then induction on the total length.
-/
namespace Deb822Verif.DebVersion
open Deb822Verif.Rel (isAsciiDigit digitsVal)
open Deb822Verif.Dpkg

/-! ### character classes -/

theorem cIsDigit_eq (c : Char) : cIsDigit c = isAsciiDigit c := by
  simp only [cIsDigit, isAsciiDigit, Char.le_def, UInt32.le_iff_toNat_le, Char.toNat]
  rfl

theorem cIsAlpha_eq (c : Char) : cIsAlpha c = isAsciiAlpha c := by
  simp only [cIsAlpha, isAsciiAlpha, Char.le_def, UInt32.le_iff_toNat_le, Char.toNat]
  rfl

theorem tilde_not_alpha : isAsciiAlpha '~' = false := by decide

/-- on a non-digit the two `order` functions agree -/
theorem order_nonDigit {c : Char} (h : isAsciiDigit c = false) : Dpkg.order (some c) = DebVersion.order c := by
  simp only [Dpkg.order, DebVersion.order, cIsDigit_eq, cIsAlpha_eq, h, Bool.false_eq_true, if_false]
  by_cases ht : c = '~'
  · subst ht; simp [tilde_not_alpha]
  · simp [ht]

/-- … and is never 0 (the value of a digit and of the end of the string) -/
theorem order_ne_zero (c : Char) : DebVersion.order c ≠ 0 := by
  unfold DebVersion.order
  split
  · decide
  · split
    · rename_i h1 h2
      simp only [isAsciiAlpha, Bool.or_eq_true, Bool.and_eq_true, decide_eq_true_eq] at h2
      omega
    · omega

theorem atNonDigit_cons (c : Char) (cs : Str) : atNonDigit (c :: cs) = nonDig c := by
  simp [atNonDigit, nonDig, cIsDigit_eq]

theorem atDigit_cons (c : Char) (cs : Str) : atDigit (c :: cs) = isAsciiDigit c := by
  simp [atDigit, cIsDigit_eq]

/-! ### the first inner loop = `non_digit_cmp` of the non-digit runs -/

theorem sign_sub (x y : Int) : sign (x - y) = intCmp x y := by
  unfold sign intCmp
  (repeat' split) <;> first | rfl | omega

theorem order_head (a : Str) : Dpkg.order a.head? = ((ndRun a).map DebVersion.order).head?.getD 0 := by
  cases a with
  | nil => rfl
  | cons c cs =>
    by_cases hc : isAsciiDigit c = true
    · simp [ndRun, nonDig, hc, Dpkg.order, cIsDigit_eq]
    · have hc' : isAsciiDigit c = false := by simpa using hc
      simp [ndRun, nonDig, hc', order_nonDigit hc']

theorem nonDigitCmp_unfold (x y : Str) :
    nonDigitCmp x y = (intCmp ((x.map DebVersion.order).head?.getD 0) ((y.map DebVersion.order).head?.getD 0)).then
      (nonDigitCmp x.tail y.tail) := by
  unfold nonDigitCmp
  rw [lexPad_unfold intCmp_pre]
  simp [List.map_tail]

theorem ndRun_of_not {a : Str} (h : atNonDigit a = false) : ndRun a = [] ∧ ndRest a = a := by
  cases a with
  | nil => exact ⟨rfl, rfl⟩
  | cons c cs =>
    rw [atNonDigit_cons] at h
    simp [ndRun, ndRest, h]

theorem ndRun_of_at {a : Str} (h : atNonDigit a = true) :
    (ndRun a).tail = ndRun a.tail ∧ ndRest a = ndRest a.tail := by
  cases a with
  | nil => simp [atNonDigit] at h
  | cons c cs =>
    rw [atNonDigit_cons] at h
    simp [ndRun, ndRest, h]

theorem order_head_of_not {a : Str} (h : atNonDigit a = false) : Dpkg.order a.head? = 0 := by
  rw [order_head, (ndRun_of_not h).1]; rfl

theorem order_head_of_at {a : Str} (h : atNonDigit a = true) : Dpkg.order a.head? ≠ 0 := by
  cases a with
  | nil => simp [atNonDigit] at h
  | cons c cs =>
    rw [atNonDigit_cons] at h
    have hc : isAsciiDigit c = false := by simpa [nonDig] using h
    simp only [List.head?_cons]
    rw [order_nonDigit hc]
    exact order_ne_zero c

/-- the first inner loop of `verrevcmp` compares the two leading non-digit runs as
    `non_digit_cmp` does, and stops behind them -/
theorem nonDigitLoop_spec (a b : Str) :
    match nonDigitLoop a b with
    | .inl d => sign d = nonDigitCmp (ndRun a) (ndRun b) ∧ nonDigitCmp (ndRun a) (ndRun b) ≠ .eq
    | .inr p => nonDigitCmp (ndRun a) (ndRun b) = .eq ∧ p = (ndRest a, ndRest b) := by
  fun_induction nonDigitLoop a b
  next a b h hne =>
    show sign _ = _ ∧ _
    rw [nonDigitCmp_unfold, ← order_head, ← order_head, ← sign_sub]
    have : sign (Dpkg.order a.head? - Dpkg.order b.head?) ≠ .eq := by
      unfold sign; (repeat' split) <;> first | omega | simp
    cases hs : sign (Dpkg.order a.head? - Dpkg.order b.head?) <;> simp_all [Ordering.then]
  next a b h he ih =>
    have he' : Dpkg.order a.head? = Dpkg.order b.head? := by simpa using he
    have hab : atNonDigit a = true ∧ atNonDigit b = true := by
      cases ha : atNonDigit a <;> cases hb : atNonDigit b
      · simp [ha, hb] at h
      · exact absurd (he' ▸ order_head_of_not ha) (order_head_of_at hb)
      · exact absurd (he'.symm ▸ order_head_of_not hb) (order_head_of_at ha)
      · exact ⟨rfl, rfl⟩
    have e : nonDigitCmp (ndRun a) (ndRun b) = nonDigitCmp (ndRun a.tail) (ndRun b.tail) := by
      rw [nonDigitCmp_unfold, ← order_head, ← order_head, he', (ndRun_of_at hab.1).1, (ndRun_of_at hab.2).1,
        intCmp_pre.refl]
      rfl
    rw [e, (ndRun_of_at hab.1).2, (ndRun_of_at hab.2).2]
    exact ih
  next a b h =>
    simp only [Bool.or_eq_true, not_or, Bool.not_eq_true] at h
    show _ ∧ _
    rw [(ndRun_of_not h.1).1, (ndRun_of_not h.2).1, (ndRun_of_not h.1).2, (ndRun_of_not h.2).2]
    exact ⟨by simp [nonDigitCmp, lexPad, lexPadNil], rfl⟩

/-! ### the digit phase = comparison of the values of the digit runs -/

theorem isZeroChar_eq : Dpkg.isZeroChar = DebVersion.isZero := rfl

theorem digitLoop_stop_left (fd : Int) (a b : Str) (h : atDigit a = false) : digitLoop fd a b = (fd, a, b) := by
  cases a with
  | nil => simp [digitLoop]
  | cons x xs =>
    cases b with
    | nil => simp [digitLoop]
    | cons y ys =>
      simp only [atDigit] at h
      simp [digitLoop, h]

theorem digitLoop_stop_right (fd : Int) (a b : Str) (h : atDigit b = false) : digitLoop fd a b = (fd, a, b) := by
  cases a with
  | nil => simp [digitLoop]
  | cons x xs =>
    cases b with
    | nil => simp [digitLoop]
    | cons y ys =>
      simp only [atDigit] at h
      simp [digitLoop, h]

theorem sign_charDiff {c d : Char} (hc : isAsciiDigit c = true) (hd : isAsciiDigit d = true) :
    sign (charDiff c d) = natCmp (dig c) (dig d) := by
  simp only [isAsciiDigit, Bool.and_eq_true, decide_eq_true_eq] at hc hd
  unfold sign charDiff natCmp dig
  (repeat' split) <;> first | rfl | omega

theorem then_eq_right (o : Ordering) : o.then .eq = o := by cases o <;> rfl
theorem then_of_ne {o : Ordering} (h : o ≠ .eq) (p : Ordering) : o.then p = o := by
  cases o <;> simp_all [Ordering.then]

theorem sign_zero : sign 0 = .eq := by decide
theorem sign_eq_iff {r : Int} : sign r = .eq ↔ r = 0 := by
  unfold sign; (repeat' split) <;> simp_all <;> omega

/-- the digit loop on `x ++ ra`, `y ++ rb` (digit runs `x`, `y`; `ra`, `rb` not at a digit) -/
theorem digitLoop_spec (ra rb : Str) (hra : atDigit ra = false) (hrb : atDigit rb = false) :
    ∀ (x y : Str) (fd : Int), (∀ c ∈ x, isAsciiDigit c = true) → (∀ c ∈ y, isAsciiDigit c = true) →
      (y.length < x.length → atDigit (digitLoop fd (x ++ ra) (y ++ rb)).2.1 = true) ∧
      (x.length < y.length → atDigit (digitLoop fd (x ++ ra) (y ++ rb)).2.1 = false ∧
        atDigit (digitLoop fd (x ++ ra) (y ++ rb)).2.2 = true) ∧
      (x.length = y.length → (digitLoop fd (x ++ ra) (y ++ rb)).2.1 = ra ∧
        (digitLoop fd (x ++ ra) (y ++ rb)).2.2 = rb ∧
        sign (digitLoop fd (x ++ ra) (y ++ rb)).1 = (sign fd).then (natCmp (digitsVal x) (digitsVal y))) := by
  intro x
  induction x with
  | nil =>
    intro y fd _ hy
    simp only [List.nil_append, digitLoop_stop_left fd ra (y ++ rb) hra]
    refine ⟨by simp, ?_, ?_⟩
    · intro hlt
      cases y with
      | nil => simp at hlt
      | cons d ds => exact ⟨hra, by rw [List.cons_append, atDigit_cons]; exact hy d (by simp)⟩
    · intro hl
      have : y = [] := List.length_eq_zero_iff.1 (by simpa using hl.symm)
      subst this
      simp [digitsVal_nil, natCmp, then_eq_right]
  | cons c cs ih =>
    intro y fd hx hy
    cases y with
    | nil =>
      simp only [List.nil_append, digitLoop_stop_right fd _ rb hrb]
      refine ⟨fun _ => by rw [List.cons_append, atDigit_cons]; exact hx c (by simp), by simp, by simp⟩
    | cons d ds =>
      have hc := hx c (by simp)
      have hd := hy d (by simp)
      have hcs : ∀ z ∈ cs, isAsciiDigit z = true := fun z hz => hx z (by simp [hz])
      have hds : ∀ z ∈ ds, isAsciiDigit z = true := fun z hz => hy z (by simp [hz])
      have e : digitLoop fd ((c :: cs) ++ ra) ((d :: ds) ++ rb)
          = digitLoop (if fd = 0 then charDiff c d else fd) (cs ++ ra) (ds ++ rb) := by
        simp [digitLoop, cIsDigit_eq, hc, hd]
      rw [e]
      obtain ⟨i1, i2, i3⟩ := ih ds (if fd = 0 then charDiff c d else fd) hcs hds
      refine ⟨fun h => i1 (by simpa using h), fun h => i2 (by simpa using h), ?_⟩
      intro hl
      have hl' : cs.length = ds.length := by simpa using hl
      obtain ⟨j1, j2, j3⟩ := i3 hl'
      refine ⟨j1, j2, ?_⟩
      rw [j3, digitsVal_cons, digitsVal_cons, hl',
        natCmp_block _ _ _ _ _ (hl' ▸ digitsVal_lt cs hcs) (digitsVal_lt ds hds)]
      by_cases hfd : fd = 0
      · subst hfd
        simp only [if_true, sign_zero, sign_charDiff hc hd]
        rfl
      · have hs : sign fd ≠ .eq := fun h => hfd (sign_eq_iff.1 h)
        simp only [if_neg hfd, then_of_ne hs]

theorem skipZeros_append (x r : Str) (hx : ∀ c ∈ x, isAsciiDigit c = true) (hr : atDigit r = false) :
    skipZeros (x ++ r) = x.dropWhile isZero ++ r := by
  unfold skipZeros
  rw [isZeroChar_eq]
  induction x with
  | nil =>
    cases r with
    | nil => rfl
    | cons c cs =>
      rw [atDigit_cons] at hr
      have : isZero c = false := by
        cases hz : isZero c
        · rfl
        · have : c = '0' := by simpa [isZero] using hz
          subst this
          simp [isAsciiDigit] at hr
      simp [this]
  | cons c cs ih =>
    have ih' := ih fun z hz => hx z (by simp [hz])
    by_cases hz : isZero c = true
    · simp only [List.cons_append, List.dropWhile_cons_of_pos hz]; exact ih'
    · simp only [List.cons_append, List.dropWhile_cons_of_neg hz]

theorem dropZeros_digits (x : Str) (hx : ∀ c ∈ x, isAsciiDigit c = true) :
    ∀ c ∈ x.dropWhile isZero, isAsciiDigit c = true :=
  fun c hc => hx c ((List.dropWhile_sublist _).subset hc)

/-- a longer digit run without leading zero is the larger number -/
theorem digitsVal_lt_of_length (x y : Str) (hx : ∀ c ∈ x.dropWhile isZero, isAsciiDigit c = true)
    (hy : ∀ c ∈ y, isAsciiDigit c = true) (h : y.length < (x.dropWhile isZero).length) :
    digitsVal y < digitsVal (x.dropWhile isZero) := by
  cases hxe : x.dropWhile isZero with
  | nil => rw [hxe] at h; simp at h
  | cons c cs =>
    rw [hxe] at h hx
    have h0 : c ≠ '0' := by
      have := head_dropWhile_not isZero x c cs hxe
      intro e; subst e; simp [isZero] at this
    have h1 := digitsVal_ge c cs (hx c (by simp)) h0
    have h2 := digitsVal_lt y hy
    have h3 : 10 ^ y.length ≤ 10 ^ cs.length := Nat.pow_le_pow_right (by decide) (by simp at h; omega)
    omega

theorem atDigit_dgRest (s : Str) : atDigit (dgRest s) = false := by
  cases h : dgRest s with
  | nil => rfl
  | cons c cs => rw [atDigit_cons]; exact dgRest_head s c cs h

/-! ### one round of `verrevcmp` = comparison of the first chunks -/

theorem round_spec (a b : Str) :
    match round a b with
    | .inl r => sign r = chunkCmp (hdChunk a) (hdChunk b) ∧ chunkCmp (hdChunk a) (hdChunk b) ≠ .eq
    | .inr p => chunkCmp (hdChunk a) (hdChunk b) = .eq ∧ p = (dgRest a, dgRest b) := by
  have hnd := nonDigitLoop_spec a b
  unfold round
  cases hl : nonDigitLoop a b with
  | inl d =>
    rw [hl] at hnd
    simp only [chunkCmp, hdChunk]
    rw [then_of_ne hnd.2]
    exact hnd
  | inr p =>
    rw [hl] at hnd
    obtain ⟨hnd1, rfl⟩ := hnd
    have hca : chunkCmp (hdChunk a) (hdChunk b) = natCmp (digitsVal (dgRun a)) (digitsVal (dgRun b)) := by
      simp only [chunkCmp, hdChunk, hnd1, runVal]; rfl
    have za := skipZeros_append (dgRun a) (dgRest a) (dgRun_all a) (atDigit_dgRest a)
    have zb := skipZeros_append (dgRun b) (dgRest b) (dgRun_all b) (atDigit_dgRest b)
    simp only [ndRest_eq a, ndRest_eq b, za, zb]
    have hxa := dropZeros_digits (dgRun a) (dgRun_all a)
    have hxb := dropZeros_digits (dgRun b) (dgRun_all b)
    obtain ⟨s1, s2, s3⟩ := digitLoop_spec (dgRest a) (dgRest b) (atDigit_dgRest a) (atDigit_dgRest b)
      ((dgRun a).dropWhile isZero) ((dgRun b).dropWhile isZero) 0 hxa hxb
    rw [hca, ← digitsVal_dropZeros (dgRun a), ← digitsVal_dropZeros (dgRun b)]
    rcases Nat.lt_trichotomy ((dgRun b).dropWhile isZero).length ((dgRun a).dropWhile isZero).length with hlt | heq | hgt
    · have hv := digitsVal_lt_of_length (dgRun a) ((dgRun b).dropWhile isZero) hxa hxb hlt
      have hg : natCmp (digitsVal ((dgRun a).dropWhile isZero)) (digitsVal ((dgRun b).dropWhile isZero)) = .gt := by
        unfold natCmp; (repeat' split) <;> first | rfl | omega
      simp only [s1 hlt, if_true, hg]
      exact ⟨by decide, by simp⟩
    · obtain ⟨t1, t2, t3⟩ := s3 heq.symm
      have d1 := atDigit_dgRest a
      have d2 := atDigit_dgRest b
      simp only [sign_zero] at t3
      have t3' : sign (digitLoop 0 ((dgRun a).dropWhile isZero ++ dgRest a) ((dgRun b).dropWhile isZero ++ dgRest b)).1
          = natCmp (digitsVal ((dgRun a).dropWhile isZero)) (digitsVal ((dgRun b).dropWhile isZero)) := t3
      simp only [t1, t2, d1, d2, Bool.false_eq_true, if_false]
      by_cases hz : (digitLoop 0 ((dgRun a).dropWhile isZero ++ dgRest a) ((dgRun b).dropWhile isZero ++ dgRest b)).1 = 0
      · simp only [hz, ne_eq, not_true_eq_false, if_false]
        rw [hz, sign_zero] at t3'
        exact ⟨t3'.symm, trivial⟩
      · simp only [ne_eq, hz, not_false_eq_true, if_true]
        refine ⟨t3', ?_⟩
        rw [← t3']
        exact fun h => hz (sign_eq_iff.1 h)
    · have hv := digitsVal_lt_of_length (dgRun b) ((dgRun a).dropWhile isZero) hxb hxa hgt
      have hg : natCmp (digitsVal ((dgRun a).dropWhile isZero)) (digitsVal ((dgRun b).dropWhile isZero)) = .lt := by
        unfold natCmp; (repeat' split) <;> first | rfl | omega
      obtain ⟨u1, u2⟩ := s2 hgt
      simp only [u1, u2, Bool.false_eq_true, if_false, if_true, hg]
      exact ⟨by decide, by simp⟩

theorem verrevcmp_unfold (a b : Str) :
    verrevcmp a b = if a = [] ∧ b = [] then 0 else
      match round a b with
      | .inl r => r
      | .inr p => verrevcmp p.1 p.2 := by
  rw [verrevcmp]
  split
  · rfl
  · split <;> rename_i h <;> simp [h]

/-- **`version_cmp_part` is dpkg's `verrevcmp`**, for all pairs of strings -/
theorem cmpPart_eq_verrevcmp (a b : Str) : cmpPart a b = sign (verrevcmp a b) := by
  generalize hn : a.length + b.length = n
  induction n using Nat.strongRecOn generalizing a b with
  | _ n ih =>
    rw [verrevcmp_unfold]
    by_cases he : a = [] ∧ b = []
    · obtain ⟨rfl, rfl⟩ := he
      simp [cmpPart_nil, sign_zero]
    · rw [if_neg he, cmpPart_unfold a b he]
      have hs := round_spec a b
      cases hr : round a b with
      | inl r =>
        rw [hr] at hs
        simp only
        rw [then_of_ne hs.2]
        exact hs.1.symm
      | inr p =>
        rw [hr] at hs
        obtain ⟨h1, rfl⟩ := hs
        simp only [h1]
        have hlt : (dgRest a).length + (dgRest b).length < n := by
          subst hn
          have la := dgRest_length_le a
          have lb := dgRest_length_le b
          by_cases ha : a = []
          · have hb : b ≠ [] := fun hb => he ⟨ha, hb⟩
            have := dgRest_length_lt hb
            omega
          · have := dgRest_length_lt ha
            omega
        exact ih _ hlt (dgRest a) (dgRest b) rfl

/-- `""` and `"0"` compare alike against everything (why the crate may use "0" for an absent
    revision where dpkg uses `""`) -/
theorem cmpPart_zero_left (b : Str) : cmpPart ['0'] b = cmpPart [] b := by
  have e : ∀ y, chunkCmp (hdChunk ['0']) y = chunkCmp (hdChunk []) y := by
    intro y; simp [chunkCmp, hdChunk, ndRun, dgRun, ndRest, nonDig, isAsciiDigit, runVal, digitsVal]
  have r0 : dgRest ['0'] = [] := by decide
  rw [cmpPart_unfold ['0'] b (by simp), e, r0]
  by_cases hb : b = []
  · subst hb
    simp [cmpPart_nil, hdChunk_nil, dgRest_nil, chunkCmp, nonDigitCmp, lexPad, lexPadNil, natCmp, Ordering.then]
  · rw [cmpPart_unfold [] b (by simp [hb]), dgRest_nil]

theorem cmpPart_zero_right (a : Str) : cmpPart a ['0'] = cmpPart a [] := by
  rw [cmpPart_pre.swap, cmpPart_zero_left, ← cmpPart_pre.swap]

end Deb822Verif.DebVersion
