import Deb822Verif.Spec.DocC
/-!
  The grammar of C03 (`Spec/DocS.lean`: continuation lines are value lines) is the special case of
  `Spec/DocC.lean` without comment lines inside values: `DocS.toC` has the same text, the same tokens
  and the same tree, and is well formed when the `DocS` is.
-/
namespace Deb822Verif.Spec
open Deb822Verif Deb Node

def ContS.toC (c : ContS) : ContC := ⟨c.indent, c.text, c.nl, false⟩
def EntryS.toC (e : EntryS) : EntryC := ⟨e.key, e.ws, e.v, e.nl, e.conts.map ContS.toC⟩
def PItem.toC : PItem → PItemC
  | .comment t nl => .comment t nl
  | .entry e => .entry e.toC
def ParaS.toC (p : ParaS) : ParaC := ⟨p.first.toC, p.rest.map PItem.toC⟩
def DocS.toC (d : DocS) : DocC := ⟨d.lead, d.paras.map fun pg => (pg.1.toC, pg.2)⟩

/-- no continuation line of the field is a comment line -/
def EntryC.NoComments (e : EntryC) : Prop := ∀ c ∈ e.conts, c.isC = false

theorem EntryS.toC_noComments (e : EntryS) : e.toC.NoComments := by
  intro c hc
  simp only [EntryS.toC, List.mem_map] at hc
  obtain ⟨x, _, rfl⟩ := hc; rfl

/-! ### same text, tokens, tree -/

theorem contsToksC_toC (cs : List ContS) : contsToksC (cs.map ContS.toC) = contsToks cs := by
  induction cs with
  | nil => rfl
  | cons c cs ih =>
    simp only [contsToksC, contsToks, List.map_cons, List.flatten_cons] at ih ⊢
    rw [ih]; rfl

theorem contsStr_toC (cs : List ContS) :
    ((cs.map ContS.toC).map ContC.str).flatten = (cs.map ContS.str).flatten := by
  induction cs with
  | nil => rfl
  | cons c cs ih =>
    simp only [List.map_cons, List.flatten_cons, ih]; rfl

theorem EntryS.toC_toks (e : EntryS) : e.toC.toks = e.toks := by
  simp only [EntryC.toks, EntryC.tailToks, EntryS.toks, EntryS.toC, contsToksC_toC]

theorem EntryS.toC_node (e : EntryS) : e.toC.node = e.node := by
  simp only [EntryC.node, EntryS.node, EntryS.toC_toks]

theorem EntryS.toC_str (e : EntryS) : e.toC.str = e.str := by
  simp only [EntryC.str, EntryS.str, EntryS.toC, contsStr_toC]

theorem PItem.toC_toks (i : PItem) : i.toC.toks = i.toks := by
  cases i with
  | comment t nl => rfl
  | entry e => exact EntryS.toC_toks e

theorem PItem.toC_nodes (i : PItem) : i.toC.nodes = i.nodes := by
  cases i with
  | comment t nl => rfl
  | entry e => simp only [PItem.toC, PItemC.nodes, PItem.nodes, EntryS.toC_node]

theorem PItem.toC_str (i : PItem) : i.toC.str = i.str := by
  cases i with
  | comment t nl => rfl
  | entry e => exact EntryS.toC_str e

theorem itemsToksC_toC (is : List PItem) : itemsToksC (is.map PItem.toC) = itemsToks is := by
  simp only [itemsToksC, itemsToks, List.map_map]
  congr 1
  exact List.map_congr_left fun i _ => PItem.toC_toks i

theorem itemsNodesC_toC (is : List PItem) : itemsNodesC (is.map PItem.toC) = itemsNodes is := by
  simp only [itemsNodesC, itemsNodes, List.map_map]
  congr 1
  exact List.map_congr_left fun i _ => PItem.toC_nodes i

theorem ParaS.toC_toks (p : ParaS) : p.toC.toks = p.toks := by
  simp only [ParaC.toks, ParaS.toks, ParaS.toC, EntryS.toC_toks, itemsToksC_toC]

theorem ParaS.toC_node (p : ParaS) : p.toC.node = p.node := by
  simp only [ParaC.node, ParaS.node, ParaS.toC, EntryS.toC_node, itemsNodesC_toC]

theorem ParaS.toC_str (p : ParaS) : p.toC.str = p.str := by
  simp only [ParaC.str, ParaS.str, ParaS.toC, EntryS.toC_str, List.map_map]
  congr 2
  exact List.map_congr_left fun i _ => PItem.toC_str i

theorem DocS.toC_toks (d : DocS) : d.toC.toks = d.toks := by
  simp only [DocC.toks, DocS.toks, DocS.toC, parasToksC, parasToks, List.map_map]
  congr 2
  exact List.map_congr_left fun pg _ => by simp only [Function.comp_def, ParaS.toC_toks]

theorem DocS.toC_tree (d : DocS) : d.toC.tree = d.tree := by
  simp only [DocC.tree, DocS.tree, DocS.toC, parasNodesC, parasNodes, List.map_map]
  congr 3
  exact List.map_congr_left fun pg _ => by simp only [Function.comp_def, ParaS.toC_node]

theorem DocS.toC_str (d : DocS) : d.toC.str = d.str := by
  simp only [DocC.str, DocS.str, DocS.toC, List.map_map]
  congr 2
  exact List.map_congr_left fun pg _ => by simp only [Function.comp_def, ParaS.toC_str]

/-! ### well-formedness and termination carry over -/

theorem ContS.toC_wf (c : ContS) (h : c.WF) : c.toC.WF :=
  ⟨h.indent_ne, h.indent_ok, by simpa [ContS.toC] using h.text_ok⟩

theorem EntryS.toC_wf (e : EntryS) (h : e.WF) : e.toC.WF := by
  refine ⟨h.key_ok, h.ws_ok, h.v_ok, ?_⟩
  intro c hc
  simp only [EntryS.toC, List.mem_map] at hc
  obtain ⟨x, hx, rfl⟩ := hc
  exact ContS.toC_wf x (h.conts_ok x hx)

theorem contsTermCM_toC (cs : List ContS) (more : Bool) (h : contsTerm cs more) :
    contsTermCM (cs.map ContS.toC) more := by
  induction cs with
  | nil => trivial
  | cons c cs ih =>
    refine ⟨?_, ih h.2⟩
    rcases h.1 with h1 | ⟨h1, h2⟩
    · exact Or.inl h1
    · exact Or.inr ⟨by simp [h1], h2⟩

theorem EntryS.toC_term (e : EntryS) (more : Bool) (h : e.Term more) : e.toC.TermM more := by
  refine ⟨?_, contsTermCM_toC _ _ h.2⟩
  rcases h.1 with h1 | ⟨h1, h2⟩
  · exact Or.inl h1
  · exact Or.inr ⟨by simp [EntryS.toC, h1], h2⟩

theorem itemsTermC_toC (is : List PItem) (more : Bool) (h : itemsTerm is more) :
    itemsTermC (is.map PItem.toC) more := by
  induction is with
  | nil => trivial
  | cons i is ih =>
    cases i with
    | comment t nl =>
      refine ⟨?_, ih h.2⟩
      rcases h.1 with h1 | ⟨h1, h2⟩
      · exact Or.inl h1
      · exact Or.inr ⟨by simp [h1], h2⟩
    | entry e =>
      refine ⟨?_, ih h.2⟩
      have := EntryS.toC_term e _ h.1
      simpa [List.isEmpty_iff] using this

theorem ParaS.toC_term (p : ParaS) (more : Bool) (h : p.Term more) : p.toC.Term more := by
  refine ⟨?_, itemsTermC_toC _ _ h.2⟩
  have := EntryS.toC_term p.first _ h.1
  simpa [ParaS.toC, List.isEmpty_iff] using this

theorem ParaS.toC_wf (p : ParaS) (h : p.WF) : p.toC.WF := by
  refine ⟨EntryS.toC_wf _ h.first_ok, ?_⟩
  intro i hi
  simp only [ParaS.toC, List.mem_map] at hi
  obtain ⟨x, hx, rfl⟩ := hi
  have := h.rest_ok x hx
  cases x with
  | comment t nl => exact this
  | entry e => exact EntryS.toC_wf e this

theorem parasTermC_toC (ps : List (ParaS × List Gap)) (h : parasTerm ps) :
    parasTermC (ps.map fun pg => (pg.1.toC, pg.2)) := by
  induction ps with
  | nil => trivial
  | cons pg ps ih =>
    obtain ⟨p, g⟩ := pg
    cases ps with
    | nil => exact ⟨ParaS.toC_term p _ h.1, h.2.1, h.2.2⟩
    | cons q ps' => exact ⟨ParaS.toC_term p _ h.1, h.2.1, h.2.2.1, ih h.2.2.2⟩

/-- a well-formed document of the C03 grammar is a well-formed document of the grammar with comment
    lines inside values -/
theorem DocS.toC_wf (d : DocS) (h : d.WF) : d.toC.WF := by
  refine ⟨h.lead_ok, ?_, ?_, parasTermC_toC _ h.paras_term⟩
  · have := h.lead_term
    simpa [DocS.toC, List.isEmpty_iff] using this
  · intro pg hpg
    simp only [DocS.toC, List.mem_map] at hpg
    obtain ⟨x, hx, rfl⟩ := hpg
    exact ⟨ParaS.toC_wf _ (h.paras_ok x hx).1, (h.paras_ok x hx).2⟩

end Deb822Verif.Spec
