import Deb822Verif.Model.DebParse
/-!
  Error / tree balance of the deb822 parser (`parse()` in src/lossless.rs:125-288).

  * `errNodes` — number of ERROR *nodes* of a tree.  Every parser fragment pushes exactly one
    message per ERROR node it builds (`Bal…`), for ANY token list: in the Rust code each of the four
    `errors.push` sits between a `start_node(ERROR)` and its `finish_node()`, and there is no other
    `start_node(ERROR)`.
  * `wrapped` — "every ERROR *token* is a direct child of an ERROR node".  This is NOT true of every
    token list: `skip_ws_and_newlines` bumps whatever stands between a WHITESPACE / COMMENT token
    and the next NEWLINE into an EMPTY_LINE node (`untilNl`).  It is true of the lexer's output,
    where an ERROR token is only produced at the start of a line (`sol ∧ indent = 0`) and a
    WHITESPACE token only inside a line (`¬ sol`), and a COMMENT token runs to the end of its line:
    predicate `Good`, `lexAux_good`.
-/
namespace Deb822Verif.Deb
open Node

/-! ### counting ERROR nodes -/

mutual
/-- number of ERROR *nodes* in a tree (ERROR tokens of the lexer do not count) -/
def errNodes : DNode → Nat
  | .tok _ _ => 0
  | .node k cs => (if k = .ERROR then 1 else 0) + errNodesList cs
def errNodesList : List DNode → Nat
  | [] => 0
  | n :: ns => errNodes n + errNodesList ns
end

@[simp] theorem errNodesList_nil : errNodesList [] = 0 := by simp [errNodesList]
@[simp] theorem errNodesList_cons (n ns) : errNodesList (n :: ns) = errNodes n + errNodesList ns := by
  simp [errNodesList]
@[simp] theorem errNodes_tok (k t) : errNodes (.tok k t) = 0 := by simp [errNodes]
@[simp] theorem errNodes_node (k cs) :
    errNodes (.node k cs) = (if k = .ERROR then 1 else 0) + errNodesList cs := by simp [errNodes]
@[simp] theorem errNodesList_append (a b) : errNodesList (a ++ b) = errNodesList a + errNodesList b := by
  induction a with
  | nil => simp
  | cons x xs ih => simp [ih]; omega

/-! ### one message per ERROR node, fragment by fragment -/

theorem skipWs_errNodes (ts) : errNodesList (skipWs ts).1 = 0 := by
  induction ts with
  | nil => simp [skipWs]
  | cons t ts ih => unfold skipWs; split <;> simp [ih]

theorem bumpVals_errNodes (ts) : errNodesList (bumpVals ts).1 = 0 := by
  induction ts with
  | nil => simp [bumpVals]
  | cons t ts ih => unfold bumpVals; split <;> simp [ih]

theorem untilNl_errNodes (ts) : errNodesList (untilNl ts).1 = 0 := by
  induction ts with
  | nil => simp [untilNl]
  | cons t ts ih => unfold untilNl; split <;> simp [ih]

theorem nl_bal (t : Tok) : errNodesList (nlNodes t) = (nlErrs t).length := by
  unfold nlNodes nlErrs; split <;> simp

theorem entryLines_bal (ts) : errNodesList (entryLines ts).nodes = (entryLines ts).errs.length := by
  fun_induction entryLines ts
  next x h => simp [bumpVals_errNodes]
  next x t h => simp [bumpVals_errNodes, nl_bal]
  next x t i r3 h hi ih => simp [bumpVals_errNodes, skipWs_errNodes, nl_bal, ih]
  next x t i r3 h hi => simp [bumpVals_errNodes, nl_bal]

theorem commentLoop_bal : ∀ ts, errNodesList (commentLoop ts).nodes = (commentLoop ts).errs.length
  | [] => by simp [commentLoop]
  | [t] => by simp only [commentLoop]; split <;> simp
  | t :: n :: ts => by
    simp only [commentLoop]; split
    · simp [nl_bal, commentLoop_bal ts]
    · simp

theorem keyPart_bal (ts) : errNodesList (keyPart ts).nodes = (keyPart ts).errs.length := by
  cases ts with
  | nil => simp [keyPart]
  | cons t ts => simp only [keyPart]; split <;> simp [skipWs_errNodes]

theorem colonPart_bal (ts) : errNodesList (colonPart ts).nodes = (colonPart ts).errs.length := by
  cases ts with
  | nil => simp [colonPart]
  | cons t ts => simp only [colonPart]; split <;> simp [skipWs_errNodes]

theorem entryBody_bal (ts) : errNodesList (entryBody ts).nodes = (entryBody ts).errs.length := by
  simp [entryBody, keyPart_bal, colonPart_bal, entryLines_bal]

theorem parseEntry_bal (ts) : errNodesList (parseEntry ts).nodes = (parseEntry ts).errs.length := by
  simp only [parseEntry]
  split
  · exact commentLoop_bal ts
  · simp [commentLoop_bal, entryBody_bal]

theorem paraLoop_bal (ts) : errNodesList (paraLoop ts).nodes = (paraLoop ts).errs.length := by
  fun_induction paraLoop ts
  case case1 => simp
  case case2 => simp
  case case3 t ts' hn e r ih => simp [ih, e, r, parseEntry_bal]

theorem skipWsNl_errNodes (ts) : errNodesList (skipWsNl ts).1 = 0 := by
  fun_induction skipWsNl ts
  case case1 => simp
  case case2 t ts' hb b r ih => simp [ih, b, r, untilNl_errNodes]
  case case3 => simp

theorem rootLoop_bal (ts) : errNodesList (rootLoop ts).nodes = (rootLoop ts).errs.length := by
  fun_induction rootLoop ts
  case case1 => simp
  case case2 t0 ts0 s h => simp [s, skipWsNl_errNodes]
  case case3 t0 ts0 s t r h p q ih => simp [s, p, q, skipWsNl_errNodes, paraLoop_bal, ih]

/-- for ANY token list: as many messages as ERROR nodes -/
theorem parseTokens_bal (ts : List Tok) :
    (parseTokens ts).errors.length = errNodes (parseTokens ts).tree := by
  simp [parseTokens, rootLoop_bal]

/-! ### ERROR tokens sit directly under an ERROR node -/

mutual
/-- every ERROR token of the tree is a direct child of an ERROR node
    (`inErr`: the parent of the tree is an ERROR node) -/
def wrapped (inErr : Bool) : DNode → Bool
  | .tok k _ => decide (k ≠ .ERROR) || inErr
  | .node k cs => wrappedList (decide (k = .ERROR)) cs
def wrappedList (inErr : Bool) : List DNode → Bool
  | [] => true
  | n :: ns => wrapped inErr n && wrappedList inErr ns
end

@[simp] theorem wrappedList_nil (b) : wrappedList b [] = true := by simp [wrappedList]
@[simp] theorem wrappedList_cons (b n ns) :
    wrappedList b (n :: ns) = (wrapped b n && wrappedList b ns) := by simp [wrappedList]
@[simp] theorem wrapped_tok (b k t) : wrapped b (.tok k t) = (decide (k ≠ .ERROR) || b) := by simp [wrapped]
@[simp] theorem wrapped_node (b k cs) : wrapped b (.node k cs) = wrappedList (decide (k = .ERROR)) cs := by
  simp [wrapped]
@[simp] theorem wrappedList_append (b x y) :
    wrappedList b (x ++ y) = (wrappedList b x && wrappedList b y) := by
  induction x with
  | nil => simp
  | cons n ns ih => simp [ih, Bool.and_assoc]

mutual
/-- a tree without ERROR node whose ERROR tokens are all wrapped has no ERROR token at all -/
theorem no_err_leaf : ∀ n : DNode, wrapped false n = true → errNodes n = 0 →
    ∀ l ∈ n.leaves, l.1 ≠ .ERROR
  | .tok k t => by
    intro hw _ l hl
    simp at hl; subst hl
    simpa using hw
  | .node k cs => by
    intro hw he l hl
    simp only [errNodes_node] at he
    have hk : k ≠ .ERROR := by intro h; simp [h] at he
    simp only [wrapped_node, hk, decide_false] at hw
    simp only [leaves_node] at hl
    exact no_err_leafList cs hw (by simp [hk] at he; exact he) l hl
theorem no_err_leafList : ∀ ns : List DNode, wrappedList false ns = true → errNodesList ns = 0 →
    ∀ l ∈ leavesList ns, l.1 ≠ .ERROR
  | [] => by simp
  | n :: ns => by
    intro hw he l hl
    simp only [wrappedList_cons, Bool.and_eq_true] at hw
    simp only [errNodesList_cons] at he
    simp only [leavesList_cons, List.mem_append] at hl
    rcases hl with hl | hl
    · exact no_err_leaf n hw.1 (by omega) l hl
    · exact no_err_leafList ns hw.2 (by omega) l hl
end

/-! #### fragments that need no hypothesis on the tokens -/

theorem skipWs_wrapped (ts) : wrappedList false (skipWs ts).1 = true := by
  induction ts with
  | nil => simp [skipWs]
  | cons t ts ih =>
    unfold skipWs; split
    · rename_i h; rcases h with h | h <;> simp [ih, h]
    · simp

theorem bumpVals_wrapped (ts) : wrappedList false (bumpVals ts).1 = true := by
  induction ts with
  | nil => simp [bumpVals]
  | cons t ts ih =>
    unfold bumpVals; split
    · rename_i h; rcases h with h | h <;> simp [ih, h]
    · simp

theorem nlNodes_wrapped (t : Tok) : wrappedList false (nlNodes t) = true := by
  unfold nlNodes; split
  · rename_i h; simp [h]
  · simp

theorem entryLines_wrapped (ts) : wrappedList false (entryLines ts).nodes = true := by
  fun_induction entryLines ts
  next x h => simp [bumpVals_wrapped]
  next x t h => simp [bumpVals_wrapped, nlNodes_wrapped]
  next x t i r3 h hi ih => simp [bumpVals_wrapped, skipWs_wrapped, nlNodes_wrapped, ih, hi]
  next x t i r3 h hi => simp [bumpVals_wrapped, nlNodes_wrapped]

theorem commentLoop_wrapped : ∀ ts, wrappedList false (commentLoop ts).nodes = true
  | [] => by simp [commentLoop]
  | [t] => by
    simp only [commentLoop]; split
    · rename_i h; simp [h]
    · simp
  | t :: n :: ts => by
    simp only [commentLoop]; split
    · rename_i h; simp [h, nlNodes_wrapped, commentLoop_wrapped ts]
    · simp

theorem keyPart_wrapped (ts) : wrappedList false (keyPart ts).nodes = true := by
  cases ts with
  | nil => simp [keyPart]
  | cons t ts =>
    simp only [keyPart]; split
    · rename_i h; simp [h, skipWs_wrapped]
    · simp

theorem colonPart_wrapped (ts) : wrappedList false (colonPart ts).nodes = true := by
  cases ts with
  | nil => simp [colonPart]
  | cons t ts =>
    simp only [colonPart]; split
    · rename_i h; simp [h, skipWs_wrapped]
    · simp

theorem entryBody_wrapped (ts) : wrappedList false (entryBody ts).nodes = true := by
  simp [entryBody, keyPart_wrapped, colonPart_wrapped, entryLines_wrapped]

theorem parseEntry_wrapped (ts) : wrappedList false (parseEntry ts).nodes = true := by
  simp only [parseEntry]
  split
  · exact commentLoop_wrapped ts
  · simp [commentLoop_wrapped, entryBody_wrapped]

theorem paraLoop_wrapped (ts) : wrappedList false (paraLoop ts).nodes = true := by
  fun_induction paraLoop ts
  case case1 => simp
  case case2 => simp
  case case3 t ts' hn e r ih => simp [ih, e, r, parseEntry_wrapped]

/-! #### the blank-line fragment: needs the lexer's line discipline -/

def notNl (t : Tok) : Bool := t.1 != .NEWLINE

/-- no ERROR token between a WHITESPACE / COMMENT token and the end of its line -/
def Good : List Tok → Prop
  | [] => True
  | t :: ts => ((t.1 = .WHITESPACE ∨ t.1 = .COMMENT) → ∀ x ∈ ts.takeWhile notNl, x.1 ≠ .ERROR) ∧ Good ts

theorem Good_append_right (a b : List Tok) (h : Good (a ++ b)) : Good b := by
  induction a with
  | nil => exact h
  | cons t a ih => exact ih h.2

theorem untilNl_wrapped (ts) (h : ∀ x ∈ ts.takeWhile notNl, x.1 ≠ .ERROR) :
    wrappedList false (untilNl ts).1 = true := by
  induction ts with
  | nil => simp [untilNl]
  | cons t ts ih =>
    unfold untilNl; split
    · rename_i hn; simp [hn]
    · rename_i hn
      have hn' : notNl t = true := by simpa [notNl] using hn
      simp only [List.takeWhile_cons, hn', ↓reduceIte, List.mem_cons, forall_eq_or_imp] at h
      simp [h.1, ih h.2]

theorem skipWsNl_wrapped (ts) (h : Good ts) : wrappedList false (skipWsNl ts).1 = true := by
  fun_induction skipWsNl ts
  case case1 => simp
  case case2 t ts' hb b r ih =>
    have hg : Good b.2 := Good_append_right _ _ (by rw [untilNl_leaves]; exact h)
    have hline : ∀ x ∈ (t :: ts').takeWhile notNl, x.1 ≠ .ERROR := by
      by_cases hn : t.1 = .NEWLINE
      · simp [notNl, hn]
      · have hn' : notNl t = true := by simpa [notNl] using hn
        have hwc : t.1 = .WHITESPACE ∨ t.1 = .COMMENT := by
          simp only [isBlankStart, Bool.or_eq_true, beq_iff_eq] at hb
          rcases hb with (hb | hb) | hb
          · exact Or.inl hb
          · exact Or.inr hb
          · exact absurd hb hn
        simp only [List.takeWhile_cons, hn', ↓reduceIte, List.mem_cons, forall_eq_or_imp]
        refine ⟨?_, h.1 hwc⟩
        rcases hwc with e | e <;> simp [e]
    simp [ih hg, b, r, untilNl_wrapped _ hline]
  case case3 => simp

theorem rootLoop_wrapped (ts) (h : Good ts) : wrappedList false (rootLoop ts).nodes = true := by
  fun_induction rootLoop ts
  case case1 => simp
  case case2 t0 ts0 s hs => simp [s, skipWsNl_wrapped _ h]
  case case3 t0 ts0 s t r hs p q ih =>
    have h1 := skipWsNl_leaves (t0 :: ts0)
    simp only [s] at hs
    rw [hs] at h1
    have hg1 : Good (t :: r) := Good_append_right _ _ (by rw [h1]; exact h)
    have hg2 : Good p.rest := Good_append_right _ _ (by rw [paraLoop_leaves]; exact hg1)
    simp [s, p, q, skipWsNl_wrapped _ h, paraLoop_wrapped, ih hg2]

theorem parseTokens_wrapped (ts : List Tok) (h : Good ts) : wrapped false (parseTokens ts).tree = true := by
  simp [parseTokens, rootLoop_wrapped ts h]

/-! #### the lexer's output is `Good` -/

/-- inside a line (`sol = false`) the lexer neither produces an ERROR token nor returns to the
    start-of-line state except through a NEWLINE token -/
theorem lexStep_inline (st : LexState) (c rest) (h : st.sol = false) :
    (lexStep st c rest).1.1 ≠ .ERROR ∧
      ((lexStep st c rest).1.1 = .NEWLINE ∨ (lexStep st c rest).2.1.sol = false) := by
  unfold lexStep
  (repeat' split) <;> simp_all

theorem lexAux_inline (st : LexState) (input) (h : st.sol = false) :
    ∀ x ∈ (lexAux st input).takeWhile notNl, x.1 ≠ .ERROR := by
  fun_induction lexAux st input with
  | case1 => simp
  | case2 st c rest r ih =>
    have h1 := lexStep_inline st c rest h
    intro x hx
    by_cases hn : r.1.1 = .NEWLINE
    · simp [notNl, hn] at hx
    · have hn' : notNl r.1 = true := by simpa [notNl] using hn
      simp only [List.takeWhile_cons, hn', ↓reduceIte, List.mem_cons] at hx
      rcases hx with rfl | hx
      · exact h1.1
      · exact ih (h1.2.resolve_left hn) x hx

theorem isNewline_ne_colon (c : Char) (h : isNewline c = true) : (c == ':') = false := by
  simp only [isNewline, Bool.or_eq_true, beq_iff_eq] at h
  rcases h with rfl | rfl <;> decide

theorem lexStep_newline (st : LexState) (c rest) (h : isNewline c = true) :
    (lexStep st c rest).1.1 = .NEWLINE := by
  unfold lexStep
  simp [isNewline_ne_colon c h, h]

/-- a text that is empty or starts with a line terminator lexes to nothing / a leading NEWLINE -/
theorem lexAux_at_eol (st : LexState) (input : Str)
    (h : input = [] ∨ ∃ c r, input = c :: r ∧ isNewline c = true) :
    (lexAux st input).takeWhile notNl = [] := by
  rcases h with rfl | ⟨c, r, rfl, hc⟩
  · simp [lexAux]
  · rw [lexAux]
    simp [notNl, lexStep_newline st c r hc]

theorem dropWhile_not_newline (l : Str) :
    l.dropWhile (fun c => !isNewline c) = [] ∨
      ∃ c r, l.dropWhile (fun c => !isNewline c) = c :: r ∧ isNewline c = true := by
  induction l with
  | nil => simp
  | cons a l ih =>
    simp only [List.dropWhile_cons]
    split
    · exact ih
    · rename_i h; exact Or.inr ⟨a, l, rfl, by simpa using h⟩

/-- a WHITESPACE token is produced inside a line and leaves the state alone; a COMMENT token runs
    to the end of its line -/
theorem lexStep_ws_comment (st : LexState) (c rest) :
    ((lexStep st c rest).1.1 = .WHITESPACE → st.sol = false ∧ (lexStep st c rest).2.1 = st) ∧
    ((lexStep st c rest).1.1 = .COMMENT →
      (lexStep st c rest).2.2 = rest.dropWhile (fun c => !isNewline c)) := by
  unfold lexStep
  (repeat' split) <;> simp_all

theorem lexAux_good (st : LexState) (input : Str) : Good (lexAux st input) := by
  fun_induction lexAux st input with
  | case1 => trivial
  | case2 st c rest r ih =>
    refine ⟨?_, ih⟩
    have h := lexStep_ws_comment st c rest
    rintro (hw | hc)
    · have := h.1 hw
      simp only [r]
      rw [this.2]
      exact lexAux_inline st _ this.1
    · intro x hx
      simp only [r] at hx
      rw [lexAux_at_eol _ _ (by rw [h.2 hc]; exact dropWhile_not_newline rest)] at hx
      simp at hx

theorem lex_good (s : Str) : Good (lex s) := lexAux_good _ _

/-! ### an ERROR node holds at most one token and nothing else -/

mutual
/-- every ERROR node of the tree has at most one child, and that child is a token
    (the unexpected token that was bumped; none at the end of the input) -/
def errShape : DNode → Bool
  | .tok _ _ => true
  | .node k cs =>
    (decide (k ≠ .ERROR) || (decide (cs.length ≤ 1) && cs.all fun c => !c.isNode)) && errShapeList cs
def errShapeList : List DNode → Bool
  | [] => true
  | n :: ns => errShape n && errShapeList ns
end

@[simp] theorem errShapeList_nil : errShapeList [] = true := by simp [errShapeList]
@[simp] theorem errShapeList_cons (n ns) :
    errShapeList (n :: ns) = (errShape n && errShapeList ns) := by simp [errShapeList]
@[simp] theorem errShape_tok (k t) : errShape (.tok k t) = true := by simp [errShape]
@[simp] theorem errShape_node (k cs) : errShape (.node k cs) =
    ((decide (k ≠ .ERROR) || (decide (cs.length ≤ 1) && cs.all fun c => !c.isNode)) && errShapeList cs) := by
  simp [errShape]
@[simp] theorem errShapeList_append (x y) :
    errShapeList (x ++ y) = (errShapeList x && errShapeList y) := by
  induction x with
  | nil => simp
  | cons n ns ih => simp [ih, Bool.and_assoc]

theorem skipWs_errShape (ts) : errShapeList (skipWs ts).1 = true := by
  induction ts with
  | nil => simp [skipWs]
  | cons t ts ih => unfold skipWs; split <;> simp [ih]

theorem bumpVals_errShape (ts) : errShapeList (bumpVals ts).1 = true := by
  induction ts with
  | nil => simp [bumpVals]
  | cons t ts ih => unfold bumpVals; split <;> simp [ih]

theorem untilNl_errShape (ts) : errShapeList (untilNl ts).1 = true := by
  induction ts with
  | nil => simp [untilNl]
  | cons t ts ih => unfold untilNl; split <;> simp [ih]

theorem nlNodes_errShape (t : Tok) : errShapeList (nlNodes t) = true := by
  unfold nlNodes; split <;> simp [isNode]

theorem entryLines_errShape (ts) : errShapeList (entryLines ts).nodes = true := by
  fun_induction entryLines ts
  next x h => simp [bumpVals_errShape]
  next x t h => simp [bumpVals_errShape, nlNodes_errShape]
  next x t i r3 h hi ih => simp [bumpVals_errShape, skipWs_errShape, nlNodes_errShape, ih]
  next x t i r3 h hi => simp [bumpVals_errShape, nlNodes_errShape]

theorem commentLoop_errShape : ∀ ts, errShapeList (commentLoop ts).nodes = true
  | [] => by simp [commentLoop]
  | [t] => by simp only [commentLoop]; split <;> simp
  | t :: n :: ts => by
    simp only [commentLoop]; split
    · simp [nlNodes_errShape, commentLoop_errShape ts]
    · simp

theorem keyPart_errShape (ts) : errShapeList (keyPart ts).nodes = true := by
  cases ts with
  | nil => simp [keyPart]
  | cons t ts => simp only [keyPart]; split <;> simp [skipWs_errShape, isNode]

theorem colonPart_errShape (ts) : errShapeList (colonPart ts).nodes = true := by
  cases ts with
  | nil => simp [colonPart]
  | cons t ts => simp only [colonPart]; split <;> simp [skipWs_errShape, isNode]

theorem entryBody_errShape (ts) : errShapeList (entryBody ts).nodes = true := by
  simp [entryBody, keyPart_errShape, colonPart_errShape, entryLines_errShape]

theorem parseEntry_errShape (ts) : errShapeList (parseEntry ts).nodes = true := by
  simp only [parseEntry]
  split
  · exact commentLoop_errShape ts
  · simp [commentLoop_errShape, entryBody_errShape]

theorem paraLoop_errShape (ts) : errShapeList (paraLoop ts).nodes = true := by
  fun_induction paraLoop ts
  case case1 => simp
  case case2 => simp
  case case3 t ts' hn e r ih => simp [ih, e, r, parseEntry_errShape]

theorem skipWsNl_errShape (ts) : errShapeList (skipWsNl ts).1 = true := by
  fun_induction skipWsNl ts
  case case1 => simp
  case case2 t ts' hb b r ih => simp [ih, b, r, untilNl_errShape]
  case case3 => simp

theorem rootLoop_errShape (ts) : errShapeList (rootLoop ts).nodes = true := by
  fun_induction rootLoop ts
  case case1 => simp
  case case2 t0 ts0 s h => simp [s, skipWsNl_errShape]
  case case3 t0 ts0 s t r h p q ih => simp [s, p, q, skipWsNl_errShape, paraLoop_errShape, ih]

theorem parseTokens_errShape (ts : List Tok) : errShape (parseTokens ts).tree = true := by
  simp [parseTokens, rootLoop_errShape]

/-! ### at most one ERROR token per ERROR node -/

def isErrTok (t : Tok) : Bool := decide (t.1 = .ERROR)

mutual
theorem errToks_le : ∀ n : DNode, wrapped false n = true → errShape n = true →
    n.leaves.countP isErrTok ≤ errNodes n
  | .tok k t => by
    intro hw _
    have : k ≠ .ERROR := by simpa using hw
    simp [isErrTok, this]
  | .node k cs => by
    intro hw hs
    simp only [wrapped_node] at hw
    simp only [errShape_node, Bool.and_eq_true, Bool.or_eq_true, decide_eq_true_eq] at hs
    by_cases hk : k = .ERROR
    · subst hk
      have h1 := hs.1.resolve_left (by simp)
      match cs, h1 with
      | [], _ => simp
      | [.tok k' t], _ => simp [List.countP_cons]; split <;> omega
      | [.node _ _], h1 => simp [isNode] at h1
      | _ :: _ :: _, h1 => simp at h1
    · simp only [hk, decide_false] at hw
      have := errToks_leList cs hw hs.2
      simp only [leaves_node, errNodes_node, hk, ↓reduceIte]
      omega
theorem errToks_leList : ∀ ns : List DNode, wrappedList false ns = true → errShapeList ns = true →
    (leavesList ns).countP isErrTok ≤ errNodesList ns
  | [] => by simp
  | n :: ns => by
    intro hw hs
    simp only [wrappedList_cons, Bool.and_eq_true] at hw
    simp only [errShapeList_cons, Bool.and_eq_true] at hs
    have h1 := errToks_le n hw.1 hs.1
    have h2 := errToks_leList ns hw.2 hs.2
    simp only [leavesList_cons, List.countP_append, errNodesList_cons]
    omega
end

/-! ### every message has one of three forms -/

/-- the messages the parser can push (lossless.rs:152/205, 175, 186) -/
def IsParseMsg (m : String) : Prop :=
  m = "expected key" ∨ (∃ ts : List Tok, m = s!"expected ':', got {currentName ts}") ∨
    ∃ k : Kind, k ≠ .NEWLINE ∧ m = s!"expected newline, got {kindName k}"

theorem nlErrs_msg (t : Tok) : ∀ m ∈ nlErrs t, IsParseMsg m := by
  unfold nlErrs; split
  · simp
  · rename_i h
    intro m hm
    simp only [List.mem_singleton] at hm
    exact Or.inr (Or.inr ⟨t.1, h, hm⟩)

theorem entryLines_msg (ts) : ∀ m ∈ (entryLines ts).errs, IsParseMsg m := by
  fun_induction entryLines ts
  next x h => simp
  next x t h => exact nlErrs_msg t
  next x t i r3 h hi ih =>
    intro m hm
    simp only [List.mem_append] at hm
    rcases hm with hm | hm
    · exact nlErrs_msg t m hm
    · exact ih m hm
  next x t i r3 h hi => exact nlErrs_msg t

theorem commentLoop_msg : ∀ ts, ∀ m ∈ (commentLoop ts).errs, IsParseMsg m
  | [] => by simp [commentLoop]
  | [t] => by simp only [commentLoop]; split <;> simp
  | t :: n :: ts => by
    simp only [commentLoop]; split
    · intro m hm
      simp only [List.mem_append] at hm
      rcases hm with hm | hm
      · exact nlErrs_msg n m hm
      · exact commentLoop_msg ts m hm
    · simp

theorem keyPart_msg (ts) : ∀ m ∈ (keyPart ts).errs, IsParseMsg m := by
  cases ts with
  | nil => intro m hm; simp only [keyPart, List.mem_singleton] at hm; exact Or.inl hm
  | cons t ts =>
    simp only [keyPart]; split
    · simp
    · intro m hm; simp only [List.mem_singleton] at hm; exact Or.inl hm

theorem colonPart_msg (ts) : ∀ m ∈ (colonPart ts).errs, IsParseMsg m := by
  cases ts with
  | nil =>
    intro m hm; simp only [colonPart, List.mem_singleton] at hm
    exact Or.inr (Or.inl ⟨[], hm⟩)
  | cons t ts =>
    simp only [colonPart]; split
    · simp
    · intro m hm; simp only [List.mem_singleton] at hm
      exact Or.inr (Or.inl ⟨ts, hm⟩)

theorem entryBody_msg (ts) : ∀ m ∈ (entryBody ts).errs, IsParseMsg m := by
  intro m hm
  simp only [entryBody, List.mem_append] at hm
  rcases hm with (hm | hm) | hm
  · exact keyPart_msg _ m hm
  · exact colonPart_msg _ m hm
  · exact entryLines_msg _ m hm

theorem parseEntry_msg (ts) : ∀ m ∈ (parseEntry ts).errs, IsParseMsg m := by
  simp only [parseEntry]
  split
  · exact commentLoop_msg ts
  · intro m hm
    simp only [List.mem_append] at hm
    rcases hm with hm | hm
    · exact commentLoop_msg _ m hm
    · exact entryBody_msg _ m hm

theorem paraLoop_msg (ts) : ∀ m ∈ (paraLoop ts).errs, IsParseMsg m := by
  fun_induction paraLoop ts
  case case1 => simp
  case case2 => simp
  case case3 t ts' hn e r ih =>
    intro m hm
    simp only [List.mem_append] at hm
    rcases hm with hm | hm
    · exact parseEntry_msg _ m hm
    · exact ih m hm

theorem rootLoop_msg (ts) : ∀ m ∈ (rootLoop ts).errs, IsParseMsg m := by
  fun_induction rootLoop ts
  case case1 => simp
  case case2 => simp
  case case3 t0 ts0 s t r h p q ih =>
    intro m hm
    simp only [List.mem_append] at hm
    rcases hm with hm | hm
    · exact paraLoop_msg _ m hm
    · exact ih m hm

end Deb822Verif.Deb
