import Deb822Verif.Lemmas.DebWrapRereadDocCParse
import Deb822Verif.Lemmas.DebWrapReread
/-!
  Wrap-and-sort on well-formed documents with comment lines inside values (`Spec/DocC.lean`), input
  side: the grouping the model computes on `ParaC.node` / `DocC.tree`, and the result of
  `paragraphWrap` / `deb822Wrap` (no formatter) as rendered paragraphs (`PG`: comment lines in front of
  a field, the field as an `EntryC`) whose fields are well formed and fully terminated
  (`entryWrap_nodeC`, `wrapC_props`). Analogue of the first half of Lemmas/DebWrapReread.lean.
-/
namespace Deb822Verif.DebC
open Deb822Verif Deb Node Spec

/-! ### what the accessors see -/

theorem filter_para_parasNodes (ps : List (ParaC × List Gap)) :
    (parasNodesC ps).filter isPara = ps.map (·.1.node) := by
  induction ps with
  | nil => rfl
  | cons pg ps ih =>
    have : parasNodesC (pg :: ps) = pg.1.node :: (pg.2.map Gap.node ++ parasNodesC ps) := by
      simp [parasNodesC]
    rw [this]
    simp [List.filter_cons, ParaC.node, isPara, Node.isNode, Node.kind, filter_para_gaps, ih]

theorem paragraphs_tree (d : DocC) : paragraphs d.tree = d.paras.map (·.1.node) := by
  simp [paragraphs_def, DocC.tree, Node.children, filter_para_gaps, filter_para_parasNodes]

def itemEntries : List PItemC → List EntryC
  | [] => []
  | .comment _ _ :: is => itemEntries is
  | .entry e :: is => e :: itemEntries is

theorem filter_entry_items (is : List PItemC) :
    (itemsNodesC is).filter isEntry = (itemEntries is).map EntryC.node := by
  induction is with
  | nil => rfl
  | cons i is ih =>
    have : itemsNodesC (i :: is) = i.nodes ++ itemsNodesC is := by simp [itemsNodesC]
    rw [this, List.filter_append, ih]
    cases i with
    | comment t nl =>
      have := filter_entry_tokens ((.COMMENT, '#' :: t) :: nlTok nl)
      simp only [PItemC.nodes, this, itemEntries, List.nil_append]
    | entry e => simp [PItemC.nodes, EntryC.node, isEntry, Node.isNode, Node.kind, itemEntries]

theorem entries_para (p : ParaC) :
    entries p.node = (p.first :: itemEntries p.rest).map EntryC.node := by
  simp [entries_def, ParaC.node, Node.children, List.filter_cons, EntryC.node, isEntry, Node.isNode,
    Node.kind, filter_entry_items]


/-- a rendered paragraph: groups (comments in front of a field, field), trailing comments -/
structure PG where
  groups : List (List Str × EntryC)
  trailing : List Str

def egrp (x : List Str × EntryC) : List DNode × DNode := (x.1.map cTok, x.2.node)
def PG.node (pg : PG) : DNode := .node .PARAGRAPH (paraOut (pg.groups.map egrp) (pg.trailing.map cTok))

structure PG.OK (pg : PG) : Prop where
  ne : pg.groups ≠ []
  entries : ∀ x ∈ pg.groups, x.2.WF ∧ x.2.TermAll ∧ ∀ c ∈ x.1, NoNl c
  trailing : ∀ c ∈ pg.trailing, NoNl c

theorem node_isEntry (e : EntryC) : isEntryNode e.node = true := rfl

/-! ### generic helpers -/

/-! ### the grouping of a well-formed paragraph -/

def groupItems : List PItemC → List Str → List (List Str × EntryC) × List Str
  | [], cur => ([], cur)
  | .comment t _ :: is, cur => groupItems is (cur ++ [t])
  | .entry e :: is, cur => ((cur, e) :: (groupItems is []).1, (groupItems is []).2)

theorem groupBy_items (is : List PItemC) (cur : List Str) :
    groupBy isEntryNode isTriviaNode (itemsNodesC is) (cur.map cTok)
      = ((groupItems is cur).1.map egrp, (groupItems is cur).2.map cTok) := by
  induction is generalizing cur with
  | nil => simp [itemsNodesC, groupBy, groupItems]
  | cons i is ih =>
    rw [itemsNodes_cons]
    cases i with
    | comment t nl =>
      simp only [PItemC.nodes, List.map_cons, List.cons_append, groupItems]
      rw [show groupBy isEntryNode isTriviaNode (tk (Kind.COMMENT, '#' :: t) :: ((nlTok nl).map tk ++ itemsNodesC is)) (cur.map cTok)
          = groupBy isEntryNode isTriviaNode ((nlTok nl).map tk ++ itemsNodesC is) (cur.map cTok ++ [cTok t]) from by
        simp [groupBy, isEntryNode, isTriviaNode, Node.isNode, Node.kind, cTok]]
      rw [groupBy_skip_nlTok]
      have := ih (cur ++ [t])
      simpa using this
    | entry e =>
      simp only [PItemC.nodes, List.cons_append, List.nil_append, groupItems]
      have h0 := ih []
      simp only [List.map_nil] at h0
      simp only [groupBy, node_isEntry, ↓reduceIte, h0, List.map_cons, egrp]

theorem paraGroups_node (p : ParaC) :
    paraGroups p.node = ((([], p.first) :: (groupItems p.rest []).1).map egrp, (groupItems p.rest []).2.map cTok) := by
  have h0 := groupBy_items p.rest []
  simp only [List.map_nil] at h0
  simp only [paraGroups, ParaC.node, Node.children, groupBy, node_isEntry, ↓reduceIte, h0, List.map_cons, egrp,
    List.map_nil]

theorem groupItems_props (is : List PItemC) (more : Bool) (cur : List Str)
    (hwf : ∀ i ∈ is, i.WF) (ht : itemsTermC is more) (hc : ∀ c ∈ cur, NoNl c) :
    (∀ x ∈ (groupItems is cur).1, x.2.WF ∧ (∃ m, x.2.TermM m) ∧ ∀ c ∈ x.1, NoNl c)
      ∧ ∀ c ∈ (groupItems is cur).2, NoNl c := by
  induction is generalizing cur with
  | nil => simp [groupItems]; exact hc
  | cons i is ih =>
    have hwf' : ∀ j ∈ is, j.WF := fun j hj => hwf j (by simp [hj])
    cases i with
    | comment t nl =>
      simp only [groupItems]
      have hti : NoNl t := hwf (.comment t nl) (by simp)
      exact ih _ hwf' ht.2 (by
        intro c hcm
        simp only [List.mem_append, List.mem_cons, List.not_mem_nil, or_false] at hcm
        rcases hcm with h | rfl
        · exact hc c h
        · exact hti)
    | entry e =>
      simp only [groupItems]
      have hewf : e.WF := hwf (.entry e) (by simp)
      have := ih [] hwf' ht.2 (by simp)
      refine ⟨?_, this.2⟩
      intro x hx
      simp only [List.mem_cons] at hx
      rcases hx with rfl | hx
      · exact ⟨hewf, ⟨_, ht.1⟩, hc⟩
      · exact this.1 x hx

/-- **a well-formed paragraph is reformatted to a rendered paragraph** whose fields are well
    formed and fully terminated (any comparator; no formatter; indentation ≥ 1) -/
theorem paragraphWrap_para (cfg : WrapCfg) (le : Option (DNode → DNode → Bool)) (p : ParaC) (more : Bool)
    (hwf : p.WF) (ht : p.Term more) (hc : IndentOK cfg) :
    ∃ pg : PG, pg.OK ∧ paragraphWrap cfg le none p.node = some pg.node := by
  -- the groups of the input and their properties
  let xs : List (List Str × EntryC) := ([], p.first) :: (groupItems p.rest []).1
  have hprops := groupItems_props p.rest more [] hwf.rest_ok ht.2 (by simp)
  have hxs : ∀ x ∈ xs, x.2.WF ∧ (∃ m, x.2.TermM m) ∧ ∀ c ∈ x.1, NoNl c := by
    intro x hx
    simp only [xs, List.mem_cons] at hx
    rcases hx with rfl | hx
    · exact ⟨hwf.first_ok, ⟨_, ht.1⟩, by simp⟩
    · exact hprops.1 x hx
  have hg := paraGroups_node p
  let ws : List (List DNode × DNode) := xs.map fun x => (x.1.map cTok, (x.2.wrap cfg).node)
  have hpw : Pointwise (fun g w => w.1 = g.1 ∧ entryWrap cfg none g.2 = some w.2) (paraGroups p.node).1 ws := by
    rw [hg]
    apply pointwise_map
    intro x hx
    obtain ⟨h1, ⟨m, h2⟩, _⟩ := hxs x hx
    exact ⟨rfl, entryWrap_nodeC cfg x.2 h1 (EntryC.term_of_M x.2 m h2) hc⟩
  have hpre : ∀ w ∈ ws, ∀ c ∈ w.1, isTrivTok c = true := by
    intro w hw
    simp only [ws, List.mem_map] at hw
    obtain ⟨x, _, rfl⟩ := hw
    exact cTok_trivs _
  have htr : ∀ c ∈ (paraGroups p.node).2, isTrivTok c = true := by
    rw [hg]; exact cTok_trivs _
  have hres := paragraphWrap_intro cfg le none p.node ws hpw hpre htr
  -- the sorted groups are still groups of well-formed, terminated fields
  obtain ⟨ys, hys, hsort⟩ := lift_map
    (fun y : List Str × EntryC => y.2.WF ∧ y.2.TermAll ∧ ∀ c ∈ y.1, NoNl c) egrp (sortBy le ws) (by
      intro w hw
      have hw' := (mem_sortBy le ws w).1 hw
      simp only [ws, List.mem_map] at hw'
      obtain ⟨x, hx, rfl⟩ := hw'
      obtain ⟨h1, _, h3⟩ := hxs x hx
      exact ⟨(x.1, x.2.wrap cfg), ⟨(wrapC_props cfg x.2 h1 hc).1, (wrapC_props cfg x.2 h1 hc).2.1, h3⟩, rfl⟩)
  refine ⟨⟨ys, (groupItems p.rest []).2⟩, ⟨?_, hys, hprops.2⟩, ?_⟩
  · intro hnil
    have hnil' : ys = [] := hnil
    have h1 : (sortBy le ws).length = ws.length := (sortBy_perm le ws).length_eq
    rw [hsort, hnil'] at h1
    simp [ws, xs] at h1
  · rw [hres, hsort, hg]
    rfl

/-! ### the grouping of a well-formed document -/

def groupParas : List (ParaC × List Gap) → List Str → List (List Str × ParaC) × List Str
  | [], cur => ([], cur)
  | pg :: ps, cur =>
    ((cur, pg.1) :: (groupParas ps (gapComments pg.2)).1, (groupParas ps (gapComments pg.2)).2)

def pgrp (x : List Str × ParaC) : List DNode × DNode := (x.1.map cTok, x.2.node)

theorem groupRoot_parasNodes (ps : List (ParaC × List Gap)) (cur : List Str) :
    groupRoot (parasNodesC ps) (cur.map cTok)
      = ((groupParas ps cur).1.map pgrp, (groupParas ps cur).2.map cTok) := by
  induction ps generalizing cur with
  | nil => simp [parasNodesC, groupRoot, groupParas]
  | cons pg ps ih =>
    rw [parasNodes_cons]
    have hp : (pg.1.node.isNode && pg.1.node.kind == Kind.PARAGRAPH) = true := rfl
    simp only [groupRoot, hp, ↓reduceIte, groupParas]
    have h1 := groupRoot_gaps pg.2 (parasNodesC ps) []
    simp only [List.map_nil, List.nil_append] at h1
    rw [h1, ih]
    simp [pgrp]

theorem rootGroups_tree (d : DocC) :
    rootGroups d.tree = ((groupParas d.paras (gapComments d.lead)).1.map pgrp,
      (groupParas d.paras (gapComments d.lead)).2.map cTok) := by
  have h1 := groupRoot_gaps d.lead (parasNodesC d.paras) []
  simp only [List.map_nil, List.nil_append] at h1
  simp only [rootGroups, DocC.tree, Node.children]
  rw [h1, groupRoot_parasNodes]

theorem parasTerm_each (ps : List (ParaC × List Gap)) (h : parasTermC ps) : ∀ pg ∈ ps, ∃ m, pg.1.Term m := by
  induction ps with
  | nil => simp
  | cons pg ps ih =>
    obtain ⟨p, g⟩ := pg
    cases ps with
    | nil =>
      intro x hx
      simp only [List.mem_cons, List.not_mem_nil, or_false] at hx
      subst hx; exact ⟨_, h.1⟩
    | cons q ps' =>
      intro x hx
      simp only [List.mem_cons] at hx
      rcases hx with rfl | hx
      · exact ⟨_, h.1⟩
      · exact ih h.2.2.2 x (by simpa using hx)

theorem groupParas_props (ps : List (ParaC × List Gap)) (cur : List Str)
    (hwf : ∀ pg ∈ ps, pg.1.WF ∧ ∀ g ∈ pg.2, g.WF) (ht : ∀ pg ∈ ps, ∃ m, pg.1.Term m) (hc : ∀ c ∈ cur, NoNl c) :
    (∀ x ∈ (groupParas ps cur).1, x.2.WF ∧ (∃ m, x.2.Term m) ∧ ∀ c ∈ x.1, NoNl c)
      ∧ ∀ c ∈ (groupParas ps cur).2, NoNl c := by
  induction ps generalizing cur with
  | nil => simp [groupParas]; exact hc
  | cons pg ps ih =>
    simp only [groupParas]
    have h0 := hwf pg (by simp)
    have := ih (gapComments pg.2) (fun x hx => hwf x (by simp [hx])) (fun x hx => ht x (by simp [hx]))
      (gapComments_nonl pg.2 h0.2)
    refine ⟨?_, this.2⟩
    intro x hx
    simp only [List.mem_cons] at hx
    rcases hx with rfl | hx
    · exact ⟨h0.1, ht pg (by simp), hc⟩
    · exact this.1 x hx

def zgrp (z : List Str × PG) : List DNode × DNode := (z.1.map cTok, z.2.node)

/-- **a well-formed document is reformatted to a list of rendered paragraphs** with their leading
    comments, and trailing comments -/
theorem deb822Wrap_doc (cfg : WrapCfg) (ele ple : Option (DNode → DNode → Bool)) (d : DocC)
    (hwf : d.WF) (hc : IndentOK cfg) :
    ∃ (zs : List (List Str × PG)) (tr : List Str),
      (∀ z ∈ zs, z.2.OK ∧ ∀ c ∈ z.1, NoNl c) ∧ (∀ c ∈ tr, NoNl c)
      ∧ zs.length = d.paras.length
      ∧ deb822Wrap ple (some (paragraphWrap cfg ele none)) d.tree
          = some (.node .ROOT (docOut (zs.map zgrp) (tr.map cTok))) := by
  let gp := groupParas d.paras (gapComments d.lead)
  have hprops := groupParas_props d.paras (gapComments d.lead) hwf.paras_ok
    (parasTerm_each d.paras hwf.paras_term) (gapComments_nonl d.lead hwf.lead_ok)
  have hg := rootGroups_tree d
  -- one rendered paragraph per input paragraph
  have hex : ∀ x ∈ gp.1, ∃ pg : PG, pg.OK ∧ paragraphWrap cfg ele none x.2.node = some pg.node := by
    intro x hx
    obtain ⟨h1, ⟨m, h2⟩, _⟩ := hprops.1 x hx
    exact paragraphWrap_para cfg ele x.2 m h1 h2 hc
  have hchoose : ∀ (l : List (List Str × ParaC)),
      (∀ x ∈ l, (∃ pg : PG, pg.OK ∧ paragraphWrap cfg ele none x.2.node = some pg.node) ∧ ∀ c ∈ x.1, NoNl c) →
      ∃ us : List (List Str × PG), (∀ z ∈ us, z.2.OK ∧ ∀ c ∈ z.1, NoNl c) ∧ us.length = l.length ∧
        Pointwise (fun g w => w.1 = g.1 ∧ applyW (some (paragraphWrap cfg ele none)) g.2 = some w.2)
          (l.map pgrp) (us.map zgrp) := by
    intro l
    induction l with
    | nil => intro _; exact ⟨[], by simp, rfl, trivial⟩
    | cons x l ih =>
      intro h
      obtain ⟨⟨pg, hok, hpg⟩, hcn⟩ := h x (by simp)
      obtain ⟨us, hus, hlen, hpw⟩ := ih fun y hy => h y (by simp [hy])
      refine ⟨(x.1, pg) :: us, ?_, by simp [hlen], ⟨rfl, hpg⟩, hpw⟩
      intro z hz
      simp only [List.mem_cons] at hz
      rcases hz with rfl | hz
      · exact ⟨hok, hcn⟩
      · exact hus z hz
  obtain ⟨us, hus, hlen, hpw⟩ := hchoose gp.1 fun x hx => ⟨hex x hx, (hprops.1 x hx).2.2⟩
  have hpre : ∀ w ∈ us.map zgrp, ∀ c ∈ w.1, isTrivTok c = true := by
    intro w hw
    simp only [List.mem_map] at hw
    obtain ⟨z, _, rfl⟩ := hw
    exact cTok_trivs _
  have htr : ∀ c ∈ (rootGroups d.tree).2, isTrivTok c = true := by rw [hg]; exact cTok_trivs _
  have hres := deb822Wrap_intro ple (some (paragraphWrap cfg ele none)) d.tree (us.map zgrp)
    (by rw [hg]; exact hpw) hpre htr
  obtain ⟨zs, hzs, hsort⟩ := lift_map (fun z : List Str × PG => z.2.OK ∧ ∀ c ∈ z.1, NoNl c) zgrp
    (sortBy ple (us.map zgrp)) (by
      intro w hw
      have hw' := (mem_sortBy ple _ w).1 hw
      simp only [List.mem_map] at hw'
      obtain ⟨z, hz, rfl⟩ := hw'
      exact ⟨z, hus z hz, rfl⟩)
  refine ⟨zs, gp.2, hzs, hprops.2, ?_, ?_⟩
  · have h1 : (sortBy ple (us.map zgrp)).length = (us.map zgrp).length := (sortBy_perm ple _).length_eq
    rw [hsort] at h1
    have h2 : gp.1.length = d.paras.length := by
      have : ∀ (ps : List (ParaC × List Gap)) cur, (groupParas ps cur).1.length = ps.length := by
        intro ps
        induction ps with
        | nil => intro cur; rfl
        | cons pg ps ih => intro cur; simp [groupParas, ih]
      exact this _ _
    simp only [List.length_map] at h1
    omega
  · rw [hres, hsort, hg]


end Deb822Verif.DebC
