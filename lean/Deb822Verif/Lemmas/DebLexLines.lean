import Deb822Verif.Spec.DocS
/-! The lexer, line by line: on a well-formed document it produces exactly `DocS.toks`. -/
namespace Deb822Verif.Deb
open Deb822Verif Node Spec

theorem lexAux_nil (st) : lexAux st [] = [] := by simp [lexAux]

theorem lexAux_cons (st c rest) :
    lexAux st (c :: rest) =
      (lexStep st c rest).1 :: lexAux (lexStep st c rest).2.1 (lexStep st c rest).2.2 := by
  rw [lexAux]

/-! ### takeWhile / dropWhile over `a ++ tail` -/

def HeadFails {α} (p : α → Bool) (l : List α) : Prop := ∀ x, l.head? = some x → p x = false

theorem takeWhile_app {α} (p : α → Bool) (a tail : List α) (ha : ∀ x ∈ a, p x = true)
    (ht : HeadFails p tail) : (a ++ tail).takeWhile p = a := by
  induction a with
  | nil =>
    cases tail with
    | nil => simp
    | cons x xs => simp [List.takeWhile, ht x (by simp)]
  | cons x xs ih =>
    simp [List.takeWhile, ha x (by simp), ih (fun y hy => ha y (by simp [hy]))]

theorem dropWhile_app {α} (p : α → Bool) (a tail : List α) (ha : ∀ x ∈ a, p x = true)
    (ht : HeadFails p tail) : (a ++ tail).dropWhile p = tail := by
  induction a with
  | nil =>
    cases tail with
    | nil => simp
    | cons x xs => simp [List.dropWhile, ht x (by simp)]
  | cons x xs ih =>
    simp [List.dropWhile, ha x (by simp), ih (fun y hy => ha y (by simp [hy]))]

/-! ### character classes -/

theorem keyChar_not_newline (c : Char) (h : isKeyChar c = true) : isNewline c = false := by
  simp only [isKeyChar, isNewline, Bool.and_eq_true, decide_eq_true_eq, Bool.or_eq_false_iff,
    beq_eq_false_iff_ne] at *
  constructor <;> (intro hc; subst hc; simp at h)

theorem keyChar_not_indent (c : Char) (h : isKeyChar c = true) : isIndent c = false := by
  simp only [isKeyChar, isIndent, Bool.and_eq_true, decide_eq_true_eq, Bool.or_eq_false_iff,
    beq_eq_false_iff_ne] at *
  constructor <;> (intro hc; subst hc; simp at h)

theorem keyChar_not_colon (c : Char) (h : isKeyChar c = true) : c ≠ ':' := by
  intro hc; subst hc; simp [isKeyChar] at h

theorem colon_not_keyChar : isKeyChar ':' = false := by simp [isKeyChar]
theorem nl_not_keyChar : isKeyChar '\n' = false := by decide
theorem indent_not_newline (c : Char) (h : isIndent c = true) : isNewline c = false := by
  simp only [isIndent, isNewline, Bool.or_eq_true, beq_iff_eq, Bool.or_eq_false_iff,
    beq_eq_false_iff_ne] at *
  rcases h with rfl | rfl <;> decide

theorem indent_not_colon (c : Char) (h : isIndent c = true) : c ≠ ':' := by
  intro hc; subst hc; simp [isIndent] at h

theorem newline_lf : isNewline '\n' = true := by decide

/-- what may follow a line's text: end of input or a line break -/
def LineEnd (tail : Str) : Prop := ∀ x, tail.head? = some x → isNewline x = true

theorem lineEnd_nil : LineEnd [] := by intro x h; simp at h
theorem lineEnd_lf (r : Str) : LineEnd ('\n' :: r) := by
  intro x h; simp at h; subst h; decide
theorem lineEnd_nlText (nl : Bool) (r : Str) (h : nl = true ∨ r = []) : LineEnd (nlText nl ++ r) := by
  cases nl with
  | true => exact lineEnd_lf r
  | false =>
    rcases h with h | h
    · simp at h
    · subst h; simpa [nlText] using lineEnd_nil

/-! ### single steps -/

theorem step_lf (st : LexState) (rest : Str) :
    lexStep st '\n' rest = ((.NEWLINE, ['\n']), initState, rest) := by
  simp [lexStep, isNewline, initState]

theorem step_colon (st : LexState) (rest : Str) (h0 : st.colon = 0) (h1 : st.indent = 0) :
    lexStep st ':' rest = ((.COLON, [':']), { st with colon := 1 }, rest) := by
  simp [lexStep, h0, h1]

/-- a key at the start of an unindented line -/
theorem step_key (c : Char) (ks tail : Str) (st : LexState) (hsol : st.sol = true)
    (hind : st.indent = 0) (hc : isInitialKeyChar c = true) (hh : c ≠ '#')
    (hks : ∀ x ∈ ks, isKeyChar x = true) (ht : HeadFails isKeyChar tail) :
    lexStep st c (ks ++ tail) = ((.KEY, c :: ks), { st with sol := false }, tail) := by
  have hk : isKeyChar c = true := by simp [isInitialKeyChar] at hc; exact hc.2
  have h1 : c ≠ ':' := keyChar_not_colon c hk
  have h2 := keyChar_not_newline c hk
  have h3 := keyChar_not_indent c hk
  simp [lexStep, h1, h2, h3, hh, hc, hsol, hind, takeWhile_app _ _ _ hks ht, dropWhile_app _ _ _ hks ht]

/-- whitespace inside a line -/
theorem step_ws (c : Char) (ws tail : Str) (st : LexState) (hsol : st.sol = false)
    (hc : isIndent c = true) (hws : ∀ x ∈ ws, isIndent x = true) (ht : HeadFails isIndent tail) :
    lexStep st c (ws ++ tail) = ((.WHITESPACE, c :: ws), st, tail) := by
  have h1 : c ≠ ':' := indent_not_colon c hc
  have h2 := indent_not_newline c hc
  simp [lexStep, h1, h2, hc, hsol, takeWhile_app _ _ _ hws ht, dropWhile_app _ _ _ hws ht]

/-- indentation at the start of a line -/
theorem step_indent (c : Char) (ws tail : Str) (st : LexState) (hsol : st.sol = true)
    (hc : isIndent c = true) (hws : ∀ x ∈ ws, isIndent x = true) (ht : HeadFails isIndent tail) :
    lexStep st c (ws ++ tail) =
      ((.INDENT, c :: ws), { st with indent := (c :: ws).length }, tail) := by
  have h1 : c ≠ ':' := indent_not_colon c hc
  have h2 := indent_not_newline c hc
  simp [lexStep, h1, h2, hc, hsol, takeWhile_app _ _ _ hws ht, dropWhile_app _ _ _ hws ht]

theorem notNl_all (v : Str) (h : NoNl v) : ∀ x ∈ v, (fun c => !isNewline c) x = true := by
  intro x hx; simp [h x hx]

theorem lineEnd_headFails (tail : Str) (h : LineEnd tail) : HeadFails (fun c => !isNewline c) tail := by
  intro x hx; simp [h x hx]

/-- a comment at the start of a line -/
theorem step_comment (t tail : Str) (st : LexState) (hsol : st.sol = true) (ht : NoNl t)
    (he : LineEnd tail) :
    lexStep st '#' (t ++ tail) =
      ((.COMMENT, '#' :: t), { st with sol := true, colon := 0 }, tail) := by
  have h2 : isNewline '#' = false := by decide
  have h3 : isIndent '#' = false := by decide
  simp [lexStep, h2, h3, hsol, takeWhile_app _ _ _ (notNl_all t ht) (lineEnd_headFails tail he),
    dropWhile_app _ _ _ (notNl_all t ht) (lineEnd_headFails tail he)]

/-- value text: after the colon (`sol = false`, `colon ≥ 1`) or on an indented line
    (`indent > 0`, first character not `#`) -/
theorem step_value (c : Char) (v tail : Str) (st : LexState) (hnl : isNewline c = false)
    (hni : isIndent c = false) (hv : NoNl v) (he : LineEnd tail)
    (hst : (st.sol = false ∧ st.colon ≠ 0) ∨ (st.indent ≠ 0 ∧ c ≠ '#')) :
    lexStep st c (v ++ tail) = ((.VALUE, c :: v), st, tail) := by
  have tw := takeWhile_app _ _ _ (notNl_all v hv) (lineEnd_headFails tail he)
  have dw := dropWhile_app _ _ _ (notNl_all v hv) (lineEnd_headFails tail he)
  rcases hst with ⟨h1, h2⟩ | ⟨h1, h2⟩
  · simp [lexStep, hnl, hni, h1, h2, tw, dw]
  · have : 0 < st.indent := Nat.pos_of_ne_zero h1
    simp [lexStep, hnl, hni, h1, h2, tw, dw, this]

end Deb822Verif.Deb

namespace Deb822Verif.Deb
open Deb822Verif Node Spec

def stLine : LexState := { sol := false, colon := 1, indent := 0 }

/-- the line terminator: `\n` resets the lexer; a missing terminator is only allowed at the end -/
theorem lex_nlText (st : LexState) (nl : Bool) (rest : Str) (h : nl = true ∨ rest = []) :
    lexAux st (nlText nl ++ rest) = nlTok nl ++ lexAux initState rest := by
  cases nl with
  | true => simp [nlText, nlTok, lexAux_cons, step_lf]
  | false =>
    rcases h with h | h
    · simp at h
    · subst h; simp [nlText, nlTok, lexAux_nil]

theorem headFails_keyChar_colon (r : Str) : HeadFails isKeyChar (':' :: r) := by
  intro x hx; simp at hx; subst hx; exact colon_not_keyChar

/-- first line of a field, up to (not including) its terminator -/
theorem lex_fieldLine (key ws v tail : Str) (hk : ValidKey key) (hws : AllIndent ws)
    (hv : ValidFirst v) (he : LineEnd tail) :
    lexAux initState (key ++ ':' :: (ws ++ v ++ tail)) =
      (.KEY, key) :: (.COLON, [':']) :: (optTok .WHITESPACE ws ++ optTok .VALUE v ++ lexAux stLine tail) := by
  obtain ⟨c, cs, rfl, hc, hh, hcs⟩ := hk
  rw [List.cons_append, lexAux_cons,
    step_key c cs _ initState rfl rfl hc hh hcs (headFails_keyChar_colon _)]
  simp only [initState]
  rw [lexAux_cons, step_colon _ _ rfl rfl]
  simp only [List.cons.injEq, true_and]
  -- whitespace after the colon
  have hvt : HeadFails isIndent (v ++ tail) := by
    intro x hx
    cases v with
    | nil =>
      simp at hx
      have := he x hx
      cases hi : isIndent x
      · rfl
      · have := indent_not_newline x hi; simp_all
    | cons y ys => simp at hx; subst hx; exact hv.2 _ (by simp)
  have hval : lexAux stLine (v ++ tail) = optTok .VALUE v ++ lexAux stLine tail := by
    cases v with
    | nil => simp [optTok]
    | cons y ys =>
      have hy : isNewline y = false := hv.1 y (by simp)
      have hyi : isIndent y = false := hv.2 y (by simp)
      have hys : NoNl ys := fun z hz => hv.1 z (by simp [hz])
      rw [List.cons_append, lexAux_cons,
        step_value y ys tail stLine hy hyi hys he (Or.inl ⟨rfl, by simp [stLine]⟩)]
      simp [optTok]
  cases ws with
  | nil => simp only [optTok, ↓reduceIte, List.nil_append]; exact hval
  | cons w ws' =>
    have hw : isIndent w = true := hws w (by simp)
    have hws' : ∀ x ∈ ws', isIndent x = true := fun x hx => hws x (by simp [hx])
    rw [List.append_assoc, List.cons_append, lexAux_cons]
    have := step_ws w ws' (v ++ tail) { sol := false, colon := 1, indent := 0 } rfl hw hws' hvt
    rw [this]
    simp only [optTok, List.cons_ne_nil, ↓reduceIte, List.cons_append, List.nil_append,
      List.cons.injEq, true_and]
    exact hval

/-- a continuation line up to its terminator -/
theorem lex_contLine (ind text tail : Str) (hi : ind ≠ []) (hia : AllIndent ind) (ht : ValidCont text)
    (he : LineEnd tail) :
    lexAux initState (ind ++ text ++ tail) =
      (.INDENT, ind) :: (.VALUE, text) :: lexAux { sol := true, colon := 0, indent := ind.length } tail := by
  obtain ⟨hnl, c, cs, rfl, hci, hch⟩ := ht
  cases ind with
  | nil => exact absurd rfl hi
  | cons w ws =>
    have hw : isIndent w = true := hia w (by simp)
    have hws : ∀ x ∈ ws, isIndent x = true := fun x hx => hia x (by simp [hx])
    have hft : HeadFails isIndent (c :: cs ++ tail) := by
      intro x hx; simp at hx; subst hx; exact hci
    rw [List.append_assoc, List.cons_append, lexAux_cons,
      step_indent w ws _ initState rfl hw hws hft]
    simp only [initState, List.cons.injEq, true_and]
    have hcn : isNewline c = false := hnl c (by simp)
    have hcs : NoNl cs := fun z hz => hnl z (by simp [hz])
    rw [List.cons_append, lexAux_cons,
      step_value c cs tail _ hcn hci hcs he (Or.inr ⟨by simp, hch⟩)]

/-- a comment line up to its terminator -/
theorem lex_commentLine (t tail : Str) (ht : NoNl t) (he : LineEnd tail) :
    lexAux initState ('#' :: t ++ tail) = (.COMMENT, '#' :: t) :: lexAux initState tail := by
  rw [List.cons_append, lexAux_cons, step_comment t tail initState rfl ht he]
  simp [initState]

/-! ### units with their terminators -/

theorem lex_conts (cs : List ContS) (more : Bool) (rest : Str) (hwf : ∀ c ∈ cs, c.WF)
    (hterm : contsTerm cs more) (hmore : more = false → rest = []) :
    lexAux initState ((cs.map ContS.str).flatten ++ rest) = contsToks cs ++ lexAux initState rest := by
  induction cs with
  | nil => simp [contsToks]
  | cons c cs ih =>
    have hc := hwf c (by simp)
    obtain ⟨hn, hrest⟩ := hterm
    have hnl : c.nl = true ∨ (cs.map ContS.str).flatten ++ rest = [] := by
      rcases hn with h | ⟨h1, h2⟩
      · exact Or.inl h
      · right; subst h1; simp [hmore h2]
    have he := lineEnd_nlText c.nl _ hnl
    simp only [List.map_cons, List.flatten_cons, ContS.str, List.append_assoc, contsToks]
    have := lex_contLine c.indent c.text (nlText c.nl ++ ((cs.map ContS.str).flatten ++ rest))
      hc.indent_ne hc.indent_ok hc.text_ok he
    simp only [List.append_assoc] at this
    rw [this, lex_nlText _ _ _ hnl, ih (fun x hx => hwf x (by simp [hx])) hrest]
    simp [ContS.toks, contsToks]

theorem lex_entry (e : EntryS) (more : Bool) (rest : Str) (hwf : e.WF) (hterm : e.Term more)
    (hmore : more = false → rest = []) :
    lexAux initState (e.str ++ rest) = e.toks ++ lexAux initState rest := by
  obtain ⟨hn, hct⟩ := hterm
  have hnl : e.nl = true ∨ (e.conts.map ContS.str).flatten ++ rest = [] := by
    rcases hn with h | ⟨h1, h2⟩
    · exact Or.inl h
    · right; rw [h1]; simp [hmore h2]
  have he := lineEnd_nlText e.nl _ hnl
  have := lex_fieldLine e.key e.ws e.v (nlText e.nl ++ ((e.conts.map ContS.str).flatten ++ rest))
    hwf.key_ok hwf.ws_ok hwf.v_ok he
  simp only [EntryS.str, List.append_assoc, List.cons_append] at this ⊢
  rw [this, lex_nlText _ _ _ hnl, lex_conts e.conts more rest hwf.conts_ok hct hmore]
  simp [EntryS.toks]

theorem lex_items (is : List PItem) (more : Bool) (rest : Str) (hwf : ∀ i ∈ is, i.WF)
    (hterm : itemsTerm is more) (hmore : more = false → rest = []) :
    lexAux initState ((is.map PItem.str).flatten ++ rest) = itemsToks is ++ lexAux initState rest := by
  induction is with
  | nil => simp [itemsToks]
  | cons i is ih =>
    have hi := hwf i (by simp)
    have hrec := fun ht => ih (fun x hx => hwf x (by simp [hx])) ht
    cases i with
    | comment t nl =>
      obtain ⟨hn, hrest⟩ := hterm
      have hnl : nl = true ∨ (is.map PItem.str).flatten ++ rest = [] := by
        rcases hn with h | ⟨h1, h2⟩
        · exact Or.inl h
        · right; subst h1; simp [hmore h2]
      have he := lineEnd_nlText nl _ hnl
      have := lex_commentLine t (nlText nl ++ ((is.map PItem.str).flatten ++ rest)) hi he
      simp only [List.map_cons, List.flatten_cons, PItem.str, List.append_assoc, List.cons_append,
        itemsToks] at this ⊢
      rw [this, lex_nlText _ _ _ hnl, hrec hrest]
      simp [PItem.toks, itemsToks]
    | entry e =>
      obtain ⟨hn, hrest⟩ := hterm
      simp only [List.map_cons, List.flatten_cons, PItem.str, List.append_assoc, itemsToks]
      rw [lex_entry e (!is.isEmpty || more) _ hi hn (by
        intro h
        simp only [Bool.or_eq_false_iff, Bool.not_eq_eq_eq_not, Bool.not_false,
          List.isEmpty_iff] at h
        rw [h.1]; simp [hmore h.2])]
      rw [hrec hrest]
      simp [PItem.toks, itemsToks]

theorem lex_para (p : ParaS) (more : Bool) (rest : Str) (hwf : p.WF) (hterm : p.Term more)
    (hmore : more = false → rest = []) :
    lexAux initState (p.str ++ rest) = p.toks ++ lexAux initState rest := by
  obtain ⟨h1, h2⟩ := hterm
  simp only [ParaS.str, List.append_assoc, ParaS.toks]
  rw [lex_entry p.first (!p.rest.isEmpty || more) _ hwf.first_ok h1 (by
    intro h
    simp only [Bool.or_eq_false_iff, Bool.not_eq_eq_eq_not, Bool.not_false, List.isEmpty_iff] at h
    rw [h.1]; simp [hmore h.2])]
  rw [lex_items p.rest more rest hwf.rest_ok h2 hmore]

theorem lex_gaps (gs : List Gap) (more : Bool) (rest : Str) (hwf : ∀ g ∈ gs, g.WF)
    (hterm : gapsTerm gs more) (hmore : more = false → rest = []) :
    lexAux initState (gapsStr gs ++ rest) = gapsToks gs ++ lexAux initState rest := by
  induction gs with
  | nil => simp [gapsStr, gapsToks]
  | cons g gs ih =>
    have hg := hwf g (by simp)
    have hrec := fun ht => ih (fun x hx => hwf x (by simp [hx])) ht
    cases g with
    | blank =>
      simp only [gapsStr, gapsToks, List.map_cons, List.flatten_cons, Gap.str, Gap.toks,
        List.cons_append, List.nil_append, List.append_assoc] at hrec ⊢
      rw [lexAux_cons, step_lf]
      simp only [List.cons.injEq, true_and]
      exact hrec hterm
    | comment t nl =>
      obtain ⟨hn, hrest⟩ := hterm
      have hnl : nl = true ∨ gapsStr gs ++ rest = [] := by
        rcases hn with h | ⟨h1, h2⟩
        · exact Or.inl h
        · right; subst h1; simp [hmore h2, gapsStr]
      have he := lineEnd_nlText nl _ hnl
      have := lex_commentLine t (nlText nl ++ (gapsStr gs ++ rest)) hg he
      simp only [gapsStr, gapsToks, List.map_cons, List.flatten_cons, Gap.str, Gap.toks,
        List.cons_append, List.append_assoc] at this hrec ⊢
      rw [this, lex_nlText _ _ _ (by simpa [gapsStr] using hnl), hrec hrest]

theorem gapsStr_nonempty (g : Gap) (gs : List Gap) : gapsStr (g :: gs) ≠ [] := by
  cases g <;> simp [gapsStr, Gap.str]

theorem lex_paras (ps : List (ParaS × List Gap)) (hwf : ∀ pg ∈ ps, pg.1.WF ∧ ∀ g ∈ pg.2, g.WF)
    (hterm : parasTerm ps) :
    lexAux initState ((ps.map fun pg => pg.1.str ++ gapsStr pg.2).flatten) = parasToks ps := by
  induction ps with
  | nil => simp [parasToks, lexAux_nil]
  | cons pg ps ih =>
    obtain ⟨p, g⟩ := pg
    have hp := hwf (p, g) (by simp)
    cases ps with
    | nil =>
      obtain ⟨h1, _, h2⟩ := hterm
      simp only [List.map_cons, List.map_nil, List.flatten_cons, List.flatten_nil, List.append_nil,
        parasToks]
      rw [lex_para p (!g.isEmpty) (gapsStr g) hp.1 h1 (by
        intro h; simp at h; subst h; simp [gapsStr])]
      have := lex_gaps g false [] hp.2 h2 (fun _ => rfl)
      simp only [List.append_nil, lexAux_nil] at this
      rw [this]
    | cons q ps =>
      obtain ⟨h1, ⟨g', hg⟩, h2, h3⟩ := hterm
      have ihq := ih (fun x hx => hwf x (by simp [hx])) h3
      simp only [List.map_cons, List.flatten_cons, parasToks, List.append_assoc] at ihq ⊢
      rw [lex_para p true _ hp.1 h1 (by simp)]
      rw [lex_gaps g true _ hp.2 h2 (by simp)]
      rw [ihq]

/-- **Lexer inversion**: on a well-formed document the lexer produces exactly `toks`. -/
theorem lex_doc (d : DocS) (h : d.WF) : lex d.str = d.toks := by
  unfold lex DocS.str DocS.toks
  rw [lex_gaps d.lead (!d.paras.isEmpty) _ h.lead_ok h.lead_term (by
    intro hm; simp at hm; rw [hm]; simp)]
  rw [lex_paras d.paras h.paras_ok h.paras_term]

end Deb822Verif.Deb
