import Deb822Verif.Lemmas.RelCanonField
import Deb822Verif.Lemmas.RelWrapField
/-!
  The lossy relation printer / reader round trip on the *whole range of the lossy reader*
  (groundwork for C20Ext): `Spec/RelCanon.validR` asks for a version that prints as a well-formed
  version text (`[epoch:]ident(:ident)*`), but `lossy::Relation::from_str` hands ANY concatenation of
  IDENT and COLON tokens to `debversion::Version::from_str`, which accepts e.g. `:1`, `1:`, `a:b`, `1::2`
  (no epoch, colons in the upstream part).  Such values are outside `validR`, yet they print and read
  back.  Here: the wider domain `validRW` (version: `Version.parse v.display = some v`), and
  `readRelations (showRelations rs) = ok rs` on it.
-/
set_option linter.unusedSimpArgs false
set_option linter.unusedVariables false
namespace Deb822Verif.Rel
open Deb822Verif Node RelSpec Lossy

/-! ### `debversion::Version`: parse ∘ display ∘ parse = parse -/

/-- a character of a version text as the relation lexer sees it: identifier character or ':' -/
def isVChar (c : Char) : Bool := isIdentChar c || c == ':'

theorem upstreamChar_vchar {c : Char} (h : isUpstreamChar c = true) : isVChar c = true := by
  simp only [isVChar, isIdentChar, isUpstreamChar, isRevChar, Bool.or_eq_true, beq_iff_eq] at h ⊢
  rcases h with ((((h | h) | h) | h) | h) | h <;> simp [h]

theorem digit_vchar {c : Char} (h : isAsciiDigit c = true) : isVChar c = true := by
  simp [isVChar, digit_identChar h]

theorem matchUpstreamRev_some {s u : Str} {r : Option Str} (h : matchUpstreamRev s = some (u, r)) :
    s ≠ [] ∧ ∀ c ∈ s, isUpstreamChar c = true := by
  unfold matchUpstreamRev at h
  split at h
  · simp at h
  · rename_i hc
    simp only [Bool.or_eq_true, Bool.not_eq_true', not_or, Bool.not_eq_true, Bool.not_eq_false] at hc
    refine ⟨?_, ?_⟩
    · intro e; subst e; simp at hc
    · have := hc.2
      simpa [List.all_eq_true] using this

/-- the shape of an accepted text with an epoch -/
theorem epochAlt_some {s : Str} {v : Version} (h : Version.epochAlt s = some (some v)) :
    ∃ rest u r, s = s.takeWhile isAsciiDigit ++ ':' :: rest ∧ s.takeWhile isAsciiDigit ≠ []
      ∧ matchUpstreamRev rest = some (u, r) ∧ digitsVal (s.takeWhile isAsciiDigit) < 4294967296
      ∧ v = ⟨some (digitsVal (s.takeWhile isAsciiDigit)), u, r⟩ := by
  unfold Version.epochAlt at h
  split at h
  · rename_i rest hd
    split at h
    · simp at h
    · rename_i hne
      split at h
      · simp at h
      · rename_i u r hm
        split at h
        · rename_i hlt
          simp only [Option.some.injEq] at h
          refine ⟨rest, u, r, ?_, ?_, hm, hlt, h.symm⟩
          · conv => lhs; rw [← List.takeWhile_append_dropWhile (p := isAsciiDigit) (l := s)]
            rw [hd]
          · intro e; rw [e] at hne; simp at hne
        · simp at h
  · simp at h

theorem epochAlt_mk (D rest u : Str) (r : Option Str) (hne : D ≠ []) (hD : ∀ c ∈ D, isAsciiDigit c = true)
    (hm : matchUpstreamRev rest = some (u, r)) (hlt : digitsVal D < 4294967296) :
    Version.epochAlt (D ++ ':' :: rest) = some (some ⟨some (digitsVal D), u, r⟩) := by
  have h1 : (D ++ ':' :: rest).dropWhile isAsciiDigit = ':' :: rest :=
    dropWhile_app _ _ _ hD (headFails_cons _ _ _ (by decide))
  have h2 : (D ++ ':' :: rest).takeWhile isAsciiDigit = D :=
    takeWhile_app _ _ _ hD (headFails_cons _ _ _ (by decide))
  unfold Version.epochAlt
  rw [h1, h2]
  have : D.isEmpty = false := by cases D <;> simp_all
  simp [this, hm, hlt]

theorem display_noEpoch {s u : Str} {r : Option Str} (h : matchUpstreamRev s = some (u, r)) :
    (Version.mk none u r).display = s := by
  have := matchUpstreamRev_display h
  cases r <;> simpa [Version.display] using this

theorem display_epoch (e : Nat) (u : Str) (r : Option Str) :
    (Version.mk (some e) u r).display = (toString e).toList ++ ':' :: (Version.mk none u r).display := by
  simp [Version.display]

/-- `Version::from_str(&v.to_string()) == Ok(v)` for every `v` that `Version::from_str` returns -/
theorem Version.parse_display_stable {s : Str} {v : Version} (h : Version.parse s = some v) :
    Version.parse v.display = some v := by
  unfold Version.parse at h
  cases he : Version.epochAlt s with
  | some r =>
    rw [he] at h
    simp only at h
    subst h
    obtain ⟨rest, u, r', hs, hne, hm, hlt, rfl⟩ := epochAlt_some he
    have hdisp : (Version.mk (some (digitsVal (s.takeWhile isAsciiDigit))) u r').display
        = (toString (digitsVal (s.takeWhile isAsciiDigit))).toList ++ ':' :: rest := by
      rw [display_epoch, display_noEpoch hm]
    rw [hdisp]
    have hdg := Wrap.isDigits_toString (digitsVal (s.takeWhile isAsciiDigit))
    simp only [isDigits, Bool.and_eq_true, Bool.not_eq_true', List.isEmpty_eq_false_iff, List.all_eq_true] at hdg
    have := epochAlt_mk _ rest u r' hdg.1 hdg.2 hm (by rw [Wrap.digitsVal_toString]; exact hlt)
    rw [Wrap.digitsVal_toString] at this
    simp only [Version.parse, this]
  | none =>
    rw [he] at h
    simp only at h
    cases hm : matchUpstreamRev s with
    | none => rw [hm] at h; simp at h
    | some p =>
      obtain ⟨u, r⟩ := p
      rw [hm] at h
      simp only [Option.some.injEq] at h
      subst h
      have hd : (Version.mk none u r).display = s := display_noEpoch hm
      rw [hd]
      simp [Version.parse, he, hm]

/-- an accepted version text is non-empty and made of identifier characters and ':' -/
theorem Version.parse_vtext {s : Str} {v : Version} (h : Version.parse s = some v) :
    s ≠ [] ∧ ∀ c ∈ s, isVChar c = true := by
  unfold Version.parse at h
  cases he : Version.epochAlt s with
  | some r =>
    rw [he] at h
    simp only at h
    subst h
    obtain ⟨rest, u, r', hs, hne, hm, _, _⟩ := epochAlt_some he
    obtain ⟨_, hall⟩ := matchUpstreamRev_some hm
    refine ⟨fun e => by rw [e] at hne; simp at hne, ?_⟩
    intro c hc
    rw [hs] at hc
    simp only [List.mem_append, List.mem_cons] at hc
    rcases hc with hc | rfl | hc
    · exact digit_vchar (mem_takeWhile_imp hc)
    · decide
    · exact upstreamChar_vchar (hall c hc)
  | none =>
    rw [he] at h
    simp only at h
    cases hm : matchUpstreamRev s with
    | none => rw [hm] at h; simp at h
    | some p =>
      obtain ⟨u, r⟩ := p
      obtain ⟨hne, hall⟩ := matchUpstreamRev_some hm
      exact ⟨hne, fun c hc => upstreamChar_vchar (hall c hc)⟩

/-! ### the lexer on a version text -/

theorem vchar_cases {c : Char} (h : isVChar c = true) : isIdentChar c = true ∨ c = ':' := by
  simpa [isVChar] using h

theorem vchar_not_ws {c : Char} (h : isVChar c = true) : isWs c = false := by
  rcases vchar_cases h with h | rfl
  · exact identChar_not_ws h
  · decide

theorem headFails_dropWhile {α} (p : α → Bool) (l tail : List α) (ht : HeadFails p tail) :
    HeadFails p (l.dropWhile p ++ tail) := by
  induction l with
  | nil => simpa using ht
  | cons x xs ih =>
    by_cases hx : p x = true
    · simpa [List.dropWhile_cons, hx] using ih
    · have hx' : p x = false := by simpa using hx
      simp only [List.dropWhile_cons, hx', Bool.false_eq_true, ↓reduceIte, List.cons_append]
      exact headFails_cons _ _ _ hx'

/-- the tokens of a version text: IDENT and COLON tokens only, whose texts concatenate to the text -/
structure VToks (w : Str) (T : List Tok) : Prop where
  kinds : ∀ t ∈ T, t.1 = .IDENT ∨ t.1 = .COLON
  text : (T.map (·.2)).flatten = w

theorem lex_vtext_aux (n : Nat) : ∀ (w rest : Str), w.length ≤ n → (∀ c ∈ w, isVChar c = true) → NI rest →
    ∃ T, lex (w ++ rest) = T ++ lex rest ∧ VToks w T := by
  induction n with
  | zero =>
    intro w rest hl _ _
    have : w = [] := List.eq_nil_of_length_eq_zero (by omega)
    subst this
    exact ⟨[], by simp, ⟨by simp, by simp⟩⟩
  | succ n ih =>
    intro w rest hl hw hr
    cases w with
    | nil => exact ⟨[], by simp, ⟨by simp, by simp⟩⟩
    | cons c cs =>
      have hcs : ∀ x ∈ cs, isVChar x = true := fun x hx => hw x (by simp [hx])
      rcases vchar_cases (hw c (by simp)) with hc | rfl
      · -- an identifier: the maximal run of identifier characters
        have hsplit : cs = cs.takeWhile isIdentChar ++ cs.dropWhile isIdentChar :=
          (List.takeWhile_append_dropWhile (p := isIdentChar) (l := cs)).symm
        have hid : isIdent (c :: cs.takeWhile isIdentChar) = true := by
          rw [isIdent_iff]
          refine ⟨by simp, ?_⟩
          intro x hx
          simp only [List.mem_cons] at hx
          rcases hx with rfl | hx
          · exact hc
          · exact mem_takeWhile_imp hx
        have hlen : (cs.dropWhile isIdentChar).length ≤ n := by
          have := length_dropWhile_le isIdentChar cs
          simp only [List.length_cons] at hl
          omega
        have hb : ∀ x ∈ cs.dropWhile isIdentChar, isVChar x = true :=
          fun x hx => hcs x ((List.dropWhile_sublist _).subset hx)
        obtain ⟨T, hT, hV⟩ := ih (cs.dropWhile isIdentChar) rest hlen hb hr
        refine ⟨(.IDENT, c :: cs.takeWhile isIdentChar) :: T, ?_, ?_, ?_⟩
        · have e : (c :: cs) ++ rest
              = (c :: cs.takeWhile isIdentChar) ++ (cs.dropWhile isIdentChar ++ rest) := by
            simp only [List.cons_append]
            rw [← List.append_assoc, List.takeWhile_append_dropWhile]
          rw [e, lex_ident _ _ hid (headFails_dropWhile _ _ _ hr), hT]
          rfl
        · intro t ht
          simp only [List.mem_cons] at ht
          rcases ht with rfl | ht
          · exact Or.inl rfl
          · exact hV.kinds t ht
        · simp only [List.map_cons, List.flatten_cons, hV.text, List.cons_append,
            List.takeWhile_append_dropWhile]
      · obtain ⟨T, hT, hV⟩ := ih cs rest (by simp only [List.length_cons] at hl; omega) hcs hr
        refine ⟨(.COLON, [':']) :: T, ?_, ?_, ?_⟩
        · simp only [List.cons_append]
          rw [lex_punct ':' .COLON _ (by decide), hT]
        · intro t ht
          simp only [List.mem_cons] at ht
          rcases ht with rfl | ht
          · exact Or.inr rfl
          · exact hV.kinds t ht
        · simp [hV.text]

theorem lex_vtext (w rest : Str) (hw : ∀ c ∈ w, isVChar c = true) (hr : NI rest) :
    ∃ T, lex (w ++ rest) = T ++ lex rest ∧ VToks w T :=
  lex_vtext_aux w.length w rest (Nat.le_refl _) hw hr

/-! ### the lossy reader on the tokens of a printed version block -/

theorem versionSpan_vtoks (T more : List Tok) (hk : ∀ t ∈ T, t.1 = .IDENT ∨ t.1 = .COLON) :
    versionSpan (T ++ (.R_PARENS, [')']) :: more)
      = .ok ((T.map (·.2)).flatten, (.R_PARENS, [')']) :: more) := by
  induction T with
  | nil => simp [versionSpan]
  | cons t T ih =>
    have ht := hk t (by simp)
    have ih' := ih (fun x hx => hk x (by simp [hx]))
    have h1 : ¬ (t.1 = .R_PARENS ∨ t.1 = .WHITESPACE ∨ t.1 = .NEWLINE) := by
      rcases ht with h | h <;> simp [h]
    simp only [List.cons_append, versionSpan, h1, ↓reduceIte, ht, ih', List.map_cons, List.flatten_cons]

/-- `(op T)` in the printer's layout: the tokens after the blank that precedes `(` -/
def vbodyC (op : VC) (T : List Tok) : List Tok :=
  (.L_PARENS, ['(']) :: (opToks op ++ (.WHITESPACE, [' ']) :: (T ++ [(.R_PARENS, [')'])]))

theorem noWs_vtoks (T more : List Tok) (hk : ∀ t ∈ T, t.1 = .IDENT ∨ t.1 = .COLON) :
    NoWs (T ++ (.R_PARENS, [')']) :: more) := by
  cases T with
  | nil => exact noWs_cons _ _ rfl
  | cons t T =>
    rw [List.cons_append]
    apply noWs_cons
    rcases hk t (by simp) with h | h <;> simp [h, isWsKind]

theorem readVersion_vbodyC (op : VC) (T more : List Tok) (w : Str) (v : Version) (hT : VToks w T)
    (hv : Version.parse w = some v) :
    readVersion (vbodyC op T ++ more) = .ok (some (op, v), more) := by
  have e1 : vbodyC op T ++ more = (.L_PARENS, ['(']) ::
      (opToks op ++ ((.WHITESPACE, [' ']) :: (T ++ (.R_PARENS, [')']) :: more))) := by
    simp [vbodyC]
  have s2 : eatWs (opToks op ++ ((Kind.WHITESPACE, [' ']) :: (T ++ (Kind.R_PARENS, [')']) :: more)))
      = opToks op ++ ((Kind.WHITESPACE, [' ']) :: (T ++ (Kind.R_PARENS, [')']) :: more)) :=
    eatWs_noWs _ (opToks_noWs _ _)
  have c := constraintSpan_op op ((Kind.WHITESPACE, [' ']) :: (T ++ (Kind.R_PARENS, [')']) :: more))
    (by intro t ht; simp at ht; subst ht; simp)
  have s3 : eatWs ((Kind.WHITESPACE, [' ']) :: (T ++ (Kind.R_PARENS, [')']) :: more))
      = T ++ (Kind.R_PARENS, [')']) :: more := by
    have := eatWs_ws [(Kind.WHITESPACE, [' '])] (T ++ (Kind.R_PARENS, [')']) :: more)
      (by intro t ht; simp at ht; subst ht; rfl) (noWs_vtoks T more hT.kinds)
    simpa using this
  have s4 : eatWs ((Kind.R_PARENS, [')']) :: more) = (Kind.R_PARENS, [')']) :: more :=
    eatWs_noWs _ (noWs_cons _ _ rfl)
  rw [e1]
  simp [readVersion, s2, c, VC.parse_display, s3, versionSpan_vtoks T more hT.kinds, hT.text, hv, s4]

/-! ### the wider domain -/

/-- the relation without its version constraint -/
def dropVer (r : Lossy.Relation) : Lossy.Relation := { r with version := none }

/-- a version that `Version::from_str` returns for its own printed form (every value that
    `Version::from_str` returns is one: `Version.parse_display_stable`) -/
def validVersionW (v : Version) : Bool := decide (Version.parse v.display = some v)

/-- valid components (`validR`), except that the version need only re-read from its printed form:
    the values `lossy::Relation::from_str` returns -/
def validRW (r : Lossy.Relation) : Bool :=
  validR (dropVer r) && (match r.version with | some (_, v) => validVersionW v | none => true)

def ValidRW (r : Lossy.Relation) : Prop := validRW r = true
instance (r : Lossy.Relation) : Decidable (ValidRW r) := by unfold ValidRW; exact inferInstance

/-- the values `lossy::Relations::from_str` returns: every entry non-empty, every alternative `validRW` -/
def validRWs (rs : List (List Lossy.Relation)) : Bool := rs.all fun e => !e.isEmpty && e.all validRW
def ValidRWs (rs : List (List Lossy.Relation)) : Prop := validRWs rs = true
instance (rs : List (List Lossy.Relation)) : Decidable (ValidRWs rs) := by unfold ValidRWs; exact inferInstance

theorem validRW_iff (r : Lossy.Relation) : validRW r = true ↔
    validR (dropVer r) = true ∧ ∀ c v, r.version = some (c, v) → Version.parse v.display = some v := by
  cases r with
  | mk name aq archs ver profs =>
    rcases ver with _ | ⟨c, v⟩ <;> simp [validRW, validVersionW]

/-- what `validR` asks of a version is more than what `validRW` asks -/
theorem validVersionW_of_validVersion {v : Version} (h : validVersion v = true) : validVersionW v = true := by
  obtain ⟨hok, hval⟩ := (validVersion_iff v).1 h
  have := Version.parse_written _ hok
  rw [versionAOf_str, hval] at this
  simp [validVersionW, this]

theorem validRW_of_validR {r : Lossy.Relation} (h : validR r = true) : validRW r = true := by
  obtain ⟨h1, h2, h3, h4, h5⟩ := (validR_iff r).1 h
  rw [validRW_iff]
  refine ⟨?_, ?_⟩
  · rw [validR_iff]
    exact ⟨h1, h2, by intro c v hv; simp [dropVer] at hv, h4, h5⟩
  · intro c v hv
    have := validVersionW_of_validVersion (h3 c v hv)
    simpa [validVersionW] using this

theorem validRWs_of_validRs {rs : List (List Lossy.Relation)} (h : validRs rs = true) : validRWs rs = true := by
  simp only [validRs, validRWs, List.all_eq_true, Bool.and_eq_true] at h ⊢
  intro e he
  exact ⟨(h e he).1, fun r hr => validRW_of_validR ((h e he).2 r hr)⟩

/-! ### one relation: text, tokens, value -/

def verStrC : Option (VC × Version) → Str
  | none => []
  | some (c, v) => ' ' :: '(' :: (c.display ++ ' ' :: (v.display ++ [')']))

def verToksC (op : VC) (T : List Tok) : List Tok := (.WHITESPACE, [' ']) :: vbodyC op T

/-- the tokens of the printed version block -/
def VTokSpec : Option (VC × Version) → List Tok → Prop
  | none, VT => VT = []
  | some (c, v), VT => ∃ T, VT = verToksC c T ∧ VToks v.display T

theorem showRelation_eq (r : Lossy.Relation) :
    showRelation r = r.name ++ (aqStr r.archqual ++ (verStrC r.version
      ++ (archStr (canonRel r).archs ++ profsStr (canonRel r).profiles))) := by
  rw [← canonRel_str, RelA.str_eq]
  have : verStr (canonRel r).version = verStrC r.version := by
    cases r with
    | mk name aq archs ver profs =>
      rcases ver with _ | ⟨c, v⟩
      · rfl
      · simp [canonRel, verStr, verStrC, VerPart.str, gapStr_sp, gapStr_nil, versionAOf_str]
  rw [this]
  rfl

/-- the brackets of the canonical layout of a `validRW` relation are well formed -/
theorem canonRel_parts_ok (r : Lossy.Relation) (h : validRW r = true) :
    isIdent r.name = true ∧ (∀ a, r.archqual = some a → isIdent a = true)
      ∧ (∀ a, (canonRel r).archs = some a → a.ok = true) ∧ (∀ p ∈ (canonRel r).profiles, p.ok = true) := by
  obtain ⟨h0, _⟩ := (validRW_iff r).1 h
  obtain ⟨h1, h2, _, h4, h5⟩ := (RelA.ok_iff _).1 (canonRel_ok (dropVer r) h0)
  exact ⟨h1, h2, h4, h5⟩

theorem vtext_of_validRW (r : Lossy.Relation) (h : validRW r = true) :
    ∀ c v, r.version = some (c, v) → Version.parse v.display = some v
      ∧ v.display ≠ [] ∧ ∀ x ∈ v.display, isVChar x = true := by
  intro c v hv
  have := ((validRW_iff r).1 h).2 c v hv
  exact ⟨this, Version.parse_vtext this⟩

theorem lex_showRelation (r : Lossy.Relation) (h : validRW r = true) :
    ∃ VT, VTokSpec r.version VT ∧
      lex (showRelation r) = (.IDENT, r.name) :: (aqToks r.archqual ++ (VT
        ++ (archToks (canonRel r).archs ++ profsToks (canonRel r).profiles))) := by
  obtain ⟨h1, h2, h4, h5⟩ := canonRel_parts_ok r h
  have hvt := vtext_of_validRW r h
  rw [showRelation_eq]
  have hn : NI ([] : Str) := headFails_nil _
  have n4 : NI (profsStr (canonRel r).profiles ++ []) := ni_profs _ _ h5 hn
  have n3 : NI (archStr (canonRel r).archs ++ (profsStr (canonRel r).profiles ++ [])) := by
    cases ha : (canonRel r).archs with
    | none => simpa [archStr] using n4
    | some a => simpa [archStr] using ni_bracket '[' ']' a _ (h4 a ha) (by decide)
  have n2 : NI (verStrC r.version ++ (archStr (canonRel r).archs ++ (profsStr (canonRel r).profiles ++ []))) := by
    cases hv : r.version with
    | none => simpa [verStrC] using n3
    | some cv => obtain ⟨c, v⟩ := cv; exact headFails_cons _ _ _ (by decide)
  have n1 : NI (aqStr r.archqual ++ (verStrC r.version ++ (archStr (canonRel r).archs
      ++ (profsStr (canonRel r).profiles ++ [])))) := by
    cases ha : r.archqual with
    | none => simpa [aqStr] using n2
    | some a => exact headFails_cons _ _ _ (by decide)
  have e1 : lex (aqStr r.archqual ++ (verStrC r.version ++ (archStr (canonRel r).archs ++ (profsStr (canonRel r).profiles ++ []))))
      = aqToks r.archqual ++ lex (verStrC r.version ++ (archStr (canonRel r).archs ++ (profsStr (canonRel r).profiles ++ []))) := by
    cases ha : r.archqual with
    | none => simp [aqStr, aqToks]
    | some a =>
      simp only [aqStr, aqToks, List.cons_append, List.nil_append]
      rw [lex_punct ':' .COLON _ (by decide), lex_ident _ _ (h2 a ha) n2]
  have e2 : ∃ VT, VTokSpec r.version VT ∧
      lex (verStrC r.version ++ (archStr (canonRel r).archs ++ (profsStr (canonRel r).profiles ++ [])))
        = VT ++ lex (archStr (canonRel r).archs ++ (profsStr (canonRel r).profiles ++ [])) := by
    cases hv : r.version with
    | none => exact ⟨[], rfl, by simp [verStrC]⟩
    | some cv =>
      obtain ⟨c, v⟩ := cv
      obtain ⟨_, hne, hall⟩ := hvt c v hv
      obtain ⟨T, hT, hV⟩ := lex_vtext v.display
        (')' :: (archStr (canonRel r).archs ++ (profsStr (canonRel r).profiles ++ []))) hall
        (headFails_cons _ _ _ (by decide))
      refine ⟨verToksC c T, ⟨T, rfl, hV⟩, ?_⟩
      have hws : NW (v.display ++ ')' :: (archStr (canonRel r).archs ++ (profsStr (canonRel r).profiles ++ []))) := by
        cases hd : v.display with
        | nil => exact absurd hd hne
        | cons d ds => exact headFails_cons _ _ _ (vchar_not_ws (hall d (by simp [hd])))
      have l1 := lex_ws [' '] ('(' :: (c.display ++ ' ' :: (v.display ++ ')' ::
        (archStr (canonRel r).archs ++ (profsStr (canonRel r).profiles ++ []))))) (by simp)
        (by intro x hx; simp at hx; subst hx; rfl) (headFails_cons _ _ _ (by decide))
      have l2 := lex_ws [' '] (v.display ++ ')' ::
        (archStr (canonRel r).archs ++ (profsStr (canonRel r).profiles ++ []))) (by simp)
        (by intro x hx; simp at hx; subst hx; rfl) hws
      simp only [List.cons_append, List.nil_append] at l1 l2
      simp only [verStrC, verToksC, vbodyC, List.cons_append, List.append_assoc, List.nil_append]
      rw [l1, lex_punct '(' .L_PARENS _ (by decide), lex_op, l2, hT, lex_punct ')' .R_PARENS _ (by decide)]
  have e3 : lex (archStr (canonRel r).archs ++ (profsStr (canonRel r).profiles ++ []))
      = archToks (canonRel r).archs ++ lex (profsStr (canonRel r).profiles ++ []) := by
    cases ha : (canonRel r).archs with
    | none => simp [archStr, archToks]
    | some a =>
      have := lex_bracket .L_BRACKET .R_BRACKET '[' ']' a (profsStr (canonRel r).profiles ++ []) (h4 a ha)
        (by decide) (by decide) (by decide) (by decide) (by decide)
      simpa [archStr, archToks, Bracket.toks, archBody] using this
  obtain ⟨VT, hVT, e2'⟩ := e2
  refine ⟨VT, hVT, ?_⟩
  have e0 : r.name ++ (aqStr r.archqual ++ (verStrC r.version ++ (archStr (canonRel r).archs ++ profsStr (canonRel r).profiles)))
      = r.name ++ (aqStr r.archqual ++ (verStrC r.version ++ (archStr (canonRel r).archs ++ (profsStr (canonRel r).profiles ++ [])))) := by
    simp
  rw [e0, lex_ident _ _ h1 n1, e1, e2', e3, lex_profs _ _ h5, lex_nil, List.append_nil]

/-- the lossy relation reader on the tokens of a printed relation (as `readRelationToks_rel`, with the
    version block generalised to any IDENT / COLON run that `Version.parse` accepts) -/
theorem readRelationToks_W (name : Str) (aq : Option Str) (ver : Option (VC × Version)) (VT : List Tok)
    (a : Option Bracket) (ps : List Bracket) (hVT : VTokSpec ver VT)
    (hver : ∀ c v, ver = some (c, v) → Version.parse v.display = some v) :
    readRelationToks ((.IDENT, name) :: (aqToks aq ++ (VT ++ (archToks a ++ profsToks ps))))
      = .ok ⟨name, aq, a.map fun b => b.items.map Item.text, ver, ps.map fun g => g.items.map Item.profile⟩ := by
  have P3 := lossy_profilesLoop_groups ps
  have H3 := eatWs_profsToks_head ps
  -- architectures
  have A2 : ∃ Y, readArchs (eatWs (archToks a ++ profsToks ps)) = .ok (a.map fun b => b.items.map Item.text, Y)
      ∧ eatWs Y = eatWs (profsToks ps) := by
    cases a with
    | none =>
      refine ⟨eatWs (profsToks ps), ?_, eatWs_idem _⟩
      simp only [archToks, List.nil_append, Option.map_none]
      exact readArchs_none _ (fun t ht e => by have := H3 t ht; rw [this] at e; cases e)
    | some b =>
      refine ⟨profsToks ps, ?_, rfl⟩
      simp only [archToks, List.append_assoc, Option.map_some]
      rw [eatWs_gap _ _ (by rw [archBody, Bracket.body, List.cons_append]; exact noWs_cons _ _ rfl),
        readArchs_archs b _]
  have H2 : ∀ t, (eatWs (archToks a ++ profsToks ps)).head? = some t → t.1 = .L_BRACKET ∨ t.1 = .L_ANGLE := by
    cases a with
    | none => intro t ht; exact Or.inr (H3 t (by simpa [archToks] using ht))
    | some b =>
      simp only [archToks, List.append_assoc]
      rw [eatWs_gap _ _ (by rw [archBody, Bracket.body, List.cons_append]; exact noWs_cons _ _ rfl)]
      intro t ht; simp [archBody, Bracket.body] at ht; subst ht; exact Or.inl rfl
  -- version
  have V1 : ∃ Y, readVersion (eatWs (VT ++ (archToks a ++ profsToks ps))) = .ok (ver, Y)
      ∧ eatWs Y = eatWs (archToks a ++ profsToks ps) := by
    rcases ver with _ | ⟨c, v⟩
    · refine ⟨eatWs (archToks a ++ profsToks ps), ?_, eatWs_idem _⟩
      have : VT = [] := hVT
      subst this
      simp only [List.nil_append]
      exact readVersion_none _ (fun t ht e => by rcases H2 t ht with h | h <;> (rw [h] at e; cases e))
    · obtain ⟨T, rfl, hV⟩ := hVT
      refine ⟨archToks a ++ profsToks ps, ?_, rfl⟩
      have e : eatWs (verToksC c T ++ (archToks a ++ profsToks ps)) = vbodyC c T ++ (archToks a ++ profsToks ps) := by
        have := eatWs_ws [(Kind.WHITESPACE, [' '])] (vbodyC c T ++ (archToks a ++ profsToks ps))
          (by intro t ht; simp at ht; subst ht; rfl)
          (by rw [vbodyC, List.cons_append]; exact noWs_cons _ _ rfl)
        simpa [verToksC] using this
      rw [e, readVersion_vbodyC c T _ v.display v hV (hver c v rfl)]
  have H1 : ∀ t, (eatWs (VT ++ (archToks a ++ profsToks ps))).head? = some t → t.1 ≠ .COLON := by
    rcases ver with _ | ⟨c, v⟩
    · have : VT = [] := hVT
      subst this
      intro t ht e
      rcases H2 t (by simpa using ht) with h | h <;> (rw [h] at e; cases e)
    · obtain ⟨T, rfl, hV⟩ := hVT
      have e : eatWs (verToksC c T ++ (archToks a ++ profsToks ps)) = vbodyC c T ++ (archToks a ++ profsToks ps) := by
        have := eatWs_ws [(Kind.WHITESPACE, [' '])] (vbodyC c T ++ (archToks a ++ profsToks ps))
          (by intro t ht; simp at ht; subst ht; rfl)
          (by rw [vbodyC, List.cons_append]; exact noWs_cons _ _ rfl)
        simpa [verToksC] using this
      rw [e]
      intro t ht; simp [vbodyC] at ht; subst ht; simp
  obtain ⟨Y2, hV, hY2⟩ := V1
  obtain ⟨Y3, hA, hY3⟩ := A2
  -- qualifier
  have A0 : ∃ Y, readArchqual (eatWs (aqToks aq ++ (VT ++ (archToks a ++ profsToks ps)))) = .ok (aq, Y)
      ∧ eatWs Y = eatWs (VT ++ (archToks a ++ profsToks ps)) := by
    cases aq with
    | some q =>
      refine ⟨_, ?_, rfl⟩
      simp [aqToks, eatWs, readArchqual]
    | none =>
      refine ⟨eatWs (VT ++ (archToks a ++ profsToks ps)), ?_, eatWs_idem _⟩
      simp only [aqToks, List.nil_append]
      cases hx : eatWs (VT ++ (archToks a ++ profsToks ps)) with
      | nil => rfl
      | cons t rest =>
        have := H1 t (by rw [hx]; rfl)
        simp [readArchqual, this]
  obtain ⟨Y1, hQ, hY1⟩ := A0
  simp only [readRelationToks, readName, ↓reduceIte, hQ, hY1, hV, hY2, hA, hY3, P3, eatWs]

/-- `lossy::Relation::from_str(&r.to_string()) == Ok(r)` on the wider domain -/
theorem readRelation_show (r : Lossy.Relation) (h : validRW r = true) :
    Lossy.readRelation (showRelation r) = .ok r := by
  obtain ⟨VT, hVT, hlex⟩ := lex_showRelation r h
  obtain ⟨h0, hv⟩ := (validRW_iff r).1 h
  have hview := canonRel_view (dropVer r) h0
  rw [Lossy.readRelation, hlex, readRelationToks_W r.name r.archqual r.version VT _ _ hVT hv]
  have ha : ((canonRel r).archs.map fun b => b.items.map Item.text) = r.architectures :=
    congrArg Lossy.Relation.architectures hview
  have hp : ((canonRel r).profiles.map fun g => g.items.map Item.profile) = r.profiles :=
    congrArg Lossy.Relation.profiles hview
  rw [ha, hp]

/-! ### characters of the printed text -/

/-- not a separator of the field (`,` `|`) and not a line terminator -/
def plainChar (c : Char) : Bool := c != ',' && c != '|' && c != '\n' && c != '\r'
def Plain (s : Str) : Prop := ∀ c ∈ s, plainChar c = true

theorem plain_nil : Plain [] := by intro c hc; simp at hc
theorem plain_append {a b : Str} (ha : Plain a) (hb : Plain b) : Plain (a ++ b) := by
  intro c hc; rcases List.mem_append.1 hc with h | h
  · exact ha c h
  · exact hb c h
theorem plain_cons {c : Char} {s : Str} (hc : plainChar c = true) (hs : Plain s) : Plain (c :: s) := by
  intro x hx; rcases List.mem_cons.1 hx with rfl | h
  · exact hc
  · exact hs x h

theorem plain_join (sep : Str) (l : List Str) (hsep : Plain sep) (hl : ∀ x ∈ l, Plain x) :
    Plain (Text.join sep l) := by
  induction l with
  | nil => exact plain_nil
  | cons x xs ih =>
    cases xs with
    | nil => simpa [Text.join] using hl x (by simp)
    | cons y ys =>
      simp only [Text.join]
      exact plain_append (plain_append (hl x (by simp)) hsep) (ih (fun z hz => hl z (by simp [hz])))

theorem plain_flatten (l : List Str) (hl : ∀ x ∈ l, Plain x) : Plain l.flatten := by
  intro c hc
  obtain ⟨x, hx, hcx⟩ := List.mem_flatten.1 hc
  exact hl x hx c hcx

theorem vchar_plain {c : Char} (h : isVChar c = true) : plainChar c = true := by
  cases hp : plainChar c with
  | true => rfl
  | false =>
    exfalso
    simp only [plainChar, Bool.and_eq_false_iff, bne_eq_false_iff_eq] at hp
    rcases hp with ((rfl | rfl) | rfl) | rfl <;> revert h <;> decide

theorem identChar_plain {c : Char} (h : isIdentChar c = true) : plainChar c = true :=
  vchar_plain (by simp [isVChar, h])

theorem plain_ident {s : Str} (h : isIdent s = true) : Plain s :=
  fun c hc => identChar_plain (((isIdent_iff s).1 h).2 c hc)

theorem plain_op (op : VC) : Plain op.display := by
  cases op <;> (intro c hc; simp [VC.display] at hc; rcases hc with rfl | rfl <;> decide)

/-- components of a `validRW` relation, on the lossy value itself -/
theorem validRW_parts (r : Lossy.Relation) (h : validRW r = true) :
    isIdent r.name = true ∧ (∀ a, r.archqual = some a → isIdent a = true)
      ∧ (∀ as, r.architectures = some as → ∀ a ∈ as, validArch a = true)
      ∧ (∀ g ∈ r.profiles, ∀ p ∈ g, isIdent (profName p) = true) := by
  obtain ⟨h0, _⟩ := (validRW_iff r).1 h
  obtain ⟨h1, h2, _, h4, h5⟩ := (validR_iff _).1 h0
  exact ⟨h1, h2, h4, h5⟩

theorem plain_arch {a : Str} (h : validArch a = true) : Plain a := by
  unfold validArch archItem at h
  split at h
  · rename_i n
    exact plain_cons (by decide) (plain_ident h)
  · exact plain_ident h

theorem plain_profile {p : BuildProfile} (h : isIdent (profName p) = true) : Plain (showProfile p) := by
  cases p with
  | Enabled n => exact plain_ident h
  | Disabled n => exact plain_cons (by decide) (plain_ident h)

theorem plain_showRelation (r : Lossy.Relation) (h : validRW r = true) : Plain (showRelation r) := by
  obtain ⟨h1, h2, h4, h5⟩ := validRW_parts r h
  have hvt := vtext_of_validRW r h
  unfold showRelation
  refine plain_append (plain_append (plain_append (plain_append (plain_ident h1) ?_) ?_) ?_) ?_
  · cases ha : r.archqual with
    | none => exact plain_nil
    | some a => exact plain_cons (by decide) (plain_ident (h2 a ha))
  · cases hv : r.version with
    | none => exact plain_nil
    | some cv =>
      obtain ⟨c, v⟩ := cv
      obtain ⟨_, _, hall⟩ := hvt c v hv
      have hd : Plain v.display := fun x hx => vchar_plain (hall x hx)
      simp only
      exact plain_append (plain_append (plain_append (plain_append (plain_cons (by decide)
        (plain_cons (by decide) plain_nil)) (plain_op c)) (plain_cons (by decide) plain_nil)) hd)
        (plain_cons (by decide) plain_nil)
  · cases ha : r.architectures with
    | none => exact plain_nil
    | some as =>
      simp only
      exact plain_append (plain_append (plain_cons (by decide) (plain_cons (by decide) plain_nil))
        (plain_join _ _ (plain_cons (by decide) plain_nil) (fun a hm => plain_arch (h4 as ha a hm))))
        (plain_cons (by decide) plain_nil)
  · apply plain_flatten
    intro x hx
    obtain ⟨g, hg, rfl⟩ := List.mem_map.1 hx
    refine plain_append (plain_append (plain_cons (by decide) (plain_cons (by decide) plain_nil)) ?_)
      (plain_cons (by decide) plain_nil)
    apply plain_join _ _ (plain_cons (by decide) plain_nil)
    intro y hy
    obtain ⟨p, hp, rfl⟩ := List.mem_map.1 hy
    exact plain_profile (h5 g hg p hp)

theorem plain_not_mem {s : Str} (h : Plain s) : ',' ∉ s ∧ '|' ∉ s ∧ '\n' ∉ s ∧ '\r' ∉ s := by
  refine ⟨?_, ?_, ?_, ?_⟩ <;> (intro hm; have := h _ hm; revert this; decide)

/-! ### `Solid`: starts and ends with a non-blank character -/

theorem endsSolid_right (X Q : Str) (h : EndsSolid (X ++ Q)) (hQ : Q ≠ []) : EndsSolid Q := by
  obtain ⟨i, c, e, hc⟩ := h
  have hq := List.dropLast_concat_getLast hQ
  refine ⟨Q.dropLast, Q.getLast hQ, hq.symm, ?_⟩
  rw [← hq, ← List.append_assoc] at e
  have := List.append_inj_right' e (by simp)
  simp only [List.cons.injEq, and_true] at this
  rw [this]; exact hc

theorem endsSolid_showRelation (r : Lossy.Relation) (h : validRW r = true) : EndsSolid (showRelation r) := by
  obtain ⟨h0, _⟩ := (validRW_iff r).1 h
  have hok0 := canonRel_ok (dropVer r) h0
  have e0 := endsSolid_rel _ hok0
  rw [RelA.str_eq] at e0
  have e0' : EndsSolid ((r.name ++ aqStr r.archqual) ++ (archStr (canonRel r).archs ++ profsStr (canonRel r).profiles)) := by
    have : (canonRel (dropVer r)).version = none := rfl
    rw [this] at e0
    simp only [verStr, List.nil_append] at e0
    rw [List.append_assoc]
    exact e0
  rw [showRelation_eq]
  cases hv : r.version with
  | none => simpa [verStrC, List.append_assoc] using e0'
  | some cv =>
    obtain ⟨c, v⟩ := cv
    by_cases hQ : archStr (canonRel r).archs ++ profsStr (canonRel r).profiles = []
    · rw [hQ]
      refine ⟨r.name ++ (aqStr r.archqual ++ (' ' :: '(' :: (c.display ++ ' ' :: v.display))), ')', ?_, by decide⟩
      simp [verStrC, List.append_assoc]
    · have := endsSolid_right _ _ e0' hQ
      have e : r.name ++ (aqStr r.archqual ++ (verStrC (some (c, v)) ++ (archStr (canonRel r).archs ++ profsStr (canonRel r).profiles)))
          = (r.name ++ (aqStr r.archqual ++ verStrC (some (c, v)))) ++ (archStr (canonRel r).archs ++ profsStr (canonRel r).profiles) := by
        simp [List.append_assoc]
      rw [e]
      exact endsSolid_append _ _ this

theorem solid_showRelation (r : Lossy.Relation) (h : validRW r = true) : Solid (showRelation r) := by
  refine ⟨?_, endsSolid_showRelation r h⟩
  obtain ⟨h1, _⟩ := validRW_parts r h
  obtain ⟨hne, hall⟩ := (isIdent_iff _).1 h1
  rw [showRelation_eq]
  cases hn : r.name with
  | nil => exact absurd hn hne
  | cons c t => exact ⟨c, _, rfl, identChar_not_whitespace (hall c (by simp [hn]))⟩

/-! ### entries and the whole value -/

/-- one entry as the printer writes it: the alternatives joined by ` | ` -/
def showEntry (e : List Lossy.Relation) : Str := Text.join [' ', '|', ' '] (e.map showRelation)

theorem showRelations_eq (rs : List (List Lossy.Relation)) :
    showRelations rs = Text.join [',', ' '] (rs.map showEntry) := rfl

theorem showEntry_single (r : Lossy.Relation) : showEntry [r] = showRelation r := by
  simp [showEntry, Text.join]

theorem showEntry_cons2 (r y : Lossy.Relation) (ys : List Lossy.Relation) :
    showEntry (r :: y :: ys) = showRelation r ++ (gapStr sp ++ '|' :: (gapStr sp ++ showEntry (y :: ys))) := by
  simp [showEntry, Text.join, gapStr_sp]

def AllC (p : Char → Bool) (s : Str) : Prop := ∀ c ∈ s, p c = true

theorem allC_mono {p q : Char → Bool} (h : ∀ c, p c = true → q c = true) {s : Str} (hs : AllC p s) : AllC q s :=
  fun c hc => h c (hs c hc)

theorem allC_append {p : Char → Bool} {a b : Str} (ha : AllC p a) (hb : AllC p b) : AllC p (a ++ b) := by
  intro c hc; rcases List.mem_append.1 hc with h | h
  · exact ha c h
  · exact hb c h

theorem allC_join (p : Char → Bool) (sep : Str) (l : List Str) (hsep : AllC p sep) (hl : ∀ x ∈ l, AllC p x) :
    AllC p (Text.join sep l) := by
  induction l with
  | nil => intro c hc; simp [Text.join] at hc
  | cons x xs ih =>
    cases xs with
    | nil => simpa [Text.join] using hl x (by simp)
    | cons y ys =>
      simp only [Text.join]
      exact allC_append (allC_append (hl x (by simp)) hsep) (ih (fun z hz => hl z (by simp [hz])))

/-- not `,` and not a line terminator: the characters of a printed entry -/
def entryChar (c : Char) : Bool := c != ',' && c != '\n' && c != '\r'
/-- not a line terminator: the characters of a printed field -/
def lineChar (c : Char) : Bool := c != '\n' && c != '\r'

theorem plain_entryChar {c : Char} (h : plainChar c = true) : entryChar c = true := by
  simp only [plainChar, entryChar, Bool.and_eq_true] at h ⊢
  exact ⟨⟨h.1.1.1, h.1.2⟩, h.2⟩

theorem entry_lineChar {c : Char} (h : entryChar c = true) : lineChar c = true := by
  simp only [lineChar, entryChar, Bool.and_eq_true] at h ⊢
  exact ⟨h.1.2, h.2⟩

theorem entryChars_showEntry (e : List Lossy.Relation) (hall : ∀ r ∈ e, validRW r = true) :
    AllC entryChar (showEntry e) := by
  apply allC_join
  · intro c hc; simp at hc; rcases hc with rfl | rfl | rfl <;> decide
  · intro x hx
    obtain ⟨r, hr, rfl⟩ := List.mem_map.1 hx
    exact allC_mono (fun c => plain_entryChar) (plain_showRelation r (hall r hr))

theorem lineChars_showRelations (rs : List (List Lossy.Relation)) (h : validRWs rs = true) :
    AllC lineChar (showRelations rs) := by
  simp only [validRWs, List.all_eq_true, Bool.and_eq_true] at h
  rw [showRelations_eq]
  apply allC_join
  · intro c hc; simp at hc; rcases hc with rfl | rfl <;> decide
  · intro x hx
    obtain ⟨e, he, rfl⟩ := List.mem_map.1 hx
    exact allC_mono (fun c => entry_lineChar) (entryChars_showEntry e (h e he).2)

theorem readAlt_show (g1 g2 : Gap) (h1 : gapOk g1 = true) (h2 : gapOk g2 = true) (r : Lossy.Relation)
    (h : validRW r = true) : readAlt (gapStr g1 ++ (showRelation r ++ gapStr g2)) = .ok r := by
  have ht := trim_solid g1 g2 _ h1 h2 (solid_showRelation r h)
  have hne : (showRelation r).isEmpty = false := by
    obtain ⟨⟨c, t, e, _⟩, _⟩ := solid_showRelation r h
    rw [e]; rfl
  simp [readAlt, ht, hne, readRelation_show r h]

theorem noPipe_piece (g1 g2 : Gap) (h1 : gapOk g1 = true) (h2 : gapOk g2 = true) (r : Lossy.Relation)
    (h : validRW r = true) : '|' ∉ gapStr g1 ++ (showRelation r ++ gapStr g2) := by
  have a := (okStr_not_mem (okStr_gap h1)).2
  have b := (okStr_not_mem (okStr_gap h2)).2
  have c := (plain_not_mem (plain_showRelation r h)).2.1
  simp [a, b, c]

theorem mapM_readAlt_show (g1 : Gap) (hg1 : gapOk g1 = true) (r : Lossy.Relation) (rs : List Lossy.Relation)
    (hall : ∀ x ∈ r :: rs, validRW x = true) :
    (Text.splitOn '|' (gapStr g1 ++ showEntry (r :: rs))).mapM readAlt = .ok (r :: rs) := by
  induction rs generalizing r g1 with
  | nil =>
    have hr := hall r (by simp)
    have hn := noPipe_piece g1 [] hg1 rfl r hr
    have ha := readAlt_show g1 [] hg1 rfl r hr
    simp only [gapStr_nil, List.append_nil] at hn ha
    rw [showEntry_single, splitOn_clean '|' _ hn]
    simp [List.mapM_cons, ha, bind, Except.bind, pure, Except.pure]
  | cons y ys ih =>
    have hr := hall r (by simp)
    have hn := noPipe_piece g1 sp hg1 sp_ok r hr
    have ha := readAlt_show g1 sp hg1 sp_ok r hr
    have := ih sp sp_ok y (fun x hx => hall x (List.mem_cons_of_mem _ hx))
    have e : gapStr g1 ++ showEntry (r :: y :: ys)
        = (gapStr g1 ++ (showRelation r ++ gapStr sp)) ++ '|' :: (gapStr sp ++ showEntry (y :: ys)) := by
      rw [showEntry_cons2]; simp [List.append_assoc]
    rw [e, splitOn_sep '|' _ _ hn]
    simp [List.mapM_cons, ha, this, bind, Except.bind, pure, Except.pure]

theorem endsSolid_showEntry (r : Lossy.Relation) (rs : List Lossy.Relation)
    (hall : ∀ x ∈ r :: rs, validRW x = true) : EndsSolid (showEntry (r :: rs)) := by
  induction rs generalizing r with
  | nil => rw [showEntry_single]; exact endsSolid_showRelation r (hall r (by simp))
  | cons y ys ih =>
    rw [showEntry_cons2]
    have := ih y (fun x hx => hall x (List.mem_cons_of_mem _ hx))
    have e : showRelation r ++ (gapStr sp ++ '|' :: (gapStr sp ++ showEntry (y :: ys)))
        = (showRelation r ++ (gapStr sp ++ '|' :: gapStr sp)) ++ showEntry (y :: ys) := by simp
    rw [e]; exact endsSolid_append _ _ this

theorem solid_showEntry (r : Lossy.Relation) (rs : List Lossy.Relation)
    (hall : ∀ x ∈ r :: rs, validRW x = true) : Solid (showEntry (r :: rs)) := by
  refine ⟨?_, endsSolid_showEntry r rs hall⟩
  obtain ⟨⟨c, t, e, hc⟩, _⟩ := solid_showRelation r (hall r (by simp))
  cases rs with
  | nil => rw [showEntry_single]; exact ⟨c, t, e, hc⟩
  | cons y ys => rw [showEntry_cons2, e]; exact ⟨c, _, rfl, hc⟩

theorem readEntry_show (g : Gap) (hg : gapOk g = true) (e : List Lossy.Relation) (hne : e ≠ [])
    (hall : ∀ x ∈ e, validRW x = true) :
    Lossy.readEntry (gapStr g ++ showEntry e) = .ok (some e) := by
  cases e with
  | nil => exact absurd rfl hne
  | cons r rs =>
    have hs := solid_showEntry r rs hall
    have ht := trim_solid g [] _ hg rfl hs
    simp only [gapStr_nil, List.append_nil] at ht
    have hemp : (showEntry (r :: rs)).isEmpty = false := by
      obtain ⟨⟨c, t, e, _⟩, _⟩ := hs
      rw [e]; rfl
    have hm := mapM_readAlt_show [] rfl r rs hall
    simp only [gapStr_nil, List.nil_append] at hm
    simp only [Lossy.readEntry, ht, hemp, Bool.false_eq_true, ↓reduceIte, hm]

theorem splitOn_comma_join (pre a : Str) (l : List Str) (hpre : ',' ∉ pre) (hall : ∀ x ∈ a :: l, ',' ∉ x) :
    Text.splitOn ',' (pre ++ Text.join [',', ' '] (a :: l)) = (pre ++ a) :: l.map (gapStr sp ++ ·) := by
  induction l generalizing pre a with
  | nil =>
    have : ',' ∉ pre ++ a := by
      have := hall a (by simp)
      simp [hpre, this]
    simpa [Text.join] using splitOn_clean ',' _ this
  | cons b l ih =>
    have hn : ',' ∉ pre ++ a := by
      have := hall a (by simp)
      simp [hpre, this]
    have e : pre ++ Text.join [',', ' '] (a :: b :: l)
        = (pre ++ a) ++ ',' :: (gapStr sp ++ Text.join [',', ' '] (b :: l)) := by
      simp [Text.join, gapStr_sp, List.append_assoc]
    rw [e, splitOn_sep ',' _ _ hn, ih (gapStr sp) b (by rw [gapStr_sp]; decide)
      (fun x hx => hall x (List.mem_cons_of_mem _ hx))]
    simp

/-- **`lossy::Relations::from_str(&rs.to_string()) == Ok(rs)` on the whole range of the reader** -/
theorem readRelations_show (rs : List (List Lossy.Relation)) (h : validRWs rs = true) :
    Lossy.readRelations (showRelations rs) = .ok rs := by
  simp only [validRWs, List.all_eq_true, Bool.and_eq_true, Bool.not_eq_true', List.isEmpty_eq_false_iff] at h
  cases rs with
  | nil => simp [showRelations, Text.join, Lossy.readRelations]
  | cons e es =>
    have hcomma : ∀ x ∈ (e :: es).map showEntry, ',' ∉ x := by
      intro x hx
      obtain ⟨y, hy, rfl⟩ := List.mem_map.1 hx
      intro hm
      have := entryChars_showEntry y (h y hy).2 _ hm
      revert this; decide
    have hsplit := splitOn_comma_join [] (showEntry e) (es.map showEntry) (by simp)
      (by simpa using hcomma)
    simp only [List.nil_append] at hsplit
    have hne : (showRelations (e :: es)).isEmpty = false := by
      rw [showRelations_eq, List.map_cons, Wrap.join_cons]
      cases he : e with
      | nil => exact absurd he (h e (by simp)).1
      | cons r rs =>
        obtain ⟨⟨c, t, ee, _⟩, _⟩ := solid_showEntry r rs (by rw [← he]; exact (h e (by simp)).2)
        rw [ee]; rfl
    have hmap : (showEntry e :: (es.map showEntry).map (gapStr sp ++ ·)).mapM Lossy.readEntry
        = .ok ((e :: es).map some) := by
      have h1 := readEntry_show [] rfl e (h e (by simp)).1 (h e (by simp)).2
      simp only [gapStr_nil, List.nil_append] at h1
      have h2 : ∀ (l : List (List Lossy.Relation)), (∀ x ∈ l, x ≠ [] ∧ ∀ r ∈ x, validRW r = true) →
          ((l.map showEntry).map (gapStr sp ++ ·)).mapM Lossy.readEntry = .ok (l.map some) := by
        intro l hl
        induction l with
        | nil => rfl
        | cons a as ih =>
          have e1 := readEntry_show sp sp_ok a (hl a (by simp)).1 (hl a (by simp)).2
          have e2 := ih (fun x hx => hl x (by simp [hx]))
          rw [List.map_cons, List.map_cons, List.mapM_cons, e1, e2]; rfl
      have := h2 es (fun x hx => h x (by simp [hx]))
      rw [List.mapM_cons, h1, this]; rfl
    have hfm : List.filterMap id ((e :: es).map some) = e :: es := by
      rw [List.filterMap_map]; simp
    rw [showRelations_eq] at hne ⊢
    simp only [Lossy.readRelations, hne, Bool.false_eq_true, ↓reduceIte]
    simp only [List.map_cons] at hsplit hmap ⊢
    rw [hsplit, hmap]
    exact congrArg Except.ok hfm

end Deb822Verif.Rel
