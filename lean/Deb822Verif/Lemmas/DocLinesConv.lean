import Deb822Verif.Lemmas.DocLines
/-!
# Converse of `docOfLines_spec`

If `docOfLines` turns a line list into a well-formed `DocS`, the line list is `LinesWF`. So `LinesWF` is
exactly the set of line lists the bridge maps into the domain of the C03 theorems
(`docOfLines_wf_iff`) — the run-time verdict `wf=1` of the driver, as a predicate on the lines.
-/
namespace Deb822Verif.Spec
open Deb822Verif Deb

/-- all parts of the suffix are valid (the line-validity half of `SInv`) -/
structure Suf.Ok (s : Suf) : Prop where
  conts_ok : ∀ c ∈ s.conts, c.WF
  items_ok : ∀ i ∈ s.items, i.WF
  gaps_ok : ∀ g ∈ s.gaps, g.WF
  paras_ok : ∀ pg ∈ s.paras, pg.1.WF ∧ ∀ g ∈ pg.2, g.WF

theorem closeItems_ok_conv (is : List PItem) (gaps paras)
    (h1 : ∀ g ∈ (closeItems is gaps paras).1, g.WF)
    (h2 : ∀ pg ∈ (closeItems is gaps paras).2, pg.1.WF ∧ ∀ g ∈ pg.2, g.WF) :
    (∀ i ∈ is, i.WF) ∧ (∀ g ∈ gaps, g.WF) ∧ ∀ pg ∈ paras, pg.1.WF ∧ ∀ g ∈ pg.2, g.WF := by
  induction is with
  | nil => exact ⟨by simp, h1, h2⟩
  | cons i is ih =>
    cases i with
    | comment t nl =>
      simp only [closeItems] at h1 h2
      obtain ⟨a, b, c⟩ := ih (fun g hg => h1 g (by simp [hg])) h2
      refine ⟨?_, b, c⟩
      intro x hx
      simp only [List.mem_cons] at hx
      rcases hx with rfl | hx
      · exact h1 (.comment t nl) (by simp)
      · exact a x hx
    | entry e =>
      simp only [closeItems] at h2
      have hp := h2 (⟨e, is⟩, gaps) (by simp)
      refine ⟨?_, hp.2, fun pg hpg => h2 pg (by simp [hpg])⟩
      intro x hx
      simp only [List.mem_cons] at hx
      rcases hx with rfl | hx
      · exact hp.1.first_ok
      · exact hp.1.rest_ok x hx

theorem Suf.cons_ok_conv (l : Line) (nl : Bool) (s s' : Suf) (h : Suf.cons l nl s = some s')
    (hok : s'.Ok) : s.Ok ∧ l.Valid := by
  obtain ⟨conts, items, gaps, paras⟩ := s
  cases l with
  | raw t => simp [Suf.cons] at h
  | blank =>
    cases conts with
    | cons c cs => simp [Suf.cons] at h
    | nil =>
      cases nl with
      | false =>
        simp only [Suf.cons, Bool.false_eq_true, ↓reduceIte, Option.some.injEq] at h
        subst h; exact ⟨hok, trivial⟩
      | true =>
        simp only [Suf.cons, ↓reduceIte, Option.some.injEq] at h
        subst h
        obtain ⟨a, b, c⟩ := closeItems_ok_conv items gaps paras
          (fun g hg => hok.gaps_ok g (by simp [hg])) hok.paras_ok
        exact ⟨⟨by simp, a, b, c⟩, trivial⟩
  | comment t =>
    cases conts with
    | cons c cs => simp [Suf.cons] at h
    | nil =>
      simp only [Suf.cons, Option.some.injEq] at h
      subst h
      exact ⟨⟨by simp, fun i hi => hok.items_ok i (by simp [hi]), hok.gaps_ok, hok.paras_ok⟩,
        hok.items_ok (.comment t nl) (by simp)⟩
  | field k w v =>
    simp only [Suf.cons, Option.some.injEq] at h
    subst h
    have he : EntryS.WF ⟨k, w, v, nl, conts⟩ := hok.items_ok (.entry ⟨k, w, v, nl, conts⟩) (by simp)
    exact ⟨⟨he.conts_ok, fun i hi => hok.items_ok i (by simp [hi]), hok.gaps_ok, hok.paras_ok⟩,
      he.key_ok, he.ws_ok, he.v_ok⟩
  | cont i v =>
    simp only [Suf.cons, Option.some.injEq] at h
    subst h
    have hc : ContS.WF ⟨i, v, nl⟩ := hok.conts_ok ⟨i, v, nl⟩ (by simp)
    exact ⟨⟨fun c hc' => hok.conts_ok c (by simp [hc']), hok.items_ok, hok.gaps_ok, hok.paras_ok⟩,
      hc.indent_ne, hc.indent_ok, hc.text_ok⟩

/-- a blank or comment line cannot be put in front of continuation lines; only a continuation line
    leaves continuation lines at the front -/
theorem Suf.cons_conts (l : Line) (nl : Bool) (s s' : Suf) (h : Suf.cons l nl s = some s') :
    (l.isValue = false → s.conts = []) ∧ (s'.conts ≠ [] → l.isCont = true) := by
  obtain ⟨conts, items, gaps, paras⟩ := s
  cases l with
  | raw t => simp [Suf.cons] at h
  | blank =>
    cases conts with
    | cons c cs => simp [Suf.cons] at h
    | nil =>
      cases nl <;> simp only [Suf.cons, Bool.false_eq_true, ↓reduceIte, Option.some.injEq] at h <;>
        subst h <;> simp
  | comment t =>
    cases conts with
    | cons c cs => simp [Suf.cons] at h
    | nil =>
      simp only [Suf.cons, Option.some.injEq] at h
      subst h; simp
  | field k w v =>
    simp only [Suf.cons, Option.some.injEq] at h
    subst h; simp [Line.isValue]
  | cont i v => simp [Line.isValue, Line.isCont]

theorem sufOfLines_conv (fnl : Bool) : ∀ (ls : List Line) (s : Suf), sufOfLines ls fnl = some s → s.Ok →
    ∀ prev, (s.conts ≠ [] → prev = true) → LinesWFFrom prev ls := by
  intro ls
  induction ls with
  | nil => intro _ _ _ _ _; trivial
  | cons l ls ih =>
    intro s hs hok prev hprev
    rw [sufOfLines] at hs
    cases h0 : sufOfLines ls fnl with
    | none => rw [h0] at hs; simp at hs
    | some s0 =>
      rw [h0] at hs
      simp only [Option.bind_some] at hs
      obtain ⟨hok0, hv⟩ := Suf.cons_ok_conv l _ s0 s hs hok
      obtain ⟨hc1, hc2⟩ := Suf.cons_conts l _ s0 s hs
      refine ⟨hv, fun hc => ?_, ih s0 h0 hok0 l.isValue ?_⟩
      · apply hprev
        cases l <;> simp [Line.isCont] at hc
        simp only [Suf.cons, Option.some.injEq] at hs
        subst hs; simp
      · intro hne
        cases hvl : l.isValue with
        | true => rfl
        | false => exact absurd (hc1 hvl) hne

/-- **converse**: a line list that `docOfLines` turns into a well-formed document is well-formed -/
theorem docOfLines_conv (ls : List Line) (fnl : Bool) (d : DocS) (hd : docOfLines ls fnl = some d)
    (hwf : d.WF) : LinesWF ls := by
  cases hs : sufOfLines ls fnl with
  | none => simp [docOfLines, hs] at hd
  | some s =>
    obtain ⟨conts, items, gaps, paras⟩ := s
    cases conts with
    | cons c cs => simp [docOfLines, hs] at hd
    | nil =>
      simp only [docOfLines, hs, Option.some.injEq] at hd
      subst hd
      obtain ⟨a, b, c⟩ := closeItems_ok_conv items gaps paras hwf.lead_ok hwf.paras_ok
      exact sufOfLines_conv fnl ls _ hs ⟨by simp, a, b, c⟩ false (by simp)

/-- **`LinesWF` is exactly the domain**: a line list is well-formed iff `docOfLines` turns it into a
    well-formed structured document -/
theorem docOfLines_wf_iff (ls : List Line) (fnl : Bool) :
    LinesWF ls ↔ ∃ d, docOfLines ls fnl = some d ∧ d.WF :=
  ⟨fun h => by obtain ⟨d, h1, h2, _⟩ := docOfLines_spec ls fnl h; exact ⟨d, h1, h2⟩,
   fun ⟨d, h1, h2⟩ => docOfLines_conv ls fnl d h1 h2⟩

end Deb822Verif.Spec
