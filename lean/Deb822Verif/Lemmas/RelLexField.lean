import Deb822Verif.Spec.RelGrammar
/-! The relation lexer on a well-formed field: it produces exactly `FieldA.toks` (C10, stage 1). -/
set_option linter.unusedSimpArgs false
set_option linter.unusedVariables false
namespace Deb822Verif.Rel
open Deb822Verif Node RelSpec

/-! ### generic list facts -/

def HeadFails {α} (p : α → Bool) (l : List α) : Prop := ∀ x, l.head? = some x → p x = false

theorem headFails_nil {α} (p : α → Bool) : HeadFails p ([] : List α) := by intro x h; simp at h
theorem headFails_cons {α} (p : α → Bool) (c : α) (r : List α) (h : p c = false) : HeadFails p (c :: r) := by
  intro x hx; simp at hx; subst hx; exact h

theorem takeWhile_app {α} (p : α → Bool) (a tail : List α) (ha : ∀ x ∈ a, p x = true)
    (ht : HeadFails p tail) : (a ++ tail).takeWhile p = a := by
  induction a with
  | nil =>
    cases tail with
    | nil => simp
    | cons x xs => simp [ht x (by simp)]
  | cons x xs ih =>
    simp [ha x (by simp), ih (fun y hy => ha y (by simp [hy]))]

theorem dropWhile_app {α} (p : α → Bool) (a tail : List α) (ha : ∀ x ∈ a, p x = true)
    (ht : HeadFails p tail) : (a ++ tail).dropWhile p = tail := by
  induction a with
  | nil =>
    cases tail with
    | nil => simp
    | cons x xs => simp [ht x (by simp)]
  | cons x xs ih =>
    simp [ha x (by simp), ih (fun y hy => ha y (by simp [hy]))]

/-! ### character classes -/

theorem beq_false_of_class {p : Char → Bool} {c : Char} (hc : p c = true) (d : Char) (hd : p d = false) :
    (c == d) = false := by
  cases h : c == d with
  | false => rfl
  | true => simp at h; subst h; rw [hc] at hd; cases hd

theorem punct_of_identChar {c : Char} (h : isIdentChar c = true) : punct c = none := by
  have e := fun d hd => beq_false_of_class (p := isIdentChar) h d hd
  simp [punct, e ':' (by decide), e '|' (by decide), e ',' (by decide), e '(' (by decide),
    e ')' (by decide), e '[' (by decide), e ']' (by decide), e '!' (by decide), e '$' (by decide),
    e '{' (by decide), e '}' (by decide), e '<' (by decide), e '>' (by decide), e '=' (by decide),
    e '\n' (by decide)]

theorem punct_of_ws {c : Char} (h : isWs c = true) : punct c = none := by
  have e := fun d hd => beq_false_of_class (p := isWs) h d hd
  simp [punct, e ':' (by decide), e '|' (by decide), e ',' (by decide), e '(' (by decide),
    e ')' (by decide), e '[' (by decide), e ']' (by decide), e '!' (by decide), e '$' (by decide),
    e '{' (by decide), e '}' (by decide), e '<' (by decide), e '>' (by decide), e '=' (by decide),
    e '\n' (by decide)]

theorem ws_not_identChar {c : Char} (h : isWs c = true) : isIdentChar c = false := by
  simp only [isWs, Bool.or_eq_true, beq_iff_eq] at h
  rcases h with (rfl | rfl) | rfl <;> decide

theorem identChar_not_ws {c : Char} (h : isIdentChar c = true) : isWs c = false := by
  cases hw : isWs c with
  | false => rfl
  | true => rw [ws_not_identChar hw] at h; cases h

/-! ### single tokens -/

theorem lex_nil : lex [] = [] := by rw [lex]

theorem lex_cons (c : Char) (rest : Str) : lex (c :: rest) = (lexStep c rest).1 :: lex (lexStep c rest).2 := by
  rw [lex]

theorem lex_punct (c : Char) (k : Kind) (rest : Str) (h : punct c = some k) :
    lex (c :: rest) = (k, [c]) :: lex rest := by
  rw [lex_cons]; simp [lexStep, h]

/-- an identifier followed by something that does not continue it -/
theorem lex_ident (s rest : Str) (hs : isIdent s = true) (hr : HeadFails isIdentChar rest) :
    lex (s ++ rest) = (.IDENT, s) :: lex rest := by
  cases s with
  | nil => simp [isIdent] at hs
  | cons c cs =>
    simp only [isIdent, List.isEmpty_cons, Bool.not_false, Bool.true_and, List.all_cons,
      Bool.and_eq_true, List.all_eq_true] at hs
    simp only [List.cons_append]
    rw [lex_cons]
    simp [lexStep, punct_of_identChar hs.1, identChar_not_ws hs.1, hs.1,
      takeWhile_app _ _ _ hs.2 hr, dropWhile_app _ _ _ hs.2 hr]

/-- a whitespace run followed by something that does not continue it -/
theorem lex_ws (s rest : Str) (hne : s ≠ []) (hs : ∀ c ∈ s, isWs c = true) (hr : HeadFails isWs rest) :
    lex (s ++ rest) = (.WHITESPACE, s) :: lex rest := by
  cases s with
  | nil => exact absurd rfl hne
  | cons c cs =>
    have hc := hs c (by simp)
    have hcs : ∀ x ∈ cs, isWs x = true := fun x hx => hs x (by simp [hx])
    simp only [List.cons_append]
    rw [lex_cons]
    simp [lexStep, punct_of_ws hc, hc, takeWhile_app _ _ _ hcs hr, dropWhile_app _ _ _ hcs hr]

/-! ### gaps -/

theorem gapOk_cons_nl {g : Gap} (h : gapOk (.nl :: g) = true) : gapOk g = true := by
  simpa [gapOk] using h

theorem gapOk_cons_ws {s : Str} {g : Gap} (h : gapOk (.ws s :: g) = true) :
    s ≠ [] ∧ (∀ c ∈ s, isWs c = true) ∧ gapOk g = true ∧ (∀ s' g', g ≠ .ws s' :: g') := by
  simp only [gapOk, Bool.and_eq_true, Bool.not_eq_true', List.isEmpty_eq_false_iff, List.all_eq_true] at h
  refine ⟨by simpa using h.1.1.1, h.1.1.2, h.2, ?_⟩
  intro s' g' e; subst e; simp at h

/-- the first character of `gap ++ tail` is a gap character or the first character of `tail` -/
theorem headFails_gap (p : Char → Bool) (g : Gap) (tail : Str) (hg : gapOk g = true)
    (hws : ∀ c, isWs c = true → p c = false) (hnl : p '\n' = false) (ht : HeadFails p tail) :
    HeadFails p (gapStr g ++ tail) := by
  cases g with
  | nil => simpa [gapStr] using ht
  | cons x g =>
    cases x with
    | nl => intro c hc; simp [gapStr, GapPiece.str] at hc; subst hc; exact hnl
    | ws s =>
      obtain ⟨hne, hs, _, _⟩ := gapOk_cons_ws hg
      cases s with
      | nil => exact absurd rfl hne
      | cons a as =>
        intro c hc; simp [gapStr, GapPiece.str] at hc; subst hc
        exact hws _ (hs _ (by simp))

theorem lex_gap (g : Gap) (rest : Str) (hg : gapOk g = true) (hr : HeadFails isWs rest) :
    lex (gapStr g ++ rest) = gapToks g ++ lex rest := by
  induction g with
  | nil => simp [gapStr, gapToks]
  | cons x g ih =>
    cases x with
    | nl =>
      have := ih (gapOk_cons_nl hg)
      simp only [gapStr, gapToks, List.map_cons, List.flatten_cons, GapPiece.str, GapPiece.tok,
        List.cons_append, List.nil_append] at this ⊢
      rw [lex_punct '\n' .NEWLINE _ (by decide), this]
    | ws s =>
      obtain ⟨hne, hs, hg', hnw⟩ := gapOk_cons_ws hg
      have := ih hg'
      simp only [gapStr, gapToks, List.map_cons, List.flatten_cons, GapPiece.str, GapPiece.tok,
        List.cons_append, List.append_assoc] at this ⊢
      rw [lex_ws s _ hne hs, this]
      -- what follows the run does not continue it
      cases g with
      | nil => simpa using hr
      | cons y g' =>
        cases y with
        | nl => intro c hc; simp [GapPiece.str] at hc; subst hc; decide
        | ws s' => exact absurd rfl (hnw s' g')


/-! ### the parts of a relation -/

/-- "not an identifier character next": what every IDENT-final piece needs after it -/
abbrev NI (rest : Str) : Prop := HeadFails isIdentChar rest
/-- "not a whitespace character next": what every gap needs after it -/
abbrev NW (rest : Str) : Prop := HeadFails isWs rest

theorem ni_gap (g : Gap) (tail : Str) (hg : gapOk g = true) (ht : NI tail) : NI (gapStr g ++ tail) :=
  headFails_gap _ g tail hg (fun _ h => ws_not_identChar h) (by decide) ht

theorem isIdent_iff (s : Str) : isIdent s = true ↔ s ≠ [] ∧ ∀ c ∈ s, isIdentChar c = true := by
  cases s <;> simp [isIdent]

theorem nw_ident (s rest : Str) (hs : isIdent s = true) : NW (s ++ rest) := by
  cases s with
  | nil => simp [isIdent] at hs
  | cons c cs =>
    have := ((isIdent_iff _).1 hs).2 c (by simp)
    exact headFails_cons _ _ _ (identChar_not_ws this)

theorem digit_identChar {c : Char} (h : isAsciiDigit c = true) : isIdentChar c = true := by
  simp only [isAsciiDigit, Bool.and_eq_true, decide_eq_true_eq] at h
  simp [isIdentChar, isAsciiAlnum, h.1, h.2]

theorem isIdent_of_digits {s : Str} (h : isDigits s = true) : isIdent s = true := by
  cases s with
  | nil => simp [isDigits] at h
  | cons c cs =>
    simp only [isDigits, List.isEmpty_cons, Bool.not_false, Bool.true_and, List.all_eq_true] at h
    rw [isIdent_iff]
    exact ⟨by simp, fun x hx => digit_identChar (h x hx)⟩

theorem lex_op (op : VC) (rest : Str) : lex (op.display ++ rest) = opToks op ++ lex rest := by
  cases op <;> simp [VC.display, opToks, lex_punct _ _ _ (show punct '>' = some Kind.R_ANGLE by decide),
    lex_punct _ _ _ (show punct '<' = some Kind.L_ANGLE by decide),
    lex_punct _ _ _ (show punct '=' = some Kind.EQUAL by decide)]

theorem nw_op (op : VC) (rest : Str) : NW (op.display ++ rest) := by
  cases op <;> exact headFails_cons _ _ _ (by decide)

theorem VersionA.ok_iff (v : VersionA) : v.ok = true ↔
    isIdent v.first = true ∧ (∀ q ∈ v.more, isIdent q = true)
      ∧ ∀ e, v.epoch = some e → isDigits e = true ∧ digitsVal e < 4294967296 := by
  cases v with
  | mk epoch body => cases epoch <;> simp [VersionA.ok, and_assoc]

@[simp] theorem colonTail_nil : colonTail [] = [] := rfl
@[simp] theorem colonTail_cons (q : Str) (qs : List Str) :
    colonTail (q :: qs) = (.COLON, [':']) :: (.IDENT, q) :: colonTail qs := by simp [colonTail]

/-- the pieces of `splitOn`, each with the separator put back in front -/
theorem splitOn_flatten (sep : Char) (s : Str) :
    ((Text.splitOn sep s).map fun q => sep :: q).flatten = sep :: s := by
  induction s with
  | nil => simp [Text.splitOn]
  | cons c cs ih =>
    by_cases hc : c = sep
    · subst hc; simp [Text.splitOn, ih]
    · simp only [Text.splitOn, hc, ↓reduceIte]
      cases hs : Text.splitOn sep cs with
      | nil => rw [hs] at ih; simp at ih
      | cons l ls => rw [hs] at ih; simpa using ih

/-- the version text is its pieces with a ':' before every piece but the first -/
theorem VersionA.str_eq (v : VersionA) : v.str = v.first ++ (v.more.map fun q => ':' :: q).flatten := by
  cases v with
  | mk epoch body =>
    cases epoch with
    | none => simp [VersionA.str, VersionA.first, VersionA.more]
    | some e => simp [VersionA.str, VersionA.first, VersionA.more, splitOn_flatten]

/-- `:q1:q2…` followed by something that does not continue the last identifier -/
theorem lex_colonTail (qs : List Str) (rest : Str) (hqs : ∀ q ∈ qs, isIdent q = true)
    (hr : HeadFails isIdentChar rest) :
    lex ((qs.map fun q => ':' :: q).flatten ++ rest) = colonTail qs ++ lex rest := by
  induction qs with
  | nil => simp
  | cons q qs ih =>
    have hq := hqs q (by simp)
    have ih' := ih (fun x hx => hqs x (by simp [hx]))
    simp only [colonTail_cons, List.map_cons, List.flatten_cons, List.append_assoc, List.cons_append,
      List.nil_append]
    rw [lex_punct ':' .COLON _ (by decide), lex_ident q _ hq (by
      cases qs with
      | nil => simpa using hr
      | cons q' qs' => exact headFails_cons _ _ _ (by decide)), ih']

theorem headFails_colonTail (p : Char → Bool) (hp : p ':' = false) (qs : List Str) (rest : Str)
    (hr : HeadFails p rest) : HeadFails p ((qs.map fun q => ':' :: q).flatten ++ rest) := by
  cases qs with
  | nil => simpa using hr
  | cons q qs => exact headFails_cons _ _ _ hp

theorem lex_version (v : VersionA) (rest : Str) (hv : v.ok = true) (hr : NI rest) :
    lex (v.str ++ rest) = v.toks ++ lex rest := by
  obtain ⟨hb, hm, _⟩ := (VersionA.ok_iff v).1 hv
  rw [VersionA.str_eq, List.append_assoc,
    lex_ident _ _ hb (headFails_colonTail _ (by decide) _ _ hr), lex_colonTail _ _ hm hr]
  simp [VersionA.toks]

theorem nw_version (v : VersionA) (rest : Str) (hv : v.ok = true) : NW (v.str ++ rest) := by
  obtain ⟨hb, _, _⟩ := (VersionA.ok_iff v).1 hv
  rw [VersionA.str_eq, List.append_assoc]
  exact nw_ident _ _ hb

theorem VerPart.ok_iff (p : VerPart) : p.ok = true ↔
    gapOk p.pre = true ∧ gapOk p.g2 = true ∧ gapOk p.g3 = true ∧ gapOk p.g4 = true ∧ p.ver.ok = true := by
  simp [VerPart.ok, and_assoc]

theorem lex_verPart (p : VerPart) (rest : Str) (hp : p.ok = true) :
    lex (p.str ++ rest) = p.toks ++ lex rest := by
  obtain ⟨h1, h2, h3, h4, hv⟩ := (VerPart.ok_iff p).1 hp
  simp only [VerPart.str, VerPart.toks, VerPart.inner, List.append_assoc, List.cons_append,
    List.nil_append]
  rw [lex_gap _ _ h1 (headFails_cons _ _ _ (by decide)), lex_punct '(' .L_PARENS _ (by decide),
    lex_gap _ _ h2 (nw_op _ _), lex_op, lex_gap _ _ h3 (nw_version _ _ hv),
    lex_version _ _ hv (ni_gap _ _ h4 (headFails_cons _ _ _ (by decide))),
    lex_gap _ _ h4 (headFails_cons _ _ _ (by decide)), lex_punct ')' .R_PARENS _ (by decide)]

theorem ni_verPart (p : VerPart) (rest : Str) (hp : p.ok = true) : NI (p.str ++ rest) := by
  obtain ⟨h1, _⟩ := (VerPart.ok_iff p).1 hp
  simp only [VerPart.str, List.append_assoc, List.cons_append]
  exact ni_gap _ _ h1 (headFails_cons _ _ _ (by decide))

/-! terms and brackets -/

theorem Item.ok_iff (i : Item) : i.ok = true ↔ gapOk i.gap = true ∧ isIdent i.name = true := by
  simp [Item.ok]

theorem lex_item (i : Item) (rest : Str) (hi : i.ok = true) (hr : NI rest) :
    lex (i.str ++ rest) = i.toks ++ lex rest := by
  obtain ⟨hg, hn⟩ := (Item.ok_iff i).1 hi
  cases hneg : i.neg with
  | false =>
    simp only [Item.str, Item.text, Item.toks, hneg, List.append_assoc, List.nil_append,
      Bool.false_eq_true, ↓reduceIte, List.cons_append]
    rw [lex_gap _ _ hg (nw_ident _ _ hn), lex_ident _ _ hn hr]
  | true =>
    simp only [Item.str, Item.text, Item.toks, hneg, List.append_assoc, List.nil_append,
      ↓reduceIte, List.cons_append]
    rw [lex_gap _ _ hg (headFails_cons _ _ _ (by decide)), lex_punct '!' .NOT _ (by decide),
      lex_ident _ _ hn hr]

theorem ni_item_of_gap (i : Item) (rest : Str) (hi : i.ok = true) (hg : i.gap.isEmpty = false) :
    NI (i.str ++ rest) := by
  obtain ⟨hgo, _⟩ := (Item.ok_iff i).1 hi
  cases hgp : i.gap with
  | nil => simp [hgp] at hg
  | cons x g =>
    simp only [Item.str, List.append_assoc]
    rw [hgp] at hgo
    cases x with
    | nl => intro c hc; simp [hgp, gapStr, GapPiece.str] at hc; subst hc; decide
    | ws s =>
      obtain ⟨hne, hs, _, _⟩ := gapOk_cons_ws hgo
      cases s with
      | nil => exact absurd rfl hne
      | cons a as =>
        intro c hc; simp [hgp, gapStr, GapPiece.str] at hc; subst hc
        exact ws_not_identChar (hs _ (by simp))

def itemsStr (is : List Item) : Str := (is.map Item.str).flatten

theorem lex_items (is : List Item) (rest : Str) (hok : ∀ i ∈ is, i.ok = true)
    (hl : laterGapsOk is = true) (hr : NI rest) :
    lex (itemsStr is ++ rest) = itemsToks is ++ lex rest := by
  induction is with
  | nil => simp [itemsStr, itemsToks]
  | cons i is ih =>
    have hi := hok i (by simp)
    have hok' : ∀ j ∈ is, j.ok = true := fun j hj => hok j (by simp [hj])
    simp only [laterGapsOk, List.all_eq_true, Bool.not_eq_true'] at hl
    simp only [itemsStr, itemsToks, List.map_cons, List.flatten_cons, List.append_assoc] at ih ⊢
    cases is with
    | nil => simpa [itemsStr, itemsToks] using lex_item i rest hi hr
    | cons j js =>
      have hj := hl j (by simp)
      have hl' : laterGapsOk (j :: js) = true := by
        simp only [laterGapsOk, List.all_eq_true, Bool.not_eq_true']
        exact fun x hx => hl x (by simp [hx])
      rw [lex_item i _ hi (by
        simpa [List.append_assoc] using ni_item_of_gap j ((js.map Item.str).flatten ++ rest) (hok' j (by simp)) hj)]
      rw [ih hok' hl']

theorem Bracket.ok_iff (b : Bracket) : b.ok = true ↔
    gapOk b.pre = true ∧ gapOk b.post = true ∧ (∀ i ∈ b.items, i.ok = true)
      ∧ laterGapsOk b.items = true := by
  simp [Bracket.ok, and_assoc]

theorem lex_bracket (ok ck : Kind) (o c : Char) (b : Bracket) (rest : Str) (hb : b.ok = true)
    (ho : punct o = some ok) (hc : punct c = some ck) (hcw : isWs c = false) (hci : isIdentChar c = false)
    (how : isWs o = false) :
    lex (b.str o c ++ rest) = b.toks ok ck o c ++ lex rest := by
  obtain ⟨h1, h2, h4, h5⟩ := (Bracket.ok_iff b).1 hb
  simp only [Bracket.str, Bracket.toks, Bracket.body, List.append_assoc, List.cons_append, List.nil_append]
  rw [lex_gap _ _ h1 (headFails_cons _ _ _ how), lex_punct o ok _ ho]
  have := lex_items b.items (gapStr b.post ++ c :: rest) h4 h5 (ni_gap _ _ h2 (headFails_cons _ _ _ hci))
  simp only [itemsStr] at this
  rw [this, lex_gap _ _ h2 (headFails_cons _ _ _ hcw), lex_punct c ck _ hc]

theorem ni_bracket (o c : Char) (b : Bracket) (rest : Str) (hb : b.ok = true) (hoi : isIdentChar o = false) :
    NI (b.str o c ++ rest) := by
  obtain ⟨h1, _⟩ := (Bracket.ok_iff b).1 hb
  simp only [Bracket.str, List.append_assoc, List.cons_append]
  exact ni_gap _ _ h1 (headFails_cons _ _ _ hoi)


/-! ### relations, alternatives, entries -/

def aqStr (a : Option Str) : Str := match a with | some a => ':' :: a | none => []
def aqToks (a : Option Str) : List Tok := match a with | some a => [(.COLON, [':']), (.IDENT, a)] | none => []
def verStr (v : Option VerPart) : Str := match v with | some v => v.str | none => []
def verToks (v : Option VerPart) : List Tok := match v with | some v => v.toks | none => []
def archStr (a : Option Bracket) : Str := match a with | some a => a.str '[' ']' | none => []
def archToks (a : Option Bracket) : List Tok := match a with | some a => gapToks a.pre ++ archBody a | none => []
def profsStr (ps : List Bracket) : Str := (ps.map (Bracket.str '<' '>')).flatten
def profsToks (ps : List Bracket) : List Tok := (ps.map fun p => gapToks p.pre ++ profBody p).flatten

theorem RelA.str_eq (r : RelA) :
    r.str = r.name ++ (aqStr r.archqual ++ (verStr r.version ++ (archStr r.archs ++ profsStr r.profiles))) := by
  cases r with
  | mk n aq v a p => cases aq <;> cases v <;> cases a <;> simp [RelA.str, aqStr, verStr, archStr, profsStr]

theorem RelA.toks_eq (r : RelA) :
    r.toks = (.IDENT, r.name) :: (aqToks r.archqual ++ (verToks r.version ++ (archToks r.archs ++ profsToks r.profiles))) := by
  cases r with
  | mk n aq v a p => cases aq <;> cases v <;> cases a <;> simp [RelA.toks, aqToks, verToks, archToks, profsToks]

theorem RelA.ok_iff (r : RelA) : r.ok = true ↔
    isIdent r.name = true ∧ (∀ a, r.archqual = some a → isIdent a = true)
      ∧ (∀ v, r.version = some v → v.ok = true) ∧ (∀ a, r.archs = some a → a.ok = true)
      ∧ (∀ p ∈ r.profiles, p.ok = true) := by
  cases r with
  | mk name aq ver archs profs =>
    cases aq <;> cases ver <;> cases archs <;> simp [RelA.ok, and_assoc]

theorem lex_profs (ps : List Bracket) (rest : Str) (h : ∀ p ∈ ps, p.ok = true) :
    lex (profsStr ps ++ rest) = profsToks ps ++ lex rest := by
  induction ps with
  | nil => simp [profsStr, profsToks]
  | cons p ps ih =>
    have := lex_bracket .L_ANGLE .R_ANGLE '<' '>' p (profsStr ps ++ rest) (h p (by simp))
      (by decide) (by decide) (by decide) (by decide) (by decide)
    simp only [profsStr, profsToks, List.map_cons, List.flatten_cons, List.append_assoc] at ih this ⊢
    rw [this, ih (fun q hq => h q (by simp [hq]))]
    simp [Bracket.toks, profBody]

theorem ni_profs (ps : List Bracket) (rest : Str) (h : ∀ p ∈ ps, p.ok = true) (hr : NI rest) :
    NI (profsStr ps ++ rest) := by
  cases ps with
  | nil => simpa [profsStr] using hr
  | cons p ps =>
    simp only [profsStr, List.map_cons, List.flatten_cons, List.append_assoc]
    exact ni_bracket _ _ p _ (h p (by simp)) (by decide)

theorem lex_rel (r : RelA) (rest : Str) (hr : r.ok = true) (hn : NI rest) :
    lex (r.str ++ rest) = r.toks ++ lex rest := by
  obtain ⟨h1, h2, h3, h4, h5⟩ := (RelA.ok_iff r).1 hr
  rw [RelA.str_eq, RelA.toks_eq]
  simp only [List.append_assoc, List.cons_append]
  have n4 : NI (profsStr r.profiles ++ rest) := ni_profs _ _ h5 hn
  have n3 : NI (archStr r.archs ++ (profsStr r.profiles ++ rest)) := by
    cases ha : r.archs with
    | none => simpa [archStr] using n4
    | some a => simpa [archStr] using ni_bracket '[' ']' a _ (h4 a ha) (by decide)
  have n2 : NI (verStr r.version ++ (archStr r.archs ++ (profsStr r.profiles ++ rest))) := by
    cases hv : r.version with
    | none => simpa [verStr] using n3
    | some v => simpa [verStr] using ni_verPart v _ (h3 v hv)
  have n1 : NI (aqStr r.archqual ++ (verStr r.version ++ (archStr r.archs ++ (profsStr r.profiles ++ rest)))) := by
    cases ha : r.archqual with
    | none => simpa [aqStr] using n2
    | some a => exact headFails_cons _ _ _ (by decide)
  rw [lex_ident _ _ h1 n1]
  congr 1
  -- archqual
  have e1 : lex (aqStr r.archqual ++ (verStr r.version ++ (archStr r.archs ++ (profsStr r.profiles ++ rest))))
      = aqToks r.archqual ++ lex (verStr r.version ++ (archStr r.archs ++ (profsStr r.profiles ++ rest))) := by
    cases ha : r.archqual with
    | none => simp [aqStr, aqToks]
    | some a =>
      simp only [aqStr, aqToks, List.cons_append, List.nil_append]
      rw [lex_punct ':' .COLON _ (by decide), lex_ident _ _ (h2 a ha) n2]
  have e2 : lex (verStr r.version ++ (archStr r.archs ++ (profsStr r.profiles ++ rest)))
      = verToks r.version ++ lex (archStr r.archs ++ (profsStr r.profiles ++ rest)) := by
    cases hv : r.version with
    | none => simp [verStr, verToks]
    | some v => simpa [verStr, verToks] using lex_verPart v _ (h3 v hv)
  have e3 : lex (archStr r.archs ++ (profsStr r.profiles ++ rest))
      = archToks r.archs ++ lex (profsStr r.profiles ++ rest) := by
    cases ha : r.archs with
    | none => simp [archStr, archToks]
    | some a =>
      have := lex_bracket .L_BRACKET .R_BRACKET '[' ']' a (profsStr r.profiles ++ rest) (h4 a ha)
        (by decide) (by decide) (by decide) (by decide) (by decide)
      simpa [archStr, archToks, Bracket.toks, archBody] using this
  rw [e1, e2, e3, lex_profs _ _ h5]

theorem AltA.ok_iff (a : AltA) : a.ok = true ↔ gapOk a.gb = true ∧ gapOk a.ga = true ∧ a.rel.ok = true := by
  simp [AltA.ok, and_assoc]

theorem lex_alt (a : AltA) (rest : Str) (ha : a.ok = true) (hn : NI rest) :
    lex (a.str ++ rest) = a.toks ++ lex rest := by
  obtain ⟨h1, h2, h3⟩ := (AltA.ok_iff a).1 ha
  have hname := ((RelA.ok_iff a.rel).1 h3).1
  simp only [AltA.str, AltA.toks, List.append_assoc, List.cons_append]
  rw [lex_gap _ _ h1 (headFails_cons _ _ _ (by decide)), lex_punct '|' .PIPE _ (by decide),
    lex_gap _ _ h2 (by rw [RelA.str_eq]; simpa [List.append_assoc] using nw_ident a.rel.name _ hname),
    lex_rel _ _ h3 hn]

theorem ni_alt (a : AltA) (rest : Str) (ha : a.ok = true) : NI (a.str ++ rest) := by
  obtain ⟨h1, _, _⟩ := (AltA.ok_iff a).1 ha
  simp only [AltA.str, List.append_assoc, List.cons_append]
  exact ni_gap _ _ h1 (headFails_cons _ _ _ (by decide))

def altsStr (as : List AltA) : Str := (as.map AltA.str).flatten
def altsToks (as : List AltA) : List Tok := (as.map AltA.toks).flatten

theorem lex_alts (as : List AltA) (rest : Str) (h : ∀ a ∈ as, a.ok = true) (hn : NI rest) :
    lex (altsStr as ++ rest) = altsToks as ++ lex rest := by
  induction as with
  | nil => simp [altsStr, altsToks]
  | cons a as ih =>
    have ha := h a (by simp)
    have h' : ∀ b ∈ as, b.ok = true := fun b hb => h b (by simp [hb])
    simp only [altsStr, altsToks, List.map_cons, List.flatten_cons, List.append_assoc] at ih ⊢
    have hn' : NI ((as.map AltA.str).flatten ++ rest) := by
      cases as with
      | nil => simpa using hn
      | cons b bs =>
        simp only [List.map_cons, List.flatten_cons, List.append_assoc]
        exact ni_alt b _ (h' b (by simp))
    rw [lex_alt a _ ha hn', ih h']

theorem ni_alts (as : List AltA) (rest : Str) (h : ∀ a ∈ as, a.ok = true) (hn : NI rest) :
    NI (altsStr as ++ rest) := by
  cases as with
  | nil => simpa [altsStr] using hn
  | cons b bs =>
    simp only [altsStr, List.map_cons, List.flatten_cons, List.append_assoc]
    exact ni_alt b _ (h b (by simp))

theorem lex_substvar (p : Str) (ps : List Str) (rest : Str) (hp : isIdent p = true)
    (hps : ∀ q ∈ ps, isIdent q = true) :
    lex ((EntryA.substvar p ps).str ++ rest) = substvarToks p ps ++ lex rest := by
  have key : ∀ (qs : List Str), (∀ q ∈ qs, isIdent q = true) →
      lex ((qs.map fun q => ':' :: q).flatten ++ '}' :: rest)
        = (qs.map fun q => [(Kind.COLON, [':']), (Kind.IDENT, q)]).flatten ++ (.R_CURLY, ['}']) :: lex rest := by
    intro qs hqs
    induction qs with
    | nil => simp [lex_punct '}' .R_CURLY _ (by decide)]
    | cons q qs ih =>
      have hq := hqs q (by simp)
      simp only [List.map_cons, List.flatten_cons, List.append_assoc, List.cons_append, List.nil_append]
      rw [lex_punct ':' .COLON _ (by decide), lex_ident q _ hq (by
        cases qs with
        | nil => exact headFails_cons _ _ _ (by decide)
        | cons q' qs' => exact headFails_cons _ _ _ (by decide)),
        ih (fun x hx => hqs x (by simp [hx]))]
  simp only [EntryA.str, substvarToks, List.append_assoc, List.cons_append, List.nil_append]
  rw [lex_punct '$' .DOLLAR _ (by decide), lex_punct '{' .L_CURLY _ (by decide),
    lex_ident p _ hp (by
      cases ps with
      | nil => exact headFails_cons _ _ _ (by decide)
      | cons q qs => exact headFails_cons _ _ _ (by decide)),
    key ps hps]

/-- what may follow a segment: nothing, or the comma that separates it from the next one -/
def SegEnd (rest : Str) : Prop := rest = [] ∨ ∃ r, rest = ',' :: r

theorem segEnd_ni {rest} (h : SegEnd rest) : NI rest := by
  rcases h with rfl | ⟨r, rfl⟩
  · exact headFails_nil _
  · exact headFails_cons _ _ _ (by decide)

theorem segEnd_nw {rest} (h : SegEnd rest) : NW rest := by
  rcases h with rfl | ⟨r, rfl⟩
  · exact headFails_nil _
  · exact headFails_cons _ _ _ (by decide)

theorem Seg.ok_iff (s : Seg) : s.ok = true ↔
    gapOk s.pre = true ∧ gapOk s.post = true ∧ s.entry.ok = true ∧ (s.entry.isEmpty = true → s.post = []) := by
  simp [Seg.ok, and_assoc]
  intro _ _ _
  cases s.entry.isEmpty <;> simp

theorem lex_seg (s : Seg) (rest : Str) (hs : s.ok = true) (hr : SegEnd rest) :
    lex (s.str ++ rest) = s.toks ++ lex rest := by
  obtain ⟨h1, h2, h3, h4⟩ := (Seg.ok_iff s).1 hs
  have hpost : lex (gapStr s.post ++ rest) = gapToks s.post ++ lex rest := lex_gap _ _ h2 (segEnd_nw hr)
  have nipost : NI (gapStr s.post ++ rest) := ni_gap _ _ h2 (segEnd_ni hr)
  simp only [Seg.str, Seg.toks, List.append_assoc]
  cases he : s.entry with
  | empty =>
    have : s.post = [] := h4 (by simp [he, EntryA.isEmpty])
    simp only [this, EntryA.str, EntryA.toks, gapStr, gapToks, List.map_nil, List.flatten_nil,
      List.nil_append]
    exact lex_gap _ _ h1 (segEnd_nw hr)
  | substvar p ps =>
    rw [he] at h3
    simp only [EntryA.ok, Bool.and_eq_true, List.all_eq_true] at h3
    have nw : NW ((EntryA.substvar p ps).str ++ (gapStr s.post ++ rest)) := by
      simp only [EntryA.str, List.cons_append]; exact headFails_cons _ _ _ (by decide)
    rw [lex_gap _ _ h1 nw, lex_substvar p ps _ h3.1 h3.2, hpost]
    simp [EntryA.toks]
  | alts r as =>
    rw [he] at h3
    simp only [EntryA.ok, Bool.and_eq_true, List.all_eq_true] at h3
    have hname := ((RelA.ok_iff r).1 h3.1).1
    have e : (EntryA.alts r as).str = r.str ++ altsStr as := by simp [EntryA.str, altsStr]
    have e2 : (EntryA.alts r as).toks = r.toks ++ altsToks as := by simp [EntryA.toks, altsToks]
    rw [e, e2]
    simp only [List.append_assoc]
    rw [lex_gap _ _ h1 (by rw [RelA.str_eq]; simpa [List.append_assoc] using nw_ident r.name _ hname),
      lex_rel r _ h3.1 (ni_alts as _ h3.2 nipost), lex_alts as _ h3.2 nipost, hpost]

def segsStr (ss : List Seg) : Str := Text.join [','] (ss.map Seg.str)

theorem lex_segs (ss : List Seg) (h : ∀ s ∈ ss, s.ok = true) : lex (segsStr ss) = segsToks ss := by
  induction ss with
  | nil => simp [segsStr, Text.join, segsToks, lex_nil]
  | cons s ss ih =>
    have hs := h s (by simp)
    cases ss with
    | nil =>
      have := lex_seg s [] hs (Or.inl rfl)
      simpa [segsStr, Text.join, segsToks, lex_nil] using this
    | cons t ts =>
      have ih' := ih (fun x hx => h x (by simp [hx]))
      have := lex_seg s (',' :: segsStr (t :: ts)) hs (Or.inr ⟨_, rfl⟩)
      simp only [segsStr, List.map_cons, Text.join, segsToks, List.append_assoc, List.cons_append,
        List.nil_append] at this ih' ⊢
      rw [this, lex_punct ',' .COMMA _ (by decide), ih']
      rfl

/-- C10 stage 1: the lexer inverts the rendering of a well-formed field -/
theorem lex_field (f : FieldA) (h : f.WF) : lex f.str = f.toks := by
  have : ∀ s ∈ f.segs, s.ok = true := by
    simpa [FieldA.WF, FieldA.ok, List.all_eq_true] using h
  exact lex_segs f.segs this

end Deb822Verif.Rel
