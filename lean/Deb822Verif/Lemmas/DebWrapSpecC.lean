import Deb822Verif.Lemmas.DebWrapFmtFixed
/-!
  Fields with comment lines inside the value (`A: b⏎ #c⏎ d`: an indented `#` line between
  continuation lines — outside `Spec/DocS.lean`, whose continuation lines are value lines only).
  `EntryC` is `EntryS` with continuation lines that are value lines or comment lines; this file
  computes `entryWrap` (no formatter) on its node: again the node of such a field, fully terminated,
  same name, same lines (values and comments, in order). The case repaired in abfd7c8 — the first
  line is a comment — comes out on a line of its own.
-/
namespace Deb822Verif.Spec
open Deb822Verif Deb Node

/-- continuation line: value text, or comment text (`#…`) -/
structure ContC where
  indent : Str
  text : Str
  nl : Bool
  isC : Bool
  deriving Repr, DecidableEq

def ContC.kind (c : ContC) : Kind := if c.isC then .COMMENT else .VALUE
def ContC.tok (c : ContC) : Tok := (c.kind, c.text)
def ContC.toks (c : ContC) : List Tok := (.INDENT, c.indent) :: c.tok :: nlTok c.nl
def ContC.str (c : ContC) : Str := c.indent ++ c.text ++ nlText c.nl

structure ContC.WF (c : ContC) : Prop where
  indent_ne : c.indent ≠ []
  indent_ok : AllIndent c.indent
  text_ok : if c.isC then (∃ t, c.text = '#' :: t ∧ NoNl t) else ValidCont c.text

structure EntryC where
  key : Str
  ws : Str
  v : Str
  nl : Bool
  conts : List ContC
  deriving Repr, DecidableEq

def contsToksC (cs : List ContC) : List Tok := (cs.map ContC.toks).flatten
def EntryC.tailToks (e : EntryC) : List Tok :=
  optTok .WHITESPACE e.ws ++ optTok .VALUE e.v ++ nlTok e.nl ++ contsToksC e.conts
def EntryC.toks (e : EntryC) : List Tok := (.KEY, e.key) :: (.COLON, [':']) :: e.tailToks
def EntryC.node (e : EntryC) : DNode := .node .ENTRY (e.toks.map tk)
def EntryC.str (e : EntryC) : Str :=
  e.key ++ ':' :: (e.ws ++ e.v ++ nlText e.nl) ++ (e.conts.map ContC.str).flatten

structure EntryC.WF (e : EntryC) : Prop where
  key_ok : ValidKey e.key
  ws_ok : AllIndent e.ws
  v_ok : ValidFirst e.v
  conts_ok : ∀ c ∈ e.conts, c.WF

/-- a line may lack its terminator only if it is the last one -/
def contsTermC : List ContC → Prop
  | [] => True
  | c :: cs => (c.nl = true ∨ cs = []) ∧ contsTermC cs
def EntryC.Term (e : EntryC) : Prop := (e.nl = true ∨ e.conts = []) ∧ contsTermC e.conts
def EntryC.TermAll (e : EntryC) : Prop := e.nl = true ∧ ∀ c ∈ e.conts, c.nl = true

/-- the lines of the value as tokens: the first-line text (if any), then every continuation line -/
def EntryC.lineToks (e : EntryC) : List Tok :=
  (if e.v = [] then [] else [(Kind.VALUE, e.v)]) ++ e.conts.map ContC.tok

/-- the value lines / the comment lines -/
def EntryC.valueLines (e : EntryC) : List Str := (e.lineToks.filter fun t => t.1 == .VALUE).map (·.2)
def EntryC.commentLines (e : EntryC) : List Str := (e.lineToks.filter fun t => t.1 == .COMMENT).map (·.2)

end Deb822Verif.Spec

namespace Deb822Verif.Deb
open Deb822Verif Node Spec

/-- tokens separated by NEWLINE tokens -/
def joinNLk : List Tok → List Tok
  | [] => []
  | [t] => [t]
  | t :: u :: ts => t :: (.NEWLINE, ['\n']) :: joinNLk (u :: ts)

def mkContK (ind : Nat) (t : Tok) : ContC := ⟨List.replicate ind ' ', t.2, true, t.1 == .COMMENT⟩

/-- VALUE or COMMENT -/
def LineTok (t : Tok) : Prop := t.1 = .VALUE ∨ t.1 = .COMMENT

def headIsComment : List Tok → Bool
  | t :: _ => t.1 == .COMMENT
  | [] => false

def headIsHash : List Tok → Bool
  | t :: _ => !(t.1 == .COMMENT) && t.2.head? == some '#'
  | [] => false

end Deb822Verif.Deb

namespace Deb822Verif.Spec
open Deb822Verif Deb Node

/-- the content tokens `Entry::wrap_and_sort` collects -/
def EntryC.cts (e : EntryC) : List Tok :=
  if e.conts = [] then (if e.v = [] then [] else optTok .WHITESPACE e.ws ++ [(.VALUE, e.v)])
  else optTok .WHITESPACE e.ws ++ optTok .VALUE e.v ++ (.NEWLINE, ['\n']) :: joinNLk (e.conts.map ContC.tok)

def indOfC (cfg : WrapCfg) (e : EntryC) : Nat :=
  match cfg.indentation with
  | .spaces n => n
  | .fieldNameLength => utf8Len e.key

/-- the first line of the value is a comment line -/
def EntryC.firstIsComment (e : EntryC) : Bool := headIsComment e.lineToks

/-- wrap-and-sort of one field with comment lines, on the specification side -/
def EntryC.wrap (cfg : WrapCfg) (e : EntryC) : EntryC :=
  if rbFits e.cts (utf8Len e.key) cfg.maxLineLengthOneLiner && e.conts.isEmpty then
    { key := e.key, ws := if e.v = [] then [] else e.ws, v := e.v, nl := true, conts := [] }
  else if e.firstIsComment || (cfg.immediateEmptyLine && !e.conts.isEmpty && !(e.v.head? == some '#')) then
    { key := e.key, ws := [], v := [], nl := true, conts := e.lineToks.map (mkContK (indOfC cfg e)) }
  else
    match e.lineToks with
    | [] => { key := e.key, ws := [' '], v := [], nl := true, conts := [] }
    | l :: ls => { key := e.key, ws := [' '], v := l.2, nl := true, conts := ls.map (mkContK (indOfC cfg e)) }

theorem EntryC.toks_eq (e : EntryC) : e.toks = (.KEY, e.key) :: (.COLON, [':']) :: e.tailToks := rfl

end Deb822Verif.Spec

namespace Deb822Verif.Deb
open Deb822Verif Node Spec

/-! ### token kinds -/

theorem contC_kind (c : ContC) : LineTok c.tok := by
  unfold LineTok ContC.tok ContC.kind; cases c.isC <;> simp

theorem mem_contsToksC {cs : List ContC} {t : Tok} (h : t ∈ contsToksC cs) :
    t.1 = .INDENT ∨ t.1 = .VALUE ∨ t.1 = .COMMENT ∨ t.1 = .NEWLINE := by
  simp only [contsToksC, List.mem_flatten, List.mem_map] at h
  obtain ⟨l, ⟨c, _, rfl⟩, ht⟩ := h
  simp only [ContC.toks, List.mem_cons] at ht
  rcases ht with rfl | rfl | ht
  · exact Or.inl rfl
  · rcases contC_kind c with h | h
    · exact Or.inr (Or.inl h)
    · exact Or.inr (Or.inr (Or.inl h))
  · rw [mem_nlTok ht]; exact Or.inr (Or.inr (Or.inr rfl))

theorem mem_tailToksC {e : EntryC} {t : Tok} (h : t ∈ e.tailToks) :
    t.1 = .WHITESPACE ∨ t.1 = .VALUE ∨ t.1 = .NEWLINE ∨ t.1 = .INDENT ∨ t.1 = .COMMENT := by
  simp only [EntryC.tailToks, List.mem_append] at h
  rcases h with ((h | h) | h) | h
  · rw [mem_optTok h]; exact Or.inl rfl
  · rw [mem_optTok h]; exact Or.inr (Or.inl rfl)
  · rw [mem_nlTok h]; exact Or.inr (Or.inr (Or.inl rfl))
  · rcases mem_contsToksC h with h | h | h | h
    · exact Or.inr (Or.inr (Or.inr (Or.inl h)))
    · exact Or.inr (Or.inl h)
    · exact Or.inr (Or.inr (Or.inr (Or.inr h)))
    · exact Or.inr (Or.inr (Or.inl h))

theorem tail_headsC (e : EntryC) : (e.tailToks.map tk).filterMap headOf = [] := by
  apply List.filterMap_eq_nil_iff.2
  intro c hc
  simp only [List.mem_map] at hc
  obtain ⟨t, ht, rfl⟩ := hc
  rcases mem_tailToksC ht with h | h | h | h | h <;> simp [headOf, h]

theorem nodeC_badKinds (e : EntryC) : ewBadKinds e.node.children = false := by
  apply Bool.eq_false_iff.2
  intro h
  simp only [ewBadKinds, EntryC.node, Node.children, List.any_eq_true, List.mem_map] at h
  obtain ⟨c, ⟨t, ht, rfl⟩, hk⟩ := h
  rw [EntryC.toks_eq] at ht
  simp only [List.mem_cons] at ht
  rcases ht with rfl | rfl | ht
  · simp [Node.kind] at hk
  · simp [Node.kind] at hk
  · rcases mem_tailToksC ht with h | h | h | h | h <;> simp [Node.kind, h] at hk

theorem nodeC_heads (e : EntryC) :
    e.node.children.filterMap headOf = [Node.tok .KEY e.key, Node.tok .COLON [':']] := by
  simp only [EntryC.node, Node.children, EntryC.toks_eq, List.map_cons, List.filterMap_cons, headOf, tail_headsC]

theorem nodeC_key (e : EntryC) : entryKey e.node = some e.key := by
  simp [entryKey, EntryC.node, Node.children, EntryC.toks, isTokOf, tokTextOf]

theorem nodeC_indent (cfg : WrapCfg) (e : EntryC) : ewIndent cfg e.node.children = indOfC cfg e := by
  unfold ewIndent indOfC
  cases cfg.indentation with
  | spaces n => rfl
  | fieldNameLength =>
    simp only [EntryC.node, Node.children, EntryC.toks_eq, List.map_cons, List.find?_cons,
      isTokOf, beq_self_eq_true, Option.map_some, tokTextOf]

theorem indOfC_pos (cfg : WrapCfg) (e : EntryC) (hc : IndentOK cfg) (hk : ValidKey e.key) : indOfC cfg e ≠ 0 := by
  unfold indOfC
  cases h : cfg.indentation with
  | spaces n =>
    intro hn
    simp only at hn
    subst hn
    exact hc h
  | fieldNameLength =>
    obtain ⟨c, cs, hkey, _⟩ := hk
    simp only [hkey, utf8Len, Text.utf8Len, List.map_cons, List.sum_cons]
    have := Char.utf8Size_pos c
    omega

/-! ### the content tokens -/

def contsContentC (cs : List ContC) : List Tok := (cs.map fun c => c.tok :: nlTok c.nl).flatten

theorem filter_content_contsC (cs : List ContC) :
    ((contsToksC cs).map tk).filter contentKinds = (contsContentC cs).map tk := by
  induction cs with
  | nil => rfl
  | cons c cs ih =>
    have e1 : contsToksC (c :: cs) = c.toks ++ contsToksC cs := by simp [contsToksC]
    have e2 : contsContentC (c :: cs) = (c.tok :: nlTok c.nl) ++ contsContentC cs := by
      simp [contsContentC]
    rw [e1, e2, List.map_append, List.filter_append, ih, List.map_append]
    congr 1
    have hk : contentKinds (tk c.tok) = true := by
      rcases contC_kind c with h | h <;> simp [contentKinds, Node.kind, h]
    have hi : contentKinds (tk (Kind.INDENT, c.indent)) = false := rfl
    have hn' : contentKinds (tk (Kind.NEWLINE, ['\n'])) = true := rfl
    cases hn : c.nl
    · simp only [ContC.toks, nlTok, hn, Bool.false_eq_true, ↓reduceIte, List.map_cons, List.map_nil, List.filter_cons,
        hi, hk, List.filter_nil]
    · simp only [ContC.toks, nlTok, hn, ↓reduceIte, List.map_cons, List.map_nil, List.filter_cons,
        hi, hk, hn', Bool.false_eq_true, List.filter_nil]

theorem filter_content_tailC (e : EntryC) :
    (e.tailToks.map tk).filter contentKinds
      = (optTok .WHITESPACE e.ws ++ optTok .VALUE e.v ++ nlTok e.nl ++ contsContentC e.conts).map tk := by
  have hfs : ∀ ts : List Tok, (∀ t ∈ ts, contentKinds (tk t) = true) →
      (ts.map tk).filter contentKinds = ts.map tk := by
    intro ts h
    apply List.filter_eq_self.2
    intro c hc
    simp only [List.mem_map] at hc
    obtain ⟨t, ht, rfl⟩ := hc
    exact h t ht
  simp only [EntryC.tailToks, List.map_append, List.filter_append, filter_content_contsC]
  rw [hfs _ (fun t ht => by rw [mem_optTok ht]; rfl), hfs _ (fun t ht => by rw [mem_optTok ht]; rfl),
    hfs _ (fun t ht => by rw [mem_nlTok ht]; rfl)]

theorem joinNLk_cons (t : Tok) (u : List Tok) (hu : u ≠ []) :
    joinNLk (t :: u) = t :: (.NEWLINE, ['\n']) :: joinNLk u := by
  cases u with
  | nil => exact absurd rfl hu
  | cons a r => rfl

theorem contsContentC_join (cs : List ContC) (ht : contsTermC cs) (hne : cs ≠ []) :
    ∃ b, contsContentC cs = joinNLk (cs.map ContC.tok) ++ nlTok b := by
  induction cs with
  | nil => exact absurd rfl hne
  | cons c cs ih =>
    cases cs with
    | nil => exact ⟨c.nl, by simp [contsContentC, joinNLk]⟩
    | cons c' r =>
      have hnl : c.nl = true := by
        rcases ht.1 with h | h
        · exact h
        · simp at h
      obtain ⟨b, hb⟩ := ih ht.2 (by simp)
      refine ⟨b, ?_⟩
      have e2 : contsContentC (c :: c' :: r) = (c.tok :: nlTok c.nl) ++ contsContentC (c' :: r) := by
        simp [contsContentC]
      rw [e2, hb, hnl]
      simp [nlTok, joinNLk]

theorem joinNLk_last (L : List Tok) (hL : L ≠ []) : ∃ a t, joinNLk L = a ++ [t] ∧ t ∈ L := by
  induction L with
  | nil => exact absurd rfl hL
  | cons l r ih =>
    cases r with
    | nil => exact ⟨[], l, rfl, by simp⟩
    | cons u r' =>
      obtain ⟨a, t, h, hm⟩ := ih (by simp)
      exact ⟨l :: (.NEWLINE, ['\n']) :: a, t, by simp [joinNLk, h], by simp [hm]⟩

theorem noTrail_append_line (a : List Tok) (t : Tok) (ht : LineTok t) : NoTrail (a ++ [t]) := by
  intro x hx
  rw [List.getLast?_concat] at hx
  cases hx
  rcases ht with h | h <;> simp [h]

/-- what `Entry::wrap_and_sort` collects from a field with comment lines -/
theorem nodeC_content (e : EntryC) (ht : e.Term) : ewContent e.node.children = e.cts.map tk := by
  have hkc : ([(Kind.KEY, e.key), (Kind.COLON, [':'])].map tk).filter contentKinds = [] := rfl
  have h0 : ewContent e.node.children = dropTrailing nlwsN
      ((optTok .WHITESPACE e.ws ++ optTok .VALUE e.v ++ nlTok e.nl ++ contsContentC e.conts).map tk) := by
    simp only [ewContent, EntryC.node, Node.children, EntryC.toks_eq]
    rw [show ((Kind.KEY, e.key) :: (Kind.COLON, [':']) :: e.tailToks)
        = [(Kind.KEY, e.key), (Kind.COLON, [':'])] ++ e.tailToks from rfl,
      List.map_append, List.filter_append, hkc, List.nil_append, filter_content_tailC]
  rw [h0]
  unfold EntryC.cts
  by_cases hc : e.conts = []
  · simp only [hc, contsContentC, List.map_nil, List.flatten_nil, List.append_nil, ↓reduceIte]
    by_cases hv : e.v = []
    · simp only [hv, optTok, ↓reduceIte, List.append_nil, List.map_nil]
      apply dropTrailing_all
      intro x hx
      simp only [List.map_append, List.mem_append] at hx
      rcases hx with hx | hx
      · exact optWS_nlws e.ws x hx
      · exact nlTok_nlws _ x hx
    · simp only [hv, ↓reduceIte]
      rw [List.map_append, dropTrailing_append_all _ _ _ (nlTok_nlws _)]
      rw [show optTok Kind.VALUE e.v = [(Kind.VALUE, e.v)] from by simp [optTok, hv]]
      exact dropTrailing_map_tk _ (noTrail_append_value _ _)
  · simp only [hc, ↓reduceIte]
    have hnl : e.nl = true := by
      rcases ht.1 with h | h
      · exact h
      · exact absurd h hc
    obtain ⟨b, hb⟩ := contsContentC_join e.conts ht.2 hc
    obtain ⟨a, t, hj, htm⟩ := joinNLk_last (e.conts.map ContC.tok) (by simpa using hc)
    have hlt : LineTok t := by
      simp only [List.mem_map] at htm
      obtain ⟨c, _, rfl⟩ := htm
      exact contC_kind c
    rw [hb, hnl, ← List.append_assoc, List.map_append, dropTrailing_append_all _ _ _ (nlTok_nlws _)]
    rw [show nlTok true = [(Kind.NEWLINE, ['\n'])] from rfl]
    rw [show optTok Kind.WHITESPACE e.ws ++ optTok Kind.VALUE e.v ++ [(Kind.NEWLINE, ['\n'])]
          ++ joinNLk (List.map ContC.tok e.conts)
        = optTok Kind.WHITESPACE e.ws ++ optTok Kind.VALUE e.v ++ (Kind.NEWLINE, ['\n'])
          :: joinNLk (List.map ContC.tok e.conts) from by simp]
    apply dropTrailing_map_tk
    rw [hj]
    have := noTrail_append_line (optTok Kind.WHITESPACE e.ws ++ optTok Kind.VALUE e.v ++ (Kind.NEWLINE, ['\n']) :: a) t hlt
    simpa using this

/-- first half: `entryWrap` on such a field is `rebuild_value` of its content tokens -/
theorem entryWrap_nodeC_eq (cfg : WrapCfg) (e : EntryC) (hwf : e.WF) (ht : e.Term) (hc : IndentOK cfg) :
    entryWrap cfg none e.node = some (.node .ENTRY (Node.tok .KEY e.key :: Node.tok .COLON [':'] ::
      rebuildValue e.cts (utf8Len e.key) (indOfC cfg e) cfg.immediateEmptyLine cfg.maxLineLengthOneLiner)) := by
  unfold entryWrap
  rw [nodeC_badKinds, nodeC_indent]
  simp only [Bool.false_eq_true, ↓reduceIte, indOfC_pos cfg e hc hwf.key_ok, ewTokens, nodeC_content e ht,
    allTokens_map_tk, nodeC_heads, ewKeyLen, nodeC_key]
  rfl

/-! ### `rebuild_value` on these tokens -/

theorem ctsC_hasNewline (e : EntryC) : rbHasNewline e.cts = !e.conts.isEmpty := by
  unfold EntryC.cts
  by_cases hc : e.conts = []
  · simp only [hc, ↓reduceIte, List.isEmpty_nil, Bool.not_true]
    split
    · rfl
    · rw [hasNewline_append, hasNewline_optTok _ (by simp)]; rfl
  · have : e.conts.isEmpty = false := by simpa [List.isEmpty_iff] using hc
    simp only [hc, ↓reduceIte, this, Bool.not_false]
    rw [hasNewline_append]
    simp [rbHasNewline]

theorem strip_joinNLk (L : List Tok) (h : ∀ t ∈ L, LineTok t) : rbStrip (joinNLk L) = joinNLk L := by
  cases L with
  | nil => rfl
  | cons l r =>
    have hl : nlwsT l = false := by
      rcases h l (by simp) with h1 | h1 <;> simp [h1]
    cases r with
    | nil => exact rbStrip_cons_neg _ _ hl
    | cons u r' => exact rbStrip_cons_neg _ _ hl

theorem lineToks_line (e : EntryC) : ∀ t ∈ e.lineToks, LineTok t := by
  intro t ht
  simp only [EntryC.lineToks, List.mem_append, List.mem_map] at ht
  rcases ht with ht | ⟨c, _, rfl⟩
  · split at ht
    · simp at ht
    · simp only [List.mem_cons, List.not_mem_nil, or_false] at ht; subst ht; exact Or.inl rfl
  · exact contC_kind c

theorem ctsC_strip (e : EntryC) : rbStrip e.cts = joinNLk e.lineToks := by
  unfold EntryC.cts EntryC.lineToks
  by_cases hc : e.conts = []
  · simp only [hc, ↓reduceIte, List.map_nil, List.append_nil]
    by_cases hv : e.v = []
    · simp only [hv, ↓reduceIte]; rfl
    · simp only [hv, ↓reduceIte]
      rw [strip_optWS]; exact rbStrip_cons_neg _ _ (by rfl)
  · simp only [hc, ↓reduceIte]
    have hne : e.conts.map ContC.tok ≠ [] := by simpa using hc
    have hline : ∀ t ∈ e.conts.map ContC.tok, LineTok t := by
      intro t ht
      simp only [List.mem_map] at ht
      obtain ⟨c, _, rfl⟩ := ht
      exact contC_kind c
    by_cases hv : e.v = []
    · simp only [hv, optTok, ↓reduceIte, List.append_nil, List.nil_append]
      rw [show (if e.ws = [] then [] else [(Kind.WHITESPACE, e.ws)]) = optTok .WHITESPACE e.ws from rfl,
        strip_optWS, rbStrip_cons_pos _ _ (by rfl), strip_joinNLk _ hline]
    · simp only [hv, ↓reduceIte, List.append_assoc]
      rw [strip_optWS, show optTok Kind.VALUE e.v = [(Kind.VALUE, e.v)] from by simp [optTok, hv]]
      rw [List.singleton_append, List.singleton_append, joinNLk_cons _ _ hne]
      exact rbStrip_cons_neg _ _ (by rfl)

theorem firstIsComment_strip' (ts : List Tok) : rbFirstIsComment ts = rbFirstIsComment (rbStrip ts) :=
  (firstIsComment_strip ts).symm

theorem firstIsComment_joinNLk (L : List Tok) (h : ∀ t ∈ L, LineTok t) :
    rbFirstIsComment (joinNLk L) = headIsComment L := by
  cases L with
  | nil => rfl
  | cons l r =>
    have hl : (l.1 != Kind.NEWLINE && l.1 != Kind.WHITESPACE) = true := by
      rcases h l (by simp) with h1 | h1 <;> simp [h1]
    cases r with
    | nil => simp [joinNLk, rbFirstIsComment, List.find?_cons, hl, headIsComment]
    | cons u r' => simp [joinNLk, rbFirstIsComment, List.find?_cons, hl, headIsComment]

theorem ctsC_comment (e : EntryC) : rbFirstIsComment e.cts = e.firstIsComment := by
  rw [firstIsComment_strip', ctsC_strip, firstIsComment_joinNLk _ (lineToks_line e)]
  rfl

theorem firstIsHash_joinNLk (L : List Tok) (h : ∀ t ∈ L, LineTok t) :
    rbFirstIsHash (joinNLk L) = headIsHash L := by
  cases L with
  | nil => rfl
  | cons l r =>
    have hl : (l.1 != Kind.NEWLINE && l.1 != Kind.WHITESPACE) = true := by
      rcases h l (by simp) with h1 | h1 <;> simp [h1]
    cases r with
    | nil => simp [joinNLk, rbFirstIsHash, rbFirstIsComment, List.find?_cons, hl, headIsHash]
    | cons u r' => simp [joinNLk, rbFirstIsHash, rbFirstIsComment, List.find?_cons, hl, headIsHash]

/-- when the first line is not a comment, "starts with `#`" can only be the first-line text -/
theorem ctsC_hash (e : EntryC) (hwf : e.WF) (hfc : e.firstIsComment = false) :
    rbFirstIsHash e.cts = (e.v.head? == some '#') := by
  rw [← firstIsHash_strip, ctsC_strip, firstIsHash_joinNLk _ (lineToks_line e)]
  unfold EntryC.firstIsComment at hfc
  by_cases hv : e.v = []
  · have hL : e.lineToks = e.conts.map ContC.tok := by simp [EntryC.lineToks, hv]
    rw [hL] at hfc ⊢
    cases hcs : e.conts with
    | nil => simp [headIsHash, hv]
    | cons c cs =>
      rw [hcs] at hfc
      simp only [List.map_cons, headIsComment] at hfc
      have hcw := (hwf.conts_ok c (by rw [hcs]; simp)).text_ok
      have hnc : c.isC = false := by
        simp only [ContC.tok, ContC.kind] at hfc
        cases hi : c.isC with
        | false => rfl
        | true => rw [hi] at hfc; simp at hfc
      rw [hnc] at hcw
      simp only [Bool.false_eq_true, ↓reduceIte] at hcw
      obtain ⟨_, x, xs, hx, _, hne⟩ := hcw
      simp [headIsHash, ContC.tok, ContC.kind, hnc, hx, hne, hv]
  · have hL : e.lineToks = (Kind.VALUE, e.v) :: e.conts.map ContC.tok := by simp [EntryC.lineToks, hv]
    rw [hL]
    simp [headIsHash]

theorem contsToksC_cons (c : ContC) (cs : List ContC) : contsToksC (c :: cs) = c.toks ++ contsToksC cs := by
  simp [contsToksC]

theorem mkContK_toks (ind : Nat) (t : Tok) (h : LineTok t) :
    (mkContK ind t).toks = [(.INDENT, List.replicate ind ' '), t, (.NEWLINE, ['\n'])] := by
  obtain ⟨k, s⟩ := t
  rcases h with h | h <;> simp only at h <;> subst h <;> rfl

theorem go_joinNLk_true (ind : Nat) (L : List Tok) (hL : L ≠ []) (h : ∀ t ∈ L, LineTok t) :
    (rbGo ind (joinNLk L) true).1 ++ rbClose (rbGo ind (joinNLk L) true).2
      = (contsToksC (L.map (mkContK ind))).map tk := by
  induction L with
  | nil => exact absurd rfl hL
  | cons l r ih =>
    have hl := h l (by simp)
    have hln : (l.1 == Kind.NEWLINE) = false := by rcases hl with h1 | h1 <;> simp [h1]
    cases r with
    | nil =>
      simp only [joinNLk, rbGo, hln, rbClose, List.map_cons, List.map_nil, contsToksC_cons, mkContK_toks ind l hl]
      simp [contsToksC]
    | cons u r' =>
      have := ih (by simp) (fun t ht => h t (by simp [ht]))
      have e1 : (Kind.NEWLINE == Kind.NEWLINE) = true := rfl
      simp only [joinNLk, rbGo, e1, hln, List.append_assoc]
      rw [this]
      simp [contsToksC_cons, mkContK_toks ind l hl]

theorem go_joinNLk_false (ind : Nat) (l : Tok) (L : List Tok) (h : ∀ t ∈ l :: L, LineTok t) :
    (rbGo ind (joinNLk (l :: L)) false).1 ++ rbClose (rbGo ind (joinNLk (l :: L)) false).2
      = (l :: (Kind.NEWLINE, ['\n']) :: contsToksC (L.map (mkContK ind))).map tk := by
  have hl := h l (by simp)
  have hln : (l.1 == Kind.NEWLINE) = false := by rcases hl with h1 | h1 <;> simp [h1]
  cases L with
  | nil => simp [joinNLk, rbGo, hln, rbClose, contsToksC]
  | cons u r =>
    have := go_joinNLk_true ind (u :: r) (by simp) (fun t ht => h t (by simp [ht]))
    have e1 : (Kind.NEWLINE == Kind.NEWLINE) = true := rfl
    simp only [joinNLk, rbGo, e1, hln, List.append_assoc]
    rw [this]
    simp

theorem wrapC_key (cfg : WrapCfg) (e : EntryC) : (e.wrap cfg).key = e.key := by
  unfold EntryC.wrap
  split
  · rfl
  · split
    · rfl
    · split <;> rfl

/-- second half: the rebuilt value is the token sequence of `EntryC.wrap` -/
theorem rebuildValue_ctsC (cfg : WrapCfg) (e : EntryC) (hwf : e.WF) :
    rebuildValue e.cts (utf8Len e.key) (indOfC cfg e) cfg.immediateEmptyLine cfg.maxLineLengthOneLiner
      = (e.wrap cfg).tailToks.map tk := by
  have hline := lineToks_line e
  unfold rebuildValue EntryC.wrap
  rw [ctsC_hasNewline, ctsC_strip, ctsC_comment]
  by_cases hA : (rbFits e.cts (utf8Len e.key) cfg.maxLineLengthOneLiner && e.conts.isEmpty) = true
  · have hA' : (rbFits e.cts (utf8Len e.key) cfg.maxLineLengthOneLiner && !!e.conts.isEmpty) = true := by
      simpa using hA
    simp only [hA, hA', ↓reduceIte]
    have hc : e.conts = [] := by
      simp only [Bool.and_eq_true, List.isEmpty_iff] at hA; exact hA.2
    simp only [EntryC.tailToks, EntryC.cts, hc, ↓reduceIte, contsToksC, List.map_nil, List.flatten_nil, List.append_nil]
    by_cases hv : e.v = []
    · simp [hv, optTok, nlTok]
    · simp [hv, optTok, nlTok]
  · have hA' : ¬(rbFits e.cts (utf8Len e.key) cfg.maxLineLengthOneLiner && !!e.conts.isEmpty) = true := by
      simpa using hA
    simp only [hA, hA', ↓reduceIte]
    by_cases hfc : e.firstIsComment = true
    · -- the first line is a comment: it starts a line of its own (fix abfd7c8)
      simp only [hfc, Bool.true_or, ↓reduceIte]
      have hL : e.lineToks ≠ [] := by
        intro h; simp [EntryC.firstIsComment, headIsComment, h] at hfc
      rw [List.cons_append, go_joinNLk_true _ _ hL hline]
      simp [EntryC.tailToks, optTok, nlTok]
    · have hfc' : e.firstIsComment = false := by simpa using hfc
      rw [hfc', Bool.false_or, Bool.false_or]
      by_cases hc : e.conts = []
      · have hie : e.conts.isEmpty = true := by simp [hc]
        simp only [hie, Bool.not_true, Bool.and_false, Bool.false_and, Bool.false_eq_true, ↓reduceIte]
        simp only [EntryC.lineToks, hc, List.map_nil, List.append_nil]
        by_cases hv : e.v = []
        · simp only [hv, ↓reduceIte]
          rfl
        · simp only [hv, ↓reduceIte]
          rw [List.cons_append, go_joinNLk_false _ _ _ (by
            intro t ht; simp at ht; subst ht; exact Or.inl rfl)]
          simp [EntryC.tailToks, optTok, hv, nlTok, contsToksC]
      · have hie : e.conts.isEmpty = false := by simpa [List.isEmpty_iff] using hc
        rw [ctsC_hash e hwf hfc']
        simp only [hie, Bool.not_false, Bool.and_true]
        have hL : e.lineToks ≠ [] := by
          simp only [EntryC.lineToks]
          intro h
          have := (List.append_eq_nil_iff.1 h).2
          exact hc (by simpa using this)
        by_cases hB : (cfg.immediateEmptyLine && !(e.v.head? == some '#')) = true
        · simp only [hB, ↓reduceIte]
          rw [List.cons_append, go_joinNLk_true _ _ hL hline]
          simp [EntryC.tailToks, optTok, nlTok]
        · simp only [hB, Bool.false_eq_true, ↓reduceIte]
          cases hLL : e.lineToks with
          | nil => exact absurd hLL hL
          | cons l ls =>
            simp only
            have hl' : ∀ t ∈ l :: ls, LineTok t := by rw [← hLL]; exact hline
            rw [List.cons_append, go_joinNLk_false _ _ _ hl']
            -- the first line is a VALUE token with non-empty text
            have hlv : l.1 = .VALUE := by
              rcases hl' l (by simp) with h1 | h1
              · exact h1
              · simp [EntryC.firstIsComment, headIsComment, hLL, h1] at hfc'
            have hl2 : l.2 ≠ [] := by
              have hm : l ∈ e.lineToks := by rw [hLL]; simp
              simp only [EntryC.lineToks, List.mem_append, List.mem_map] at hm
              rcases hm with hm | ⟨c, hcm, rfl⟩
              · split at hm
                · simp at hm
                · rename_i hv
                  simp only [List.mem_cons, List.not_mem_nil, or_false] at hm
                  subst hm; exact hv
              · have hcw := (hwf.conts_ok c hcm).text_ok
                have hnc : c.isC = false := by
                  simp only [ContC.tok, ContC.kind] at hlv
                  cases hi : c.isC with
                  | false => rfl
                  | true => rw [hi] at hlv; simp at hlv
                rw [hnc] at hcw
                simp only [Bool.false_eq_true, ↓reduceIte] at hcw
                obtain ⟨_, x, xs, hx, _⟩ := hcw
                simp [ContC.tok, hx]
            obtain ⟨lk, lt⟩ := l
            simp only at hlv hl2
            subst hlv
            simp [EntryC.tailToks, optTok, hl2, nlTok]

/-- **a field with comment lines inside its value is reformatted to the node of `EntryC.wrap`**
    (no formatter, indentation of at least one column) -/
theorem entryWrap_nodeC (cfg : WrapCfg) (e : EntryC) (hwf : e.WF) (ht : e.Term) (hc : IndentOK cfg) :
    entryWrap cfg none e.node = some (e.wrap cfg).node := by
  rw [entryWrap_nodeC_eq cfg e hwf ht hc, rebuildValue_ctsC cfg e hwf]
  simp only [EntryC.node, EntryC.toks_eq, wrapC_key, List.map_cons]

end Deb822Verif.Deb
