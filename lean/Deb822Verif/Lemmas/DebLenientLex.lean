import Deb822Verif.Lemmas.DebTokAgree
import Deb822Verif.Lemmas.DebWrapFmt
import Deb822Verif.Lemmas.DocLinesClass
import Deb822Verif.Spec.DocGrammar
/-!
# The lexer, one LF-free line at a time (no grammar)

`lexAux_line`: for EVERY LF/CR-free text `l` and every lexer state, lexing `l ++ '\n' :: r` gives the
tokens of `l` alone, a NEWLINE token, and the tokens of `r` lexed from the initial state. Hence
(`lex_render`) the token list of a rendered line list is the concatenation of the token lists of its
lines (`lineT`), separated by NEWLINE tokens — whatever the lines are.
-/
namespace Deb822Verif.Deb.Lenient
open Deb822Verif Deb Node Spec

theorem takeWhile_app_stop {α} (p : α → Bool) (a : List α) (x : α) (r : List α) (hx : p x = false) :
    (a ++ x :: r).takeWhile p = a.takeWhile p := by
  induction a with
  | nil => simp [List.takeWhile, hx]
  | cons y ys ih => simp only [List.cons_append, List.takeWhile_cons]; split <;> simp [ih]

theorem dropWhile_app_stop {α} (p : α → Bool) (a : List α) (x : α) (r : List α) (hx : p x = false) :
    (a ++ x :: r).dropWhile p = a.dropWhile p ++ x :: r := by
  induction a with
  | nil => simp [List.dropWhile, hx]
  | cons y ys ih => simp only [List.cons_append, List.dropWhile_cons]; split <;> simp [ih]

/-- one lexer step does not look beyond the next LF -/
theorem lexStep_line (st : LexState) (c : Char) (rest r : Str) :
    lexStep st c (rest ++ '\n' :: r) =
      ((lexStep st c rest).1, (lexStep st c rest).2.1, (lexStep st c rest).2.2 ++ '\n' :: r) := by
  have t1 := takeWhile_app_stop isIndent rest '\n' r (by decide)
  have t2 := takeWhile_app_stop (fun c => !isNewline c) rest '\n' r (by decide)
  have t3 := takeWhile_app_stop isKeyChar rest '\n' r (by decide)
  have d1 := dropWhile_app_stop isIndent rest '\n' r (by decide)
  have d2 := dropWhile_app_stop (fun c => !isNewline c) rest '\n' r (by decide)
  have d3 := dropWhile_app_stop isKeyChar rest '\n' r (by decide)
  simp only [lexStep, t1, t2, t3, d1, d2, d3]
  (repeat' split) <;> rfl

theorem lexStep_rest_mem (st : LexState) (c : Char) (rest : Str) :
    ∀ x ∈ (lexStep st c rest).2.2, x ∈ rest := by
  intro x hx
  simp only [lexStep] at hx
  (repeat' split at hx) <;>
    first
      | exact hx
      | exact (List.dropWhile_sublist _).subset hx

/-- **the lexer restarts after every LF**: in any state, on any LF/CR-free `l` -/
theorem lexAux_line : ∀ (n : Nat) (st : LexState) (l r : Str), l.length ≤ n → NoNl l →
    lexAux st (l ++ '\n' :: r) = lexAux st l ++ (.NEWLINE, ['\n']) :: lexAux initState r := by
  intro n
  induction n with
  | zero =>
    intro st l r hl _
    have : l = [] := List.eq_nil_of_length_eq_zero (by omega)
    subst this
    simp [lexAux_cons, step_lf, lexAux_nil]
  | succ n ih =>
    intro st l r hl hn
    cases l with
    | nil => simp [lexAux_cons, step_lf, lexAux_nil]
    | cons c rest =>
      rw [List.cons_append, lexAux_cons, lexStep_line, lexAux_cons st c rest]
      simp only [List.cons_append, List.cons.injEq, true_and]
      apply ih
      · have := lexStep_len st c rest
        simp at hl; omega
      · intro x hx
        exact hn x (by simp [lexStep_rest_mem st c rest x hx])

/-- the tokens of one line (lexed alone, from the start-of-line state) -/
def lineT (l : Str) : List Tok := lexAux initState l

abbrev NL : Tok := (.NEWLINE, ['\n'])

theorem lex_line (l r : Str) (hn : NoNl l) :
    lexAux initState (l ++ '\n' :: r) = lineT l ++ NL :: lexAux initState r :=
  lexAux_line l.length initState l r (Nat.le_refl _) hn

/-- the tokens of a line list: every line LF-terminated, except possibly the last one -/
def toks : List Str → Bool → List Tok
  | [], _ => []
  | [l], fnl => lineT l ++ (if fnl then [NL] else [])
  | l :: l' :: ls, fnl => lineT l ++ NL :: toks (l' :: ls) fnl

/-- what follows the tokens of the first line -/
def tailT (ls : List Str) (fnl : Bool) : List Tok :=
  match ls with
  | [] => if fnl then [NL] else []
  | _ :: _ => NL :: toks ls fnl

theorem toks_cons (l : Str) (ls : List Str) (fnl : Bool) : toks (l :: ls) fnl = lineT l ++ tailT ls fnl := by
  cases ls <;> simp [toks, tailT]

theorem tailT_cases (ls : List Str) (fnl : Bool) :
    (ls = [] ∧ fnl = false ∧ tailT ls fnl = []) ∨ tailT ls fnl = NL :: toks ls fnl := by
  cases ls with
  | nil => cases fnl <;> simp [tailT, toks]
  | cons l ls => right; rfl

/-- the text of a line list -/
def renderS (ls : List Str) (fnl : Bool) : Str := render (ls.map .raw) fnl

theorem renderS_cons (l : Str) (ls : List Str) (fnl : Bool) :
    renderS (l :: ls) fnl = l ++ (match ls with
      | [] => if fnl then ['\n'] else []
      | _ :: _ => '\n' :: renderS ls fnl) := by
  cases ls with
  | nil => cases fnl <;> simp [renderS, render, Line.text]
  | cons m ls => simp [renderS, render, Line.text]

/-- **T-LINES for arbitrary lines**: the lexer on a rendered list of LF/CR-free lines -/
theorem lex_render (ls : List Str) (fnl : Bool) (h : ∀ l ∈ ls, NoNl l) :
    lexAux initState (renderS ls fnl) = toks ls fnl := by
  induction ls with
  | nil => simp [renderS, render, toks, lexAux_nil]
  | cons l ls ih =>
    have hl := h l (by simp)
    have ih' := ih (fun x hx => h x (by simp [hx]))
    rw [renderS_cons, toks_cons]
    cases ls with
    | nil =>
      cases fnl
      · simp [tailT, lineT]
      · simp only [tailT, ↓reduceIte]
        rw [lex_line l [] hl]; simp [lexAux_nil]
    | cons m ls =>
      simp only [tailT]
      rw [lex_line l _ hl, ih']

/-- the tokens that follow a line, as a lexer output: the tail is `[]` or `lex ('\n' :: text)` -/
theorem lineT_tail (l : Str) (ls : List Str) (fnl : Bool) (hl : NoNl l) (h : ∀ x ∈ ls, NoNl x) :
    ∃ tail : Str, LineEnd tail ∧ lineT l ++ tailT ls fnl = lexAux initState (l ++ tail) := by
  rcases tailT_cases ls fnl with ⟨_, _, h3⟩ | h3
  · exact ⟨[], lineEnd_nil, by simp [h3, lineT]⟩
  · refine ⟨'\n' :: renderS ls fnl, lineEnd_lf _, ?_⟩
    rw [h3, lex_line l _ hl, lex_render ls fnl h]

end Deb822Verif.Deb.Lenient
