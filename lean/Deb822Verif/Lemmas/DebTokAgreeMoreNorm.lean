import Deb822Verif.Lemmas.DebTokAgree
import Deb822Verif.Lemmas.DebTokAgreeMoreLex
/-!
  Normal form of the lossless value (property C06): every value `Entry::value()` reports is a list
  of NON-EMPTY, "\n"-free lines (the VALUE tokens of the entry) joined by "\n" — so it is a fixed
  point of "drop the empty lines", and the relation "same non-blank lines" between a lossy value `v`
  and a lossless value `w` pins `w` down: `w = join "\n" (nbLines v)`.
-/
namespace Deb822Verif.Deb
open Deb822Verif Node Lossy

/-! ### tokens of a tree -/

theorem leaves_sub_leavesList {n : DNode} {cs : List DNode} (h : n ∈ cs) :
    ∀ t ∈ n.leaves, t ∈ leavesList cs := by
  induction cs with
  | nil => simp at h
  | cons a cs ih =>
    intro t ht
    simp only [leavesList_cons, List.mem_append]
    simp only [List.mem_cons] at h
    rcases h with rfl | h
    · exact Or.inl ht
    · exact Or.inr (ih h t ht)

theorem leaves_child {m c : DNode} (h : c ∈ m.children) : ∀ t ∈ c.leaves, t ∈ m.leaves := by
  cases m with
  | tok k x => simp [Node.children] at h
  | node k cs =>
    simp only [Node.children] at h
    simp only [leaves_node]
    exact leaves_sub_leavesList h

theorem value_child_leaf {e c : DNode} (h : c ∈ e.children) (hv : isTokOf .VALUE c = true) :
    (Kind.VALUE, tokTextOf c) ∈ e.leaves := by
  apply leaves_child h
  cases c with
  | tok k x =>
    simp only [isTokOf, beq_iff_eq] at hv
    subst hv
    simp [tokTextOf]
  | node k cs => simp [isTokOf] at hv

/-! ### lines -/

/-- non-empty lines without "\n" -/
def GoodLines (ls : List Str) : Prop := ∀ l ∈ ls, l ≠ [] ∧ '\n' ∉ l

/-- joining good lines and dropping the empty lines again gives the same text -/
theorem join_nbLines_join (ls : List Str) (h : GoodLines ls) :
    Text.join ['\n'] (nbLines (Text.join ['\n'] ls)) = Text.join ['\n'] ls := by
  rw [nbLines_join ls (fun l hl => (h l hl).2)]
  have : ls.filter (· ≠ []) = ls := by
    apply List.filter_eq_self.2
    intro l hl
    simpa using (h l hl).1
  rw [this]

theorem join_splitOn (v : Str) : Text.join ['\n'] (Text.splitOn '\n' v) = v := by
  induction v with
  | nil => simp [Text.splitOn, Text.join]
  | cons c cs ih =>
    simp only [Text.splitOn]
    split
    · rename_i hc
      cases hs : Text.splitOn '\n' cs with
      | nil => exact absurd hs (splitOn_ne_nil _ _)
      | cons l ls =>
        rw [hs] at ih
        simp only [Text.join, List.nil_append, List.cons_append, ih, hc]
    · cases hs : Text.splitOn '\n' cs with
      | nil => exact absurd hs (splitOn_ne_nil _ _)
      | cons l ls =>
        rw [hs] at ih
        cases ls with
        | nil => simp only [Text.join] at ih ⊢; rw [ih]
        | cons l2 ls2 =>
          simp only [Text.join, List.cons_append, List.append_assoc] at ih ⊢
          rw [ih]

/-- a value without an empty line (or an empty value) is untouched by dropping the empty lines -/
theorem join_nbLines_noBlank (v : Str) (h : v = [] ∨ [] ∉ Text.splitOn '\n' v) :
    Text.join ['\n'] (nbLines v) = v := by
  rcases h with rfl | h
  · simp [nbLines_nil, Text.join]
  · have : (Text.splitOn '\n' v).filter (· ≠ []) = Text.splitOn '\n' v := by
      apply List.filter_eq_self.2
      intro l hl
      have : l ≠ [] := by intro e; subst e; exact h hl
      simpa using this
    simp only [nbLines, this]
    exact join_splitOn v

/-! ### the values `docItems` reports -/

/-- every value read off a tree whose VALUE tokens are non-empty and hold no line terminator is a
    list of good lines joined by "\n" -/
theorem docItems_values_good (root : DNode)
    (hv : ∀ x, (Kind.VALUE, x) ∈ root.leaves → x ≠ [] ∧ ∀ c ∈ x, isNewline c = false) :
    ∀ p ∈ docItems root, ∀ f ∈ p, ∃ ls, GoodLines ls ∧ f.2 = Text.join ['\n'] ls := by
  intro p hp f hf
  simp only [docItems, List.mem_map] at hp
  obtain ⟨q, hq, rfl⟩ := hp
  simp only [paragraphs, List.mem_filter] at hq
  simp only [items, List.mem_filterMap] at hf
  obtain ⟨e, he, hfe⟩ := hf
  simp only [entries, List.mem_filter] at he
  cases hk : entryKey e with
  | none => rw [hk] at hfe; simp at hfe
  | some k =>
    rw [hk] at hfe
    simp at hfe
    subst hfe
    refine ⟨(e.children.filter (isTokOf .VALUE)).map tokTextOf, ?_, rfl⟩
    intro l hl
    simp only [List.mem_map, List.mem_filter] at hl
    obtain ⟨c, ⟨hc1, hc2⟩, rfl⟩ := hl
    have h1 := value_child_leaf hc1 hc2
    have h2 := leaves_child he.1 _ h1
    have h3 := leaves_child hq.1 _ h2
    obtain ⟨a, b⟩ := hv _ h3
    exact ⟨a, noNewline_no_lf b⟩

theorem parseTokens_leaves (ts : List Tok) : (parseTokens ts).tree.leaves = ts := by
  have h1 := rootLoop_leaves ts
  rw [rootLoop_rest] at h1
  simpa [parseTokens] using h1

/-- the values of the lossless reader are fixed points of "drop the empty lines" -/
theorem docItems_fix (ts : List Tok)
    (hv : ∀ x, (Kind.VALUE, x) ∈ ts → x ≠ [] ∧ ∀ c ∈ x, isNewline c = false) :
    ∀ p ∈ docItems (parseTokens ts).tree, ∀ f ∈ p, Text.join ['\n'] (nbLines f.2) = f.2 := by
  intro p hp f hf
  obtain ⟨ls, hg, hfl⟩ :=
    docItems_values_good (parseTokens ts).tree (by rw [parseTokens_leaves]; exact hv) p hp f hf
  rw [hfl]
  exact join_nbLines_join ls hg

/-- the lossy value with its empty lines removed -/
def normField (f : Str × Str) : Str × Str := (f.1, Text.join ['\n'] (nbLines f.2))

/-- from "same non-blank lines" to the normal form -/
theorem normal_of_rel (d : Doc) (c : List (List (Str × Str)))
    (hrel : d.map (·.map nbF) = c.map (·.map nbF))
    (hc : ∀ p ∈ c, ∀ f ∈ p, Text.join ['\n'] (nbLines f.2) = f.2) :
    c = d.map (·.map normField) := by
  have hn : ∀ f : Str × Str, normField f = (fun g : Str × List Str => (g.1, Text.join ['\n'] g.2)) (nbF f) := by
    intro f; rfl
  have h1 : c = c.map (·.map normField) := by
    conv => lhs; rw [← List.map_id c]
    apply List.map_congr_left
    intro p hp
    conv => lhs; rw [id, ← List.map_id p]
    apply List.map_congr_left
    intro f hf
    simp only [id, normField]
    rw [hc p hp f hf]
  have h2 : ∀ x : List (List (Str × Str)), x.map (·.map normField)
      = (x.map (·.map nbF)).map (·.map fun g : Str × List Str => (g.1, Text.join ['\n'] g.2)) := by
    intro x
    simp only [List.map_map]
    apply List.map_congr_left
    intro p _
    simp only [Function.comp, List.map_map]
    apply List.map_congr_left
    intro f _
    exact hn f
  rw [h1, h2 c, h2 d, hrel]

end Deb822Verif.Deb
