import Deb822Verif.Model.Derive
import Deb822Verif.Model.DebEdit
import Deb822Verif.Props.C04
import Deb822Verif.Props.C15
/-!
  The lossless paragraph (src/lossless.rs `Paragraph`: `get`, `set`, `remove`, `keys`,
  `FromIterator<(String, String)>`) satisfies the laws the derive macro relies on
  (`Derive.Lawful`), at the level of the tree — for EVERY tree, every name and every value
  (no parser, no validity condition: the laws talk about the live tree the handle points to).

  Everything here is assembled from the refinement theorems of C04 (`C04_refine_set`,
  `C04_refine_remove`: each edit is the list operation on `pitems`) and the list lemmas of C15
  (`lget_set_same`, …); `Derive.lookupFirst` is `C15.lget` by unfolding.

  The laws are stated for a paragraph given as the child list `cs` of its PARAGRAPH node (the
  convention of `Model/DebEdit.lean` and `Model/Typed.lean`) and for the node itself.
-/
namespace Deb822Verif.Derive.Lossless
open Deb822Verif Deb Node Derive
open Deb822Verif.Props.C04 Deb822Verif.Props.C15

/-- `Derive.lookupFirst` is the list lookup of C15 -/
theorem lookupFirst_eq_lget (l : List (Str × Str)) (k : Str) : lookupFirst l k = lget l k := rfl

/-- `Paragraph::get` on any node: the first item of that name -/
theorem get_eq_lookupFirst (p : DNode) (k : Str) : Deb.get p k = lookupFirst (items p) k := by
  unfold Deb.get items
  exact find_entries _ k

/-- `get` only looks at the children -/
theorem get_node (κ : Kind) (cs : List DNode) (k : Str) :
    Deb.get (.node κ cs) k = lookupFirst (pitems cs) k := by
  rw [get_eq_lookupFirst, items_node_any]

/-- `Paragraph::keys` on any node: the names of the items, in order -/
theorem keys_eq_items (p : DNode) : Deb.keys p = (items p).map (·.1) := by
  unfold Deb.keys items
  induction entries p with
  | nil => rfl
  | cons e es ih =>
    cases h : entryKey e with
    | none => simp only [List.filterMap_cons, h, Option.map_none]; exact ih
    | some k' => simp only [List.filterMap_cons, h, Option.map_some, List.map_cons, ih]

theorem keys_node (κ : Kind) (cs : List DNode) : Deb.keys (.node κ cs) = (pitems cs).map (·.1) := by
  rw [keys_eq_items, items_node_any]

/-- what `FromIterator<(String, String)>` builds reads as the list it was built from -/
theorem pitems_ofPairs (l : List (Str × Str)) : pitems (l.map fun kv => entryNew kv.1 kv.2) = l := by
  rw [pitems_eq]
  induction l with
  | nil => rfl
  | cons kv l ih => simp only [List.map_cons, List.flatten_cons, childItem_new, ih]; rfl

theorem items_ofPairs (l : List (Str × Str)) : items (paraOfPairs l) = l := by
  unfold paraOfPairs
  rw [items_node_any, pitems_ofPairs]

/-! ### the six laws, on child lists -/

theorem get_set (cs : List DNode) (k v : Str) (κ : Kind) :
    Deb.get (.node κ (paraSet cs k v)) k = some v := by
  rw [get_node, C04_refine_set]; exact lget_set_same _ k v

theorem get_set_ne (cs : List DNode) (k v k' : Str) (h : k' ≠ k) (κ : Kind) :
    Deb.get (.node κ (paraSet cs k v)) k' = Deb.get (.node κ cs) k' := by
  rw [get_node, get_node, C04_refine_set]; exact lget_set_other _ k v k' h

theorem get_remove (cs : List DNode) (k : Str) (κ : Kind) :
    Deb.get (.node κ (paraRemove cs k)) k = none := by
  rw [get_node, C04_refine_remove]; exact lget_remove_same _ k

theorem get_remove_ne (cs : List DNode) (k k' : Str) (h : k' ≠ k) (κ : Kind) :
    Deb.get (.node κ (paraRemove cs k)) k' = Deb.get (.node κ cs) k' := by
  rw [get_node, get_node, C04_refine_remove]; exact lget_remove_other _ k k' h

theorem get_ofPairs (l : List (Str × Str)) (k : Str) : Deb.get (paraOfPairs l) k = lookupFirst l k := by
  rw [get_eq_lookupFirst, items_ofPairs]

theorem keys_ofPairs (l : List (Str × Str)) : Deb.keys (paraOfPairs l) = l.map (·.1) := by
  rw [keys_eq_items, items_ofPairs]

/-- a node and the PARAGRAPH node with the same children read the same -/
theorem get_children (p : DNode) (k : Str) : Deb.get (.node .PARAGRAPH p.children) k = Deb.get p k := by
  cases p with
  | tok κ t => rfl
  | node κ cs => simp only [Node.children, get_node]

/-! ### items of other names: same list, same order (stronger than the `get` frame laws, which
    only see the first field of a name) -/

/-- the items whose name is not in `ks` -/
def foreign (ks : List Str) (l : List (Str × Str)) : List (Str × Str) := l.filter fun f => !ks.contains f.1

theorem foreign_set (ks : List Str) (l : List (Str × Str)) (k v : Str) (hk : k ∈ ks) :
    foreign ks (ListSpec.set l k v) = foreign ks l := by
  induction l with
  | nil => simp [ListSpec.set, foreign, hk]
  | cons f fs ih =>
    simp only [ListSpec.set]
    split
    · rename_i hf
      simp [foreign, hf, hk]
    · simp only [foreign, List.filter_cons] at ih ⊢
      rw [ih]

theorem foreign_remove (ks : List Str) (l : List (Str × Str)) (k : Str) (hk : k ∈ ks) :
    foreign ks (ListSpec.remove l k) = foreign ks l := by
  unfold ListSpec.remove foreign
  rw [List.filter_filter]
  apply List.filter_congr
  intro f _
  by_cases hf : f.1 = k
  · simp [hf, hk]
  · simp [hf]

/-! ### the lossy paragraph's edits are the list model of C04 -/

theorem pset_eq_set (l : List (Str × Str)) (k v : Str) : Deb.Lossy.pset l k v = ListSpec.set l k v := by
  induction l with
  | nil => rfl
  | cons f fs ih =>
    simp only [Deb.Lossy.pset, ListSpec.set]
    split
    · rename_i hf; rw [hf]
    · rw [ih]

theorem premove_eq_remove (l : List (Str × Str)) (k : Str) : Deb.Lossy.premove l k = ListSpec.remove l k := by
  unfold Deb.Lossy.premove ListSpec.remove
  apply List.filter_congr
  intro f _
  by_cases hf : f.1 = k <;> simp [hf]

theorem pget_eq_lookupFirst (l : List (Str × Str)) (k : Str) : Deb.Lossy.pget l k = lookupFirst l k := rfl

/-- the items of any node are the items of its children -/
theorem items_children (p : DNode) : items p = pitems p.children := by
  cases p with
  | tok κ t => rfl
  | node κ cs => exact items_node_any κ cs

/-! ### two edits through the same handle -/

theorem onPara_onPara (d : Doc) (h : Nat) (f g : List DNode → List DNode) :
    (d.onPara h f).onPara h g = d.onPara h (fun cs => g (f cs)) := by
  unfold Doc.onPara
  cases hh : d.handles[h]? with
  | none => simp only [hh]
  | some o =>
    cases o with
    | none => simp only [hh]
    | some i =>
      simp only []
      cases hk : d.kids[i]? with
      | none => simp only [hh, hk]
      | some n =>
        have hlt : i < d.kids.length := (List.getElem?_eq_some_iff.mp hk).1
        cases n with
        | tok κ t => simp only [hh, hk]
        | node κ cs =>
          cases κ <;> simp only [hh, hk, List.getElem?_set_self hlt, List.set_set]

theorem onPara_id (d : Doc) (h : Nat) : d.onPara h (fun cs => cs) = d := by
  unfold Doc.onPara
  split
  · rename_i i hi
    split
    · rename_i cs hk
      have : d.kids.set i (.node .PARAGRAPH cs) = d.kids := by
        obtain ⟨hlt, he⟩ := List.getElem?_eq_some_iff.mp hk
        rw [← he]; exact List.set_getElem_self hlt
      rw [this]
    · rfl
  · rfl

end Deb822Verif.Derive.Lossless
