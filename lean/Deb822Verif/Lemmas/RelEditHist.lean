import Deb822Verif.Lemmas.RelEditParsed
/-!
  Whole histories on fields in the constructors' layout: an index-addressed history on the tree
  (`runI`, the way the API is used: `get_entry(i)`, `get_relation(j)`, then the call) is simulated by
  the same history on the lossy value (`runL`), and the tree stays `built` of that value.
-/
set_option linter.unusedSimpArgs false
namespace Deb822Verif.Rel.Edit
open Deb822Verif Rel Node Build Lossy RelSpec

/-- the list split around its `i`-th element -/
def splitAt? {α} (l : List α) (i : Nat) : Option (List α × α × List α) :=
  if h : i < l.length then some (l.take i, l[i], l.drop (i + 1)) else none

theorem splitAt?_some {α} {l : List α} {i : Nat} {A B : List α} {x : α} (h : splitAt? l i = some (A, x, B)) :
    l = A ++ x :: B ∧ A.length = i := by
  unfold splitAt? at h
  split at h
  · rename_i hi
    simp only [Option.some.injEq, Prod.mk.injEq] at h
    obtain ⟨rfl, rfl, rfl⟩ := h
    refine ⟨?_, by simp [Nat.le_of_lt hi]⟩
    conv => lhs; rw [← List.take_append_drop i l]
    rw [List.drop_eq_getElem_cons hi]
  · cases h

theorem splitAt?_none {α} {l : List α} {i : Nat} (h : splitAt? l i = none) : l.length ≤ i := by
  unfold splitAt? at h
  split at h
  · cases h
  · omega

/-- an operation on the lossy value, operands as lossy values -/
inductive LOp
  | setArchqual (i j : Nat) (aq : Str)
  | setVersion (i j : Nat) (vc : Option (VC × Version))
  | dropConstraint (i j : Nat)
  | setArchitectures (i j : Nat) (as : List Str)
  | addProfile (i j : Nat) (g : List BuildProfile)
  | entryPush (i : Nat) (r : Lossy.Relation)
  | entryReplace (i j : Nat) (r : Lossy.Relation)
  | removeRelation (i j : Nat)
  | insert (i : Nat) (e : List Lossy.Relation)
  | push (e : List Lossy.Relation)
  | replace (i : Nat) (e : List Lossy.Relation)
  | removeEntry (i : Nat)

/-- the value after a setter -/
def LOp.onRel : LOp → Option (Nat × Nat × (Lossy.Relation → Lossy.Relation))
  | .setArchqual i j aq => some (i, j, fun r => { r with archqual := some aq })
  | .setVersion i j vc => some (i, j, fun r => { r with version := vc })
  | .dropConstraint i j => some (i, j, fun r => { r with version := none })
  | .setArchitectures i j as => some (i, j, fun r => { r with architectures := match as with | [] => none | _ => some as })
  | .addProfile i j g => some (i, j, fun r => { r with profiles := r.profiles ++ [g] })
  | _ => none

/-- the tree function of a setter -/
def LOp.treeFn : LOp → RNode → RNode
  | .setArchqual _ _ aq => (Build.setArchqual · aq)
  | .setVersion _ _ vc => (Build.setVersion · vc)
  | .dropConstraint _ _ => fun r => (Build.dropConstraint r).1
  | .setArchitectures _ _ as => (Build.setArchitectures · as)
  | .addProfile _ _ g => (Build.addProfile · g)
  | _ => id

/-- the list model on lossy values; `none` = an index is out of range (the API call panics) -/
def LOp.apply (rs : List (List Lossy.Relation)) (o : LOp) : Option (List (List Lossy.Relation)) :=
  match o.onRel with
  | some (i, j, g) =>
    (splitAt? rs i).bind fun (RA, E, RB) =>
      (splitAt? E j).map fun (EA, r0, EB) => RA ++ (EA ++ g r0 :: EB) :: RB
  | none =>
    match o with
    | .entryPush i r => (splitAt? rs i).map fun (RA, E, RB) => RA ++ (E ++ [r]) :: RB
    | .entryReplace i j r =>
      (splitAt? rs i).bind fun (RA, E, RB) => (splitAt? E j).map fun (EA, _, EB) => RA ++ (EA ++ r :: EB) :: RB
    | .removeRelation i j =>
      (splitAt? rs i).bind fun (RA, E, RB) => (splitAt? E j).map fun (EA, _, EB) =>
        if (EA ++ EB).isEmpty then RA ++ RB else RA ++ (EA ++ EB) :: RB
    | .insert i e =>
      match splitAt? rs i with
      | some (RA, E, RB) => some (RA ++ e :: E :: RB)
      | none => some (rs ++ [e])
    | .push e => some (rs ++ [e])
    | .replace i e => (splitAt? rs i).map fun (RA, _, RB) => RA ++ e :: RB
    | .removeEntry i => (splitAt? rs i).map fun (RA, _, RB) => RA ++ RB
    | _ => none

def runL (rs : List (List Lossy.Relation)) : List LOp → Option (List (List Lossy.Relation))
  | [] => some rs
  | o :: os => (o.apply rs).bind fun rs' => runL rs' os

/-- one call on the tree, addressed by index the way the API is used -/
def stepI (f : Field) (o : LOp) : Outcome Field :=
  match o.onRel with
  | some (i, j, _) =>
    match nthNode .ENTRY f.kids i with
    | none => .panic "get_entry: unwrap"
    | some p =>
      match nthNode .RELATION (f.entryKids p) j with
      | none => .panic "get_relation: unwrap"
      | some q => .ok (f.relEdit p q o.treeFn)
  | none =>
    match o with
    | .entryPush i r =>
      match nthNode .ENTRY f.kids i with
      | none => .panic "get_entry: unwrap"
      | some p => .ok (f.entryPushAt p (toLossless r))
    | .entryReplace i j r =>
      match nthNode .ENTRY f.kids i with
      | none => .panic "get_entry: unwrap"
      | some p => f.entryReplaceAt p j (toLossless r)
    | .removeRelation i j => f.removeRelation i j
    | .insert i e => .ok (f.insert i (entryFromLossy e))
    | .push e => .ok (f.push (entryFromLossy e))
    | .replace i e => f.replace i (entryFromLossy e)
    | .removeEntry i => f.removeEntry i
    | _ => .ok f

def runI (f : Field) : List LOp → Outcome Field
  | [] => .ok f
  | o :: os => (stepI f o).bind fun f' => runI f' os

theorem treeFn_canon (o : LOp) (i j : Nat) (g : Lossy.Relation → Lossy.Relation) (h : o.onRel = some (i, j, g))
    (r : Lossy.Relation) : o.treeFn (toLossless r) = toLossless (g r) := by
  cases o with
  | setArchqual i' j' aq =>
    simp only [LOp.onRel, Option.some.injEq, Prod.mk.injEq] at h
    obtain ⟨_, _, rfl⟩ := h; exact setArchqual_canon r aq
  | setVersion i' j' vc =>
    simp only [LOp.onRel, Option.some.injEq, Prod.mk.injEq] at h
    obtain ⟨_, _, rfl⟩ := h
    rcases vc with _ | ⟨c, v⟩
    · exact setVersion_none_canon r
    · exact setVersion_canon r c v
  | dropConstraint i' j' =>
    simp only [LOp.onRel, Option.some.injEq, Prod.mk.injEq] at h
    obtain ⟨_, _, rfl⟩ := h; exact dropConstraint_canon r
  | setArchitectures i' j' as =>
    simp only [LOp.onRel, Option.some.injEq, Prod.mk.injEq] at h
    obtain ⟨_, _, rfl⟩ := h
    cases as with
    | nil => exact setArchitectures_nil_canon r
    | cons a as => exact setArchitectures_canon r a as
  | addProfile i' j' gp =>
    simp only [LOp.onRel, Option.some.injEq, Prod.mk.injEq] at h
    obtain ⟨_, _, rfl⟩ := h; exact addProfile_canon r gp
  | entryPush _ _ => simp [LOp.onRel] at h
  | entryReplace _ _ _ => simp [LOp.onRel] at h
  | removeRelation _ _ => simp [LOp.onRel] at h
  | insert _ _ => simp [LOp.onRel] at h
  | push _ => simp [LOp.onRel] at h
  | replace _ _ => simp [LOp.onRel] at h
  | removeEntry _ => simp [LOp.onRel] at h

/-- one step: the tree of the built field after the call is the built field of the value after it -/
theorem built_stepI (rs rs' : List (List Lossy.Relation)) (o : LOp) (h : o.apply rs = some rs')
    (f : Field) (hf : f.kids = (built rs).children) :
    ∃ f', stepI f o = .ok f' ∧ f'.kids = (built rs').children := by
  unfold LOp.apply at h
  unfold stepI
  cases hr : o.onRel with
  | some t =>
    obtain ⟨i, j, g⟩ := t
    rw [hr] at h
    simp only [Option.bind_eq_some_iff, Option.map_eq_some_iff] at h
    obtain ⟨⟨RA, E, RB⟩, h1, ⟨EA, r0, EB⟩, h2, rfl⟩ := h
    obtain ⟨rfl, rfl⟩ := splitAt?_some h1
    obtain ⟨rfl, rfl⟩ := splitAt?_some h2
    obtain ⟨p, q, hp, hq, hroot⟩ := built_relEdit RA RB EA EB r0 (g r0) o.treeFn (treeFn_canon o _ _ g hr r0) f hf
    simp only [hp, hq]
    exact ⟨_, rfl, congrArg Node.children hroot⟩
  | none =>
    rw [hr] at h
    cases o <;> simp only [LOp.onRel, reduceCtorEq] at hr
    · -- entryPush
      simp only [Option.map_eq_some_iff] at h
      obtain ⟨⟨RA, E, RB⟩, h1, rfl⟩ := h
      obtain ⟨rfl, rfl⟩ := splitAt?_some h1
      obtain ⟨p, hp, hroot⟩ := built_entryPush RA RB E _ f hf
      simp only [hp]
      exact ⟨_, rfl, congrArg Node.children hroot⟩
    · -- entryReplace
      simp only [Option.bind_eq_some_iff, Option.map_eq_some_iff] at h
      obtain ⟨⟨RA, E, RB⟩, h1, ⟨EA, r0, EB⟩, h2, rfl⟩ := h
      obtain ⟨rfl, rfl⟩ := splitAt?_some h1
      obtain ⟨rfl, rfl⟩ := splitAt?_some h2
      obtain ⟨p, f', hp, hrep, hroot⟩ := built_entryReplace RA RB EA EB r0 _ f hf
      simp only [hp]
      exact ⟨f', hrep, congrArg Node.children hroot⟩
    · -- removeRelation
      simp only [Option.bind_eq_some_iff, Option.map_eq_some_iff] at h
      obtain ⟨⟨RA, E, RB⟩, h1, ⟨EA, r0, EB⟩, h2, rfl⟩ := h
      obtain ⟨rfl, rfl⟩ := splitAt?_some h1
      obtain ⟨rfl, rfl⟩ := splitAt?_some h2
      obtain ⟨f', hrem, hroot⟩ := built_removeRelation RA RB EA EB r0 f hf
      exact ⟨f', hrem, congrArg Node.children hroot⟩
    · -- insert
      rename_i i e
      cases hs : splitAt? rs i with
      | some t =>
        obtain ⟨RA, E, RB⟩ := t
        simp only [hs, Option.some.injEq] at h
        subst h
        obtain ⟨rfl, rfl⟩ := splitAt?_some hs
        exact ⟨_, rfl, congrArg Node.children (built_insert RA RB E e f hf)⟩
      | none =>
        simp only [hs, Option.some.injEq] at h
        subst h
        exact ⟨_, rfl, congrArg Node.children (built_insert_end rs e i (splitAt?_none hs) f hf)⟩
    · -- push
      simp only [Option.some.injEq] at h
      subst h
      exact ⟨_, rfl, congrArg Node.children (built_push rs _ f hf)⟩
    · -- replace
      simp only [Option.map_eq_some_iff] at h
      obtain ⟨⟨RA, E, RB⟩, h1, rfl⟩ := h
      obtain ⟨rfl, rfl⟩ := splitAt?_some h1
      obtain ⟨f', hrep, hroot⟩ := built_replace RA RB E _ f hf
      exact ⟨f', hrep, congrArg Node.children hroot⟩
    · -- removeEntry
      simp only [Option.map_eq_some_iff] at h
      obtain ⟨⟨RA, E, RB⟩, h1, rfl⟩ := h
      obtain ⟨rfl, rfl⟩ := splitAt?_some h1
      obtain ⟨f', hrem, hroot⟩ := built_removeEntry RA RB E f hf
      exact ⟨f', hrem, congrArg Node.children hroot⟩

/-- whole histories -/
theorem built_runI (rs rs' : List (List Lossy.Relation)) (os : List LOp) (h : runL rs os = some rs')
    (f : Field) (hf : f.kids = (built rs).children) :
    ∃ f', runI f os = .ok f' ∧ f'.kids = (built rs').children := by
  induction os generalizing rs f with
  | nil => simp only [runL, Option.some.injEq] at h; subst h; exact ⟨f, rfl, hf⟩
  | cons o os ih =>
    simp only [runL, Option.bind_eq_some_iff] at h
    obtain ⟨rs1, h1, h2⟩ := h
    obtain ⟨f1, hs, hk⟩ := built_stepI rs rs1 o h1 f hf
    obtain ⟨f', hr, hk'⟩ := ih rs1 h2 f1 hk
    exact ⟨f', by simp only [runI, hs, Outcome.bind]; exact hr, hk'⟩


/-! ### validity of the value is kept by operations with valid operands -/

def LOp.valid : LOp → Prop
  | .setArchqual _ _ aq => isIdent aq = true
  | .setVersion _ _ vc => ∀ c v, vc = some (c, v) → validVersion v = true
  | .setArchitectures _ _ as => ∀ a ∈ as, validArch a = true
  | .addProfile _ _ g => ∀ p ∈ g, isIdent (profName p) = true
  | .entryPush _ r => validRS r = true
  | .entryReplace _ _ r => validRS r = true
  | .insert _ e => e ≠ [] ∧ ∀ r ∈ e, validRS r = true
  | .push e => e ≠ [] ∧ ∀ r ∈ e, validRS r = true
  | .replace _ e => e ≠ [] ∧ ∀ r ∈ e, validRS r = true
  | _ => True

theorem validRSs_iff (rs : List (List Lossy.Relation)) :
    validRSs rs = true ↔ ∀ e ∈ rs, e ≠ [] ∧ ∀ r ∈ e, validRS r = true := by
  simp [validRSs, List.all_eq_true]

theorem valid_apply (rs rs' : List (List Lossy.Relation)) (o : LOp) (hv : validRSs rs = true) (ho : o.valid)
    (h : o.apply rs = some rs') : validRSs rs' = true := by
  rw [validRSs_iff] at hv ⊢
  have hmid : ∀ (RA RB : List (List Lossy.Relation)) (E E' : List Lossy.Relation),
      (∀ e ∈ RA ++ E :: RB, e ≠ [] ∧ ∀ r ∈ e, validRS r = true) → (E' ≠ [] ∧ ∀ r ∈ E', validRS r = true) →
      ∀ e ∈ RA ++ E' :: RB, e ≠ [] ∧ ∀ r ∈ e, validRS r = true := by
    intro RA RB E E' h1 h2 e he
    simp only [List.mem_append, List.mem_cons] at he
    rcases he with he | rfl | he
    · exact h1 e (by simp [he])
    · exact h2
    · exact h1 e (by simp [he])
  unfold LOp.apply at h
  cases hr : o.onRel with
  | some t =>
    obtain ⟨i, j, g⟩ := t
    rw [hr] at h
    simp only [Option.bind_eq_some_iff, Option.map_eq_some_iff] at h
    obtain ⟨⟨RA, E, RB⟩, h1, ⟨EA, r0, EB⟩, h2, rfl⟩ := h
    obtain ⟨rfl, rfl⟩ := splitAt?_some h1
    obtain ⟨rfl, rfl⟩ := splitAt?_some h2
    apply hmid RA RB _ _ hv
    have hE := hv (EA ++ r0 :: EB) (by simp)
    refine ⟨by simp, ?_⟩
    intro r hr'
    simp only [List.mem_append, List.mem_cons] at hr'
    rcases hr' with hr' | rfl | hr'
    · exact hE.2 r (by simp [hr'])
    · have h0 := (validRS_iff r0).1 (hE.2 r0 (by simp))
      obtain ⟨a1, a2, a3, a4, a5⟩ := h0
      rw [validRS_iff]
      cases o with
      | setArchqual i' j' aq =>
        simp only [LOp.onRel, Option.some.injEq, Prod.mk.injEq] at hr
        obtain ⟨_, _, rfl⟩ := hr
        exact ⟨a1, (fun a ha => by simp only [Option.some.injEq] at ha; subst ha; exact ho), a3, a4, a5⟩
      | setVersion i' j' vc =>
        simp only [LOp.onRel, Option.some.injEq, Prod.mk.injEq] at hr
        obtain ⟨_, _, rfl⟩ := hr
        exact ⟨a1, a2, fun c v hcv => ho c v hcv, a4, a5⟩
      | dropConstraint i' j' =>
        simp only [LOp.onRel, Option.some.injEq, Prod.mk.injEq] at hr
        obtain ⟨_, _, rfl⟩ := hr
        exact ⟨a1, a2, (fun c v hcv => by cases hcv), a4, a5⟩
      | setArchitectures i' j' as =>
        simp only [LOp.onRel, Option.some.injEq, Prod.mk.injEq] at hr
        obtain ⟨_, _, rfl⟩ := hr
        refine ⟨a1, a2, a3, ?_, a5⟩
        intro as' has
        cases as with
        | nil => cases has
        | cons x xs =>
          simp only [Option.some.injEq] at has
          subst has
          exact ⟨by simp, ho⟩
      | addProfile i' j' gp =>
        simp only [LOp.onRel, Option.some.injEq, Prod.mk.injEq] at hr
        obtain ⟨_, _, rfl⟩ := hr
        refine ⟨a1, a2, a3, a4, ?_⟩
        intro g' hg'
        simp only [List.mem_append, List.mem_singleton] at hg'
        rcases hg' with hg' | rfl
        · exact a5 g' hg'
        · exact ho
      | entryPush _ _ => simp [LOp.onRel] at hr
      | entryReplace _ _ _ => simp [LOp.onRel] at hr
      | removeRelation _ _ => simp [LOp.onRel] at hr
      | insert _ _ => simp [LOp.onRel] at hr
      | push _ => simp [LOp.onRel] at hr
      | replace _ _ => simp [LOp.onRel] at hr
      | removeEntry _ => simp [LOp.onRel] at hr
    · exact hE.2 r (by simp [hr'])
  | none =>
    rw [hr] at h
    cases o <;> simp only [LOp.onRel, reduceCtorEq] at hr
    · -- entryPush
      simp only [Option.map_eq_some_iff] at h
      obtain ⟨⟨RA, E, RB⟩, h1, rfl⟩ := h
      obtain ⟨rfl, rfl⟩ := splitAt?_some h1
      apply hmid RA RB _ _ hv
      have hE := hv E (by simp)
      refine ⟨by simp, ?_⟩
      intro r hr'
      simp only [List.mem_append, List.mem_singleton] at hr'
      rcases hr' with hr' | rfl
      · exact hE.2 r hr'
      · exact ho
    · -- entryReplace
      simp only [Option.bind_eq_some_iff, Option.map_eq_some_iff] at h
      obtain ⟨⟨RA, E, RB⟩, h1, ⟨EA, r0, EB⟩, h2, rfl⟩ := h
      obtain ⟨rfl, rfl⟩ := splitAt?_some h1
      obtain ⟨rfl, rfl⟩ := splitAt?_some h2
      apply hmid RA RB _ _ hv
      have hE := hv (EA ++ r0 :: EB) (by simp)
      refine ⟨by simp, ?_⟩
      intro r hr'
      simp only [List.mem_append, List.mem_cons] at hr'
      rcases hr' with hr' | rfl | hr'
      · exact hE.2 r (by simp [hr'])
      · exact ho
      · exact hE.2 r (by simp [hr'])
    · -- removeRelation
      simp only [Option.bind_eq_some_iff, Option.map_eq_some_iff] at h
      obtain ⟨⟨RA, E, RB⟩, h1, ⟨EA, r0, EB⟩, h2, rfl⟩ := h
      obtain ⟨rfl, rfl⟩ := splitAt?_some h1
      obtain ⟨rfl, rfl⟩ := splitAt?_some h2
      have hE := hv (EA ++ r0 :: EB) (by simp)
      cases hemp : (EA ++ EB).isEmpty with
      | true =>
        simp only [↓reduceIte]
        intro e he
        simp only [List.mem_append] at he
        rcases he with he | he
        · exact hv e (by simp [he])
        · exact hv e (by simp [he])
      | false =>
        simp only [Bool.false_eq_true, ↓reduceIte]
        apply hmid RA RB _ _ hv
        refine ⟨by simpa using hemp, ?_⟩
        intro r hr'
        simp only [List.mem_append] at hr'
        rcases hr' with hr' | hr'
        · exact hE.2 r (by simp [hr'])
        · exact hE.2 r (by simp [hr'])
    · -- insert
      rename_i i e
      cases hs : splitAt? rs i with
      | some t =>
        obtain ⟨RA, E, RB⟩ := t
        simp only [hs, Option.some.injEq] at h
        subst h
        obtain ⟨rfl, rfl⟩ := splitAt?_some hs
        intro x hx
        simp only [List.mem_append, List.mem_cons] at hx
        rcases hx with hx | rfl | rfl | hx
        · exact hv x (by simp [hx])
        · exact ho
        · exact hv x (by simp)
        · exact hv x (by simp [hx])
      | none =>
        simp only [hs, Option.some.injEq] at h
        subst h
        intro x hx
        simp only [List.mem_append, List.mem_singleton] at hx
        rcases hx with hx | rfl
        · exact hv x hx
        · exact ho
    · -- push
      simp only [Option.some.injEq] at h
      subst h
      intro x hx
      simp only [List.mem_append, List.mem_singleton] at hx
      rcases hx with hx | rfl
      · exact hv x hx
      · exact ho
    · -- replace
      simp only [Option.map_eq_some_iff] at h
      obtain ⟨⟨RA, E, RB⟩, h1, rfl⟩ := h
      obtain ⟨rfl, rfl⟩ := splitAt?_some h1
      exact hmid RA RB _ _ hv ho
    · -- removeEntry
      simp only [Option.map_eq_some_iff] at h
      obtain ⟨⟨RA, E, RB⟩, h1, rfl⟩ := h
      obtain ⟨rfl, rfl⟩ := splitAt?_some h1
      intro e he
      simp only [List.mem_append] at he
      rcases he with he | he
      · exact hv e (by simp [he])
      · exact hv e (by simp [he])

theorem valid_runL (rs rs' : List (List Lossy.Relation)) (os : List LOp) (hv : validRSs rs = true)
    (ho : ∀ o ∈ os, o.valid) (h : runL rs os = some rs') : validRSs rs' = true := by
  induction os generalizing rs with
  | nil => simp only [runL, Option.some.injEq] at h; subst h; exact hv
  | cons o os ih =>
    simp only [runL, Option.bind_eq_some_iff] at h
    obtain ⟨rs1, h1, h2⟩ := h
    exact ih rs1 (valid_apply rs rs1 o hv (ho o (by simp)) h1) (fun x hx => ho x (by simp [hx])) h2


/-! ### the converse: an index out of range panics on the tree -/

theorem nthPos_none_of_count (P : RNode → Bool) (cs : List RNode) (i : Nat) (h : cs.countP P ≤ i) :
    nthPos P cs i = none := by
  cases hn : nthPos P cs i with
  | none => rfl
  | some p =>
    obtain ⟨pre, x, post, e, _, hx, hc⟩ := nthPos_some hn
    rw [e] at h
    simp [List.countP_cons, hx, hc] at h
    omega

theorem countR_entry (E : List Lossy.Relation) :
    (entryFromLossy E).children.countP (isNodeOf .RELATION) = E.length := by
  rcases List.eq_nil_or_concat E with rfl | ⟨init, last, rfl⟩
  · rw [entryFromLossy_eq]; rfl
  · rw [List.concat_eq_append, entry_snoc, List.countP_append, countR_pre]
    simp [isRel_built]

theorem nthEntry_none (rs : List (List Lossy.Relation)) (i : Nat) (h : splitAt? rs i = none) (f : Field)
    (hf : f.kids = (built rs).children) : nthNode .ENTRY f.kids i = none := by
  rw [hf]; exact nthPos_none_of_count _ _ _ (by rw [countE_built]; exact splitAt?_none h)

theorem nthRel_none (RA RB : List (List Lossy.Relation)) (E : List Lossy.Relation) (j : Nat) (h : splitAt? E j = none)
    (f : Field) (hf : f.kids = (built (RA ++ E :: RB)).children) :
    ∃ p, nthNode .ENTRY f.kids RA.length = some p ∧ nthNode .RELATION (f.entryKids p) j = none := by
  refine ⟨_, by rw [hf]; exact nthNode_built RA RB E, ?_⟩
  rw [built_kids_split] at hf
  rw [entryKids_split f _ _ _ hf]
  exact nthPos_none_of_count _ _ _ (by rw [countR_entry]; exact splitAt?_none h)

/-- when the call is undefined on the value (an index is out of range), it panics on the tree -/
theorem stepI_panics (rs : List (List Lossy.Relation)) (o : LOp) (h : o.apply rs = none) (f : Field)
    (hf : f.kids = (built rs).children) : (stepI f o).isOk = false := by
  unfold LOp.apply at h
  unfold stepI
  cases hr : o.onRel with
  | some t =>
    obtain ⟨i, j, g⟩ := t
    rw [hr] at h
    simp only
    cases hs : splitAt? rs i with
    | none => rw [nthEntry_none rs i hs f hf]; rfl
    | some x =>
      obtain ⟨RA, E, RB⟩ := x
      simp only [hs, Option.bind_some, Option.map_eq_none_iff] at h
      obtain ⟨rfl, rfl⟩ := splitAt?_some hs
      obtain ⟨p, hp, hq⟩ := nthRel_none RA RB E j h f hf
      simp only [hp, hq]; rfl
  | none =>
    rw [hr] at h
    simp only
    cases o <;> simp only [LOp.onRel, reduceCtorEq] at hr
    · -- entryPush
      simp only [Option.map_eq_none_iff] at h
      simp only [nthEntry_none rs _ h f hf]; rfl
    · -- entryReplace
      rename_i i j r
      cases hs : splitAt? rs i with
      | none => simp only [nthEntry_none rs i hs f hf]; rfl
      | some x =>
        obtain ⟨RA, E, RB⟩ := x
        simp only [hs, Option.bind_some, Option.map_eq_none_iff] at h
        obtain ⟨rfl, rfl⟩ := splitAt?_some hs
        obtain ⟨p, hp, hq⟩ := nthRel_none RA RB E j h f hf
        simp only [hp, Field.entryReplaceAt, hq]; rfl
    · -- removeRelation
      rename_i i j
      cases hs : splitAt? rs i with
      | none => simp only [Field.removeRelation, nthEntry_none rs i hs f hf]; rfl
      | some x =>
        obtain ⟨RA, E, RB⟩ := x
        simp only [hs, Option.bind_some, Option.map_eq_none_iff] at h
        obtain ⟨rfl, rfl⟩ := splitAt?_some hs
        obtain ⟨p, hp, hq⟩ := nthRel_none RA RB E j h f hf
        simp only [Field.removeRelation, hp, hq]; rfl
    · -- insert: never undefined
      rename_i i e
      cases hs : splitAt? rs i <;> simp [hs] at h
    · simp at h
    · -- replace
      simp only [Option.map_eq_none_iff] at h
      simp only [Field.replace, nthEntry_none rs _ h f hf]; rfl
    · -- removeEntry
      simp only [Option.map_eq_none_iff] at h
      simp only [Field.removeEntry, nthEntry_none rs _ h f hf]; rfl

end Deb822Verif.Rel.Edit
