import Deb822Verif.Lemmas.RelEditField
/-!
  Frame facts of the editing operations of Model/RelEdit.lean: which part of the printed field
  an operation leaves byte for byte as it was.
-/
namespace Deb822Verif.Rel.Edit
open Deb822Verif Rel Node Build Lossy RelSpec

theorem root_text (f : Field) : f.root.text = textList f.kids := by simp [Field.root]

theorem textList_split (cs : List RNode) (p : Nat) (x : RNode) (h : cs[p]? = some x) :
    cs = cs.take p ++ x :: cs.drop (p + 1) := by
  have hp : p < cs.length := by
    rcases Nat.lt_or_ge p cs.length with h' | h'
    · exact h'
    · rw [List.getElem?_eq_none_iff.2 h'] at h; cases h
  have hx : cs[p] = x := by
    rw [List.getElem?_eq_getElem hp] at h; exact Option.some.inj h
  conv => lhs; rw [← List.take_append_drop p cs]
  rw [List.drop_eq_getElem_cons hp, hx]

/-- rewriting one relation: the text before it and the text after it stay -/
theorem frame_relEdit (f : Field) (p q : Nat) (g : RNode → RNode) (e r : RNode)
    (he : f.kids[p]? = some e) (hr : e.children[q]? = some r) :
    ∃ A B, f.root.text = A ++ r.text ++ B ∧ (f.relEdit p q g).root.text = A ++ (g r).text ++ B := by
  refine ⟨textList (f.kids.take p) ++ textList (e.children.take q),
    textList (e.children.drop (q + 1)) ++ textList (f.kids.drop (p + 1)), ?_, ?_⟩
  · rw [root_text]
    conv => lhs; rw [textList_split f.kids p e he]
    have : e.text = textList e.children := by cases e <;> simp [Node.children] at hr ⊢
    rw [textList_append, textList_cons, this]
    conv => lhs; rw [textList_split e.children q r hr]
    simp
  · rw [root_text]
    simp only [Field.relEdit, he, hr, replaceAt]
    simp

/-- an edit of one entry's children: the text before the entry and after it stay -/
theorem frame_entryEdit (f : Field) (p : Nat) (c : Cut) (lost : Nat → Option Str) (e : RNode)
    (he : f.kids[p]? = some e) :
    (f.entryEdit p c lost).root.text
      = textList (f.kids.take p) ++ textList c.kids ++ textList (f.kids.drop (p + 1)) := by
  rw [root_text]
  simp only [Field.entryEdit, he, replaceAt]
  simp

/-- `Entry::push` inserts the new relation (with a separator unless the entry was empty) and
    changes nothing else -/
theorem frame_entryPushIn (es : List RNode) (rel : RNode) :
    ∃ A B sepText, es = A ++ B ∧ (entryPushIn es rel).kids = A ++ sepText ++ [rel] ++ B
      ∧ (textList sepText = [] ∨ textList sepText = " | ".toList ∨ textList sepText = "| ".toList) := by
  unfold entryPushIn
  cases hl : lastPos (isNodeOf .RELATION) es with
  | some last =>
    simp only
    by_cases hb : (!(es.any fun c => c.kind == Kind.PIPE || c.kind == Kind.RELATION)) = true
    · refine ⟨es.take (last + 1), es.drop (last + 1), [], (List.take_append_drop _ _).symm, ?_, Or.inl rfl⟩
      simp [hb, insertAt]
    · refine ⟨es.take (last + 1), es.drop (last + 1), [T .WHITESPACE " ", T .PIPE "|", T .WHITESPACE " "],
        (List.take_append_drop _ _).symm, ?_, Or.inr (Or.inl (by simp [T]))⟩
      simp [hb, insertAt]
  | none =>
    simp only
    by_cases hb : (!(es.any fun c => c.kind == Kind.PIPE || c.kind == Kind.RELATION)) = true
    · refine ⟨es, [], [], by simp, ?_, Or.inl rfl⟩
      simp [hb, insertAt]
    · refine ⟨es, [], [T .PIPE "|", T .WHITESPACE " "], by simp, ?_, Or.inr (Or.inr (by simp [T]))⟩
      simp [hb, insertAt]

/-- `Relations::insert` / `push` insert the new entry with a separator and change nothing else -/
theorem frame_relationsInsert (cs : List RNode) (i : Nat) (entry : RNode) :
    ∃ A B s1 s2, cs = A ++ B ∧ (relationsInsert cs i entry).kids = A ++ s1 ++ [entry] ++ s2 ++ B
      ∧ ((textList s1 = [] ∧ textList s2 = ", ".toList) ∨ (textList s1 = ", ".toList ∧ textList s2 = [])
        ∨ (textList s1 = " ".toList ∧ textList s2 = []) ∨ (textList s1 = [] ∧ textList s2 = [])) := by
  unfold relationsInsert
  cases hn : nthNode .ENTRY cs i with
  | some pos =>
    refine ⟨cs.take pos, cs.drop pos, [], [T .COMMA ",", T .WHITESPACE " "], (List.take_append_drop _ _).symm,
      by simp [insertAt], Or.inl ⟨rfl, by simp [T]⟩⟩
  | none =>
    cases hlast : lastPos isItemNode cs with
    | none =>
      exact ⟨cs, [], [], [], by simp, by simp [insertAt], Or.inr (Or.inr (Or.inr ⟨rfl, rfl⟩))⟩
    | some last =>
      simp only
      by_cases htc : ((cs.drop (last + 1)).any fun c => c.kind == Kind.COMMA) = true
      · rw [if_pos htc]
        simp only
        have key : ∀ b : Bool, ∃ A B s1 s2, cs = A ++ B
            ∧ insertAt cs cs.length (if b = true then [entry] else [T .WHITESPACE " ", entry]) = A ++ s1 ++ [entry] ++ s2 ++ B
            ∧ ((textList s1 = [] ∧ textList s2 = ", ".toList) ∨ (textList s1 = ", ".toList ∧ textList s2 = [])
              ∨ (textList s1 = " ".toList ∧ textList s2 = []) ∨ (textList s1 = [] ∧ textList s2 = [])) := by
          intro b
          cases b
          · exact ⟨cs, [], [T .WHITESPACE " "], [], by simp, by simp [insertAt],
              Or.inr (Or.inr (Or.inl ⟨by simp [T], rfl⟩))⟩
          · exact ⟨cs, [], [], [], by simp, by simp [insertAt], Or.inr (Or.inr (Or.inr ⟨rfl, rfl⟩))⟩
        exact key _
      · rw [if_neg htc]
        exact ⟨cs.take (last + 1), cs.drop (last + 1), [T .COMMA ",", T .WHITESPACE " "], [],
          (List.take_append_drop _ _).symm, by simp [insertAt], Or.inr (Or.inl ⟨by simp [T], rfl⟩)⟩

/-- `Relations::replace`: the old entry's place is taken by the new one -/
theorem frame_replace (f f' : Field) (i : Nat) (entry : RNode) (h : f.replace i entry = .ok f') :
    ∃ A old B, f.kids = A ++ old :: B ∧ f'.kids = A ++ entry :: B ∧ nthNode .ENTRY f.kids i = some A.length := by
  unfold Field.replace at h
  cases hn : nthNode .ENTRY f.kids i with
  | none => rw [hn] at h; simp at h
  | some p =>
    rw [hn] at h
    simp only [Outcome.ok.injEq] at h
    obtain ⟨pre, x, post, hk, hl, hx, hcnt⟩ := nthPos_some hn
    subst hl
    refine ⟨pre, x, post, hk, ?_, rfl⟩
    rw [← h]
    simp only [Field.rootEdit, hk]
    rw [show List.take pre.length (pre ++ x :: post) ++ List.drop (pre.length + 1) (pre ++ x :: post)
      = pre ++ post from by simp, insertAt_split]
    simp

theorem dropTrailing_prefix (P : RNode → Bool) (l : List RNode) : (l.reverse.dropWhile P).reverse <+: l := by
  obtain ⟨ws, e, _⟩ := dropTrailing_spec P l
  exact ⟨ws, e.symm⟩

/-- `Entry::remove`: what is left is a prefix of what stood before the entry followed by a suffix of
    what stood after it -/
theorem frame_entryRemove (cs : List RNode) (p : Nat) (c : Cut) (h : entryRemove cs p = .ok c) :
    ∃ A B, c.kids = A ++ B ∧ A <+: cs.take p ∧ B <:+ cs.drop (p + 1) := by
  unfold entryRemove at h
  simp only at h
  split at h
  · split at h
    · rename_i x' rest hdw hx'
      simp only [Outcome.ok.injEq] at h
      refine ⟨_, _, by rw [← h], ?_, ?_⟩
      · split
        · exact dropTrailing_prefix _ _
        · exact List.prefix_refl _
      · have h1 : (x' :: rest) <:+ cs.drop (p + 1) := by rw [← hdw]; exact List.dropWhile_suffix _
        have h2 : rest <:+ cs.drop (p + 1) := List.IsSuffix.trans (List.suffix_cons _ _) h1
        rw [hdw]
        split
        · simpa using h2
        · exact List.IsSuffix.trans (List.dropWhile_suffix _) (by simpa using h2)
    · cases h
  · simp only [Outcome.ok.injEq] at h
    refine ⟨_, [], by rw [← h]; exact (List.append_nil _).symm, ?_, List.nil_suffix⟩
    split
    · split
      · rename_i y r hb1
        split
        · have h1 := dropTrailing_prefix isWsElem (cs.take p)
          rw [hb1, List.reverse_cons] at h1
          exact List.IsPrefix.trans (List.prefix_append _ _) h1
        · exact dropTrailing_prefix _ _
      · exact List.nil_prefix
    · exact List.prefix_refl _

end Deb822Verif.Rel.Edit
