import Deb822Verif.Lemmas.DocLinesClass
/-!
# Text that begins with a space / tab where no field can be continued

The lexer turns a space / tab at the start of a line into an INDENT token whatever follows
(`lex_indent_start`); after a well-formed, fully terminated document whose last line is not a field
or continuation line (`ClosedEnd`) the parser meets that token where it expects a key
(`rootLoop_indent`, Lemmas/DebRejectOrphan). So white-space-only lines, orphan continuation lines and
indented `#…` lines are all reported there with "expected key" (`parse_indent_text`).

Second part: `ClosedEnd` of the document of a line list, read off the last line (`docOfLines_closedEnd`).
-/
namespace Deb822Verif.Deb
open Deb822Verif Node Spec

/-- a space / tab at the start of a line is lexed as (the start of) an INDENT token — whatever follows -/
theorem lex_indent_start (c : Char) (rest : Str) (hc : isIndent c = true) :
    IndentStart (lexAux initState (c :: rest)) := by
  have h1 : c ≠ ':' := indent_not_colon c hc
  have h2 := indent_not_newline c hc
  rw [lexAux_cons]
  simp [IndentStart, lexStep, initState, h1, h2, hc]

/-- **rejection**: after a well-formed, fully terminated document whose last line is not a field or
    continuation line, any text that begins with a space or tab makes the parser report
    "expected key" -/
theorem parse_indent_text (d : DocS) (h : d.WF) (ha : DocTermAll d) (hc : ClosedEnd d) (c : Char)
    (rest : Str) (hi : isIndent c = true) :
    "expected key" ∈ (parse (d.str ++ c :: rest)).errors := by
  unfold parse
  rw [lex_doc_rest d h ha]
  have hR := lex_indent_start c rest hi
  have hg : gapsTermT d.lead (parasToks d.paras ++ lexAux initState (c :: rest)) :=
    gapsTermT_of d.lead true _ ha.lead (by simp)
  have := rootLoop_indent d.paras d.lead _ hR (fun pg hpg => (h.paras_ok pg hpg).1) ha.paras hc hg
  simpa [parseTokens, DocS.toks] using this

end Deb822Verif.Deb

namespace Deb822Verif.Spec
open Deb822Verif Deb

/-! ### `ClosedEnd`, read off the last line of the line list -/

/-- the suffix ends with a line that is not a field or continuation line -/
def Suf.Closed (s : Suf) : Prop :=
  parasClosed s.paras ∧ (s.paras = [] → s.gaps ≠ [] ∨ endsComment s.items)

theorem closeItems_getLast (is : List PItem) (gaps) (q : ParaS × List Gap) (ps) :
    (closeItems is gaps (q :: ps)).2.getLast? = (q :: ps).getLast? := by
  induction is with
  | nil => rfl
  | cons i is ih =>
    cases i with
    | comment t nl => simpa [closeItems] using ih
    | entry e => simp [closeItems, List.getLast?_cons_cons]

theorem closeItems_closed (is : List PItem) (gaps paras) (hp : parasClosed paras)
    (h : paras = [] → gaps ≠ [] ∨ endsComment is) : parasClosed (closeItems is gaps paras).2 := by
  cases paras with
  | cons q ps =>
    intro pg hpg
    rw [closeItems_getLast] at hpg
    exact hp pg hpg
  | nil =>
    have h' := h rfl
    clear h hp
    induction is with
    | nil => intro pg hpg; simp [closeItems] at hpg
    | cons i is ih =>
      cases i with
      | comment t nl =>
        simp only [closeItems]
        cases is with
        | nil => intro pg hpg; simp [closeItems] at hpg
        | cons j js =>
          apply ih
          rcases h' with h | h
          · exact Or.inl h
          · right; simpa [endsComment, List.getLast?_cons_cons] using h
      | entry e =>
        intro pg hpg
        simp only [closeItems, List.getLast?_singleton, Option.some.injEq] at hpg
        subst hpg
        rcases h' with h | h
        · exact Or.inl h
        · right
          cases is with
          | nil => simp [endsComment, PItem.isComment] at h
          | cons j js => simpa [endsComment, List.getLast?_cons_cons] using h

theorem parasClosed_nil : parasClosed [] := by intro pg hpg; simp at hpg

theorem Suf.cons_closed (l : Line) (s s' : Suf) (h : Suf.cons l true s = some s') (hc : s.Closed) :
    s'.Closed := by
  obtain ⟨conts, items, gaps, paras⟩ := s
  cases l with
  | raw t => simp [Suf.cons] at h
  | blank =>
    cases conts with
    | cons c cs => simp [Suf.cons] at h
    | nil =>
      simp only [Suf.cons, ↓reduceIte, Option.some.injEq] at h
      subst h
      exact ⟨closeItems_closed items gaps paras hc.1 hc.2, fun _ => Or.inl (by simp)⟩
  | comment t =>
    cases conts with
    | cons c cs => simp [Suf.cons] at h
    | nil =>
      simp only [Suf.cons, Option.some.injEq] at h
      subst h
      exact ⟨hc.1, fun hp => (hc.2 hp).imp id (endsComment_cons _ _)⟩
  | field k w v =>
    simp only [Suf.cons, Option.some.injEq] at h
    subst h
    exact ⟨hc.1, fun hp => (hc.2 hp).imp id (endsComment_cons _ _)⟩
  | cont i v =>
    simp only [Suf.cons, Option.some.injEq] at h
    subst h
    exact hc

theorem Suf.cons_closed_base (l : Line) (hl : l.isValue = false) (s' : Suf)
    (h : Suf.cons l true Suf.empty = some s') : s'.Closed := by
  cases l with
  | raw t => simp [Suf.cons] at h
  | blank =>
    simp only [Suf.cons, Suf.empty, ↓reduceIte, closeItems, Option.some.injEq] at h
    subst h
    exact ⟨parasClosed_nil, fun _ => Or.inl (by simp)⟩
  | comment t =>
    simp only [Suf.cons, Suf.empty, Option.some.injEq] at h
    subst h
    exact ⟨parasClosed_nil, fun _ => Or.inr (by simp [endsComment, PItem.isComment])⟩
  | field k w v => simp [Line.isValue] at hl
  | cont i v => simp [Line.isValue] at hl

theorem sufOfLines_closed : ∀ (ls : List Line) (l : Line), ls.getLast? = some l → l.isValue = false →
    ∀ s, sufOfLines ls true = some s → s.Closed := by
  intro ls
  induction ls with
  | nil => intro l h; simp at h
  | cons x xs ih =>
    intro l hl hv s hs
    cases xs with
    | nil =>
      simp only [List.getLast?_singleton, Option.some.injEq] at hl
      subst hl
      simp only [sufOfLines, List.isEmpty_nil, Bool.not_true, Bool.or_true, Option.bind_some] at hs
      exact Suf.cons_closed_base x hv s hs
    | cons y ys =>
      rw [List.getLast?_cons_cons] at hl
      rw [sufOfLines] at hs
      cases h0 : sufOfLines (y :: ys) true with
      | none => rw [h0] at hs; simp at hs
      | some s0 =>
        rw [h0] at hs
        simp only [List.isEmpty_cons, Bool.not_false, Bool.true_or, Option.bind_some] at hs
        exact Suf.cons_closed x s0 s hs (ih l hl hv s0 h0)

/-- **`ClosedEnd` from the last line**: the document of a (fully terminated) line list that is empty or
    whose last line is a blank or comment line has a closed end -/
theorem docOfLines_closedEnd (ls : List Line) (hl : ∀ l, ls.getLast? = some l → l.isValue = false)
    (d : DocS) (hd : docOfLines ls true = some d) : ClosedEnd d := by
  cases hlast : ls.getLast? with
  | none =>
    have : ls = [] := by simpa using hlast
    subst this
    simp [docOfLines, sufOfLines, Suf.empty, closeItems] at hd
    subst hd
    exact parasClosed_nil
  | some l =>
    cases hs : sufOfLines ls true with
    | none => simp [docOfLines, hs] at hd
    | some s =>
      have hc := sufOfLines_closed ls l hlast (hl l hlast) s hs
      obtain ⟨conts, items, gaps, paras⟩ := s
      cases conts with
      | cons c cs => simp [docOfLines, hs] at hd
      | nil =>
        simp only [docOfLines, hs, Option.some.injEq] at hd
        subst hd
        exact closeItems_closed items gaps paras hc.1 hc.2

end Deb822Verif.Spec
