import Deb822Verif.Model.RelParse
/-!
# Work count of the lossless relation parser (`debian-control/src/lossless/relations.rs:74-401`)

Instrumented twins of the functions of `Model/RelParse.lean`: each returns the model's result *and*
the number of loop-body executions ("rounds") of the Rust loops it stands for.  A round is one
execution of the body of a `while` / `loop` (a round that ends in `break` is a round; the final
failing test of a `while` condition is not).

| twin               | Rust loop(s) counted                                                        |
|--------------------|-----------------------------------------------------------------------------|
| `skipWsC`          | `skip_ws`: `while current == WHITESPACE \|\| NEWLINE` (relations.rs:373-377)   |
| `peekC`            | `peek_past_ws`: `while i > 0` (379-389) — one round per token looked at; it   |
|                    | consumes nothing                                                            |
| `substLoopC`       | the `loop` of `parse_substvar` (97-109), the `break` round included          |
| `constraintLoopC`  | `while current is L_ANGLE \| R_ANGLE \| EQUAL` (208-213)                       |
| `versionLoopC`     | `while current == COLON` (224-231)                                           |
| `archLoopC`        | the `loop` of the architecture block (251-272) + its `skip_ws`               |
| `profLoopC`        | the inner `loop` of a profile block (281-308) + its `skip_ws` calls          |
| `profilesLoopC`    | `while peek_past_ws() == L_ANGLE` (276-311) + the peeks + the blocks          |
| `entryLoopC`       | the `loop` of `parse_entry` (121-153) + `parse_relation` + peek + separators |
| `rootLoopC`        | `while self.current().is_some()` of `Parser::parse` (321-355) + everything    |

`*_fst`: the first component is the model function.  The cost lemmas give every token a credit of 6
rounds: one for the loop round that bumps it and five for the five `peek_past_ws` calls that may look
at it from one parser position (after the package name: archqual, version, architectures, profiles,
and the separator test of `parse_entry`) before the position moves.  `wl ts` (leading blank tokens + 1)
bounds one peek at position `ts`.

Not loops of the parser and not counted: `lex(text)` (see `lexC`), `tokens.reverse()` (392-393),
`GreenNodeBuilder` calls (one per token / per node).
-/
set_option linter.unusedVariables false
namespace Deb822Verif.Rel.Work
open Deb822Verif Rel Node PR

abbrev PRC := PR × Nat

/-- a fragment without a loop (`bump`, `error`, a single test) -/
def pure0 (p : PR) : PRC := (p, 0)
def nilC (ts : List Tok) : PRC := (PR.nil ts, 0)
def andThenC (a : PRC) (f : List Tok → PRC) : PRC :=
  (a.1.andThen (fun x => (f x).1), a.2 + (f a.1.rest).2)
def wrapC (k : Kind) (a : PRC) : PRC := (a.1.wrap k, a.2)
/-- add the rounds of a `peek_past_ws` call made before the fragment -/
def addC (n : Nat) (p : PRC) : PRC := (p.1, p.2 + n)

theorem andThenC_fst {a : PRC} {f : List Tok → PRC} {a' : PR} {f' : List Tok → PR}
    (ha : a.1 = a') (hf : ∀ x, (f x).1 = f' x) : (andThenC a f).1 = a'.andThen f' := by
  have : (fun x => (f x).1) = f' := funext hf
  simp only [andThenC, ha, this]

theorem wrapC_fst {a : PRC} {a' : PR} (k : Kind) (ha : a.1 = a') : (wrapC k a).1 = a'.wrap k := by
  simp only [wrapC, ha]

@[simp] theorem addC_fst (n p) : (addC n p).1 = p.1 := rfl
@[simp] theorem pure0_fst (p) : (pure0 p).1 = p := rfl
@[simp] theorem nilC_fst (ts) : (nilC ts).1 = PR.nil ts := rfl

@[simp] theorem andThenC_rest (a f) : (andThenC a f).1.rest = (f a.1.rest).1.rest := rfl
@[simp] theorem andThenC_snd (a f) : (andThenC a f).2 = a.2 + (f a.1.rest).2 := rfl
@[simp] theorem wrapC_rest (k a) : (wrapC k a).1.rest = a.1.rest := rfl
@[simp] theorem wrapC_snd (k a) : (wrapC k a).2 = a.2 := rfl
@[simp] theorem addC_snd (n p) : (addC n p).2 = p.2 + n := rfl
@[simp] theorem pure0_snd (p) : (pure0 p).2 = 0 := rfl
@[simp] theorem nilC_snd (ts) : (nilC ts).2 = 0 := rfl
@[simp] theorem nilC_rest (ts) : (nilC ts).1.rest = ts := rfl

/-! ### `skip_ws`, `peek_past_ws` -/

def skipWsC : List Tok → PRC
  | [] => (⟨[], [], []⟩, 0)
  | t :: ts =>
    if isWsKind t.1 then (⟨tk t :: (skipWsC ts).1.nodes, [], (skipWsC ts).1.rest⟩, (skipWsC ts).2 + 1)
    else (⟨[], [], t :: ts⟩, 0)

theorem skipWsC_fst (ts) : (skipWsC ts).1 = skipWs ts := by
  induction ts with
  | nil => rfl
  | cons t ts ih => simp only [skipWsC, skipWs]; split <;> simp [ih]

def peekC : List Tok → Option Kind × Nat
  | [] => (none, 0)
  | t :: ts => if isWsKind t.1 then ((peekC ts).1, (peekC ts).2 + 1) else (some t.1, 1)

theorem peekC_fst (ts) : (peekC ts).1 = peekPastWs ts := by
  induction ts with
  | nil => rfl
  | cons t ts ih => simp only [peekC, peekPastWs]; split <;> simp [ih]

/-- leading blank tokens + 1: what one `peek_past_ws` at this position can cost -/
def wl : List Tok → Nat
  | [] => 1
  | t :: ts => if isWsKind t.1 then wl ts + 1 else 1

theorem wl_pos (ts) : 1 ≤ wl ts := by
  cases ts with
  | nil => simp [wl]
  | cons t ts => simp only [wl]; split <;> omega

theorem peekC_le (ts) : (peekC ts).2 ≤ wl ts := by
  induction ts with
  | nil => simp [peekC, wl]
  | cons t ts ih => simp only [peekC, wl]; split <;> simp <;> omega

/-- every round of `skip_ws` bumps one token -/
theorem skipWsC_len (ts) : (skipWsC ts).2 + (skipWsC ts).1.rest.length = ts.length := by
  induction ts with
  | nil => rfl
  | cons t ts ih => simp only [skipWsC]; split <;> simp <;> omega

theorem skipWsC_wl (ts) : (skipWsC ts).2 + 1 = wl ts := by
  induction ts with
  | nil => rfl
  | cons t ts ih => simp only [skipWsC, wl]; split <;> simp <;> omega

theorem wl_skip (ts) : wl (skipWsC ts).1.rest = 1 := by
  induction ts with
  | nil => rfl
  | cons t ts ih =>
    simp only [skipWsC]; split
    · exact ih
    · rename_i h; simp [wl, h]

theorem wl_le_len (ts : List Tok) : wl ts ≤ ts.length + 1 := by
  have := skipWsC_wl ts; have := skipWsC_len ts; omega

theorem peekC_some {ts k} (h : (peekC ts).1 = some k) :
    ∃ t r, (skipWsC ts).1.rest = t :: r ∧ t.1 = k := by
  rw [peekC_fst] at h; rw [skipWsC_fst]; exact peek_some h

theorem peekC_none {ts} (h : (peekC ts).1 = none) : (skipWsC ts).1.rest = [] := by
  rw [peekC_fst, peek_eq_cur_skip] at h
  rw [skipWsC_fst]
  cases hr : (skipWs ts).rest with
  | nil => rfl
  | cons t r => rw [hr] at h; simp [cur] at h

/-- a position whose first token is not blank -/
theorem wl_of_not_ws (t : Tok) (r) (h : isWsKind t.1 = false) : wl (t :: r) = 1 := by simp [wl, h]

/-! ### loop-free pieces -/

theorem bump1_rest (t : Tok) (r) : (bump1 (t :: r)).rest = r := rfl
theorem errorTok_rest (msg) (t : Tok) (r) : (errorTok msg (t :: r)).rest = r := rfl
theorem expect_rest (k msg) (t : Tok) (r) : (expect k msg (t :: r)).rest = r := by
  unfold expect; split <;> rfl
theorem expect_nil (k msg) : (expect k msg []).rest = [] := by
  unfold expect; split <;> rfl
theorem expect_len (k msg ts) : (expect k msg ts).rest.length ≤ ts.length := (expect_ok k msg ts).len

/-! ### `parse_substvar` -/

def substLoopC : List Tok → PRC
  | [] => (⟨[], [], []⟩, 1)
  | t :: ts =>
    if t.1 = .IDENT ∨ t.1 = .COLON then
      (⟨tk t :: (substLoopC ts).1.nodes, (substLoopC ts).1.errs, (substLoopC ts).1.rest⟩,
        (substLoopC ts).2 + 1)
    else if t.1 = .R_CURLY then (⟨[], [], t :: ts⟩, 1)
    else (⟨Node.node .ERROR [tk t] :: (substLoopC ts).1.nodes,
      s!"expected identifier or : but got {optName (some t.1)}" :: (substLoopC ts).1.errs,
      (substLoopC ts).1.rest⟩, (substLoopC ts).2 + 1)

theorem substLoopC_fst (ts) : (substLoopC ts).1 = substLoop ts := by
  induction ts with
  | nil => rfl
  | cons t ts ih => simp only [substLoopC, substLoop]; (repeat' split) <;> simp [ih]

/-- every round bumps a token except the last one (`break` on `}` or at the end of the input) -/
theorem substLoopC_len (ts) : (substLoopC ts).2 + (substLoopC ts).1.rest.length = ts.length + 1 := by
  induction ts with
  | nil => rfl
  | cons t ts ih => simp only [substLoopC]; (repeat' split) <;> simp <;> omega

def parseSubstvarC (ts : List Tok) : PRC :=
  wrapC .SUBSTVAR (andThenC (pure0 (bump1 ts)) fun ts => andThenC (pure0 (substOpen ts)) fun ts =>
    andThenC (substLoopC ts) fun ts => pure0 (substClose ts))

theorem parseSubstvarC_fst (ts) : (parseSubstvarC ts).1 = parseSubstvar ts :=
  wrapC_fst _ (andThenC_fst rfl fun _ => andThenC_fst rfl fun _ =>
    andThenC_fst (substLoopC_fst _) fun _ => rfl)

/-- the `$` is bumped outside the loop and pays for the `break` round -/
theorem parseSubstvarC_len (t : Tok) (r) :
    (parseSubstvarC (t :: r)).2 + (parseSubstvarC (t :: r)).1.rest.length ≤ (t :: r).length := by
  have h1 := (substOpen_ok r).len
  have h2 := substLoopC_len (substOpen r).rest
  have h3 := (substClose_ok (substLoopC (substOpen r).rest).1.rest).len
  simp only [parseSubstvarC, wrapC_snd, wrapC_rest, andThenC_snd, andThenC_rest, pure0_snd, pure0_fst,
    bump1_rest, List.length_cons]
  omega

/-! ### the pieces of `parse_relation` -/

/-- relations.rs:173-198; the `match` evaluates `peek_past_ws()` once -/
def archqualPartC (ts : List Tok) : PRC :=
  addC (peekC ts).2 <|
  if (peekC ts).1 = some .COLON then
    andThenC (skipWsC ts) fun ts =>
      andThenC (wrapC .ARCHQUAL (andThenC (pure0 (bump1 ts)) fun ts => andThenC (skipWsC ts)
        fun ts => pure0 (expect .IDENT "Expected architecture name" ts))) skipWsC
  else if (peekC ts).1 = some .PIPE ∨ (peekC ts).1 = some .COMMA then nilC ts
  else if (peekC ts).1 = none ∨ (peekC ts).1 = some .L_PARENS ∨ (peekC ts).1 = some .L_BRACKET
      ∨ (peekC ts).1 = some .L_ANGLE then skipWsC ts
  else
    andThenC (skipWsC ts) fun ts' => pure0
      (errorTok s!"Expected ':' or '|' or '[' or '<' or ',' but got {optName (peekC ts).1}" ts')

theorem archqualPartC_fst (ts) : (archqualPartC ts).1 = archqualPart ts := by
  simp only [archqualPartC, archqualPart, addC_fst, peekC_fst]
  (repeat' split)
  · exact andThenC_fst (skipWsC_fst _) fun _ => andThenC_fst (wrapC_fst _ (andThenC_fst rfl fun _ =>
      andThenC_fst (skipWsC_fst _) fun _ => rfl)) skipWsC_fst
  · rfl
  · exact skipWsC_fst _
  · exact andThenC_fst (skipWsC_fst _) fun _ => rfl

def constraintLoopC : List Tok → PRC
  | [] => (⟨[], [], []⟩, 0)
  | t :: ts =>
    if t.1 = .L_ANGLE ∨ t.1 = .R_ANGLE ∨ t.1 = .EQUAL then
      (⟨tk t :: (constraintLoopC ts).1.nodes, [], (constraintLoopC ts).1.rest⟩,
        (constraintLoopC ts).2 + 1)
    else (⟨[], [], t :: ts⟩, 0)

theorem constraintLoopC_fst (ts) : (constraintLoopC ts).1 = constraintLoop ts := by
  induction ts with
  | nil => rfl
  | cons t ts ih => simp only [constraintLoopC, constraintLoop]; split <;> simp [ih]

theorem constraintLoopC_len (ts) :
    (constraintLoopC ts).2 + (constraintLoopC ts).1.rest.length = ts.length := by
  induction ts with
  | nil => rfl
  | cons t ts ih => simp only [constraintLoopC]; split <;> simp <;> omega

def versionLoopC : List Tok → PRC
  | [] => (⟨[], [], []⟩, 0)
  | [c] =>
    if c.1 = .COLON then (⟨[tk c, Node.node .ERROR []], ["Expected version"], []⟩, 1)
    else (⟨[], [], [c]⟩, 0)
  | c :: t :: ts =>
    if c.1 = .COLON then
      if t.1 = .IDENT then
        (⟨tk c :: tk t :: (versionLoopC ts).1.nodes, (versionLoopC ts).1.errs,
          (versionLoopC ts).1.rest⟩, (versionLoopC ts).2 + 1)
      else
        (⟨tk c :: Node.node .ERROR [tk t] :: (versionLoopC ts).1.nodes,
          "Expected version" :: (versionLoopC ts).1.errs, (versionLoopC ts).1.rest⟩,
          (versionLoopC ts).2 + 1)
    else (⟨[], [], c :: t :: ts⟩, 0)

theorem versionLoopC_fst (ts) : (versionLoopC ts).1 = versionLoop ts := by
  fun_induction versionLoopC ts <;> simp_all [versionLoop]

/-- every round of the version loop bumps at least the COLON -/
theorem versionLoopC_len (ts) :
    (versionLoopC ts).2 + (versionLoopC ts).1.rest.length ≤ ts.length := by
  fun_induction versionLoopC ts <;> simp <;> omega

def versionTokC (ts : List Tok) : PRC :=
  if cur ts = some .IDENT then andThenC (pure0 (bump1 ts)) versionLoopC
  else pure0 (errorTok "Expected version" ts)

theorem versionTokC_fst (ts) : (versionTokC ts).1 = versionTok ts := by
  simp only [versionTokC, versionTok]; split
  · exact andThenC_fst rfl versionLoopC_fst
  · rfl

theorem versionTokC_len (ts) : (versionTokC ts).2 + (versionTokC ts).1.rest.length ≤ ts.length := by
  simp only [versionTokC]; split
  · have h1 := (bump1_ok ts).len
    have h2 := versionLoopC_len (bump1 ts).rest
    simp only [andThenC_snd, andThenC_rest, pure0_snd, pure0_fst]; omega
  · have := (errorTok_ok "Expected version" ts).len
    simp only [pure0_snd, pure0_fst]; omega

/-- what follows the `(` inside the VERSION node (relations.rs:203-243) -/
def versionInnerC (ts : List Tok) : PRC :=
  andThenC (skipWsC ts) fun ts =>
    andThenC (wrapC .CONSTRAINT (constraintLoopC ts)) fun ts => andThenC (skipWsC ts) fun ts =>
    andThenC (versionTokC ts) fun ts => andThenC (skipWsC ts)
      fun ts => pure0 (expect .R_PARENS "Expected ')'" ts)

theorem versionInnerC_len (ts) :
    (versionInnerC ts).2 + (versionInnerC ts).1.rest.length ≤ ts.length := by
  have h1 := skipWsC_len ts
  have h2 := constraintLoopC_len (skipWsC ts).1.rest
  have h3 := skipWsC_len (constraintLoopC (skipWsC ts).1.rest).1.rest
  have h4 := versionTokC_len (skipWsC (constraintLoopC (skipWsC ts).1.rest).1.rest).1.rest
  have h5 := skipWsC_len (versionTokC (skipWsC (constraintLoopC (skipWsC ts).1.rest).1.rest).1.rest).1.rest
  have h6 := expect_len .R_PARENS "Expected ')'"
    (skipWsC (versionTokC (skipWsC (constraintLoopC (skipWsC ts).1.rest).1.rest).1.rest).1.rest).1.rest
  simp only [versionInnerC, andThenC_snd, andThenC_rest, wrapC_snd, wrapC_rest, pure0_snd, pure0_fst]
  omega

def versionPartC (ts : List Tok) : PRC :=
  addC (peekC ts).2 <|
  if (peekC ts).1 = some .L_PARENS then
    andThenC (skipWsC ts) fun ts =>
      wrapC .VERSION (andThenC (pure0 (bump1 ts)) versionInnerC)
  else nilC ts

theorem versionPartC_fst (ts) : (versionPartC ts).1 = versionPart ts := by
  simp only [versionPartC, versionPart, addC_fst, peekC_fst]
  split
  · exact andThenC_fst (skipWsC_fst _) fun _ => wrapC_fst _ (andThenC_fst rfl fun _ =>
      andThenC_fst (skipWsC_fst _) fun _ => andThenC_fst (wrapC_fst _ (constraintLoopC_fst _)) fun _ =>
      andThenC_fst (skipWsC_fst _) fun _ => andThenC_fst (versionTokC_fst _) fun _ =>
      andThenC_fst (skipWsC_fst _) fun _ => rfl)
  · rfl

def archLoopC (ts : List Tok) : PRC :=
  match h : (skipWsC ts).1.rest with
  | [] => (⟨(skipWsC ts).1.nodes ++ [Node.node .ERROR []], [archMsg], []⟩, (skipWsC ts).2 + 1)
  | t :: r =>
    if t.1 = .NOT ∨ t.1 = .IDENT then
      (⟨(skipWsC ts).1.nodes ++ tk t :: (archLoopC r).1.nodes, (archLoopC r).1.errs,
        (archLoopC r).1.rest⟩, (skipWsC ts).2 + 1 + (archLoopC r).2)
    else if t.1 = .R_BRACKET then (⟨(skipWsC ts).1.nodes ++ [tk t], [], r⟩, (skipWsC ts).2 + 1)
    else
      (⟨(skipWsC ts).1.nodes ++ Node.node .ERROR [tk t] :: (archLoopC r).1.nodes,
        archMsg :: (archLoopC r).1.errs, (archLoopC r).1.rest⟩, (skipWsC ts).2 + 1 + (archLoopC r).2)
termination_by ts.length
decreasing_by
  all_goals
    have h1 := skipWsC_len ts
    rw [h] at h1
    simp at h1 ⊢
    omega

theorem archLoopC_fst (ts) : (archLoopC ts).1 = archLoop ts := by
  fun_induction archLoopC ts
  case case1 x h =>
    rw [skipWsC_fst] at h ⊢
    rw [archLoop]; split
    · rfl
    · rename_i h2; rw [h] at h2; cases h2
  case case2 x t r h hk ih =>
    rw [skipWsC_fst] at h ⊢
    rw [archLoop]; split
    · rename_i h2; rw [h] at h2; cases h2
    · rename_i h2; rw [h] at h2; cases h2; simp only [if_pos hk, ih]
  case case3 x t r h hk hb =>
    rw [skipWsC_fst] at h ⊢
    rw [archLoop]; split
    · rename_i h2; rw [h] at h2; cases h2
    · rename_i h2; rw [h] at h2; cases h2; simp only [if_neg hk, if_pos hb]
  case case4 x t r h hk hb ih =>
    rw [skipWsC_fst] at h ⊢
    rw [archLoop]; split
    · rename_i h2; rw [h] at h2; cases h2
    · rename_i h2; rw [h] at h2; cases h2; simp only [if_neg hk, if_neg hb, ih]

/-- every round (its `skip_ws` included) bumps as many tokens as it counts rounds, except the round
    that meets the end of the input -/
theorem archLoopC_len (ts) : (archLoopC ts).2 + (archLoopC ts).1.rest.length ≤ ts.length + 1 := by
  fun_induction archLoopC ts
  case case1 x h => have h1 := skipWsC_len x; rw [h] at h1; simp at h1 ⊢; omega
  case case2 x t r h hk ih => have h1 := skipWsC_len x; rw [h] at h1; simp at h1 ⊢; omega
  case case3 x t r h hk hb => have h1 := skipWsC_len x; rw [h] at h1; simp at h1 ⊢; omega
  case case4 x t r h hk hb ih => have h1 := skipWsC_len x; rw [h] at h1; simp at h1 ⊢; omega

def archPartC (ts : List Tok) : PRC :=
  addC (peekC ts).2 <|
  if (peekC ts).1 = some .L_BRACKET then
    andThenC (skipWsC ts) fun ts => wrapC .ARCHITECTURES (andThenC (pure0 (bump1 ts)) archLoopC)
  else nilC ts

theorem archPartC_fst (ts) : (archPartC ts).1 = archPart ts := by
  simp only [archPartC, archPart, addC_fst, peekC_fst]
  split
  · exact andThenC_fst (skipWsC_fst _) fun _ => wrapC_fst _ (andThenC_fst rfl archLoopC_fst)
  · rfl

def notTailC (ts : List Tok) : PRC :=
  andThenC (skipWsC ts) fun ts => pure0 (expect .IDENT "Expected profile" ts)

theorem notTailC_fst (ts) : (notTailC ts).1 = notTail ts :=
  andThenC_fst (skipWsC_fst _) fun _ => rfl

theorem notTailC_len (ts) : (notTailC ts).2 + (notTailC ts).1.rest.length ≤ ts.length := by
  have h1 := skipWsC_len ts
  have h2 := expect_len .IDENT "Expected profile" (skipWsC ts).1.rest
  simp only [notTailC, andThenC_snd, andThenC_rest, pure0_snd, pure0_fst]; omega

def profLoopC (ts : List Tok) : PRC :=
  match h : (skipWsC ts).1.rest with
  | [] => (⟨(skipWsC ts).1.nodes ++ [Node.node .ERROR []], ["Expected profile or '>'"], []⟩,
      (skipWsC ts).2 + 1)
  | t :: r =>
    if t.1 = .IDENT then
      (⟨(skipWsC ts).1.nodes ++ tk t :: (profLoopC r).1.nodes, (profLoopC r).1.errs,
        (profLoopC r).1.rest⟩, (skipWsC ts).2 + 1 + (profLoopC r).2)
    else if t.1 = .NOT then
      (⟨(skipWsC ts).1.nodes ++ tk t :: ((notTailC r).1.nodes ++ (profLoopC (notTailC r).1.rest).1.nodes),
        (notTailC r).1.errs ++ (profLoopC (notTailC r).1.rest).1.errs,
        (profLoopC (notTailC r).1.rest).1.rest⟩,
       (skipWsC ts).2 + 1 + (notTailC r).2 + (profLoopC (notTailC r).1.rest).2)
    else if t.1 = .R_ANGLE then (⟨(skipWsC ts).1.nodes ++ [tk t], [], r⟩, (skipWsC ts).2 + 1)
    else
      (⟨(skipWsC ts).1.nodes ++ Node.node .ERROR [tk t] :: (profLoopC r).1.nodes,
        "Expected profile or '!' or '>'" :: (profLoopC r).1.errs, (profLoopC r).1.rest⟩,
       (skipWsC ts).2 + 1 + (profLoopC r).2)
termination_by ts.length
decreasing_by
  all_goals
    have h1 := skipWsC_len ts
    have h2 := notTailC_len r
    rw [h] at h1
    simp at h1 ⊢
    omega

theorem profLoopC_fst (ts) : (profLoopC ts).1 = profLoop ts := by
  fun_induction profLoopC ts
  case case1 x h =>
    rw [skipWsC_fst] at h ⊢
    rw [profLoop]; split
    · rfl
    · rename_i h2; rw [h] at h2; cases h2
  case case2 x t r h hk ih =>
    rw [skipWsC_fst] at h ⊢
    rw [profLoop]; split
    · rename_i h2; rw [h] at h2; cases h2
    · rename_i h2; rw [h] at h2; cases h2; simp only [if_pos hk, ih]
  case case3 x t r h hk hn ih =>
    rw [skipWsC_fst] at h ⊢
    rw [notTailC_fst] at ih ⊢
    rw [profLoop]; split
    · rename_i h2; rw [h] at h2; cases h2
    · rename_i h2; rw [h] at h2; cases h2; simp only [if_neg hk, if_pos hn, ih]
  case case4 x t r h hk hn hb =>
    rw [skipWsC_fst] at h ⊢
    rw [profLoop]; split
    · rename_i h2; rw [h] at h2; cases h2
    · rename_i h2; rw [h] at h2; cases h2; simp only [if_neg hk, if_neg hn, if_pos hb]
  case case5 x t r h hk hn hb ih =>
    rw [skipWsC_fst] at h ⊢
    rw [profLoop]; split
    · rename_i h2; rw [h] at h2; cases h2
    · rename_i h2; rw [h] at h2; cases h2; simp only [if_neg hk, if_neg hn, if_neg hb, ih]

theorem profLoopC_len (ts) : (profLoopC ts).2 + (profLoopC ts).1.rest.length ≤ ts.length + 1 := by
  fun_induction profLoopC ts
  case case1 x h => have h1 := skipWsC_len x; rw [h] at h1; simp at h1 ⊢; omega
  case case2 x t r h hk ih => have h1 := skipWsC_len x; rw [h] at h1; simp at h1 ⊢; omega
  case case3 x t r h hk hn ih =>
    have h1 := skipWsC_len x; have h2 := notTailC_len r
    rw [h] at h1; simp at h1 ⊢; omega
  case case4 x t r h hk hn hb => have h1 := skipWsC_len x; rw [h] at h1; simp at h1 ⊢; omega
  case case5 x t r h hk hn hb ih => have h1 := skipWsC_len x; rw [h] at h1; simp at h1 ⊢; omega

def profBlockC (ts : List Tok) : PRC :=
  andThenC (skipWsC ts) fun ts => wrapC .PROFILES (andThenC (pure0 (bump1 ts)) profLoopC)

theorem profBlockC_fst (ts) : (profBlockC ts).1 = profBlock ts :=
  andThenC_fst (skipWsC_fst _) fun _ => wrapC_fst _ (andThenC_fst rfl profLoopC_fst)

/-- `while self.peek_past_ws() == Some(L_ANGLE)`: the peek of every test (the failing one included),
    one round per block, and the block -/
def profilesLoopC (ts : List Tok) : PRC :=
  if h : (peekC ts).1 = some .L_ANGLE then
    (⟨(profBlockC ts).1.nodes ++ (profilesLoopC (profBlockC ts).1.rest).1.nodes,
      (profBlockC ts).1.errs ++ (profilesLoopC (profBlockC ts).1.rest).1.errs,
      (profilesLoopC (profBlockC ts).1.rest).1.rest⟩,
     (peekC ts).2 + 1 + (profBlockC ts).2 + (profilesLoopC (profBlockC ts).1.rest).2)
  else (PR.nil ts, (peekC ts).2)
termination_by ts.length
decreasing_by
  all_goals
    rw [peekC_fst] at h
    rw [profBlockC_fst]
    exact profBlock_progress h

theorem profilesLoopC_fst (ts) : (profilesLoopC ts).1 = profilesLoop ts := by
  fun_induction profilesLoopC ts
  case case1 x h ih =>
    rw [profBlockC_fst] at ih ⊢
    rw [peekC_fst] at h
    rw [profilesLoop]; simp only [h, ↓reduceDIte, ih]
  case case2 x h =>
    rw [peekC_fst] at h
    rw [profilesLoop]; simp only [h, ↓reduceDIte]

def parseRelationC (ts : List Tok) : PRC :=
  wrapC .RELATION (andThenC (pure0 (expect .IDENT "Expected package name" ts)) fun ts =>
    andThenC (archqualPartC ts) fun ts => andThenC (versionPartC ts) fun ts =>
    andThenC (archPartC ts) profilesLoopC)

theorem parseRelationC_fst (ts) : (parseRelationC ts).1 = parseRelation ts :=
  wrapC_fst _ (andThenC_fst rfl fun _ => andThenC_fst (archqualPartC_fst _) fun _ =>
    andThenC_fst (versionPartC_fst _) fun _ => andThenC_fst (archPartC_fst _) profilesLoopC_fst)

/-! ### cost of the four peeking pieces

Each piece makes one `peek_past_ws` at its position `ts` and either stays (`rest = ts`, the peek is
"owed") or moves over the blank run and at least one more token.  With `j` peeks owed at `ts` before
the piece: `rounds + 6·|rest| + j·wl ts ≤ 6·|ts| + (j+1)·wl rest`. -/

/-- a piece that skips the blanks, bumps the token found by the peek and then behaves linearly -/
theorem moved_cost {ts : List Tok} {t : Tok} {r : List Tok} (hs : (skipWsC ts).1.rest = t :: r)
    (G : List Tok → PRC) (hG : (G (t :: r)).2 + (G (t :: r)).1.rest.length + 1 ≤ (t :: r).length + 1)
    (hG2 : (G (t :: r)).1.rest.length ≤ r.length) :
    (andThenC (skipWsC ts) G).2 + (andThenC (skipWsC ts) G).1.rest.length ≤ ts.length ∧
      (andThenC (skipWsC ts) G).1.rest.length + wl ts ≤ ts.length := by
  have h1 := skipWsC_len ts
  have h2 := skipWsC_wl ts
  rw [hs] at h1
  simp only [andThenC_snd, andThenC_rest, hs]
  simp only [List.length_cons] at *
  omega

theorem archqualPartC_cost (ts) :
    (archqualPartC ts).2 + 6 * (archqualPartC ts).1.rest.length
      ≤ 6 * ts.length + wl (archqualPartC ts).1.rest := by
  have hp := peekC_le ts
  have hw : ∀ x : List Tok, 1 ≤ wl x := wl_pos
  simp only [archqualPartC, addC_snd, addC_fst]
  split
  · rename_i hk
    obtain ⟨t, r, hs, _⟩ := peekC_some hk
    have h1 := skipWsC_len r
    have h2 := expect_len .IDENT "Expected architecture name" (skipWsC r).1.rest
    have h3 := skipWsC_len (expect .IDENT "Expected architecture name" (skipWsC r).1.rest).rest
    have := moved_cost hs (fun ts => andThenC (wrapC .ARCHQUAL (andThenC (pure0 (bump1 ts)) fun ts =>
      andThenC (skipWsC ts) fun ts => pure0 (expect .IDENT "Expected architecture name" ts))) skipWsC)
      (by simp only [andThenC_snd, andThenC_rest, wrapC_snd, wrapC_rest, pure0_snd, pure0_fst,
            bump1_rest, List.length_cons]; omega)
      (by simp only [andThenC_rest, wrapC_rest, pure0_fst, bump1_rest]; omega)
    have := hw (andThenC (skipWsC ts) fun ts =>
      andThenC (wrapC .ARCHQUAL (andThenC (pure0 (bump1 ts)) fun ts => andThenC (skipWsC ts)
        fun ts => pure0 (expect .IDENT "Expected architecture name" ts))) skipWsC).1.rest
    omega
  · split
    · simp only [nilC_snd, nilC_rest]; omega
    · split
      · have h1 := skipWsC_len ts
        have h2 := wl_skip ts
        have h3 := skipWsC_wl ts
        rw [h2]; omega
      · rename_i h1 h2 h3
        have hex : ∃ k, (peekC ts).1 = some k := by
          cases hk : (peekC ts).1 with
          | none => simp [hk] at h3
          | some k => exact ⟨k, rfl⟩
        obtain ⟨k, hk⟩ := hex
        · obtain ⟨t, r, hs, _⟩ := peekC_some hk
          have := moved_cost hs (fun ts' => pure0
            (errorTok s!"Expected ':' or '|' or '[' or '<' or ',' but got {optName (peekC ts).1}" ts'))
            (by simp only [pure0_snd, pure0_fst, errorTok_rest, List.length_cons]; omega)
            (by simp only [pure0_fst, errorTok_rest]; omega)
          have := hw (andThenC (skipWsC ts) fun ts' => pure0
            (errorTok s!"Expected ':' or '|' or '[' or '<' or ',' but got {optName (peekC ts).1}" ts')).1.rest
          omega

theorem versionPartC_cost (ts) :
    (versionPartC ts).2 + 6 * (versionPartC ts).1.rest.length + wl ts
      ≤ 6 * ts.length + 2 * wl (versionPartC ts).1.rest := by
  have hp := peekC_le ts
  have hw : ∀ x : List Tok, 1 ≤ wl x := wl_pos
  simp only [versionPartC, addC_snd, addC_fst]
  split
  · rename_i hk
    obtain ⟨t, r, hs, _⟩ := peekC_some hk
    have h1 := versionInnerC_len r
    have := moved_cost hs (fun ts => wrapC .VERSION (andThenC (pure0 (bump1 ts)) versionInnerC))
      (by simp only [andThenC_snd, andThenC_rest, wrapC_snd, wrapC_rest, pure0_snd, pure0_fst,
            bump1_rest, List.length_cons]; omega)
      (by simp only [andThenC_rest, wrapC_rest, pure0_fst, bump1_rest]; omega)
    have := hw (andThenC (skipWsC ts) fun ts =>
      wrapC .VERSION (andThenC (pure0 (bump1 ts)) versionInnerC)).1.rest
    omega
  · simp only [nilC_snd, nilC_rest]; omega

theorem archPartC_cost (ts) :
    (archPartC ts).2 + 6 * (archPartC ts).1.rest.length + 2 * wl ts
      ≤ 6 * ts.length + 3 * wl (archPartC ts).1.rest := by
  have hp := peekC_le ts
  have hw : ∀ x : List Tok, 1 ≤ wl x := wl_pos
  simp only [archPartC, addC_snd, addC_fst]
  split
  · rename_i hk
    obtain ⟨t, r, hs, _⟩ := peekC_some hk
    have h1 := archLoopC_len r
    have := moved_cost hs (fun ts => wrapC .ARCHITECTURES (andThenC (pure0 (bump1 ts)) archLoopC))
      (by simp only [andThenC_snd, andThenC_rest, wrapC_snd, wrapC_rest, pure0_snd, pure0_fst,
            bump1_rest, List.length_cons]; omega)
      (by have := (archLoop_ok r).len; rw [← archLoopC_fst] at this
          simp only [andThenC_rest, wrapC_rest, pure0_fst, bump1_rest]; omega)
    have := hw (andThenC (skipWsC ts) fun ts =>
      wrapC .ARCHITECTURES (andThenC (pure0 (bump1 ts)) archLoopC)).1.rest
    omega
  · simp only [nilC_snd, nilC_rest]; omega

theorem profBlockC_cost {ts k} (h : (peekC ts).1 = some k) :
    (profBlockC ts).2 + (profBlockC ts).1.rest.length ≤ ts.length ∧
      (profBlockC ts).1.rest.length + wl ts ≤ ts.length := by
  obtain ⟨t, r, hs, _⟩ := peekC_some h
  have h1 := profLoopC_len r
  exact moved_cost hs (fun ts => wrapC .PROFILES (andThenC (pure0 (bump1 ts)) profLoopC))
    (by simp only [andThenC_snd, andThenC_rest, wrapC_snd, wrapC_rest, pure0_snd, pure0_fst,
          bump1_rest, List.length_cons]; omega)
    (by have := (profLoop_ok r).len; rw [← profLoopC_fst] at this
        simp only [andThenC_rest, wrapC_rest, pure0_fst, bump1_rest]; omega)

theorem profilesLoopC_cost (ts) :
    (profilesLoopC ts).2 + 6 * (profilesLoopC ts).1.rest.length + 3 * wl ts
      ≤ 6 * ts.length + 4 * wl (profilesLoopC ts).1.rest := by
  fun_induction profilesLoopC ts
  case case1 x h ih =>
    have hp := peekC_le x
    have h1 := profBlockC_cost h
    have hw := wl_pos (profBlockC x).1.rest
    simp only []
    omega
  case case2 x h =>
    have hp := peekC_le x
    simp only [PR.nil]; omega

/-- `parse_relation`: its loops and its four peeks.  On a non-empty token list the first token (the
    package name, or the token wrapped in ERROR) is bumped outside any loop: 6 rounds to spare -/
theorem parseRelationC_cost (ts) :
    (parseRelationC ts).2 + 6 * (parseRelationC ts).1.rest.length + 6 * (if ts = [] then 0 else 1)
      ≤ 6 * ts.length + 4 * wl (parseRelationC ts).1.rest := by
  have h1 := archqualPartC_cost (expect .IDENT "Expected package name" ts).rest
  have h2 := versionPartC_cost (archqualPartC (expect .IDENT "Expected package name" ts).rest).1.rest
  have h3 := archPartC_cost
    (versionPartC (archqualPartC (expect .IDENT "Expected package name" ts).rest).1.rest).1.rest
  have h4 := profilesLoopC_cost (archPartC
    (versionPartC (archqualPartC (expect .IDENT "Expected package name" ts).rest).1.rest).1.rest).1.rest
  simp only [parseRelationC, wrapC_snd, wrapC_rest, andThenC_snd, andThenC_rest, pure0_snd, pure0_fst]
  cases ts with
  | nil => simp only [expect_nil, List.length_nil] at *; simp; omega
  | cons t r => simp only [expect_rest, List.length_cons] at *; simp; omega

/-! ### `parse_entry` -/

def pipeSepC (ts : List Tok) : PRC :=
  andThenC (skipWsC ts) fun ts => andThenC (pure0 (bump1 ts)) skipWsC

def junkSepC (ts : List Tok) : PRC := andThenC (skipWsC ts) fun ts => pure0 (popErr ts)

theorem pipeSepC_fst (ts) : (pipeSepC ts).1 = pipeSep ts :=
  andThenC_fst (skipWsC_fst _) fun _ => andThenC_fst rfl skipWsC_fst

theorem junkSepC_fst (ts) : (junkSepC ts).1 = junkSep ts :=
  andThenC_fst (skipWsC_fst _) fun _ => rfl

theorem popErr_rest (t : Tok) (r) : (popErr (t :: r)).rest = r := rfl

theorem pipeSepC_cost {ts k} (h : (peekC ts).1 = some k) :
    (pipeSepC ts).2 + (pipeSepC ts).1.rest.length + 1 ≤ ts.length ∧
      (pipeSepC ts).1.rest.length + wl ts ≤ ts.length := by
  obtain ⟨t, r, hs, _⟩ := peekC_some h
  have h1 := skipWsC_len ts
  have h2 := skipWsC_wl ts
  have h3 := skipWsC_len r
  rw [hs] at h1
  simp only [pipeSepC, andThenC_snd, andThenC_rest, pure0_snd, pure0_fst, hs, bump1_rest]
  simp only [List.length_cons] at *
  omega

theorem junkSepC_cost {ts k} (h : (peekC ts).1 = some k) :
    (junkSepC ts).2 + (junkSepC ts).1.rest.length + 1 ≤ ts.length ∧
      (junkSepC ts).1.rest.length + wl ts ≤ ts.length := by
  obtain ⟨t, r, hs, _⟩ := peekC_some h
  have h1 := skipWsC_len ts
  have h2 := skipWsC_wl ts
  rw [hs] at h1
  simp only [junkSepC, andThenC_snd, andThenC_rest, pure0_snd, pure0_fst, hs, popErr_rest]
  simp only [List.length_cons] at *
  omega

/-- one round of the entry loop that goes on: relation `rel`, the peek `pk`, separator `sep`, and the
    rest of the loop `tail` -/
def entryCons (rel : PRC) (pk : Nat) (sep : PRC) (tail : PRC) : PRC :=
  (⟨rel.1.nodes ++ sep.1.nodes ++ tail.1.nodes, rel.1.errs ++ sep.1.errs ++ tail.1.errs, tail.1.rest⟩,
   1 + rel.2 + pk + sep.2 + tail.2)

/-- the `loop` of `parse_entry`: one round per relation, `parse_relation`, the `peek_past_ws` of the
    `match`, the `skip_ws` calls of the arm -/
def entryLoopC (ts : List Tok) : PRC :=
  if hc : (peekC (parseRelationC ts).1.rest).1 = some .COMMA then
    ((parseRelationC ts).1, 1 + (parseRelationC ts).2 + (peekC (parseRelationC ts).1.rest).2)
  else if hp : (peekC (parseRelationC ts).1.rest).1 = some .PIPE then
    entryCons (parseRelationC ts) (peekC (parseRelationC ts).1.rest).2 (pipeSepC (parseRelationC ts).1.rest)
      (entryLoopC (pipeSepC (parseRelationC ts).1.rest).1.rest)
  else if hn : (peekC (parseRelationC ts).1.rest).1 = none then
    (((parseRelationC ts).1).andThen (fun x => (skipWsC x).1),
      1 + (parseRelationC ts).2 + (peekC (parseRelationC ts).1.rest).2
        + (skipWsC (parseRelationC ts).1.rest).2)
  else
    entryCons (parseRelationC ts) (peekC (parseRelationC ts).1.rest).2 (junkSepC (parseRelationC ts).1.rest)
      (entryLoopC (junkSepC (parseRelationC ts).1.rest).1.rest)
termination_by ts.length
decreasing_by
  · have h1 := (parseRelation_ok ts).len
    rw [← parseRelationC_fst] at h1
    have h2 := (pipeSepC_cost hp).1
    omega
  · have h1 := (parseRelation_ok ts).len
    rw [← parseRelationC_fst] at h1
    cases hk : (peekC (parseRelationC ts).1.rest).1 with
    | none => exact absurd hk hn
    | some k =>
      have h2 := (junkSepC_cost hk).1
      omega

theorem entryLoopC_fst (ts) : (entryLoopC ts).1 = entryLoop ts := by
  fun_induction entryLoopC ts
  case case1 x hc =>
    rw [parseRelationC_fst, peekC_fst] at hc
    rw [entryLoop, dif_pos hc]; exact parseRelationC_fst x
  case case2 x hc hp ih =>
    rw [parseRelationC_fst, peekC_fst] at hc hp
    simp only [entryCons]
    rw [parseRelationC_fst, pipeSepC_fst] at ih ⊢
    rw [entryLoop, dif_neg hc, dif_pos hp, ih]
  case case3 x hc hp hn =>
    rw [parseRelationC_fst, peekC_fst] at hc hp hn
    rw [parseRelationC_fst]
    have : (fun x => (skipWsC x).1) = skipWs := funext skipWsC_fst
    rw [entryLoop, dif_neg hc, dif_neg hp, dif_pos hn, this]
  case case4 x hc hp hn ih =>
    rw [parseRelationC_fst, peekC_fst] at hc hp hn
    simp only [entryCons]
    rw [parseRelationC_fst, junkSepC_fst] at ih ⊢
    rw [entryLoop, dif_neg hc, dif_neg hp, dif_neg hn, ih]

/-- 1 on the empty list -/
def isNil (ts : List Tok) : Nat := if ts = [] then 1 else 0

/-- the entry loop with all it contains: 6 rounds per token, 5 peeks owed at the position where it
    stops (a comma, or the end) -/
theorem entryLoopC_cost (ts) :
    (entryLoopC ts).2 + 6 * (entryLoopC ts).1.rest.length + 5
      ≤ 6 * ts.length + 5 * wl (entryLoopC ts).1.rest + 6 * isNil ts := by
  fun_induction entryLoopC ts
  case case1 x hc =>
    have h1 := parseRelationC_cost x
    have hp := peekC_le (parseRelationC x).1.rest
    simp only [isNil]
    split at h1 <;> simp_all <;> omega
  case case2 x hc hp ih =>
    have h1 := parseRelationC_cost x
    have hq := peekC_le (parseRelationC x).1.rest
    have h2 := pipeSepC_cost hp
    have hw := wl_pos (entryLoopC (pipeSepC (parseRelationC x).1.rest).1.rest).1.rest
    simp only [isNil, entryCons] at ih ⊢
    have hx : (parseRelationC x).1.rest.length ≤ x.length := by
      have := (parseRelation_ok x).len; rw [← parseRelationC_fst] at this; exact this
    split at h1
    · rename_i hx0; subst hx0; simp only [List.length_nil] at hx; omega
    · split at ih <;> simp_all <;> omega
  case case3 x hc hp hn =>
    have h1 := parseRelationC_cost x
    have hq := peekC_le (parseRelationC x).1.rest
    have h2 := skipWsC_len (parseRelationC x).1.rest
    have h3 := skipWsC_wl (parseRelationC x).1.rest
    have h4 := peekC_none hn
    simp only [isNil, PR.andThen, h4]
    rw [h4] at h2
    split at h1 <;> simp_all [wl] <;> omega
  case case4 x hc hp hn ih =>
    have h1 := parseRelationC_cost x
    have hq := peekC_le (parseRelationC x).1.rest
    cases hk : (peekC (parseRelationC x).1.rest).1 with
    | none => exact absurd hk hn
    | some k =>
      have h2 := junkSepC_cost hk
      have hw := wl_pos (entryLoopC (junkSepC (parseRelationC x).1.rest).1.rest).1.rest
      simp only [isNil, entryCons] at ih ⊢
      have hx : (parseRelationC x).1.rest.length ≤ x.length := by
        have := (parseRelation_ok x).len; rw [← parseRelationC_fst] at this; exact this
      split at h1
      · rename_i hx0; subst hx0; simp only [List.length_nil] at hx; omega
      · split at ih <;> simp_all <;> omega

def parseEntryC (ts : List Tok) : PRC :=
  andThenC (skipWsC ts) fun ts => wrapC .ENTRY (entryLoopC ts)

theorem parseEntryC_fst (ts) : (parseEntryC ts).1 = parseEntry ts :=
  andThenC_fst (skipWsC_fst _) fun _ => wrapC_fst _ (entryLoopC_fst _)

/-! ### the root loop -/

def rootFirstC (allow : Bool) (t : Tok) (r : List Tok) : PRC :=
  if t.1 = .IDENT then parseEntryC (t :: r)
  else if t.1 = .DOLLAR then
    if allow then parseSubstvarC (t :: r) else pure0 (errorTok "Substvars are not allowed" (t :: r))
  else if t.1 = .COMMA then nilC (t :: r)
  else pure0 (errorTok s!"expected $ or identifier but got {kindName t.1}" (t :: r))

theorem rootFirstC_fst (allow t r) : (rootFirstC allow t r).1 = rootFirst allow t r := by
  simp only [rootFirstC, rootFirst]; (repeat' split)
  · exact parseEntryC_fst _
  · exact parseSubstvarC_fst _
  · rfl
  · rfl
  · rfl

theorem skipWsC_not_ws (t : Tok) (r) (h : isWsKind t.1 = false) :
    skipWsC (t :: r) = (⟨[], [], t :: r⟩, 0) := by simp [skipWsC, h]

/-- the first `match` of a root round, on a token that is not blank -/
theorem rootFirstC_cost (allow) (t : Tok) (r) (hws : isWsKind t.1 = false) :
    (rootFirstC allow t r).2 + 6 * (rootFirstC allow t r).1.rest.length + 5
      ≤ 6 * (t :: r).length + 5 * wl (rootFirstC allow t r).1.rest := by
  have hw : ∀ x : List Tok, 1 ≤ wl x := wl_pos
  simp only [rootFirstC]
  (repeat' split)
  · have := entryLoopC_cost (t :: r)
    simp only [parseEntryC, andThenC_snd, andThenC_rest, wrapC_snd, wrapC_rest, skipWsC_not_ws t r hws]
    have := hw (entryLoopC (t :: r)).1.rest
    simp only [isNil] at *; simp at *; omega
  · have := parseSubstvarC_len t r
    have := hw (parseSubstvarC (t :: r)).1.rest
    simp only [List.length_cons] at *; omega
  · simp only [pure0_snd, pure0_fst, errorTok_rest, List.length_cons]; omega
  · simp only [nilC_snd, nilC_rest, wl_of_not_ws t r hws, List.length_cons]; omega
  · simp only [pure0_snd, pure0_fst, errorTok_rest, List.length_cons]; omega

def rootLoopC (allow : Bool) (ts : List Tok) : PRC :=
  match ts with
  | [] => (⟨[], [], []⟩, 0)
  | t :: r =>
    match h : (skipWsC (rootFirstC allow t r).1.rest).1.rest with
    | [] => (⟨(rootFirstC allow t r).1.nodes ++ (skipWsC (rootFirstC allow t r).1.rest).1.nodes,
        (rootFirstC allow t r).1.errs, []⟩,
        1 + (rootFirstC allow t r).2 + (skipWsC (rootFirstC allow t r).1.rest).2)
    | c :: r2 =>
      (⟨(rootFirstC allow t r).1.nodes ++ (skipWsC (rootFirstC allow t r).1.rest).1.nodes
          ++ (rootSep c).1 ++ (skipWsC r2).1.nodes ++ (rootLoopC allow (skipWsC r2).1.rest).1.nodes,
        (rootFirstC allow t r).1.errs ++ (rootSep c).2 ++ (rootLoopC allow (skipWsC r2).1.rest).1.errs,
        (rootLoopC allow (skipWsC r2).1.rest).1.rest⟩,
       1 + (rootFirstC allow t r).2 + (skipWsC (rootFirstC allow t r).1.rest).2 + (skipWsC r2).2
         + (rootLoopC allow (skipWsC r2).1.rest).2)
termination_by ts.length
decreasing_by
  all_goals
    have h1 := (rootFirst_ok allow t r).len
    rw [← rootFirstC_fst] at h1
    have h2 := skipWsC_len (rootFirstC allow t r).1.rest
    have h3 := skipWsC_len r2
    rw [h] at h2
    simp at h1 h2 ⊢
    omega

theorem rootLoopC_fst (allow ts) : (rootLoopC allow ts).1 = rootLoop allow ts := by
  fun_induction rootLoopC allow ts
  case case1 => simp [rootLoop]
  case case2 t r h =>
    rw [rootFirstC_fst, skipWsC_fst] at h ⊢
    rw [rootLoop]; split
    · rfl
    · rename_i h2; rw [h] at h2; cases h2
  case case3 t r c r2 h ih =>
    rw [rootFirstC_fst, skipWsC_fst] at h ⊢
    rw [skipWsC_fst] at ih ⊢
    rw [rootLoop]; split
    · rename_i h2; rw [h] at h2; cases h2
    · rename_i h2; rw [h] at h2; cases h2; simp only [ih]

/-- a token list that does not start with a blank token (what `skip_ws` leaves) -/
def NoWsHead : List Tok → Prop
  | [] => True
  | t :: _ => isWsKind t.1 = false

theorem skipWsC_noWsHead (ts) : NoWsHead (skipWsC ts).1.rest := by
  induction ts with
  | nil => simp [skipWsC, NoWsHead]
  | cons t ts ih =>
    simp only [skipWsC]; split
    · exact ih
    · rename_i h; simpa [NoWsHead] using h

/-- all rounds of the root loop and of everything inside it ≤ 6·tokens + 1, from a position `skip_ws`
    left (as the parser always calls it) -/
theorem rootLoopC_cost (allow ts) (hh : NoWsHead ts) : (rootLoopC allow ts).2 ≤ 6 * ts.length + 1 := by
  fun_induction rootLoopC allow ts
  case case1 => simp
  case case2 t r h =>
    have h1 := rootFirstC_cost allow t r (by simpa [NoWsHead] using hh)
    have h2 := skipWsC_len (rootFirstC allow t r).1.rest
    have h3 := skipWsC_wl (rootFirstC allow t r).1.rest
    rw [h] at h2
    simp only [List.length_cons, List.length_nil] at *
    omega
  case case3 t r c r2 h ih =>
    have h1 := rootFirstC_cost allow t r (by simpa [NoWsHead] using hh)
    have h2 := skipWsC_len (rootFirstC allow t r).1.rest
    have h3 := skipWsC_wl (rootFirstC allow t r).1.rest
    have h4 := skipWsC_len r2
    have ih' := ih (skipWsC_noWsHead r2)
    rw [h] at h2
    simp only [List.length_cons] at *
    omega

/-! ### entry points -/

/-- `Parser::parse` on a token list, with the rounds of all its loops -/
def parseTokensC (allow : Bool) (ts : List Tok) : Parsed × Nat :=
  (⟨Node.node .ROOT ((skipWsC ts).1.nodes ++ (rootLoopC allow (skipWsC ts).1.rest).1.nodes),
    (rootLoopC allow (skipWsC ts).1.rest).1.errs⟩,
   (skipWsC ts).2 + (rootLoopC allow (skipWsC ts).1.rest).2)

theorem parseTokensC_fst (allow ts) : (parseTokensC allow ts).1 = parseTokens allow ts := by
  simp only [parseTokensC, parseTokens, skipWsC_fst, rootLoopC_fst]

theorem parseTokensC_cost (allow ts) : (parseTokensC allow ts).2 ≤ 6 * ts.length + 1 := by
  have h1 := skipWsC_len ts
  have h2 := rootLoopC_cost allow (skipWsC ts).1.rest (skipWsC_noWsHead ts)
  simp only [parseTokensC]; omega

/-- `parse(text, allow_substvar)` -/
def parseC (s : Str) (allow : Bool) : Parsed × Nat := parseTokensC allow (lex s)

theorem parseC_fst (s allow) : (parseC s allow).1 = parse s allow := parseTokensC_fst _ _

/-! ## the lexer (`debian-control/src/relations.rs:124-255`)

`lexC` counts the calls of `next_token` that return a token (`rounds`) and the characters its
`read_while` / `peek` look at (`visits`): the characters of the token and one look-ahead (the
character on which `read_while` stops; counted for every token). -/

structure LexCount where
  rounds : Nat
  visits : Nat

def lexC (input : Str) : List Tok × LexCount :=
  match input with
  | [] => ([], ⟨0, 0⟩)
  | c :: rest =>
    ((lexStep c rest).1 :: (lexC (lexStep c rest).2).1,
     ⟨(lexC (lexStep c rest).2).2.rounds + 1,
      (lexC (lexStep c rest).2).2.visits + (lexStep c rest).1.2.length + 1⟩)
termination_by input.length
decreasing_by
  all_goals
    have := lexStep_len c rest
    simp; omega

theorem lexC_fst (s) : (lexC s).1 = lex s := by
  fun_induction lexC s
  case case1 => simp [lex]
  case case2 c rest ih => rw [lex]; simp only [ih]

theorem lexC_rounds (s) : (lexC s).2.rounds = (lex s).length := by
  fun_induction lexC s
  case case1 => simp [lex]
  case case2 c rest ih => rw [lex]; simp only [ih, List.length_cons]

theorem lexC_visits (s) : (lexC s).2.visits = (tokText (lex s)).length + (lex s).length := by
  fun_induction lexC s
  case case1 => simp [lex]
  case case2 c rest ih =>
    rw [lex]; simp only [ih, tokText_cons, List.length_cons, List.length_append]; omega

end Deb822Verif.Rel.Work
