import Deb822Verif.Lemmas.RelEditLayout
/-!
  The layouts of Lemmas/RelEditLayout.lean are closed under the operations at the root:
  `Relations::insert` / `push` / `replace` / `remove_entry` (`Entry::remove`).
-/
set_option linter.unusedSimpArgs false
set_option linter.unusedVariables false
namespace Deb822Verif.Rel.Edit
open Deb822Verif Rel Node Build Lossy RelSpec
open Deb822Verif.Props.C10

/-! ### operands -/

/-- an ENTRY operand: a node that is the layout of an entry (parsed and built entries are) -/
def EntOperand (E : RNode) : Prop := ∃ e : LEnt, e.ok = true ∧ E = e.node

/-- a RELATION operand -/
def RelOperand (R : RNode) : Prop := ∃ x : LRel, x.ok = true ∧ R = x.node

theorem EntOperand.isEntry {E : RNode} (h : EntOperand E) : isNodeOf .ENTRY E = true := by
  obtain ⟨e, _, rfl⟩ := h; rfl

theorem RelOperand.isRel {R : RNode} (h : RelOperand R) : isNodeOf .RELATION R = true := by
  obtain ⟨x, _, rfl⟩ := h; rfl

/-! ### counting and finding entries -/

def cntEnt (A : List LSeg) : Nat := A.countP fun s => s.item.isEnt

theorem countE_LSeg (s : LSeg) : s.nodes.countP (isNodeOf .ENTRY) = if s.item.isEnt then 1 else 0 := by
  simp only [LSeg.nodes, List.countP_append, countP_tks]
  cases s.item <;> simp [LItem.nodes, LItem.isEnt, LEnt.node, isNodeOf]

theorem countE_lkidsC (A : List LSeg) : (lkidsC A).countP (isNodeOf .ENTRY) = cntEnt A := by
  induction A with
  | nil => rfl
  | cons a A ih =>
    rw [lkidsC_cons, List.countP_append, List.countP_cons, ih, countE_LSeg]
    simp only [cntEnt, List.countP_cons, isNodeOf_tk]
    split <;> simp <;> omega

theorem cntEnt_append (A B : List LSeg) : cntEnt (A ++ B) = cntEnt A + cntEnt B := by simp [cntEnt]

theorem cntEnt_cons (s : LSeg) (A : List LSeg) : cntEnt (s :: A) = cntEnt A + (if s.item.isEnt then 1 else 0) := by
  simp [cntEnt, List.countP_cons]

theorem countE_lkids (l : List LSeg) : (lkids l).countP (isNodeOf .ENTRY) = cntEnt l := by
  induction l with
  | nil => rfl
  | cons s ss ih =>
    rw [lkids_cons, List.countP_append, countE_LSeg, cntEnt_cons]
    cases ss with
    | nil => simp [cntEnt]
    | cons t ts =>
      simp only [List.isEmpty_cons, Bool.false_eq_true, ↓reduceIte, List.countP_cons, isNodeOf_tk, ih]
      simp; omega

theorem split_ent (l : List LSeg) (i : Nat) (h : i < cntEnt l) :
    ∃ A s B e, l = A ++ s :: B ∧ s.item = .ent e ∧ cntEnt A = i := by
  induction l generalizing i with
  | nil => simp [cntEnt] at h
  | cons s ss ih =>
    cases hi : s.item with
    | ent e =>
      cases i with
      | zero => exact ⟨[], s, ss, e, rfl, hi, rfl⟩
      | succ i' =>
        have : i' < cntEnt ss := by rw [cntEnt_cons, hi] at h; simpa [LItem.isEnt] using h
        obtain ⟨A, s', B, e', e1, e2, e3⟩ := ih i' this
        exact ⟨s :: A, s', B, e', by rw [e1]; rfl, e2, by rw [cntEnt_cons, hi, e3]; rfl⟩
    | sub p ps =>
      have : i < cntEnt ss := by rw [cntEnt_cons, hi] at h; simpa [LItem.isEnt] using h
      obtain ⟨A, s', B, e', e1, e2, e3⟩ := ih i this
      exact ⟨s :: A, s', B, e', by rw [e1]; rfl, e2, by rw [cntEnt_cons, hi, e3]; rfl⟩
    | none =>
      have : i < cntEnt ss := by rw [cntEnt_cons, hi] at h; simpa [LItem.isEnt] using h
      obtain ⟨A, s', B, e', e1, e2, e3⟩ := ih i this
      exact ⟨s :: A, s', B, e', by rw [e1]; rfl, e2, by rw [cntEnt_cons, hi, e3]; rfl⟩

/-- what follows a segment: nothing, or the comma and the other segments -/
def restKids (B : List LSeg) : List RNode := if B.isEmpty then [] else tk commaTok :: lkids B

/-- the root's children around the item of a segment -/
theorem lkids_at (A : List LSeg) (s : LSeg) (B : List LSeg) :
    lkids (A ++ s :: B) = (lkidsC A ++ tks (gapToks s.pre)) ++ (s.item.nodes ++ (tks (gapToks s.post) ++ restKids B)) := by
  rw [lkids_append, lkids_cons]; simp [LSeg.nodes, restKids]

theorem lkids_at_ent (A : List LSeg) (s : LSeg) (B : List LSeg) (e : LEnt) (he : s.item = .ent e) :
    lkids (A ++ s :: B) = (lkidsC A ++ tks (gapToks s.pre)) ++ e.node :: (tks (gapToks s.post) ++ restKids B) := by
  rw [lkids_at, he]; rfl

theorem count_before (A : List LSeg) (g : Gap) : (lkidsC A ++ tks (gapToks g)).countP (isNodeOf .ENTRY) = cntEnt A := by
  rw [List.countP_append, countE_lkidsC, countP_tks]; rfl

/-- `get_entry(i)` on a layout: the `i`-th segment that holds an entry -/
theorem nthEntry_lay (l : List LSeg) (i p : Nat) (h : nthNode .ENTRY (lkids l) i = some p) :
    ∃ A s B e, l = A ++ s :: B ∧ s.item = .ent e ∧ cntEnt A = i ∧ p = (lkidsC A ++ tks (gapToks s.pre)).length := by
  obtain ⟨pre, x, post, hk, hl, hx, hc⟩ := nthPos_some h
  have hlt : i < cntEnt l := by
    rw [← countE_lkids, hk, ← hc]
    simp [List.countP_cons, hx]
  obtain ⟨A, s, B, e, e1, e2, e3⟩ := split_ent l i hlt
  refine ⟨A, s, B, e, e1, e2, e3, ?_⟩
  have := nthPos_split (P := isNodeOf .ENTRY) (lkidsC A ++ tks (gapToks s.pre)) e.node
    (tks (gapToks s.post) ++ restKids B) rfl
  rw [count_before, e3, ← lkids_at_ent A s B e e2, ← e1] at this
  exact Option.some.inj (h.symm.trans this)

theorem nthEntry_none_lay (l : List LSeg) (i : Nat) (h : nthNode .ENTRY (lkids l) i = none) : cntEnt l ≤ i := by
  rw [← countE_lkids]; exact nthPos_none h

theorem nthEntry_at (A : List LSeg) (s : LSeg) (B : List LSeg) (e : LEnt) (he : s.item = .ent e) :
    nthNode .ENTRY (lkids (A ++ s :: B)) (cntEnt A) = some (lkidsC A ++ tks (gapToks s.pre)).length := by
  have := nthPos_split (P := isNodeOf .ENTRY) (lkidsC A ++ tks (gapToks s.pre)) e.node
    (tks (gapToks s.post) ++ restKids B) rfl
  rw [count_before, ← lkids_at_ent A s B e he] at this
  exact this

theorem mem_split_ok {l A : List LSeg} {s : LSeg} {B : List LSeg} (hl : l = A ++ s :: B) (hok : ∀ x ∈ l, x.ok = true) :
    (∀ x ∈ A, x.ok = true) ∧ s.ok = true ∧ (∀ x ∈ B, x.ok = true) := by
  subst hl
  exact ⟨fun x hx => hok x (by simp [hx]), hok s (by simp), fun x hx => hok x (by simp [hx])⟩

theorem ok_join {A : List LSeg} {M : List LSeg} {B : List LSeg} (hA : ∀ x ∈ A, x.ok = true) (hM : ∀ x ∈ M, x.ok = true)
    (hB : ∀ x ∈ B, x.ok = true) : ∀ x ∈ A ++ M ++ B, x.ok = true := by
  intro x hx
  simp only [List.mem_append] at hx
  rcases hx with (hx | hx) | hx
  · exact hA x hx
  · exact hM x hx
  · exact hB x hx

/-! ### `Relations::replace` -/

theorem lay_replace (f f' : Field) (hl : Lay f) (i : Nat) (E : RNode) (hE : EntOperand E)
    (h : f.replace i E = .ok f') : Lay f' := by
  obtain ⟨l, hok, hk⟩ := hl
  obtain ⟨e0, he0, rfl⟩ := hE
  obtain ⟨A0, old, B0, hk0, hk1, hn0⟩ := frame_replace f f' i e0.node h
  rw [hk] at hn0
  obtain ⟨A, s, B, e, e1, e2, e3, e4⟩ := nthEntry_lay l i _ hn0
  obtain ⟨okA, oks, okB⟩ := mem_split_ok e1 hok
  obtain ⟨s1, s2, s3⟩ := (LSeg.ok_iff s).1 oks
  rw [hk, e1, lkids_at_ent A s B e e2] at hk0
  obtain ⟨c1, c2⟩ := List.append_inj hk0.symm e4
  simp only [List.cons.injEq] at c2
  refine ⟨A ++ ⟨s.pre, .ent e0, s.post⟩ :: B, ?_, ?_⟩
  · have := ok_join okA (M := [⟨s.pre, .ent e0, s.post⟩])
      (by intro x hx; simp only [List.mem_singleton] at hx; subst hx; exact (LSeg.ok_iff _).2 ⟨s1, s2, he0⟩) okB
    simpa using this
  · rw [hk1, lkids_at_ent A _ B e0 rfl, c1, c2.2]

theorem replace_ok (f : Field) (i : Nat) (E : RNode) (hi : i < f.kids.countP (isNodeOf .ENTRY)) :
    ∃ f', f.replace i E = .ok f' := by
  unfold Field.replace
  cases hn : nthNode .ENTRY f.kids i with
  | some p => exact ⟨_, rfl⟩
  | none => exact absurd (nthPos_none hn) (by omega)

/-! ### `Relations::insert` before an existing entry -/

theorem lay_insert_before (f : Field) (hl : Lay f) (i p : Nat) (hp : nthNode .ENTRY f.kids i = some p)
    (E : RNode) (hE : EntOperand E) : Lay (f.insert i E) := by
  obtain ⟨l, hok, hk⟩ := hl
  obtain ⟨e0, he0, rfl⟩ := hE
  rw [hk] at hp
  obtain ⟨A, s, B, e, e1, e2, e3, e4⟩ := nthEntry_lay l i p hp
  obtain ⟨okA, oks, okB⟩ := mem_split_ok e1 hok
  obtain ⟨s1, s2, s3⟩ := (LSeg.ok_iff s).1 oks
  refine ⟨A ++ ⟨s.pre, .ent e0, []⟩ :: { s with pre := sp } :: B, ?_, ?_⟩
  · have := ok_join okA (M := [⟨s.pre, .ent e0, []⟩, { s with pre := sp }])
      (by
        intro x hx
        simp only [List.mem_cons, List.not_mem_nil, or_false] at hx
        rcases hx with rfl | rfl
        · exact (LSeg.ok_iff _).2 ⟨s1, rfl, he0⟩
        · exact (LSeg.ok_iff _).2 ⟨gapOkL_sp, s2, s3⟩) okB
    simpa using this
  · show (relationsInsert f.kids i e0.node).kids = _
    unfold relationsInsert
    rw [hk, hp]
    simp only
    rw [e4, e1, lkids_at_ent A s B e e2, insertAt_split]
    rw [lkids_at_ent A _ _ e0 rfl]
    simp only [restKids, List.isEmpty_cons, Bool.false_eq_true, ↓reduceIte]
    rw [lkids_cons]
    simp [LSeg.nodes, e2, LItem.nodes, restKids, tks_sp', T, tk, commaTok, gapToks, sp, GapPiece.tok, tks]

/-! ### `Relations::push`, and `insert` past the last entry -/

def LSeg.hasItem (s : LSeg) : Bool := !s.item.isNone

theorem LItem.nodes_item (it : LItem) (h : it.isNone = false) : ∃ X, it.nodes = [X] ∧ isItemNode X = true := by
  cases it with
  | ent e => exact ⟨_, rfl, rfl⟩
  | sub p ps => exact ⟨_, rfl, rfl⟩
  | none => simp [LItem.isNone] at h

theorem LSeg.nodes_none (s : LSeg) (h : s.item.isNone = true) : s.nodes = tks (gapToks (s.pre ++ s.post)) := by
  cases hi : s.item with
  | none => simp [LSeg.nodes, hi, LItem.nodes, gapToks]
  | ent e => simp [hi, LItem.isNone] at h
  | sub p ps => simp [hi, LItem.isNone] at h

/-- children that are blanks or commas only -/
def sepOnly (cs : List RNode) : Prop := ∀ y ∈ cs, isItemNode y = false

theorem sepOnly_tks_gap (g : Gap) : sepOnly (tks (gapToks g)) := tks_notItem _

theorem sepOnly_append {a b : List RNode} (ha : sepOnly a) (hb : sepOnly b) : sepOnly (a ++ b) := by
  intro y hy
  simp only [List.mem_append] at hy
  rcases hy with hy | hy
  · exact ha y hy
  · exact hb y hy

theorem sepOnly_lkids (B : List LSeg) (h : ∀ s ∈ B, s.item.isNone = true) : sepOnly (lkids B) := by
  induction B with
  | nil => intro y hy; simp [lkids] at hy
  | cons s ss ih =>
    rw [lkids_cons, LSeg.nodes_none s (h s (by simp))]
    apply sepOnly_append (sepOnly_tks_gap _)
    split
    · intro y hy; simp at hy
    · intro y hy
      simp only [List.mem_cons] at hy
      rcases hy with rfl | hy
      · rfl
      · exact ih (fun x hx => h x (by simp [hx])) y hy

theorem sepOnly_restKids (B : List LSeg) (h : ∀ s ∈ B, s.item.isNone = true) : sepOnly (restKids B) := by
  unfold restKids
  split
  · intro y hy; simp at hy
  · intro y hy
    simp only [List.mem_cons] at hy
    rcases hy with rfl | hy
    · rfl
    · exact sepOnly_lkids B h y hy

/-- the last segment that holds an item, or none does -/
theorem split_last_item (l : List LSeg) :
    (∀ s ∈ l, s.item.isNone = true)
    ∨ ∃ A s B, l = A ++ s :: B ∧ s.item.isNone = false ∧ ∀ t ∈ B, t.item.isNone = true := by
  induction l with
  | nil => left; simp
  | cons s ss ih =>
    rcases ih with h | ⟨A, t, B, e, ht, hB⟩
    · cases hs : s.item.isNone with
      | true =>
        left
        intro x hx
        simp only [List.mem_cons] at hx
        rcases hx with rfl | hx
        · exact hs
        · exact h x hx
      | false => right; exact ⟨[], s, ss, rfl, hs, h⟩
    · right; exact ⟨s :: A, t, B, by rw [e]; rfl, ht, hB⟩

theorem any_comma_tks_gap (g : Gap) : ((tks (gapToks g)).any fun c => c.kind == Kind.COMMA) = false := by
  rw [List.any_eq_false]
  intro y hy
  have := tks_gap_ws g y hy
  simp only [isWsElem, Bool.or_eq_true, beq_iff_eq] at this
  rcases this with h | h <;> simp [h]

theorem getLast_tks_gap (g : Gap) (h : g ≠ []) (pre : List RNode) :
    ∃ c, (pre ++ tks (gapToks g)).getLast? = some c ∧ isWsElem c = true := by
  have hne : tks (gapToks g) ≠ [] := by
    cases g with
    | nil => exact absurd rfl h
    | cons p g => simp [gapToks, tks]
  obtain ⟨c, hc⟩ : ∃ c, (tks (gapToks g)).getLast? = some c := by
    cases hh : (tks (gapToks g)).getLast? with
    | none => simp at hh; exact absurd hh hne
    | some c => exact ⟨c, rfl⟩
  refine ⟨c, ?_, tks_gap_ws g c (List.mem_of_getLast? hc)⟩
  rw [List.getLast?_append, hc]; rfl

/-- the last child of the root when the last segment is empty -/
theorem endsWs_lkids (A : List LSeg) (t : LSeg) (ht : t.item.isNone = true) (hA : A ≠ []) :
    (match (lkids (A ++ [t])).getLast? with | some c => isWsElem c | none => false) = !(t.pre ++ t.post).isEmpty := by
  rw [lkids_snoc, LSeg.nodes_none t ht]
  cases hg : t.pre ++ t.post with
  | nil =>
    obtain ⟨A', a, rfl⟩ : ∃ A' a, A = A' ++ [a] := by
      rcases List.eq_nil_or_concat A with h | ⟨A', a, h⟩
      · exact absurd h hA
      · exact ⟨A', a, by simpa using h⟩
    simp [gapToks, lkidsC, isWsElem, tk, commaTok]
  | cons p g =>
    obtain ⟨c, hc, hw⟩ := getLast_tks_gap (p :: g) (by simp) (lkidsC A)
    rw [hc]; simp [hw]

/-- `Relations::insert(i, entry)` when there is no `i`-th entry (`push` is the case `i` = number of
    entries): the entry goes behind the last item with `, `, or behind a trailing comma -/
theorem lay_insert_end (f : Field) (hl : Lay f) (i : Nat) (hp : nthNode .ENTRY f.kids i = none)
    (E : RNode) (hE : EntOperand E) : Lay (f.insert i E) := by
  obtain ⟨l, hok, hk⟩ := hl
  obtain ⟨e0, he0, rfl⟩ := hE
  have hkids : (f.insert i e0.node).kids = (relationsInsert f.kids i e0.node).kids := rfl
  rcases split_last_item l with hnone | ⟨A, s, B, e1, hs, hB⟩
  · -- no item at all: the entry is appended
    have hlast : lastPos isItemNode f.kids = none := by
      cases hh : lastPos isItemNode f.kids with
      | none => rfl
      | some q =>
        obtain ⟨pre, x, post, e, _, hx, _⟩ := lastPos_some hh
        have := sepOnly_lkids l hnone x (by rw [← hk, e]; simp)
        rw [this] at hx; cases hx
    have hk' : (f.insert i e0.node).kids = f.kids ++ [e0.node] := by
      rw [hkids]; unfold relationsInsert; rw [hp]; simp only [hlast]
      simp [insertAt]
    rcases List.eq_nil_or_concat l with rfl | ⟨A, t, rfl⟩
    · refine ⟨[⟨[], .ent e0, []⟩], ?_, ?_⟩
      · intro x hx
        simp only [List.mem_singleton] at hx; subst hx
        exact (LSeg.ok_iff _).2 ⟨rfl, rfl, he0⟩
      · rw [hk', hk]; simp [lkids, LSeg.nodes, LItem.nodes, gapToks]
    · rw [List.concat_eq_append] at hk hok hnone
      have ht := hnone t (by simp)
      obtain ⟨t1, t2, _⟩ := (LSeg.ok_iff t).1 (hok t (by simp))
      refine ⟨A ++ [⟨t.pre ++ t.post, .ent e0, []⟩], ?_, ?_⟩
      · intro x hx
        simp only [List.mem_append, List.mem_singleton] at hx
        rcases hx with hx | rfl
        · exact hok x (by simp [hx])
        · exact (LSeg.ok_iff _).2 ⟨by rw [gapOkL_append, t1, t2]; rfl, rfl, he0⟩
      · rw [hk', hk, lkids_snoc, lkids_snoc, LSeg.nodes_none t ht]
        simp [LSeg.nodes, LItem.nodes, gapToks]
  · -- `s` holds the last item
    obtain ⟨X, hX, hXi⟩ := LItem.nodes_item s.item hs
    obtain ⟨okA, oks, okB⟩ := mem_split_ok e1 hok
    obtain ⟨s1, s2, s3⟩ := (LSeg.ok_iff s).1 oks
    have hkids0 : f.kids = (lkidsC A ++ tks (gapToks s.pre)) ++ X :: (tks (gapToks s.post) ++ restKids B) := by
      rw [hk, e1, lkids_at, hX]; rfl
    have hlast : lastPos isItemNode f.kids = some (lkidsC A ++ tks (gapToks s.pre)).length := by
      rw [hkids0]
      exact lastPos_split _ _ X _ hXi (sepOnly_append (sepOnly_tks_gap _) (sepOnly_restKids B hB))
    have hdrop : f.kids.drop ((lkidsC A ++ tks (gapToks s.pre)).length + 1) = tks (gapToks s.post) ++ restKids B := by
      rw [hkids0]; exact (take_drop_of_split _ X _).2.1
    have hcomma : ((tks (gapToks s.post) ++ restKids B).any fun c => c.kind == Kind.COMMA) = !B.isEmpty := by
      rw [List.any_append, any_comma_tks_gap]
      unfold restKids
      cases B <;> simp [tk, commaTok]
    cases hBe : B with
    | nil =>
      -- no trailing comma: `, entry` right behind the item
      subst hBe
      refine ⟨A ++ [{ s with post := [] }, ⟨sp, .ent e0, s.post⟩], ?_, ?_⟩
      · have := ok_join okA (M := [{ s with post := [] }, ⟨sp, .ent e0, s.post⟩])
          (by
            intro x hx
            simp only [List.mem_cons, List.not_mem_nil, or_false] at hx
            rcases hx with rfl | rfl
            · exact (LSeg.ok_iff _).2 ⟨s1, rfl, s3⟩
            · exact (LSeg.ok_iff _).2 ⟨gapOkL_sp, s2, he0⟩) (B := []) (by simp)
        simpa using this
      · rw [hkids]; unfold relationsInsert; rw [hp]
        simp only [hlast, hdrop, hcomma, List.isEmpty_nil, Bool.not_true, Bool.false_eq_true, ↓reduceIte]
        rw [hkids0]
        have hl2 : (lkidsC A ++ tks (gapToks s.pre)).length + 1 = ((lkidsC A ++ tks (gapToks s.pre)) ++ [X]).length := by
          simp only [List.length_append, List.length_cons, List.length_nil]
        rw [hl2, show (lkidsC A ++ tks (gapToks s.pre)) ++ X :: (tks (gapToks s.post) ++ restKids [])
          = ((lkidsC A ++ tks (gapToks s.pre)) ++ [X]) ++ (tks (gapToks s.post) ++ restKids []) from by simp, insertAt_split]
        rw [show A ++ [{ s with post := [] }, ⟨sp, .ent e0, s.post⟩] = A ++ { s with post := [] } :: [⟨sp, .ent e0, s.post⟩] from rfl,
          lkids_at, hX]
        simp [restKids, lkids, LSeg.nodes, LItem.nodes, tks_sp', T, tk, commaTok, gapToks, sp, GapPiece.tok, tks]
    | cons b B' =>
      -- a trailing comma: the entry goes to the end
      obtain ⟨B0, t, hBt⟩ : ∃ B0 t, B = B0 ++ [t] := by
        rcases List.eq_nil_or_concat B with h | ⟨B0, t, h⟩
        · rw [hBe] at h; cases h
        · exact ⟨B0, t, by simpa using h⟩
      have hBne : B.isEmpty = false := by rw [hBe]; rfl
      have ht := hB t (by rw [hBt]; simp)
      obtain ⟨t1, t2, _⟩ := (LSeg.ok_iff t).1 (okB t (by rw [hBt]; simp))
      have hl3 : l = (A ++ s :: B0) ++ [t] := by rw [e1, hBt]; simp
      have hends := endsWs_lkids (A ++ s :: B0) t ht (by simp)
      rw [← hl3, ← hk] at hends
      let g' : Gap := if (t.pre ++ t.post).isEmpty then sp else t.pre ++ t.post
      refine ⟨(A ++ s :: B0) ++ [⟨g', .ent e0, []⟩], ?_, ?_⟩
      · intro x hx
        simp only [List.mem_append, List.mem_singleton, List.mem_cons, List.not_mem_nil, or_false] at hx
        rcases hx with (hx | rfl | hx) | rfl
        · exact okA x hx
        · exact oks
        · exact okB x (by rw [hBt]; simp [hx])
        · refine (LSeg.ok_iff _).2 ⟨?_, rfl, he0⟩
          simp only [g']; split
          · exact gapOkL_sp
          · rw [gapOkL_append, t1, t2]; rfl
      · have hins : ∀ new, insertAt f.kids f.kids.length new = f.kids ++ new := by intro new; simp [insertAt]
        rw [hkids]; unfold relationsInsert; rw [hp]
        simp only [hlast, hdrop, hcomma, hBne, Bool.not_false, ↓reduceIte, hins]
        cases hgl : f.kids.getLast? with
        | none =>
          rw [hkids0] at hgl; simp at hgl
        | some c =>
          simp only [hgl] at hends
          simp only [hends]
          rw [hk, hl3, lkids_snoc, lkids_snoc, LSeg.nodes_none t ht]
          cases hg : (t.pre ++ t.post).isEmpty with
          | true =>
            have : t.pre ++ t.post = [] := by simpa using hg
            simp [g', hg, this, LSeg.nodes, LItem.nodes, tks_sp', T, gapToks, sp, GapPiece.tok, tks, tk]
          | false =>
            simp [g', hg, LSeg.nodes, LItem.nodes, gapToks]

theorem lay_insert (f : Field) (hl : Lay f) (i : Nat) (E : RNode) (hE : EntOperand E) : Lay (f.insert i E) := by
  cases hp : nthNode .ENTRY f.kids i with
  | some p => exact lay_insert_before f hl i p hp E hE
  | none => exact lay_insert_end f hl i hp E hE

theorem lay_push (f : Field) (hl : Lay f) (E : RNode) (hE : EntOperand E) : Lay (f.push E) :=
  lay_insert f hl _ E hE

/-! ### `Entry::remove` -/

theorem isWs_piece (p : GapPiece) : isWsElem (tk p.tok) = true := by cases p <;> rfl

theorem dropWhile_tks_gap (g : Gap) (rest : List RNode) :
    (tks (gapToks g) ++ rest).dropWhile isWsElem = rest.dropWhile isWsElem := by
  induction g with
  | nil => rfl
  | cons p g ih =>
    simp only [gapToks, List.map_cons, tks_cons, List.cons_append] at ih ⊢
    rw [List.dropWhile_cons, isWs_piece]
    simpa using ih

theorem dropWhile_restKids (B : List LSeg) : (restKids B).dropWhile isWsElem = restKids B := by
  unfold restKids; split
  · rfl
  · rw [List.dropWhile_cons, show isWsElem (tk commaTok) = false from rfl]; rfl

theorem lkids_appendB (A B : List LSeg) (h : B ≠ []) : lkids (A ++ B) = lkidsC A ++ lkids B := by
  cases B with
  | nil => exact absurd rfl h
  | cons b B' => exact lkids_append A b B'

theorem last_lkidsC (A : List LSeg) : ∀ x, (lkidsC A).getLast? = some x → isWsElem x = false := by
  intro x hx
  rcases List.eq_nil_or_concat A with rfl | ⟨A', a, rfl⟩
  · simp [lkidsC] at hx
  · rw [List.concat_eq_append, lkidsC_append] at hx
    simp [lkidsC] at hx
    subst hx; rfl

theorem any_item_tks (g : Gap) : (tks (gapToks g)).any isItemNode = false := by
  rw [List.any_eq_false]; intro y hy; simp [tks_notItem _ y hy]

/-- `Entry::remove` on the item at the position of a segment: that segment goes with one comma (the one
    behind it; the one in front of it when it is the last), the blanks in front of the next item go
    too when it was the first item -/
theorem entryRemove_lay (cs : List RNode) (X : RNode) (A : List LSeg) (s : LSeg) (B : List LSeg)
    (hcs : cs = (lkidsC A ++ tks (gapToks s.pre)) ++ X :: (tks (gapToks s.post) ++ restKids B))
    (okA : ∀ x ∈ A, x.ok = true) (hpre : gapOkL s.pre = true) (okB : ∀ x ∈ B, x.ok = true) :
    ∃ c l', entryRemove cs (lkidsC A ++ tks (gapToks s.pre)).length = .ok c ∧ c.kids = lkids l'
      ∧ ∀ x ∈ l', x.ok = true := by
  obtain ⟨t1, t2, _⟩ := take_drop_of_split (lkidsC A ++ tks (gapToks s.pre)) X (tks (gapToks s.post) ++ restKids B)
  rw [← hcs] at t1 t2
  have hafter1 : (cs.drop ((lkidsC A ++ tks (gapToks s.pre)).length + 1)).dropWhile isWsElem = restKids B := by
    rw [t2, dropWhile_tks_gap, dropWhile_restKids]
  have hstrip : ((lkidsC A ++ tks (gapToks s.pre)).reverse.dropWhile isWsElem).reverse = lkidsC A :=
    dropTrailing_gap (lkidsC A) s.pre (last_lkidsC A)
  have hfirstA : (lkidsC A ++ tks (gapToks s.pre)).any isItemNode = true → A ≠ [] := by
    intro h hA
    subst hA
    simp [lkidsC, any_item_tks] at h
  unfold entryRemove
  simp only [t1, hafter1]
  cases hB : B with
  | nil =>
    simp only [restKids, List.isEmpty_nil, ↓reduceIte]
    cases hfirst : (lkidsC A ++ tks (gapToks s.pre)).any isItemNode with
    | false =>
      refine ⟨_, A ++ [⟨s.pre, .none, []⟩], rfl, ?_, ?_⟩
      · simp [lkids_snoc, LSeg.nodes, LItem.nodes, gapToks]
      · intro x hx
        simp only [List.mem_append, List.mem_singleton] at hx
        rcases hx with hx | rfl
        · exact okA x hx
        · exact (LSeg.ok_iff _).2 ⟨hpre, rfl, rfl⟩
    | true =>
      obtain ⟨A', a, rfl⟩ : ∃ A' a, A = A' ++ [a] := by
        rcases List.eq_nil_or_concat A with h | ⟨A', a, h⟩
        · exact absurd h (hfirstA hfirst)
        · exact ⟨A', a, by simpa using h⟩
      have hb1 : (lkidsC (A' ++ [a]) ++ tks (gapToks s.pre)).reverse.dropWhile isWsElem
          = tk commaTok :: (lkidsC A' ++ a.nodes).reverse := by
        have := congrArg List.reverse hstrip
        rw [List.reverse_reverse] at this
        rw [this, lkidsC_append]
        simp [lkidsC]
      refine ⟨_, A' ++ [a], rfl, ?_, okA⟩
      simp only [Bool.not_true, Bool.not_false, ↓reduceIte, hb1]
      simp [lkids_snoc, tk, commaTok]
  | cons b B' =>
    have okb := (LSeg.ok_iff b).1 (okB b (by rw [hB]; simp))
    simp only [restKids, List.isEmpty_cons, Bool.false_eq_true, ↓reduceIte]
    have hc : ((tk commaTok).kind == Kind.COMMA) = true := rfl
    simp only [hc, ↓reduceIte, List.drop_one, List.tail_cons]
    cases hfirst : (lkidsC A ++ tks (gapToks s.pre)).any isItemNode with
    | true =>
      refine ⟨_, A ++ b :: B', rfl, ?_, ?_⟩
      · simp only [Bool.not_true, Bool.not_false, ↓reduceIte, hstrip]
        rw [lkids_append]
      · intro x hx
        simp only [List.mem_append, List.mem_cons] at hx
        rcases hx with hx | rfl | hx
        · exact okA x hx
        · exact okB _ (by rw [hB]; simp)
        · exact okB x (by rw [hB]; simp [hx])
    | false =>
      simp only [Bool.not_false, Bool.not_true, Bool.false_eq_true, ↓reduceIte]
      cases hn : b.item.isNone with
      | true =>
        refine ⟨_, A ++ ⟨s.pre, .none, []⟩ :: B', rfl, ?_, ?_⟩
        · rw [lkids_cons, LSeg.nodes_none b hn, dropWhile_tks_gap]
          have : (if B'.isEmpty then [] else tk commaTok :: lkids B') = restKids B' := rfl
          rw [this, dropWhile_restKids, lkids_at]
          simp [LItem.nodes, gapToks]
        · intro x hx
          simp only [List.mem_append, List.mem_cons] at hx
          rcases hx with hx | rfl | hx
          · exact okA x hx
          · exact (LSeg.ok_iff _).2 ⟨hpre, rfl, rfl⟩
          · exact okB x (by rw [hB]; simp [hx])
      | false =>
        obtain ⟨Y, hY, hYi⟩ := LItem.nodes_item b.item hn
        refine ⟨_, A ++ ⟨s.pre, b.item, b.post⟩ :: B', rfl, ?_, ?_⟩
        · have hYw : isWsElem Y = false := by
            cases hw : isWsElem Y with
            | false => rfl
            | true => rw [ws_not_item hw] at hYi; cases hYi
          rw [lkids_cons, LSeg.nodes, hY, lkids_at, hY]
          simp only [List.append_assoc, dropWhile_tks_gap, List.cons_append, List.nil_append, List.dropWhile_cons, hYw]
          simp [restKids]
        · intro x hx
          simp only [List.mem_append, List.mem_cons] at hx
          rcases hx with hx | rfl | hx
          · exact okA x hx
          · exact (LSeg.ok_iff _).2 ⟨hpre, okb.2.1, okb.2.2⟩
          · exact okB x (by rw [hB]; simp [hx])

theorem lay_removeEntryAt (f : Field) (hl : Lay f) (i p : Nat) (hp : nthNode .ENTRY f.kids i = some p) :
    ∃ f', f.removeEntryAt p = .ok f' ∧ Lay f' := by
  obtain ⟨l, hok, hk⟩ := hl
  rw [hk] at hp
  obtain ⟨A, s, B, e, e1, e2, e3, e4⟩ := nthEntry_lay l i p hp
  obtain ⟨okA, oks, okB⟩ := mem_split_ok e1 hok
  obtain ⟨s1, s2, s3⟩ := (LSeg.ok_iff s).1 oks
  obtain ⟨c, l', hc, hck, hl'⟩ := entryRemove_lay f.kids e.node A s B (by rw [hk, e1, lkids_at_ent A s B e e2]) okA s1 okB
  refine ⟨f.rootEdit c, ?_, l', hl', hck⟩
  unfold Field.removeEntryAt
  rw [e4, hc]; rfl

theorem lay_removeEntry (f : Field) (hl : Lay f) (i : Nat) (hi : i < f.kids.countP (isNodeOf .ENTRY)) :
    ∃ f', f.removeEntry i = .ok f' ∧ Lay f' := by
  unfold Field.removeEntry
  cases hn : nthNode .ENTRY f.kids i with
  | none => exact absurd (nthPos_none hn) (by omega)
  | some p => exact lay_removeEntryAt f hl i p hn

end Deb822Verif.Rel.Edit
