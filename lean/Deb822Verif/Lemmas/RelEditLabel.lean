import Deb822Verif.Lemmas.RelEditHandles
/-!
  The id-labelled view of a field with its handles (the reference model of harness/src/reledit.rs):
  which handle id sits on which entry / alternative (`shapeOf`), and how every operation maps it.
-/
set_option linter.unusedSimpArgs false
set_option linter.unusedVariables false
namespace Deb822Verif.Rel.Edit
open Deb822Verif Rel Node Build Lossy RelSpec

/-! ### position-aware `filterMap` -/

/-- `filterMap` with the position of each element, counted from `off` -/
def Fo {β} (g : Nat → RNode → Option β) : List RNode → Nat → List β
  | [], _ => []
  | c :: cs, off => (g off c).toList ++ Fo g cs (off + 1)

theorem Fo_append {β} (g : Nat → RNode → Option β) (a b : List RNode) (off : Nat) :
    Fo g (a ++ b) off = Fo g a off ++ Fo g b (off + a.length) := by
  induction a generalizing off with
  | nil => simp [Fo]
  | cons c cs ih =>
    simp only [List.cons_append, Fo, ih, List.append_assoc, List.length_cons]
    congr 3; omega

theorem Fo_congr {β} (g g' : Nat → RNode → Option β) (cs : List RNode) (off : Nat)
    (h : ∀ p, off ≤ p → p < off + cs.length → ∀ c ∈ cs, g p c = g' p c) : Fo g cs off = Fo g' cs off := by
  induction cs generalizing off with
  | nil => rfl
  | cons c cs ih =>
    simp only [Fo]
    rw [h off (Nat.le_refl _) (by simp) c (by simp),
      ih (off + 1) (fun p h1 h2 x hx => h p (by omega) (by simp; omega) x (by simp [hx]))]

theorem Fo_shift {β} (g g' : Nat → RNode → Option β) (cs : List RNode) (off off' : Nat)
    (h : ∀ k, k < cs.length → ∀ c ∈ cs, g (off + k) c = g' (off' + k) c) : Fo g cs off = Fo g' cs off' := by
  induction cs generalizing off off' with
  | nil => rfl
  | cons c cs ih =>
    simp only [Fo]
    have h0 := h 0 (by simp) c (by simp)
    simp only [Nat.add_zero] at h0
    rw [h0, ih (off + 1) (off' + 1) (fun k hk x hx => by
      have := h (k + 1) (by simp; omega) x (by simp [hx])
      rw [show off + 1 + k = off + (k + 1) from by omega, show off' + 1 + k = off' + (k + 1) from by omega]
      exact this)]

theorem Fo_nil {β} (g : Nat → RNode → Option β) (cs : List RNode) (off : Nat)
    (h : ∀ p, ∀ c ∈ cs, g p c = none) : Fo g cs off = [] := by
  induction cs generalizing off with
  | nil => rfl
  | cons c cs ih => simp [Fo, h off c (by simp), ih (off + 1) (fun p x hx => h p x (by simp [hx]))]

/-! ### the tags -/

deriving instance DecidableEq for ERef
deriving instance DecidableEq for RRef

/-- the id of the entry handle sitting at position `p` -/
def tagE (f : Field) (p : Nat) : Option Nat := (f.ehs.find? fun h => h.2 = ERef.at p).map (·.1)
/-- the id of the relation handle sitting at `(p, q)` -/
def tagR (f : Field) (p q : Nat) : Option Nat := (f.rhs.find? fun h => h.2 = RRef.at p q).map (·.1)

/-- the tags of the alternatives of an entry's children -/
def relTags (tag : Nat → Option Nat) (es : List RNode) : List (Option Nat) :=
  Fo (fun q r => if isNodeOf .RELATION r then some (tag q) else none) es 0

/-- per item of the field: `none` for a substitution variable; for an entry the id of its handle (if
    it has a live one) and those of its alternatives -/
abbrev Shape := List (Option (Option Nat × List (Option Nat)))

def shapeItem (f : Field) (p : Nat) (c : RNode) : Option (Option (Option Nat × List (Option Nat))) :=
  if isNodeOf .ENTRY c then some (some (tagE f p, relTags (tagR f p) c.children))
  else if isNodeOf .SUBSTVAR c then some none
  else none

def shapeOf (f : Field) : Shape := Fo (shapeItem f) f.kids 0


theorem C11h (f : Field) (p q : Nat) (g : RNode → RNode) :
    (f.relEdit p q g).ehs = f.ehs ∧ (f.relEdit p q g).rhs = f.rhs := by
  unfold Field.relEdit
  split
  · split <;> exact ⟨rfl, rfl⟩
  · exact ⟨rfl, rfl⟩

/-! ### how the tags move -/

theorem find_map_tag {α} (l : List (Nat × α)) (F : α → α) (P P' : α → Prop) [DecidablePred P] [DecidablePred P']
    (h : ∀ a, P' (F a) ↔ P a) :
    ((l.map fun x => (x.1, F x.2)).find? (fun x => decide (P' x.2))).map (·.1)
      = (l.find? fun x => decide (P x.2)).map (·.1) := by
  induction l with
  | nil => rfl
  | cons a l ih =>
    simp only [List.map_cons, List.find?_cons]
    by_cases hp : P a.2
    · simp [hp, (h a.2).2 hp]
    · have : ¬ P' (F a.2) := fun hh => hp ((h a.2).1 hh)
      simp only [hp, this, decide_false]
      exact ih

/-- the position map is injective on what survives -/
def Remap.Inj (m : Remap) : Prop := ∀ p0 p1 p', m p0 = some p' → m p1 = some p' → p0 = p1

theorem tagE_rootEdit (f : Field) (c : Cut) (hinj : c.remap.Inj) (p p' : Nat) (h : c.remap p = some p') :
    tagE (f.rootEdit c) p' = tagE f p := by
  simp only [tagE, rootEdit_ehs]
  apply find_map_tag f.ehs (eAfterRoot f c) (fun r => r = ERef.at p) (fun r => r = ERef.at p')
  intro a
  cases a with
  | gone t => simp [eAfterRoot]
  | «at» p0 =>
    simp only [eAfterRoot]
    cases hm : c.remap p0 with
    | none => simp; intro hh; subst hh; rw [h] at hm; cases hm
    | some p1 =>
      simp only [ERef.at.injEq]
      constructor
      · intro hh; subst hh; exact hinj p0 p p1 hm h
      · intro hh; subst hh; rw [h] at hm; exact (Option.some.inj hm).symm

theorem tagE_rootEdit_new (f : Field) (c : Cut) (p' : Nat) (h : ∀ p, c.remap p ≠ some p') :
    tagE (f.rootEdit c) p' = none := by
  simp only [tagE, rootEdit_ehs, Option.map_eq_none_iff, List.find?_eq_none, List.mem_map]
  rintro x ⟨y, _, rfl⟩
  simp only [decide_eq_true_eq]
  cases hy : y.2 with
  | gone t => simp [eAfterRoot]
  | «at» p0 =>
    simp only [eAfterRoot]
    cases hm : c.remap p0 with
    | none => simp
    | some p1 => simp only [ERef.at.injEq]; intro hh; subst hh; exact h p0 hm

theorem tagR_rootEdit (f : Field) (c : Cut) (hinj : c.remap.Inj) (p p' q : Nat) (h : c.remap p = some p') :
    tagR (f.rootEdit c) p' q = tagR f p q := by
  simp only [tagR, rootEdit_rhs]
  apply find_map_tag f.rhs (rAfterRoot f c) (fun r => r = RRef.at p q) (fun r => r = RRef.at p' q)
  intro a
  cases a with
  | gone t => simp [rAfterRoot]
  | «at» p0 q0 =>
    simp only [rAfterRoot]
    cases hm : c.remap p0 with
    | none => simp; intro hh _; subst hh; rw [h] at hm; cases hm
    | some p1 =>
      simp only [RRef.at.injEq]
      constructor
      · rintro ⟨hh, hq⟩; subst hh; exact ⟨hinj p0 p p1 hm h, hq⟩
      · rintro ⟨hh, hq⟩; subst hh; rw [h] at hm; exact ⟨(Option.some.inj hm).symm, hq⟩

theorem tagR_rootEdit_new (f : Field) (c : Cut) (p' q : Nat) (h : ∀ p, c.remap p ≠ some p') :
    tagR (f.rootEdit c) p' q = none := by
  simp only [tagR, rootEdit_rhs, Option.map_eq_none_iff, List.find?_eq_none, List.mem_map]
  rintro x ⟨y, _, rfl⟩
  simp only [decide_eq_true_eq]
  cases hy : y.2 with
  | gone t => simp [rAfterRoot]
  | «at» p0 q0 =>
    simp only [rAfterRoot]
    cases hm : c.remap p0 with
    | none => simp
    | some p1 => simp only [RRef.at.injEq]; rintro ⟨hh, _⟩; subst hh; exact h p0 hm

theorem tagE_entryEdit (f : Field) (p : Nat) (c : Cut) (lost : Nat → Option Str) (p1 : Nat) :
    tagE (f.entryEdit p c lost) p1 = tagE f p1 := rfl

theorem tagR_entryEdit_other (f : Field) (p : Nat) (c : Cut) (lost : Nat → Option Str) (p1 q : Nat) (hne : p1 ≠ p) :
    tagR (f.entryEdit p c lost) p1 q = tagR f p1 q := by
  simp only [tagR, entryEdit_rhs]
  apply find_map_tag f.rhs (rAfterEntry f p c lost) (fun r => r = RRef.at p1 q) (fun r => r = RRef.at p1 q)
  intro a
  cases a with
  | gone t => simp [rAfterEntry]
  | «at» p0 q0 =>
    simp only [rAfterEntry]
    by_cases h0 : p0 = p
    · subst h0
      rw [if_pos rfl]
      cases hm : c.remap q0 with
      | none => simp; intro hh; exact absurd hh.symm hne
      | some q1 => simp only [RRef.at.injEq]; constructor <;> (rintro ⟨hh, _⟩; exact absurd hh.symm hne)
    · rw [if_neg h0]

theorem tagR_entryEdit (f : Field) (p : Nat) (c : Cut) (lost : Nat → Option Str) (hinj : c.remap.Inj)
    (q q' : Nat) (h : c.remap q = some q') : tagR (f.entryEdit p c lost) p q' = tagR f p q := by
  simp only [tagR, entryEdit_rhs]
  apply find_map_tag f.rhs (rAfterEntry f p c lost) (fun r => r = RRef.at p q) (fun r => r = RRef.at p q')
  intro a
  cases a with
  | gone t => simp [rAfterEntry]
  | «at» p0 q0 =>
    simp only [rAfterEntry]
    by_cases h0 : p0 = p
    · subst h0
      rw [if_pos rfl]
      cases hm : c.remap q0 with
      | none => simp; intro hh; subst hh; rw [h] at hm; cases hm
      | some q1 =>
        simp only [RRef.at.injEq, true_and]
        constructor
        · intro hh; subst hh; exact hinj q0 q q1 hm h
        · intro hh; subst hh; rw [h] at hm; exact (Option.some.inj hm).symm
    · rw [if_neg h0]; simp [h0]

theorem tagR_entryEdit_new (f : Field) (p : Nat) (c : Cut) (lost : Nat → Option Str) (q' : Nat)
    (h : ∀ q, c.remap q ≠ some q') : tagR (f.entryEdit p c lost) p q' = none := by
  simp only [tagR, entryEdit_rhs, Option.map_eq_none_iff, List.find?_eq_none, List.mem_map]
  rintro x ⟨y, _, rfl⟩
  simp only [decide_eq_true_eq]
  cases hy : y.2 with
  | gone t => simp [rAfterEntry]
  | «at» p0 q0 =>
    simp only [rAfterEntry]
    by_cases h0 : p0 = p
    · subst h0
      rw [if_pos rfl]
      cases hm : c.remap q0 with
      | none => simp
      | some q1 => simp only [RRef.at.injEq, true_and]; intro hh; subst hh; exact h q0 hm
    · rw [if_neg h0]; simp [h0]

/-! ### the position maps, arithmetically -/

theorem ins_inj (pos k : Nat) : (Remap.ins pos k).Inj := by
  intro p0 p1 p' h0 h1
  simp only [Remap.ins] at h0 h1
  split at h0 <;> split at h1 <;> simp only [Option.some.injEq] at h0 h1 <;> omega

theorem cut_inj (a b : Nat) (hab : a ≤ b) : (Remap.cut a b).Inj := by
  intro p0 p1 p' h0 h1
  simp only [Remap.cut] at h0 h1
  split at h0 <;> (try split at h0) <;> split at h1 <;> (try split at h1) <;>
    simp only [Option.some.injEq, reduceCtorEq] at h0 h1 <;> omega

theorem ins_low (pos k p : Nat) (h : p < pos) : Remap.ins pos k p = some p := by simp [Remap.ins, h]
theorem ins_high (pos k p : Nat) (h : pos ≤ p) : Remap.ins pos k p = some (p + k) := by
  simp [Remap.ins, Nat.not_lt.2 h]
theorem ins_new (pos k p' : Nat) (h1 : pos ≤ p') (h2 : p' < pos + k) : ∀ p, Remap.ins pos k p ≠ some p' := by
  intro p hp
  simp only [Remap.ins] at hp
  split at hp <;> simp only [Option.some.injEq] at hp <;> omega
theorem cut_low (a b p : Nat) (h : p < a) : Remap.cut a b p = some p := by simp [Remap.cut, h]
theorem cut_high (a b p : Nat) (hab : a ≤ b) (h : b ≤ p) : Remap.cut a b p = some (p - (b - a)) := by
  simp only [Remap.cut]
  rw [if_neg (by omega), if_neg (by omega)]


/-! ### generic edits under `Fo` -/

theorem Fo_const {β} (g0 : RNode → Option β) (cs : List RNode) (off : Nat) :
    Fo (fun _ c => g0 c) cs off = cs.filterMap g0 := by
  induction cs generalizing off with
  | nil => rfl
  | cons c cs ih =>
    simp only [Fo, ih, List.filterMap_cons]
    cases g0 c <;> simp

theorem Fo_ins {β} (g g' : Nat → RNode → Option β) (g0 : RNode → Option β) (cs new : List RNode) (pos : Nat)
    (hpos : pos ≤ cs.length)
    (hlow : ∀ p, p < pos → ∀ c, g' p c = g p c)
    (hnew : ∀ k, k < new.length → ∀ c, g' (pos + k) c = g0 c)
    (hhigh : ∀ k c, g' (pos + new.length + k) c = g (pos + k) c) :
    Fo g' (insertAt cs pos new) 0 = Fo g (cs.take pos) 0 ++ new.filterMap g0 ++ Fo g (cs.drop pos) pos := by
  have hl : (cs.take pos).length = pos := by simp [Nat.min_eq_left hpos]
  simp only [insertAt, Fo_append, List.length_append, hl, Nat.zero_add]
  congr 1
  · congr 1
    · exact Fo_congr g' g _ 0 (fun p _ h2 c _ => hlow p (by simpa [hl] using h2) c)
    · rw [← Fo_const g0 new pos]
      exact Fo_shift _ _ new pos pos (fun k hk c _ => hnew k hk c)
  · exact Fo_shift _ _ _ _ _ (fun k _ c _ => hhigh k c)

theorem Fo_cut {β} (g g' : Nat → RNode → Option β) (A B : List RNode) (b : Nat)
    (hlow : ∀ p, p < A.length → ∀ c, g' p c = g p c)
    (hhigh : ∀ k c, g' (A.length + k) c = g (b + k) c) :
    Fo g' (A ++ B) 0 = Fo g A 0 ++ Fo g B b := by
  rw [Fo_append, Nat.zero_add]
  congr 1
  · exact Fo_congr g' g _ 0 (fun p _ h2 c _ => hlow p (by simpa using h2) c)
  · exact Fo_shift _ _ _ _ _ (fun k _ c _ => hhigh k c)

theorem Fo_split {β} (g : Nat → RNode → Option β) (cs : List RNode) (pos : Nat) (hpos : pos ≤ cs.length) :
    Fo g cs 0 = Fo g (cs.take pos) 0 ++ Fo g (cs.drop pos) pos := by
  conv => lhs; rw [← List.take_append_drop pos cs]
  rw [Fo_append]; simp [Nat.min_eq_left hpos]

/-! ### the shape model: the list operations on the tags -/

namespace Sh

abbrev Item := Option (Option Nat × List (Option Nat))

def isEntry : Item → Bool
  | some _ => true
  | none => false

def nEntries (s : Shape) : Nat := s.countP isEntry

/-- the `i`-th entry is replaced by the items `G tag tags` -/
def upd (G : Option Nat → List (Option Nat) → Shape) : Shape → Nat → Shape
  | [], _ => []
  | none :: xs, i => none :: upd G xs i
  | some (t, rs) :: xs, 0 => G t rs ++ xs
  | some x :: xs, i + 1 => some x :: upd G xs i

theorem upd_at (G : Option Nat → List (Option Nat) → Shape) (A : Shape) (t : Option Nat) (rs : List (Option Nat))
    (B : Shape) : upd G (A ++ some (t, rs) :: B) (nEntries A) = A ++ G t rs ++ B := by
  induction A with
  | nil => simp [nEntries, upd]
  | cons a A ih =>
    cases a with
    | none => simpa [nEntries, upd, isEntry] using ih
    | some x =>
      have : nEntries (some x :: A) = nEntries A + 1 := by simp [nEntries, List.countP_cons, isEntry]
      rw [this]
      simpa [upd] using ih

/-- a new entry with `n` alternatives: no handle on it nor on them -/
def fresh (n : Nat) : Item := some (none, List.replicate n none)

def insert (s : Shape) (i n : Nat) : Shape :=
  if i < nEntries s then upd (fun t rs => [fresh n, some (t, rs)]) s i else s ++ [fresh n]
def push (s : Shape) (n : Nat) : Shape := s ++ [fresh n]
def replace (s : Shape) (i n : Nat) : Shape := upd (fun _ _ => [fresh n]) s i
def removeEntry (s : Shape) (i : Nat) : Shape := upd (fun _ _ => []) s i
def removeRel (s : Shape) (i j : Nat) : Shape :=
  upd (fun t rs => if (rs.eraseIdx j).isEmpty then [] else [some (t, rs.eraseIdx j)]) s i
def entryPush (s : Shape) (i : Nat) : Shape := upd (fun t rs => [some (t, rs ++ [none])]) s i
def entryReplace (s : Shape) (i j : Nat) : Shape := upd (fun t rs => [some (t, rs.set j none)]) s i

end Sh

/-! ### the shape of a field, split at an entry -/

/-- the shape item of a node no handle sits on -/
def shape0 (c : RNode) : Option Sh.Item :=
  if isNodeOf .ENTRY c then some (Sh.fresh (c.children.countP (isNodeOf .RELATION)))
  else if isNodeOf .SUBSTVAR c then some none
  else none

theorem relTags_none (es : List RNode) : relTags (fun _ => none) es = List.replicate (es.countP (isNodeOf .RELATION)) none := by
  simp only [relTags]
  rw [Fo_const (fun r => if isNodeOf .RELATION r = true then some (none : Option Nat) else none) es 0]
  induction es with
  | nil => rfl
  | cons e es ih =>
    by_cases h : isNodeOf .RELATION e = true
    · simp [List.filterMap_cons, List.countP_cons, h, ih, List.replicate_succ]
    · simp [List.filterMap_cons, List.countP_cons, h, ih]

theorem relTags_congr (t t' : Nat → Option Nat) (es : List RNode) (h : ∀ q, t q = t' q) : relTags t es = relTags t' es := by
  simp only [relTags]
  exact Fo_congr _ _ es 0 (fun q _ _ c _ => by rw [h q])

theorem shapeItem_congr (f f' : Field) (p p' : Nat) (c : RNode) (hE : tagE f' p' = tagE f p)
    (hR : ∀ q, tagR f' p' q = tagR f p q) : shapeItem f' p' c = shapeItem f p c := by
  simp only [shapeItem, hE, relTags_congr _ _ c.children hR]

theorem shapeItem_new (f' : Field) (p' : Nat) (c : RNode) (hE : tagE f' p' = none) (hR : ∀ q, tagR f' p' q = none) :
    shapeItem f' p' c = shape0 c := by
  simp only [shapeItem, shape0, hE, relTags_congr _ (fun _ => none) c.children hR, relTags_none, Sh.fresh]

theorem shapeItem_nonitem (f : Field) (p : Nat) (c : RNode) (h : isItemNode c = false) : shapeItem f p c = none := by
  have : itemOf c = none := by
    have := itemOf_isSome c; rw [h] at this
    cases hi : itemOf c with
    | none => rfl
    | some _ => rw [hi] at this; cases this
  simp only [itemOf] at this
  simp only [shapeItem]
  split at this
  · cases this
  · split at this
    · cases this
    · rename_i h1 h2; simp [h1, h2]

theorem nEntries_Fo (f : Field) (l : List RNode) (off : Nat) :
    Sh.nEntries (Fo (shapeItem f) l off) = l.countP (isNodeOf .ENTRY) := by
  induction l generalizing off with
  | nil => rfl
  | cons c l ih =>
    simp only [Fo, Sh.nEntries, List.countP_append, List.countP_cons]
    have := ih (off + 1)
    simp only [Sh.nEntries] at this
    rw [this]
    by_cases h : isNodeOf .ENTRY c = true
    · simp [shapeItem, h, Sh.isEntry]; omega
    · by_cases h2 : isNodeOf .SUBSTVAR c = true
      · simp [shapeItem, h, h2, Sh.isEntry]
      · simp [shapeItem, h, h2]

theorem shape_split (f : Field) (i p : Nat) (hp : nthNode .ENTRY f.kids i = some p) :
    ∃ pre e post, f.kids = pre ++ e :: post ∧ pre.length = p ∧ isNodeOf .ENTRY e = true
      ∧ Sh.nEntries (Fo (shapeItem f) pre 0) = i
      ∧ shapeOf f = Fo (shapeItem f) pre 0 ++ some (tagE f p, relTags (tagR f p) e.children) :: Fo (shapeItem f) post (p + 1) := by
  obtain ⟨pre, e, post, hk, hl, he, hcnt⟩ := nthPos_some hp
  refine ⟨pre, e, post, hk, hl, he, by rw [nEntries_Fo, hcnt], ?_⟩
  simp only [shapeOf]
  rw [hk, Fo_append, Nat.zero_add, hl]
  simp [Fo, shapeItem, he]


/-! ### edits of the root's children -/

theorem shape_rootIns (f : Field) (pos : Nat) (new : List RNode) (hpos : pos ≤ f.kids.length) :
    shapeOf (f.rootEdit ⟨insertAt f.kids pos new, Remap.ins pos new.length⟩)
      = Fo (shapeItem f) (f.kids.take pos) 0 ++ new.filterMap shape0 ++ Fo (shapeItem f) (f.kids.drop pos) pos := by
  show Fo (shapeItem (f.rootEdit ⟨insertAt f.kids pos new, Remap.ins pos new.length⟩)) (insertAt f.kids pos new) 0 = _
  apply Fo_ins _ _ shape0 _ _ _ hpos
  · intro p hp c
    exact shapeItem_congr _ _ _ _ c (tagE_rootEdit f _ (ins_inj _ _) p p (ins_low _ _ _ hp))
      (fun q => tagR_rootEdit f _ (ins_inj _ _) p p q (ins_low _ _ _ hp))
  · intro k hk c
    exact shapeItem_new _ _ c (tagE_rootEdit_new f _ _ (ins_new pos new.length (pos + k) (by omega) (by omega)))
      (fun q => tagR_rootEdit_new f _ _ q (ins_new pos new.length (pos + k) (by omega) (by omega)))
  · intro k c
    have hm : Remap.ins pos new.length (pos + k) = some (pos + new.length + k) := by
      rw [ins_high _ _ _ (by omega)]; congr 1; omega
    exact shapeItem_congr _ _ _ _ c (tagE_rootEdit f _ (ins_inj _ _) _ _ hm)
      (fun q => tagR_rootEdit f _ (ins_inj _ _) _ _ q hm)

theorem shape_rootCut (f : Field) (A B : List RNode) (b : Nat) (hab : A.length ≤ b) :
    shapeOf (f.rootEdit ⟨A ++ B, Remap.cut A.length b⟩) = Fo (shapeItem f) A 0 ++ Fo (shapeItem f) B b := by
  show Fo (shapeItem (f.rootEdit ⟨A ++ B, Remap.cut A.length b⟩)) (A ++ B) 0 = _
  apply Fo_cut
  · intro p hp c
    exact shapeItem_congr _ _ _ _ c (tagE_rootEdit f _ (cut_inj _ _ hab) p p (cut_low _ _ _ hp))
      (fun q => tagR_rootEdit f _ (cut_inj _ _ hab) p p q (cut_low _ _ _ hp))
  · intro k c
    have hm : Remap.cut A.length b (b + k) = some (A.length + k) := by
      rw [cut_high _ _ _ hab (by omega)]; congr 1; omega
    exact shapeItem_congr _ _ _ _ c (tagE_rootEdit f _ (cut_inj _ _ hab) _ _ hm)
      (fun q => tagR_rootEdit f _ (cut_inj _ _ hab) _ _ q hm)

theorem shape0_tok (k : Kind) (t : Str) : shape0 (.tok k t) = none := by simp [shape0, isNodeOf]
theorem shape0_T (k : Kind) (t : String) : shape0 (T k t) = none := shape0_tok _ _
theorem shape0_entry (e : RNode) (he : isNodeOf .ENTRY e = true) :
    shape0 e = some (Sh.fresh (e.children.countP (isNodeOf .RELATION))) := by simp [shape0, he]

theorem Fo_nonitems (f : Field) (l : List RNode) (off : Nat) (h : ∀ y ∈ l, isItemNode y = false) :
    Fo (shapeItem f) l off = [] := by
  induction l generalizing off with
  | nil => rfl
  | cons c l ih =>
    simp [Fo, shapeItem_nonitem f off c (h c (by simp)), ih (off + 1) (fun y hy => h y (by simp [hy]))]

/-- `Relations::insert(i, entry)` / `push` on the tags: a new, unlabelled entry -/
theorem shape_insert (f : Field) (i : Nat) (entry : RNode) (he : isNodeOf .ENTRY entry = true) :
    shapeOf (f.insert i entry) = Sh.insert (shapeOf f) i (entry.children.countP (isNodeOf .RELATION)) := by
  have hnE : Sh.nEntries (shapeOf f) = f.kids.countP (isNodeOf .ENTRY) := nEntries_Fo f f.kids 0
  unfold Field.insert relationsInsert
  cases hn : nthNode .ENTRY f.kids i with
  | some pos =>
    obtain ⟨pre, x, post, hk, hl, hx, hne, hsh⟩ := shape_split f i pos hn
    have hlt : i < Sh.nEntries (shapeOf f) := by
      rw [hsh, Sh.nEntries, List.countP_append, ← Sh.nEntries, hne]; simp [List.countP_cons, Sh.isEntry]
    simp only [Sh.insert, if_pos hlt]
    have hpos : pos ≤ f.kids.length := by rw [hk, ← hl]; simp
    have := shape_rootIns f pos [entry, T .COMMA ",", T .WHITESPACE " "] hpos
    simp only [List.length_cons, List.length_nil] at this
    rw [this]
    have ht : f.kids.take pos = pre := by rw [hk, ← hl]; simp
    have hd : f.kids.drop pos = x :: post := by rw [hk, ← hl]; simp
    rw [ht, hd, hsh, ← hne, Sh.upd_at]
    simp [List.filterMap_cons, shape0_entry entry he, shape0_T, Fo, shapeItem, hx]
  | none =>
    have hle := nthPos_none hn
    have hnl : ¬ i < Sh.nEntries (shapeOf f) := by rw [hnE]; omega
    simp only [Sh.insert, if_neg hnl]
    have hend : ∀ new : List RNode, new.filterMap shape0 = [Sh.fresh (entry.children.countP (isNodeOf .RELATION))] →
        shapeOf (f.rootEdit ⟨insertAt f.kids f.kids.length new, Remap.ins f.kids.length new.length⟩)
          = shapeOf f ++ [Sh.fresh (entry.children.countP (isNodeOf .RELATION))] := by
      intro new hnew
      rw [shape_rootIns f _ new (Nat.le_refl _), hnew]
      simp [shapeOf, Fo]
    cases hlast : lastPos isItemNode f.kids with
    | none => exact hend [entry] (by simp [shape0_entry entry he])
    | some last =>
      simp only
      split
      · have hb : ∀ b : Bool, (if b = true then [entry] else [T .WHITESPACE " ", entry]).filterMap shape0
            = [Sh.fresh (entry.children.countP (isNodeOf .RELATION))] := by
          intro b; cases b <;> simp [shape0_entry entry he, shape0_T]
        exact hend _ (hb _)
      · obtain ⟨pre, x, post, e, hlen, hx, hpost⟩ := lastPos_some hlast
        have hpos : last + 1 ≤ f.kids.length := by rw [e, ← hlen]; simp
        have := shape_rootIns f (last + 1) [T .COMMA ",", T .WHITESPACE " ", entry] hpos
        simp only [List.length_cons, List.length_nil] at this
        rw [this]
        have hd : f.kids.drop (last + 1) = post := by rw [e, ← hlen]; simp
        rw [hd, Fo_nonitems f post _ hpost]
        have hs := Fo_split (shapeItem f) f.kids (last + 1) hpos
        rw [hd, Fo_nonitems f post _ hpost, List.append_nil] at hs
        simp only [shapeOf, hs]
        simp [shape0_entry entry he, shape0_T]

theorem shape_push (f : Field) (entry : RNode) (he : isNodeOf .ENTRY entry = true) :
    shapeOf (f.push entry) = Sh.push (shapeOf f) (entry.children.countP (isNodeOf .RELATION)) := by
  have : f.push entry = f.insert (f.kids.countP (isNodeOf .ENTRY)) entry := rfl
  rw [this, shape_insert f _ entry he, Sh.insert, if_neg (by have := nEntries_Fo f f.kids 0; simp only [shapeOf]; omega)]
  rfl


theorem shape_rootCut_pieces (f : Field) (A B : List RNode) (b : Nat) (hab : A.length ≤ b) :
    Fo (shapeItem (f.rootEdit ⟨A ++ B, Remap.cut A.length b⟩)) A 0 = Fo (shapeItem f) A 0
    ∧ Fo (shapeItem (f.rootEdit ⟨A ++ B, Remap.cut A.length b⟩)) B A.length = Fo (shapeItem f) B b := by
  constructor
  · apply Fo_congr
    intro p _ hp c _
    have hp' : p < A.length := by simpa using hp
    exact shapeItem_congr _ _ _ _ c (tagE_rootEdit f _ (cut_inj _ _ hab) p p (cut_low _ _ _ hp'))
      (fun q => tagR_rootEdit f _ (cut_inj _ _ hab) p p q (cut_low _ _ _ hp'))
  · apply Fo_shift
    intro k _ c _
    have hm : Remap.cut A.length b (b + k) = some (A.length + k) := by
      rw [cut_high _ _ _ hab (by omega)]; congr 1; omega
    exact shapeItem_congr _ _ _ _ c (tagE_rootEdit f _ (cut_inj _ _ hab) _ _ hm)
      (fun q => tagR_rootEdit f _ (cut_inj _ _ hab) _ _ q hm)

/-- `Relations::replace(i, entry)` on the tags: the old entry's ids are gone, the new one is unlabelled -/
theorem shape_replace (f f' : Field) (i : Nat) (entry : RNode) (he : isNodeOf .ENTRY entry = true)
    (h : f.replace i entry = .ok f') :
    shapeOf f' = Sh.replace (shapeOf f) i (entry.children.countP (isNodeOf .RELATION)) := by
  unfold Field.replace at h
  cases hn : nthNode .ENTRY f.kids i with
  | none => rw [hn] at h; cases h
  | some p =>
    rw [hn] at h
    simp only [Outcome.ok.injEq] at h
    obtain ⟨pre, x, post, hk, hl, hx, hne, hsh⟩ := shape_split f i p hn
    subst hl
    have ht : f.kids.take pre.length = pre := by rw [hk]; simp
    have hd : f.kids.drop (pre.length + 1) = post := by rw [hk]; simp
    rw [ht, hd] at h
    obtain ⟨h1, h2⟩ := shape_rootCut_pieces f pre post (pre.length + 1) (by omega)
    generalize hf1 : f.rootEdit ⟨pre ++ post, Remap.cut pre.length (pre.length + 1)⟩ = f1 at h h1 h2
    have hk1 : f1.kids = pre ++ post := by rw [← hf1]; rfl
    rw [← h]
    have := shape_rootIns f1 pre.length [entry] (by rw [hk1]; simp)
    simp only [List.length_cons, List.length_nil] at this
    rw [this, hk1]
    have ht1 : (pre ++ post).take pre.length = pre := by simp
    have hd1 : (pre ++ post).drop pre.length = post := by simp
    rw [ht1, hd1, h1, h2, hsh, ← hne, Sh.replace, Sh.upd_at]
    simp [shape0_entry entry he]

theorem nonitems_of_abs_nil (ws : List RNode) (h : absKids ws = []) : ∀ y ∈ ws, isItemNode y = false := by
  intro y hy
  simp only [absKids, List.filterMap_eq_nil_iff] at h
  have := itemOf_isSome y
  rw [h y hy] at this
  simpa using this.symm

/-- `Entry::remove()` on the tags: the entry with its ids goes -/
theorem shape_removeEntryAt (f f' : Field) (i p : Nat) (hp : nthNode .ENTRY f.kids i = some p)
    (h : f.removeEntryAt p = .ok f') : shapeOf f' = Sh.removeEntry (shapeOf f) i := by
  obtain ⟨pre, x, post, hk, hl, hx, hne, hsh⟩ := shape_split f i p hp
  subst hl
  unfold Field.removeEntryAt at h
  cases hc : entryRemove f.kids pre.length with
  | panic s => rw [hc] at h; simp [Outcome.map] at h
  | ok c =>
    rw [hc] at h
    simp only [Outcome.map, Outcome.ok.injEq] at h
    obtain ⟨A, B, rfl, hA, hB⟩ := entryRemove_form f.kids pre.length c hc
    have ht : f.kids.take pre.length = pre := by rw [hk]; simp
    have hd : f.kids.drop (pre.length + 1) = post := by rw [hk]; simp
    rw [ht] at hA; rw [hd] at hB
    obtain ⟨wsA, hwA⟩ := hA
    obtain ⟨wsB, hwB⟩ := hB
    have habs : absKids (A ++ B) = absKids pre ++ absKids post := by
      have := abs_entryRemove pre x post ⟨A ++ B, Remap.cut A.length (f.kids.length - B.length)⟩ (by rw [← hk]; exact hc)
      exact this
    rw [← hwA, ← hwB] at habs
    simp only [absKids_append, List.append_assoc] at habs
    have h2 := List.append_cancel_left habs
    have hlen := congrArg List.length h2
    simp only [List.length_append] at hlen
    have hA0 : absKids wsA = [] := List.eq_nil_of_length_eq_zero (by omega)
    have hB0 : absKids wsB = [] := List.eq_nil_of_length_eq_zero (by omega)
    have hlenK : f.kids.length = A.length + wsA.length + 1 + wsB.length + B.length := by
      rw [hk, ← hwA, ← hwB]; simp; omega
    rw [← h, shape_rootCut f A B _ (by omega), hsh, ← hne, Sh.removeEntry, Sh.upd_at]
    simp only [List.append_nil]
    congr 1
    · rw [← hwA, Fo_append, Fo_nonitems f wsA _ (nonitems_of_abs_nil wsA hA0), List.append_nil]
    · rw [← hwB, Fo_append, Fo_nonitems f wsB _ (nonitems_of_abs_nil wsB hB0), List.nil_append]
      congr 1
      rw [← hwA]; simp; omega

theorem shape_removeEntry (f f' : Field) (i : Nat) (h : f.removeEntry i = .ok f') :
    shapeOf f' = Sh.removeEntry (shapeOf f) i := by
  unfold Field.removeEntry at h
  cases hn : nthNode .ENTRY f.kids i with
  | none => rw [hn] at h; cases h
  | some p => rw [hn] at h; exact shape_removeEntryAt f f' i p hn h


/-! ### edits of one entry's children -/

/-- the tag of the relation at position `q` of the entry at `p` -/
def gR (f : Field) (p : Nat) (q : Nat) (r : RNode) : Option (Option Nat) :=
  if isNodeOf .RELATION r then some (tagR f p q) else none

theorem relTags_eq (f : Field) (p : Nat) (es : List RNode) : relTags (tagR f p) es = Fo (gR f p) es 0 := rfl

def gR0 (r : RNode) : Option (Option Nat) := if isNodeOf .RELATION r then some none else none

theorem nrel_Fo (f : Field) (p : Nat) (l : List RNode) (off : Nat) :
    (Fo (gR f p) l off).length = l.countP (isNodeOf .RELATION) := by
  induction l generalizing off with
  | nil => rfl
  | cons c l ih =>
    simp only [Fo, List.length_append, ih, List.countP_cons, gR]
    by_cases h : isNodeOf .RELATION c = true <;> simp [h] <;> omega

theorem Fo_norels (f : Field) (p : Nat) (l : List RNode) (off : Nat) (h : ∀ y ∈ l, isNodeOf .RELATION y = false) :
    Fo (gR f p) l off = [] := by
  apply Fo_nil
  intro q c hc; simp [gR, h c hc]

/-- the shape after an edit of the children of the `i`-th entry: that entry's alternative tags are
    recomputed, everything else stays -/
theorem shape_entryEdit (f : Field) (i p : Nat) (c : Cut) (lost : Nat → Option Str)
    (hp : nthNode .ENTRY f.kids i = some p) :
    shapeOf (f.entryEdit p c lost)
      = Sh.upd (fun t _ => [some (t, relTags (tagR (f.entryEdit p c lost) p) c.kids)]) (shapeOf f) i := by
  obtain ⟨pre, e, post, hk, hl, he, hne, hsh⟩ := shape_split f i p hp
  subst hl
  have hkids := entryEdit_kids f pre.length c lost pre e post hk rfl
  have hother : ∀ p1 x, p1 ≠ pre.length → shapeItem (f.entryEdit pre.length c lost) p1 x = shapeItem f p1 x :=
    fun p1 x hne' => shapeItem_congr _ _ _ _ x rfl (fun q => tagR_entryEdit_other f _ c lost p1 q hne')
  show Fo (shapeItem (f.entryEdit pre.length c lost)) (f.entryEdit pre.length c lost).kids 0 = _
  rw [hkids, Fo_append, Fo_append, hsh, ← hne, Sh.upd_at]
  simp only [Nat.zero_add, List.length_append, List.length_singleton]
  congr 1
  · congr 1
    · exact Fo_congr _ _ _ 0 (fun p1 _ h2 x _ => hother p1 x (by simp at h2; omega))
    · simp [Fo, shapeItem, isNodeOf_node, isNodeOf_kind he, tagE_entryEdit]
  · exact Fo_congr _ _ _ _ (fun p1 h1 _ x _ => hother p1 x (by omega))

theorem relTags_entryIns (f : Field) (p : Nat) (es new : List RNode) (pos : Nat) (lost : Nat → Option Str)
    (hpos : pos ≤ es.length) :
    relTags (tagR (f.entryEdit p ⟨insertAt es pos new, Remap.ins pos new.length⟩ lost) p) (insertAt es pos new)
      = Fo (gR f p) (es.take pos) 0 ++ new.filterMap gR0 ++ Fo (gR f p) (es.drop pos) pos := by
  rw [relTags_eq]
  apply Fo_ins _ _ gR0 _ _ _ hpos
  · intro q hq r
    have := tagR_entryEdit f p ⟨insertAt es pos new, Remap.ins pos new.length⟩ lost (ins_inj _ _) q q (ins_low _ _ _ hq)
    simp only [gR, this]
  · intro k hk r
    have := tagR_entryEdit_new f p ⟨insertAt es pos new, Remap.ins pos new.length⟩ lost (pos + k)
      (ins_new pos new.length (pos + k) (by omega) (by omega))
    simp only [gR, gR0, this]
  · intro k r
    have hm : Remap.ins pos new.length (pos + k) = some (pos + new.length + k) := by
      rw [ins_high _ _ _ (by omega)]; congr 1; omega
    have := tagR_entryEdit f p ⟨insertAt es pos new, Remap.ins pos new.length⟩ lost (ins_inj _ _) _ _ hm
    simp only [gR, this]

theorem relTags_entryCut (f : Field) (p : Nat) (A B : List RNode) (b : Nat) (lost : Nat → Option Str)
    (hab : A.length ≤ b) :
    relTags (tagR (f.entryEdit p ⟨A ++ B, Remap.cut A.length b⟩ lost) p) (A ++ B)
      = Fo (gR f p) A 0 ++ Fo (gR f p) B b := by
  rw [relTags_eq]
  apply Fo_cut
  · intro q hq r
    have := tagR_entryEdit f p ⟨A ++ B, Remap.cut A.length b⟩ lost (cut_inj _ _ hab) q q (cut_low _ _ _ hq)
    simp only [gR, this]
  · intro k r
    have hm : Remap.cut A.length b (b + k) = some (A.length + k) := by
      rw [cut_high _ _ _ hab (by omega)]; congr 1; omega
    have := tagR_entryEdit f p ⟨A ++ B, Remap.cut A.length b⟩ lost (cut_inj _ _ hab) _ _ hm
    simp only [gR, this]

/-- the tags of an entry's alternatives, split at the `j`-th -/
theorem relTags_split (f : Field) (p : Nat) (es : List RNode) (j q : Nat) (hq : nthNode .RELATION es j = some q) :
    ∃ pre r post, es = pre ++ r :: post ∧ pre.length = q ∧ isNodeOf .RELATION r = true
      ∧ (Fo (gR f p) pre 0).length = j
      ∧ relTags (tagR f p) es = Fo (gR f p) pre 0 ++ tagR f p q :: Fo (gR f p) post (q + 1) := by
  obtain ⟨pre, r, post, hk, hl, hr, hcnt⟩ := nthPos_some hq
  refine ⟨pre, r, post, hk, hl, hr, by rw [nrel_Fo, hcnt], ?_⟩
  rw [relTags_eq, hk, Fo_append, Nat.zero_add, hl]
  simp [Fo, gR, hr]

/-- `Entry::push(rel)` on the tags: one more, unlabelled alternative -/
theorem shape_entryPushAt (f : Field) (i p : Nat) (rel : RNode) (hp : nthNode .ENTRY f.kids i = some p)
    (hr : isNodeOf .RELATION rel = true) :
    shapeOf (f.entryPushAt p rel) = Sh.entryPush (shapeOf f) i := by
  obtain ⟨pre, e, post, hk, hl, he, hne, hsh⟩ := shape_split f i p hp
  unfold Field.entryPushAt
  rw [shape_entryEdit f i p _ _ hp]
  have hek : f.entryKids p = e.children := by subst hl; exact entryKids_split f pre e post hk
  rw [hsh, ← hne, Sh.upd_at, Sh.entryPush, Sh.upd_at]
  congr 2
  simp only [List.cons.injEq, and_true, Option.some.injEq, Prod.mk.injEq, true_and]
  rw [hek]
  have hg0 : ∀ b : Bool, (if b = true then [rel] else [T .WHITESPACE " ", T .PIPE "|", T .WHITESPACE " ", rel]).filterMap gR0
      = [none] := by
    have h1 : gR0 rel = some none := by simp [gR0, hr]
    have h2 : ∀ k t, gR0 (T k t) = none := fun k t => rfl
    intro b; cases b <;> simp [List.filterMap_cons, h1, h2]
  have hg1 : ∀ b : Bool, (if b = true then [rel] else [T .PIPE "|", T .WHITESPACE " ", rel]).filterMap gR0
      = [none] := by
    have h1 : gR0 rel = some none := by simp [gR0, hr]
    have h2 : ∀ k t, gR0 (T k t) = none := fun k t => rfl
    intro b; cases b <;> simp [List.filterMap_cons, h1, h2]
  unfold entryPushIn
  cases hl' : lastPos (isNodeOf .RELATION) e.children with
  | some last =>
    obtain ⟨pre', x, post', e', hlen, hx, hpost⟩ := lastPos_some hl'
    have hpos : last + 1 ≤ e.children.length := by rw [e', ← hlen]; simp
    simp only
    rw [relTags_entryIns f p e.children _ (last + 1) _ hpos, hg0]
    have hd : e.children.drop (last + 1) = post' := by rw [e', ← hlen]; simp
    rw [hd, Fo_norels f p post' _ hpost, List.append_nil]
    have hs := Fo_split (gR f p) e.children (last + 1) hpos
    rw [hd, Fo_norels f p post' _ hpost, List.append_nil] at hs
    rw [relTags_eq, hs]
  | none =>
    simp only
    rw [relTags_entryIns f p e.children _ e.children.length _ (Nat.le_refl _), hg1]
    simp [relTags_eq, Fo]


/-- what `Relation::remove` leaves of the children before a non-first relation -/
def stripBack (l : List RNode) : List RNode :=
  (List.dropWhile isWsElem
    (match List.dropWhile isWsElem l.reverse with
      | y :: r => if (y.kind == Kind.PIPE) = true then r else List.dropWhile isWsElem l.reverse
      | [] => [])).reverse

theorem stripBack_prefix (l : List RNode) : stripBack l <+: l := by
  unfold stripBack
  have hpre : ∀ l : List RNode, (l.dropWhile isWsElem).reverse <+: l.reverse := by
    intro l
    exact List.reverse_prefix.2 (List.dropWhile_suffix (l := l) isWsElem)
  refine List.IsPrefix.trans (hpre _) ?_
  have h0 := dropTrailing_prefix isWsElem l
  split
  · rename_i y r heq
    split
    · rw [heq, List.reverse_cons] at h0
      exact List.IsPrefix.trans (List.prefix_append _ _) h0
    · exact h0
  · simp

theorem relationRemoveIn_form (es : List RNode) (q : Nat) (hq : q < es.length) (c : Cut)
    (h : relationRemoveIn es q = .ok c) :
    ∃ A B b, c = ⟨A ++ B, Remap.cut A.length b⟩ ∧ A <+: es.take q ∧ B <:+ es.drop (q + 1)
      ∧ A.length ≤ b ∧ b + B.length = es.length := by
  unfold relationRemoveIn at h
  simp only at h
  have hdl : (es.drop (q + 1)).length = es.length - (q + 1) := by simp
  have htl : (es.take q).length = q := by simp [Nat.min_eq_left (Nat.le_of_lt hq)]
  split at h
  · simp only [Outcome.ok.injEq] at h
    have h' : (⟨stripBack (es.take q) ++ es.drop (q + 1), Remap.cut (stripBack (es.take q)).length (q + 1)⟩ : Cut) = c := h
    have hA := stripBack_prefix (es.take q)
    have hAl := hA.length_le
    rw [htl] at hAl
    exact ⟨stripBack (es.take q), es.drop (q + 1), q + 1, h'.symm, hA, List.suffix_refl _, by omega, by rw [hdl]; omega⟩
  · split at h
    · split at h
      · rename_i x' r' heq _
        simp only [Outcome.ok.injEq] at h
        have hB : r'.dropWhile isWsElem <:+ es.drop (q + 1) := by
          refine List.IsSuffix.trans (List.dropWhile_suffix _) ?_
          have h1 : (x' :: r') <:+ es.drop (q + 1) := by rw [← heq]; exact List.dropWhile_suffix _
          exact List.IsSuffix.trans (List.suffix_cons _ _) h1
        have hBl := hB.length_le
        rw [hdl] at hBl
        refine ⟨es.take q, _, es.length - (r'.dropWhile isWsElem).length, ?_, List.prefix_refl _, hB, by rw [htl]; omega, by omega⟩
        rw [← h, htl]
      · cases h
    · simp only [Outcome.ok.injEq] at h
      refine ⟨es.take q, [], es.length, ?_, List.prefix_refl _, List.nil_suffix, by rw [htl]; omega, by simp⟩
      rw [← h, htl, List.append_nil]

theorem norels_of_cn_nil (ws : List RNode) (h : cn .RELATION ws = []) : ∀ y ∈ ws, isNodeOf .RELATION y = false := by
  intro y hy
  simp only [cn, List.filter_eq_nil_iff] at h
  have := h y hy
  simpa [isNodeOf] using this

/-- `Relation::remove()` on the tags: the alternative with its id goes, and the entry with its id when
    it was the last one -/
theorem shape_removeRelationAt (f f' : Field) (i j p q : Nat) (hp : nthNode .ENTRY f.kids i = some p)
    (hq : nthNode .RELATION (f.entryKids p) j = some q) (h : f.removeRelationAt p q = .ok f') :
    shapeOf f' = Sh.removeRel (shapeOf f) i j := by
  obtain ⟨pre, e, post, hk, hl, he, hne, hsh⟩ := shape_split f i p hp
  have hek : f.entryKids p = e.children := by subst hl; exact entryKids_split f pre e post hk
  rw [hek] at hq
  obtain ⟨pre', r, post', hk', hl', hr, hj, hrs⟩ := relTags_split f p e.children j q hq
  have hqlt : q < e.children.length := by rw [hk', ← hl']; simp
  unfold Field.removeRelationAt at h
  rw [hek] at h
  cases hc : relationRemoveIn e.children q with
  | panic s => rw [hc] at h; simp [Outcome.bind] at h
  | ok c =>
    rw [hc] at h
    simp only [Outcome.bind] at h
    obtain ⟨A, B, b, rfl, hA, hB, hab, hbl⟩ := relationRemoveIn_form e.children q hqlt c hc
    have ht : e.children.take q = pre' := by rw [hk', ← hl']; simp
    have hd : e.children.drop (q + 1) = post' := by rw [hk', ← hl']; simp
    rw [ht] at hA; rw [hd] at hB
    obtain ⟨wsA, hwA⟩ := hA
    obtain ⟨wsB, hwB⟩ := hB
    have hcn := cn_relationRemoveIn pre' r post' ⟨A ++ B, Remap.cut A.length b⟩ (by rw [← hk', hl']; exact hc)
    simp only at hcn
    rw [← hwA, ← hwB] at hcn
    simp only [Rel.cn_append, List.append_assoc] at hcn
    have h2 := List.append_cancel_left hcn
    have hlen := congrArg List.length h2
    simp only [List.length_append] at hlen
    have hA0 : cn .RELATION wsA = [] := List.eq_nil_of_length_eq_zero (by omega)
    have hB0 : cn .RELATION wsB = [] := List.eq_nil_of_length_eq_zero (by omega)
    have hlenE : e.children.length = A.length + wsA.length + 1 + wsB.length + B.length := by
      rw [hk', ← hwA, ← hwB]; simp; omega
    -- the tags of the entry after the cut
    have htags : relTags (tagR (f.entryEdit p ⟨A ++ B, Remap.cut A.length b⟩) p) (A ++ B)
        = (relTags (tagR f p) e.children).eraseIdx j := by
      rw [relTags_entryCut f p A B b _ hab, hrs, ← hj, eraseIdx_at]
      congr 1
      · rw [← hwA, Fo_append, Fo_norels f p wsA _ (norels_of_cn_nil wsA hA0), List.append_nil]
      · rw [← hwB, Fo_append, Fo_norels f p wsB _ (norels_of_cn_nil wsB hB0), List.nil_append]
        congr 1
        have : pre'.length = A.length + wsA.length := by rw [← hwA]; simp
        omega
    have hsh1 := shape_entryEdit f i p ⟨A ++ B, Remap.cut A.length b⟩ (fun _ => none) hp
    simp only [htags] at hsh1
    rw [hsh, ← hne, Sh.upd_at] at hsh1
    simp only [List.append_assoc, List.singleton_append] at hsh1
    have hcount : ((relTags (tagR f p) e.children).eraseIdx j).length = (A ++ B).countP (isNodeOf .RELATION) := by
      rw [← htags, relTags_eq, nrel_Fo]
    have hek1 : (f.entryEdit p ⟨A ++ B, Remap.cut A.length b⟩).entryKids p = A ++ B := by
      subst hl
      have := entryEdit_kids f pre.length ⟨A ++ B, Remap.cut A.length b⟩ (fun _ => none) pre e post hk rfl
      exact entryKids_split _ pre (Node.node e.kind (A ++ B)) post (by rw [this]; simp)
    rw [hek1] at h
    rw [hsh, ← hne, Sh.removeRel, Sh.upd_at]
    by_cases hany : (A ++ B).any (isNodeOf .RELATION) = true
    · rw [hany] at h
      simp only [Bool.not_true, Bool.false_eq_true, ↓reduceIte, Outcome.ok.injEq] at h
      have hne0 : ((relTags (tagR f p) e.children).eraseIdx j).isEmpty = false := by
        rw [List.isEmpty_eq_false_iff, ← List.length_pos_iff, hcount]
        exact List.countP_pos_iff.2 (List.any_eq_true.1 hany)
      rw [← h, hsh1, hne0]; simp
    · have hany' : (A ++ B).any (isNodeOf .RELATION) = false := by simpa using hany
      rw [hany'] at h
      simp only [Bool.not_false, ↓reduceIte] at h
      have he0 : ((relTags (tagR f p) e.children).eraseIdx j).isEmpty = true := by
        rw [List.isEmpty_iff]
        apply List.eq_nil_of_length_eq_zero
        rw [hcount, List.countP_eq_zero]
        intro x hx
        have := List.any_eq_false.1 hany' x hx
        simpa using this
      have hp1 : nthNode .ENTRY (f.entryEdit p ⟨A ++ B, Remap.cut A.length b⟩).kids i = some p := by
        subst hl
        have hkk := entryEdit_kids f pre.length ⟨A ++ B, Remap.cut A.length b⟩ (fun _ => none) pre e post hk rfl
        have hcnt : pre.countP (isNodeOf .ENTRY) = i := by rw [← hne, nEntries_Fo]
        rw [hkk, ← hcnt, show pre ++ [Node.node e.kind (A ++ B)] ++ post = pre ++ Node.node e.kind (A ++ B) :: post from by simp]
        exact nthPos_split pre _ post (by simp [isNodeOf_node, isNodeOf_kind he])
      rw [shape_removeEntryAt _ f' i p hp1 h, hsh1, ← hne, Sh.removeEntry, Sh.upd_at, he0]
      simp

theorem shape_removeRelation (f f' : Field) (i j : Nat) (h : f.removeRelation i j = .ok f') :
    shapeOf f' = Sh.removeRel (shapeOf f) i j := by
  unfold Field.removeRelation at h
  cases hn : nthNode .ENTRY f.kids i with
  | none => rw [hn] at h; cases h
  | some p =>
    rw [hn] at h
    simp only at h
    cases hm : nthNode .RELATION (f.entryKids p) j with
    | none => rw [hm] at h; cases h
    | some q => rw [hm] at h; exact shape_removeRelationAt f f' i j p q hn hm h


theorem relTags_entryCut_pieces (f : Field) (p : Nat) (A B : List RNode) (b : Nat) (lost : Nat → Option Str)
    (hab : A.length ≤ b) :
    Fo (gR (f.entryEdit p ⟨A ++ B, Remap.cut A.length b⟩ lost) p) A 0 = Fo (gR f p) A 0
    ∧ Fo (gR (f.entryEdit p ⟨A ++ B, Remap.cut A.length b⟩ lost) p) B A.length = Fo (gR f p) B b := by
  constructor
  · apply Fo_congr
    intro q _ hq r _
    have hq' : q < A.length := by simpa using hq
    have := tagR_entryEdit f p ⟨A ++ B, Remap.cut A.length b⟩ lost (cut_inj _ _ hab) q q (cut_low _ _ _ hq')
    simp only [gR, this]
  · apply Fo_shift
    intro k _ r _
    have hm : Remap.cut A.length b (b + k) = some (A.length + k) := by
      rw [cut_high _ _ _ hab (by omega)]; congr 1; omega
    have := tagR_entryEdit f p ⟨A ++ B, Remap.cut A.length b⟩ lost (cut_inj _ _ hab) _ _ hm
    simp only [gR, this]

theorem set_at {α} (A : List α) (x y : α) (B : List α) : (A ++ x :: B).set A.length y = A ++ y :: B := by
  induction A with
  | nil => rfl
  | cons a A ih => simp [ih]

/-- `Entry::replace(j, rel)` on the tags: the old alternative's id is gone, the new one is unlabelled -/
theorem shape_entryReplaceAt (f f' : Field) (i j p : Nat) (rel : RNode) (hp : nthNode .ENTRY f.kids i = some p)
    (hr : isNodeOf .RELATION rel = true) (h : f.entryReplaceAt p j rel = .ok f') :
    shapeOf f' = Sh.entryReplace (shapeOf f) i j := by
  obtain ⟨pre, e, post, hk, hl, he, hne, hsh⟩ := shape_split f i p hp
  have hek : f.entryKids p = e.children := by subst hl; exact entryKids_split f pre e post hk
  unfold Field.entryReplaceAt at h
  rw [hek] at h
  cases hq : nthNode .RELATION e.children j with
  | none => rw [hq] at h; cases h
  | some q =>
    rw [hq] at h
    obtain ⟨pre', r, post', hk', hl', hrr, hj, hrs⟩ := relTags_split f p e.children j q hq
    subst hl'
    have ht : e.children.take pre'.length = pre' := by rw [hk']; simp
    have hd : e.children.drop (pre'.length + 1) = post' := by rw [hk']; simp
    simp only [entryReplaceIn, hk', getElem?_split, Outcome.map, Outcome.ok.injEq] at h
    rw [← hk', ht, hd] at h
    have hrep : replaceAt e.children pre'.length [(graftWs r rel).1] = insertAt (pre' ++ post') pre'.length [(graftWs r rel).1] := by
      rw [hk']; simp [replaceAt, insertAt]
    rw [hrep] at h
    obtain ⟨c1, c2⟩ := relTags_entryCut_pieces f p pre' post' (pre'.length + 1)
      (fun x => if x = pre'.length then some (graftWs r rel).2.text else none) (by omega)
    generalize hf1 : f.entryEdit p ⟨pre' ++ post', Remap.cut pre'.length (pre'.length + 1)⟩
      (fun x => if x = pre'.length then some (graftWs r rel).2.text else none) = f1 at h c1 c2
    have hsh1 : shapeOf f1 = Fo (shapeItem f) pre 0
        ++ some (tagE f p, Fo (gR f p) pre' 0 ++ Fo (gR f p) post' (pre'.length + 1)) :: Fo (shapeItem f) post (p + 1) := by
      rw [← hf1, shape_entryEdit f i p _ _ hp, hsh, ← hne, Sh.upd_at, hf1, relTags_eq, Fo_append, Nat.zero_add, c1, c2]
      simp
    have hp1 : nthNode .ENTRY f1.kids i = some p := by
      subst hl
      have hkk : f1.kids = pre ++ [Node.node e.kind (pre' ++ post')] ++ post := by
        rw [← hf1]; exact entryEdit_kids f pre.length _ _ pre e post hk rfl
      have hcnt : pre.countP (isNodeOf .ENTRY) = i := by rw [← hne, nEntries_Fo]
      rw [hkk, ← hcnt, show pre ++ [Node.node e.kind (pre' ++ post')] ++ post = pre ++ Node.node e.kind (pre' ++ post') :: post
        from by simp]
      exact nthPos_split pre _ post (by simp [isNodeOf_node, isNodeOf_kind he])
    rw [← h, shape_entryEdit f1 i p _ _ hp1, hsh1, ← hne, Sh.upd_at, hsh, Sh.entryReplace, Sh.upd_at]
    congr 2
    simp only [List.cons.injEq, and_true, Option.some.injEq, Prod.mk.injEq, true_and]
    have := relTags_entryIns f1 p (pre' ++ post') [(graftWs r rel).1] pre'.length (fun _ => none) (by simp)
    simp only [List.length_cons, List.length_nil] at this
    rw [this]
    have ht1 : (pre' ++ post').take pre'.length = pre' := by simp
    have hd1 : (pre' ++ post').drop pre'.length = post' := by simp
    have hnew : isNodeOf .RELATION (graftWs r rel).1 = true := by
      simp [graftWs, isNodeOf_node, isNodeOf_kind hr]
    rw [ht1, hd1, c1, c2, hrs, ← hj, set_at]
    simp [gR0, hnew]

/-- a setter moves no tag -/
theorem shape_relEdit (f : Field) (i j p q : Nat) (g : RNode → RNode) (hp : nthNode .ENTRY f.kids i = some p)
    (hq : nthNode .RELATION (f.entryKids p) j = some q)
    (hg : ∀ r, isNodeOf .RELATION r = true → isNodeOf .RELATION (g r) = true) :
    shapeOf (f.relEdit p q g) = shapeOf f := by
  obtain ⟨pre, e, post, hk, hl, he, hne, hsh⟩ := shape_split f i p hp
  subst hl
  have hek := entryKids_split f pre e post hk
  rw [hek] at hq
  obtain ⟨pre', r, post', hk', hl', hr, hcnt⟩ := nthPos_some hq
  subst hl'
  have hkids : (f.relEdit pre.length pre'.length g).kids = pre ++ [.node e.kind (pre' ++ g r :: post')] ++ post := by
    simp only [Field.relEdit, hk, getElem?_split, hk', replaceAt_split]
    simp
  have htag : ∀ p1 x, shapeItem (f.relEdit pre.length pre'.length g) p1 x = shapeItem f p1 x := by
    intro p1 x
    apply shapeItem_congr
    · simp only [tagE, (C11h f pre.length pre'.length g).1]
    · intro q'; simp only [tagR, (C11h f pre.length pre'.length g).2]
  have hN : shapeItem f pre.length (Node.node e.kind (pre' ++ g r :: post'))
      = some (some (tagE f pre.length, relTags (tagR f pre.length) e.children)) := by
    have h1 : isNodeOf .ENTRY (Node.node e.kind (pre' ++ g r :: post')) = true := by
      simp [isNodeOf_node, isNodeOf_kind he]
    simp only [shapeItem, h1, ↓reduceIte, children_node, Option.some.injEq, Prod.mk.injEq, true_and]
    rw [relTags_eq, relTags_eq, hk', Fo_append, Fo_append]
    simp [Fo, gR, hr, hg r hr]
  show Fo (shapeItem (f.relEdit pre.length pre'.length g)) (f.relEdit pre.length pre'.length g).kids 0 = _
  rw [hkids, Fo_congr _ (shapeItem f) _ 0 (fun p1 _ _ x _ => htag p1 x), hsh, Fo_append, Fo_append]
  have hoff : 0 + (pre ++ [Node.node e.kind (pre' ++ g r :: post')]).length = pre.length + 1 := by simp
  rw [hoff]
  simp [Fo, hN]

end Deb822Verif.Rel.Edit
