import Deb822Verif.Lemmas.DebWrapFmtIdem
import Deb822Verif.Lemmas.CtlWrapUploaders
/-!
  The formatter path, second pass, for any (multi-line) formatter output: the raw text a second
  `Entry::wrap_and_sort` hands to the formatter is the first output with whitespace removed at its
  two ends and possibly a space or a line feed put in front (`Ctl.WsEquiv`). Hence a formatter that
  is stable under that change has the reformatted field as a fixed point.
-/
namespace Deb822Verif.Deb
open Deb822Verif Node Spec
open Ctl

def dropTrailingT (q : Tok → Bool) (ts : List Tok) : List Tok := (ts.reverse.dropWhile q).reverse

theorem dropTrailing_map_tk' (ts : List Tok) :
    dropTrailing nlwsN (ts.map tk) = (dropTrailingT nlwsT ts).map tk := by
  unfold dropTrailing dropTrailingT
  rw [← List.map_reverse, List.dropWhile_map, List.map_reverse]
  rfl

theorem dropTrailingT_suffix (q : Tok → Bool) (ts : List Tok) :
    ∃ suf, ts = dropTrailingT q ts ++ suf ∧ ∀ t ∈ suf, q t = true := by
  refine ⟨(ts.reverse.takeWhile q).reverse, ?_, ?_⟩
  · unfold dropTrailingT
    have := List.takeWhile_append_dropWhile (p := q) (l := ts.reverse)
    have h2 := congrArg List.reverse this
    simp only [List.reverse_append, List.reverse_reverse] at h2
    exact h2.symm
  · intro t ht
    exact List.all_eq_true.1 (List.all_takeWhile (p := q) (l := ts.reverse)) t (by simpa using ht)

theorem dropTrailingT_append (q : Tok → Bool) (a b : List Tok) :
    dropTrailingT q (a ++ b) =
      if (dropTrailingT q b).isEmpty then dropTrailingT q a else a ++ dropTrailingT q b := by
  unfold dropTrailingT
  rw [List.reverse_append, List.dropWhile_append]
  by_cases h : (b.reverse.dropWhile q).isEmpty = true
  · simp [h]
  · simp [h]

/-! ### the text of the re-lexed output -/

theorem tokText_optTok (k : Kind) (s : Str) : tokText (optTok k s) = s := by
  unfold optTok; split <;> simp_all

theorem tokText_lineToks (l : Str) : tokText (lineToks l) = l := by
  simp only [lineToks, tokText_append, tokText_optTok, List.takeWhile_append_dropWhile]

theorem tokText_linesToks (ls : List Str) : tokText (linesToks ls) = Text.join ['\n'] ls := by
  induction ls with
  | nil => rfl
  | cons l r ih =>
    cases r with
    | nil => simp [linesToks, Text.join, tokText_lineToks]
    | cons m r' =>
      simp only [linesToks, tokText_append, tokText_cons, tokText_lineToks, ih, Text.join]
      simp

theorem join_splitOn (sep : Char) (s : Str) : Text.join [sep] (Text.splitOn sep s) = s := by
  induction s with
  | nil => rfl
  | cons c cs ih =>
    simp only [Text.splitOn]
    split
    · rename_i hc
      cases hs : Text.splitOn sep cs with
      | nil => exact absurd hs (Ctl.splitOn_ne_nil' sep cs)
      | cons x xs =>
        rw [hs] at ih
        simp only [Text.join, List.nil_append, List.singleton_append]
        rw [ih, hc]
    · cases hs : Text.splitOn sep cs with
      | nil => exact absurd hs (Ctl.splitOn_ne_nil' sep cs)
      | cons x xs =>
        rw [hs] at ih
        simp only
        cases xs with
        | nil => simp only [Text.join] at ih ⊢; rw [ih]
        | cons y ys =>
          simp only [Text.join, List.cons_append] at ih ⊢
          rw [ih]

theorem tokText_fmtToks (out : Str) (hcr : '\r' ∉ out) : tokText (fmtToks out) = out := by
  rw [fmtToks_eq out hcr, tokText_linesToks, join_splitOn]

/-- WHITESPACE tokens consist of spaces and tabs, NEWLINE tokens are `"\n"` -/
def WsToks (ts : List Tok) : Prop := ∀ t ∈ ts, nlwsT t = true → WsOnly t.2

theorem lineToks_wsToks (l : Str) : WsToks (lineToks l) := by
  intro t ht hq
  simp only [lineToks, List.mem_append] at ht
  rcases ht with ht | ht
  · rw [mem_optTok ht]
    intro c hc
    have := List.all_eq_true.1 (List.all_takeWhile (p := isIndent) (l := l)) c hc
    simp [isWs3, this]
  · rw [mem_optTok ht] at hq; cases hq

theorem linesToks_wsToks (ls : List Str) : WsToks (linesToks ls) := by
  induction ls with
  | nil => intro t ht; simp [linesToks] at ht
  | cons l r ih =>
    cases r with
    | nil => exact lineToks_wsToks l
    | cons m r' =>
      intro t ht hq
      simp only [linesToks, List.mem_append, List.mem_cons] at ht
      rcases ht with ht | rfl | ht
      · exact lineToks_wsToks l t ht hq
      · intro c hc; simp at hc; subst hc; rfl
      · exact ih t ht hq

theorem wsOnly_tokText (ts : List Tok) (hw : WsToks ts) (hq : ∀ t ∈ ts, nlwsT t = true) : WsOnly (tokText ts) := by
  induction ts with
  | nil => exact wsOnly_nil
  | cons t r ih =>
    rw [tokText_cons]
    exact wsOnly_append (hw t (by simp) (hq t (by simp)))
      (ih (fun x hx => hw x (by simp [hx])) (fun x hx => hq x (by simp [hx])))

/-! ### the content tokens of a rebuilt value, for any token list -/

theorem close_nlws (b : Bool) : ∀ x ∈ rbClose b, nlwsN x = true := by
  cases b <;> simp [rbClose, Node.kind]

/-- how the collected tokens relate to the tokens `ts` handed to `rebuild_value`: copied; or, from the
    first text on, behind a NEWLINE (only for a value with a line break or a leading comment) or behind
    one space -/
def Collected (ts pre s : List Tok) : Prop :=
  (pre = [] ∧ s = ts)
  ∨ (pre = [(Kind.NEWLINE, ['\n'])] ∧ s = rbStrip ts ∧ (rbFirstIsComment ts || rbHasNewline ts) = true)
  ∨ (pre = [(Kind.WHITESPACE, [' '])] ∧ s = rbStrip ts)

/-- what `Entry::wrap_and_sort` collects from a rebuilt value: the tokens (from the first text on,
    when the layout is rebuilt), behind nothing, one NEWLINE or one space, trailing NEWLINE /
    WHITESPACE tokens dropped -/
theorem rebuildValue_content (ts : List Tok) (kl ind : Nat) (imm : Bool) (mx : Option Nat)
    (hc : ContentToks ts) :
    ∃ pre s, Collected ts pre s
      ∧ dropTrailing nlwsN ((rebuildValue ts kl ind imm mx).filter contentKinds)
          = (dropTrailingT nlwsT (pre ++ s)).map tk := by
  have hcs : ContentToks (rbStrip ts) := fun t ht => hc t ((List.dropWhile_sublist _).subset ht)
  have hnlk : contentKinds (Node.tok Kind.NEWLINE ['\n']) = true := rfl
  have hwsk : contentKinds (Node.tok Kind.WHITESPACE [' ']) = true := rfl
  have hclosef : ∀ b, (rbClose b).filter contentKinds = rbClose b := by
    intro b; cases b <;> simp [rbClose, hnlk]
  unfold rebuildValue
  split
  · refine ⟨[], ts, Or.inl ⟨rfl, rfl⟩, ?_⟩
    rw [List.filter_append, map_tk_filter ts hc,
      show [Node.tok Kind.NEWLINE ['\n']].filter contentKinds = [Node.tok Kind.NEWLINE ['\n']] from rfl,
      dropTrailing_concat_pos _ _ _ rfl, List.nil_append, dropTrailing_map_tk']
  · split
    · rename_i hB
      have hcn : (rbFirstIsComment ts || rbHasNewline ts) = true := by
        cases h1 : rbFirstIsComment ts with
        | true => rfl
        | false =>
          rw [h1] at hB
          cases h2 : rbHasNewline ts with
          | true => rfl
          | false => rw [h2] at hB; simp at hB
      refine ⟨[(Kind.NEWLINE, ['\n'])], rbStrip ts, Or.inr (Or.inl ⟨rfl, rfl, hcn⟩), ?_⟩
      rw [List.cons_append, List.filter_cons, if_pos hnlk, List.filter_append, go_filter ind _ _ hcs, hclosef]
      rw [show Node.tok Kind.NEWLINE ['\n'] :: (List.map tk (rbStrip ts) ++ rbClose _)
          = List.map tk ([(Kind.NEWLINE, ['\n'])] ++ rbStrip ts) ++ rbClose _ from rfl,
        dropTrailing_append_all _ _ _ (close_nlws _), dropTrailing_map_tk']
    · refine ⟨[(Kind.WHITESPACE, [' '])], rbStrip ts, Or.inr (Or.inr ⟨rfl, rfl⟩), ?_⟩
      rw [List.cons_append, List.filter_cons, if_pos hwsk, List.filter_append, go_filter ind _ _ hcs, hclosef]
      rw [show Node.tok Kind.WHITESPACE [' '] :: (List.map tk (rbStrip ts) ++ rbClose _)
          = List.map tk ([(Kind.WHITESPACE, [' '])] ++ rbStrip ts) ++ rbClose _ from rfl,
        dropTrailing_append_all _ _ _ (close_nlws _), dropTrailing_map_tk']

/-- the text of the collected tokens is the text of `ts` up to whitespace at the ends -/
theorem content_wsEquiv (ts pre s : List Tok) (hw : WsToks ts)
    (hps : Collected ts pre s) :
    WsEquiv (tokText ts) (tokText (dropTrailingT nlwsT (pre ++ s))) := by
  -- `ts = lead ++ s`, `lead` and `pre` whitespace tokens
  obtain ⟨lead, hlead, hleadq⟩ : ∃ lead, ts = lead ++ s ∧ ∀ t ∈ lead, nlwsT t = true := by
    rcases hps with ⟨_, rfl⟩ | ⟨_, rfl, _⟩ | ⟨_, rfl⟩
    · exact ⟨[], rfl, by simp⟩
    · exact rbStrip_suffix ts
    · exact rbStrip_suffix ts
  have hpreq : ∀ t ∈ pre, nlwsT t = true := by
    rcases hps with ⟨rfl, _⟩ | ⟨rfl, _, _⟩ | ⟨rfl, _⟩
    · simp
    · intro t ht; simp at ht; subst ht; rfl
    · intro t ht; simp at ht; subst ht; rfl
  have hprew : WsOnly (tokText pre) := by
    rcases hps with ⟨rfl, _⟩ | ⟨rfl, _, _⟩ | ⟨rfl, _⟩
    · exact wsOnly_nil
    · intro c hc; simp at hc; subst hc; rfl
    · intro c hc; simp at hc; subst hc; rfl
  have hwl : WsToks lead := fun t ht => hw t (by rw [hlead]; simp [ht])
  have hws : WsToks s := fun t ht => hw t (by rw [hlead]; simp [ht])
  have hleadw : WsOnly (tokText lead) := wsOnly_tokText lead hwl hleadq
  obtain ⟨suf, hsuf, hsufq⟩ := dropTrailingT_suffix nlwsT s
  have hsufw : WsOnly (tokText suf) :=
    wsOnly_tokText suf (fun t ht => hws t (by rw [hsuf]; simp [ht])) hsufq
  rw [dropTrailingT_append]
  by_cases he : (dropTrailingT nlwsT s).isEmpty = true
  · -- nothing but whitespace
    rw [if_pos he]
    have hnil : dropTrailingT nlwsT s = [] := by simpa [List.isEmpty_iff] using he
    have hpre0 : dropTrailingT nlwsT pre = [] := by
      unfold dropTrailingT
      have : pre.reverse.dropWhile nlwsT = [] := by
        rcases hps with ⟨rfl, _⟩ | ⟨rfl, _, _⟩ | ⟨rfl, _⟩ <;> rfl
      rw [this]; rfl
    rw [hpre0]
    refine ⟨tokText ts, [], [], [], by simp, by simp, ?_, wsOnly_nil, wsOnly_nil⟩
    rw [hlead, tokText_append]
    rw [hnil, List.nil_append] at hsuf
    rw [hsuf]
    exact wsOnly_append hleadw hsufw
  · rw [if_neg he]
    refine ⟨tokText lead, tokText (dropTrailingT nlwsT s), tokText suf, tokText pre, ?_, ?_, hleadw, hsufw, hprew⟩
    · rw [hlead, tokText_append, List.append_assoc, ← tokText_append (dropTrailingT nlwsT s), ← hsuf]
    · rw [tokText_append]

/-! ### the second pass -/

/-- **formatter path, the raw text a second pass hands to the formatter** (any formatter whose output
    has no CR): the first output up to whitespace at its ends; name, heads, indentation as before -/
theorem entryWrap_fmt_second (cfg : WrapCfg) (f : Str → Str → Str) (e e' : DNode) (k arg : Str)
    (hk : entryKey e = some k) (harg : Ctl.fmtArg e = some arg) (hcr : '\r' ∉ f k arg)
    (h : entryWrap cfg (some f) e = some e') :
    ∃ a, Ctl.fmtArg e' = some a ∧ WsEquiv (f k arg) a
      ∧ (∃ pre s, Collected (fmtToks (f k arg)) pre s ∧ a = tokText (dropTrailingT nlwsT (pre ++ s)))
      ∧ entryKey e' = some k
      ∧ e'.children.filterMap headOf = e.children.filterMap headOf
      ∧ ewBadKinds e'.children = false
      ∧ ewIndent cfg e'.children = ewIndent cfg e.children
      ∧ ewIndent cfg e.children ≠ 0
      ∧ e' = .node .ENTRY (e.children.filterMap headOf ++
            rebuildValue (fmtToks (f k arg)) (utf8Len k) (ewIndent cfg e.children)
              cfg.immediateEmptyLine cfg.maxLineLengthOneLiner) := by
  obtain ⟨hkey', hheads', _, _⟩ := entryWrap_fmt cfg f e e' k arg hk harg hcr h
  rcases entryWrap_fmt_cases cfg f e e' h with ⟨h0, _⟩ | ⟨k', arg', hk', harg', he'⟩
  · rw [harg] at h0; cases h0
  rw [hk] at hk'; rw [harg] at harg'
  cases hk'; cases harg'
  have hfirst : ewIndent cfg e.children ≠ 0 := by
    unfold entryWrap at h
    split at h
    · cases h
    · split at h
      · cases h
      · rename_i hi; exact hi
  have hkinds := fmtToks_kinds (f k arg) hcr
  have hct : ContentToks (fmtToks (f k arg)) := by
    intro t ht
    rcases hkinds t ht with h1 | h1 | h1 <;> simp [contentKinds, Node.kind, h1]
  have hch : e'.children = e.children.filterMap headOf ++
      rebuildValue (fmtToks (f k arg)) (utf8Len k) (ewIndent cfg e.children) cfg.immediateEmptyLine
        cfg.maxLineLengthOneLiner := by rw [he']; rfl
  have hnokey : ∀ t ∈ fmtToks (f k arg), t.1 ≠ .KEY := by
    intro t ht hkk
    rcases hkinds t ht with h1 | h1 | h1 <;> rw [hkk] at h1 <;> cases h1
  have hkeyfind : e'.children.find? (isTokOf .KEY) = e.children.find? (isTokOf .KEY) := by
    rw [hch, List.find?_append, heads_key, rebuildValue_no_key _ _ _ _ _ hnokey, Option.or_none]
  have hind' : ewIndent cfg e'.children = ewIndent cfg e.children := by
    unfold ewIndent; rw [hkeyfind]
  have hbad' : ewBadKinds e'.children = false := by
    rw [hch]
    unfold ewBadKinds
    apply Bool.eq_false_iff.2
    intro hany
    simp only [List.any_eq_true, List.mem_append] at hany
    obtain ⟨c, hc, hkk⟩ := hany
    rcases hc with hc | hc
    · simp only [List.mem_filterMap] at hc
      obtain ⟨c0, _, hc0⟩ := hc
      rcases (headOf_fixed c0 c hc0).2.2.2 with hk'' | hk'' <;> simp [hk''] at hkk
    · rcases rebuildValue_mem _ _ _ _ _ c hc with rfl | rfl | rfl | ⟨t, ht, rfl⟩
      · simp [Node.kind] at hkk
      · simp [Node.kind] at hkk
      · simp [Node.kind] at hkk
      · rcases hkinds t ht with h1 | h1 | h1 <;> simp [Node.kind, h1] at hkk
  obtain ⟨pre, s, hps, hcont⟩ := rebuildValue_content (fmtToks (f k arg)) (utf8Len k) (ewIndent cfg e.children)
    cfg.immediateEmptyLine cfg.maxLineLengthOneLiner hct
  have hequiv := content_wsEquiv (fmtToks (f k arg)) pre s
    (by rw [fmtToks_eq _ hcr]; exact linesToks_wsToks _) hps
  rw [tokText_fmtToks _ hcr] at hequiv
  -- the kinds of the collected tokens
  have hCk : ∀ t ∈ dropTrailingT nlwsT (pre ++ s), t.1 = .WHITESPACE ∨ t.1 = .VALUE ∨ t.1 = .NEWLINE := by
    intro t ht
    have hsub : t ∈ pre ++ s := by
      have := (List.dropWhile_sublist nlwsT (l := (pre ++ s).reverse)).subset (by
        simpa [dropTrailingT] using ht)
      simpa [or_comm] using this
    simp only [List.mem_append] at hsub
    rcases hsub with hp | hs
    · rcases hps with ⟨rfl, _⟩ | ⟨rfl, _, _⟩ | ⟨rfl, _⟩
      · simp at hp
      · simp at hp; subst hp; exact Or.inr (Or.inr rfl)
      · simp at hp; subst hp; exact Or.inl rfl
    · have : t ∈ fmtToks (f k arg) := by
        rcases hps with ⟨_, rfl⟩ | ⟨_, rfl, _⟩ | ⟨_, rfl⟩
        · exact hs
        · exact (List.dropWhile_sublist _).subset hs
        · exact (List.dropWhile_sublist _).subset hs
      exact hkinds t this
  have hfa : Ctl.fmtArg e' = some (tokText (dropTrailingT nlwsT (pre ++ s))) := by
    unfold Ctl.fmtArg
    have hcc : ewContent e'.children = (dropTrailingT nlwsT (pre ++ s)).map tk := by
      rw [hch]
      simp only [ewContent, List.filter_append, heads_content, List.nil_append]
      exact hcont
    rw [hcc]
    have : (((dropTrailingT nlwsT (pre ++ s)).map tk).any fun c => c.kind == .ERROR || c.kind == .COMMENT) = false := by
      apply List.any_eq_false.2
      intro c hc
      simp only [List.mem_map] at hc
      obtain ⟨t, ht, rfl⟩ := hc
      rcases hCk t ht with h1 | h1 | h1 <;> simp [Node.kind, h1]
    rw [this]
    simp only [Bool.false_eq_true, ↓reduceIte]
    rw [texts_map_tk _ (fun t => rfl)]
  exact ⟨_, hfa, hequiv, ⟨pre, s, hps, rfl⟩, hkey', hheads', hbad', hind', hfirst, he'⟩

/-- **formatter path, entry-level fixed point, general form**: if the formatter's output for this
    field has no CR and the formatter returns it again for every text that differs from it by
    whitespace at the ends only (`Ctl.WsEquiv`), the second application changes nothing -/
theorem entryWrap_fmt_fixed_of (cfg : WrapCfg) (f : Str → Str → Str) (e e' : DNode) (k arg : Str)
    (hk : entryKey e = some k) (harg : Ctl.fmtArg e = some arg) (hcr : '\r' ∉ f k arg)
    (hst : ∀ a, WsEquiv (f k arg) a → f k a = f k arg)
    (h : entryWrap cfg (some f) e = some e') :
    entryWrap cfg (some f) e' = some e' := by
  obtain ⟨a, hfa, heq, _, hkey', hheads', hbad', hind', hfirst, he'⟩ :=
    entryWrap_fmt_second cfg f e e' k arg hk harg hcr h
  have hres := entryWrap_fmt_intro cfg f e' k a hbad' (by rw [hind']; exact hfirst) hkey' hfa
  rw [hres, hheads', hind', hst a heq, he']


/-- single-line output: the raw text of the second pass is the output itself, or the output behind
    one space -/
theorem entryWrap_fmt_second_line (cfg : WrapCfg) (f : Str → Str → Str) (e e' : DNode) (k arg : Str)
    (hk : entryKey e = some k) (harg : Ctl.fmtArg e = some arg)
    (hn : NoNl (f k arg)) (hh : HeadFails isIndent (f k arg))
    (h : entryWrap cfg (some f) e = some e') :
    ∃ a, Ctl.fmtArg e' = some a ∧ entryKey e' = some k
      ∧ (a = f k arg ∨ (f k arg ≠ [] ∧ a = ' ' :: f k arg)) := by
  have hcr : '\r' ∉ f k arg := by
    intro hm; have := hn '\r' hm; simp [isNewline] at this
  obtain ⟨a, hfa, _, ⟨pre, s, hps, ha⟩, hkey', _⟩ := entryWrap_fmt_second cfg f e e' k arg hk harg hcr h
  refine ⟨a, hfa, hkey', ?_⟩
  rw [fmtToks_line _ hn hh] at hps
  generalize f k arg = out at *
  have hst : rbStrip (optTok .VALUE out) = optTok .VALUE out := by
    unfold optTok; split
    · rfl
    · exact rbStrip_cons_neg _ _ (by rfl)
  by_cases hempty : out = []
  · have hT : optTok Kind.VALUE out = [] := by simp [optTok, hempty]
    rw [hT] at hps hst
    left
    rw [ha, hempty]
    rcases hps with ⟨rfl, rfl⟩ | ⟨rfl, rfl, _⟩ | ⟨rfl, rfl⟩ <;> rfl
  · have hT : optTok Kind.VALUE out = [(.VALUE, out)] := by simp [optTok, hempty]
    rw [hT] at hps hst
    rcases hps with ⟨rfl, rfl⟩ | ⟨rfl, rfl, hcn⟩ | ⟨rfl, rfl⟩
    · left; rw [ha]; simp [dropTrailingT]
    · simp [rbFirstIsComment, rbHasNewline] at hcn
    · right
      refine ⟨hempty, ?_⟩
      rw [ha, hst]; simp [dropTrailingT]

end Deb822Verif.Deb
