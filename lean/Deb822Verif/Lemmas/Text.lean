import Deb822Verif.Model.Text
/-! Helper lemmas about `Text.lines` & co. -/
namespace Deb822Verif.Text

/-- a line as Rust `lines()` can return it from `\n`-terminated text: no `\n`, not ending in `\r` -/
def LineOK (l : Str) : Prop := '\n' ∉ l ∧ l.getLast? ≠ some '\r'

theorem rawLines_line_cons (l rest : Str) (h : '\n' ∉ l) :
    rawLines (l ++ '\n' :: rest) = (l, true) :: rawLines rest := by
  induction l with
  | nil => simp [rawLines]
  | cons c cs ih =>
    have hc : c ≠ '\n' := by intro e; apply h; simp [e]
    have hcs : '\n' ∉ cs := by intro e; apply h; simp [e]
    simp [rawLines, hc, ih hcs]

theorem stripCR_of_ok (l : Str) (h : l.getLast? ≠ some '\r') : stripCR l = l := by
  simp [stripCR, h]

theorem lines_line_cons (l rest : Str) (h : LineOK l) :
    lines (l ++ '\n' :: rest) = l :: lines rest := by
  simp [lines, rawLines_line_cons l rest h.1, stripCR_of_ok l h.2]

theorem lines_unlinesNL (ls : List Str) (h : ∀ l ∈ ls, LineOK l) : lines (unlinesNL ls) = ls := by
  induction ls with
  | nil => simp [unlinesNL, lines, rawLines]
  | cons l ls ih =>
    have h1 : LineOK l := h l (by simp)
    have h2 : ∀ x ∈ ls, LineOK x := fun x hx => h x (by simp [hx])
    have : unlinesNL (l :: ls) = l ++ '\n' :: unlinesNL ls := by simp [unlinesNL]
    rw [this, lines_line_cons l _ h1, ih h2]

theorem unlinesNL_append (a b : List Str) : unlinesNL (a ++ b) = unlinesNL a ++ unlinesNL b := by
  simp [unlinesNL]

end Deb822Verif.Text
