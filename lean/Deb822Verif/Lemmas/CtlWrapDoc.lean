import Deb822Verif.Lemmas.DebWrapFmt
import Deb822Verif.Lemmas.DebWrapFmtIdem
import Deb822Verif.Lemmas.CtlWrapOrder
import Deb822Verif.Lemmas.CtlWrapRel
/-!
  Document level of the formatter path and of the control-file wrappers: what `deb822Wrap` returns
  for any per-paragraph callback that returns paragraphs; success on well-formed documents; the
  panic guard of `controlWrap` / `paraWrap`.
-/
namespace Deb822Verif.Deb
open Deb822Verif Node Spec

/-- **document level, any callback that returns paragraphs, any comparator**: the paragraphs of the
    result are the stable sort of the callback's results, every top-level comment stays in front of
    the same paragraph, the trailing ones stay last -/
theorem deb822Wrap_content (ple : Option (DNode → DNode → Bool)) (wp : Option (DNode → Option DNode))
    (hwp : ∀ p p', isParaNode p = true → applyW wp p = some p' → isParaNode p' = true)
    (root root' : DNode) (h : deb822Wrap ple wp root = some root') :
    ∃ ws : List (List DNode × DNode),
      Pointwise (fun g w => w.1 = g.1 ∧ applyW wp g.2 = some w.2) (rootGroups root).1 ws
      ∧ (rootGroups root).1.map (·.2) = paragraphs root
      ∧ root' = .node .ROOT (docOut (sortBy ple ws) (rootGroups root).2)
      ∧ rootGroups root' = (sortBy ple ws, (rootGroups root).2)
      ∧ paragraphs root' = (sortBy ple ws).map (·.2)
      ∧ (topCommentTexts root').Perm (topCommentTexts root)
      ∧ (ple = none → topCommentTexts root' = topCommentTexts root) := by
  obtain ⟨ws, hpw, hpre, htr, rfl⟩ := deb822Wrap_spec ple wp root root' h
  have hpre' : ∀ w ∈ sortBy ple ws, ∀ c ∈ w.1, isTrivTok c = true :=
    fun w hw => hpre w ((mem_sortBy ple ws w).1 hw)
  have hpara' : ∀ w ∈ sortBy ple ws, isParaNode w.2 = true := by
    intro w hw
    obtain ⟨g, hg, hr⟩ := Pointwise.mem_right hpw w ((mem_sortBy ple ws w).1 hw)
    exact hwp g.2 w.2 (groupRoot_paras _ _ g hg) hr.2
  have hg : rootGroups (.node .ROOT (docOut (sortBy ple ws) (rootGroups root).2))
      = (sortBy ple ws, (rootGroups root).2) := groupRoot_docOut _ _ hpre' hpara' htr
  have hparas : paragraphs (.node .ROOT (docOut (sortBy ple ws) (rootGroups root).2))
      = (sortBy ple ws).map (·.2) := by rw [paragraphs_of_groups, hg]
  have hct : topCommentTexts (.node .ROOT (docOut (sortBy ple ws) (rootGroups root).2))
      = groupsComments (sortBy ple ws) (rootGroups root).2 := by rw [topCommentTexts_eq, hg]
  have hct0 : topCommentTexts root = groupsComments ws (rootGroups root).2 := by
    rw [topCommentTexts_eq]
    exact (groupsComments_congr _ ws _ (Pointwise.imp (fun _ _ h => h.1) hpw)).symm
  refine ⟨ws, hpw, (paragraphs_of_groups root).symm, rfl, hg, hparas, ?_, ?_⟩
  · rw [hct, hct0]; exact groupsComments_perm _ _ _ (sortBy_perm ple ws)
  · intro hle; subst hle; rw [hct, hct0]; rfl

theorem paragraphWrap_isPara (cfg : WrapCfg) (le fmt) (p p' : DNode)
    (h : paragraphWrap cfg le fmt p = some p') : isParaNode p' = true := by
  obtain ⟨_, _, _, _, _, he⟩ := paragraphWrap_spec cfg le fmt p p' h
  rw [he]; rfl

/-! ### success on well-formed documents, with any formatter -/

theorem itemEntries_props (is : List PItem) (more : Bool) (hwf : ∀ i ∈ is, i.WF) (ht : itemsTerm is more) :
    ∀ e ∈ itemEntries is, e.WF ∧ ∃ m, e.Term m := by
  induction is with
  | nil => simp [itemEntries]
  | cons i is ih =>
    have hwf' : ∀ j ∈ is, j.WF := fun j hj => hwf j (by simp [hj])
    cases i with
    | comment t nl => exact ih hwf' ht.2
    | entry e =>
      intro x hx
      simp only [itemEntries, List.mem_cons] at hx
      rcases hx with rfl | hx
      · exact ⟨hwf (.entry x) (by simp), _, ht.1⟩
      · exact ih hwf' ht.2 x hx

/-- the fields of a paragraph, in order -/
def paraEntries (p : ParaS) : List EntryS := p.first :: itemEntries p.rest

theorem paraEntries_props (p : ParaS) (more : Bool) (hwf : p.WF) (ht : p.Term more) :
    ∀ e ∈ paraEntries p, e.WF ∧ ∃ m, e.Term m := by
  intro e he
  simp only [paraEntries, List.mem_cons] at he
  rcases he with rfl | he
  · exact ⟨hwf.first_ok, _, ht.1⟩
  · exact itemEntries_props p.rest more hwf.rest_ok ht.2 e he

theorem groupItems_entries (is : List PItem) (cur : List Str) :
    (groupItems is cur).1.map (·.2) = itemEntries is := by
  induction is generalizing cur with
  | nil => rfl
  | cons i is ih =>
    cases i with
    | comment t nl => simp only [groupItems, itemEntries]; exact ih _
    | entry e => simp only [groupItems, itemEntries, List.map_cons, ih]

/-- `paragraphWrap` with any formatter succeeds on a well-formed paragraph -/
theorem paragraphWrap_fmt_success (cfg : WrapCfg) (le : Option (DNode → DNode → Bool)) (f : Str → Str → Str)
    (p : ParaS) (more : Bool) (hwf : p.WF) (ht : p.Term more) (hc : IndentOK cfg) :
    ∃ p', paragraphWrap cfg le (some f) p.node = some p' := by
  let xs : List (List Str × EntryS) := ([], p.first) :: (groupItems p.rest []).1
  have hprops := groupItems_props p.rest more [] hwf.rest_ok ht.2 (by simp)
  have hxs : ∀ x ∈ xs, x.2.WF ∧ (∃ m, x.2.Term m) := by
    intro x hx
    simp only [xs, List.mem_cons] at hx
    rcases hx with rfl | hx
    · exact ⟨hwf.first_ok, ⟨_, ht.1⟩⟩
    · exact ⟨(hprops.1 x hx).1, (hprops.1 x hx).2.1⟩
  have hg := paraGroups_node p
  let out : EntryS → DNode := fun e => .node .ENTRY (Node.tok .KEY e.key :: Node.tok .COLON [':'] ::
      rebuildValue (fmtToks (f e.key (rawText e))) (utf8Len e.key) (indOf cfg e)
        cfg.immediateEmptyLine cfg.maxLineLengthOneLiner)
  let ws : List (List DNode × DNode) := xs.map fun x => (x.1.map cTok, out x.2)
  have hpw : Pointwise (fun g w => w.1 = g.1 ∧ entryWrap cfg (some f) g.2 = some w.2) (paraGroups p.node).1 ws := by
    rw [hg]
    apply pointwise_map
    intro x hx
    obtain ⟨h1, ⟨m, h2⟩⟩ := hxs x hx
    exact ⟨rfl, entryWrap_fmt_node cfg f x.2 m h1 h2 hc⟩
  have hpre : ∀ w ∈ ws, ∀ c ∈ w.1, isTrivTok c = true := by
    intro w hw
    simp only [ws, List.mem_map] at hw
    obtain ⟨x, _, rfl⟩ := hw
    exact cTok_trivs _
  have htr : ∀ c ∈ (paraGroups p.node).2, isTrivTok c = true := by rw [hg]; exact cTok_trivs _
  exact ⟨_, paragraphWrap_intro cfg le (some f) p.node ws hpw hpre htr⟩

/-- `deb822Wrap` with the formatter callback succeeds on a well-formed document -/
theorem deb822Wrap_fmt_success (cfg : WrapCfg) (ele ple : Option (DNode → DNode → Bool)) (f : Str → Str → Str)
    (d : DocS) (hwf : d.WF) (hc : IndentOK cfg) :
    ∃ root', deb822Wrap ple (some (paragraphWrap cfg ele (some f))) d.tree = some root' := by
  have hprops := groupParas_props d.paras (gapComments d.lead) hwf.paras_ok
    (parasTerm_each d.paras hwf.paras_term) (gapComments_nonl d.lead hwf.lead_ok)
  have hg := rootGroups_tree d
  have hchoose : ∀ (l : List (List Str × ParaS)),
      (∀ x ∈ l, ∃ p', paragraphWrap cfg ele (some f) x.2.node = some p') →
      ∃ ws : List (List DNode × DNode),
        Pointwise (fun g w => w.1 = g.1 ∧ applyW (some (paragraphWrap cfg ele (some f))) g.2 = some w.2)
          (l.map pgrp) ws ∧ ∀ w ∈ ws, ∀ c ∈ w.1, isTrivTok c = true := by
    intro l
    induction l with
    | nil => intro _; exact ⟨[], trivial, by simp⟩
    | cons x l ih =>
      intro h
      obtain ⟨p', hp'⟩ := h x (by simp)
      obtain ⟨ws, hpw, hpre⟩ := ih fun y hy => h y (by simp [hy])
      refine ⟨(x.1.map cTok, p') :: ws, ⟨⟨rfl, hp'⟩, hpw⟩, ?_⟩
      intro w hw
      simp only [List.mem_cons] at hw
      rcases hw with rfl | hw
      · exact cTok_trivs _
      · exact hpre w hw
  obtain ⟨ws, hpw, hpre⟩ := hchoose _ fun x hx => by
    obtain ⟨h1, ⟨m, h2⟩, _⟩ := hprops.1 x hx
    exact paragraphWrap_fmt_success cfg ele f x.2 m h1 h2 hc
  have htr : ∀ c ∈ (rootGroups d.tree).2, isTrivTok c = true := by rw [hg]; exact cTok_trivs _
  exact ⟨_, deb822Wrap_intro ple _ d.tree ws (by rw [hg]; exact hpw) hpre htr⟩

end Deb822Verif.Deb

namespace Deb822Verif.Ctl
open Deb822Verif Deb Node Spec

/-! ### the panic guard -/

theorem controlWrap_some (cfg : WrapCfg) (root root' : DNode) (h : controlWrap cfg root = some root') :
    (paragraphs root).any paraPanics = false
      ∧ deb822Wrap (some ctlParaLe) (some (paragraphWrap cfg none (some formatField))) root = some root' := by
  unfold controlWrap at h
  split at h
  · cases h
  · rename_i hp
    exact ⟨by simpa using hp, h⟩

theorem paraWrap_some (cfg : WrapCfg) (p p' : DNode) (h : paraWrap cfg p = some p') :
    paraPanics p = false ∧ paragraphWrap cfg none (some formatField) p = some p' := by
  unfold paraWrap at h
  split at h
  · cases h
  · rename_i hp
    exact ⟨by simpa using hp, h⟩

/-- the formatter does not panic on this field -/
def FieldOK (e : EntryS) : Prop := (formatFieldO e.key (rawText e)).isSome = true

theorem entryPanics_node (e : EntryS) (more : Bool) (ht : e.Term more) :
    entryPanics e.node = (formatFieldO e.key (rawText e)).isNone := by
  simp only [entryPanics, entryKey_node, fmtArg_node e more ht]

theorem paraPanics_node (p : ParaS) (more : Bool) (hwf : p.WF) (ht : p.Term more)
    (hok : ∀ e ∈ paraEntries p, FieldOK e) : paraPanics p.node = false := by
  unfold paraPanics
  rw [entries_para]
  apply List.any_eq_false.2
  intro x hx
  simp only [List.mem_map] at hx
  obtain ⟨e, he, rfl⟩ := hx
  obtain ⟨_, m, hm⟩ := paraEntries_props p more hwf ht e he
  rw [entryPanics_node e m hm]
  have := hok e he
  unfold FieldOK at this
  cases hf : formatFieldO e.key (rawText e) with
  | none => rw [hf] at this; cases this
  | some v => simp

/-- sufficient: the field is not a relationship field, or it is one whose raw text is the text of a
    well-formed relationship field (C10 grammar) -/
theorem fieldOK_of (e : EntryS)
    (h : relFields.contains e.key = true → ∃ f : RelSpec.FieldA, f.WF ∧ f.str = rawText e) : FieldOK e := by
  unfold FieldOK
  by_cases hr : relFields.contains e.key = true
  · obtain ⟨f, hf, hs⟩ := h hr
    rw [← hs, formatFieldO_rel e.key hr f hf]; rfl
  · unfold formatFieldO
    by_cases hu : e.key = kUploaders
    · simp [hu]
    · rw [if_neg hu, if_neg hr]; rfl

/-- **the control wrapper does not panic** on a well-formed control file all of whose relationship
    fields are well-formed (indentation ≥ 1) -/
theorem controlWrap_success (cfg : WrapCfg) (d : DocS) (hwf : d.WF) (hc : IndentOK cfg)
    (hok : ∀ pg ∈ d.paras, ∀ e ∈ paraEntries pg.1, FieldOK e) :
    ∃ root', controlWrap cfg d.tree = some root' := by
  have hnp : (paragraphs d.tree).any paraPanics = false := by
    rw [paragraphs_tree]
    apply List.any_eq_false.2
    intro x hx
    simp only [List.mem_map] at hx
    obtain ⟨pg, hpg, rfl⟩ := hx
    obtain ⟨m, hm⟩ := parasTerm_each d.paras hwf.paras_term pg hpg
    simp [paraPanics_node pg.1 m (hwf.paras_ok pg hpg).1 hm (hok pg hpg)]
  obtain ⟨root', h⟩ := deb822Wrap_fmt_success cfg none (some ctlParaLe) formatField d hwf hc
  exact ⟨root', by simp [controlWrap, hnp, h]⟩

end Deb822Verif.Ctl

namespace Deb822Verif.Ctl
open Deb822Verif Deb Node Spec

/-! ### fixed points of the control formatter, entry level -/

/-- **a relationship field is left unchanged by a second pass**: any entry whose raw text is the text
    of a well-formed relationship field -/
theorem entryWrap_rel_fixed (cfg : WrapCfg) (e e' : DNode) (k : Str) (hk : entryKey e = some k)
    (hrel : relFields.contains k = true) (f : RelSpec.FieldA) (hwf : f.WF) (harg : fmtArg e = some f.str)
    (h : entryWrap cfg (some formatField) e = some e') :
    entryWrap cfg (some formatField) e' = some e' := by
  have hout : formatField k f.str = canonOf f := formatField_rel k hrel f hwf
  refine entryWrap_fmt_line_fixed cfg formatField e e' k f.str hk harg ?_ ?_ ?_ ?_ h
  · rw [hout]; intro c hc; exact (canonChar_plain c (canonOf_chars f hwf c hc)).1
  · rw [hout]; intro c hc; exact canonOf_head f hwf c hc
  · rw [hout]; simp [formatField, formatFieldO_canon k hrel f hwf]
  · rw [hout]; intro hne; simp [formatField, formatFieldO_sp_canon k hrel f hwf hne]

/-- **a field the formatter leaves alone is left unchanged by a second pass** (well-formed field) -/
theorem entryWrap_other_fixed (cfg : WrapCfg) (f : Str → Str → Str) (e : EntryS) (more : Bool)
    (hwf : e.WF) (ht : e.Term more) (hc : IndentOK cfg) (hid : ∀ v, f e.key v = v) :
    entryWrap cfg (some f) e.node = some (e.wrap cfg).node
      ∧ entryWrap cfg (some f) (e.wrap cfg).node = some (e.wrap cfg).node := by
  have h1 : entryWrap cfg (some f) e.node = some (e.wrap cfg).node := by
    rw [entryWrap_fmt_id cfg f e more hwf ht hc (hid _)]; exact entryWrap_node cfg e more hwf ht hc
  refine ⟨h1, ?_⟩
  have hwf' := wrap_wf cfg e hwf hc
  have ht' := termAll_term _ (wrap_termAll cfg e) true
  rw [entryWrap_fmt_id cfg f (e.wrap cfg) true hwf' ht' hc (by rw [wrap_key]; exact hid _)]
  exact entryWrap_idem cfg e.node _ (entryWrap_node cfg e more hwf ht hc)

end Deb822Verif.Ctl

namespace Deb822Verif.Deb
open Deb822Verif Node Spec

/-! ### idempotence above the entry level, given fixed points below -/

/-- paragraph level, any formatter: if reformatting is the identity on every reformatted field of
    `p`, it is the identity on the reformatted paragraph -/
theorem paragraphWrap_idem_of (cfg : WrapCfg) (le : Option (DNode → DNode → Bool)) (fmt) (hle : OrderOK le)
    (p p' : DNode) (h : paragraphWrap cfg le fmt p = some p')
    (hfix : ∀ e e', e ∈ entries p → entryWrap cfg fmt e = some e' → entryWrap cfg fmt e' = some e') :
    paragraphWrap cfg le fmt p' = some p' := by
  obtain ⟨ws, hpw, hpre, hent, htr, rfl⟩ := paragraphWrap_spec cfg le fmt p p' h
  have hpre' : ∀ w ∈ sortBy le ws, ∀ c ∈ w.1, isTrivTok c = true :=
    fun w hw => hpre w ((mem_sortBy le ws w).1 hw)
  have hent' : ∀ w ∈ sortBy le ws, isEntryNode w.2 = true :=
    fun w hw => hent w ((mem_sortBy le ws w).1 hw)
  have hg : paraGroups (.node .PARAGRAPH (paraOut (sortBy le ws) (paraGroups p).2))
      = (sortBy le ws, (paraGroups p).2) := groupBy_paraOut _ _ hpre' hent' htr
  have he : entries p = (paraGroups p).1.map (·.2) := (groupBy_units p.children []).symm
  have := paragraphWrap_intro cfg le fmt (.node .PARAGRAPH (paraOut (sortBy le ws) (paraGroups p).2))
    (sortBy le ws)
    (by
      rw [hg]
      apply pointwise_self
      intro w hw
      refine ⟨rfl, ?_⟩
      obtain ⟨g, hgm, hr⟩ := Pointwise.mem_right hpw w ((mem_sortBy le ws w).1 hw)
      exact hfix g.2 w.2 (by rw [he]; exact List.mem_map_of_mem hgm) hr.2)
    hpre' (by rw [hg]; exact htr)
  rw [this, hg, sortBy_idem le hle]

/-- document level, any callback returning paragraphs: if the callback is the identity on its
    results for the paragraphs of `root`, the second application returns the same tree -/
theorem deb822Wrap_idem_on (le : Option (DNode → DNode → Bool)) (hle : OrderOK le)
    (wp : Option (DNode → Option DNode))
    (hwpara : ∀ p p', isParaNode p = true → applyW wp p = some p' → isParaNode p' = true)
    (root root' : DNode) (h : deb822Wrap le wp root = some root')
    (hwidem : ∀ p p', p ∈ paragraphs root → applyW wp p = some p' → applyW wp p' = some p') :
    deb822Wrap le wp root' = some root' := by
  obtain ⟨ws, hpw, hpre, htr, rfl⟩ := deb822Wrap_spec le wp root root' h
  have hpre' : ∀ w ∈ sortBy le ws, ∀ c ∈ w.1, isTrivTok c = true :=
    fun w hw => hpre w ((mem_sortBy le ws w).1 hw)
  have hsrc : ∀ w ∈ ws, ∃ g, g ∈ paragraphs root ∧ isParaNode g = true ∧ applyW wp g = some w.2 := by
    intro w hw
    obtain ⟨g, hg, hr⟩ := Pointwise.mem_right hpw w hw
    exact ⟨g.2, by rw [paragraphs_of_groups]; exact List.mem_map_of_mem hg, groupRoot_paras _ _ g hg, hr.2⟩
  have hpara' : ∀ w ∈ sortBy le ws, isParaNode w.2 = true := by
    intro w hw
    obtain ⟨g, _, hg, hr⟩ := hsrc w ((mem_sortBy le ws w).1 hw)
    exact hwpara g w.2 hg hr
  have hg : rootGroups (.node .ROOT (docOut (sortBy le ws) (rootGroups root).2))
      = (sortBy le ws, (rootGroups root).2) := groupRoot_docOut _ _ hpre' hpara' htr
  have := deb822Wrap_intro le wp (.node .ROOT (docOut (sortBy le ws) (rootGroups root).2))
    (sortBy le ws)
    (by
      rw [hg]
      apply pointwise_self
      intro w hw
      refine ⟨rfl, ?_⟩
      obtain ⟨g, hgm, _, hr⟩ := hsrc w ((mem_sortBy le ws w).1 hw)
      exact hwidem g w.2 hgm hr)
    hpre' (by rw [hg]; exact htr)
  rw [this, hg, sortBy_idem le hle]

end Deb822Verif.Deb
