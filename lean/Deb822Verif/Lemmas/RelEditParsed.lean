import Deb822Verif.Lemmas.RelEditShape
/-!
  The tree the parser builds for the canonical text of a lossy value (`(canon rs).tree`, C10) against
  the tree the constructors build (`built rs`): they are the same tree unless a bare qualified name
  (`a:any`) is followed by ` | …` — there the parser puts the following blank INSIDE the RELATION node
  (relations.rs:190 `skip_ws` after the qualifier).
-/
set_option linter.unusedSimpArgs false
namespace Deb822Verif.Rel.Edit
open Deb822Verif Rel Node Build Lossy RelSpec

/-- `name:qual` with nothing else: the parser swallows the blank after it -/
def innerTail (r : Lossy.Relation) : Bool :=
  r.archqual.isSome && r.version.isNone && r.architectures.isNone && r.profiles.isEmpty

/-- no alternative but the last of an entry is a bare qualified name -/
def noInnerTail (rs : List (List Lossy.Relation)) : Bool := rs.all fun e => e.dropLast.all fun r => !innerTail r

theorem tailInside_canon (r : Lossy.Relation) : (canonRel r).tailInside .pipe = innerTail r := by
  cases r with
  | mk name aq archs ver profs =>
    cases aq <;> cases archs <;> rcases ver with _ | ⟨c, v⟩ <;> cases profs <;>
      simp [RelA.tailInside, RelA.bare, canonRel, innerTail]

theorem tks_sp : tks (gapToks sp) = [T .WHITESPACE " "] := rfl

theorem alts_canon (r : Lossy.Relation) (rest : List Lossy.Relation) (fl : Follow)
    (hv : ∀ x ∈ r :: rest, validRS x = true) (hn : ∀ x ∈ (r :: rest).dropLast, innerTail x = false) :
    altsNodes (canonRel r) (rest.map fun x => ⟨sp, sp, canonRel x⟩) [] fl
      = (toLossless r :: postOf sepR (rest.map toLossless), []) := by
  induction rest generalizing r with
  | nil =>
    have e := toLossless_canon r (hv r (by simp))
    simp only [List.map_nil, altsNodes, postOf, List.flatten_nil]
    have g : gapToks [] = [] := rfl
    split
    · rw [g, e]
    · split
      · rw [g, e]; rfl
      · rw [g, e]
  | cons a as ih =>
    have e := toLossless_canon r (hv r (by simp))
    have hr : innerTail r = false := hn r (by simp [List.dropLast])
    have ih' := ih a (fun x hx => hv x (by simp at hx ⊢; exact Or.inr hx))
      (fun x hx => hn x (by
        have : (r :: a :: as).dropLast = r :: (a :: as).dropLast := by simp [List.dropLast]
        rw [this]; exact List.mem_cons_of_mem _ hx))
    simp only [List.map_cons, altsNodes, tailInside_canon, hr, Bool.false_eq_true, ↓reduceIte, ih', tks_sp,
      postOf_cons, e]
    simp [sepR, T, tk]

theorem entry_canon (e : List Lossy.Relation) (hne : e ≠ []) (hv : ∀ x ∈ e, validRS x = true)
    (hn : ∀ x ∈ e.dropLast, innerTail x = false) (pre : Gap) (fl : Follow) :
    Seg.nodes ⟨pre, canonEntry e, []⟩ fl = tks (gapToks pre) ++ [entryFromLossy e] := by
  cases e with
  | nil => exact absurd rfl hne
  | cons r rest =>
    simp only [Seg.nodes, canonEntry, alts_canon r rest fl hv hn]
    rw [entryFromLossy_eq, List.map_cons, sepBy_singletons]
    rfl

/-- without inner tails, the parser's tree for the canonical text is the constructors' tree -/
theorem canon_tree_eq_built (rs : List (List Lossy.Relation)) (hv : validRSs rs = true)
    (hn : noInnerTail rs = true) : (canon rs).tree = built rs := by
  simp only [validRSs, List.all_eq_true, Bool.and_eq_true, Bool.not_eq_true', List.isEmpty_eq_false_iff] at hv
  simp only [noInnerTail, List.all_eq_true, Bool.not_eq_true'] at hn
  have hseg : ∀ e ∈ rs, ∀ pre fl, Seg.nodes ⟨pre, canonEntry e, []⟩ fl = tks (gapToks pre) ++ [entryFromLossy e] :=
    fun e he pre fl => entry_canon e (hv e he).1 (hv e he).2 (hn e he) pre fl
  show Node.node .ROOT (segsNodes (canonSegs rs)) = _
  rw [built_root rs]
  congr 1
  cases rs with
  | nil => rfl
  | cons e es =>
    rw [built_cons]
    have key : ∀ l : List (List Lossy.Relation), (∀ x ∈ l, x ∈ e :: es) → l ≠ [] →
        tk commaTok :: segsNodes (l.map fun x => (⟨sp, canonEntry x, []⟩ : Seg)) = postOf sepE (l.map entryFromLossy) := by
      intro l hl hne
      induction l with
      | nil => exact absurd rfl hne
      | cons x xs ih =>
        cases xs with
        | nil =>
          simp only [List.map_cons, List.map_nil, segsNodes, hseg x (hl x (by simp)), tks_sp, postOf_cons]
          rfl
        | cons y ys =>
          have ih' := ih (fun z hz => hl z (by simp at hz ⊢; exact Or.inr hz)) (by simp)
          simp only [List.map_cons] at ih' ⊢
          rw [segsNodes, hseg x (hl x (by simp)), tks_sp, postOf_cons]
          simp only [List.append_assoc, List.cons_append, List.nil_append]
          rw [ih']
          rfl
    cases es with
    | nil =>
      simp only [canonSegs, List.map_nil, segsNodes, hseg e (by simp)]
      rfl
    | cons e2 es2 =>
      simp only [canonSegs, List.map_cons, segsNodes, hseg e (by simp)]
      have := key (e2 :: es2) (fun x hx => by simp at hx ⊢; exact Or.inr hx) (by simp)
      simp only [List.map_cons] at this
      have g : tks (gapToks []) = [] := rfl
      rw [g, List.nil_append, List.singleton_append, this]


/-! ### relation nodes with the following blank inside (`a:any ` before `| b`) -/

/-- the canonical relation node with one blank at its end -/
def flagN (r : Lossy.Relation) : RNode := .node .RELATION (builtChildren r ++ [T .WHITESPACE " "])

theorem RelA.node_tail (r : RelA) (t : List Tok) :
    r.node t = .node .RELATION ((r.node []).children ++ tks t) := by
  simp [RelA.node, tks, Node.children]

/-- that is the node the parser builds when the blank goes inside -/
theorem flagN_canon (r : Lossy.Relation) (h : validRS r = true) : (canonRel r).node (gapToks sp) = flagN r := by
  rw [RelA.node_tail, ← toLossless_canon r h, toLossless_eq]; rfl

theorem flag_setArchqual (r : Lossy.Relation) (q : Str) :
    setArchqual (flagN r) q = flagN { r with archqual := some q } := by
  cases r with
  | mk name aq archs ver profs =>
    cases aq <;> rcases ver with _ | ⟨c, v⟩ <;> rcases archs with _ | _ | ⟨a, as⟩ <;>
      simp [flagN, setArchqual, builtChildren, nodeIdx, elemIdx, afterName, onChildren, insertAt, replaceAt,
        Build.aqPart, Build.verPart, Build.archPart, List.findIdx?_cons, List.findIdx?_append, T,
        profsPart_findIdx .ARCHQUAL (by decide)]

theorem flag_setVersion (r : Lossy.Relation) (c : VC) (v : Version) :
    setVersion (flagN r) (some (c, v)) = flagN { r with version := some (c, v) } := by
  cases r with
  | mk name aq archs ver profs =>
    cases aq <;> rcases ver with _ | ⟨c', v'⟩ <;> rcases archs with _ | _ | ⟨a, as⟩ <;>
      simp [flagN, setVersion, versionAnchor, builtChildren, nodeIdx, elemIdx, afterName, onChildren, insertAt,
        replaceAt, Build.aqPart, Build.verPart, Build.archPart, List.findIdx?_cons, List.findIdx?_append, T,
        profsPart_findIdx .VERSION (by decide), profsPart_elemIdx .ARCHQUAL (by decide)]

theorem flag_setVersion_none (r : Lossy.Relation) :
    setVersion (flagN r) none = flagN { r with version := none } := by
  cases r with
  | mk name aq archs ver profs =>
    cases aq <;> rcases ver with _ | ⟨c', v'⟩ <;> rcases archs with _ | _ | ⟨a, as⟩ <;>
      simp [flagN, setVersion, removeWithWsBefore, isWsElem, builtChildren, nodeIdx, elemIdx, onChildren,
        Build.aqPart, Build.verPart, Build.archPart, List.findIdx?_cons, List.findIdx?_append, T,
        profsPart_findIdx .VERSION (by decide)]

theorem flag_setArchitectures_nil (r : Lossy.Relation) :
    setArchitectures (flagN r) [] = flagN { r with architectures := none } := by
  cases r with
  | mk name aq archs ver profs =>
    cases aq <;> rcases ver with _ | ⟨c', v'⟩ <;> rcases archs with _ | _ | ⟨a', as'⟩ <;>
      simp [flagN, setArchitectures, removeWithWsBefore, isWsElem, builtChildren, nodeIdx, elemIdx, onChildren,
        Build.aqPart, Build.verPart, Build.archPart, List.findIdx?_cons, List.findIdx?_append, T,
        profsPart_findIdx .ARCHITECTURES (by decide)]

/-- `set_architectures(non-empty)` on such a node: canonical again when the relation has an
    architecture list or a restriction list already; otherwise the new list is appended AFTER the
    inner blank, with its own blank: two blanks before `[`, none before the following `|` -/
theorem flag_setArchitectures (r : Lossy.Relation) (a : Str) (as : List Str) :
    setArchitectures (flagN r) (a :: as)
      = if (match r.architectures with | some (_ :: _) => true | _ => false) || !r.profiles.isEmpty then
          flagN { r with architectures := some (a :: as) }
        else .node .RELATION (builtChildren r ++ [T .WHITESPACE " ", T .WHITESPACE " ", architecturesNode (a :: as)]) := by
  cases r with
  | mk name aq archs ver profs =>
    cases profs with
    | nil =>
      cases aq <;> rcases ver with _ | ⟨c', v'⟩ <;> rcases archs with _ | _ | ⟨a', as'⟩ <;>
        simp [flagN, setArchitectures, builtChildren, nodeIdx, elemIdx, onChildren, insertAt, replaceAt,
          Build.aqPart, Build.verPart, Build.archPart, List.findIdx?_cons, List.findIdx?_append, T, profsPart]
    | cons p ps =>
      cases aq <;> rcases ver with _ | ⟨c', v'⟩ <;> rcases archs with _ | _ | ⟨a', as'⟩ <;>
        simp [flagN, setArchitectures, builtChildren, nodeIdx, elemIdx, onChildren, insertAt, replaceAt,
          Build.aqPart, Build.verPart, Build.archPart, List.findIdx?_cons, List.findIdx?_append, T, profsPart_cons,
          profsPart_findIdx .ARCHITECTURES (by decide)]


theorem noProf_builtNoProfs (name : Str) (aq : Option Str) (archs : Option (List Str)) (ver : Option (VC × Version)) :
    noProf (Node.tok .IDENT name :: (Build.aqPart aq ++ (Build.verPart ver ++ (Build.archPart archs ++ profsPart [])))
      ++ [T .WHITESPACE " "]) := by
  intro c hc
  cases aq <;> rcases ver with _ | ⟨c', v'⟩ <;> rcases archs with _ | _ | ⟨a', as'⟩ <;>
    simp [Build.aqPart, Build.verPart, Build.archPart, profsPart, T] at hc <;>
    (rcases hc with rfl | hc <;> try rfl) <;> (try (rcases hc with rfl | hc <;> try rfl)) <;>
    (try (rcases hc with rfl | hc <;> try rfl)) <;> (try (rcases hc with rfl | hc <;> try rfl)) <;>
    (try (rcases hc with rfl | hc <;> try rfl)) <;> (try (rcases hc with rfl | hc <;> try rfl)) <;>
    (try subst hc; rfl)

/-- `add_profile` on such a node: canonical again when the relation has a restriction list already
    (the new one goes after the last one, before the inner blank); otherwise it is appended AFTER the
    inner blank with its own blank -/
theorem flag_addProfile (r : Lossy.Relation) (g : List BuildProfile) :
    addProfile (flagN r) g
      = if !r.profiles.isEmpty then flagN { r with profiles := r.profiles ++ [g] }
        else .node .RELATION (builtChildren r ++ [T .WHITESPACE " ", T .WHITESPACE " ", profilesNode g]) := by
  cases r with
  | mk name aq archs ver profs =>
    rcases List.eq_nil_or_concat profs with rfl | ⟨ps, q, rfl⟩
    · simp only [List.isEmpty_nil, Bool.not_true, Bool.false_eq_true, ↓reduceIte, flagN, builtChildren]
      rw [addProfile_end _ _ _ (Or.inl (noProf_builtNoProfs name aq archs ver))]
      simp
    · have hne : (ps.concat q).isEmpty = false := by simp
      simp only [hne, Bool.not_false, ↓reduceIte, flagN, builtChildren, List.concat_eq_append, profsPart_snoc]
      have e : Node.tok Kind.IDENT name :: (Build.aqPart aq ++ (Build.verPart ver ++ (Build.archPart archs
            ++ (profsPart ps ++ [T .WHITESPACE " ", profilesNode q])))) ++ [T .WHITESPACE " "]
          = (Node.tok Kind.IDENT name :: (Build.aqPart aq ++ (Build.verPart ver ++ (Build.archPart archs
            ++ (profsPart ps ++ [T .WHITESPACE " "]))))) ++ [profilesNode q] ++ [T .WHITESPACE " "] := by simp
      have e' : Node.tok Kind.IDENT name :: (Build.aqPart aq ++ (Build.verPart ver ++ (Build.archPart archs
            ++ (profsPart ps ++ [T .WHITESPACE " ", profilesNode q] ++ [T .WHITESPACE " ", profilesNode g]))))
            ++ [T .WHITESPACE " "]
          = (Node.tok Kind.IDENT name :: (Build.aqPart aq ++ (Build.verPart ver ++ (Build.archPart archs
            ++ (profsPart ps ++ [T .WHITESPACE " "]))))) ++ [profilesNode q] ++ [T .WHITESPACE " ", profilesNode g]
            ++ [T .WHITESPACE " "] := by simp
      rw [e, e']
      generalize (Node.tok Kind.IDENT name :: (Build.aqPart aq ++ (Build.verPart ver ++ (Build.archPart archs
            ++ (profsPart ps ++ [T .WHITESPACE " "]))))) = xs
      have hl : lastNodeIdx .PROFILES (xs ++ [profilesNode q] ++ [T .WHITESPACE " "]) = some xs.length := by
        simp [lastNodeIdx, List.reverse_append, List.findIdx?_cons, T]
      simp only [addProfile, onChildren, children_node, kind_node, hl]
      have h1 : xs.length + 1 = (xs ++ [profilesNode q]).length := by simp
      rw [h1, insertAt_split]
      simp

end Deb822Verif.Rel.Edit
