import Deb822Verif.Lemmas.CtlWrapMoreUploaders
/-!
  The control wrappers on well-formed control files, with the hypotheses of
  `controlWrap_idem` / `C07_control_reread` / `paraWrap_idem` / `paraWrap_reread` weakened:
  * a relationship field is well-formed (C10 grammar) OR does not parse strictly (`RelOK`);
  * an `Uploaders` field is any well-formed field none of whose formatted lines after the first starts
    with `#` (`UpOK`; trailing commas, empty elements, an empty value are allowed).
-/
namespace Deb822Verif.Ctl
open Deb822Verif Deb Node Spec

/-- the relationship field is well-formed (C10 grammar), or it does not parse strictly -/
def RelOK (e : EntryS) : Prop :=
  relFields.contains e.key = true →
    (∃ f : RelSpec.FieldA, f.WF ∧ f.str = rawText e) ∨ Unparsed (rawText e)

/-- no line after the first of the formatted `Uploaders` value starts with `#` (finding F-C07-10) -/
def UpOK (e : EntryS) : Prop :=
  e.key = kUploaders → hashLine (fmtCommaLines kUploaders (rawText e)) = false

def RelFieldsOK2 (d : DocS) : Prop := ∀ pg ∈ d.paras, ∀ e ∈ paraEntries pg.1, RelOK e
def UploadersOK2 (d : DocS) : Prop := ∀ pg ∈ d.paras, ∀ e ∈ paraEntries pg.1, UpOK e
def ParaRelOK2 (p : ParaS) : Prop := ∀ e ∈ paraEntries p, RelOK e
def ParaUpOK2 (p : ParaS) : Prop := ∀ e ∈ paraEntries p, UpOK e

theorem relOK_of (e : EntryS)
    (h : relFields.contains e.key = true → ∃ f : RelSpec.FieldA, f.WF ∧ f.str = rawText e) : RelOK e :=
  fun hk => Or.inl (h hk)

theorem upOK_of_elems (e : EntryS) (hwf : e.WF) (h : e.key = kUploaders → ElemsNoHash (rawText e)) : UpOK e :=
  fun hk => hashLine_of_elems kUploaders e hwf (h hk)

/-- every field of such a control file is an entry-level fixed point -/
theorem entry_fixed2 (cfg : WrapCfg) (e : EntryS) (more : Bool) (hwf : e.WF) (ht : e.Term more)
    (hc : IndentOK cfg) (hrel : RelOK e)
    (e' : DNode) (h : entryWrap cfg (some formatField) e.node = some e') :
    entryWrap cfg (some formatField) e' = some e' := by
  by_cases hr : relFields.contains e.key = true
  · rcases hrel hr with hf | hu
    · exact entry_fixed cfg e more hwf ht hc (fun _ => hf) e' h
    · obtain ⟨h1, h2⟩ := entryWrap_unparsed_fixed cfg e more hwf ht hc hr hu
      rw [h1] at h; cases h; exact h2
  · exact entry_fixed cfg e more hwf ht hc (fun hk => absurd hk hr) e' h

/-- the panic guard does not fire on a reformatted field -/
theorem entryPanics_result2 (cfg : WrapCfg) (e : EntryS) (more : Bool) (hwf : e.WF) (ht : e.Term more)
    (hc : IndentOK cfg) (hrel : RelOK e)
    (e' : DNode) (h : entryWrap cfg (some formatField) e.node = some e') :
    entryPanics e' = false := by
  by_cases hr : relFields.contains e.key = true
  · rcases hrel hr with hf | hu
    · exact entryPanics_result cfg e more hwf ht (fun _ => hf) e' h
    · rw [(entryWrap_unparsed_fixed cfg e more hwf ht hc hr hu).1] at h
      cases h
      exact (entryPanics_unparsed cfg e more hwf ht hc hr hu).2
  · exact entryPanics_result cfg e more hwf ht (fun hk => absurd hk hr) e' h

theorem fieldOK_of2 (e : EntryS) (h : RelOK e) : FieldOK e := by
  by_cases hr : relFields.contains e.key = true
  · rcases h hr with hf | hu
    · exact fieldOK_of e fun _ => hf
    · unfold FieldOK; rw [formatFieldO_unparsed _ _ hr hu]; rfl
  · exact fieldOK_of e fun hk => absurd hk hr

/-- every field is reformatted to the node of a well-formed, fully terminated field -/
theorem entryOut_control2 (cfg : WrapCfg) (e : EntryS) (more : Bool) (hwf : e.WF) (ht : e.Term more)
    (hc : IndentOK cfg) (hrel : RelOK e) (hup : UpOK e) :
    ∃ eo, EntryOut cfg (some formatField) e eo := by
  by_cases hu : e.key = kUploaders
  · exact entryOut_uploaders cfg e more hwf ht hc hu (hup hu)
  · by_cases hr : relFields.contains e.key = true
    · rcases hrel hr with hf | hun
      · exact entryOut_control cfg e more hwf ht hc hu fun _ => hf
      · exact ⟨_, entryOut_unparsed cfg e more hwf ht hc hr hun⟩
    · exact entryOut_control cfg e more hwf ht hc hu fun hk => absurd hk hr

/-! ### `Control::wrap_and_sort` -/

theorem docSrc2 (d : DocS) (hwf : d.WF) (hrel : RelFieldsOK2 d) :
    ∀ p ∈ paragraphs d.tree, ∀ e ∈ entries p, ∃ x : EntryS, e = x.node ∧ x.WF ∧ (∃ m, x.Term m) ∧ RelOK x := by
  intro p hp e he
  rw [paragraphs_tree] at hp
  simp only [List.mem_map] at hp
  obtain ⟨pg, hpg, rfl⟩ := hp
  rw [entries_para] at he
  simp only [List.mem_map] at he
  obtain ⟨x, hx, rfl⟩ := he
  obtain ⟨m, hm⟩ := parasTerm_each d.paras hwf.paras_term pg hpg
  obtain ⟨h1, h2⟩ := paraEntries_props pg.1 m (hwf.paras_ok pg hpg).1 hm x hx
  exact ⟨x, rfl, h1, h2, hrel pg hpg x hx⟩

/-- **`Control::wrap_and_sort` is idempotent** on well-formed control files whose relationship fields
    are well-formed or do not parse strictly (indentation ≥ 1; `Uploaders` unrestricted) -/
theorem controlWrap_idem2 (cfg : WrapCfg) (d : DocS) (hwf : d.WF) (hc : IndentOK cfg) (hrel : RelFieldsOK2 d)
    (root' : DNode) (h : controlWrap cfg d.tree = some root') : controlWrap cfg root' = some root' := by
  obtain ⟨_, hd⟩ := controlWrap_some cfg d.tree root' h
  have hsrc := docSrc2 d hwf hrel
  have hfix : ∀ p ∈ paragraphs d.tree, ∀ e ∈ entries p, ∀ e',
      entryWrap cfg (some formatField) e = some e' → entryWrap cfg (some formatField) e' = some e' := by
    intro p hp e he e' hee
    obtain ⟨x, rfl, h1, ⟨m, h2⟩, h3⟩ := hsrc p hp e he
    exact entry_fixed2 cfg x m h1 h2 hc h3 e' hee
  have h2 := deb822Wrap_idem_on (some ctlParaLe) ctlParaLe_ok
    (some (paragraphWrap cfg none (some formatField)))
    (fun p p' _ hp => paragraphWrap_isPara cfg none (some formatField) p p' hp) d.tree root' hd
    (fun p p' hp hpp => paragraphWrap_idem_of cfg none (some formatField)
      (by intro f hf; cases hf) p p' hpp (fun e e' he hee => hfix p hp e he e' hee))
  obtain ⟨ws, hpw, hparas, _, _, hp', _, _⟩ := deb822Wrap_content (some ctlParaLe)
    (some (paragraphWrap cfg none (some formatField)))
    (fun p p' _ hp => paragraphWrap_isPara cfg none (some formatField) p p' hp) d.tree root' hd
  have hguard : (paragraphs root').any paraPanics = false := by
    apply List.any_eq_false.2
    intro q hq
    rw [hp'] at hq
    simp only [List.mem_map] at hq
    obtain ⟨w, hw, rfl⟩ := hq
    obtain ⟨g, hg, hr⟩ := Pointwise.mem_right hpw w ((mem_sortBy _ ws w).1 hw)
    have hgp : g.2 ∈ paragraphs d.tree := by rw [← hparas]; exact List.mem_map_of_mem hg
    obtain ⟨ws', hpw', _, _, he', he, _⟩ := paragraphWrap_fmt cfg none formatField g.2 w.2 hr.2
    have : (entries w.2).any entryPanics = false := by
      apply List.any_eq_false.2
      intro e' hem
      rw [he'] at hem
      simp only [sortBy, List.mem_map] at hem
      obtain ⟨w0, hw0, rfl⟩ := hem
      obtain ⟨g0, hg0, hr0⟩ := Pointwise.mem_right hpw' w0 hw0
      have hge : g0.2 ∈ entries g.2 := by rw [he]; exact List.mem_map_of_mem hg0
      obtain ⟨x, hx, h1, ⟨m, h2'⟩, h3⟩ := hsrc g.2 hgp g0.2 hge
      rw [hx] at hr0
      simp [entryPanics_result2 cfg x m h1 h2' hc h3 w0.2 hr0.2.1]
    simpa [paraPanics] using this
  simp [controlWrap, hguard, h2]

/-- every field of the control file has an output field -/
theorem docOut2 (cfg : WrapCfg) (d : DocS) (hwf : d.WF) (hc : IndentOK cfg)
    (hrel : RelFieldsOK2 d) (hup : UploadersOK2 d) :
    ∀ pg ∈ d.paras, ∀ e ∈ paraEntries pg.1, ∃ eo, EntryOut cfg (some formatField) e eo := by
  intro pg hpg e he
  obtain ⟨m, hm⟩ := parasTerm_each d.paras hwf.paras_term pg hpg
  obtain ⟨h1, m', h2⟩ := paraEntries_props pg.1 m (hwf.paras_ok pg hpg).1 hm e he
  exact entryOut_control2 cfg e m' h1 h2 hc (hrel pg hpg e he) (hup pg hpg e he)

/-- the panic guard does not fire on such a control file -/
theorem noPanic2 (d : DocS) (hwf : d.WF) (hrel : RelFieldsOK2 d) :
    (paragraphs d.tree).any paraPanics = false := by
  rw [paragraphs_tree]
  apply List.any_eq_false.2
  intro x hx
  simp only [List.mem_map] at hx
  obtain ⟨pg, hpg, rfl⟩ := hx
  obtain ⟨m, hm⟩ := parasTerm_each d.paras hwf.paras_term pg hpg
  simp [paraPanics_node pg.1 m (hwf.paras_ok pg hpg).1 hm
    (fun e he => fieldOK_of2 e (hrel pg hpg e he))]

/-! ### `Source::wrap_and_sort` / `Binary::wrap_and_sort` -/

theorem paraSrc2 (p : ParaS) (more : Bool) (hwf : p.WF) (ht : p.Term more) (hrel : ParaRelOK2 p) :
    ∀ e ∈ entries p.node, ∃ x : EntryS, e = x.node ∧ x.WF ∧ (∃ m, x.Term m) ∧ RelOK x := by
  intro e he
  rw [entries_para] at he
  simp only [List.mem_map] at he
  obtain ⟨x, hx, rfl⟩ := he
  obtain ⟨h1, h2⟩ := paraEntries_props p more hwf ht x hx
  exact ⟨x, rfl, h1, h2, hrel x hx⟩

theorem paraWrap_idem2 (cfg : WrapCfg) (p : ParaS) (more : Bool) (hwf : p.WF) (ht : p.Term more)
    (hc : IndentOK cfg) (hrel : ParaRelOK2 p) (p' : DNode) (h : paraWrap cfg p.node = some p') :
    paraWrap cfg p' = some p' := by
  obtain ⟨_, hd⟩ := paraWrap_some cfg p.node p' h
  have hsrc := paraSrc2 p more hwf ht hrel
  have h2 := paragraphWrap_idem_of cfg none (some formatField) (by intro f hf; cases hf) p.node p' hd
    (fun e e' he hee => by
      obtain ⟨x, rfl, h1, ⟨m, h2'⟩, h3⟩ := hsrc e he
      exact entry_fixed2 cfg x m h1 h2' hc h3 e' hee)
  obtain ⟨ws', hpw', _, _, he', he, _⟩ := paragraphWrap_fmt cfg none formatField p.node p' hd
  have hguard : paraPanics p' = false := by
    unfold paraPanics
    apply List.any_eq_false.2
    intro e' hem
    rw [he'] at hem
    simp only [sortBy, List.mem_map] at hem
    obtain ⟨w0, hw0, rfl⟩ := hem
    obtain ⟨g0, hg0, hr0⟩ := Pointwise.mem_right hpw' w0 hw0
    have hge : g0.2 ∈ entries p.node := by rw [he]; exact List.mem_map_of_mem hg0
    obtain ⟨x, hx, h1, ⟨m, h2'⟩, h3⟩ := hsrc g0.2 hge
    rw [hx] at hr0
    simp [entryPanics_result2 cfg x m h1 h2' hc h3 w0.2 hr0.2.1]
  simp [paraWrap, hguard, h2]

theorem paraWrap_reread2 (cfg : WrapCfg) (p : ParaS) (more : Bool) (hwf : p.WF) (ht : p.Term more)
    (hc : IndentOK cfg) (hrel : ParaRelOK2 p) (hup : ParaUpOK2 p) :
    ∃ p' : DNode, paraWrap cfg p.node = some p'
      ∧ ∃ d' : DocS, d'.WF ∧ DocTermAll d' ∧ p'.text = d'.str ∧ parse p'.text = ⟨d'.tree, []⟩
          ∧ docItems d'.tree = [items p'] := by
  classical
  have hout : ∀ e ∈ paraEntries p, ∃ eo, EntryOut cfg (some formatField) e eo := by
    intro e he
    obtain ⟨h1, m', h2⟩ := paraEntries_props p more hwf ht e he
    exact entryOut_control2 cfg e m' h1 h2 hc (hrel e he) (hup e he)
  let outE : EntryS → EntryS := fun e =>
    if h : ∃ eo, EntryOut cfg (some formatField) e eo then Classical.choose h else e
  have houtE : ∀ e ∈ paraEntries p, EntryOut cfg (some formatField) e (outE e) := by
    intro e he
    have h := hout e he
    simp only [outE, dif_pos h]
    exact Classical.choose_spec h
  obtain ⟨pg, hok, hpg⟩ := paragraphWrap_paraS_gen cfg none (some formatField) p more hwf ht outE houtE
  have hnp : paraPanics p.node = false :=
    paraPanics_node p more hwf ht (fun e he => fieldOK_of2 e (hrel e he))
  refine ⟨pg.node, by simp [paraWrap, hnp, hpg], ?_⟩
  have hzs : ∀ z ∈ [(([] : List Str), pg)], z.2.OK ∧ ∀ c ∈ z.1, NoNl c := by
    intro z hz
    simp only [List.mem_cons, List.not_mem_nil, or_false] at hz
    subst hz; exact ⟨hok, by simp⟩
  have hd' := mkDoc_wf [([], pg)] [] hzs (by simp)
  have hleaves : pg.node.leaves = (mkDoc [([], pg)] []).toks := by
    have := leaves_docOut [([], pg)] [] (fun z hz => (hzs z hz).1)
    simp only [docOut, List.map_cons, List.map_nil, joinParas, commentLines, List.append_nil, docGroup, zgrp,
      termOf_pg pg hok] at this
    simpa using this
  have htext : pg.node.text = (mkDoc [([], pg)] []).str := by
    rw [← tokText_leaves, hleaves, tokText_docToks _ hd']
  refine ⟨mkDoc [([], pg)] [], hd', mkDoc_termAll _ _ hzs (by simp), htext, ?_, ?_⟩
  · rw [htext]; unfold parse; rw [lex_doc _ hd', parse_doc _ hd']
  · rw [mkDoc_items _ _ (fun z hz => (hzs z hz).1)]; rfl

/-! ### a document consisting of one field; the old hypotheses imply the new ones -/

/-- the document whose only paragraph has the one field `eo` -/
def oneField (eo : EntryS) : DocS := { lead := [], paras := [(⟨eo, []⟩, [])] }

/-- **a well-formed, fully terminated field on its own** is a document the strict reader accepts:
    one paragraph holding exactly that field -/
theorem entry_doc (eo : EntryS) (hwf : eo.WF) (hta : eo.TermAll) :
    parse eo.str = ⟨.node .ROOT [.node .PARAGRAPH [eo.node]], []⟩
      ∧ readStrict eo.str = .ok (.node .ROOT [.node .PARAGRAPH [eo.node]])
      ∧ docItems (.node .ROOT [.node .PARAGRAPH [eo.node]]) = [[(eo.key, entryValue eo.node)]]
      ∧ eo.node.text = eo.str := by
  have hd : (oneField eo).WF := by
    refine ⟨(by intro g hg; cases hg), trivial, ?_, ?_⟩
    · intro pg hpg
      simp only [oneField, List.mem_cons, List.not_mem_nil, or_false] at hpg
      subst hpg
      exact ⟨⟨hwf, (by intro i hi; cases hi)⟩, (by intro g hg; cases hg)⟩
    · exact ⟨⟨termAll_term eo hta _, trivial⟩, Or.inl rfl, trivial⟩
  have hstr : (oneField eo).str = eo.str := by
    simp [oneField, DocS.str, gapsStr, ParaS.str]
  have htree : (oneField eo).tree = .node .ROOT [.node .PARAGRAPH [eo.node]] := by
    simp [oneField, DocS.tree, parasNodes, ParaS.node, itemsNodes]
  have hparse : parse eo.str = ⟨.node .ROOT [.node .PARAGRAPH [eo.node]], []⟩ := by
    rw [← hstr, ← htree]; unfold parse; rw [lex_doc _ hd, parse_doc _ hd]
  refine ⟨hparse, by simp [readStrict, hparse], ?_, ?_⟩
  · rw [← htree, docItems_tree]
    simp [oneField, DocS.content, ParaS.content, EntryS.content, entryValue_node]
  · have h1 := tokText_docToks _ hd
    rw [hstr] at h1
    rw [← tokText_leaves, ← h1]
    simp [oneField, DocS.toks, gapsToks, parasToks, ParaS.toks, itemsToks, EntryS.node, leavesList_map_tk]

/-- the hypothesis of `C07_control_reread` on an `Uploaders` field implies `UpOK` -/
theorem upOK_of_goodLines (e : EntryS)
    (h : e.key = kUploaders → ∃ L, GoodLines L ∧ fmtCommaLines kUploaders (rawText e) = Text.join ['\n'] L) :
    UpOK e := by
  intro hk
  obtain ⟨L, hL, hfl⟩ := h hk
  unfold hashLine
  rw [hfl, ← tokText_joinNL, tokText_joinNL_split L hL.ne fun l hl => (hL.line l hl).1]
  apply List.any_eq_false.2
  intro l hl
  rw [List.drop_one] at hl
  obtain ⟨_, c, cs, rfl, hi⟩ := hL.line l (List.mem_of_mem_tail hl)
  have := hL.nohash _ hl
  simp only [List.dropWhile_cons, hi, Bool.false_eq_true, ↓reduceIte]
  simpa using this

end Deb822Verif.Ctl
