import Deb822Verif.Lemmas.RelEditLabel
/-!
  The whole-history refinement in the formulation of the `rel.hist` oracle: a labelled list model
  (the items with their records, and which handle id sits on which entry / alternative) is run next
  to the tree; after every step they agree.
-/
set_option linter.unusedSimpArgs false
set_option linter.unusedVariables false
namespace Deb822Verif.Rel.Edit
open Deb822Verif Rel Node Build Lossy RelSpec

/-- an API call, addressed by index -/
inductive IOp
  | setArchqual (i j : Nat) (aq : Str)
  | setVersion (i j : Nat) (vc : Option (VC × Version))
  | dropConstraint (i j : Nat)
  | setArchitectures (i j : Nat) (as : List Str)
  | addProfile (i j : Nat) (g : List BuildProfile)
  | entryPush (i : Nat) (rel : RNode)
  | entryReplace (i j : Nat) (rel : RNode)
  | removeRelation (i j : Nat)
  | insert (i : Nat) (entry : RNode)
  | push (entry : RNode)
  | replace (i : Nat) (entry : RNode)
  | removeEntry (i : Nat)

/-- `get_entry(i)` / `get_relation(j)`: the positions, or `none` (the `unwrap` panics) -/
def locate (f : Field) (i j : Nat) : Option (Nat × Nat) :=
  (nthNode .ENTRY f.kids i).bind fun p => (nthNode .RELATION (f.entryKids p) j).map fun q => (p, q)

/-- the call as an operation on positions -/
def IOp.resolve (f : Field) : IOp → Option Op
  | .setArchqual i j aq => (locate f i j).map fun (p, q) => .setArchqual p q aq
  | .setVersion i j vc => (locate f i j).map fun (p, q) => .setVersion p q vc
  | .dropConstraint i j => (locate f i j).map fun (p, q) => .dropConstraint p q
  | .setArchitectures i j as => (locate f i j).map fun (p, q) => .setArchitectures p q as
  | .addProfile i j g => (locate f i j).map fun (p, q) => .addProfile p q g
  | .entryPush i rel => (nthNode .ENTRY f.kids i).map fun p => .entryPush p rel
  | .entryReplace i j rel => (nthNode .ENTRY f.kids i).map fun p => .entryReplace p j rel
  | .removeRelation i j => some (.removeRelation i j)
  | .insert i e => some (.insert i e)
  | .push e => some (.push e)
  | .replace i e => some (.replace i e)
  | .removeEntry i => some (.removeEntry i)

def istep (f : Field) (o : IOp) : Outcome Field :=
  match o.resolve f with
  | some op => step f op
  | none => .panic "unwrap"

def irun (f : Field) : List IOp → Outcome Field
  | [] => .ok f
  | o :: os => (istep f o).bind fun f' => irun f' os

/-- the labelled list model: the items, and the handle ids sitting on them -/
structure LModel where
  items : FieldS
  tags : Shape

/-- `set_architectures(as)`: an empty list removes the architecture list -/
def archsOf (as : List Str) : Option (List Str) := match as with | [] => none | _ => some as

/-- what a setter does to the record -/
def IOp.recFn : IOp → Option (Nat × Nat × (RelRec → RelRec))
  | .setArchqual i j aq => some (i, j, fun r => { r with archqual := some aq })
  | .setVersion i j vc => some (i, j, fun r => { r with version := .ok vc })
  | .dropConstraint i j => some (i, j, fun r => { r with version := .ok none })
  | .setArchitectures i j as => some (i, j, fun r => { r with architectures := archsOf as })
  | .addProfile i j g => some (i, j, fun r => { r with profiles := r.profiles ++ [g] })
  | _ => none

def nRels (e : RNode) : Nat := e.children.countP (isNodeOf .RELATION)

/-- the reference model: the list operation on the items, the ids follow (new elements carry none) -/
def mstep (M : LModel) : IOp → LModel
  | .entryPush i rel => ⟨S.entryPush M.items i (recOf rel), Sh.entryPush M.tags i⟩
  | .entryReplace i j rel => ⟨S.entryReplace M.items i j (recOf rel), Sh.entryReplace M.tags i j⟩
  | .removeRelation i j => ⟨S.removeRel M.items i j, Sh.removeRel M.tags i j⟩
  | .insert i e => ⟨S.insert M.items i (relsOf e), Sh.insert M.tags i (nRels e)⟩
  | .push e => ⟨S.push M.items (relsOf e), Sh.push M.tags (nRels e)⟩
  | .replace i e => ⟨S.replace M.items i (relsOf e), Sh.replace M.tags i (nRels e)⟩
  | .removeEntry i => ⟨S.removeEntry M.items i, Sh.removeEntry M.tags i⟩
  | o => match o.recFn with
    | some (i, j, G) => ⟨S.modRel M.items i j G, M.tags⟩
    | none => M

def mrun (M : LModel) : List IOp → LModel
  | [] => M
  | o :: os => mrun (mstep M o) os

/-- the operands are what the API takes: RELATION / ENTRY nodes with the shape of parsed or built
    ones, versions that are the parse of their text, profile names that are identifiers -/
def IOp.ok : IOp → Prop
  | .setVersion _ _ vc => ∀ c v, vc = some (c, v) → validVersion v = true
  | .addProfile _ _ g => ∀ x ∈ g, isIdent (profName x) = true
  | .entryPush _ rel => isNodeOf .RELATION rel = true ∧ relShape rel
  | .entryReplace _ _ rel => isNodeOf .RELATION rel = true ∧ relShape rel
  | .insert _ e => isNodeOf .ENTRY e = true ∧ entryShaped e
  | .push e => isNodeOf .ENTRY e = true ∧ entryShaped e
  | .replace _ e => isNodeOf .ENTRY e = true ∧ entryShaped e
  | _ => True

/-- the tree and the model agree -/
structure HRel (f : Field) (M : LModel) : Prop where
  items : absKids f.kids = M.items
  tags : shapeOf f = M.tags
  shaped : Shaped f.kids
  hok : HOk f

theorem locate_some {f : Field} {i j p q : Nat} (h : locate f i j = some (p, q)) :
    nthNode .ENTRY f.kids i = some p ∧ nthNode .RELATION (f.entryKids p) j = some q := by
  simp only [locate, Option.bind_eq_some_iff, Option.map_eq_some_iff, Prod.mk.injEq] at h
  obtain ⟨p', hp, q', hq, rfl, rfl⟩ := h
  exact ⟨hp, hq⟩

theorem isRel_on {r : RNode} (h : isNodeOf .RELATION r = true) (g : List RNode → List RNode) :
    isNodeOf .RELATION (onChildren r g) = true := isNodeOf_onChildren' h g


theorem setter_rel (f : Field) (M : LModel) (H : HRel f M) (i j p q : Nat) (g : RNode → RNode) (G : RelRec → RelRec)
    (hloc : locate f i j = some (p, q))
    (hgrel : ∀ r, isNodeOf .RELATION r = true → isNodeOf .RELATION (g r) = true)
    (hgrec : ∀ r, (f.entryKids p)[q]? = some r → isNodeOf .RELATION r = true → recOf (g r) = G (recOf r)) :
    absKids (f.relEdit p q g).kids = S.modRel M.items i j G ∧ shapeOf (f.relEdit p q g) = M.tags := by
  obtain ⟨hp, hq⟩ := locate_some hloc
  refine ⟨?_, ?_⟩
  · rw [← H.items]
    exact abs_relEdit f i j p q g G hp hq (fun r hat hr => ⟨hgrel r hr, hgrec r hat hr⟩)
  · rw [← H.tags]; exact shape_relEdit f i j p q g hp hq hgrel

/-- one step of the history: tree and model keep agreeing -/
theorem hrel_step (f f' : Field) (M : LModel) (o : IOp) (H : HRel f M) (ho : o.ok) (h : istep f o = .ok f') :
    HRel f' (mstep M o) := by
  unfold istep at h
  cases hres : o.resolve f with
  | none => rw [hres] at h; cases h
  | some op =>
    rw [hres] at h
    simp only at h
    have hshape : op.shaped := by
      cases o <;> simp only [IOp.resolve, Option.map_eq_some_iff, Option.some.injEq] at hres <;>
        first
        | (obtain ⟨_, _, rfl⟩ := hres; first | exact ho.2 | trivial)
        | (subst hres; first | exact ho.2 | trivial)
    have hS := shaped_step f f' op H.shaped hshape h
    have hK := hok_step f f' op H.hok h
    cases o with
    | setArchqual i j aq =>
      simp only [IOp.resolve, Option.map_eq_some_iff] at hres
      obtain ⟨⟨p, q⟩, hloc, rfl⟩ := hres
      simp only [step, Outcome.ok.injEq] at h; subst h
      obtain ⟨h1, h2⟩ := setter_rel f M H i j p q (fun r => setArchqual r aq) (fun r => { r with archqual := some aq }) hloc
        (fun r hr => by unfold setArchqual; split <;> exact isRel_on hr _) (fun r _ _ => recOf_setArchqual r aq)
      exact ⟨h1, h2, hS, hK⟩
    | setVersion i j vc =>
      simp only [IOp.resolve, Option.map_eq_some_iff] at hres
      obtain ⟨⟨p, q⟩, hloc, rfl⟩ := hres
      simp only [step, Outcome.ok.injEq] at h; subst h
      obtain ⟨h1, h2⟩ := setter_rel f M H i j p q (fun r => setVersion r vc) (fun r => { r with version := .ok vc }) hloc
        (fun r hr => by unfold setVersion; split <;> split <;> first | exact isRel_on hr _ | exact hr)
        (fun r hat hr => by
          rcases vc with _ | ⟨c, v⟩
          · exact recOf_setVersion_none r (shaped_at H.shaped hat hr).1
          · exact recOf_setVersion_some r c v (validVersion_parse v (ho c v rfl)) (validVersion_display_ne v (ho c v rfl)))
      exact ⟨h1, h2, hS, hK⟩
    | dropConstraint i j =>
      simp only [IOp.resolve, Option.map_eq_some_iff] at hres
      obtain ⟨⟨p, q⟩, hloc, rfl⟩ := hres
      simp only [step, Outcome.ok.injEq] at h; subst h
      obtain ⟨h1, h2⟩ := setter_rel f M H i j p q (fun r => (dropConstraint r).1) (fun r => { r with version := .ok none }) hloc
        (fun r hr => by
          unfold dropConstraint; split
          · exact isRel_on hr (fun cs => removeWithWsBefore cs _)
          · exact hr)
        (fun r hat hr => recOf_dropConstraint r (shaped_at H.shaped hat hr).1)
      exact ⟨h1, h2, hS, hK⟩
    | setArchitectures i j as =>
      simp only [IOp.resolve, Option.map_eq_some_iff] at hres
      obtain ⟨⟨p, q⟩, hloc, rfl⟩ := hres
      simp only [step, Outcome.ok.injEq] at h; subst h
      obtain ⟨h1, h2⟩ := setter_rel f M H i j p q (fun r => setArchitectures r as)
        (fun r => { r with architectures := archsOf as }) hloc
        (fun r hr => by
          unfold setArchitectures; split <;> split <;> (try split) <;> first | exact isRel_on hr _ | exact hr)
        (fun r hat hr => by
          cases as with
          | nil => exact recOf_setArchitectures_nil r (shaped_at H.shaped hat hr).2
          | cons a as => exact recOf_setArchitectures r (a :: as) (by simp))
      exact ⟨h1, h2, hS, hK⟩
    | addProfile i j g =>
      simp only [IOp.resolve, Option.map_eq_some_iff] at hres
      obtain ⟨⟨p, q⟩, hloc, rfl⟩ := hres
      simp only [step, Outcome.ok.injEq] at h; subst h
      obtain ⟨h1, h2⟩ := setter_rel f M H i j p q (fun r => addProfile r g) (fun r => { r with profiles := r.profiles ++ [g] }) hloc
        (fun r hr => by simp only [addProfile]; exact isRel_on hr (fun cs => insertAt cs _ _))
        (fun r _ _ => recOf_addProfile r g ho)
      exact ⟨h1, h2, hS, hK⟩
    | entryPush i rel =>
      simp only [IOp.resolve, Option.map_eq_some_iff] at hres
      obtain ⟨p, hp, rfl⟩ := hres
      simp only [step, Outcome.ok.injEq] at h; subst h
      refine ⟨?_, ?_, hS, hK⟩
      · show _ = S.entryPush M.items i (recOf rel)
        rw [← H.items]; exact abs_entryPushAt f i p rel hp ho.1
      · show _ = Sh.entryPush M.tags i
        rw [← H.tags]; exact shape_entryPushAt f i p rel hp ho.1
    | entryReplace i j rel =>
      simp only [IOp.resolve, Option.map_eq_some_iff] at hres
      obtain ⟨p, hp, rfl⟩ := hres
      simp only [step] at h
      refine ⟨?_, ?_, hS, hK⟩
      · show _ = S.entryReplace M.items i j (recOf rel)
        rw [← H.items]; exact abs_entryReplaceAt f f' i j p rel hp ho.1 h
      · show _ = Sh.entryReplace M.tags i j
        rw [← H.tags]; exact shape_entryReplaceAt f f' i j p rel hp ho.1 h
    | removeRelation i j =>
      simp only [IOp.resolve, Option.some.injEq] at hres; subst hres
      simp only [step] at h
      refine ⟨?_, ?_, hS, hK⟩
      · show _ = S.removeRel M.items i j
        rw [← H.items]; exact abs_removeRelation f f' i j h
      · show _ = Sh.removeRel M.tags i j
        rw [← H.tags]; exact shape_removeRelation f f' i j h
    | insert i e =>
      simp only [IOp.resolve, Option.some.injEq] at hres; subst hres
      simp only [step, Outcome.ok.injEq] at h; subst h
      refine ⟨?_, ?_, hS, hK⟩
      · show _ = S.insert M.items i (relsOf e)
        rw [← H.items]; exact abs_insert f i e ho.1
      · show _ = Sh.insert M.tags i (nRels e)
        rw [← H.tags]; exact shape_insert f i e ho.1
    | push e =>
      simp only [IOp.resolve, Option.some.injEq] at hres; subst hres
      simp only [step, Outcome.ok.injEq] at h; subst h
      refine ⟨?_, ?_, hS, hK⟩
      · show _ = S.push M.items (relsOf e)
        rw [← H.items]; exact abs_push f e ho.1
      · show _ = Sh.push M.tags (nRels e)
        rw [← H.tags]; exact shape_push f e ho.1
    | replace i e =>
      simp only [IOp.resolve, Option.some.injEq] at hres; subst hres
      simp only [step] at h
      refine ⟨?_, ?_, hS, hK⟩
      · show _ = S.replace M.items i (relsOf e)
        rw [← H.items]; exact abs_replace f f' i e ho.1 h
      · show _ = Sh.replace M.tags i (nRels e)
        rw [← H.tags]; exact shape_replace f f' i e ho.1 h
    | removeEntry i =>
      simp only [IOp.resolve, Option.some.injEq] at hres; subst hres
      simp only [step] at h
      refine ⟨?_, ?_, hS, hK⟩
      · show _ = S.removeEntry M.items i
        rw [← H.items]; exact abs_removeEntry f f' i h
      · show _ = Sh.removeEntry M.tags i
        rw [← H.tags]; exact shape_removeEntry f f' i h

/-- whole histories -/
theorem hrel_run (f f' : Field) (M : LModel) (os : List IOp) (H : HRel f M) (ho : ∀ o ∈ os, o.ok)
    (h : irun f os = .ok f') : HRel f' (mrun M os) := by
  induction os generalizing f M with
  | nil => simp only [irun, Outcome.ok.injEq] at h; subst h; exact H
  | cons o os ih =>
    simp only [irun] at h
    cases hst : istep f o with
    | panic s => rw [hst] at h; simp [Outcome.bind] at h
    | ok f1 =>
      rw [hst] at h
      simp only [Outcome.bind] at h
      exact ih f1 (mstep M o) (hrel_step f f1 M o H (ho o (by simp)) hst) (fun x hx => ho x (by simp [hx])) h


/-! ### what the relation says: the oracle's checks -/

/-- the tags of the `i`-th entry -/
def Sh.entry? : Shape → Nat → Option (Option Nat × List (Option Nat))
  | [], _ => none
  | none :: xs, i => Sh.entry? xs i
  | some x :: _, 0 => some x
  | some _ :: xs, i + 1 => Sh.entry? xs i

theorem Sh.entry?_at (A : Shape) (x : Option Nat × List (Option Nat)) (B : Shape) :
    Sh.entry? (A ++ some x :: B) (Sh.nEntries A) = some x := by
  induction A with
  | nil => simp [Sh.nEntries, Sh.entry?]
  | cons a A ih =>
    cases a with
    | none => simpa [Sh.nEntries, Sh.entry?, Sh.isEntry] using ih
    | some y =>
      have : Sh.nEntries (some y :: A) = Sh.nEntries A + 1 := by simp [Sh.nEntries, List.countP_cons, Sh.isEntry]
      rw [this]; simpa [Sh.entry?] using ih

theorem Sh.entry?_none (s : Shape) (i : Nat) (h : Sh.nEntries s ≤ i) : Sh.entry? s i = none := by
  induction s generalizing i with
  | nil => rfl
  | cons a s ih =>
    cases a with
    | none => simp only [Sh.entry?]; exact ih i (by simpa [Sh.nEntries, List.countP_cons, Sh.isEntry] using h)
    | some y =>
      have e : Sh.nEntries (some y :: s) = Sh.nEntries s + 1 := by simp [Sh.nEntries, List.countP_cons, Sh.isEntry]
      cases i with
      | zero => omega
      | succ i => simp only [Sh.entry?]; exact ih i (by omega)

theorem tagE_mem {f : Field} {p id : Nat} (h : tagE f p = some id) : (id, ERef.at p) ∈ f.ehs := by
  simp only [tagE, Option.map_eq_some_iff] at h
  obtain ⟨x, hx, rfl⟩ := h
  have hm := List.mem_of_find?_eq_some hx
  have hp := List.find?_some hx
  simp only [decide_eq_true_eq] at hp
  rw [← hp]; exact hm

theorem tagR_mem {f : Field} {p q id : Nat} (h : tagR f p q = some id) : (id, RRef.at p q) ∈ f.rhs := by
  simp only [tagR, Option.map_eq_some_iff] at h
  obtain ⟨x, hx, rfl⟩ := h
  have hm := List.mem_of_find?_eq_some hx
  have hp := List.find?_some hx
  simp only [decide_eq_true_eq] at hp
  rw [← hp]; exact hm

/-- the element of the model that carries entry id `id` is read by the handle with that id: the handle
    is live, `get_entry(i)` finds its node, and the node reads the model's entry -/
theorem HRel.entry_reads {f : Field} {M : LModel} (H : HRel f M) (i id : Nat) (rs : List (Option Nat))
    (h : Sh.entry? M.tags i = some (some id, rs)) :
    ∃ p e, (id, ERef.at p) ∈ f.ehs ∧ nthNode .ENTRY f.kids i = some p ∧ f.kids[p]? = some e
      ∧ S.entry? M.items i = some (relsOf e) := by
  rw [← H.tags] at h
  cases hn : nthNode .ENTRY f.kids i with
  | none =>
    have := Sh.entry?_none (shapeOf f) i (by rw [show Sh.nEntries (shapeOf f) = _ from nEntries_Fo f f.kids 0]; exact nthPos_none hn)
    rw [this] at h; cases h
  | some p =>
    obtain ⟨pre, e, post, hk, hl, he, hne, hsh⟩ := shape_split f i p hn
    rw [hsh, ← hne, Sh.entry?_at] at h
    simp only [Option.some.injEq, Prod.mk.injEq] at h
    obtain ⟨pre2, e2, post2, hk2, hl2, _, _, hne2, habs⟩ := abs_split hn
    have : e2 = e := by
      have h1 : f.kids[p]? = some e := by rw [hk, ← hl]; simp
      have h2 : f.kids[p]? = some e2 := by rw [hk2, ← hl2]; simp
      exact Option.some.inj (h2.symm.trans h1)
    subst this
    refine ⟨p, e2, tagE_mem h.1, rfl, by rw [hk, ← hl]; simp, ?_⟩
    rw [← H.items, habs, ← hne2, S.entry?_at]

/-- the same one level down: the alternative that carries relation id `rid` is read by that handle -/
theorem HRel.rel_reads {f : Field} {M : LModel} (H : HRel f M) (i j rid : Nat) (t : Option Nat)
    (rs : List (Option Nat)) (h : Sh.entry? M.tags i = some (t, rs)) (hj : rs[j]? = some (some rid)) :
    ∃ p q e r, (rid, RRef.at p q) ∈ f.rhs ∧ nthNode .ENTRY f.kids i = some p
      ∧ nthNode .RELATION (f.entryKids p) j = some q ∧ f.kids[p]? = some e ∧ e.children[q]? = some r
      ∧ (relsOf e)[j]? = some (recOf r) := by
  rw [← H.tags] at h
  cases hn : nthNode .ENTRY f.kids i with
  | none =>
    have := Sh.entry?_none (shapeOf f) i (by rw [show Sh.nEntries (shapeOf f) = _ from nEntries_Fo f f.kids 0]; exact nthPos_none hn)
    rw [this] at h; cases h
  | some p =>
    obtain ⟨pre, e, post, hk, hl, he, hne, hsh⟩ := shape_split f i p hn
    rw [hsh, ← hne, Sh.entry?_at] at h
    simp only [Option.some.injEq, Prod.mk.injEq] at h
    obtain ⟨_, hrs⟩ := h
    have hek : f.entryKids p = e.children := by subst hl; exact entryKids_split f pre e post hk
    have hge : f.kids[p]? = some e := by rw [hk, ← hl]; simp
    cases hq : nthNode .RELATION e.children j with
    | none =>
      have hle := nthPos_none hq
      have : rs.length ≤ j := by rw [← hrs, relTags_eq, nrel_Fo]; exact hle
      rw [List.getElem?_eq_none_iff.2 this] at hj; cases hj
    | some q =>
      obtain ⟨pre', r, post', hk', hl', hr, hjl, hsp⟩ := relTags_split f p e.children j q hq
      rw [← hrs, hsp, ← hjl] at hj
      simp only [List.getElem?_append_right (Nat.le_refl _), Nat.sub_self, List.getElem?_cons_zero, Option.some.injEq] at hj
      have hgr : e.children[q]? = some r := by rw [hk', ← hl']; simp
      refine ⟨p, q, e, r, tagR_mem hj, rfl, by rw [hek]; exact hq, hge, hgr, ?_⟩
      have := (rel_handle_reads f p q ⟨e, r, hge, he, hgr, hr⟩)
      obtain ⟨e', r', he', hr', hnq, hread⟩ := this
      have e1 : e' = e := Option.some.inj (he'.symm.trans hge)
      subst e1
      have e2 : r' = r := Option.some.inj (hr'.symm.trans hgr)
      subst e2
      have hidx : (e'.children.take q).countP (isNodeOf .RELATION) = j := by
        rw [hk', ← hl']; simp only [List.take_left']
        rw [← nrel_Fo f p pre' 0]; exact hjl
      rw [hidx] at hread; exact hread


/-! ### dead handles stay dead, with the text they died with -/

def Dead (f f' : Field) : Prop :=
  (∀ id t, (id, ERef.gone t) ∈ f.ehs → (id, ERef.gone t) ∈ f'.ehs)
  ∧ (∀ id t, (id, RRef.gone t) ∈ f.rhs → (id, RRef.gone t) ∈ f'.rhs)

theorem Dead.refl (f : Field) : Dead f f := ⟨fun _ _ h => h, fun _ _ h => h⟩
theorem Dead.trans {a b c : Field} (h1 : Dead a b) (h2 : Dead b c) : Dead a c :=
  ⟨fun id t h => h2.1 id t (h1.1 id t h), fun id t h => h2.2 id t (h1.2 id t h)⟩

theorem dead_rootEdit (f : Field) (c : Cut) : Dead f (f.rootEdit c) := by
  constructor
  · intro id t h
    rw [rootEdit_ehs, List.mem_map]; exact ⟨_, h, rfl⟩
  · intro id t h
    rw [rootEdit_rhs, List.mem_map]; exact ⟨_, h, rfl⟩

theorem dead_entryEdit (f : Field) (p : Nat) (c : Cut) (lost : Nat → Option Str) : Dead f (f.entryEdit p c lost) := by
  constructor
  · intro id t h; exact h
  · intro id t h
    rw [entryEdit_rhs, List.mem_map]; exact ⟨_, h, rfl⟩

theorem dead_relEdit (f : Field) (p q : Nat) (g : RNode → RNode) : Dead f (f.relEdit p q g) := by
  obtain ⟨h1, h2⟩ := C11h f p q g
  exact ⟨fun id t h => by rw [h1]; exact h, fun id t h => by rw [h2]; exact h⟩

theorem dead_removeEntryAt (f f' : Field) (p : Nat) (h : f.removeEntryAt p = .ok f') : Dead f f' := by
  unfold Field.removeEntryAt at h
  cases hc : entryRemove f.kids p with
  | panic s => rw [hc] at h; simp [Outcome.map] at h
  | ok c => rw [hc] at h; simp only [Outcome.map, Outcome.ok.injEq] at h; rw [← h]; exact dead_rootEdit f c

theorem dead_removeRelationAt (f f' : Field) (p q : Nat) (h : f.removeRelationAt p q = .ok f') : Dead f f' := by
  unfold Field.removeRelationAt at h
  cases hc : relationRemoveIn (f.entryKids p) q with
  | panic s => rw [hc] at h; simp [Outcome.bind] at h
  | ok c =>
    rw [hc] at h
    simp only [Outcome.bind] at h
    split at h
    · exact (dead_entryEdit f p c _).trans (dead_removeEntryAt _ f' p h)
    · simp only [Outcome.ok.injEq] at h; rw [← h]; exact dead_entryEdit f p c _

theorem dead_step (f f' : Field) (op : Op) (h : step f op = .ok f') : Dead f f' := by
  cases op with
  | setArchqual p q aq => simp only [step, Outcome.ok.injEq] at h; rw [← h]; exact dead_relEdit f p q _
  | setVersion p q vc => simp only [step, Outcome.ok.injEq] at h; rw [← h]; exact dead_relEdit f p q _
  | dropConstraint p q => simp only [step, Outcome.ok.injEq] at h; rw [← h]; exact dead_relEdit f p q _
  | setArchitectures p q as => simp only [step, Outcome.ok.injEq] at h; rw [← h]; exact dead_relEdit f p q _
  | addProfile p q g => simp only [step, Outcome.ok.injEq] at h; rw [← h]; exact dead_relEdit f p q _
  | entryPush p rel => simp only [step, Outcome.ok.injEq] at h; rw [← h]; exact dead_entryEdit f p _ _
  | entryReplace p j rel =>
    simp only [step, Field.entryReplaceAt] at h
    split at h
    · cases h
    · cases hc : entryReplaceIn (f.entryKids p) _ rel with
      | panic s => rw [hc] at h; simp [Outcome.map] at h
      | ok x =>
        rw [hc] at h
        simp only [Outcome.map, Outcome.ok.injEq] at h
        rw [← h]
        exact (dead_entryEdit f p _ _).trans (dead_entryEdit _ p _ _)
  | removeRelationAt p q => exact dead_removeRelationAt f f' p q h
  | removeRelation i j =>
    simp only [step, Field.removeRelation] at h
    split at h
    · cases h
    · split at h
      · cases h
      · exact dead_removeRelationAt f f' _ _ h
  | insert i entry => simp only [step, Outcome.ok.injEq] at h; rw [← h]; exact dead_rootEdit f _
  | push entry => simp only [step, Outcome.ok.injEq] at h; rw [← h]; exact dead_rootEdit f _
  | replace i entry =>
    simp only [step, Field.replace] at h
    split at h
    · cases h
    · simp only [Outcome.ok.injEq] at h; rw [← h]
      exact (dead_rootEdit f _).trans (dead_rootEdit _ _)
  | removeEntry i =>
    simp only [step, Field.removeEntry] at h
    split at h
    · exact dead_removeEntryAt f f' _ h
    · cases h
  | removeEntryAt p => exact dead_removeEntryAt f f' p h

theorem dead_irun (f f' : Field) (os : List IOp) (h : irun f os = .ok f') : Dead f f' := by
  induction os generalizing f with
  | nil => simp only [irun, Outcome.ok.injEq] at h; subst h; exact Dead.refl f
  | cons o os ih =>
    simp only [irun] at h
    cases hst : istep f o with
    | panic s => rw [hst] at h; simp [Outcome.bind] at h
    | ok f1 =>
      rw [hst] at h
      simp only [Outcome.bind] at h
      have h1 : Dead f f1 := by
        unfold istep at hst
        cases hr : o.resolve f with
        | none => rw [hr] at hst; cases hst
        | some op => rw [hr] at hst; exact dead_step f f1 op hst
      exact h1.trans (ih f1 h)

end Deb822Verif.Rel.Edit
