import Deb822Verif.Lemmas.CtlWrapReread
/-!
  Relationship fields that do NOT parse strictly (`format_field` returns their text unchanged).

  * `Rel.parse_errors_lead`: the error list of the relations parser depends on the text only through
    what follows its leading blanks / line breaks (`Parser::parse` starts with `skip_ws()`).
  * `rawText_wrap_lead`: the raw text of a reformatted well-formed field differs from the raw text of
    the field by leading blanks / line breaks only.
  * hence a relationship field that does not parse still does not parse after the first pass, the
    formatter is the identity on both passes, and the field is an entry-level fixed point
    (`entryWrap_unparsed_fixed`), re-reads (`entryOut_unparsed`) and never trips the panic guard.
-/
namespace Deb822Verif.Rel

/-- blanks the relations lexer skips at the start: space, tab, CR, LF -/
def isWsNl (c : Char) : Bool := isWs c || c == '\n'

theorem punct_ws (c : Char) (h : isWs c = true) : punct c = none := by
  simp only [isWs, Bool.or_eq_true, beq_iff_eq] at h
  rcases h with (rfl | rfl) | rfl <;> decide

theorem dropWhile_dropWhile_imp {α} (p q : α → Bool) (hpq : ∀ x, p x = true → q x = true) (l : List α) :
    (l.dropWhile p).dropWhile q = l.dropWhile q := by
  induction l with
  | nil => rfl
  | cons a r ih =>
    by_cases hp : p a = true
    · rw [List.dropWhile_cons_of_pos hp, ih, List.dropWhile_cons_of_pos (hpq a hp)]
    · rw [List.dropWhile_cons_of_neg hp]

theorem skipWs_cons_pos (t : Tok) (ts : List Tok) (h : isWsKind t.1 = true) :
    (skipWs (t :: ts)).rest = (skipWs ts).rest := by
  simp only [skipWs, h, ↓reduceIte]

theorem skipWs_cons_neg (t : Tok) (ts : List Tok) (h : isWsKind t.1 = false) :
    (skipWs (t :: ts)).rest = t :: ts := by
  simp only [skipWs, h, Bool.false_eq_true, ↓reduceIte]

/-- the tokens left after the initial `skip_ws()` do not depend on the leading blanks of the text -/
theorem skipWs_lex_lead (n : Nat) : ∀ s : Str, s.length ≤ n →
    (skipWs (lex s)).rest = (skipWs (lex (s.dropWhile isWsNl))).rest := by
  induction n with
  | zero =>
    intro s hs
    have : s = [] := List.length_eq_zero_iff.1 (Nat.le_zero.1 hs)
    subst this; rfl
  | succ n ih =>
    intro s hs
    cases s with
    | nil => rfl
    | cons c rest =>
      have hlen : rest.length ≤ n := by simp at hs; omega
      by_cases hnl : c = '\n'
      · subst hnl
        have hd : ('\n' :: rest).dropWhile isWsNl = rest.dropWhile isWsNl :=
          List.dropWhile_cons_of_pos (by decide)
        rw [hd, lex_cons]
        have hstep : lexStep '\n' rest = ((.NEWLINE, ['\n']), rest) := by
          simp [lexStep, punct]
        rw [hstep, skipWs_cons_pos _ _ (by rfl)]
        exact ih rest hlen
      · by_cases hw : isWs c = true
        · have hd : (c :: rest).dropWhile isWsNl = rest.dropWhile isWsNl :=
            List.dropWhile_cons_of_pos (by simp [isWsNl, hw])
          rw [hd, lex_cons]
          have hstep : lexStep c rest
              = ((.WHITESPACE, c :: rest.takeWhile isWs), rest.dropWhile isWs) := by
            simp only [lexStep, punct_ws c hw, hw, ↓reduceIte]
          rw [hstep, skipWs_cons_pos _ _ (by rfl)]
          rw [ih (rest.dropWhile isWs) (Nat.le_trans (length_dropWhile_le _ _) hlen)]
          rw [dropWhile_dropWhile_imp isWs isWsNl (fun x hx => by simp [isWsNl, hx])]
        · have hd : (c :: rest).dropWhile isWsNl = c :: rest :=
            List.dropWhile_cons_of_neg (by simp [isWsNl, hw, hnl])
          rw [hd]

/-- **the relations parser's errors depend only on the text behind its leading blanks** -/
theorem parse_errors_lead (a b : Str) (allow : Bool) (h : a.dropWhile isWsNl = b.dropWhile isWsNl) :
    (parse a allow).errors = (parse b allow).errors := by
  show (rootLoop allow (skipWs (lex a)).rest).errs = (rootLoop allow (skipWs (lex b)).rest).errs
  rw [skipWs_lex_lead _ a (Nat.le_refl _), skipWs_lex_lead _ b (Nat.le_refl _), h]

end Deb822Verif.Rel

namespace Deb822Verif.Ctl
open Deb822Verif Deb Node Spec

theorem ws3_wsNl (c : Char) (h : isWs3 c = true) : Rel.isWsNl c = true := by
  simp only [isWs3, isIndent, Bool.or_eq_true, beq_iff_eq] at h
  rcases h with (rfl | rfl) | rfl <;> decide

theorem dropWhile_append_all {α} (p : α → Bool) (a b : List α) (ha : ∀ x ∈ a, p x = true) :
    (a ++ b).dropWhile p = b.dropWhile p := by
  induction a with
  | nil => rfl
  | cons x r ih =>
    rw [List.cons_append, List.dropWhile_cons_of_pos (ha x (by simp))]
    exact ih fun y hy => ha y (by simp [hy])

/-- WHITESPACE / NEWLINE tokens of a well-formed field's content consist of blanks -/
theorem cts_wsToks (e : EntryS) (hwf : e.WF) : WsToks e.cts := by
  rw [← fmtToks_rawText e hwf, fmtToks_eq _ (rawText_nocr e hwf)]
  exact linesToks_wsToks _

/-- the raw text of a well-formed field: blanks, then its value lines joined by LF -/
theorem rawText_lead (e : EntryS) (hwf : e.WF) :
    ∃ lead, WsOnly lead ∧ rawText e = lead ++ tokText (joinNL e.valueLines) := by
  obtain ⟨pre, he, hp⟩ := rbStrip_suffix e.cts
  refine ⟨tokText pre, ?_, ?_⟩
  · apply wsOnly_tokText pre _ hp
    intro t ht hq
    exact cts_wsToks e hwf t (by rw [he]; simp [ht]) hq
  · unfold rawText
    rw [← cts_strip, ← tokText_append, ← he]

/-- what follows the leading blanks of the raw text is unchanged by the reformatting -/
theorem rawText_wrap_lead (cfg : WrapCfg) (e : EntryS) (hwf : e.WF) (hc : IndentOK cfg) :
    (rawText (e.wrap cfg)).dropWhile Rel.isWsNl = (rawText e).dropWhile Rel.isWsNl := by
  obtain ⟨l1, h1, e1⟩ := rawText_lead e hwf
  obtain ⟨l2, h2, e2⟩ := rawText_lead (e.wrap cfg) (wrap_wf cfg e hwf hc)
  rw [e1, e2, wrap_valueLines cfg e hwf,
    dropWhile_append_all _ l1 _ (fun x hx => ws3_wsNl x (h1 x hx)),
    dropWhile_append_all _ l2 _ (fun x hx => ws3_wsNl x (h2 x hx))]

/-- a relationship field does not parse strictly (`format_field` then leaves it alone) -/
def Unparsed (v : Str) : Prop := (Rel.parse v true).errors ≠ []

theorem formatFieldO_unparsed (k v : Str) (hk : relFields.contains k = true) (hu : Unparsed v) :
    formatFieldO k v = some v := by
  unfold formatFieldO
  rw [if_neg (rel_ne_uploaders k hk), if_pos hk]
  have : (!(Rel.parse v true).errors.isEmpty) = true := by
    cases h : (Rel.parse v true).errors with
    | nil => exact absurd h hu
    | cons a r => rfl
  rw [if_pos this]

theorem formatField_unparsed (k v : Str) (hk : relFields.contains k = true) (hu : Unparsed v) :
    formatField k v = v := by
  simp [formatField, formatFieldO_unparsed k v hk hu]

/-- a field that does not parse still does not parse after the first pass -/
theorem unparsed_wrap (cfg : WrapCfg) (e : EntryS) (hwf : e.WF) (hc : IndentOK cfg)
    (hu : Unparsed (rawText e)) : Unparsed (rawText (e.wrap cfg)) := by
  unfold Unparsed at hu ⊢
  rw [Rel.parse_errors_lead _ _ true (rawText_wrap_lead cfg e hwf hc)]
  exact hu

/-- **formatter path, fixed point for a field the formatter leaves alone on both passes**
    (generalises `entryWrap_other_fixed`: the formatter need only be the identity on the raw text
    of the field and on the raw text of the reformatted field) -/
theorem entryWrap_id_fixed (cfg : WrapCfg) (f : Str → Str → Str) (e : EntryS) (more : Bool)
    (hwf : e.WF) (ht : e.Term more) (hc : IndentOK cfg)
    (hid1 : f e.key (rawText e) = rawText e)
    (hid2 : f e.key (rawText (e.wrap cfg)) = rawText (e.wrap cfg)) :
    entryWrap cfg (some f) e.node = some (e.wrap cfg).node
      ∧ entryWrap cfg (some f) (e.wrap cfg).node = some (e.wrap cfg).node := by
  have h1 : entryWrap cfg (some f) e.node = some (e.wrap cfg).node := by
    rw [entryWrap_fmt_id cfg f e more hwf ht hc hid1]; exact entryWrap_node cfg e more hwf ht hc
  refine ⟨h1, ?_⟩
  have hwf' := wrap_wf cfg e hwf hc
  have ht' := termAll_term _ (wrap_termAll cfg e) true
  rw [entryWrap_fmt_id cfg f (e.wrap cfg) true hwf' ht' hc (by rw [wrap_key]; exact hid2)]
  exact entryWrap_idem cfg e.node _ (entryWrap_node cfg e more hwf ht hc)

/-- **a relationship field that does not parse strictly is an entry-level fixed point**: the first
    pass gives `(e.wrap cfg).node` (the no-formatter result), the second returns it -/
theorem entryWrap_unparsed_fixed (cfg : WrapCfg) (e : EntryS) (more : Bool)
    (hwf : e.WF) (ht : e.Term more) (hc : IndentOK cfg)
    (hk : relFields.contains e.key = true) (hu : Unparsed (rawText e)) :
    entryWrap cfg (some formatField) e.node = some (e.wrap cfg).node
      ∧ entryWrap cfg (some formatField) (e.wrap cfg).node = some (e.wrap cfg).node :=
  entryWrap_id_fixed cfg formatField e more hwf ht hc (formatField_unparsed _ _ hk hu)
    (formatField_unparsed _ _ hk (unparsed_wrap cfg e hwf hc hu))

/-- it is reformatted to the node of a well-formed, fully terminated field -/
theorem entryOut_unparsed (cfg : WrapCfg) (e : EntryS) (more : Bool)
    (hwf : e.WF) (ht : e.Term more) (hc : IndentOK cfg)
    (hk : relFields.contains e.key = true) (hu : Unparsed (rawText e)) :
    EntryOut cfg (some formatField) e (e.wrap cfg) :=
  ⟨(entryWrap_unparsed_fixed cfg e more hwf ht hc hk hu).1, wrap_wf cfg e hwf hc, wrap_termAll cfg e⟩

/-- the panic guard fires neither on the field nor on the reformatted field -/
theorem entryPanics_unparsed (cfg : WrapCfg) (e : EntryS) (more : Bool)
    (hwf : e.WF) (ht : e.Term more) (hc : IndentOK cfg)
    (hk : relFields.contains e.key = true) (hu : Unparsed (rawText e)) :
    entryPanics e.node = false ∧ entryPanics (e.wrap cfg).node = false := by
  constructor
  · rw [entryPanics_node e more ht, formatFieldO_unparsed _ _ hk hu]; rfl
  · rw [entryPanics_node (e.wrap cfg) true (termAll_term _ (wrap_termAll cfg e) true), wrap_key,
      formatFieldO_unparsed _ _ hk (unparsed_wrap cfg e hwf hc hu)]; rfl

end Deb822Verif.Ctl
